import sys, os; sys.path.insert(0, os.getcwd())

# str / bytes hashing is randomised per process; the digest prints set orders
# of string-keyed cases, so pin the hash seed (re-exec once if necessary).
if os.environ.get("PYTHONHASHSEED") != "0":
    os.environ["PYTHONHASHSEED"] = "0"
    os.execv(sys.executable, [sys.executable] + sys.argv)

"""
Differential digest for the C13 clean-up commit ("tidy the mixing-matrix
extractors").  Run with cwd = a gcmpy checkout.  Exercises, through the
public pre-existing entry points only,
  JointExcessDegree.get_ejk
  JointExcessJointDegree.__init__ / resolve_excess_degree_keys /
      count_edge_types / get_ejk / get_ejks
  JointExcessJointDegreeMatrices.__init__ / get_excess_degree_keys
on regular inputs, edge cases, error paths and repeated calls on one object,
and prints a deterministic digest (repr floats, dict / list order, exception
types, RNG states, inputs after the call).
"""

import hashlib
import random
import warnings

warnings.filterwarnings("ignore")

import numpy as np
import networkx as nx

from gcmpy.names.network_names import NetworkNames
from gcmpy.names.tools_names import ToolsNames
from gcmpy.tools.joint_excess_degree import JointExcessDegree
from gcmpy.tools.joint_excess_joint_degree import JointExcessJointDegree
from gcmpy.tools.joint_excess_joint_degree_matrices import (
    JointExcessJointDegreeMatrices,
)

JD = NetworkNames.JOINT_DEGREE
TOP = NetworkNames.TOPOLOGY

random.seed(20261004)
np.random.seed(20261004)


def out(*a):
    print(*a)


def rng_state():
    h = hashlib.sha256()
    h.update(repr(random.getstate()).encode())
    st = np.random.get_state()
    h.update(repr((st[0], st[1].tolist(), st[2], st[3], st[4])).encode())
    return h.hexdigest()[:16]


def graph_digest(G):
    return repr(
        (
            type(G).__name__,
            [(n, sorted(d.items(), key=repr)) for n, d in G.nodes(data=True)],
            [(u, v, sorted(d.items(), key=repr)) for u, v, d in G.edges(data=True)],
        )
    )


def show(x):
    """Order-preserving repr of nested results."""
    if isinstance(x, dict):
        return "{" + ", ".join(f"{show(k)}: {show(v)}" for k, v in x.items()) + "}"
    if isinstance(x, (list, tuple)):
        o, c = ("[", "]") if isinstance(x, list) else ("(", ")")
        return o + ", ".join(show(v) for v in x) + c
    return f"{type(x).__name__}:{x!r}"


def attempt(label, fn):
    try:
        r = fn()
        out(label, "->", show(r))
        return r
    except BaseException as e:  # noqa
        out(label, "-> EXC", type(e).__name__)
        return None


def annotate(G, edge_topology, names):
    for (u, v), t in edge_topology.items():
        G.edges[u, v][TOP] = t
    for n in G.nodes():
        jd = [0] * len(names)
        for m in G.neighbors(n):
            jd[names.index(G.edges[n, m][TOP])] += 1
        G.nodes[n][JD] = tuple(jd)
    return G


def random_annotated(n, m, names, seed, jd_type=tuple):
    G = nx.gnm_random_graph(n, m, seed=seed)
    r = random.Random(seed)
    annotate(G, {e: r.choice(names) for e in G.edges()}, names)
    for v in G.nodes():
        G.nodes[v][JD] = jd_type(G.nodes[v][JD])
    return G


def state(C):
    return show(
        {
            "num_edges": getattr(C, "_num_edges", "<none>"),
            "num_edges_type": type(getattr(C, "_num_edges", None)).__name__,
            "excess_keys": getattr(C, "_excess_degree_keys", "<none>"),
            "degree_keys": sorted(getattr(C, "_degree_keys", [])),
        }
    )


def mats(M):
    return show(
        {
            "ejks": M.ejks,
            "keys": M.excess_degree_keys,
            "names": M.topology_names,
        }
    )


# --------------------------------------------------------------------------
out("== 1. JointExcessDegree.get_ejk (overall-degree variant)")
graphs = {}
G = nx.cycle_graph(6)
G.add_edges_from([(0, 3), (1, 4)])
graphs["cycle+chords"] = G
graphs["cycle"] = nx.cycle_graph(5)
graphs["star"] = nx.star_graph(5)
graphs["path"] = nx.path_graph(4)
graphs["complete"] = nx.complete_graph(5)
graphs["single-edge"] = nx.path_graph(2)
graphs["empty"] = nx.empty_graph(4)
graphs["null"] = nx.Graph()
G = nx.path_graph(4)
G.add_edge(1, 1)
G.add_edge(3, 3)
graphs["self-loops"] = G
graphs["digraph"] = nx.DiGraph([(0, 1), (1, 2), (2, 0), (0, 2), (3, 0)])
graphs["multigraph"] = nx.MultiGraph([(0, 1), (0, 1), (1, 2), (2, 3), (3, 0), (1, 1)])
graphs["multidigraph"] = nx.MultiDiGraph([(0, 1), (0, 1), (1, 0), (1, 2)])
graphs["str-nodes"] = nx.Graph([("a", "b"), ("b", "c"), ("c", "a"), ("c", "d")])
graphs["subgraph-view"] = nx.complete_graph(6).subgraph([0, 1, 2, 4])
graphs["frozen"] = nx.freeze(nx.wheel_graph(6))
for s in range(8):
    graphs[f"gnm{s}"] = nx.gnm_random_graph(9 + s, 12 + 3 * s, seed=100 + s)
for s in range(4):
    graphs[f"ba{s}"] = nx.barabasi_albert_graph(12 + s, 2, seed=s)
graphs["regular"] = nx.random_regular_graph(3, 10, seed=5)

for name, G in graphs.items():
    before = graph_digest(G)
    for rep in range(3):
        attempt(f"JED[{name}]#{rep}", lambda: JointExcessDegree.get_ejk(G))
    out(f"JED[{name}] input unchanged:", before == graph_digest(G))
    r = JointExcessDegree.get_ejk(G)
    out(f"JED[{name}] sum", repr(sum(r.values())), "n", len(r))

for bad_name, bad in [
    ("None", None),
    ("list", [(0, 1)]),
    ("dict", {0: {1: {}}}),
    ("int", 3),
]:
    attempt(f"JED[bad {bad_name}]", lambda: JointExcessDegree.get_ejk(bad))
out("rng", rng_state())

# --------------------------------------------------------------------------
out("== 2. JointExcessJointDegree on annotated networks")
cases = {}
G = nx.cycle_graph(6)
G.add_edges_from([(0, 3), (1, 4)])
top = {e: "ring" for e in nx.cycle_graph(6).edges()}
top.update({(0, 3): "chord", (1, 4): "chord"})
cases["cycle+chords"] = (annotate(G, top, ["ring", "chord"]), ["ring", "chord"])
G = nx.star_graph(4)
G.add_edges_from([(10, 11), (11, 12), (12, 13)])
top = {e: "s" for e in nx.star_graph(4).edges()}
top.update({(10, 11): "p", (11, 12): "p", (12, 13): "p"})
cases["star+path"] = (annotate(G, top, ["s", "p"]), ["s", "p"])
for s in range(6):
    names = ["2-clique", "3-clique", "4-cycle"][: 1 + s % 3]
    cases[f"gnm{s}"] = (random_annotated(10 + s, 14 + 2 * s, names, 300 + s), names)
cases["list-jd"] = (random_annotated(9, 13, ["a", "b"], 77, jd_type=list), ["a", "b"])
cases["np-jd"] = (
    random_annotated(9, 13, ["a", "b"], 78, jd_type=lambda t: np.array(t)),
    ["a", "b"],
)
# a declared topology without any edge, and an undeclared topology on edges
G = random_annotated(8, 10, ["a", "b"], 79)
cases["edgeless-topology"] = (G, ["a", "b", "c"][:2] + [])
G2 = random_annotated(8, 10, ["a", "b"], 80)
for v in G2.nodes():
    G2.nodes[v][JD] = tuple(G2.nodes[v][JD]) + (0,)
cases["declared-unused"] = (G2, ["a", "b", "ghost"])
G3 = random_annotated(8, 10, ["a", "b"], 81)
cases["undeclared-on-edges"] = (G3, ["a"])
cases["no-edges"] = (annotate(nx.empty_graph(3), {}, ["a"]), ["a"])
cases["null"] = (nx.Graph(), ["a"])
cases["no-topologies"] = (random_annotated(6, 7, ["a"], 82), [])
Gd = nx.DiGraph([(0, 1), (1, 2), (2, 0)])
for e in Gd.edges():
    Gd.edges[e][TOP] = "a"
for v in Gd.nodes():
    Gd.nodes[v][JD] = (2,)
cases["digraph"] = (Gd, ["a"])
Gs = nx.path_graph(3)
Gs.add_edge(1, 1)
for e in Gs.edges():
    Gs.edges[e][TOP] = "a"
for v in Gs.nodes():
    Gs.nodes[v][JD] = (Gs.degree(v),)
cases["self-loop"] = (Gs, ["a"])

for cname, (G, names) in cases.items():
    before = graph_digest(G)
    params = {ToolsNames.NETWORK: G, ToolsNames.EDGE_NAMES: names}

    def build():
        return JointExcessJointDegree(params)

    try:
        C = build()
    except BaseException as e:  # noqa
        out(f"JEJD[{cname}] ctor EXC", type(e).__name__)
        continue
    out(f"JEJD[{cname}] after ctor", state(C))
    # direct get_ejk before any count: the counter is still empty
    for i, t in enumerate(names):
        attempt(f"JEJD[{cname}] get_ejk({i},{t}) pre-count", lambda: C.get_ejk(i, t))
    for rep in range(3):
        M = attempt(f"JEJD[{cname}] get_ejks#{rep}", lambda: mats(C.get_ejks()))
        out(f"JEJD[{cname}] state#{rep}", state(C))
    attempt(f"JEJD[{cname}] count", lambda: C.count_edge_types())
    attempt(f"JEJD[{cname}] count again", lambda: C.count_edge_types())
    out(f"JEJD[{cname}] state", state(C))
    for i, t in enumerate(names):
        attempt(f"JEJD[{cname}] get_ejk({i},{t})", lambda: C.get_ejk(i, t))
        attempt(f"JEJD[{cname}] get_ejk({i},nope)", lambda: C.get_ejk(i, "nope"))
    attempt(f"JEJD[{cname}] get_ejk(99,first)", lambda: C.get_ejk(99, (names or ["a"])[0]))
    attempt(f"JEJD[{cname}] get_ejk(-1,first)", lambda: C.get_ejk(-1, (names or ["a"])[0]))
    attempt(f"JEJD[{cname}] resolve again", lambda: C.resolve_excess_degree_keys())
    out(f"JEJD[{cname}] state", state(C))
    M1 = C.get_ejks() if names is not None else None
    M2 = C.get_ejks()
    out(f"JEJD[{cname}] fresh object per query:", M1 is not M2, M1.ejks is not M2.ejks)
    out(f"JEJD[{cname}] keys shared with extractor:", M2.excess_degree_keys is C._excess_degree_keys)
    out(f"JEJD[{cname}] input unchanged:", before == graph_digest(G))
out("rng", rng_state())

# --------------------------------------------------------------------------
out("== 3. one extractor, network edited between queries")
G = random_annotated(10, 16, ["a", "b"], 400)
C = JointExcessJointDegree({ToolsNames.NETWORK: G, ToolsNames.EDGE_NAMES: ["a", "b"]})
out("q0", mats(C.get_ejks()), state(C))
e = [e for e in G.edges() if G.edges[e][TOP] == "a"][0]
G.remove_edge(*e)
for v in e:
    jd = list(G.nodes[v][JD])
    jd[0] -= 1
    G.nodes[v][JD] = tuple(jd)
# stale counter used by a direct get_ejk, then refreshed by get_ejks
attempt("q1 direct a", lambda: C.get_ejk(0, "a"))
out("q1 state", state(C))
out("q1", mats(C.get_ejks()), state(C))
# remove every 'b' edge: the topology disappears from the counter
for e in [e for e in G.edges() if G.edges[e][TOP] == "b"]:
    G.remove_edge(*e)
out("q2", mats(C.get_ejks()), state(C))
attempt("q2 direct b", lambda: C.get_ejk(1, "b"))
# add an edge of a new topology, query it directly with the stale counter
G.add_edge(0, 9)
G.edges[0, 9][TOP] = "new"
attempt("q3 direct new", lambda: C.get_ejk(0, "new"))
attempt("q3 count", lambda: C.count_edge_types())
out("q3 state", state(C))
attempt("q3 direct new after count", lambda: C.get_ejk(0, "new"))
attempt("q3 resolve", lambda: C.resolve_excess_degree_keys())
out("q3 state", state(C))
out("rng", rng_state())

# --------------------------------------------------------------------------
out("== 4. error paths of the extractor")


def fresh(seed=500):
    G = nx.Graph()
    G.add_edges_from([(0, 1), (1, 2), (2, 3), (3, 0), (0, 2)])
    for e, t in zip(G.edges(), ["a", "a", "b", "a", "b"]):
        G.edges[e][TOP] = t
    annotate(G, {}, ["a", "b"])
    return G


# ctor errors
attempt("ctor no network", lambda: JointExcessJointDegree({ToolsNames.EDGE_NAMES: ["a"]}))
attempt("ctor no names", lambda: JointExcessJointDegree({ToolsNames.NETWORK: fresh()}))
attempt("ctor None", lambda: JointExcessJointDegree(None))
Gm = fresh()
del Gm.nodes[2][JD]
attempt(
    "ctor vertex without joint degree",
    lambda: JointExcessJointDegree({ToolsNames.NETWORK: Gm, ToolsNames.EDGE_NAMES: ["a", "b"]}),
)
Gm = fresh()
attempt(
    "ctor more names than entries",
    lambda: JointExcessJointDegree(
        {ToolsNames.NETWORK: Gm, ToolsNames.EDGE_NAMES: ["a", "b", "c"]}
    ),
)
Gm = fresh()
Gm.nodes[1][JD] = ("x", 1)
attempt(
    "ctor non-numeric joint degree",
    lambda: JointExcessJointDegree({ToolsNames.NETWORK: Gm, ToolsNames.EDGE_NAMES: ["a", "b"]}),
)

# an edge without topology, in every position
for pos in range(5):
    G = fresh()
    C = JointExcessJointDegree({ToolsNames.NETWORK: G, ToolsNames.EDGE_NAMES: ["a", "b"]})
    if pos % 2:
        C.get_ejks()  # a successful count first
    e = list(G.edges())[pos]
    del G.edges[e][TOP]
    attempt(f"missing-topology@{pos} get_ejks", lambda: mats(C.get_ejks()))
    out(f"missing-topology@{pos} state", state(C))
    attempt(f"missing-topology@{pos} count", lambda: C.count_edge_types())
    out(f"missing-topology@{pos} state", state(C))
    attempt(f"missing-topology@{pos} direct a", lambda: C.get_ejk(0, "a"))
    attempt(f"missing-topology@{pos} direct b", lambda: C.get_ejk(1, "b"))
    # repair the network, query directly without recounting, then fully
    G.edges[e][TOP] = "a"
    attempt(f"missing-topology@{pos} repaired direct a", lambda: C.get_ejk(0, "a"))
    attempt(f"missing-topology@{pos} repaired direct b", lambda: C.get_ejk(1, "b"))
    out(f"missing-topology@{pos} state", state(C))
    attempt(f"missing-topology@{pos} repaired get_ejks", lambda: mats(C.get_ejks()))
    out(f"missing-topology@{pos} state", state(C))

# an unhashable topology label, in every position
for pos in range(5):
    G = fresh()
    C = JointExcessJointDegree({ToolsNames.NETWORK: G, ToolsNames.EDGE_NAMES: ["a", "b"]})
    if pos % 2 == 0:
        C.get_ejks()
    e = list(G.edges())[pos]
    G.edges[e][TOP] = ["a"]
    attempt(f"unhashable-topology@{pos} get_ejks", lambda: mats(C.get_ejks()))
    out(f"unhashable-topology@{pos} state", state(C))
    attempt(f"unhashable-topology@{pos} direct a", lambda: C.get_ejk(0, "a"))
    attempt(f"unhashable-topology@{pos} direct b", lambda: C.get_ejk(1, "b"))
    out(f"unhashable-topology@{pos} state", state(C))

# equal-but-distinct topology labels (1, 1.0, True) and non-string labels
G = fresh()
for e, t in zip(G.edges(), [1, 1.0, True, 2, (3, 4)]):
    G.edges[e][TOP] = t
C = JointExcessJointDegree({ToolsNames.NETWORK: G, ToolsNames.EDGE_NAMES: [1, 2]})
attempt("numeric labels get_ejks", lambda: mats(C.get_ejks()))
out("numeric labels state", state(C))

# joint degrees damaged after construction: which failure is seen first
G = fresh()
C = JointExcessJointDegree({ToolsNames.NETWORK: G, ToolsNames.EDGE_NAMES: ["a", "b"]})
C.count_edge_types()
u, v = list(G.edges())[0]
saved_u, saved_v = G.nodes[u][JD], G.nodes[v][JD]
G.nodes[u][JD] = ()  # too short -> IndexError on decrement
del G.nodes[v][JD]  # missing -> KeyError on look-up
attempt("u short, v missing", lambda: C.get_ejk(0, "a"))
G.nodes[u][JD] = ("x", "y")  # TypeError on decrement
attempt("u non-numeric, v missing", lambda: C.get_ejk(0, "a"))
G.nodes[u][JD] = 7  # TypeError on list()
attempt("u not iterable, v missing", lambda: C.get_ejk(0, "a"))
G.nodes[v][JD] = ()
G.nodes[u][JD] = ("x", "y")
attempt("u non-numeric, v short", lambda: C.get_ejk(0, "a"))
G.nodes[u][JD] = ()
G.nodes[v][JD] = ("x", "y")
attempt("u short, v non-numeric", lambda: C.get_ejk(0, "a"))
G.nodes[u][JD] = saved_u
G.nodes[v][JD] = 7
attempt("u fine, v not iterable", lambda: C.get_ejk(0, "a"))
del G.nodes[u][JD]
attempt("u missing, v not iterable", lambda: C.get_ejk(0, "a"))
G.nodes[u][JD] = saved_u
G.nodes[v][JD] = saved_v
attempt("restored", lambda: C.get_ejk(0, "a"))
attempt("restored get_ejks", lambda: mats(C.get_ejks()))
# float joint degrees and numpy integers
G = fresh()
for n in G.nodes():
    G.nodes[n][JD] = tuple(float(x) for x in G.nodes[n][JD])
C = JointExcessJointDegree({ToolsNames.NETWORK: G, ToolsNames.EDGE_NAMES: ["a", "b"]})
attempt("float joint degrees", lambda: mats(C.get_ejks()))
out("float joint degrees state", state(C))
G = fresh()
for n in G.nodes():
    G.nodes[n][JD] = tuple(np.int64(x) for x in G.nodes[n][JD])
C = JointExcessJointDegree({ToolsNames.NETWORK: G, ToolsNames.EDGE_NAMES: ["a", "b"]})
attempt("numpy joint degrees", lambda: mats(C.get_ejks()))
out("numpy joint degrees state", state(C))
# joint degrees held as one-shot iterators: consumed by the constructor
G = fresh()
for n in G.nodes():
    G.nodes[n][JD] = iter(G.nodes[n][JD])
attempt(
    "iterator joint degrees",
    lambda: mats(
        JointExcessJointDegree(
            {ToolsNames.NETWORK: G, ToolsNames.EDGE_NAMES: ["a", "b"]}
        ).get_ejks()
    ),
)
# multigraph: edge look-up by pair is not supported
Gmg = nx.MultiGraph([(0, 1), (0, 1), (1, 2)])
for u, v, k in Gmg.edges(keys=True):
    Gmg.edges[u, v, k][TOP] = "a"
for n in Gmg.nodes():
    Gmg.nodes[n][JD] = (Gmg.degree(n),)
attempt(
    "multigraph",
    lambda: mats(
        JointExcessJointDegree(
            {ToolsNames.NETWORK: Gmg, ToolsNames.EDGE_NAMES: ["a"]}
        ).get_ejks()
    ),
)
out("rng", rng_state())

# --------------------------------------------------------------------------
out("== 5. JointExcessJointDegreeMatrices.get_excess_degree_keys")
r = random.Random(9)


def rand_ejk(width, n):
    d = {}
    for _ in range(n):
        a = tuple(r.randrange(4) for _ in range(width))
        b = tuple(r.randrange(4) for _ in range(width))
        d[a + b] = d.get(a + b, 0) + 0.5
        d[b + a] = d.get(b + a, 0) + 0.5
    return d


ejk_cases = {
    "two-topologies": {"a": rand_ejk(2, 12), "b": rand_ejk(2, 7)},
    "three-topologies": {"x": rand_ejk(3, 20), "y": rand_ejk(3, 3), "z": rand_ejk(3, 9)},
    "width-one": {"a": rand_ejk(1, 9)},
    "empty-matrix": {"a": {}, "b": rand_ejk(2, 2)},
    "no-topology": {},
    "odd-length-keys": {"a": {(1, 2, 3): 1.0, (4,): 0.5, (): 0.1}},
    "string-keys": {"a": {"abcd": 1.0, "xy": 0.5, "": 0.2}},
    "bytes-keys": {"a": {b"abcd": 1.0}},
    "range-keys": {"a": {range(4): 1.0}},
    "frozenset-keys": {"a": {frozenset([5, 7]): 1.0, frozenset(): 0.3}},
    "list-valued": {"a": [(0, 1, 1, 0), (1, 0, 0, 1), (2, 2, 2, 2)]},
    "int-keys": {"a": {3: 1.0}},
    "none-matrix": {"a": None},
    "nested-tuple-keys": {"a": {((0, 1), (1, 0)): 1.0, ((2,), (3,), (4,)): 0.5}},
    "float-entries": {"a": {(0.0, 1.0, 1.0, 0.0): 0.5, (1, 0, 0, 1): 0.5}},
}
for cname, ejks in ejk_cases.items():
    snapshot = show(ejks)
    names = list(ejks)

    def build():
        return JointExcessJointDegreeMatrices(
            {ToolsNames.EJKS: ejks, ToolsNames.EDGE_NAMES: names}
        )

    M = attempt(f"JEJDM[{cname}] ctor", lambda: mats(build()))
    try:
        M = build()
    except BaseException as e:  # noqa
        M = JointExcessJointDegreeMatrices()
        M.ejks = ejks
        M.topology_names = names
    for rep in range(2):
        attempt(f"JEJDM[{cname}] keys#{rep}", lambda: M.get_excess_degree_keys())
        out(f"JEJDM[{cname}] view#{rep}", show(M.excess_degree_keys))
    out(f"JEJDM[{cname}] same ejks object:", M.ejks is ejks, "unchanged:", snapshot == show(ejks))

# keys recomputed after the matrices are replaced / grown
M = JointExcessJointDegreeMatrices()
out("empty object", mats(M))
attempt("empty keys", lambda: M.get_excess_degree_keys())
out("empty object", mats(M))
M.ejks = {"a": rand_ejk(2, 5)}
M.topology_names = ["a"]
old = M.excess_degree_keys
M.get_excess_degree_keys()
out("grown", mats(M), "new dict:", M.excess_degree_keys is not old)
M.ejks["b"] = rand_ejk(2, 4)
M.ejks["a"][(9, 9, 8, 8)] = 0.25
M.get_excess_degree_keys()
out("grown again", mats(M))
attempt("params without names", lambda: JointExcessJointDegreeMatrices({ToolsNames.EJKS: {}}))
attempt("params without ejks", lambda: JointExcessJointDegreeMatrices({ToolsNames.EDGE_NAMES: []}))
for t in ["a", "b", "zzz"]:
    attempt(f"topology index {t}", lambda: M.get_topology_index(t))

# round trip: extractor output fed back into the matrices class
for s in range(4):
    names = ["a", "b", "c"][: 1 + s % 3]
    G = random_annotated(12, 20, names, 900 + s)
    X = JointExcessJointDegree({ToolsNames.NETWORK: G, ToolsNames.EDGE_NAMES: names}).get_ejks()
    Y = JointExcessJointDegreeMatrices({ToolsNames.EJKS: X.ejks, ToolsNames.EDGE_NAMES: names})
    out(f"roundtrip{s}", mats(X))
    out(f"roundtrip{s}", mats(Y))
out("rng", rng_state())

# --------------------------------------------------------------------------
out("== 6. class surface")
for cls in (JointExcessDegree, JointExcessJointDegree, JointExcessJointDegreeMatrices):
    public = sorted(n for n in vars(cls) if not n.startswith("_"))
    out(cls.__name__, public)
out("final rng", rng_state())
