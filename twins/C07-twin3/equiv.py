"""Equivalence digest for the C07 optimisation (split-degree and delta loaders).

Run with cwd = a checkout of gcmpy.  Prints a deterministic transcript:
bit-exact floats (repr / float.hex), dict insertion orders, the order of calls
made to the user supplied degree function, exceptions (type + message), the
state of the RNGs afterwards and the state of every input handed in.
"""
import copy
import hashlib
import itertools
import math
import os
import random
import sys

sys.path.insert(0, os.getcwd())

import numpy as np  # noqa: E402

from gcmpy.joint_degree.joint_degree_loaders.joint_degree_split_degree import (  # noqa: E402
    JointDegreeSplitDegree,
)
from gcmpy.joint_degree.joint_degree_loaders.joint_degree_delta import (  # noqa: E402
    JointDegreeDelta,
)
from gcmpy.names.joint_degree_names import JointDegreeNames as N  # noqa: E402

random.seed(20261003)
np.random.seed(20261003)

LINES = []


def emit(*parts):
    line = " ".join(str(p) for p in parts)
    LINES.append(line)
    print(line)


def fx(v):
    """bit exact rendering"""
    if isinstance(v, bool):
        return repr(v)
    if isinstance(v, float):
        return "f:" + repr(v) + ":" + (v.hex() if math.isfinite(v) else "nonfinite")
    if isinstance(v, (np.floating,)):
        return "npf:" + type(v).__name__ + ":" + repr(float(v)) + ":" + float(v).hex()
    if isinstance(v, complex):
        return "c:" + repr(v)
    if isinstance(v, dict):
        return "{" + ", ".join(fx(k) + ": " + fx(x) for k, x in v.items()) + "}"
    if isinstance(v, tuple):
        return "(" + ", ".join(fx(x) for x in v) + ")"
    if isinstance(v, list):
        return "[" + ", ".join(fx(x) for x in v) + "]"
    if type(v).__repr__ is object.__repr__:
        return type(v).__name__ + ":<object>"  # no memory addresses in the transcript
    return type(v).__name__ + ":" + repr(v)


def rng_digest():
    h = hashlib.sha256()
    h.update(repr(random.getstate()).encode())
    st = np.random.get_state()
    h.update(repr((st[0], st[1].tobytes(), st[2], st[3], st[4])).encode())
    return h.hexdigest()


class Fp:
    """degree function recording every call, optionally drawing random numbers"""

    def __init__(self, kind, draw=False):
        self.kind = kind
        self.draw = draw
        self.calls = []

    def __call__(self, k):
        self.calls.append(k)
        if self.kind == "poisson":
            v = math.exp(-2.5) * 2.5 ** k / math.factorial(k) if k >= 0 else 0.125
        elif self.kind == "power":
            v = float(k + 1) ** -2.3 if k >= 0 else 0.5
        elif self.kind == "geom":
            v = 0.3 * 0.7 ** k
        elif self.kind == "int":
            v = k * k + 1
        elif self.kind == "zero":
            v = 0.0
        elif self.kind == "none":
            v = None
        elif self.kind == "np":
            v = np.float64(1.0) / np.float64(k + 3)
        elif self.kind == "raise_at_3":
            if k == 3:
                raise RuntimeError("fp exploded at 3")
            v = 1.0 / (k + 2)
        else:
            raise AssertionError(self.kind)
        if self.draw:
            v = v * (0.5 + random.random())
        return v

    def __repr__(self):
        return "Fp(%s,%s)" % (self.kind, self.draw)


def describe_obj(o):
    out = []
    for name in sorted(vars(o)):
        val = vars(o)[name]
        if isinstance(val, Fp):
            out.append("%s=%r calls=%r" % (name, val, val.calls))
        else:
            out.append("%s=%s" % (name, fx(val)))
    return "; ".join(out)


def attempt(label, fn):
    try:
        res = fn()
        emit(label, "->", fx(res))
        return res
    except BaseException as e:  # noqa: BLE001
        emit(label, "!!", type(e).__name__, repr(str(e)))
        return None


def params_for(cls, fp, probs, motif_sizes, bound, target=None):
    p = {
        N.FP: fp,
        N.PROBS: probs,
        N.MOTIF_SIZES: motif_sizes,
        N.LOW_HIGH_DEGREE_BOUND: bound,
    }
    if cls is JointDegreeDelta:
        p[N.TARGET_K] = target
    return p


def describe_params(p):
    out = []
    for key, val in p.items():
        if isinstance(val, Fp):
            out.append("%s=%r calls=%r" % (key.name, val, val.calls))
        else:
            out.append("%s=%s" % (key.name, fx(val)))
    return "; ".join(out)


def build(label, cls, p):
    emit("== build", label, cls.__name__)
    keys_before = list(p.keys())
    try:
        o = cls(p)
    except BaseException as e:  # noqa: BLE001
        emit("   ctor !!", type(e).__name__, repr(str(e)))
        emit("   params after:", describe_params(p))
        emit("   rng:", rng_digest())
        return None
    emit("   keys unchanged:", keys_before == list(p.keys()))
    emit("   params after:", describe_params(p))
    emit("   obj:", describe_obj(o))
    emit("   jdd:", fx(o._jdd))
    emit("   jdd sum:", fx(sum(o._jdd.values())) if o._jdd else "empty")
    emit("   identity: probs", o._probs is p[N.PROBS], "motifs", o._motif_sizes is p[N.MOTIF_SIZES],
         "bound", o._low_high_degree_bound is p[N.LOW_HIGH_DEGREE_BOUND], "fp", o._fp is p[N.FP])
    emit("   rng:", rng_digest())
    return o


# ---------------------------------------------------------------------------
# 1. constructors over a grid of ordinary inputs
# ---------------------------------------------------------------------------
CASES = [
    ("poisson", [0.6, 0.4], [2, 3], (0, 8)),
    ("poisson", [0.6, 0.4], [2, 3], (1, 12)),
    ("power", [0.5, 0.3, 0.2], [2, 3, 4], (0, 10)),
    ("power", [0.25, 0.25, 0.25, 0.25], [2, 3, 4, 5], (2, 9)),
    ("geom", [1.0], [2], (0, 6)),
    ("geom", [0.9, 0.1], (2, 3), [3, 7]),
    ("int", [1, 1], [2, 3], (0, 5)),
    ("int", [2, 3, 5], [2, 3, 4], (0, 7)),
    ("np", [np.float64(0.7), np.float64(0.3)], [2, 3], (0, 6)),
    ("poisson", [0.6, 0.4], [2, 3], (5, 5)),        # empty range
    ("poisson", [0.6, 0.4], [2, 3], (7, 3)),        # reversed range
    ("power", [0.6, 0.4], [2, 3], (-3, 3)),         # negative degrees
    ("power", [0.6, 0.4, 0.1], [2, 3, 4], (-4, 2)),
    ("poisson", [0.0, 1.0], [2, 3], (0, 6)),        # zero probability topology
    ("poisson", [0.0, 0.0], [2, 3], (0, 6)),        # all zero (k=0 fine, k=1 divides by zero)
    ("poisson", [0.0, 0.0], [2, 3], (1, 6)),
    ("zero", [0.6, 0.4], [2, 3], (0, 5)),           # normalise divides by zero
    ("none", [0.6, 0.4], [2, 3], (0, 5)),           # fp returns None
    ("raise_at_3", [0.6, 0.4], [2, 3], (0, 6)),
    ("poisson", [], [2, 3], (0, 4)),                # no topologies
    ("poisson", [0.6, 0.4], [], (0, 4)),            # no motif sizes
    ("poisson", [0.6, 0.4], None, (0, 4)),          # motif sizes without len
    ("poisson", [0.6, 0.4], None, (4, 4)),          # ... and empty range
    ("poisson", [0.6, 0.4], [2, 3], (0, 4, 99)),    # over-long bound
    ("poisson", [0.6, 0.4], [2, 3], (0,)),          # short bound
    ("poisson", [0.6, 0.4], [2, 3], (0.0, 4.0)),    # float bound
    ("poisson", [0.6, 0.4], [2, 3], None),
    ("poisson", None, [2, 3], (0, 4)),
    ("poisson", [0.6, "x"], [2, 3], (0, 4)),
    ("poisson", [0.6 + 0.1j, 0.4], [2, 3], (0, 5)),
    ("poisson", [float("inf"), 0.4], [2, 3], (0, 4)),
    ("poisson", [float("nan"), 0.4], [2, 3], (0, 4)),
    ("poisson", [-0.5, 0.4], [2, 3], (0, 6)),
    ("power", [1e-200, 1e-200], [2, 3], (0, 6)),    # underflow
    ("power", [1e200, 1e200], [2, 3], (0, 6)),      # overflow in pow
]

objs = []
for idx, (kind, probs, motifs, bound) in enumerate(CASES):
    for draw in (False, True):
        if draw and idx % 3:
            continue
        fp = Fp(kind, draw)
        p = params_for(JointDegreeSplitDegree, fp, copy.deepcopy(probs), copy.deepcopy(motifs),
                       copy.deepcopy(bound))
        o = build("split#%d draw=%s" % (idx, draw), JointDegreeSplitDegree, p)
        if o is not None:
            objs.append(("split#%d" % idx, o, p))
        for target in (3, 0, -1, 100, 3.0, None):
            if target not in (3, 0) and idx % 4:
                continue
            fp = Fp(kind, draw)
            p = params_for(JointDegreeDelta, fp, copy.deepcopy(probs), copy.deepcopy(motifs),
                           copy.deepcopy(bound), target)
            o = build("delta#%d target=%r draw=%s" % (idx, target, draw), JointDegreeDelta, p)
            if o is not None:
                objs.append(("delta#%d/%r" % (idx, target), o, p))

# missing keys / junk params
for cls in (JointDegreeSplitDegree, JointDegreeDelta):
    for drop in (N.FP, N.PROBS, N.MOTIF_SIZES, N.LOW_HIGH_DEGREE_BOUND, N.TARGET_K):
        p = params_for(cls, Fp("poisson"), [0.6, 0.4], [2, 3], (0, 5), 2)
        p.pop(drop, None)
        build("missing %s" % drop.name, cls, p)
    attempt("ctor(None) " + cls.__name__, lambda: cls(None))
    attempt("ctor({}) " + cls.__name__, lambda: cls({}))

# ---------------------------------------------------------------------------
# 2. every changed method called directly, repeatedly, on the same objects
# ---------------------------------------------------------------------------
emit("== direct method calls")
for label, o, p in objs:
    emit("-- object", label, type(o).__name__)
    # generator: full, repeated, partially consumed, interleaved
    for rem, top in [(0, 1), (5, 1), (5, 2), (6, 3), (7, 4), (0, 3), (-1, 2), (-2, 2), (-5, 3),
                     (4, 0), (4, -1), (3, 5), (True, 2), (4, True)]:
        attempt("   gvjd(%r,%r)" % (rem, top), lambda: list(o.get_valid_joint_degrees(rem, top)))
    attempt("   gvjd(5.0,2)", lambda: list(o.get_valid_joint_degrees(5.0, 2)))
    attempt("   gvjd(5,2.0)", lambda: list(o.get_valid_joint_degrees(5, 2.0)))
    attempt("   gvjd(5,'a')", lambda: list(o.get_valid_joint_degrees(5, "a")))
    attempt("   gvjd(None,2)", lambda: list(o.get_valid_joint_degrees(None, 2)))
    g1 = o.get_valid_joint_degrees(9, 3)
    g2 = o.get_valid_joint_degrees(9, 3)
    attempt("   gvjd type", lambda: type(g1).__name__)
    inter = []
    for a, b in itertools.islice(zip(g1, g2), 4):
        a.append("mutated")  # rows handed out must be independent lists
        inter.append((a, b))
    emit("   gvjd interleaved:", fx(inter))
    emit("   gvjd rest:", fx(list(g1)), fx(list(g2)))
    rows = list(o.get_valid_joint_degrees(6, 3))
    emit("   gvjd rows distinct objects:", len({id(r) for r in rows}) == len(rows))

    for jd in [(), (0,), (3,), (1, 1), (2, 0), (0, 2), (1, 1, 1), (0, 0, 0, 4), (1, 2, 3, 4, 5),
               [2, 1], (1.5, 0.5), (-1, 2), (True, False), ("a", 1), (None,)]:
        attempt("   cpjd(%r)" % (jd,), lambda: o.calc_prob_of_joint_degree(jd))
    attempt("   cpjd(gen)", lambda: o.calc_prob_of_joint_degree(x for x in (1, 1)))
    attempt("   cpjd(None)", lambda: o.calc_prob_of_joint_degree(None))

    # resolve_degree repeatedly on the same object, including overwrites
    for k, pk in [(0, 0.25), (4, 0.5), (4, 0.125), (7, 1), (-1, 0.3), (-3, 0.3), (2, 0.0),
                  (3, None), (3, "s"), (5, np.float64(0.2)), (2.0, 0.1), (None, 0.1)]:
        before_id = id(o._jdd)
        attempt("   resolve(%r,%r)" % (k, pk), lambda: o.resolve_degree(k, pk))
        emit("      jdd same object:", before_id == id(o._jdd), "jdd:", fx(o._jdd))
    attempt("   normalise", lambda: o.normalise_jdd())
    emit("      jdd:", fx(o._jdd))

    # create_jdd repeated on the same object: must rebuild from scratch
    for rep in range(2):
        old = o._jdd
        attempt("   create_jdd rep%d" % rep, lambda: o.create_jdd())
        emit("      fresh dict:", old is not o._jdd, "jdd:", fx(o._jdd))
        emit("      fp calls:", p[N.FP].calls)

    # sampling from the resulting distribution (consumes the RNG)
    attempt("   sample", lambda: o.sample_jds_from_jdd(7))
    emit("   obj after:", describe_obj(o))
    emit("   params after:", describe_params(p))
    emit("   rng:", rng_digest())

# ---------------------------------------------------------------------------
# 3. objects whose state is altered between calls / subclass hooks
# ---------------------------------------------------------------------------
emit("== altered state")
fp = Fp("power")
o = JointDegreeSplitDegree(params_for(JointDegreeSplitDegree, fp, [0.6, 0.4], [2, 3], (0, 6)))
o._probs = [0.2, 0.3, 0.5]
attempt("probs swapped create", lambda: o.create_jdd())
emit("   jdd:", fx(o._jdd), fp.calls)
o._probs.append(0.1)
attempt("probs appended resolve", lambda: o.resolve_degree(5, 0.5))
emit("   jdd:", fx(o._jdd))
o._low_high_degree_bound = [2, 4]
o._fp = Fp("geom")
attempt("bound+fp swapped create", lambda: o.create_jdd())
emit("   jdd:", fx(o._jdd), o._fp.calls)
o.jdd = {"keep": 1.0}
attempt("resolve into foreign dict", lambda: o.resolve_degree(3, 0.5))
emit("   jdd:", fx(o._jdd))
del o._jdd
attempt("resolve without _jdd k=3", lambda: o.resolve_degree(3, 0.5))
attempt("resolve without _jdd k=-2", lambda: o.resolve_degree(-2, 0.5))
o._probs = [0.0, 0.0, 0.0, 0.0]
attempt("resolve without _jdd zero probs", lambda: o.resolve_degree(3, 0.5))

d = JointDegreeDelta(params_for(JointDegreeDelta, Fp("poisson"), [0.6, 0.4], [2, 3], (0, 6), 4))
d._target_k = 2
attempt("delta target moved", lambda: d.create_jdd())
emit("   jdd:", fx(d._jdd), d._fp.calls)
d._motif_sizes = [2, 3, 4]
attempt("delta motif sizes grown", lambda: d.create_jdd())
emit("   jdd:", fx(d._jdd), d._fp.calls)
d._motif_sizes = []
attempt("delta motif sizes emptied", lambda: d.create_jdd())
emit("   jdd:", fx(d._jdd), d._fp.calls)
d._low_high_degree_bound = (2, 3)
attempt("delta only target, no motif sizes", lambda: d.create_jdd())
emit("   jdd:", fx(d._jdd), d._fp.calls)
d._motif_sizes = None
attempt("delta only target, motif sizes None", lambda: d.create_jdd())
emit("   jdd:", fx(d._jdd), d._fp.calls)


class Logged(JointDegreeSplitDegree):
    log = None

    def get_valid_joint_degrees(self, remaining_degree, topology):
        self.log.append(("gv", remaining_degree, topology))
        return super().get_valid_joint_degrees(remaining_degree, topology)

    def calc_prob_of_joint_degree(self, jd):
        self.log.append(("cp", tuple(jd)))
        return super().calc_prob_of_joint_degree(jd)

    def resolve_degree(self, k, prob_overall_k):
        self.log.append(("rd", k, prob_overall_k))
        return super().resolve_degree(k, prob_overall_k)

    def normalise_jdd(self):
        self.log.append(("nm", len(self._jdd)))
        return super().normalise_jdd()


class LoggedDelta(JointDegreeDelta, Logged):
    pass


for cls in (Logged, LoggedDelta):
    cls.log = log = []
    base = JointDegreeDelta if issubclass(cls, JointDegreeDelta) else JointDegreeSplitDegree
    o = attempt("logged ctor " + cls.__name__,
                lambda: cls(params_for(base, Fp("power"), [0.5, 0.3, 0.2], [2, 3, 4], (0, 7), 5)))
    emit("   call log:", fx(log))
    if o is not None:
        emit("   jdd:", fx(o._jdd), o._fp.calls)


# fp that inspects the partially built distribution while it is being built
class Peek:
    def __init__(self):
        self.obj = None
        self.seen = []

    def __call__(self, k):
        self.seen.append((k, len(self.obj._jdd), list(self.obj._jdd)[-1:]))
        return 1.0 / (k + 1)


for cls in (JointDegreeSplitDegree, JointDegreeDelta):
    pk = Peek()
    o = cls.__new__(cls)
    pk.obj = o
    o._fp, o._probs, o._motif_sizes, o._low_high_degree_bound, o._target_k = pk, [0.6, 0.4], [2, 3], (0, 6), 3
    attempt("peek create " + cls.__name__, lambda: o.create_jdd())
    emit("   seen:", fx(pk.seen))
    emit("   jdd:", fx(o._jdd))

# ---------------------------------------------------------------------------
# 4. the property itself on a larger instance + final RNG state
# ---------------------------------------------------------------------------
emit("== large instance")
fp = Fp("poisson")
o = JointDegreeSplitDegree(params_for(JointDegreeSplitDegree, fp, [0.5, 0.3, 0.15, 0.05], [2, 3, 4, 5], (0, 26)))
h = hashlib.sha256()
for key, val in o._jdd.items():
    h.update((repr(key) + val.hex()).encode())
emit("split large:", len(o._jdd), h.hexdigest(), fx(sum(o._jdd.values())))
emit("sample:", fx(o.sample_jds_from_jdd(25)))
o = JointDegreeDelta(params_for(JointDegreeDelta, Fp("poisson"), [0.5, 0.3, 0.15, 0.05], [2, 3, 4, 5], (0, 40), 24))
h = hashlib.sha256()
for key, val in o._jdd.items():
    h.update((repr(key) + val.hex()).encode())
emit("delta large:", len(o._jdd), h.hexdigest(), fx(sum(o._jdd.values())))
emit("sample:", fx(o.sample_jds_from_jdd(25)))

emit("final rng:", rng_digest())
emit("transcript sha256:", hashlib.sha256("\n".join(LINES).encode()).hexdigest())
