import sys, os; sys.path.insert(0, os.getcwd())

"""
Behavioural digest of everything the commit "tidy MCMC rewiring helpers" touched,
driven through entry points that exist on the original code as well:

  JointExcessJointDegreeKeysView.__init__ / get_*            (keys view)
  MarkovChainMonteCarloRewiring.get_all_edges
  MarkovChainMonteCarloRewiring.get_hashmap                  (also via is_edge_choice_suitable)
  MarkovChainMonteCarloRewiring.get_joint_excess_degree_key
  MarkovChainMonteCarloRewiring.get_swapped_joint_excess_degree_key
  MarkovChainMonteCarloRewiring.swap_condition
  MarkovChainMonteCarloRewiring.rewire

Run with cwd = a checkout. Prints a deterministic digest: bit-exact floats (repr),
result types, exception types, RNG state afterwards, mutated inputs / object state.
"""

import copy
import hashlib
import itertools
import random
import signal
import warnings
from collections import OrderedDict
from fractions import Fraction
from types import SimpleNamespace

warnings.simplefilter("ignore")

import networkx as nx
import numpy as np

from gcmpy.motif_generators.clique_motif import clique_motif
from gcmpy.gcm_algorithm.gcm_algorithm_network import GCMAlgorithmNetwork
from gcmpy.names.gcm_algorithm_names import GCMAlgorithmNames
from gcmpy.names.network_names import NetworkNames
from gcmpy.names.tools_names import ToolsNames
from gcmpy.tools.joint_excess_joint_degree import JointExcessJointDegree
from gcmpy.tools.joint_excess_joint_degree_keys_view import (
    JointExcessJointDegreeKeysView,
)
from gcmpy.tools.joint_excess_joint_degree_matrices import (
    JointExcessJointDegreeMatrices,
)
from gcmpy.tools.markov_chain_monte_carlo import MarkovChainMonteCarlo
from gcmpy.tools.markov_chain_monte_carlo_rewiring import MarkovChainMonteCarloRewiring


def _watchdog(signum, frame):
    print("WATCHDOG: did not finish in time")
    sys.stdout.flush()
    os._exit(3)


signal.signal(signal.SIGALRM, _watchdog)
signal.alarm(600)

JD = NetworkNames.JOINT_DEGREE
TOP = NetworkNames.TOPOLOGY
MID = NetworkNames.MOTIF_IDS
EDGE_NAMES = ["2-clique", "3-clique"]


def sha(x) -> str:
    return hashlib.sha256(repr(x).encode()).hexdigest()[:16]


def rng() -> str:
    return sha(random.getstate())


def counters() -> tuple:
    return (
        MarkovChainMonteCarlo._proposal_count,
        MarkovChainMonteCarlo._proposals_accepted,
    )


def exc(e) -> str:
    """exception type, plus the message unless it is interpreter-generated TypeError
    wording (operand type names of a nonsensical weight), which is not behaviour."""
    if isinstance(e, TypeError):
        return f"raised {type(e).__name__}"
    return f"raised {type(e).__name__} {str(e)!r}"


def show(label, fn, *args, **kwargs):
    """call, print result (type + repr) or exception type (+ message)."""
    try:
        r = fn(*args, **kwargs)
        print(f"{label}: {type(r).__name__} {r!r}")
        return r
    except BaseException as e:  # noqa
        if isinstance(e, (KeyboardInterrupt, SystemExit)):
            raise
        print(f"{label}: {exc(e)}")
        return None


def graph_digest(G) -> str:
    nodes = sorted((repr(n), repr(G.nodes[n])) for n in G.nodes())
    edges = sorted(
        (repr(tuple(sorted(e, key=repr))), repr(sorted(G.edges[e].items(), key=repr)))
        for e in G.edges()
    )
    return f"n={G.number_of_nodes()} m={G.number_of_edges()} {sha((nodes, edges))}"


def adjacency_order(G) -> str:
    # iteration order of the adjacency matters for get_all_edges / later draws
    return sha([(n, list(G.adj[n])) for n in G.nodes()])


# --------------------------------------------------------------------------------------
print("== A. JointExcessJointDegreeKeysView")

GETTERS = ["get_u0u1", "get_u1u0", "get_v0v1", "get_v1v0", "get_u0v1", "get_v0u1"]


def view_digest(label, keys):
    try:
        kv = JointExcessJointDegreeKeysView(keys)
    except BaseException as e:  # noqa
        print(f"{label}: constructor raised {type(e).__name__}")
        return None
    for rep in range(2):
        for g in GETTERS:
            show(f"{label}.{g}#{rep}", getattr(kv, g))
    print(f"{label}: keys afterwards {keys!r}")
    return kv


view_digest("four", [(1, 0), (2, 3), (4, 5), (6, 7)])
view_digest("four-lists", [[1, 0], [2, 3], [4, 5], [6, 7]])
view_digest("four-tuple-container", ((1,), (2,), (3,), (4,)))
view_digest("strings", ["a", "b", "c", "d"])
view_digest("five", [(1,), (2,), (3,), (4,), (5,)])
view_digest("three", [(1,), (2,), (3,)])
view_digest("two", [(1,), (2,)])
view_digest("empty", [])
view_digest("dict-by-position", {0: (1,), 1: (2,), 2: (3,), 3: (4,)})
view_digest("mixed", [(1,), [2], (3,), (4,)])
view_digest("none", None)
view_digest("numbers", [1, 2.5, 3, 4])

# the view follows the list it was handed
lst = [(1, 0), (2, 3), (4, 5), (6, 7)]
kv = JointExcessJointDegreeKeysView(lst)
show("live.before", kv.get_u0v1)
lst[0] = (9, 9)
lst[3] = (8, 8)
show("live.after-item-assignment", kv.get_u0v1)
show("live.after-item-assignment.u0u1", kv.get_u0u1)
lst.append((7, 7))
show("live.after-append", kv.get_v0u1)
del lst[2:]
show("live.after-truncate.u0u1", kv.get_u0u1)
show("live.after-truncate.v0v1", kv.get_v0v1)
short = [(1,)]
kv = JointExcessJointDegreeKeysView(short)
show("grow.before", kv.get_u0u1)
short.extend([(2,), (3,), (4,)])
for g in GETTERS:
    show(f"grow.after.{g}", getattr(kv, g))


# --------------------------------------------------------------------------------------
print("== B. hand-made graph: get_all_edges / get_hashmap / excess degree keys")


def hand_graph():
    G = nx.Graph()
    jds = {
        0: (1, 1),
        1: (1, 1),
        2: (0, 1),
        3: (2, 1),
        4: (0, 2),
        5: (3, 1),
        6: (1, 0),
        7: (2, 0),
        8: (4, 0),
        9: (1, 1),
        10: (1, 1),
        11: (1, 1),
        12: (1, 1),
    }
    for n, jd in jds.items():
        G.add_node(n)
        G.nodes[n][JD] = jd

    def motif(nodes, name, mid):
        for a, b in itertools.combinations(nodes, 2):
            G.add_edge(a, b)
            G.edges[a, b][TOP] = name
            G.edges[a, b][MID] = mid

    motif([0, 1, 2], "3-clique", 100)
    motif([3, 4, 5], "3-clique", 101)
    motif([0, 6], "2-clique", 102)
    motif([3, 7], "2-clique", 103)
    motif([1, 8], "2-clique", 104)
    motif([9, 10], "2-clique", 105)
    motif([11, 12], "2-clique", 106)
    # a motif with mixed edge topologies (orbit-dependent corners)
    G.add_edge(4, 8)
    G.edges[4, 8][TOP] = "2-clique"
    G.edges[4, 8][MID] = 101
    # defective edges
    G.add_edge(6, 7)  # no attributes at all
    G.add_edge(7, 8)
    G.edges[7, 8][MID] = 107  # motif id, no topology
    return G


def all_pairings(G):
    """full-support target over the excess degrees seen in G, distinct weights."""
    r = random.Random(12345)
    target = {}
    for index, name in enumerate(EDGE_NAMES):
        excess = set()
        for n in G.nodes():
            jd = list(G.nodes[n][JD])
            jd[index] -= 1
            excess.add(tuple(jd))
        target[name] = {}
        for a in sorted(excess):
            for b in sorted(excess):
                target[name][a + b] = r.uniform(0.05, 1.0)
    return target


def make_mcmc(G, target, names=None, **extra):
    names = EDGE_NAMES if names is None else names
    ejks = JointExcessJointDegreeMatrices(
        {ToolsNames.EJKS: target, ToolsNames.EDGE_NAMES: names}
    )
    params = {ToolsNames.NETWORK: SimpleNamespace(G=G), ToolsNames.EJKS: ejks}
    params.update(extra)
    return MarkovChainMonteCarloRewiring(params)


H = hand_graph()
print("hand graph", graph_digest(H), adjacency_order(H))
m = make_mcmc(H, all_pairings(H))

for u0, edge in [
    (0, (0, 1)),
    (0, (1, 0)),
    (0, (0, 6)),
    (0, (6, 0)),
    (3, (3, 4)),
    (4, (3, 4)),
    (4, (4, 8)),
    (8, (4, 8)),
    (8, (1, 8)),
    (5, (0, 1)),  # motif of another vertex: none of 5's edges match
    (0, (3, 4)),
    (7, (7, 8)),
    (7, (3, 7)),  # iterates over the attribute-less edge (6,7) -> KeyError
    (6, (6, 7)),  # edge without motif id
    (0, (0, 5)),  # no such edge
    (99, (0, 1)),  # no such vertex
    (0, (0,)),
    (0, 0),
]:
    for rep in range(2):
        show(f"get_all_edges(u0={u0}, edge={edge})#{rep}", m.get_all_edges, H, u0, edge)

for es in [
    [],
    [(0, 1)],
    [(0, 1), (0, 2), (0, 6)],
    [(0, 6), (0, 1), (3, 7), (0, 2), (1, 8)],
    [(0, 1), (0, 1), (1, 0)],
    ((4, 3), (4, 5), (4, 8)),
    [(0, 1), (6, 7)],  # edge without topology
    [(0, 1), (7, 8)],  # motif id but no topology
    [(0, 1), (0, 5)],  # absent edge
    [(0, 1), (0,)],
    iter([(3, 4), (3, 7)]),
]:
    label = repr(es) if not hasattr(es, "__next__") else "iterator"
    r = show(f"get_hashmap({label})", m.get_hashmap, H, es)
    if r is not None:
        print(
            "   type",
            type(r).__name__,
            "order",
            list(r),
            "distinct lists",
            len({id(v) for v in r.values()}) == len(r),
            "value types",
            sorted({type(v).__name__ for v in r.values()}),
        )
        # a fresh container every call, not shared state
        r2 = m.get_hashmap(H, es) if not hasattr(es, "__next__") else None
        print("   fresh", r2 is not r, r2 == r if r2 is not None else None)

# unhashable topology
H2 = hand_graph()
H2.edges[0, 1][TOP] = ["3-clique"]
show("get_hashmap(unhashable topology)", m.get_hashmap, H2, [(0, 2), (0, 1)])

for e, index in [
    ((0, 1), 0),
    ((0, 1), 1),
    ((1, 0), 1),
    ((3, 5), 1),
    ((5, 3), 0),
    ((4, 8), 0),
    ((0, 1), -1),
    ((0, 1), -2),
    ((0, 1), 2),
    ((0, 1), -3),
    ((0, 1), True),
    ((0, 1), False),
    ((0, 1), 1.0),
    ((0, 1), None),
    ((0, 1), "1"),
    ((0, 1), np.int64(1)),
    ((0, 1), slice(0, 1)),
    ([3, 8], 0),
    ((0, 1, 2), 1),
    ((0, 1, 99), 1),
    ((0,), 1),
    ((), 1),
    ((0, 99), 1),
    ((99, 0), 1),
    ((0, 99), 5),  # two faults: missing vertex and bad index
    ((99, 0), 5),
    ((0, 0), 0),
    (0, 0),
    ("ab", 0),
]:
    for rep in range(2):
        show(
            f"get_joint_excess_degree_key(e={e!r}, index={index!r})#{rep}",
            m.get_joint_excess_degree_key,
            H,
            e,
            index,
        )
print("hand graph untouched", graph_digest(H), adjacency_order(H))

# joint degrees stored in other containers / with other element types
H3 = hand_graph()
H3.nodes[0][JD] = [1, 1]
H3.nodes[1][JD] = np.array([1, 1])
H3.nodes[2][JD] = (0.5, 1.5)
H3.nodes[3][JD] = (Fraction(3, 2), 1)
H3.nodes[4][JD] = (1,)
H3.nodes[5][JD] = ("x", 1)
H3.nodes[6][JD] = ()
del H3.nodes[7][JD]
H3.nodes[8][JD] = (4, 0, 2)
H3.nodes[9][JD] = 7
for e, index in [
    ((0, 1), 0),
    ((0, 1), 1),
    ((1, 2), 1),
    ((2, 3), 0),
    ((3, 2), 1),
    ((0, 4), 0),
    ((0, 4), 1),
    ((4, 0), 1),
    ((0, 5), 0),
    ((0, 5), 1),
    ((0, 6), 0),
    ((0, 7), 0),
    ((0, 8), 2),
    ((8, 0), 2),
    ((8, 8), -1),
    ((0, 9), 0),
]:
    show(
        f"H3 get_joint_excess_degree_key(e={e!r}, index={index!r})",
        m.get_joint_excess_degree_key,
        H3,
        e,
        index,
    )
print("H3 node data afterwards", sha([(n, repr(H3.nodes[n])) for n in H3.nodes()]))
print("H3 list jd", H3.nodes[0][JD], "array jd", H3.nodes[1][JD])


def swapped_digest(label, G, *args):
    try:
        kv = m.get_swapped_joint_excess_degree_key(G, *args)
    except BaseException as e:  # noqa
        print(f"{label}: {exc(e)}")
        return
    print(
        f"{label}: {type(kv).__name__} _keys {type(kv._keys).__name__} {kv._keys!r}"
    )
    for g in GETTERS:
        show(f"   {g}", getattr(kv, g))


for args in [
    ((0, 1), (3, 5), 0, 3, 1),
    ((1, 0), (5, 3), 0, 3, 1),
    ((0, 1), (3, 5), 1, 5, 1),
    ((0, 6), (3, 7), 0, 3, 0),
    ((0, 6), (3, 7), 6, 7, 0),
    ((0, 1), (3, 5), 0, 3, -1),
    ((0, 1), (3, 5), 0, 3, 2),
    ((0, 1), (3, 5), 0, 3, 1.0),
    ((0, 1), (3, 5), 2, 3, 1),  # u0 not in e0
    ((0, 1), (3, 5), 0, 4, 1),  # v0 not in e1
    ((0, 99), (3, 5), 0, 3, 1),
    ((0, 99), (3, 5), 0, 3, 7),
    ((0, 0), (3, 3), 0, 3, 0),
    ((0, 1, 2), (3, 5, 4), 0, 3, 1),
]:
    swapped_digest(f"get_swapped{args!r}", H, *args)
swapped_digest("H3 get_swapped", H3, (0, 1), (2, 3), 0, 2, 1)
swapped_digest("H3 get_swapped short jd", H3, (0, 4), (2, 3), 0, 2, 1)
swapped_digest("H3 get_swapped str jd", H3, (0, 1), (2, 5), 0, 2, 0)


# --------------------------------------------------------------------------------------
print("== C. swap_condition, direct calls")


def excess(G, u, index):
    jd = list(G.nodes[u][JD])
    jd[index] -= 1
    return tuple(jd)


def target_digest(target):
    out = []
    for name in target:
        t = target[name]
        try:
            out.append((name, type(t).__name__, [(k, repr(t[k])) for k in t]))
        except BaseException as e:  # noqa
            out.append((name, type(t).__name__, type(e).__name__))
    return f"{type(target).__name__} {sha(out)} sizes {[len(target[n]) for n in target]}"


def swap_case(label, target, e0s, e1s, u0, v0, G=None, reps=3, seed=7, names=None):
    G = hand_graph() if G is None else G
    before_graph = (graph_digest(G), adjacency_order(G))
    try:
        mc = make_mcmc(G, target, names=names)
    except BaseException as e:  # noqa
        print(f"{label}: construction raised {type(e).__name__}")
        return
    random.seed(seed)
    np.random.seed(seed)
    print(f"-- {label}: target before {target_digest(target)}")
    for rep in range(reps):
        e0s_in, e1s_in = copy.deepcopy(e0s), copy.deepcopy(e1s)
        try:
            r = mc.swap_condition(G, e0s_in, e1s_in, u0, v0)
            res = f"{type(r).__name__} {r!r} is_True={r is True} is_False={r is False}"
        except BaseException as e:  # noqa
            res = exc(e)
        props = [(p._topology, p._motif_id, p._new_edge) for p in mc._proposal_edges]
        print(
            f"   #{rep}: {res} | proposals {props} | rng {rng()} | counters {counters()}"
            f" | inputs {'same' if (e0s_in, e1s_in) == (e0s, e1s) else (e0s_in, e1s_in)}"
        )
    print(
        f"   target after {target_digest(target)} | excess keys "
        f"{sha(sorted((k, sorted(v)) for k, v in mc._ejks.excess_degree_keys.items()))}"
        f" | graph same {before_graph == (graph_digest(G), adjacency_order(G))}"
    )


base = all_pairings(H)
TRI_E0S, TRI_E1S = [(0, 1), (0, 2)], [(3, 4), (3, 5)]
# pairings of the triangle corner swap 0 <-> 3, in the order the numerator meets them
k_first = (excess(H, 0, 1) + excess(H, 5, 1), excess(H, 3, 1) + excess(H, 1, 1))
k_second = (excess(H, 0, 1) + excess(H, 4, 1), excess(H, 3, 1) + excess(H, 2, 1))
k_bottom = [
    excess(H, 0, 1) + excess(H, 1, 1),
    excess(H, 3, 1) + excess(H, 4, 1),
    excess(H, 0, 1) + excess(H, 2, 1),
    excess(H, 3, 1) + excess(H, 5, 1),
]
print("numerator keys", k_first, k_second, "denominator keys", k_bottom)
for k in k_first + k_second + tuple(k_bottom):
    assert k in base["3-clique"], k


def variant(**changes):
    """copy of the full-support target with entries of the 3-clique matrix replaced
    (value) or removed (value is the string 'absent')."""
    t = copy.deepcopy(base)
    for k, v in changes.get("tri", {}).items():
        if isinstance(v, str) and v == "absent":
            del t["3-clique"][k]
        else:
            t["3-clique"][k] = v
    for k, v in changes.get("tree", {}).items():
        if isinstance(v, str) and v == "absent":
            del t["2-clique"][k]
        else:
            t["2-clique"][k] = v
    return t


for seed in (7, 8, 9, 10):
    swap_case(f"full support seed {seed}", variant(), TRI_E0S, TRI_E1S, 0, 3, seed=seed)
swap_case("full support, roles reversed", variant(), TRI_E1S, TRI_E0S, 3, 0)
swap_case("full support, e1s reordered", variant(), TRI_E0S, TRI_E1S[::-1], 0, 3)
swap_case("full support, tuples", variant(), tuple(TRI_E0S), tuple(TRI_E1S), 0, 3)

# large weights: ratio well above one, always accepted
big = variant(tri={k: 50.0 for k in k_first + k_second})
swap_case("numerator dominant", big, TRI_E0S, TRI_E1S, 0, 3)
small = variant(tri={k: 1e-6 for k in k_first + k_second})
swap_case("numerator tiny", small, TRI_E0S, TRI_E1S, 0, 3)

for i, k in enumerate(k_first + k_second):
    swap_case(f"absent numerator key {i}", variant(tri={k: "absent"}), TRI_E0S, TRI_E1S, 0, 3)
    swap_case(f"zero numerator key {i}", variant(tri={k: 0.0}), TRI_E0S, TRI_E1S, 0, 3)
    swap_case(f"int zero numerator key {i}", variant(tri={k: 0}), TRI_E0S, TRI_E1S, 0, 3)
    swap_case(f"negative zero numerator key {i}", variant(tri={k: -0.0}), TRI_E0S, TRI_E1S, 0, 3)
    swap_case(f"negative numerator key {i}", variant(tri={k: -0.3}), TRI_E0S, TRI_E1S, 0, 3)
    swap_case(f"nan numerator key {i}", variant(tri={k: float("nan")}), TRI_E0S, TRI_E1S, 0, 3)
    swap_case(f"inf numerator key {i}", variant(tri={k: float("inf")}), TRI_E0S, TRI_E1S, 0, 3)
    swap_case(f"None numerator key {i}", variant(tri={k: None}), TRI_E0S, TRI_E1S, 0, 3)
    swap_case(f"str numerator key {i}", variant(tri={k: "w"}), TRI_E0S, TRI_E1S, 0, 3)

swap_case(
    "both first keys absent",
    variant(tri={k_first[0]: "absent", k_first[1]: "absent"}),
    TRI_E0S, TRI_E1S, 0, 3,
)
swap_case(
    "both second keys absent",
    variant(tri={k_second[0]: "absent", k_second[1]: "absent"}),
    TRI_E0S, TRI_E1S, 0, 3,
)
swap_case(
    "all four absent",
    variant(tri={k: "absent" for k in k_first + k_second}),
    TRI_E0S, TRI_E1S, 0, 3,
)
swap_case(
    "first absent, second zero",
    variant(tri={k_first[0]: "absent", k_second[0]: 0.0}),
    TRI_E0S, TRI_E1S, 0, 3,
)
swap_case(
    "first zero, second absent",
    variant(tri={k_first[1]: 0.0, k_second[1]: "absent"}),
    TRI_E0S, TRI_E1S, 0, 3,
)
# vanishing product of non-zero weights, in the first and in the second factor
swap_case(
    "underflow first pair",
    variant(tri={k_first[0]: 1e-200, k_first[1]: 1e-200}),
    TRI_E0S, TRI_E1S, 0, 3,
)
swap_case(
    "underflow second pair",
    variant(tri={k_second[0]: 1e-200, k_second[1]: 1e-200}),
    TRI_E0S, TRI_E1S, 0, 3,
)
swap_case(
    "underflow accumulated",
    variant(tri={k: 1e-100 for k in k_first + k_second}),
    TRI_E0S, TRI_E1S, 0, 3,
)
swap_case(
    "underflow first pair, zero denominator",
    variant(tri={k_first[0]: 1e-200, k_first[1]: 1e-200, k_bottom[0]: 0.0}),
    TRI_E0S, TRI_E1S, 0, 3,
)
swap_case(
    "underflow first pair, second absent",
    variant(tri={k_first[0]: 1e-200, k_first[1]: 1e-200, k_second[0]: "absent"}),
    TRI_E0S, TRI_E1S, 0, 3,
)
swap_case(
    "subnormal product",
    variant(tri={k_first[0]: 1e-160, k_first[1]: 1e-160}),
    TRI_E0S, TRI_E1S, 0, 3,
)
swap_case(
    "zero times inf",
    variant(tri={k_first[0]: 0.0, k_first[1]: float("inf")}),
    TRI_E0S, TRI_E1S, 0, 3,
)
swap_case(
    "inf times zero",
    variant(tri={k_first[0]: float("inf"), k_first[1]: 0.0}),
    TRI_E0S, TRI_E1S, 0, 3,
)
swap_case(
    "zero times nan, second pair",
    variant(tri={k_second[0]: 0.0, k_second[1]: float("nan")}),
    TRI_E0S, TRI_E1S, 0, 3,
)
swap_case(
    "overflow",
    variant(tri={k: 1e200 for k in k_first + k_second}),
    TRI_E0S, TRI_E1S, 0, 3,
)

# denominator
for i, k in enumerate(k_bottom):
    swap_case(f"absent denominator key {i}", variant(tri={k: "absent"}), TRI_E0S, TRI_E1S, 0, 3)
    swap_case(f"zero denominator key {i}", variant(tri={k: 0.0}), TRI_E0S, TRI_E1S, 0, 3)
swap_case(
    "absent numerator and zero denominator",
    variant(tri={k_second[1]: "absent", k_bottom[1]: 0.0}),
    TRI_E0S, TRI_E1S, 0, 3,
)
swap_case(
    "negative denominator",
    variant(tri={k_bottom[2]: -0.4}),
    TRI_E0S, TRI_E1S, 0, 3,
)
swap_case("nan denominator", variant(tri={k_bottom[2]: float("nan")}), TRI_E0S, TRI_E1S, 0, 3)

# other number types in the target: the verdict stays a plain bool
swap_case(
    "numpy float64 weights",
    {n: {k: np.float64(w) for k, w in t.items()} for n, t in base.items()},
    TRI_E0S, TRI_E1S, 0, 3,
)
swap_case(
    "numpy float32 weights",
    {n: {k: np.float32(w) for k, w in t.items()} for n, t in base.items()},
    TRI_E0S, TRI_E1S, 0, 3,
)
swap_case(
    "numpy weights with a numpy zero",
    {
        n: {k: np.float64(0.0 if k == k_second[0] else w) for k, w in t.items()}
        for n, t in base.items()
    },
    TRI_E0S, TRI_E1S, 0, 3,
)
swap_case(
    "int weights",
    {n: {k: 1 + (i % 3) for i, k in enumerate(t)} for n, t in base.items()},
    TRI_E0S, TRI_E1S, 0, 3,
)
swap_case(
    "bool weights",
    {n: {k: True for k in t} for n, t in base.items()},
    TRI_E0S, TRI_E1S, 0, 3,
)
swap_case(
    "Fraction weights",
    {n: {k: Fraction(1 + (i % 5), 7) for i, k in enumerate(t)} for n, t in base.items()},
    TRI_E0S, TRI_E1S, 0, 3,
)
swap_case(
    "OrderedDict target",
    OrderedDict((n, OrderedDict(t)) for n, t in base.items()),
    TRI_E0S, TRI_E1S, 0, 3,
)

# topology missing from the target / from the names
swap_case("no 3-clique matrix", {"2-clique": dict(base["2-clique"])}, TRI_E0S, TRI_E1S, 0, 3)
swap_case("empty 3-clique matrix", {"2-clique": dict(base["2-clique"]), "3-clique": {}}, TRI_E0S, TRI_E1S, 0, 3)
swap_case("empty target", {}, TRI_E0S, TRI_E1S, 0, 3)
swap_case("names lack 3-clique", variant(), TRI_E0S, TRI_E1S, 0, 3, names=["2-clique"])
swap_case("names reversed", variant(), TRI_E0S, TRI_E1S, 0, 3, names=EDGE_NAMES[::-1])
swap_case("three names, short joint degrees", variant(), TRI_E0S, TRI_E1S, 0, 3, names=["x", "2-clique", "3-clique"])

# 2-clique swaps
swap_case("tree swap 0-6 / 3-7", variant(), [(0, 6)], [(3, 7)], 0, 3)
swap_case("tree swap 6-0 / 7-3", variant(), [(6, 0)], [(7, 3)], 6, 7)
swap_case("tree swap 1-8 / 3-7", variant(), [(1, 8)], [(3, 7)], 1, 3)
kt = excess(H, 0, 0) + excess(H, 7, 0)
swap_case("tree swap, absent pairing", variant(tree={kt: "absent"}), [(0, 6)], [(3, 7)], 0, 3)
swap_case("tree swap, zero pairing", variant(tree={kt: 0.0}), [(0, 6)], [(3, 7)], 0, 3)
# swap that changes nothing: equal joint degrees on both sides
swap_case("tree swap, nothing changes", variant(), [(9, 10)], [(11, 12)], 9, 11)
swap_case("tree swap, nothing changes, empty target", {"2-clique": {}, "3-clique": {}}, [(9, 10)], [(11, 12)], 9, 11)
# mixed-topology corner (vertex 4: edges of motif 101 of both topologies) against itself reversed
E4 = [(4, 3), (4, 5), (4, 8)]
swap_case("mixed corner vs triangle corner", variant(), E4, [(0, 1), (0, 2)], 4, 0)
swap_case("triangle corner vs mixed corner", variant(), [(0, 1), (0, 2)], E4, 0, 4)
swap_case("mixed corner vs mixed corner", variant(), E4, [(4, 8), (4, 5), (4, 3)], 4, 4)

# malformed calls
swap_case("unequal sizes", variant(), TRI_E0S, [(3, 4)], 0, 3)
swap_case("unequal sizes, first pair absent", variant(tri={k_first[0]: "absent"}), TRI_E0S, [(3, 4)], 0, 3)
swap_case("unequal sizes, underflow", variant(tri={excess(H, 0, 1) + excess(H, 4, 1): 1e-200, excess(H, 3, 1) + excess(H, 1, 1): 1e-200}), TRI_E0S, [(3, 4)], 0, 3)
swap_case("empty corners", variant(), [], [], 0, 3)
swap_case("e1s empty", variant(), TRI_E0S, [], 0, 3)
swap_case("wrong focal vertex u0", variant(), TRI_E0S, TRI_E1S, 2, 3)
swap_case("wrong focal vertex v0", variant(), TRI_E0S, TRI_E1S, 0, 4)
swap_case("topologies differ", variant(), TRI_E0S, [(3, 7), (3, 4)], 0, 3)
swap_case("edge without attributes", variant(), [(6, 7)], [(3, 7)], 6, 3)
swap_case("edge without attributes on the right", variant(), [(0, 6)], [(7, 6)], 0, 7)
swap_case("absent edge", variant(), [(0, 5)], [(3, 7)], 0, 3)

# is_edge_choice_suitable (uses get_hashmap)
mm = make_mcmc(H, variant())
for args in [
    (0, 3, TRI_E0S, TRI_E1S),
    (0, 3, TRI_E0S, [(3, 4)]),
    (0, 3, [(0, 6)], [(3, 7)]),
    (0, 3, [(0, 6)], [(3, 4)]),
    (4, 0, E4, [(0, 1), (0, 2), (0, 6)]),
    (4, 3, E4, [(3, 4), (3, 5), (3, 7)]),
    (0, 1, [(0, 1), (0, 2)], [(1, 0), (1, 2)]),
    (0, 3, [(0, 1), (6, 7)], TRI_E1S),
    (0, 3, [], []),
]:
    show(f"is_edge_choice_suitable{args!r}", mm.is_edge_choice_suitable, H, *args)


# --------------------------------------------------------------------------------------
print("== D. rewire on GCM networks")

JDS = (
    [(1, 0)] * 15
    + [(2, 0)] * 10
    + [(3, 1)] * 6
    + [(1, 1)] * 9
    + [(5, 0)] * 2
    + [(0, 2)] * 3
    + [(2, 2)] * 3
)


def build_network(seed):
    random.seed(seed)
    np.random.seed(seed)
    jds = list(JDS)
    random.shuffle(jds)
    params = {
        GCMAlgorithmNames.MOTIF_SIZES: [2, 3],
        GCMAlgorithmNames.EDGE_NAMES: EDGE_NAMES,
        GCMAlgorithmNames.BUILD_FUNCTIONS: [clique_motif, clique_motif],
    }
    return GCMAlgorithmNetwork(params).random_clustered_graph(jds)


def targets_for(G, kind):
    current = JointExcessJointDegree(
        {ToolsNames.NETWORK: G, ToolsNames.EDGE_NAMES: EDGE_NAMES}
    ).get_ejks()
    r = random.Random(99)
    target = {}
    for name in EDGE_NAMES:
        exc = sorted(current.excess_degree_keys[name])
        present = {k for k, w in current.ejks[name].items() if w > 0}
        target[name] = {}
        for a in exc:
            for b in exc:
                k, kr = a + b, b + a
                occurs = k in present or kr in present
                if kind == "partial":
                    if occurs:
                        target[name][k] = 1.0
                elif kind == "zeros":
                    target[name][k] = 1.0 if occurs else 0.0
                elif kind == "full":
                    if kr in target[name]:
                        target[name][k] = target[name][kr]
                    else:
                        target[name][k] = r.uniform(0.01, 1.0)
                elif kind == "full-numpy":
                    if kr in target[name]:
                        target[name][k] = target[name][kr]
                    else:
                        target[name][k] = np.float64(r.uniform(0.01, 1.0))
                elif kind == "skewed":
                    target[name][k] = 1.0 if a == b else 1e-3
        total = sum(target[name].values())
        for k in target[name]:
            target[name][k] /= total
    return target


def rewire_case(seed, kind, limit=60, search=20, twice=False):
    g = build_network(seed)
    G0 = g.G
    label = f"rewire seed={seed} kind={kind} limit={limit} search={search}"
    print(f"-- {label}: network {graph_digest(G0)} {adjacency_order(G0)} selfloops {nx.number_of_selfloops(G0)}")
    target = targets_for(G0, kind)
    t_before = target_digest(target)
    ejks = JointExcessJointDegreeMatrices(
        {ToolsNames.EJKS: target, ToolsNames.EDGE_NAMES: EDGE_NAMES}
    )
    params = {ToolsNames.NETWORK: g, ToolsNames.EJKS: ejks}
    if limit is not None:
        params[ToolsNames.CONVERGENCE_LIMIT] = limit
    if search is not None:
        params[ToolsNames.SEARCH_LIMIT] = search
    mc = MarkovChainMonteCarloRewiring(params)
    random.seed(1000 + seed)
    np.random.seed(1000 + seed)
    for rep in range(2 if twice else 1):
        try:
            G1 = mc.rewire()
        except BaseException as e:  # noqa
            if isinstance(e, (KeyboardInterrupt, SystemExit)):
                raise
            print(f"   #{rep}: {exc(e)} | rng {rng()} | counters {counters()}")
            continue
        created = sorted(tuple(sorted(e)) for e in G1.edges() if not G0.has_edge(*e))
        after = JointExcessJointDegree(
            {ToolsNames.NETWORK: G1, ToolsNames.EDGE_NAMES: EDGE_NAMES}
        ).get_ejks()
        print(
            f"   #{rep}: {type(G1).__name__} {graph_digest(G1)} adj {adjacency_order(G1)}"
            f" | created {len(created)} {sha(created)}"
            f" | mixing {sha([(n, sorted((k, repr(w)) for k, w in after.ejks[n].items())) for n in EDGE_NAMES])}"
            f" | acceptance {[repr(x) for x in mc._acceptance_ratio]}"
            f" | proposals {[(p._topology, p._motif_id, p._new_edge) for p in mc._proposal_edges]}"
            f" | rng {rng()} | counters {counters()}"
        )
    print(
        f"   input network untouched {graph_digest(g.G) == graph_digest(G0)} {adjacency_order(g.G) == adjacency_order(G0)}"
        f" | target {t_before == target_digest(target)}"
    )


for seed in (0, 29, 34):
    rewire_case(seed, "partial", limit=150)
for seed in (1, 2, 3):
    rewire_case(seed, "partial")
for seed in (0, 5):
    rewire_case(seed, "zeros")
for seed in (0, 4, 29):
    rewire_case(seed, "full")
rewire_case(35, "full", twice=True)
rewire_case(64, "partial", twice=True)
rewire_case(6, "full-numpy")
rewire_case(70, "skewed", limit=100)
rewire_case(7, "full", limit=None, search=None)
rewire_case(8, "full", limit=0)
rewire_case(9, "full", limit=10, search=1)

print("final rng", rng(), "np", sha(np.random.get_state()[1][:8].tolist()), "counters", counters())
