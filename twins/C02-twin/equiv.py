"""Deterministic digest of GCMAlgorithmFast / GCMAlgorithmCustomMotifs outputs.

Run with cwd = a gcmpy checkout.  Prints one line per scenario.
"""
import hashlib
import os
import random
import sys

sys.path.insert(0, os.getcwd())

import numpy as np  # noqa: E402

from gcmpy.gcm_algorithm.gcm_algorithm_custom_motifs import (  # noqa: E402
    GCMAlgorithmCustomMotifs,
)
from gcmpy.gcm_algorithm.gcm_algorithm_fast import GCMAlgorithmFast  # noqa: E402
from gcmpy.motif_generators.clique_motif import clique_motif  # noqa: E402
from gcmpy.motif_generators.cycle_motif import cycle_motif  # noqa: E402
from gcmpy.names.gcm_algorithm_names import GCMAlgorithmNames as N  # noqa: E402
from gcmpy.network.edge_list import LightWeightEdgeList  # noqa: E402


def seed(s):
    random.seed(s)
    np.random.seed(s)


def digest(obj) -> str:
    return hashlib.sha256(repr(obj).encode()).hexdigest()[:16]


def report(label, el):
    assert type(el) is LightWeightEdgeList
    cols = (el.edge_list, el.topologies, el.motif_id)
    print(
        label,
        "lens=%d/%d/%d" % tuple(len(c) for c in cols),
        "types=%s/%s/%s" % tuple(type(c).__name__ for c in cols),
        "edges=" + digest(el.edge_list),
        "topo=" + digest(el.topologies),
        "ids=" + digest(el.motif_id),
        "jds=" + digest(el.joint_degrees),
        "attrs=" + ",".join(sorted(vars(el))),
        "rng_after=" + digest(random.random()),
    )
    if len(el.edge_list) <= 40:
        print("   ", list(zip(el.edge_list, el.topologies, el.motif_id)))


def random_jds(n, probs):
    # probs: per-topology list of (value, weight)
    out = []
    for _ in range(n):
        out.append(
            tuple(
                random.choices([v for v, _ in p], [w for _, w in p])[0] for p in probs
            )
        )
    return out


def pad_jds(jds, sizes):
    """Append one vertex so that every stub count is a multiple of its motif size
    (the custom algorithm needs whole partitions)."""
    sums = [sum(col) for col in zip(*jds)]
    return jds + [tuple((-t) % n for t, n in zip(sums, sizes))]


# ---------------------------------------------------------------- fast
def fast_scenarios():
    for s in (1, 2, 3):
        seed(s)
        jds = random_jds(200 + s, [[(0, 1), (1, 3), (2, 2), (5, 1)]])
        p = {N.MOTIF_SIZES: [2], N.EDGE_NAMES: ["2-clique"], N.BUILD_FUNCTIONS: [clique_motif]}
        report("fast/1topo/seed%d" % s, GCMAlgorithmFast(p).random_clustered_graph(jds))

    for s in (4, 5):
        seed(s)
        jds = random_jds(
            301,
            [[(0, 1), (1, 3), (2, 2)], [(0, 2), (1, 2), (2, 1)], [(0, 3), (1, 1)]],
        )
        p = {
            N.MOTIF_SIZES: [2, 3, 4],
            N.EDGE_NAMES: ["2-clique", "3-clique", "4-cycle"],
            N.BUILD_FUNCTIONS: [clique_motif, clique_motif, cycle_motif],
        }
        algo = GCMAlgorithmFast(p)
        report("fast/3topo/seed%d" % s, algo.random_clustered_graph(jds))
        # call history: same object, second call
        report("fast/3topo/seed%d/again" % s, algo.random_clustered_graph(jds))

    # tiny, fully printed; list-of-lists jds; remainder group (7 stubs, size 3)
    seed(6)
    jds = [[1, 1], [2, 1], [1, 2], [0, 1], [2, 2]]
    p = {
        N.MOTIF_SIZES: [2, 3],
        N.EDGE_NAMES: ["e", "t"],
        N.BUILD_FUNCTIONS: [clique_motif, clique_motif],
    }
    report("fast/tiny", GCMAlgorithmFast(p).random_clustered_graph(jds))

    # build callbacks that return tuples, a single-edge list, or nothing
    seed(7)
    jds = [(1, 2, 1)] * 8
    p = {
        N.MOTIF_SIZES: [2, 2, 4],
        N.EDGE_NAMES: [("a", 1), None, "none"],
        N.BUILD_FUNCTIONS: [
            lambda vs: ((vs[0], vs[1]),),
            lambda vs: [[vs[0], vs[1]], [vs[1], vs[0]]],
            lambda vs: [],
        ],
    }
    report("fast/odd-callbacks", GCMAlgorithmFast(p).random_clustered_graph(jds))

    # empty input
    seed(8)
    p = {N.MOTIF_SIZES: [2], N.EDGE_NAMES: ["e"], N.BUILD_FUNCTIONS: [clique_motif]}
    report("fast/empty", GCMAlgorithmFast(p).random_clustered_graph([]))
    report("fast/zeros", GCMAlgorithmFast(p).random_clustered_graph([(0,), (0,)]))


# -------------------------------------------------------------- custom
def diamond(vs):
    return (
        (vs[0], vs[1]),
        (vs[1], vs[2]),
        (vs[2], vs[3]),
        (vs[3], vs[1]),
        (vs[0], vs[2]),
    )


def diamond_names():
    return ("d-out", "d-out", "d-out", "d-out", "d-in")


def twoclique(vs):
    return (vs[0], vs[1])


def twoclique_list(vs):
    return [vs[0], vs[1]]


def twoclique_names():
    return "2-clique"


def threeclique(vs):
    return (vs[0], vs[1]), (vs[0], vs[2]), (vs[1], vs[2])


def threeclique_names():
    return "3-clique", "3-clique", "3-clique"


def pentagon(vs):
    return (
        (vs[0], vs[1]),
        (vs[1], vs[2]),
        (vs[2], vs[3]),
        (vs[3], vs[4]),
        (vs[0], vs[4]),
        (vs[1], vs[3]),
    )


def pentagon_names():
    return "p01", "p12", "p23", "p34", "p40", "p13"


def path3(vs):  # exactly two edges, as tuple of tuples
    return (vs[0], vs[1]), (vs[1], vs[2])


def path3_list(vs):  # exactly two edges, as list of lists
    return [[vs[0], vs[1]], [vs[1], vs[2]]]


def path3_names():
    return ["path-a", "path-b"]


def single_wrapped(vs):  # one edge, properly wrapped
    return [(vs[0], vs[1])]


def single_wrapped_names():
    return ["wrapped"]


def custom_scenarios():
    jds = [
        (2, 1, 0, 1, 1, 0, 0),
        (1, 1, 0, 1, 1, 0, 0),
        (3, 1, 1, 0, 0, 1, 0),
        (2, 0, 1, 0, 0, 1, 0),
        (0, 0, 0, 1, 0, 0, 1),
        (1, 0, 0, 1, 0, 0, 0),
        (1, 0, 1, 0, 0, 0, 0),
        (1, 0, 1, 0, 0, 0, 0),
        (1, 0, 0, 1, 0, 0, 0),
        (1, 0, 0, 1, 0, 0, 0),
        (1, 0, 1, 0, 0, 0, 0),
        (0, 0, 1, 0, 0, 0, 0),
    ]
    p = {
        N.MOTIF_SIZES: [2, 3, 2, 2, 2, 2, 1],
        N.EDGE_NAMES: [twoclique_names, threeclique_names, diamond_names, pentagon_names],
        N.BUILD_FUNCTIONS: [twoclique, threeclique, diamond, pentagon],
        N.MOTIF_INDICES: [[0], [1], [2, 3], [4, 5, 6]],
    }
    for s in (11, 12):
        seed(s)
        algo = GCMAlgorithmCustomMotifs(p)
        report("custom/paper/seed%d" % s, algo.random_clustered_graph(jds))
        report("custom/paper/seed%d/again" % s, algo.random_clustered_graph(jds))

    # bare edges (tuple and list), two-edge motifs (tuple and list), wrapped single edge
    for s in (13, 14):
        seed(s)
        jds2 = random_jds(
            120,
            [
                [(0, 1), (1, 2), (2, 1)],  # bare tuple 2-clique
                [(0, 1), (1, 2)],  # bare list 2-clique
                [(0, 1), (1, 1), (2, 1)],  # path3 tuple
                [(0, 2), (1, 1)],  # path3 list
                [(0, 1), (1, 1)],  # wrapped single
            ],
        )
        jds2 = pad_jds(jds2, [2, 2, 3, 3, 2])
        p2 = {
            N.MOTIF_SIZES: [2, 2, 3, 3, 2],
            N.EDGE_NAMES: [
                twoclique_names,
                twoclique_names,
                path3_names,
                path3_names,
                single_wrapped_names,
            ],
            N.BUILD_FUNCTIONS: [
                twoclique,
                twoclique_list,
                path3,
                path3_list,
                single_wrapped,
            ],
            N.MOTIF_INDICES: [[0], [1], [2], [3], [4]],
        }
        el = GCMAlgorithmCustomMotifs(p2).random_clustered_graph(jds2)
        report("custom/bare+two-edge/seed%d" % s, el)
        # per-motif grouping detail
        groups = {}
        for e, t, i in zip(el.edge_list, el.topologies, el.motif_id):
            groups.setdefault(i, []).append((e, t))
        print("    groups=%d" % len(groups), digest(sorted(groups.items())))

    # tiny, fully printed
    seed(15)
    jds3 = [(1, 1, 0), (1, 0, 1), (1, 1, 1), (1, 1, 0), (0, 0, 1), (2, 0, 0)]
    p3 = {
        N.MOTIF_SIZES: [2, 3, 3],
        N.EDGE_NAMES: [twoclique_names, path3_names, path3_names],
        N.BUILD_FUNCTIONS: [twoclique, path3, path3_list],
        N.MOTIF_INDICES: [[0], [1], [2]],
    }
    report("custom/tiny", GCMAlgorithmCustomMotifs(p3).random_clustered_graph(jds3))

    # empty input
    seed(16)
    report("custom/zeros", GCMAlgorithmCustomMotifs(p3).random_clustered_graph([(0, 0, 0)] * 3))

    # partition helper
    algo = GCMAlgorithmCustomMotifs(p3)
    print("partition", algo.partition(list(range(7)), 3), algo.partition([], 2))

    # error path: a partition runs dry (mismatched orbit counts) -> IndexError
    seed(17)
    p4 = {
        N.MOTIF_SIZES: [2, 2],
        N.EDGE_NAMES: [diamond_names],
        N.BUILD_FUNCTIONS: [diamond],
        N.MOTIF_INDICES: [[0, 1]],
    }
    try:
        GCMAlgorithmCustomMotifs(p4).random_clustered_graph(
            [(1, 0), (1, 0), (1, 0), (1, 0), (0, 1), (0, 1)]
        )
        print("custom/dry: no error")
    except Exception as e:  # noqa: BLE001
        print("custom/dry:", type(e).__name__, e)


if __name__ == "__main__":
    fast_scenarios()
    custom_scenarios()
