import sys, os; sys.path.insert(0, os.getcwd())

# string / tuple vertex names are used below: pin the str hash seed so that set
# iteration order (and with it float summation order) is reproducible across runs
if os.environ.get("PYTHONHASHSEED") != "0":
    os.execve(sys.executable, [sys.executable] + sys.argv, dict(os.environ, PYTHONHASHSEED="0"))

"""
Equivalence digest for the "modernise automated_equation.py" commit (C15).

Run with cwd = a checkout of gcmpy.  Exercises every function the commit touched
(get_connected_subgraphs, the subgraph enumeration behind it, get_edge_combinations,
get_us, automated_equation) through the public, pre-existing entry points
(AutomatedEquation methods and MessagePassing.theoretical), and prints a
deterministic digest: bit-exact floats via repr, result types, exception types,
cache contents, mutated inputs and RNG state afterwards.
"""
import hashlib
import random
import warnings
from fractions import Fraction

warnings.simplefilter("ignore")

import numpy as np
import networkx as nx

from gcmpy.message_passing.equations.automated_equation import AutomatedEquation
from gcmpy.message_passing.message_passing import MessagePassing

random.seed(15015)
np.random.seed(15015)
rng = random.Random(777)


def show(tag, fn):
    try:
        r = fn()
        print(tag, "->", type(r).__name__, repr(r))
        return r
    except BaseException as e:  # noqa: digest wants the type of anything raised
        print(tag, "-> EXC", type(e).__name__, repr(str(e)))
        return None


def graph_digest(G):
    return (
        type(G).__name__,
        G.name,
        [(n, sorted(d.items(), key=repr)) for n, d in G.nodes(data=True)],
        [tuple(e) for e in G.edges()],
    )


def cache_digest(ae):
    cs = {k: (type(v).__name__, [sorted(s, key=repr) for s in v], [list(s) for s in v])
          for k, v in ae._connected_subgraphs.items()}
    ec = {k: (type(v).__name__, list(v)) for k, v in ae._edge_combinations.items()}
    return cs, ec


def motif(name, G, us=None):
    G = G.copy()
    G.name = name
    if us is None:
        us = {n: rng.uniform(0.05, 0.95) for n in G.nodes()}
    nx.set_node_attributes(G, us, "u")
    return G


def reseed_u(G):
    nx.set_node_attributes(G, {n: rng.uniform(0.05, 0.95) for n in G.nodes()}, "u")


diamond = nx.Graph([(0, 1), (1, 2), (2, 3), (3, 0), (0, 2)])
bowtie = nx.Graph([(0, 1), (1, 2), (2, 0), (2, 3), (3, 4), (4, 2)])
strg = nx.Graph([("a", "b"), ("b", "c"), ("c", "a"), ("c", "d")])
mixed = nx.Graph([(0, "x"), ("x", (1, 2)), ((1, 2), 0), ((1, 2), 7)])

motifs = [
    motif("edge", nx.complete_graph(2)),
    motif("triangle", nx.complete_graph(3)),
    motif("diamond", diamond),
    motif("4-path", nx.path_graph(4)),
    motif("5-cycle", nx.cycle_graph(5)),
    motif("4-clique", nx.complete_graph(4)),
    motif("5-clique", nx.complete_graph(5)),
    motif("star4", nx.star_graph(4)),
    motif("wheel5", nx.wheel_graph(5)),
    motif("paw+tail", nx.lollipop_graph(3, 2)),
    motif("barbell", nx.barbell_graph(3, 1)),
    motif("bowtie", bowtie),
    motif("strings", strg),
    motif("mixed-nodes", mixed),
    motif("", nx.cycle_graph(4)),          # unnamed motif
    motif("single", nx.empty_graph(1)),    # one vertex, no edge
]

PHIS = (0.0, 0.23, 0.5645231765, 0.8, 1.0)

print("== 1. fresh evaluator per call")
for G in motifs:
    for root in G.nodes():
        for phi in PHIS:
            show(f"fresh {G.name!r} root={root!r} phi={phi!r}",
                 lambda: AutomatedEquation().automated_equation(G, phi, root))

print("== 2. one shared evaluator, interleaved, repeated (root, name) pairs, changing u")
shared = AutomatedEquation()
for sweep, phi in enumerate((0.5645231765, 0.23, 0.8, 0.5645231765)):
    for G in motifs:
        before = graph_digest(G)
        for root in G.nodes():
            show(f"shared s{sweep} {G.name!r} root={root!r} phi={phi!r}",
                 lambda: shared.automated_equation(G, phi, root))
            # immediately again: identical arguments
            show(f"shared s{sweep} again {G.name!r} root={root!r}",
                 lambda: shared.automated_equation(G, phi, root))
        print("  input unchanged:", graph_digest(G) == before)
        reseed_u(G)
cs, ec = cache_digest(shared)
print("shared cache subgraphs:", hashlib.sha256(repr(cs).encode()).hexdigest(), len(cs))
for k in list(cs)[:12]:
    print("  ", repr(k), cs[k])
print("shared cache edge combos:", hashlib.sha256(repr(ec).encode()).hexdigest(), len(ec))
for k in list(ec)[:12]:
    print("  ", repr(k), ec[k])

print("== 3. cache keyed by name only: same name, different graph (stale structure reused)")
ae = AutomatedEquation()
A = motif("same", nx.complete_graph(3))
B = motif("same", nx.path_graph(4))
C = motif("same", nx.path_graph(2))
for G in (A, B, C, A, B, C):
    for root in (0, 1):
        show(f"same-name n={len(G)} root={root}", lambda: ae.automated_equation(G, 0.37, root))
print(cache_digest(ae))

print("== 4. direct calls: get_connected_subgraphs")
ae = AutomatedEquation()
for G in motifs:
    for root in G.nodes():
        r1 = show(f"cs {G.name!r} {root!r}", lambda: ae.get_connected_subgraphs(G, root))
        r2 = ae.get_connected_subgraphs(G, root)
        print("   same object:", r1 is r2, "len:", len(r2), "types:", sorted({type(s).__name__ for s in r2}),
              "element order:", [list(s) for s in r2], "second pass:", [list(s) for s in r2] == [list(s) for s in r1])
show("cs root missing", lambda: ae.get_connected_subgraphs(motifs[1], 99))
show("cs root missing again", lambda: ae.get_connected_subgraphs(motifs[1], 99))
show("cs unhashable root", lambda: ae.get_connected_subgraphs(motifs[1], [0]))
print("cache keys after errors:", list(ae._connected_subgraphs)[-3:], len(ae._connected_subgraphs))
# caller appends to the returned list: shared with the cache
lst = ae.get_connected_subgraphs(motifs[1], 0)
show("cs append", lambda: lst.append({"sentinel"}))
show("cs after append", lambda: ae.get_connected_subgraphs(motifs[1], 0))
lst.pop()
# disconnected graph: only the root's component is enumerated
disc = motif("disc", nx.Graph([(0, 1), (2, 3)]))
show("cs disconnected", lambda: ae.get_connected_subgraphs(disc, 0))
show("ae disconnected", lambda: ae.automated_equation(disc, 0.4, 0))
show("ae disconnected again", lambda: ae.automated_equation(disc, 0.4, 0))
# directed and multi graphs, self loops
dg = motif("dig", nx.DiGraph([(0, 1), (1, 2), (2, 0), (0, 2)]))
mg = motif("multi", nx.MultiGraph([(0, 1), (0, 1), (1, 2), (2, 0)]))
sl = motif("selfloop", nx.Graph([(0, 0), (0, 1), (1, 2), (2, 0), (2, 2)]))
for G in (dg, mg, sl):
    for root in G.nodes():
        show(f"cs {G.name} {root}", lambda: ae.get_connected_subgraphs(G, root))
        for phi in (0.3, 0.3, 0.9):
            show(f"ae {G.name} {root} {phi}", lambda: ae.automated_equation(G, phi, root))

print("== 5. direct calls: get_edge_combinations")
ae = AutomatedEquation()
for G in motifs + [disc, dg, mg, sl]:
    c = list(G.nodes())
    r1 = show(f"ec {G.name!r}", lambda: ae.get_edge_combinations(G, c))
    r2 = show(f"ec {G.name!r} again", lambda: ae.get_edge_combinations(G, c))
    print("   same object:", r1 is r2)
show("ec null graph", lambda: ae.get_edge_combinations(nx.Graph(name="null"), []))
show("ec null graph again", lambda: ae.get_edge_combinations(nx.Graph(name="null"), []))
show("ec not a graph", lambda: ae.get_edge_combinations(None, [0]))
ecd = cache_digest(ae)[1]
print("ec cache:", hashlib.sha256(repr(ecd).encode()).hexdigest(), [(k, v[0], len(v[1]), sum(v[1])) for k, v in ecd.items()])

print("== 6. direct calls: get_us")
ae = AutomatedEquation()
for G in motifs:
    for root in list(G.nodes())[:3]:
        show(f"us {G.name!r} {root!r}", lambda: ae.get_us(G, root))
    show(f"us {G.name!r} absent root", lambda: ae.get_us(G, "nobody"))
ints = motif("ints", nx.path_graph(4), {0: 1, 1: 2, 2: 3, 3: 1})
bools = motif("bools", nx.path_graph(3), {0: True, 1: True, 2: False})
fracs = motif("fracs", nx.path_graph(4), {n: Fraction(n + 1, 7) for n in range(4)})
npf = motif("npf", nx.path_graph(4), {n: np.float64(0.1 * (n + 1)) for n in range(4)})
np32 = motif("np32", nx.path_graph(4), {n: np.float32(0.1 * (n + 1)) for n in range(4)})
mix = motif("mixu", nx.path_graph(5), {0: 0.3, 1: 1, 2: np.float64(0.7), 3: Fraction(1, 3), 4: 0.9})
cplx = motif("cplx", nx.path_graph(3), {0: 0.5 + 1j, 1: 0.25, 2: 2})
big = motif("big", nx.path_graph(3), {0: 10 ** 400, 1: 0.5, 2: 0.5})
tiny = motif("tiny", nx.path_graph(6), {n: 1e-80 for n in range(6)})
huge = motif("huge", nx.path_graph(6), {n: 1e80 for n in range(6)})
nan = motif("nan", nx.path_graph(3), {0: float("nan"), 1: float("inf"), 2: 0.0})
strs = motif("strs", nx.path_graph(3), {0: "a", 1: 0.5, 2: 0.5})
arr = motif("arr", nx.path_graph(3), {n: np.array([0.1 * (n + 1), 0.5]) for n in range(3)})
missing = nx.path_graph(3); missing.name = "missing"; nx.set_node_attributes(missing, {0: 0.5, 2: 0.5}, "u")
nou = nx.path_graph(3); nou.name = "nou"
special = [ints, bools, fracs, npf, np32, mix, cplx, big, tiny, huge, nan, strs, arr, missing, nou]
for G in special:
    for root in G.nodes():
        show(f"us {G.name} {root}", lambda: ae.get_us(G, root))
print("== 6b. automated_equation with unusual u / p types, twice each on one evaluator")
for G in special:
    for root in list(G.nodes())[:2]:
        for p in (0.37, Fraction(1, 3), np.float64(0.37), 1, 0):
            show(f"ae {G.name} {root} p={p!r}", lambda: ae.automated_equation(G, p, root))
            show(f"ae {G.name} {root} p={p!r} again", lambda: ae.automated_equation(G, p, root))
show("ae p=None", lambda: ae.automated_equation(motifs[1], None, 0))
show("ae p=None fresh", lambda: AutomatedEquation().automated_equation(motifs[1], None, 0))
show("ae p=str", lambda: ae.automated_equation(motifs[2], "x", 0))
show("ae root missing", lambda: ae.automated_equation(motifs[2], 0.5, 42))
show("ae after errors", lambda: ae.automated_equation(motifs[2], 0.5, 0))
show("ae G None", lambda: ae.automated_equation(None, 0.5, 0))
h = hashlib.sha256(repr(cache_digest(ae)).encode()).hexdigest()
print("cache after 6:", h)

print("== 7. the unit-test motifs, homogeneous u, one evaluator, every focal vertex, twice")
ae = AutomatedEquation()
u0, phi0 = 0.651284213, 0.5645231765
for rep in range(2):
    for n in range(2, 7):
        G = motif(f"{n}-clique", nx.complete_graph(n), {k: u0 for k in range(n)})
        for root in G.nodes():
            show(f"clique {n} {root} rep{rep}", lambda: ae.automated_equation(G, phi0, root))
    for n in range(3, 9):
        G = motif(f"{n}-cycle", nx.cycle_graph(n), {k: u0 for k in range(n)})
        for root in G.nodes():
            show(f"cycle {n} {root} rep{rep}", lambda: ae.automated_equation(G, phi0, root))
    G = motif("1,3-chorded-4-cycle", diamond, {k: u0 for k in range(4)})
    for root in G.nodes():
        show(f"diamond {root} rep{rep}", lambda: ae.automated_equation(G, phi0, root))

print("== 8. MessagePassing.theoretical (shared evaluator across fixed-point iterations)")


def covered_graph():
    """Edge-disjoint cover: two triangles, a diamond, a 4-cycle, and single edges."""
    G = nx.Graph()
    uid = 0
    pieces = [
        (3, [0, 1, 2], [(0, 1), (1, 2), (0, 2)]),
        (3, [2, 3, 4], [(2, 3), (3, 4), (2, 4)]),
        (5, [4, 5, 6, 7], [(4, 5), (5, 6), (6, 7), (7, 4), (4, 6)]),
        (4, [7, 8, 9, 10], [(7, 8), (8, 9), (9, 10), (10, 7)]),
        (2, [10, 11], [(10, 11)]),
        (2, [11, 0], [(11, 0)]),
        (2, [5, 12], [(5, 12)]),
        (3, [12, 13, 14], [(12, 13), (13, 14), (12, 14)]),
        (2, [14, 15], [(14, 15)]),
    ]
    for key, vs, es in pieces:
        label = f"{key}-{vs}-{es}-{uid}"
        for a, b in es:
            G.add_edge(a, b, CoverLabel=label)
        uid += 1
    return G


CG = covered_graph()
mp = MessagePassing(CG, iterations=6)
for phi in (0.0, 0.2, 0.5, 0.5, 0.77, 1.0):
    show(f"theoretical phi={phi}", lambda: mp.theoretical(phi))
    print("   H_tau:", hashlib.sha256(repr(sorted(mp._H_tau.items())).encode()).hexdigest(),
          [repr(v) for v in list(mp._H_tau.values())[:6]])
for phi in (0.35, 0.9):
    show(f"theoretical fresh phi={phi}", lambda: MessagePassing(CG, iterations=4).theoretical(phi))
show("resolve_equation direct", lambda: mp.resolve_equation(
    2, CG.edges[2, 3]["CoverLabel"], {3: 0.4, 4: 0.7}))
show("resolve_equation direct again", lambda: mp.resolve_equation(
    2, CG.edges[2, 3]["CoverLabel"], {3: 0.9, 4: 0.1}))
show("resolve_equation missing prod", lambda: mp.resolve_equation(
    2, CG.edges[2, 3]["CoverLabel"], {3: 0.9}))
cs, ec = cache_digest(mp._AE)
print("mp cache:", hashlib.sha256(repr((cs, ec)).encode()).hexdigest(), len(cs), len(ec))
print("covered graph unchanged:", graph_digest(CG) == graph_digest(covered_graph()))

print("== 9. RNG state afterwards")
print("random:", hashlib.sha256(repr(random.getstate()).encode()).hexdigest())
print("numpy:", hashlib.sha256(repr(np.random.get_state()).encode()).hexdigest())
print("next draws:", repr(random.random()), repr(float(np.random.random())))
