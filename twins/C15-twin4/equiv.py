"""
Equivalence digest for gcmpy/message_passing/equations/automated_equation.py (C15).
Run with cwd = a checkout. Prints a deterministic transcript: results (bit exact floats
via repr), exceptions, cache contents, mutated inputs and the RNG states afterwards.
"""
import os
import sys

if os.environ.get("PYTHONHASHSEED") != "0":
    env = dict(os.environ)
    env["PYTHONHASHSEED"] = "0"
    argv = [sys.executable]
    if sys.flags.optimize:
        argv.append("-" + "O" * sys.flags.optimize)
    os.execve(sys.executable, argv + [os.path.abspath(__file__)] + sys.argv[1:], env)

sys.path.insert(0, os.getcwd())

import hashlib
import itertools
import logging
import random
from fractions import Fraction

import numpy as np
import networkx as nx

from gcmpy.message_passing.equations.automated_equation import AutomatedEquation
from gcmpy.message_passing.equations import AutomatedEquation as AE2

assert_free_check = AE2 is AutomatedEquation
print("same class via package:", assert_free_check)

random.seed(12345)
np.random.seed(12345)

LINES = []


def out(*parts):
    line = " ".join(str(p) for p in parts)
    LINES.append(line)
    print(line)


def r(x):
    """bit exact, order preserving repr."""
    if isinstance(x, float):
        return repr(x) + "/" + x.hex()
    if isinstance(x, (list, tuple)):
        return type(x).__name__ + "[" + ", ".join(r(i) for i in x) + "]"
    if isinstance(x, (set, frozenset)):
        return type(x).__name__ + "{" + ", ".join(r(i) for i in x) + "}"  # iteration order
    if isinstance(x, dict):
        return "dict{" + ", ".join(r(k) + ": " + r(v) for k, v in x.items()) + "}"
    return repr(x)


def graph_state(G):
    try:
        return "name=%r nodes=%s edges=%s graph=%s" % (
            G.name,
            r([(n, dict(d)) for n, d in G.nodes(data=True)]),
            r([tuple(e) for e in G.edges(data=True)]) if not G.is_multigraph() else r(list(G.edges(keys=True, data=True))),
            r(dict(G.graph)),
        )
    except Exception as exc:  # pragma: no cover
        return "unprintable %r" % (exc,)


def cache_state(ae):
    return "CS=%s | EC=%s" % (r(ae._connected_subgraphs), r(ae._edge_combinations))


def call(label, fn, *args, **kwargs):
    try:
        res = fn(*args, **kwargs)
        out(label, "->", r(res))
        return res
    except BaseException as exc:
        out(label, "!!", type(exc).__module__ + "." + type(exc).__name__, repr(exc.args))
        return None


def set_u(G, values=None):
    for i, n in enumerate(G.nodes()):
        G.nodes[n]["u"] = values[i] if values is not None else random.random()
    return G


def motifs():
    gs = []
    g = nx.Graph(name="edge"); g.add_edge(0, 1); gs.append(g)
    g = nx.Graph(name="path3"); g.add_edges_from([(0, 1), (1, 2)]); gs.append(g)
    g = nx.Graph(name="triangle"); g.add_edges_from([(0, 1), (1, 2), (2, 0)]); gs.append(g)
    g = nx.Graph(name="square"); g.add_edges_from([(0, 1), (1, 2), (2, 3), (3, 0)]); gs.append(g)
    g = nx.Graph(name="diamond"); g.add_edges_from([(0, 1), (1, 2), (2, 3), (3, 0), (0, 2)]); gs.append(g)
    g = nx.complete_graph(4); g.name = "K4"; gs.append(g)
    g = nx.star_graph(3); g.name = "star3"; gs.append(g)
    g = nx.Graph(name="bowtie"); g.add_edges_from([(0, 1), (1, 2), (2, 0), (2, 3), (3, 4), (4, 2)]); gs.append(g)
    g = nx.Graph(name="tadpole"); g.add_edges_from([(5, 3), (3, 9), (9, 5), (9, 7)]); gs.append(g)
    g = nx.complete_graph(5); g.name = "K5"; gs.append(g)
    g = nx.Graph(name="strnodes"); g.add_edges_from([("a", "b"), ("b", "c"), ("c", "a"), ("c", "d")]); gs.append(g)
    g = nx.Graph(name="mixed"); g.add_edges_from([((0, 1), "x"), ("x", 2.5), (2.5, (0, 1))]); gs.append(g)
    g = nx.Graph(name="selfloop"); g.add_edges_from([(0, 1), (1, 1), (1, 2)]); gs.append(g)
    g = nx.Graph(name="single"); g.add_node(0); gs.append(g)
    return gs


def section(title):
    out("=" * 10, title)


# ---------------------------------------------------------------- constructor
section("constructor")
ae = AutomatedEquation()
out("fresh", cache_state(ae), sorted(vars(ae)))

# ---------------------------------------------------------------- get_connected_subgraphs
section("get_connected_subgraphs")
ae = AutomatedEquation()
for G in motifs():
    for root in list(G.nodes()):
        before = graph_state(G)
        res1 = call("gcs %s root=%r" % (G.name, root), ae.get_connected_subgraphs, G, root)
        res2 = call("gcs again %s root=%r" % (G.name, root), ae.get_connected_subgraphs, G, root)
        out("  same object on repeat:", res1 is res2, "graph unchanged:", before == graph_state(G))
out("cache", hashlib.sha256(cache_state(ae).encode()).hexdigest())
out("cache keys", r(list(ae._connected_subgraphs)))

# (NaN vertices are left out on purpose: hash(nan) is id based, so set orders would
# depend on memory addresses and differ from run to run on the very same code.)
section("get_connected_subgraphs error paths / collisions")
ae = AutomatedEquation()
T = nx.Graph(name="T"); T.add_edges_from([(0, 1), (1, 2), (2, 0)])
call("root missing", ae.get_connected_subgraphs, T, 7)
out(cache_state(ae))
call("root unhashable", ae.get_connected_subgraphs, T, [0])
out(cache_state(ae))
call("G is None", ae.get_connected_subgraphs, None, 0)
call("G is dict", ae.get_connected_subgraphs, {0: [1]}, 0)
U = nx.Graph(); U.add_edges_from([(0, 1), (1, 2)])
call("unnamed root 0", ae.get_connected_subgraphs, U, 0)
V = nx.Graph(); V.add_edges_from([(0, 1), (1, 2), (2, 3), (3, 0)])
call("unnamed other graph root 0 (collision)", ae.get_connected_subgraphs, V, 0)
S = nx.Graph(name="T"); S.add_edges_from([("0", "1")])
call("T root 0", ae.get_connected_subgraphs, T, 0)
call("same name str root '0' (collision)", ae.get_connected_subgraphs, S, "0")
D = nx.DiGraph(name="D"); D.add_edges_from([(0, 1), (1, 2), (2, 0)])
call("digraph", ae.get_connected_subgraphs, D, 0)
M = nx.MultiGraph(name="M"); M.add_edges_from([(0, 1), (0, 1), (1, 2)])
call("multigraph", ae.get_connected_subgraphs, M, 0)
Dis = nx.Graph(name="dis"); Dis.add_edges_from([(0, 1), (2, 3)])
call("disconnected", ae.get_connected_subgraphs, Dis, 0)
call("disconnected r2", ae.get_connected_subgraphs, Dis, 2)
out(cache_state(ae))

# ---------------------------------------------------------------- _get_connected_subgraphs
section("_get_connected_subgraphs direct")
ae = AutomatedEquation()
for G in motifs():
    for root in list(G.nodes())[:2]:
        results = []
        sub, poss, excl = {root}, set(G.neighbors(root)), {root}
        ret = call("_gcs %s root=%r" % (G.name, root), ae._get_connected_subgraphs, G, sub, poss, excl, results, len(G.nodes()))
        out("  results", r(results), "inputs after", r(sub), r(poss), r(excl), "first is sub:", results[0] is sub)
K = nx.complete_graph(4); K.name = "K4"
for max_size in (0, 1, 2, 3, 4, 9):
    results = []
    call("_gcs K4 max_size=%d" % max_size, ae._get_connected_subgraphs, K, {0}, {1, 2, 3}, {0}, results, max_size)
    out("  results", r(results))
# unusual argument combinations
results = []
call("_gcs empty excluded", ae._get_connected_subgraphs, K, {0}, {1, 2, 3}, set(), results, 4)
out("  results", r(results))
results = []
call("_gcs possible holds root", ae._get_connected_subgraphs, K, {0}, {0, 1, 2, 3}, set(), results, 4)
out("  results", r(results))
results = []
call("_gcs possible empty", ae._get_connected_subgraphs, K, {0}, set(), {0}, results, 4)
out("  results", r(results))
results = []
call("_gcs bigger start", ae._get_connected_subgraphs, K, {0, 1}, {2, 3}, {0, 1}, results, 4)
out("  results", r(results))
results = []
call("_gcs frozensets", ae._get_connected_subgraphs, K, frozenset({0}), frozenset({1, 2}), frozenset({0}), results, 4)
out("  results", r(results))
results = []
call("_gcs foreign vertex", ae._get_connected_subgraphs, K, {0}, {1, 77}, {0}, results, 4)
out("  results", r(results))
results = []
call("_gcs list args", ae._get_connected_subgraphs, K, [0], [1, 2], [0], results, 4)
out("  results", r(results))
call("_gcs results None", ae._get_connected_subgraphs, K, {0}, {1}, {0}, None, 4)
out(cache_state(ae))

# ---------------------------------------------------------------- get_edge_combinations
section("get_edge_combinations")
ae = AutomatedEquation()
for G in motifs():
    if G.number_of_edges() > 8:
        continue
    c = list(G.nodes())
    before = graph_state(G)
    res1 = call("gec %s" % G.name, ae.get_edge_combinations, G, c)
    res2 = call("gec again %s" % G.name, ae.get_edge_combinations, G, c)
    res3 = call("gec other c %s" % G.name, ae.get_edge_combinations, G, c[::-1])
    out("  repeat same object:", res1 is res2, "other c same object:", res1 is res3, "graph unchanged:", before == graph_state(G), "c after:", r(c))
out("cache keys", r(list(ae._edge_combinations)))
out(cache_state(ae))

section("get_edge_combinations error paths")
ae = AutomatedEquation()
call("empty graph", ae.get_edge_combinations, nx.Graph(name="empty"), [])
out(cache_state(ae))
call("disconnected", ae.get_edge_combinations, Dis, [0, 1, 2, 3])
call("digraph", ae.get_edge_combinations, D, [0, 1, 2])
out(cache_state(ae))
call("multigraph", ae.get_edge_combinations, M, [0, 1, 2])
call("None graph", ae.get_edge_combinations, None, [0])
call("c is None", ae.get_edge_combinations, T, None)
call("c is tuple", ae.get_edge_combinations, T, (0, 1, 2))
call("c is str", ae.get_edge_combinations, T, "None")
T2 = nx.Graph(name="T"); T2.add_edges_from([(0, 1), (1, 2)])
call("collision on name+c", ae.get_edge_combinations, T2, (0, 1, 2))
out(cache_state(ae))

# ---------------------------------------------------------------- get_us
section("get_us")
ae = AutomatedEquation()
for G in motifs():
    set_u(G)
    for root in list(G.nodes()) + ["not a vertex"]:
        before = graph_state(G)
        call("get_us %s root=%r" % (G.name, root), ae.get_us, G, root)
        out("  graph unchanged:", before == graph_state(G))
G = nx.Graph(name="fr"); G.add_edges_from([(0, 1), (1, 2)])
set_u(G, [Fraction(1, 3), Fraction(2, 7), Fraction(5, 11)])
call("get_us fractions", ae.get_us, G, 1)
set_u(G, [2, 3, 5])
call("get_us ints", ae.get_us, G, 0)
set_u(G, [1e308, 1e308, 1e-308])
call("get_us overflow", ae.get_us, G, 5)
set_u(G, [float("nan"), 0.0, float("inf")])
call("get_us nan", ae.get_us, G, 5)
set_u(G, ["a", 2.0, 3.0])
call("get_us str u", ae.get_us, G, 2)
call("get_us str u 2", ae.get_us, G, 1)
H = nx.Graph(name="nou"); H.add_edges_from([(0, 1), (1, 2)])
call("get_us missing attr", ae.get_us, H, 0)
H.nodes[1]["u"] = 0.5
call("get_us partly missing attr", ae.get_us, H, 0)
call("get_us None graph", ae.get_us, None, 0)
call("get_us empty graph", ae.get_us, nx.Graph(), 0)
out(cache_state(ae))

# ---------------------------------------------------------------- automated_equation
section("automated_equation floats, one evaluator, many orders")
ae = AutomatedEquation()
ps = [0.0, 1.0, 0.5, 0.1, 0.3333333333333333, 0.987654321, 1e-12, 1 - 1e-12, -0.25, 1.75]
gs = [G for G in motifs() if G.number_of_edges() <= 10]
for G in gs:
    set_u(G)
for rnd in range(3):
    order = list(itertools.product(range(len(gs)), range(len(ps))))
    random.shuffle(order)
    for gi, pi in order[: 60]:
        G = gs[gi]
        nodes = list(G.nodes())
        root = nodes[random.randrange(len(nodes))]
        if rnd == 2:
            set_u(G)
        before = graph_state(G)
        call("ae %s root=%r p=%r" % (G.name, root, ps[pi]), ae.automated_equation, G, ps[pi], root)
        if before != graph_state(G):
            out("  GRAPH CHANGED", graph_state(G))
    out("round", rnd, "cache", hashlib.sha256(cache_state(ae).encode()).hexdigest())
out("CS keys", r(list(ae._connected_subgraphs)))
out("EC keys", r(list(ae._edge_combinations)))
out(cache_state(ae))

section("automated_equation fresh evaluator per call equals shared evaluator")
shared = AutomatedEquation()
for G in gs:
    for root in G.nodes():
        for p in (0.25, 0.8):
            a = call("shared %s %r %r" % (G.name, root, p), shared.automated_equation, G, p, root)
            b = call("fresh  %s %r %r" % (G.name, root, p), AutomatedEquation().automated_equation, G, p, root)
            out("  equal:", r(a) == r(b))

section("automated_equation exact arithmetic")
ae = AutomatedEquation()
for G in gs:
    vals = [Fraction(random.randrange(0, 20), 19) for _ in G.nodes()]
    set_u(G, vals)
    for root in list(G.nodes())[:3]:
        for p in (Fraction(0), Fraction(1), Fraction(1, 3), Fraction(7, 9)):
            call("ae frac %s root=%r p=%r" % (G.name, root, p), ae.automated_equation, G, p, root)
    set_u(G, [random.randrange(0, 5) for _ in G.nodes()])
    call("ae ints %s" % G.name, ae.automated_equation, G, 1, list(G.nodes())[0])
    call("ae ints p=0 %s" % G.name, ae.automated_equation, G, 0, list(G.nodes())[-1])
    call("ae complex %s" % G.name, ae.automated_equation, G, 0.25 + 0.5j, list(G.nodes())[0])
    call("ae np.float64 %s" % G.name, ae.automated_equation, G, np.float64(0.37), list(G.nodes())[0])
    call("ae np.float32 %s" % G.name, ae.automated_equation, G, np.float32(0.37), list(G.nodes())[0])
try:
    import sympy
    ae = AutomatedEquation()
    phi = sympy.Symbol("phi")
    for G in gs[:8]:
        syms = [sympy.Symbol("u%d" % i) for i, _ in enumerate(G.nodes())]
        set_u(G, syms)
        for root in list(G.nodes())[:2]:
            res = call("ae sympy %s root=%r" % (G.name, root), ae.automated_equation, G, phi, root)
            if res is not None:
                out("  expanded", sympy.srepr(sympy.expand(res)))
except ImportError:
    out("sympy not available")

section("automated_equation error paths")
ae = AutomatedEquation()
G = nx.Graph(name="tri"); G.add_edges_from([(0, 1), (1, 2), (2, 0)])
call("no u attr", ae.automated_equation, G, 0.5, 0)
out(cache_state(ae))
set_u(G, [0.5, 0.25, 0.125])
call("root missing", ae.automated_equation, G, 0.5, 9)
call("p str", ae.automated_equation, G, "0.5", 0)
call("p None", ae.automated_equation, G, None, 0)
call("p str + root missing", ae.automated_equation, G, "0.5", 9)
call("root unhashable", ae.automated_equation, G, 0.5, [0])
call("G None", ae.automated_equation, None, 0.5, 0)
call("ok after errors", ae.automated_equation, G, 0.5, 0)
out(cache_state(ae))
G.nodes[1]["u"] = "oops"
call("u str", ae.automated_equation, G, 0.5, 0)
call("u str root=1", ae.automated_equation, G, 0.5, 1)
del G.nodes[2]["u"]
call("u missing on 2", ae.automated_equation, G, 0.5, 0)
call("u missing on 2, root 2", ae.automated_equation, G, 0.5, 2)
set_u(Dis, [0.5, 0.6, 0.7, 0.8])
call("disconnected", ae.automated_equation, Dis, 0.5, 0)
set_u(D, [0.5, 0.6, 0.7])
call("digraph", ae.automated_equation, D, 0.5, 0)
set_u(M, [0.5, 0.6, 0.7])
call("multigraph", ae.automated_equation, M, 0.5, 0)
call("multigraph r1", ae.automated_equation, M, 0.5, 1)
call("empty graph", ae.automated_equation, nx.Graph(name="e"), 0.5, 0)
out(cache_state(ae))

section("automated_equation name collisions / stale caches / same names")
ae = AutomatedEquation()
A = nx.Graph(); A.add_edges_from([(0, 1), (1, 2), (2, 0)]); set_u(A, [0.3, 0.4, 0.5])
B = nx.Graph(); B.add_edges_from([(0, 1), (1, 2), (2, 3), (3, 0)]); set_u(B, [0.3, 0.4, 0.5, 0.6])
C = nx.Graph(); C.add_edges_from([(0, 1)]); set_u(C, [0.3, 0.4])
for label, G in (("A", A), ("B", B), ("C", C), ("A", A), ("B", B)):
    call("unnamed %s" % label, ae.automated_equation, G, 0.4, 0)
ae2 = AutomatedEquation()
for label, G in (("C", C), ("B", B), ("A", A)):
    call("unnamed reversed %s" % label, ae2.automated_equation, G, 0.4, 0)
ae3 = AutomatedEquation()
X = nx.Graph(name="X"); X.add_edges_from([(0, 1), (1, 2), (2, 0)]); set_u(X, [0.3, 0.4, 0.5])
call("X", ae3.automated_equation, X, 0.4, 0)
X.add_edge(2, 3); X.nodes[3]["u"] = 0.9
call("X after growth (stale cache)", ae3.automated_equation, X, 0.4, 0)
X.remove_node(1)
call("X after shrink (stale cache)", ae3.automated_equation, X, 0.4, 0)
Y = nx.Graph(name="X"); Y.add_edges_from([("0", "1"), ("1", "2")]); set_u(Y, [0.3, 0.4, 0.5])
call("Y str root, same key", ae3.automated_equation, Y, 0.4, "0")
out(cache_state(ae3))
# caller mutates the returned cache entry
ae4 = AutomatedEquation()
Z = nx.Graph(name="Z"); Z.add_edges_from([(0, 1), (1, 2), (2, 0)]); set_u(Z, [0.3, 0.4, 0.5])
comps = ae4.get_connected_subgraphs(Z, 0)
call("Z", ae4.automated_equation, Z, 0.4, 0)
comps.append(set())
call("Z with empty component injected", ae4.automated_equation, Z, 0.4, 0)
comps.pop(); comps.pop(0)
call("Z without singleton", ae4.automated_equation, Z, 0.4, 0)
del comps[:]
call("Z with no components", ae4.automated_equation, Z, 0.4, 0)
ae4._connected_subgraphs["0-Z"] = iter([{0}, {0, 1}])
call("Z with iterator as cache entry", ae4.automated_equation, Z, 0.4, 0)
call("Z with exhausted iterator", ae4.automated_equation, Z, 0.4, 0)
out(cache_state(AutomatedEquation()))

section("via MessagePassing.resolve_equation naming scheme")
ae = AutomatedEquation()
for focal in (0, 1, 2):
    for motif_id in ("a", "b"):
        H = nx.Graph(name=f"{focal}-{motif_id}")
        H.add_edges_from([(0, 1), (1, 2), (2, 0)] if motif_id == "a" else [(0, 1), (1, 2), (2, 3), (3, 0), (0, 2)])
        nx.set_node_attributes(H, {n: random.random() for n in H.nodes()}, "u")
        for _ in range(2):
            call("mp %s" % H.name, ae.automated_equation, H, 0.42, focal)
out(cache_state(ae))

section("with DEBUG logging enabled (records swallowed)")


class _Swallow(logging.Handler):
    count = 0

    def emit(self, record):
        record.getMessage()  # force the formatting
        _Swallow.count += 1


handler = _Swallow()
root_logger = logging.getLogger()
old_level = root_logger.level
root_logger.addHandler(handler)
root_logger.setLevel(logging.DEBUG)
try:
    ae = AutomatedEquation()
    for G in gs:
        set_u(G)
        for root in list(G.nodes())[:2]:
            call("dbg ae %s root=%r" % (G.name, root), ae.automated_equation, G, 0.61, root)
    call("dbg root missing", ae.automated_equation, gs[0], 0.61, "zz")
    out(hashlib.sha256(cache_state(ae).encode()).hexdigest())
finally:
    root_logger.removeHandler(handler)
    root_logger.setLevel(old_level)
sys.stderr.write("debug records swallowed: %d\n" % _Swallow.count)

section("rng state")
out("random", hashlib.sha256(repr(random.getstate()).encode()).hexdigest())
st = np.random.get_state()
out("numpy", hashlib.sha256((repr(st[0]) + st[1].tobytes().hex() + repr(st[2:])).encode()).hexdigest())
out("next draws", r(random.random()), r(float(np.random.random())))
out("TOTAL", len(LINES), hashlib.sha256("\n".join(LINES).encode()).hexdigest())
