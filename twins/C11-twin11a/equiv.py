import sys, os; sys.path.insert(0, os.getcwd())
import hashlib
import random
import numpy as np
import networkx as nx

from gcmpy.joint_degree.joint_degree_loaders.joint_degree_manual import JointDegreeManual
from gcmpy.motif_generators.clique_motif import clique_motif
from gcmpy.gcm_algorithm.gcm_algorithm_network import GCMAlgorithmNetwork
from gcmpy.names.gcm_algorithm_names import GCMAlgorithmNames
from gcmpy.names.joint_degree_names import JointDegreeNames
from gcmpy.names.tools_names import ToolsNames
from gcmpy.names.network_names import NetworkNames
from gcmpy.network.network import Network
from gcmpy.tools.joint_excess_joint_degree_matrices import JointExcessJointDegreeMatrices
from gcmpy.tools.markov_chain_monte_carlo import MarkovChainMonteCarlo
from gcmpy.tools.markov_chain_monte_carlo_rewiring import (
    MarkovChainMonteCarloRewiring,
    ErrorMarkovChainMonteCarloRewiring,
)
from gcmpy.tools.joint_excess_from_ejk import JointExcessFromEjk
from gcmpy.tools.joint_degree_from_excess import JointDegreeFromExcess
from gcmpy.tools.draw_set import DrawSet
from gcmpy.tools.proposal_edge import ProposalEdge

EDGE_NAMES = ["2-clique", "3-clique"]
MOTIF_SIZES = [2, 3]
OUT = []


def emit(*parts):
    OUT.append(" ".join(str(p) for p in parts))


def rng_state():
    h = hashlib.sha256()
    h.update(repr(random.getstate()).encode())
    st = np.random.get_state()
    h.update(repr((st[0], st[1].tolist(), st[2], st[3], st[4])).encode())
    return h.hexdigest()[:16]


def seed(n):
    random.seed(n)
    np.random.seed(n)


def attempt(label, fn):
    """Runs fn, records value or exception type + message."""
    try:
        r = fn()
        emit(label, "->", repr(r))
        return r
    except BaseException as e:  # noqa
        emit(label, "!!", type(e).__name__, repr(str(e)))
        return None


def target_ejks(eps):
    tree = {
        (0, 3, 0, 3): 9 / 81 - 2 * eps,
        (0, 3, 4, 1): eps,
        (0, 3, 2, 2): eps,
        (4, 1, 0, 3): eps,
        (4, 1, 4, 1): 45 / 81 - 2 * eps,
        (4, 1, 2, 2): eps,
        (2, 2, 0, 3): eps,
        (2, 2, 4, 1): eps,
        (2, 2, 2, 2): 27 / 81 - 2 * eps,
    }
    tri = {
        (3, 1, 3, 1): 48 / 144 - 2 * eps,
        (3, 1, 1, 2): eps,
        (3, 1, 5, 0): eps,
        (1, 2, 3, 1): eps,
        (1, 2, 1, 2): 72 / 144 - 2 * eps,
        (1, 2, 5, 0): eps,
        (5, 0, 3, 1): eps,
        (5, 0, 1, 2): eps,
        (5, 0, 5, 0): 24 / 144 - 2 * eps,
    }
    p = {ToolsNames.EDGE_NAMES: list(EDGE_NAMES),
         ToolsNames.EJKS: {"2-clique": tree, "3-clique": tri}}
    return JointExcessJointDegreeMatrices(p)


def build_network(n, ejk):
    qks = JointExcessFromEjk.get_excess_joint_distributions(ejk)
    jdd = JointDegreeFromExcess.get_joint_degree_distribution(qks, EDGE_NAMES)
    p = {JointDegreeNames.JDD: jdd, JointDegreeNames.MOTIF_SIZES: MOTIF_SIZES}
    jds = JointDegreeManual(p).sample_jds_from_jdd(n)
    p = {GCMAlgorithmNames.MOTIF_SIZES: MOTIF_SIZES,
         GCMAlgorithmNames.EDGE_NAMES: EDGE_NAMES,
         GCMAlgorithmNames.BUILD_FUNCTIONS: [clique_motif, clique_motif]}
    return GCMAlgorithmNetwork(p).random_clustered_graph(jds)


def graph_digest(G):
    h = hashlib.sha256()
    h.update(repr(list(G.nodes(data=True))).encode())
    h.update(repr(list(G.edges(data=True))).encode())
    h.update(repr({u: list(G.adj[u]) for u in G}).encode())
    return "%s n=%d m=%d" % (h.hexdigest()[:16], G.number_of_nodes(), G.number_of_edges())


def mcmc_state(m):
    d = vars(m)
    keys = list(d.keys())
    return (
        keys,
        d.get("_convergence_limit"), d.get("_search_limit"),
        d.get("_proposal_count"), d.get("_proposals_accepted"),
        list(d.get("_acceptance_ratio", [])),
        [(type(p).__name__, list(vars(p).items())) for p in d.get("_proposal_edges", [])],
        ("cls", MarkovChainMonteCarlo._proposal_count, MarkovChainMonteCarlo._proposals_accepted),
    )


def finish():
    text = "\n".join(OUT)
    print(text)
    print("DIGEST", hashlib.sha256(text.encode()).hexdigest())


def run_rewire(label, n, seedv, eps, extra, repeat=1):
    seed(seedv)
    ejk = target_ejks(eps)
    g = build_network(n, ejk)
    before = graph_digest(g.G)
    params = {ToolsNames.NETWORK: g, ToolsNames.EJKS: ejk}
    params.update(extra)
    pkeys = list(params.keys())
    try:
        m = MarkovChainMonteCarloRewiring(params)
    except Exception as e:
        emit(label, "ctor failed", type(e).__name__)
        return
    emit(label, "state0", mcmc_state(m))
    for r in range(repeat):
        try:
            G = m.rewire()
            emit(label, r, "result", graph_digest(G), "is_input", G is g.G)
            deg = sorted(
                (u, sorted((d[NetworkNames.TOPOLOGY], 1) for _, _, d in G.edges(u, data=True)).__repr__())
                for u in G
            )
            emit(label, r, "degtopo", hashlib.sha256(repr(deg).encode()).hexdigest()[:16])
            emit(label, r, "selfloops", nx.number_of_selfloops(G))
        except BaseException as e:  # noqa
            emit(label, r, "rewire !!", type(e).__name__, repr(str(e)))
        emit(label, r, "input", graph_digest(g.G), "unchanged", graph_digest(g.G) == before)
        emit(label, r, "state", mcmc_state(m))
        emit(label, r, "params keys same", list(params.keys()) == pkeys)
        emit(label, r, "rng", rng_state())


# ---------------------------------------------------------------- variant a
# constructor parameter parsing of MarkovChainMonteCarloRewiring
from collections import OrderedDict, defaultdict


class Recorder:
    """Mapping that is not a dict: logs every access the constructor makes."""

    def __init__(self, d, log, with_get=True, bad_contains=None):
        self._d, self._log, self._bad = d, log, bad_contains
        if with_get:
            self.get = self._get

    def __getitem__(self, k):
        self._log.append(("getitem", str(k)))
        return self._d[k]

    def __contains__(self, k):
        self._log.append(("contains", str(k)))
        if self._bad is not None and k is self._bad:
            raise RuntimeError("contains exploded")
        return k in self._d

    def _get(self, k, default=None):
        self._log.append(("get", str(k), repr(default)))
        return self._d.get(k, default)


class GCounter:
    """Network stand-in counting how often .G is read."""

    def __init__(self, G):
        self._g, self.reads = G, 0

    @property
    def G(self):
        self.reads += 1
        return self._g


class NoG:
    pass


def ctor_case(label, params):
    seed(99)
    try:
        m = MarkovChainMonteCarloRewiring(params)
        emit(label, "ok", mcmc_state(m),
             "net", type(m.network).__name__, "ejks", type(m.ejks).__name__,
             "props", repr(m.convergence_limit), repr(m.search_limit),
             type(m.convergence_limit).__name__, type(m.search_limit).__name__)
    except BaseException as e:  # noqa
        emit(label, "!!", type(e).__name__, repr(str(e)),
             "cause", type(e.__cause__).__name__, "ctx", type(e.__context__).__name__,
             repr(str(e.__context__)))
    emit(label, "rng", rng_state())
    return None


seed(5)
EJK = target_ejks(0.02)
NET = build_network(40, EJK)
M = NET.G.number_of_edges()
emit("edges", M)
N_, E_, C_, S_ = (ToolsNames.NETWORK, ToolsNames.EJKS,
                  ToolsNames.CONVERGENCE_LIMIT, ToolsNames.SEARCH_LIMIT)
SENT = object()
limit_values = [SENT, 0, 1, 7, -3, None, 2.5, "12", True, [1], 10 ** 30]
i = 0
for c in limit_values:
    for s in limit_values:
        p = {N_: NET, E_: EJK}
        if c is not SENT:
            p[C_] = c
        if s is not SENT:
            p[S_] = s
        snapshot = list(p.items())
        ctor_case("grid%d c=%r s=%r" % (i, "absent" if c is SENT else c, "absent" if s is SENT else s), p)
        emit("grid%d params untouched" % i, list(p.items()) == snapshot)
        i += 1

# key order in the dict must not matter
ctor_case("order1", {S_: 3, C_: 4, E_: EJK, N_: NET})
ctor_case("order2", {C_: 4, N_: NET, E_: EJK})

# malformed dicts
ctor_case("empty", {})
ctor_case("no-network", {E_: EJK, C_: 5, S_: 5})
ctor_case("no-ejks", {N_: NET, C_: 5, S_: 5})
ctor_case("no-ejks-no-limits", {N_: NET})
ctor_case("string-keys", {"network": NET, "ejks": EJK, "convergence_limit": 5, "search_limit": 6})
ctor_case("mixed-keys", {N_: NET, E_: EJK, "convergence_limit": 5, "search_limit": 6})
ctor_case("value-keys", {N_.value: NET, E_.value: EJK})
ctor_case("network-None", {N_: None, E_: EJK})
ctor_case("network-None+limit", {N_: None, E_: EJK, C_: 9})
ctor_case("network-None+search", {N_: None, E_: EJK, S_: 9})
ctor_case("network-is-nxgraph", {N_: NET.G, E_: EJK})
ctor_case("network-is-nxgraph+limit", {N_: NET.G, E_: EJK, C_: 9})
ctor_case("network-noG", {N_: NoG(), E_: EJK})
ctor_case("network-noG+limit", {N_: NoG(), E_: EJK, C_: 2, S_: 2})
ctor_case("network-G-None", {N_: GCounter(None), E_: EJK})
ctor_case("ejks-None", {N_: NET, E_: None})
ctor_case("empty-network", {N_: Network(), E_: EJK})

# not dicts at all
for label, p in [("None", None), ("list", [NET, EJK]), ("tuple", ()), ("str", "network"),
                 ("int", 3), ("set", {N_, E_})]:
    ctor_case("params-" + label, p)

# dict subclasses
dd = defaultdict(lambda: 77, {N_: NET, E_: EJK})
ctor_case("defaultdict", dd)
emit("defaultdict keys after", [str(k) for k in dd])
dd = defaultdict(lambda: 77)
ctor_case("defaultdict-empty", dd)
emit("defaultdict-empty keys after", [str(k) for k in dd])
ctor_case("ordereddict", OrderedDict([(S_, 1), (N_, NET), (E_, EJK)]))

# how often / in which order the mapping and the network are consulted
for with_get in (True, False):
    for extra in ({}, {C_: 11}, {S_: 12}, {C_: 11, S_: 12}, {C_: None, S_: None}):
        for bad in (None, C_, S_):
            log = []
            net = GCounter(NET.G)
            d = {N_: net, E_: EJK}
            d.update(extra)
            ctor_case("rec get=%s extra=%s bad=%s" % (with_get, sorted(str(k) for k in extra), bad),
                      Recorder(d, log, with_get, bad))
            emit("   log", log, "G reads", net.reads)

# repeated construction from one dict + setters afterwards
p = {N_: NET, E_: EJK, S_: 4}
ms = [MarkovChainMonteCarloRewiring(p) for _ in range(3)]
emit("repeat", [mcmc_state(m) for m in ms], [m.network is NET for m in ms], [m.ejks is EJK for m in ms])
ms[0].convergence_limit = 3
ms[0].search_limit = 30
emit("setters", mcmc_state(ms[0]), mcmc_state(ms[1]))
emit("class attrs", MarkovChainMonteCarloRewiring.__dict__.get("_search_limit", "none"),
     MarkovChainMonteCarloRewiring.__dict__.get("_convergence_limit", "none"))

# and the rewiring itself for several parameter dictionaries
run_rewire("defaults", 40, 11, 0.02, {})
run_rewire("conv-only", 80, 12, 0.02, {C_: 60})
run_rewire("search-only", 40, 13, 0.02, {S_: 10})
run_rewire("both", 120, 14, 0.02, {C_: 80, S_: 20}, repeat=2)
run_rewire("conv-0", 60, 15, 0.02, {C_: 0})
run_rewire("conv-neg", 60, 16, 0.02, {C_: -1})
run_rewire("conv-None", 40, 17, 0.02, {C_: None})
run_rewire("search-None", 40, 18, 0.02, {S_: None, C_: 3})
finish()
