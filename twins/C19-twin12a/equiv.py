import sys, os; sys.path.insert(0, os.getcwd())
# Equivalence digest for the built-in degree distributions (property C19).
# FOCUS: power_law / zeta: terms that underflow to exactly 0 (huge alpha, numpy overflow to inf), alpha of every type (int, float, numpy scalar, complex, size-1 array, malformed)
# Run with cwd = a gcmpy checkout.  Prints one line per probe (value bits,
# result type, exception type + message, warnings) and the RNG states.
import hashlib
import random
import warnings
from decimal import Decimal
from fractions import Fraction

import numpy as np

random.seed(190019)
np.random.seed(190019)

import gcmpy
from gcmpy.distributions import exponential, poisson, power_law, scale_free_cut_off
from gcmpy.joint_degree.joint_degree_loaders.joint_degree_marginal import (
    JointDegreeMarginal,
)
from gcmpy.names.joint_degree_names import JointDegreeNames

assert gcmpy.power_law is power_law and gcmpy.poisson is poisson
assert gcmpy.exponential is exponential
assert gcmpy.scale_free_cut_off is scale_free_cut_off

LINES = []


def emit(s):
    LINES.append(s)
    print(s)


def bits(v):
    t = type(v).__name__
    if isinstance(v, bool):
        return "bool:%r" % v
    if isinstance(v, float):
        return "%s:%s" % (t, v.hex() if v == v and abs(v) != float("inf") else repr(v))
    if isinstance(v, np.ndarray) and v.dtype == object:
        return "ndarray:object:%s:[%s]" % (v.shape, ",".join(bits(x) for x in v.ravel().tolist()))
    if isinstance(v, np.ndarray):
        return "ndarray:%s:%s:%s" % (v.dtype, v.shape, v.tobytes().hex())
    if isinstance(v, np.generic):
        return "%s:%s:%s" % (t, v.dtype, v.tobytes().hex())
    if isinstance(v, (list, tuple)):
        return "%s[%s]" % (t, ",".join(bits(x) for x in v))
    if isinstance(v, dict):
        return "dict{%s}" % ",".join(
            "%r=%s" % (k, bits(v[k])) for k in sorted(v, key=repr)
        )
    return "%s:%r" % (t, v)


def probe(label, thunk):
    with warnings.catch_warnings(record=True) as ws:
        warnings.simplefilter("always")
        try:
            out = "OK " + bits(thunk())
        except RecursionError:
            raise
        except Exception as e:  # noqa
            out = "EXC %s: %s" % (type(e).__name__, e)
        wtxt = "|".join("%s:%s" % (w.category.__name__, w.message) for w in ws)
    emit("%s -> %s  [warn %s]" % (label, out, wtxt))


def closure(p):
    out = []
    for name, cell in zip(p.__code__.co_freevars, p.__closure__ or ()):
        v = cell.cell_contents
        out.append("%s=%s" % (name, "<callable>" if callable(v) else bits(v)))
    return ";".join(out)


def make(label, factory, *args):
    """build a pmf, record exception/warnings of the factory, return it or None"""
    box = []

    def thunk():
        p = factory(*args)
        box.append(p)
        return "built " + closure(p)

    probe(label, thunk)
    return box[0] if box else None


KS = [
    0, 1, 2, 3, 4, 5, 7, 10, 20, 50, 100, 170, 171, 200, 1000, 10**5, 10**400,
    -1, -2, -10, 0.0, -0.0, 1.0, 2.0, 2.5, 0.5, -1.5, 1e308, float("inf"),
    float("-inf"), float("nan"), True, False, np.int64(3), np.int64(0),
    np.int32(1), np.int64(-2), np.uint8(4), np.float64(2.0), np.float64(0.0),
    np.float32(1.5), np.arange(0, 4), np.arange(1, 5), np.array([2]),
    np.array([1.0, 2.5]), np.array([], dtype=int), "3", "", None, [1, 2], (),
    Fraction(3, 2), Fraction(2), Decimal("2"), 2 + 1j, 0j,
]


def sweep(name, p, ks=KS):
    if p is None:
        return
    for k in ks:
        lab = "%s p(%s)" % (name, bits(k)[:60])
        probe(lab, lambda: p(k))
    # repeated calls on the same object, no hidden state
    probe("%s again p(1),p(2),p(1)" % name, lambda: [p(1), p(2), p(1)])
    probe("%s no-arg" % name, lambda: p())
    probe("%s kw" % name, lambda: p(k=3))
    probe("%s closure after" % name, lambda: closure(p))


def series(name, p, lo, hi):
    if p is None:
        return
    probe("%s sum[%d,%d)" % (name, lo, hi), lambda: sum(p(k) for k in range(lo, hi)))
    probe("%s min[%d,%d)" % (name, lo, hi), lambda: min(p(k) for k in range(lo, hi)))


# ---------------------------------------------------------------- power law
emit("== power_law")
PL_ALPHAS = [
    1.05, 1.5, 2, 2.0, 2.5, 3, 3.0, 3.7, 10, 50, 50.0, 300.5, 1000, 1000.0, 1023.0,
    1024.0, 1100.0, 5000, 5000.0, True, 1, 1.0,
    float("inf"), float("-inf"), np.inf, np.float64(2.5), np.float64(2000.0),
    np.float64("inf"), np.float32(3.0), np.int64(2), np.int64(70),
    2 + 1j, 3 + 0j, np.complex128(2 + 1j), np.array([2.5]), np.array([2]),
    np.array([[3.0]]), np.array([2.0, 3.0]), np.array([]), "2", "", None, [2.0],
    Fraction(5, 2), Decimal("2.5"),
]
for al in PL_ALPHAS:
    nm = "PL(%s)" % bits(al)[:50]
    p = make(nm, power_law, al)
    sweep(nm, p)
    if p is not None and not isinstance(al, (complex, np.complexfloating, np.ndarray)):
        series(nm, p, 1, 400)
probe("PL()", lambda: power_law())
probe("PL(2,3)", lambda: power_law(2, 3))
probe("PL kw", lambda: closure(power_law(alpha=2.5)))
# two factories are independent
pa, pb = power_law(2.0), power_law(3.0)
probe("PL indep", lambda: [pa(2), pb(2), pa(2), closure(pa), closure(pb)])

# ------------------------------------------------------- scale free cut off
emit("== scale_free_cut_off")
SF_ALPHAS = [
    0, 0.0, 0.5, 1, 1.0, True, 1.5, 2, 2.0, 2.5, 3, -1, -1.5, 10, 1000, 1000.0,
    np.float64(2.5), np.int64(2), np.float32(1.5), 2 + 1j, np.array([2.5]),
    np.array([2.0, 3.0]), "2", None, Fraction(5, 2), Decimal("2.5"),
    float("inf"),
]
SF_KAPPAS = [
    1e-3, 1.0 / 745, 0.01, 0.5, 1, 1.0, 2, 2.5, 10, 10.0, 100, 1000, 1e15, 1e16,
    1e17, 1e20, 1e308, float("inf"), np.inf, np.float64("inf"), -1e20, -1e17,
    float("-inf"), 0, 0.0, -0.0, np.float64(0.0), np.int64(0),
    np.float64(2.5), np.float32(2.5), np.float32(1e20), np.float64(1e20), np.int64(10), True, False, "3", None,
    [2.0], np.array([2.5]), np.array([1e20]), np.array([np.inf]),
    np.array([2.0, 3.0]), np.array([1e20, 1e20]), np.array([]),
    2 + 1j, Fraction(5, 2), Decimal("2.5"),
]


def z_is_one(kap):
    try:
        with warnings.catch_warnings():
            warnings.simplefilter("ignore")
            z = np.exp(-1.0 / kap)
        return bool(np.all(np.abs(z) >= 1 - 1e-9)) and np.size(z) > 0
    except Exception:
        return False


def real_le(al, bound):
    try:
        return bool(np.all(np.real(al) <= bound))
    except Exception:
        return False


SF_SHORT_KS = [0, 1, 2, 3, 10, 100, -1, 2.5, True, np.int64(3), np.arange(1, 4),
               "3", None, float("inf"), float("nan"), Fraction(3, 2), 2 + 1j]
SF_FULL = [(al, kap) for al in (1.5, 2, 2.5) for kap in (1e-3, 2.5, 10, 1e20, float("inf"))]


def short_sweep(name, p):
    """one line per factory: hash of the per-k outcomes (values bit for bit,
    exception types and messages, warnings)"""
    if p is None:
        return
    saved = len(LINES)
    import io, contextlib
    with contextlib.redirect_stdout(io.StringIO()):
        sweep(name, p, SF_SHORT_KS)
    chunk = LINES[saved:]
    del LINES[saved:]
    emit("%s short-sweep %d probes %s" % (
        name, len(chunk), hashlib.sha256("\n".join(chunk).encode()).hexdigest()[:20]))


for al in SF_ALPHAS:
    for kap in SF_KAPPAS:
        nm = "SF(%s,%s)" % (bits(al)[:40], bits(kap)[:44])
        if z_is_one(kap) and real_le(al, 1) and not (
            type(al) in (int, float, bool) and al == 1
        ):
            # the series does not converge: both versions would loop for ever
            continue
        p = make(nm, scale_free_cut_off, al, kap)
        simple = type(al) in (int, float) and type(kap) in (int, float)
        if simple and (al, kap) in SF_FULL:
            sweep(nm, p)
            series(nm, p, 1, 300)
        else:
            short_sweep(nm, p)
probe("SF()", lambda: scale_free_cut_off())
probe("SF(2)", lambda: scale_free_cut_off(2))
probe("SF kw", lambda: closure(scale_free_cut_off(kappa=10, alpha=2.5)))
sa, sb = scale_free_cut_off(2.0, 1e20), scale_free_cut_off(2.0, 5.0)
probe("SF indep", lambda: [sa(2), sb(2), sa(2), closure(sa), closure(sb)])

# ------------------------------------------------------------------ poisson
emit("== poisson")
PO_MEANS = [
    0, 0.0, -0.0, 0.5, 1, 1.0, 2.5, 10, 10.0, 700, 745.2, 800, 1e308, -1.5, -2,
    float("inf"), float("-inf"), float("nan"), np.float64(2.5), np.float32(2.5),
    np.int64(3), np.array([1.0, 2.0]), np.array([2.5]), np.array([]), "2", None,
    [2.5], Fraction(5, 2), Decimal("2.5"), True, False, 2 + 1j,
]
for m in PO_MEANS:
    nm = "PO(%s)" % bits(m)[:50]
    p = make(nm, poisson, m)
    # 10**400 left out: pow(<int mean>, 10**400) would build an astronomically big int
    sweep(nm, p, [k for k in KS if not (type(k) is int and k > 10**6)])
    if p is not None and isinstance(m, (int, float)) and not isinstance(m, bool):
        series(nm, p, 0, 150)
probe("PO()", lambda: poisson())
probe("PO kw", lambda: closure(poisson(kmean=2.5)))

# -------------------------------------------------------------- exponential
emit("== exponential")
EX_AS = [
    0, 0.0, 0.5, 1, 1.0, 2.5, 50, 800, -1, -1.5, float("inf"), float("-inf"),
    float("nan"), np.float64(0.5), np.float32(0.5), np.int64(2),
    np.array([0.5, 1.0]), np.array([0.5]), "2", None, [0.5], Fraction(1, 2),
    Decimal("0.5"), True, 1 + 1j,
]
for a in EX_AS:
    nm = "EX(%s)" % bits(a)[:50]
    p = make(nm, exponential, a)
    sweep(nm, p)
    if p is not None and isinstance(a, (int, float)) and not isinstance(a, bool):
        series(nm, p, 0, 150)
probe("EX()", lambda: exponential())

# ------------------------------------------- through the marginal jdd loader
emit("== JointDegreeMarginal")


def marginal(label, fps, bounds, sizes, sampling=False, n=2000):
    def thunk():
        params = {
            JointDegreeNames.MOTIF_SIZES: sizes,
            JointDegreeNames.ARR_FP: fps,
            JointDegreeNames.LOW_HIGH_DEGREE_BOUND: bounds,
        }
        if sampling:
            params[JointDegreeNames.USE_SAMPLING] = True
            params[JointDegreeNames.N_SAMPLES] = n
        obj = JointDegreeMarginal(params)
        jdd = dict(obj.jdd)
        jds1 = obj.sample_jds_from_jdd(500)
        jds2 = obj.sample_jds_from_jdd(7)
        h = hashlib.sha256(repr((jds1, jds2)).encode()).hexdigest()[:16]
        return [jdd, h, random.random(), float(np.random.random())]

    probe(label, thunk)


for samp in (False, True):
    marginal("M poisson %s" % samp, [poisson(2.5)], [(0, 10)], [2], samp)
    marginal("M poisson neg %s" % samp, [poisson(2.5)], [(-2, 4)], [2], samp)
    marginal("M 2 poisson %s" % samp, [poisson(2.5), poisson(0.7)], [(0, 8), (0, 6)], [2, 3], samp)
    marginal("M exp %s" % samp, [exponential(0.5)], [(0, 12)], [2], samp)
    marginal("M pl %s" % samp, [power_law(2.5)], [(1, 30)], [2], samp)
    marginal("M pl zero %s" % samp, [power_law(2.5)], [(0, 5)], [2], samp)
    marginal("M sf %s" % samp, [scale_free_cut_off(2.5, 10.0)], [(1, 30)], [3], samp)
    marginal("M sf inf %s" % samp, [scale_free_cut_off(2.5, float("inf"))], [(1, 30)], [3], samp)
    marginal("M sf tiny %s" % samp, [scale_free_cut_off(2.5, 1e-3)], [(1, 6)], [3], samp)
    marginal("M mix %s" % samp,
             [power_law(2.0), scale_free_cut_off(2.0, 4.0), poisson(1.5), exponential(1.0)],
             [(1, 5), (1, 5), (0, 4), (0, 4)], [2, 3, 4, 2], samp, 500)
    marginal("M empty range %s" % samp, [poisson(2.5)], [(3, 3)], [2], samp)

# ---------------------------------------------------------------- rng state
emit("random state " + hashlib.sha256(repr(random.getstate()).encode()).hexdigest())
st = np.random.get_state()
emit("numpy state " + hashlib.sha256(repr((st[0], st[1].tobytes(), st[2:])).encode()).hexdigest())
emit("DIGEST " + hashlib.sha256("\n".join(LINES).encode()).hexdigest())
