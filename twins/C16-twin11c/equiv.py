import sys, os; sys.path.insert(0, os.getcwd())
# Variant c: exercises the memoising wrapper around
# gcmpy.message_passing.number_connected_graphs.Q (values, exceptions,
# cache bookkeeping API) directly and through clique_equation.
import copy
import hashlib
import pickle
import random
from fractions import Fraction

import numpy as np

random.seed(160003)
np.random.seed(160003)

import gcmpy
import gcmpy.message_passing as mp
from gcmpy.message_passing import number_connected_graphs as ncg
from gcmpy.message_passing.number_connected_graphs import Q, QQ, binomial
from gcmpy.message_passing.equations import clique_equation as ce_mod_fn
from gcmpy.message_passing.equations.clique_equation import clique_equation
ce_mod = sys.modules["gcmpy.message_passing.equations.clique_equation"]

LINES = []


def emit(*parts):
    LINES.append(" ".join(str(p) for p in parts))


def show(v):
    return f"{type(v).__name__}:{v!r}"


def call(tag, f, *args, **kw):
    try:
        r = f(*args, **kw)
        emit(tag, [show(a) for a in args], kw, "->", show(r))
    except BaseException as e:  # noqa
        emit(tag, [show(a) for a in args], kw, "!!", type(e).__name__, str(e)[:90])


def api(tag, f):
    emit(tag, type(f).__name__, type(f).__module__, f.__name__, f.__qualname__, f.__module__,
         f.cache_parameters(), f.cache_info(), f.__wrapped__.__name__,
         type(f.__wrapped__).__name__, f.__wrapped__.__code__.co_varnames[:2],
         sorted(f.__annotations__.items(), key=str), (f.__doc__ or "")[:40].strip(),
         sorted(k for k in f.__dict__), callable(f.cache_clear),
         sorted(a for a in dir(f) if a.startswith("cache")))


for name in ("Q", "QQ", "binomial"):
    api("api " + name, getattr(ncg, name))
emit("same object", gcmpy.Q is Q, mp.Q is Q, ce_mod.Q is Q, ncg.Q is Q, ce_mod_fn is clique_equation)
emit("copy", copy.copy(Q) is Q, copy.deepcopy(Q) is Q, pickle.loads(pickle.dumps(Q)) is Q)

# full tables; cache statistics after each block
for n in range(-2, 11):
    for k in range(-2, n * (n - 1) // 2 + 3):
        call("Q", Q, n, k)
    emit("info", n, Q.cache_info(), binomial.cache_info())
for n, k in [(12, 11), (12, 30), (12, 66), (15, 40), (20, 19), (20, 100), (25, 300), (30, 200)]:
    call("Qbig", Q, n, k)
emit("info big", Q.cache_info())

# repeated calls / cache_clear / re-fill
for rep in range(3):
    for n, k in [(6, 9), (6, 15), (1, 0), (0, 0), (2, 1), (7, 6), (5, 11), (-3, 4)]:
        call(f"rep{rep}", Q, n, k)
    emit("info rep", rep, Q.cache_info())
emit("clear", Q.cache_clear(), Q.cache_info())
for n in range(0, 8):
    emit("row", n, [Q(n, k) for k in range(0, n * (n - 1) // 2 + 1)])
emit("info refill", Q.cache_info())

# brute force agrees (and shares no cache with Q)
for n in range(0, 6):
    s = n * (n - 1) // 2
    for k in range(0, s + 1):
        call("QQ", QQ, n, k)
        call(" Q", Q, n, k)
emit("info QQ", Q.cache_info(), QQ.cache_info())

# keyword vs positional calls are distinct cache keys, typed=False merges 3 / 3.0 / True
Q.cache_clear()
call("kw", Q, n=5, k=6)
call("kw", Q, 5, k=6)
call("kw", Q, 5, 6)
call("kw", Q, k=6, n=5)
emit("info kw", Q.cache_info())
call("kw", Q, 5, kk=6)
call("arity", Q)
call("arity", Q, 5)
call("arity", Q, 5, 6, 7)
odd = [True, False, 4.0, 2.5, -0.0, float("nan"), float("inf"), Fraction(4), Fraction(7, 2),
       np.int64(4), np.int32(3), np.uint8(3), np.float64(4.0), "3", "", None, (1, 2), 2 + 0j, b"1"]
for x in odd:
    for y in [0, 3, 5, 4.0, True, "1", None, np.int64(4)]:
        call("odd", Q, x, y)
        call("odd", Q, y, x)
    emit("info odd", Q.cache_info())
for bad in ([3], {3: 1}, {3}, np.arange(3)):
    call("unhashable", Q, bad, 1)
    call("unhashable", Q, 3, bad)
emit("info odd end", Q.cache_info())

# undecorated function (recursion still goes through the module-level cached name)
raw = Q.__wrapped__
Q.cache_clear()
for n in range(0, 8):
    for k in range(0, n * (n - 1) // 2 + 2):
        call("raw", raw, n, k)
emit("info raw", Q.cache_info())
call("raw", raw, "a", 1)
call("raw", raw, None, None)
call("raw", raw, 3.5, 2)

# recursion depth behaviour
old = sys.getrecursionlimit()
try:
    sys.setrecursionlimit(120)
    Q.cache_clear()
    binomial.cache_clear()
    call("deep", Q, 60, 200)
    emit("info deep", Q.cache_info())
    call("deep", Q, 14, 40)
    sys.setrecursionlimit(45)
    Q.cache_clear()
    call("toodeep", Q, 60, 200)
    emit("info toodeep", Q.cache_info())
    call("toodeep", Q, 60, 200)
    emit("info toodeep", Q.cache_info())
finally:
    sys.setrecursionlimit(old)

# through the clique equation
Q.cache_clear()
rs = random.Random(11)
for tau in range(0, 9):
    for _ in range(3):
        phi = rs.random()
        Hs = [rs.random() for _ in range(max(tau - 1, 0))]
        try:
            emit("clique", tau, repr(phi), "->", repr(clique_equation(tau, phi, Hs)))
        except BaseException as e:  # noqa
            emit("clique", tau, "!!", type(e).__name__, e)
    emit("info clique", tau, Q.cache_info())
for tau in range(1, 7):
    Hs = [Fraction(i + 1, i + 3) for i in range(tau - 1)]
    emit("cliqueF", tau, clique_equation(tau, Fraction(2, 7), Hs))
for args in [(3, 0.5, None), (3, "x", [0.1, 0.2]), ("3", 0.5, [0.1]), (3.0, 0.5, [0.1, 0.2]), (4, 0.5, [0.1]),
             (3, 0.5, iter([0.1, 0.2])), (2, 0.5, (h for h in [0.3]))]:
    try:
        emit("cliquebad", repr(args[:2]), "->", repr(clique_equation(*args)))
    except BaseException as e:  # noqa
        emit("cliquebad", repr(args[:2]), "!!", type(e).__name__, str(e)[:80])
emit("info end", Q.cache_info(), binomial.cache_info(), QQ.cache_info())

emit("rng", random.random(), hashlib.sha256(repr(random.getstate()).encode()).hexdigest())
st = np.random.get_state()
emit("nprng", np.random.random(), hashlib.sha256(st[1].tobytes()).hexdigest(), st[2:])

for ln in LINES:
    print(ln)
print("DIGEST", hashlib.sha256("\n".join(LINES).encode()).hexdigest(), len(LINES))
