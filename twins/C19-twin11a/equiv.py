import sys, os; sys.path.insert(0, os.getcwd())
# Variant a: gcmpy/distributions/__init__.py  relative imports -> absolute imports.
# Exercises: import of the package in several orders (fresh interpreters), identity of the
# re-exported factories, namespace of the package, and the values / exceptions of the factories
# reached through every pre-existing public path.
import hashlib
import random
import subprocess

import numpy as np

random.seed(1234)
np.random.seed(4321)

out = []


def emit(*a):
    out.append(" ".join(str(x) for x in a))


def call(f, *a):
    try:
        r = f(*a)
        return "ok " + type(r).__name__ + " " + repr(r)
    except BaseException as e:  # noqa
        return "EXC " + type(e).__name__


# ---- 1. import order / module table in fresh interpreters ---------------------------------
PROBE = r"""
import sys, os
sys.path.insert(0, os.getcwd())
%s
mods = [m for m in sys.modules if m == 'gcmpy.distributions' or m.startswith('gcmpy.distributions.')]
print(mods)
import gcmpy.distributions as D
print(sorted(n for n in vars(D) if not n.startswith('__')))
print(D.__name__, D.__package__, D.__spec__.name, D.__spec__.parent)
for n in ('exponential', 'poisson', 'power_law', 'scale_free_cut_off'):
    f = getattr(D, n)
    sm = sys.modules['gcmpy.distributions.' + n]
    print(n, type(f).__name__, f.__module__, f.__qualname__, f is getattr(sm, n), type(sm).__name__,
          sorted(k for k in vars(sm) if not k.startswith('__')))
import gcmpy
print(all(getattr(gcmpy, n) is getattr(D, n) for n in ('exponential', 'poisson', 'power_law', 'scale_free_cut_off')))
"""
FIRST = [
    "import gcmpy",
    "import gcmpy.distributions",
    "from gcmpy.distributions import poisson",
    "from gcmpy.distributions.scale_free_cut_off import scale_free_cut_off",
    "import gcmpy.distributions.power_law",
    "from gcmpy.distributions import *",
    "import importlib; importlib.import_module('gcmpy.distributions.exponential')",
    "import importlib; importlib.import_module('.distributions', 'gcmpy')",
    "from gcmpy.distributions import does_not_exist",
    "import gcmpy.distributions.does_not_exist",
]
for first in FIRST:
    p = subprocess.run(
        [sys.executable, "-W", "ignore", "-c", PROBE % first],
        cwd=os.getcwd(),
        capture_output=True,
        text=True,
        env=dict(os.environ, PYTHONDONTWRITEBYTECODE="1", PYTHONHASHSEED="0"),
    )
    emit("FIRST:", first)
    emit(" rc", p.returncode)
    emit(" out", p.stdout.strip().replace(os.getcwd(), "<CWD>"))
    err = p.stderr.strip().splitlines()
    emit(" err", err[-1].replace(os.getcwd(), "<CWD>") if err else "")

# ---- 2. in-process: identity and values ----------------------------------------------------
import gcmpy  # noqa: E402
import gcmpy.distributions as D  # noqa: E402
from gcmpy.distributions import exponential, poisson, power_law, scale_free_cut_off  # noqa: E402

NAMES = ("exponential", "poisson", "power_law", "scale_free_cut_off")
for n in NAMES:
    sm = sys.modules["gcmpy.distributions." + n]
    emit(
        "ident",
        n,
        getattr(D, n) is getattr(sm, n),
        getattr(gcmpy, n) is getattr(D, n),
        locals().get(n, globals()[n]) is getattr(D, n),
        getattr(D, n).__module__,
        getattr(D, n).__globals__["__name__"],
    )
emit("order", [m for m in sys.modules if m.startswith("gcmpy.distributions")])
emit("pkgdir", sorted(n for n in vars(D) if not n.startswith("__")))

KS = list(range(0, 40)) + [100, 170, 171, 500, -1, -2, 2.5, "3", None, True, np.int64(7), np.float64(3.0)]
for a in (0.1, 0.5, 1.0, 2.0, 7.5, 0.0, -1.0, "x", None, np.float32(0.3)):
    r = call(D.exponential, a)
    emit("exponential factory", repr(a), r.split(" ")[0:2])
    if r.startswith("ok"):
        for path in (D.exponential, gcmpy.exponential, exponential):
            p = path(a)
            emit("exp", repr(a), [call(p, k) for k in KS])
for m in (0.5, 1.0, 2.5, 10.0, 0.0, -2.0, "x", None, 3):
    r = call(D.poisson, m)
    emit("poisson factory", repr(m), r.split(" ")[0:2])
    if r.startswith("ok"):
        for path in (D.poisson, gcmpy.poisson, poisson):
            p = path(m)
            emit("poi", repr(m), [call(p, k) for k in KS])
for al in (1.5, 2.0, 2.5, 3.0, 4.0, 10.0, "x", None):
    r = call(D.power_law, al)
    emit("power_law factory", repr(al), r.split(" ")[0:2])
    if r.startswith("ok"):
        for path in (D.power_law, gcmpy.power_law, power_law):
            p = path(al)
            emit("pl", repr(al), [call(p, k) for k in KS])
            emit("pl again", repr(al), [call(p, k) for k in (1, 2, 3)])
for al, ka in ((2.0, 10.0), (2.5, 5.0), (1.0, 3.0), (0.5, 1.0), (3.0, 100.0), (2.0, 0.0), ("x", 2.0), (2.0, None)):
    r = call(D.scale_free_cut_off, al, ka)
    emit("sfco factory", repr(al), repr(ka), r.split(" ")[0:2])
    if r.startswith("ok"):
        for path in (D.scale_free_cut_off, gcmpy.scale_free_cut_off, scale_free_cut_off):
            p = path(al, ka)
            emit("sf", repr(al), repr(ka), [call(p, k) for k in KS])
emit("arity", call(D.poisson), call(D.power_law, 1, 2), call(D.scale_free_cut_off, 2.0), call(D.exponential))

# ---- 3. consumers that receive the factories' results --------------------------------------
from gcmpy import JointDegreeMarginal, JointDegreeSplitDegree, JointDegreeNames  # noqa: E402

prm = {
    JointDegreeNames.MOTIF_SIZES: [2, 3],
    JointDegreeNames.ARR_FP: [D.poisson(2.5), gcmpy.power_law(2.5)],
    JointDegreeNames.LOW_HIGH_DEGREE_BOUND: [(0, 8), (1, 8)],
}
j = JointDegreeMarginal(prm)
emit("marginal", [(k, repr(v)) for k, v in j.jdd.items()])
emit("sample", j.sample_jds_from_jdd(25))
prm = {
    JointDegreeNames.MOTIF_SIZES: [2, 3],
    JointDegreeNames.FP: D.scale_free_cut_off(2.0, 8.0),
    JointDegreeNames.PROBS: [0.7, 0.3],
    JointDegreeNames.LOW_HIGH_DEGREE_BOUND: (1, 9),
}
j = JointDegreeSplitDegree(prm)
emit("split", [(k, repr(v)) for k, v in j.jdd.items()])
emit("sample", j.sample_jds_from_jdd(25))

emit("py-rng", hashlib.sha256(repr(random.getstate()).encode()).hexdigest())
st = np.random.get_state()
emit("np-rng", hashlib.sha256(repr((st[0], st[1].tolist(), st[2], st[3], st[4])).encode()).hexdigest())

text = "\n".join(out)
print(text)
print("DIGEST", hashlib.sha256(text.encode()).hexdigest())
