import sys, os; sys.path.insert(0, os.getcwd())
# Equivalence digest for the joint-degree periphery around the clique-cover loader
# (factory dispatch, distribution entry point, cover constructor).
# Deterministic: prints return values, object state, exception types / messages /
# contexts, the order in which parameter keys and enum members are consulted,
# and the RNG states afterwards.
import hashlib
import math
import random
import re

import numpy as np

from gcmpy.joint_degree.joint_degree import JointDegree
from gcmpy.joint_degree.joint_degree_type import JointDegreeType
from gcmpy.joint_degree.joint_degree_factory import JointDegreeFactory
from gcmpy.joint_degree.joint_degree_distribution import JointDegreeDistribution
from gcmpy.joint_degree.joint_degree_loaders.joint_degree_cover import JointDegreeCover
from gcmpy.names.joint_degree_names import JointDegreeNames as N

random.seed(80808)
np.random.seed(80808)

LINES = []


_ADDR = re.compile(r"0x[0-9a-fA-F]+")


def out(*parts):
    line = _ADDR.sub("0xADDR", " ".join(str(p) for p in parts))
    LINES.append(line)
    print(line)


def rng_digest():
    h = hashlib.sha256()
    h.update(repr(random.getstate()).encode())
    st = np.random.get_state()
    h.update(repr((st[0], st[1].tolist(), st[2], st[3], st[4])).encode())
    return h.hexdigest()[:16]


def exc_repr(e):
    chain = []
    cur = e
    while cur is not None and len(chain) < 4:
        chain.append("%s(%s)" % (type(cur).__name__, cur))
        cur = cur.__context__
    return " <- ".join(chain)


def state(obj):
    if not isinstance(obj, JointDegree):
        return repr(obj)
    d = {}
    for k, v in vars(obj).items():
        if callable(v):
            v = "<callable %s>" % getattr(v, "__name__", "?")
        elif isinstance(v, list) and v and all(callable(x) for x in v):
            v = ["<callable %s>" % getattr(x, "__name__", "?") for x in v]
        d[k] = v
    return "%s type=%r vars=%r jdd=%r sizes=%r" % (
        type(obj).__name__,
        obj._type,
        d,
        getattr(obj, "jdd", "<unset>") if "_jdd" in vars(obj) else "<unset>",
        getattr(obj, "motif_sizes", "<unset>") if "_motif_sizes" in vars(obj) else "<unset>",
    )


def attempt(label, fn):
    try:
        r = fn()
        out(label, "->", state(r), "| rng", rng_digest())
        return r
    except BaseException as e:  # noqa
        out(label, "!!", exc_repr(e), "| rng", rng_digest())
        return None


class LoggingParams(dict):
    """dict that records every key lookup / membership test"""

    def __init__(self, *a, **k):
        super().__init__(*a, **k)
        self.log = []

    def __getitem__(self, key):
        self.log.append(("get", key))
        return super().__getitem__(key)

    def __contains__(self, key):
        self.log.append(("in", key))
        return super().__contains__(key)

    def get(self, key, default=None):
        self.log.append(("dget", key))
        return super().get(key, default)


class EqSpy:
    """compares equal to one chosen member and logs every comparison"""

    def __init__(self, target):
        self.target = target
        self.log = []

    def __eq__(self, other):
        self.log.append(other)
        return other is self.target

    def __hash__(self):
        self.log.append("hash")
        return 7


class EqRaises:
    def __init__(self, at):
        self.at = at
        self.log = []

    def __eq__(self, other):
        self.log.append(other)
        if other is self.at:
            raise RuntimeError("eq exploded at %s" % other)
        return False

    __hash__ = None


def poisson(k):
    return math.exp(-2.0) * 2.0**k / math.factorial(k)


def fp_joint(jd):
    return 1.0 / (1 + sum(jd))


COVERS = {
    "zero_based": [[0, 1, 2], [2, 3], [3, 4], [0, 4], [1, 2, 3, 4]],
    "one_based": [[1, 2, 3], [3, 4], [4, 5], [1, 5], [2, 3, 4, 5]],
    "single": [[0, 1]],
    "single_big": [(1, 2, 3, 4, 5)],
    "tuples": [(0, 1), (1, 2), (0, 2), (0, 1, 2)],
    "frozensets": [frozenset((0, 1)), frozenset((1, 2, 3)), frozenset((0, 3))],
    "sizes_gap": [[0, 1], [2, 3, 4, 5, 6], [0, 6]],
    "singletons": [[0], [1], [0, 1]],
    "dup_cliques": [[0, 1], [0, 1], [1, 2], [1, 2], [0, 1, 2]],
    "outer_tuple": ((0, 1), (1, 2, 3), (0, 3)),
    "empty": [],
    "empty_clique": [[0, 1], []],
    "only_empty_clique": [[]],
    "gap_in_ids": [[0, 1], [5, 6]],
    "two_based": [[2, 3], [3, 4]],
    "negative": [[-1, 0], [0, 1]],
    "int_inside": [[0, 1], 3],
    "none_inside": [[0, 1], None],
    "str_clique": [[0, 1], "ab"],
    "float_ids": [[0.0, 1.0], [1.0, 2.0]],
    "bool_ids": [[False, True], [True, 2]],
    "not_iterable": 5,
    "none": None,
    "string": "abc",
    "dict_cover": {(0, 1): 1, (1, 2, 3): 2},
}


def cover_params(cover, extra=None):
    p = {N.JOINT_DEGREE_TYPE: "cover", N.COVER: cover}
    if extra:
        p.update(extra)
    return p


def valid_params():
    return {
        JointDegreeType.MANUAL: {
            N.JDD: {(1, 0): 0.25, (0, 1): 0.25, (2, 1): 0.5},
            N.MOTIF_SIZES: [2, 3],
        },
        JointDegreeType.EMPIRICAL: {
            N.JDS: [(1, 0), (1, 0), (0, 1), (2, 2)],
            N.MOTIF_SIZES: [2, 3],
        },
        JointDegreeType.JOINT_FUNCTION: {
            N.FP: fp_joint,
            N.MOTIF_SIZES: [2, 3],
            N.LOW_HIGH_DEGREE_BOUND: [(0, 2), (0, 3)],
        },
        JointDegreeType.MARGINAL: {
            N.ARR_FP: [poisson, poisson],
            N.MOTIF_SIZES: [2, 3],
            N.LOW_HIGH_DEGREE_BOUND: [(0, 4), (0, 3)],
        },
        JointDegreeType.SPLIT_DEGREE: {
            N.FP: poisson,
            N.PROBS: [0.5, 0.3, 0.2],
            N.MOTIF_SIZES: [2, 3, 4],
            N.LOW_HIGH_DEGREE_BOUND: (1, 6),
        },
        JointDegreeType.DELTA: {
            N.TARGET_K: 4,
            N.FP: poisson,
            N.PROBS: [0.5, 0.3, 0.2],
            N.MOTIF_SIZES: [2, 3, 4],
            N.LOW_HIGH_DEGREE_BOUND: (1, 6),
        },
        JointDegreeType.COVER: {N.COVER: [[0, 1, 2], [2, 3], [0, 3]]},
    }


# ---------------------------------------------------------------- 1. factory
out("# 1 factory: every member x every parameter dict")
VP = valid_params()
for t in JointDegreeType:
    for pname, p in list((k.name, v) for k, v in VP.items()) + [
        ("EMPTY", {}),
        ("NONE", None),
        ("LIST", []),
    ]:
        lp = LoggingParams(p) if isinstance(p, dict) else p
        attempt(
            "factory %s / params-of-%s" % (t.name, pname),
            lambda: JointDegreeFactory.resolve_joint_degree(t, lp),
        )
        if isinstance(lp, LoggingParams):
            out("   key log", lp.log, "unchanged", dict(lp) == p)

out("# 1b factory: things that are not members")
for label, t in [
    ("str cover", "cover"),
    ("str manual", "manual"),
    ("None", None),
    ("int", 0),
    ("list", []),
    ("dict", {}),
    ("names enum COVER", N.COVER),
    ("class", JointDegreeType),
    ("nan", float("nan")),
]:
    attempt(
        "factory nonmember %s" % label,
        lambda: JointDegreeFactory.resolve_joint_degree(t, dict(VP[JointDegreeType.COVER])),
    )

out("# 1c factory: comparison order seen by the argument")
for target in list(JointDegreeType) + [None]:
    spy = EqSpy(target)
    lp = LoggingParams(VP.get(target, {}))
    attempt(
        "factory spy target=%s" % (target.name if target else None),
        lambda: JointDegreeFactory.resolve_joint_degree(spy, lp),
    )
    out("   eq log", [getattr(x, "name", x) for x in spy.log], "key log", lp.log)
for at in JointDegreeType:
    bomb = EqRaises(at)
    attempt(
        "factory eq-raises at=%s" % at.name,
        lambda: JointDegreeFactory.resolve_joint_degree(bomb, {}),
    )
    out("   eq log", [x.name for x in bomb.log])

out("# 1d factory: keyword / positional call forms, instance call")
attempt(
    "factory kw",
    lambda: JointDegreeFactory.resolve_joint_degree(
        type=JointDegreeType.COVER, params={N.COVER: [[1, 2], [2, 3, 4]]}
    ),
)
attempt(
    "factory via instance",
    lambda: JointDegreeFactory().resolve_joint_degree(
        JointDegreeType.COVER, {N.COVER: [[1, 2], [2, 3, 4]]}
    ),
)
attempt("factory no args", lambda: JointDegreeFactory.resolve_joint_degree())
attempt("factory one arg", lambda: JointDegreeFactory.resolve_joint_degree(JointDegreeType.COVER))
attempt(
    "factory three args",
    lambda: JointDegreeFactory.resolve_joint_degree(JointDegreeType.COVER, {}, 1),
)

# ------------------------------------------------------ 2. cover constructor
out("# 2 cover constructor on every cover, direct")
for name, cover in COVERS.items():
    lp = LoggingParams({N.COVER: cover})
    obj = attempt("ctor %s" % name, lambda: JointDegreeCover(lp))
    out("   key log", lp.log)
    if obj is not None:
        out("   cover is same object", obj.cover is cover, "sizes type", type(obj.motif_sizes).__name__,
            [type(s).__name__ for s in obj.motif_sizes])
        # repeated calls on one object
        before = dict(obj.jdd)
        attempt("   again create_jdd %s" % name, lambda: (obj.create_jdd(), obj)[1])
        out("   same after repeat", before == obj.jdd, list(before.items()) == list(obj.jdd.items()))
        random.seed(5)
        attempt("   sample 7 %s" % name, lambda: obj.sample_jds_from_jdd(7))
        attempt("   sample 0 %s" % name, lambda: obj.sample_jds_from_jdd(0))

out("# 2b cover constructor: malformed parameter dicts")
for label, p in [
    ("empty", {}),
    ("None", None),
    ("list", []),
    ("string key", {"cover": [[0, 1]]}),
    ("type enum as key", {JointDegreeType.COVER: [[0, 1]]}),
    ("extra keys", {N.COVER: [[0, 1], [1, 2, 3]], N.MOTIF_SIZES: [9], N.JDD: {(9,): 1.0}}),
    ("int", 3),
]:
    attempt("ctor malformed %s" % label, lambda: JointDegreeCover(p))
attempt("ctor no args", lambda: JointDegreeCover())
attempt("ctor two args", lambda: JointDegreeCover({N.COVER: [[0, 1]]}, 1))
attempt("ctor kw", lambda: JointDegreeCover(params={N.COVER: [[0, 1], [0, 1, 2]]}))
attempt("abstract base", lambda: JointDegree())
attempt("abstract base with args", lambda: JointDegree({N.COVER: [[0, 1]]}))

out("# 2c one-shot iterables as cover / as cliques")


class CountingCover:
    """re-iterable cover that logs how often and how far it is iterated"""

    def __init__(self, cliques):
        self.cliques = cliques
        self.log = []

    def __iter__(self):
        self.log.append("iter")
        for c in self.cliques:
            self.log.append(("yield", tuple(c)))
            yield c


class LenSpy(list):
    LOG = []

    def __len__(self):
        n = list.__len__(self)
        LenSpy.LOG.append(("len", n))
        return n


attempt("ctor generator cover", lambda: JointDegreeCover({N.COVER: (c for c in [[0, 1], [1, 2, 3]])}))
attempt("ctor iter cover", lambda: JointDegreeCover({N.COVER: iter([[0, 1], [1, 2, 3]])}))
attempt("ctor generator cliques", lambda: JointDegreeCover({N.COVER: [iter([0, 1]), iter([1, 2])]}))
cc = CountingCover([[0, 1], [1, 2, 3], [0, 3]])
attempt("ctor counting cover", lambda: JointDegreeCover({N.COVER: cc}))
out("   iteration log", cc.log)
cc = CountingCover([[0, 1], 7, [0, 3]])
attempt("ctor counting cover with int", lambda: JointDegreeCover({N.COVER: cc}))
out("   iteration log", cc.log)
ls = [LenSpy([0, 1]), LenSpy([1, 2, 3]), LenSpy([0, 3])]
attempt("ctor len spy", lambda: JointDegreeCover({N.COVER: ls}))
out("   len log", LenSpy.LOG)

out("# 2d setters, then re-derivation")
obj = JointDegreeCover({N.COVER: [[0, 1, 2], [2, 3]]})
out("before", state(obj))
obj.cover = [[1, 2], [2, 3], [3, 4, 5, 1]]
out("after cover setter", state(obj))
obj.create_jdd()
out("after create_jdd", state(obj))
obj.motif_sizes = [2, 4]
obj.jdd = {(1, 0): 1, (0, 1): 3}
out("after setters", state(obj))
obj.normalise_jdd()
out("after normalise", state(obj))
random.seed(99)
attempt("sample 11", lambda: obj.sample_jds_from_jdd(11))
attempt("handshake", lambda: obj.handshaking_lemma([(1, 0), (0, 1), (1, 1)]))
obj.convert_jds_to_jdd([(1, 0), (1, 0), (0, 2)])
out("after convert", state(obj))

out("# 2e random covers")
rr = random.Random(2024)
for i in range(60):
    n = rr.randint(2, 14)
    base = rr.choice([0, 1])
    ncl = rr.randint(1, 12)
    cover = []
    for _ in range(ncl):
        k = rr.randint(1, min(n, 6))
        cover.append(rr.sample(range(base, base + n), k))
    # make ids contiguous: add every vertex once more through an edge chain
    if rr.random() < 0.7:
        cover += [[v, v + 1] for v in range(base, base + n - 1)]
    obj = attempt("rand ctor %d" % i, lambda: JointDegreeCover({N.COVER: cover}))
    if obj is not None:
        expect = sorted(set(len(c) for c in cover))
        out("   sizes ok", obj.motif_sizes == expect, "width ok",
            all(len(k) == len(expect) for k in obj.jdd), "sum", repr(sum(obj.jdd.values())))
        attempt("   rand sample %d" % i, lambda: obj.sample_jds_from_jdd(rr.randint(0, 25)))

# ------------------------------------------------- 3. distribution entry point
out("# 3 load_joint_degree on every cover")
for name, cover in COVERS.items():
    lp = LoggingParams(cover_params(cover))
    obj = attempt("load %s" % name, lambda: JointDegreeDistribution.load_joint_degree(lp))
    out("   key log", lp.log)

out("# 3b load_joint_degree: every type, string and member spelling, valid + empty params")
for t in JointDegreeType:
    for spelling in (t.value, t, t.name, t.value.upper()):
        for body_name, body in (("valid", VP.get(t, {})), ("empty", {})):
            p = dict(body)
            p[N.JOINT_DEGREE_TYPE] = spelling
            lp = LoggingParams(p)
            attempt(
                "load %s as %r / %s" % (t.name, spelling, body_name),
                lambda: JointDegreeDistribution.load_joint_degree(lp),
            )
            out("   key log", lp.log)

out("# 3c load_joint_degree: malformed")


class BadStr:
    def __str__(self):
        raise OverflowError("no str for you")

    __repr__ = __str__


class RaisingParams(dict):
    def __init__(self, exc):
        super().__init__()
        self.exc = exc

    def __getitem__(self, key):
        raise self.exc


for label, p in [
    ("empty", {}),
    ("None", None),
    ("list", []),
    ("int", 4),
    ("string key", {"joint_degree_type": "cover", "cover": [[0, 1]]}),
    ("type None", {N.JOINT_DEGREE_TYPE: None, N.COVER: [[0, 1]]}),
    ("type list", {N.JOINT_DEGREE_TYPE: [], N.COVER: [[0, 1]]}),
    ("type bogus", {N.JOINT_DEGREE_TYPE: "bogus", N.COVER: [[0, 1]]}),
    ("type names-enum", {N.JOINT_DEGREE_TYPE: N.COVER, N.COVER: [[0, 1]]}),
    ("type badstr", {N.JOINT_DEGREE_TYPE: BadStr(), N.COVER: [[0, 1]]}),
    ("cover missing", {N.JOINT_DEGREE_TYPE: "cover"}),
    ("undefined", {N.JOINT_DEGREE_TYPE: "undefined", N.COVER: [[0, 1]]}),
    ("raises KeyError", RaisingParams(KeyError("k"))),
    ("raises RuntimeError", RaisingParams(RuntimeError("r"))),
    ("raises KeyboardInterrupt", RaisingParams(KeyboardInterrupt("ki"))),
]:
    attempt("load malformed %s" % label, lambda: JointDegreeDistribution.load_joint_degree(p))
attempt("load no args", lambda: JointDegreeDistribution.load_joint_degree())
attempt("load kw", lambda: JointDegreeDistribution.load_joint_degree(params=cover_params([[0, 1], [0, 1, 2]])))
attempt("load via instance", lambda: JointDegreeDistribution().load_joint_degree(cover_params([[1, 2], [1, 2, 3]])))

out("# 3d repeated loads share nothing; params untouched")
p = cover_params([[0, 1, 2], [2, 3], [0, 3]])
snapshot = repr(p)
a = JointDegreeDistribution.load_joint_degree(p)
b = JointDegreeDistribution.load_joint_degree(p)
out("distinct objects", a is not b, "same cover object", a.cover is b.cover is p[N.COVER],
    "distinct jdd", a.jdd is not b.jdd, "equal", a.jdd == b.jdd, "params same", repr(p) == snapshot)
random.seed(31337)
out("samples", a.sample_jds_from_jdd(9), b.sample_jds_from_jdd(9))

out("# 3e sampling-based loader consumes the stream identically")
random.seed(4242)
p = dict(VP[JointDegreeType.MARGINAL])
p[N.JOINT_DEGREE_TYPE] = "marginal"
p[N.USE_SAMPLING] = True
p[N.N_SAMPLES] = 200
attempt("load marginal sampling", lambda: JointDegreeDistribution.load_joint_degree(p))
attempt("factory marginal sampling", lambda: JointDegreeFactory.resolve_joint_degree(JointDegreeType.MARGINAL, p))

# ---------------------------------------------- 4. end to end with the generator
out("# 4 cover -> jdd -> jds -> generated network (clique motifs of reported sizes)")
try:
    from gcmpy.gcm_algorithm.gcm_algorithm_network import GCMAlgorithmNetwork
    from gcmpy.names.gcm_algorithm_names import GCMAlgorithmNames as G
    from gcmpy.motif_generators.clique_motif import clique_motif

    random.seed(777)
    np.random.seed(777)
    cover = [[1, 2, 3], [3, 4], [4, 5], [1, 5], [2, 3, 4, 5], [5, 6], [6, 1]]
    jd = JointDegreeDistribution.load_joint_degree(cover_params(cover))
    jds = jd.sample_jds_from_jdd(30)
    out("jds", jds)
    params = {
        G.MOTIF_SIZES: jd.motif_sizes,
        G.EDGE_NAMES: ["%d-clique" % s for s in jd.motif_sizes],
        G.BUILD_FUNCTIONS: [clique_motif] * len(jd.motif_sizes),
    }
    net = GCMAlgorithmNetwork(params).random_clustered_graph(jds)
    g = net._G
    edges = sorted(
        (min(u, v), max(u, v), sorted((str(k), str(x)) for k, x in d.items()))
        for u, v, d in g.edges(data=True)
    )
    out("network order", g.order(), "edges", len(edges))
    out("network digest", hashlib.sha256(repr(edges).encode()).hexdigest()[:16])
except BaseException as e:  # noqa
    out("end-to-end !!", exc_repr(e))
out("rng after end-to-end", rng_digest())

out("# final")
out("rng", rng_digest())
out("digest", hashlib.sha256("\n".join(LINES).encode()).hexdigest())
