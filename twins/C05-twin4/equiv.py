"""
Equivalence digest for gcmpy/joint_degree/joint_degree.py (property C05).

Run with cwd = a checkout of gcmpy. Prints a deterministic digest of results,
exceptions, RNG state after each scenario and mutated inputs. Set
EQUIV_DEBUG=1 to additionally switch DEBUG logging on (sent to a sink that
discards it) so that the logging code paths get exercised as well; stdout
must stay the same.
"""
import copy
import hashlib
import io
import logging
import os
import random
import sys

sys.path.insert(0, os.getcwd())

import numpy as np  # noqa: E402

from gcmpy.joint_degree.joint_degree import JointDegree  # noqa: E402
from gcmpy.joint_degree.joint_degree_loaders.joint_degree_manual import (  # noqa: E402
    JointDegreeManual,
)
from gcmpy.joint_degree.joint_degree_loaders.joint_degree_empirical import (  # noqa: E402
    JointDegreeEmpirical,
)
from gcmpy.names.joint_degree_names import JointDegreeNames  # noqa: E402

if os.environ.get("EQUIV_DEBUG"):
    sink = logging.StreamHandler(io.StringIO())
    root = logging.getLogger()
    root.addHandler(sink)
    root.setLevel(logging.DEBUG)


def h(obj) -> str:
    return hashlib.sha256(repr(obj).encode()).hexdigest()[:16]


def rng_state() -> str:
    return h(random.getstate()) + "/" + h(np.random.get_state()[1].tolist())


def seed(s: int) -> None:
    random.seed(s)
    np.random.seed(s)


def show(label: str, value, full: bool = True) -> None:
    r = repr(value)
    if full and len(r) <= 400:
        print(f"{label}: {r}")
    else:
        print(f"{label}: len={len(value) if hasattr(value, '__len__') else '-'} sha={h(value)}")


def attempt(label: str, fn, *args, **kwargs):
    try:
        res = fn(*args, **kwargs)
    except BaseException as e:  # noqa: B902
        print(f"{label}: EXC {type(e).__name__}: {e!r}")
        res = None
    else:
        show(label, res)
    print(f"{label}: rng {rng_state()}")
    return res


class Plain(JointDegree):
    """Subclass that uses the base-class constructor."""

    def __init__(self, jdd=None, motif_sizes=None, call_super=True):
        if call_super:
            super().__init__()
        if jdd is not None:
            self._jdd = jdd
        if motif_sizes is not None:
            self._motif_sizes = motif_sizes

    def create_jdd(self) -> None:
        return super().create_jdd()


def section(name: str) -> None:
    print(f"==== {name}")


# --------------------------------------------------------------- abstract bits
section("abstract machinery")
seed(1)
attempt("JointDegree()", JointDegree)
attempt("JointDegree(1, a=2)", JointDegree, 1, a=2)
p = Plain()
show("Plain().__dict__", p.__dict__)
attempt("Plain().create_jdd", p.create_jdd)
attempt("Plain().jdd", lambda: p.jdd)
attempt("Plain().motif_sizes", lambda: p.motif_sizes)
p2 = Plain(call_super=False)
show("Plain(no super).__dict__", p2.__dict__)
attempt("Plain(no super).sample", p2.sample_jds_from_jdd, 3)
attempt("Plain().sample (jdd None)", p.sample_jds_from_jdd, 3)
attempt("Plain().handshake (sizes None)", p.handshaking_lemma, [(1, 2), (2, 2)])
attempt("Plain().handshake empty (sizes None)", p.handshaking_lemma, [])
attempt("Plain().normalise (jdd None)", p.normalise_jdd)
show("type", (JointDegree._type, Plain._type))

# ----------------------------------------------------------- handshaking_lemma
section("handshaking_lemma")
HS_CASES = [
    ("divisible", [(1, 3), (1, 0), (0, 0)], [2, 3]),
    ("one short", [(1, 3), (1, 1), (1, 0)], [2, 3]),
    ("two short", [(1, 1), (0, 0), (0, 0), (0, 0)], [2, 3]),
    ("three topologies", [(1, 1, 1), (0, 2, 5), (3, 0, 1), (4, 4, 0)], [2, 3, 4]),
    ("single vertex", [(1, 1)], [2, 5]),
    ("big motif", [(1,), (0,), (2,)], [17]),
    ("motif size one", [(1, 7), (3, 2)], [1, 1]),
    ("lists as entries", [[1, 1], [0, 0], [2, 0]], [2, 3]),
    ("mixed entries", [(1, 1), [0, 0], (2, 0)], [2, 3]),
    ("ragged entries", [(1, 1, 9), (0, 0), (2, 0, 1)], [2, 3, 4]),
    ("empty", [], [2, 3]),
    ("empty tuples", [(), ()], [2, 3]),
    ("negative motif size", [(1, 3), (1, 1), (1, 0)], [-2, -3]),
    ("zero motif size", [(1, 3), (1, 1)], [2, 0]),
    ("zero motif size first", [(1, 3), (1, 1)], [0, 3]),
    ("too few motif sizes", [(1, 1, 1), (0, 0, 0)], [2]),
    ("too many motif sizes", [(1, 1), (0, 0)], [2, 3, 4, 5]),
    ("float entries", [(1.0, 2.0), (0.0, 0.0)], [2, 3]),
    ("float entries divisible", [(1.0, 3.0), (1.0, 0.0)], [2, 3]),
    ("float motif size", [(1, 2), (0, 0)], [2.0, 3.0]),
    ("bool entries", [(True, False), (False, False)], [2, 3]),
    ("negative entries", [(-1, -2), (0, 0)], [2, 3]),
    ("string entries", [("a", "b")], [2, 3]),
    ("numpy ints", [(np.int64(1), np.int64(1)), (np.int64(0), np.int64(0))], [2, 3]),
    ("numpy motif sizes", [(1, 1), (0, 0), (0, 1)], np.array([2, 3])),
    ("tuple motif sizes", [(1, 1), (0, 0), (0, 1)], (2, 3)),
    ("dict motif sizes", [(1, 1), (0, 0), (0, 1)], {0: 2, 1: 3}),
    ("tuple as jds", ((1, 1), (0, 0)), [2, 3]),
    ("tuple as jds divisible", ((1, 3), (1, 0)), [2, 3]),
    ("numpy array as jds", np.array([[1, 1], [0, 0], [2, 0]]), [2, 3]),
    ("not iterable", 5, [2, 3]),
    ("entries not iterable", [1, 2], [2, 3]),
]
for k, (name, jds, sizes) in enumerate(HS_CASES):
    for s in (0, 7):
        seed(100 + k + s)
        obj = Plain(motif_sizes=copy.deepcopy(sizes))
        arg = copy.deepcopy(jds)
        res = attempt(f"hs[{name}|{s}]", obj.handshaking_lemma, arg)
        show(f"hs[{name}|{s}] input after", arg)
        print(f"hs[{name}|{s}] same object: {res is arg}")
        show(f"hs[{name}|{s}] sizes after", obj._motif_sizes)
        if res is not None and isinstance(res, list):
            # repeated call on the same object and the already repaired sequence
            res2 = attempt(f"hs[{name}|{s}] again", obj.handshaking_lemma, res)
            print(f"hs[{name}|{s}] again same object: {res2 is res}")

seed(5)
big = [(random.randrange(5), random.randrange(4), random.randrange(7)) for _ in range(5000)]
obj = Plain(motif_sizes=[2, 3, 11])
for rep in range(3):
    arg = list(big)
    res = attempt(f"hs[big|{rep}]", obj.handshaking_lemma, arg)
    show(f"hs[big|{rep}] totals", list(map(sum, zip(*res))))
    show(
        f"hs[big|{rep}] changed",
        [(n, a, b) for n, (a, b) in enumerate(zip(big, res)) if a != b],
    )

# --------------------------------------------------------- sample_jds_from_jdd
section("sample_jds_from_jdd")
JDD_CASES = [
    ("two keys", {(1, 0): 0.5, (0, 1): 0.5}, [2, 3]),
    ("three keys", {(1, 2): 0.2, (3, 1): 0.5, (0, 0): 0.3}, [2, 3]),
    ("unnormalised", {(1, 2): 2, (3, 1): 5, (0, 5): 3}, [2, 4]),
    ("single key", {(1, 1): 1.0}, [2, 3]),
    ("single key zero", {(0, 0): 1.0}, [2, 3]),
    ("one topology", {(1,): 0.1, (2,): 0.2, (3,): 0.7}, [5]),
    ("four topologies", {(1, 2, 0, 1): 0.25, (0, 0, 3, 1): 0.25, (2, 2, 2, 2): 0.5}, [2, 3, 4, 5]),
    ("a zero weight", {(1, 2): 0.0, (3, 1): 1.0}, [2, 3]),
    ("all zero weights", {(1, 2): 0.0, (3, 1): 0.0}, [2, 3]),
    ("negative weight", {(1, 2): -1.0, (3, 1): 0.5}, [2, 3]),
    ("nan weight", {(1, 2): float("nan"), (3, 1): 0.5}, [2, 3]),
    ("inf weight", {(1, 2): float("inf"), (3, 1): 0.5}, [2, 3]),
    ("empty jdd", {}, [2, 3]),
    ("string weights", {(1, 2): "a"}, [2, 3]),
    ("sizes too short", {(1, 2, 1): 0.5, (0, 1, 0): 0.5}, [2]),
    ("zero motif size", {(1, 2): 0.5, (0, 1): 0.5}, [2, 0]),
    ("keys of different length", {(1, 2, 3): 0.5, (0, 1): 0.5}, [2, 3, 4]),
    ("int keys", {1: 0.5, 2: 0.5}, [2]),
    ("list jdd", [((1, 2), 0.5)], [2, 3]),
]
N_VALUES = [0, 1, 2, 3, 10, 97, 1000, -1, -5, 2.0, 2.5, None, "3", True, np.int64(6)]
for k, (name, jdd, sizes) in enumerate(JDD_CASES):
    obj = Plain(jdd=copy.deepcopy(jdd), motif_sizes=copy.deepcopy(sizes))
    for n in N_VALUES:
        seed(1000 + k)
        res = attempt(f"sample[{name}|N={n!r}]", obj.sample_jds_from_jdd, n)
        if isinstance(res, list) and isinstance(obj._jdd, dict):
            show(f"sample[{name}|N={n!r}] totals", list(map(sum, zip(*res))))
            show(
                f"sample[{name}|N={n!r}] not keys",
                [(i, jd) for i, jd in enumerate(res) if jd not in obj._jdd][:20],
            )
    # object history: repeated calls without reseeding
    seed(2000 + k)
    for rep in range(4):
        attempt(f"sample[{name}|rep={rep}]", obj.sample_jds_from_jdd, 50)
    show(f"sample[{name}] jdd after", obj._jdd)
    show(f"sample[{name}] sizes after", obj._motif_sizes)
    print(f"sample[{name}] jdd order: {list(obj._jdd) if isinstance(obj._jdd, dict) else None!r}")

# through the concrete loaders that users go through
seed(31)
manual = JointDegreeManual(
    {
        JointDegreeNames.JDD: {(1, 2): 0.2, (3, 1): 0.5, (0, 0): 0.3},
        JointDegreeNames.MOTIF_SIZES: [2, 3],
    }
)
for n in (0, 1, 5, 501):
    attempt(f"manual N={n}", manual.sample_jds_from_jdd, n)
show("manual jdd", manual.jdd)
seed(32)
emp_jds = [(1, 2), (3, 1), (0, 0), (1, 2), (1, 2), (4, 4)]
emp = JointDegreeEmpirical(
    {JointDegreeNames.JDS: emp_jds, JointDegreeNames.MOTIF_SIZES: [2, 3]}
)
show("empirical jdd", emp.jdd)
for n in (0, 1, 5, 501):
    attempt(f"empirical N={n}", emp.sample_jds_from_jdd, n)
show("empirical jds after", emp_jds)
# sampled sequence fed back as a joint degree sequence
seed(33)
res = emp.sample_jds_from_jdd(200)
emp.empirical_jds = res
emp.create_jdd()
show("empirical refit jdd", emp.jdd)
attempt("empirical refit sample", emp.sample_jds_from_jdd, 100)
# setters
emp.jdd = {(2, 2): 1.0}
emp.motif_sizes = [3, 5]
attempt("after setters", emp.sample_jds_from_jdd, 7)
show("after setters state", (emp.jdd, emp.motif_sizes))

# ---------------------------------------------- normalise_jdd / convert_jds_to_jdd
section("normalise_jdd")
NORM_CASES = [
    {(1, 2): 2, (3, 1): 5, (0, 5): 3},
    {(1, 2): 0.1, (3, 1): 0.2, (0, 5): 0.3, (7, 7): 1e-17},
    {(1, 2): 0.0},
    {(1, 2): 0, (2, 2): 0},
    {},
    {(1, 2): "a"},
    {(1, 2): float("inf"), (0, 0): 1.0},
]
for k, jdd in enumerate(NORM_CASES):
    seed(3000 + k)
    obj = Plain(jdd=copy.deepcopy(jdd), motif_sizes=[2, 3])
    same = obj._jdd
    for rep in range(3):
        attempt(f"norm[{k}|{rep}]", obj.normalise_jdd)
        show(f"norm[{k}|{rep}] jdd", obj._jdd)
        print(f"norm[{k}|{rep}] same dict: {obj._jdd is same}")

section("convert_jds_to_jdd")
CONV_CASES = [
    [(1, 2), (3, 1), (0, 0), (1, 2), (1, 2), (4, 4)],
    [(1, 2)],
    [],
    [[1, 2], [3, 4]],
    [(1, 2), [3, 4]],
    ((1, 2), (1, 2), (0, 1)),
    "aab",
    5,
    None,
    [(1.0, 2), (1, 2.0), (1, 2)],
]
for k, jds in enumerate(CONV_CASES):
    seed(4000 + k)
    obj = Plain(jdd={"old": 1.0}, motif_sizes=[2, 3])
    arg = copy.deepcopy(jds)
    for rep in range(2):
        attempt(f"conv[{k}|{rep}]", obj.convert_jds_to_jdd, arg)
        show(f"conv[{k}|{rep}] jdd", obj._jdd)
        show(f"conv[{k}|{rep}] input", arg)
    attempt(f"conv[{k}] sample", obj.sample_jds_from_jdd, 9)

section("docs and metadata that must not move")
show("class doc sha", h(JointDegree.__doc__))
show("handshaking doc sha", h(JointDegree.handshaking_lemma.__doc__))
show("sample doc sha", h(JointDegree.sample_jds_from_jdd.__doc__))
show("abstract methods", sorted(JointDegree.__abstractmethods__))
show("mro", [c.__name__ for c in Plain.__mro__])
print(f"final rng {rng_state()}")
