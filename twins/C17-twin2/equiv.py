"""
Behavioural digest for the C17 refactoring (message passing on motif covers).

Run with cwd = a checkout of gcmpy.  Only the public / pre-existing API is used,
so the script runs unchanged on the original and on the refactored code.
Prints, for a range of inputs: results (exact float reprs), exceptions (type and
message), internal state that later calls depend on (message table, caches, in
insertion order), digests of the (possibly mutated) inputs and the RNG states.
"""
import hashlib
import itertools
import os
import random
import re
import sys
import warnings

# string vertices are used below: pin the str hash so set orders are reproducible
if os.environ.get("PYTHONHASHSEED") != "0":
    os.environ["PYTHONHASHSEED"] = "0"
    os.execv(sys.executable, [sys.executable] + sys.argv)

sys.path.insert(0, os.getcwd())
warnings.simplefilter("ignore")

import numpy as np
import networkx as nx

from gcmpy.message_passing.message_passing import MessagePassing
from gcmpy.message_passing.message_passing_mixin import MessagePassingMixin
from gcmpy.message_passing.equations.automated_equation import AutomatedEquation

random.seed(1717)
np.random.seed(1717)


def h(obj) -> str:
    return hashlib.sha256(repr(obj).encode()).hexdigest()[:16]


def rng_digest() -> str:
    st = np.random.get_state()
    return h((random.getstate(), st[0], st[1].tolist(), st[2], st[3], st[4]))


def graph_digest(G) -> str:
    return h(
        (
            type(G).__name__,
            G.name,
            sorted(G.graph.items(), key=repr),
            [(n, sorted(d.items(), key=repr)) for n, d in G.nodes(data=True)],
            [(u, v, sorted(d.items(), key=repr)) for u, v, d in G.edges(data=True)],
            [(n, list(G.adj[n])) for n in G.nodes()],
        )
    )


def attempt(tag, fn, *args, **kwargs):
    try:
        res = fn(*args, **kwargs)
        print(f"{tag}: OK {res!r} type={type(res).__name__}")
        return res
    except BaseException as exc:  # noqa
        msg = re.sub(r"0x[0-9a-fA-F]+", "0xADDR", str(exc))
        print(f"{tag}: EXC {type(exc).__name__}: {msg}")
        return None


def ae_state(ae) -> str:
    return h(
        (
            [(k, [sorted(s, key=repr) for s in v], [list(s) for s in v])
             for k, v in ae._connected_subgraphs.items()],
            list(ae._edge_combinations.items()),
        )
    )


def mp_state(mp) -> str:
    return h(
        (
            list(mp._H_tau.items()),
            getattr(mp, "_phi", "unset"),
            mp._iterations,
            ae_state(mp._AE),
        )
    )


# --------------------------------------------------------------------------- #
# cover construction
# --------------------------------------------------------------------------- #
def add_motif(G, key, vertices, edges, uid):
    label = f"{key}-{list(vertices)}-{list(edges)}-{uid}"
    for (a, b) in edges:
        G.add_edge(a, b, CoverLabel=label)
    return label


def clique_edges(vs):
    return list(itertools.combinations(vs, 2))


def cycle_edges(vs):
    return [(vs[i], vs[(i + 1) % len(vs)]) for i in range(len(vs))]


def random_cover(n, n_tri, n_sq, n_k4, n_edge, extra_isolated=0):
    """random edge-disjoint cover by triangles, 4-cycles, 4-cliques and edges"""
    G = nx.Graph()
    G.add_nodes_from(range(n))
    used = set()
    uid = 0

    def free(edges):
        return all(frozenset(e) not in used for e in edges)

    def place(key, size, maker, count):
        nonlocal uid
        tries = 0
        placed = 0
        while placed < count and tries < 2000:
            tries += 1
            vs = random.sample(range(n), size)
            es = maker(vs)
            if free(es):
                for e in es:
                    used.add(frozenset(e))
                add_motif(G, key, vs, es, uid)
                uid += 1
                placed += 1

    place(4, 4, clique_edges, n_k4)
    place(40, 4, cycle_edges, n_sq)
    place(3, 3, clique_edges, n_tri)
    place(2, 2, clique_edges, n_edge)
    G.add_nodes_from(range(n, n + extra_isolated))
    return G


def fixed_graphs():
    out = {}

    G = nx.Graph()
    add_motif(G, 2, [0, 1], [(0, 1)], 0)
    out["single-edge"] = G

    G = nx.Graph()
    add_motif(G, 3, [0, 1, 2], clique_edges([0, 1, 2]), 0)
    out["single-triangle"] = G

    G = nx.Graph()
    for i in range(6):
        add_motif(G, 2, [i, i + 1], [(i, i + 1)], i)
    out["path-of-edges"] = G

    # bow-tie plus tail plus isolated node
    G = nx.Graph()
    add_motif(G, 3, [0, 1, 2], clique_edges([0, 1, 2]), 7)
    add_motif(G, 3, [2, 3, 4], clique_edges([2, 3, 4]), 3)
    add_motif(G, 2, [4, 5], [(4, 5)], 11)
    G.add_node(99)
    out["bowtie-tail-isolated"] = G

    # diamond (chorded 4-cycle) motif sharing vertices with triangles
    G = nx.Graph()
    add_motif(G, 41, [0, 1, 2, 3], [(0, 1), (1, 2), (2, 3), (3, 0), (0, 2)], 0)
    add_motif(G, 3, [3, 4, 5], clique_edges([3, 4, 5]), 1)
    add_motif(G, 3, [1, 6, 7], clique_edges([1, 6, 7]), 2)
    add_motif(G, 2, [5, 6], [(5, 6)], 3)
    out["diamond-mix"] = G

    # vertices listed in a different order from the edges; string-free, big ids
    G = nx.Graph()
    add_motif(G, 40, [30, 10, 40, 20], cycle_edges([10, 20, 30, 40]), 5)
    add_motif(G, 3, [40, 50, 60], clique_edges([60, 40, 50]), 6)
    add_motif(G, 4, [60, 70, 80, 90], clique_edges([90, 80, 70, 60]), 2)
    out["permuted-lists"] = G

    # a 5-clique motif
    G = nx.Graph()
    add_motif(G, 5, [0, 1, 2, 3, 4], clique_edges([0, 1, 2, 3, 4]), 0)
    add_motif(G, 2, [4, 5], [(4, 5)], 1)
    out["five-clique"] = G

    out["random-a"] = random_cover(24, 6, 2, 1, 10, extra_isolated=2)
    out["random-b"] = random_cover(30, 10, 0, 2, 6)
    out["random-c"] = random_cover(18, 0, 3, 0, 14, extra_isolated=1)
    return out


# --------------------------------------------------------------------------- #
# 1. mixin
# --------------------------------------------------------------------------- #
print("== mixin ==")
Gm = nx.Graph()
lab = add_motif(Gm, 3, [5, 6, 7], clique_edges([5, 6, 7]), 12)
mix = MessagePassingMixin("motif cover", Gm)
labels = [
    lab,
    "2-[0, 1]-[(0, 1)]-0",
    "41-[0,1,2,3]-[(0,1),(1,2),(2,3),(3,0),(0,2)]-77",
    " 7 -[1]-[]- 8 ",
    "x-[1, 2]-[(1, 2)]-3",
    "3-[1, 2]-[(1, 2)]-y",
    "3-[1, 2-[(1, 2)]-4",
    "3-foo-bar-4",
    "3",
    "",
    "3-[1,2]",
    "5-[-1, 2]-[(-1, 2)]-9",
    "1-2-3-4-5-6",
    None,
    17,
]
for lb in labels:
    for name in (
        "get_motif_topology",
        "get_motif_ID",
        "get_vertices_in_motif",
        "get_edges_in_motif",
    ):
        attempt(f"{name}({lb!r})", getattr(mix, name), lb)
for pair in [(5, 6), (6, 5), (7, 5), (5, 8), (1, 2)]:
    attempt(f"get_edge_cover_label{pair}", mix.get_edge_cover_label, *pair)
Gn = nx.Graph()
Gn.add_edge(0, 1)
attempt("label-missing", MessagePassingMixin("x", Gn).get_edge_cover_label, 0, 1)
print("mixin attrs", mix._CoverType, graph_digest(mix._G), "rng", rng_digest())


# --------------------------------------------------------------------------- #
# 2. automated equation
# --------------------------------------------------------------------------- #
print("== automated equation ==")


def motif_graphs():
    gs = {}
    for n in (2, 3, 4, 5):
        g = nx.complete_graph(n)
        g.name = f"{n}-clique"
        gs[g.name] = g
    for n in (3, 4, 5, 6):
        g = nx.cycle_graph(n)
        g.name = f"{n}-cycle"
        gs[g.name] = g
    g = nx.Graph()
    g.add_edges_from([(0, 1), (1, 2), (2, 3), (3, 0), (0, 2)])
    g.name = "diamond"
    gs[g.name] = g
    g = nx.path_graph(5)
    g.name = "path5"
    gs[g.name] = g
    g = nx.star_graph(4)
    g.name = "star4"
    gs[g.name] = g
    g = nx.Graph()
    g.add_edges_from([(10, 20), (20, 30), (30, 10), (30, 40), (40, 50), (50, 30)])
    g.name = "bowtie"
    gs[g.name] = g
    g = nx.Graph()
    g.add_edges_from([("a", "b"), ("b", "c"), ("c", "a"), ("c", "d")])
    g.name = "paw-str"
    gs[g.name] = g
    g = nx.Graph()
    g.add_edges_from([(0, 1), (1, 2), (2, 0), (2, 2)])
    g.name = "triangle-selfloop"
    gs[g.name] = g
    g = nx.Graph()
    g.add_edges_from([(0, 1), (2, 3)])
    g.name = "disconnected"
    gs[g.name] = g
    g = nx.Graph()
    g.add_edges_from([(0, 1), (1, 2)])
    g.add_node(9)
    g.name = "path-plus-isolate"
    gs[g.name] = g
    return gs


ps = [0.0, 1.0, 0.5, 0.5645231765, 0.1, 0.9, 1e-9, 0.3333333333333333]
ae_shared = AutomatedEquation()
for name, g in motif_graphs().items():
    us = {n: random.random() for n in g.nodes()}
    first = next(iter(g.nodes()))
    us[first] = 1  # an integer u value, as produced for leaves of the cover
    nx.set_node_attributes(g, us, "u")
    before = graph_digest(g)
    for root in list(g.nodes())[:3]:
        fresh = AutomatedEquation()
        sub = attempt(f"{name} subgraphs root={root}", fresh.get_connected_subgraphs, g, root)
        sub2 = fresh.get_connected_subgraphs(g, root)
        print("   cache returns same object:", sub is sub2,
              "sizes", [len(s) for s in sub] if sub else None)
        attempt(f"{name} us root={root}", fresh.get_us, g, root)
        for p in ps:
            r1 = attempt(f"{name} AE fresh root={root} p={p}", fresh.automated_equation, g, p, root)
            r2 = attempt(f"{name} AE shared root={root} p={p}", ae_shared.automated_equation, g, p, root)
        print("   fresh state", ae_state(fresh))
    print(f"{name} graph unchanged: {before == graph_digest(g)} {graph_digest(g)}")

    if nx.number_of_nodes(g) and name not in ("disconnected", "path-plus-isolate"):
        fresh = AutomatedEquation()
        c = list(g.nodes())
        comb = attempt(f"{name} edge combinations", fresh.get_edge_combinations, g, c)
        comb2 = fresh.get_edge_combinations(g, c)
        print("   cache returns same object:", comb is comb2, list(fresh._edge_combinations))
        comb3 = attempt(f"{name} edge combinations, reversed c", fresh.get_edge_combinations, g, c[::-1])
        print("   keys", list(fresh._edge_combinations))
print("shared state", ae_state(ae_shared))

# edge cases / errors
ae = AutomatedEquation()
g = nx.complete_graph(3)
g.name = "k3-no-u"
attempt("missing u", ae.automated_equation, g, 0.4, 0)
attempt("missing u, p=0 (retry, cached subgraphs)", ae.automated_equation, g, 0.0, 0)
nx.set_node_attributes(g, {0: 0.3, 1: 0.6, 2: 0.9}, "u")
attempt("root absent", ae.automated_equation, g, 0.4, 17)
attempt("root absent and bad p", ae.automated_equation, g, "p", 17)
attempt("bad p", ae.automated_equation, g, "p", 0)
attempt("p None", ae.automated_equation, g, None, 1)
attempt("after errors", ae.automated_equation, g, 0.4, 0)
attempt("numpy p", ae.automated_equation, g, np.float64(0.4), 0)
attempt("int p", ae.automated_equation, g, 1, 0)
attempt("p>1", ae.automated_equation, g, 1.5, 2)
attempt("p<0", ae.automated_equation, g, -0.25, 2)
attempt("nan p", ae.automated_equation, g, float("nan"), 2)
g0 = nx.Graph()
g0.name = "null"
attempt("null graph", ae.automated_equation, g0, 0.4, 0)
attempt("null graph edge combinations", ae.get_edge_combinations, g0, [])
attempt("null graph us", ae.get_us, g0, 0)
g1 = nx.Graph()
g1.add_node(0, u=0.5)
g1.name = "singleton"
attempt("singleton", ae.automated_equation, g1, 0.4, 0)
attempt("singleton edge combinations", ae.get_edge_combinations, g1, [0])
# same name, different graph: cache keyed by name is observable
g2 = nx.path_graph(3)
g2.name = "k3-no-u"
nx.set_node_attributes(g2, {0: 0.3, 1: 0.6, 2: 0.9}, "u")
attempt("name clash", ae.automated_equation, g2, 0.4, 0)
print("ae state", ae_state(ae), "rng", rng_digest())


# --------------------------------------------------------------------------- #
# 3. message passing
# --------------------------------------------------------------------------- #
print("== message passing ==")
phis = [0.0, 0.05, 0.2, 0.35, 0.5, 0.65, 0.8, 0.95, 1.0]
for name, G in fixed_graphs().items():
    before = graph_digest(G)
    print(f"-- {name}: n={G.number_of_nodes()} m={G.number_of_edges()} {before}")

    # fresh object per phi
    fresh_vals = []
    for phi in phis:
        mp = MessagePassing(G, iterations=6)
        fresh_vals.append(attempt(f"{name} fresh phi={phi}", mp.theoretical, phi))
        print("   state", mp_state(mp))

    # one object, three query orders
    for order_name, order in (
        ("ascending", phis),
        ("descending", phis[::-1]),
        ("shuffled", random.sample(phis, len(phis))),
        ("repeat", [0.5, 0.5, 0.0, 0.5, 1.0, 0.5]),
    ):
        mp = MessagePassing(G, iterations=6)
        vals = [mp.theoretical(phi) for phi in order]
        print(f"   {order_name} {order!r} -> {vals!r}")
        print("   state", mp_state(mp))

    # default iterations, zero and one iteration
    for its in (0, 1, 25):
        mp = MessagePassing(G, "motif cover", its)
        attempt(f"{name} iterations={its} phi=0.6", mp.theoretical, 0.6)
        print("   state", mp_state(mp), mp._MPM._CoverType)

    # direct use of the public pieces
    mp = MessagePassing(G, iterations=2)
    mp.theoretical(0.45)
    for (i, j) in list(G.edges())[:4]:
        label = mp._MPM.get_edge_cover_label(i, j)
        attempt(f"   calculate_H_tau({i})", mp.calculate_H_tau, i, label)
        attempt(f"   calculate_H_tau({j})", mp.calculate_H_tau, j, label)
        vs = mp._MPM.get_vertices_in_motif(label)
        prods = {v: 0.25 + 0.5 * random.random() for v in vs if v != i}
        attempt(f"   resolve_equation({i})", mp.resolve_equation, i, label, prods)
        attempt(f"   resolve_equation({i}) int prods", mp.resolve_equation, i, label,
                {v: 1 for v in vs if v != i})
        # focal vertex that is not a member of the motif
        attempt("   calculate_H_tau(outsider)", mp.calculate_H_tau, 10 ** 6, label)
    print("   state", mp_state(mp))
    print(f"   graph unchanged: {before == graph_digest(G)} rng {rng_digest()}")

# edge cases / errors
print("-- edge cases")
attempt("empty graph", MessagePassing(nx.Graph()).theoretical, 0.5)
Gi = nx.Graph()
Gi.add_nodes_from(range(3))
attempt("only isolated nodes", MessagePassing(Gi).theoretical, 0.5)
Gu = nx.Graph()
Gu.add_edge(0, 1)
mp = MessagePassing(Gu)
attempt("unlabelled edge", mp.theoretical, 0.5)
print("   state", mp_state(mp))
Gb = nx.Graph()
Gb.add_edge(0, 1, CoverLabel="2-[0, 1]-[(0, 1)]-x")
mp = MessagePassing(Gb)
attempt("bad uid", mp.theoretical, 0.5)
print("   state", mp_state(mp))
Gb = nx.Graph()
Gb.add_edge(0, 1, CoverLabel="2-[0, 1]-[(0, 1)]-0")
Gb.add_edge(1, 2, CoverLabel="2-[1, 2]-oops-1")
mp = MessagePassing(Gb, iterations=3)
attempt("bad edge list", mp.theoretical, 0.5)
print("   state", mp_state(mp))
Gb = nx.Graph()
Gb.add_edge(0, 1, CoverLabel="2-[0, 1]-[(0, 1)]-0")
Gb.add_edge(1, 2, CoverLabel="2-[1, 7]-[(1, 7)]-1")  # label disagrees with graph
mp = MessagePassing(Gb, iterations=3)
attempt("inconsistent label", mp.theoretical, 0.5)
print("   state", mp_state(mp))
Gb = nx.Graph()
Gb.add_edge(0, 1, CoverLabel="2-[0, 1]-[(0, 1)]-0")
Gb.add_edge(1, 2, CoverLabel="2")
mp = MessagePassing(Gb, iterations=3)
attempt("short label", mp.theoretical, 0.5)
print("   state", mp_state(mp))
# two motifs sharing a uid: the message tables collide
Gb = nx.Graph()
add_motif(Gb, 3, [0, 1, 2], clique_edges([0, 1, 2]), 0)
add_motif(Gb, 2, [2, 3], [(2, 3)], 0)
mp = MessagePassing(Gb, iterations=4)
attempt("uid collision", mp.theoretical, 0.5)
print("   state", mp_state(mp))
G = fixed_graphs()["bowtie-tail-isolated"]
mp = MessagePassing(G, iterations=3)
attempt("calculate_H_tau before theoretical", mp.calculate_H_tau, 0, G.edges[0, 1]["CoverLabel"])
attempt("resolve_equation before theoretical", mp.resolve_equation, 0,
        G.edges[0, 1]["CoverLabel"], {1: 0.5, 2: 0.5})
attempt("str phi", mp.theoretical, "0.5")
print("   state", mp_state(mp))
attempt("numpy phi", mp.theoretical, np.float64(0.7))
attempt("int phi 1", mp.theoretical, 1)
attempt("int phi 0", mp.theoretical, 0)
attempt("phi 1.5", mp.theoretical, 1.5)
attempt("nan phi", mp.theoretical, float("nan"))
attempt("float iterations", MessagePassing(G, iterations=2.0).theoretical, 0.5)
print("   state", mp_state(mp))

print("final rng", rng_digest())
