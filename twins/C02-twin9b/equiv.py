import sys, os; sys.path.insert(0, os.getcwd())
import hashlib
import random

import numpy as np

from gcmpy.gcm_algorithm.gcm_algorithm_custom_motifs import GCMAlgorithmCustomMotifs
from gcmpy.gcm_algorithm.gcm_algorithm_factory import GCMAlgorithmFactory
from gcmpy.gcm_algorithm.gcm_algorithm_types import GCMAlgorithmTypes
from gcmpy.names.gcm_algorithm_names import GCMAlgorithmNames


def h(x):
    return hashlib.sha256(repr(x).encode()).hexdigest()[:16]


def rng_digest():
    return h((random.getstate(), np.random.get_state()[1].tolist(), np.random.get_state()[2]))


CALLS = []


# ---- build callbacks -------------------------------------------------------
def bare_tuple(vs):
    CALLS.append(("bare_tuple", tuple(vs)))
    return (vs[0], vs[1])


def bare_list(vs):
    CALLS.append(("bare_list", tuple(vs)))
    return [vs[0], vs[1]]


def bare_str(vs):
    CALLS.append(("bare_str", tuple(vs)))
    return "ab"


def bare_np(vs):
    CALLS.append(("bare_np", tuple(vs)))
    return np.array([vs[0], vs[1]])


def one_wrapped(vs):
    CALLS.append(("one_wrapped", tuple(vs)))
    return [(vs[0], vs[1])]


def two_edges(vs):
    CALLS.append(("two_edges", tuple(vs)))
    return ((vs[0], vs[1]), (vs[1], vs[2]))


def two_edges_lists(vs):
    CALLS.append(("two_edges_lists", tuple(vs)))
    return [[vs[0], vs[1]], [vs[1], vs[2]]]


def tri(vs):
    CALLS.append(("tri", tuple(vs)))
    return (vs[0], vs[1]), (vs[0], vs[2]), (vs[1], vs[2])


def diamond(vs):
    CALLS.append(("diamond", tuple(vs)))
    return (
        (vs[0], vs[1]),
        (vs[1], vs[2]),
        (vs[2], vs[3]),
        (vs[3], vs[1]),
        (vs[0], vs[2]),
    )


def empty(vs):
    CALLS.append(("empty", tuple(vs)))
    return ()


def noisy_bare(vs):
    CALLS.append(("noisy_bare", tuple(vs), random.random()))
    random.shuffle(vs)
    return (vs[0], vs[1])


def gen_edges(vs):
    CALLS.append(("gen", tuple(vs)))
    return ((a, b) for a, b in zip(vs, vs[1:]))


def two_set(vs):
    CALLS.append(("two_set", tuple(vs)))
    return {vs[0], vs[1] + 10**6}


def two_dict(vs):
    CALLS.append(("two_dict", tuple(vs)))
    return {0: "x", 1: "y"}


class Boom(Exception):
    pass


def make_raiser(after):
    state = {"n": 0}

    def raiser(vs):
        state["n"] += 1
        CALLS.append(("raiser", state["n"], tuple(vs)))
        if state["n"] > after:
            raise Boom(state["n"])
        return (vs[0], vs[1])

    return raiser


# ---- naming callbacks ------------------------------------------------------
def n_bare():
    CALLS.append("n_bare")
    return "2-clique"


def n_bare_tuple():
    CALLS.append("n_bare_tuple")
    return ("2-clique",)


def n_two():
    CALLS.append("n_two")
    return "w0", "w1"


def n_tri():
    CALLS.append("n_tri")
    return "3-clique", "3-clique", "3-clique"


def n_diamond():
    CALLS.append("n_diamond")
    return "do", "do", "do", "do", "di"


def n_none():
    CALLS.append("n_none")
    return None


def n_noisy():
    CALLS.append(("n_noisy", random.random()))
    return "noisy"


def n_raise():
    CALLS.append("n_raise")
    raise Boom("name")


def make_jds(n, widths, seed, mult):
    r = random.Random(seed)
    jds = [tuple(r.randrange(0, w + 1) for w in widths) for _ in range(n)]
    if mult and jds:
        cols = [sum(j[i] for j in jds) for i in range(len(widths))]
        last = list(jds[-1])
        for i, m in enumerate(mult):
            last[i] += (-cols[i]) % m
        jds[-1] = tuple(last)
    return jds


def P(sizes, names, builds, indices):
    return {
        GCMAlgorithmNames.MOTIF_SIZES: sizes,
        GCMAlgorithmNames.EDGE_NAMES: names,
        GCMAlgorithmNames.BUILD_FUNCTIONS: builds,
        GCMAlgorithmNames.MOTIF_INDICES: indices,
    }


def run(label, params, jds, via_factory=False, repeat_calls=1):
    del CALLS[:]
    out = [label]
    try:
        if via_factory:
            alg = GCMAlgorithmFactory.resolve_algorithm(GCMAlgorithmTypes.MOTIFS, params)
        else:
            alg = GCMAlgorithmCustomMotifs(params)
    except BaseException as e:
        out.append(("ctor", type(e).__name__))
        print(out, rng_digest())
        return
    for c in range(repeat_calls):
        try:
            g = alg.random_clustered_graph(jds)
            out.append(
                (
                    "ok",
                    len(g.edge_list),
                    len(g.topologies),
                    len(g.motif_id),
                    h(g.edge_list),
                    h(g.topologies),
                    h(g.motif_id),
                    h([type(e).__name__ for e in g.edge_list]),
                    h([type(e).__name__ for e in g.motif_id]),
                    g.joint_degrees is jds,
                    h(g.joint_degrees),
                    g.motif_id[:6],
                    g.motif_id[-3:],
                    g.topologies[:3],
                    g.edge_list[:2],
                )
            )
        except BaseException as e:
            out.append(("exc", type(e).__name__, h(str(e))))
        out.append(("state", h(sorted(alg.__dict__)), h(alg.__dict__.get("_motif_sizes")), h(alg.__dict__.get("_motif_indices"))))
        out.append(("calls", len(CALLS), h(CALLS)))
        out.append(("rng", rng_digest()))
    print(out)


random.seed(4242)
np.random.seed(4242)

# the suite's own configuration: bare 2-clique, triangle, diamond, pentagon
jds_suite = [
    (2, 1, 0, 1, 1, 0, 0),
    (1, 1, 0, 1, 1, 0, 0),
    (3, 1, 1, 0, 0, 1, 0),
    (2, 0, 1, 0, 0, 1, 0),
    (0, 0, 0, 1, 0, 0, 1),
    (1, 0, 0, 1, 0, 0, 0),
    (1, 0, 1, 0, 0, 0, 0),
    (1, 0, 1, 0, 0, 0, 0),
    (1, 0, 0, 1, 0, 0, 0),
    (1, 0, 0, 1, 0, 0, 0),
    (1, 0, 1, 0, 0, 0, 0),
    (0, 0, 1, 0, 0, 0, 0),
]


def pentagon(vs):
    CALLS.append(("pent", tuple(vs)))
    return (
        (vs[0], vs[1]),
        (vs[1], vs[2]),
        (vs[2], vs[3]),
        (vs[3], vs[4]),
        (vs[0], vs[4]),
        (vs[1], vs[3]),
    )


def n_pent():
    CALLS.append("n_pent")
    return "p01", "p12", "p23", "p34", "p40", "p13"


run(
    "suite",
    P([2, 3, 2, 2, 2, 2, 1], [n_bare, n_tri, n_diamond, n_pent], [bare_tuple, tri, diamond, pentagon], [[0], [1], [2, 3], [4, 5, 6]]),
    jds_suite,
    repeat_calls=3,
)
run(
    "suite_factory",
    P([2, 3, 2, 2, 2, 2, 1], [n_bare, n_tri, n_diamond, n_pent], [bare_tuple, tri, diamond, pentagon], [[0], [1], [2, 3], [4, 5, 6]]),
    jds_suite,
    via_factory=True,
)

# bare-edge flavours
for name, build in [
    ("bare_tuple", bare_tuple),
    ("bare_list", bare_list),
    ("bare_str", bare_str),
    ("bare_np", bare_np),
    ("one_wrapped", one_wrapped),
    ("noisy_bare", noisy_bare),
    ("two_set", two_set),
    ("two_dict", two_dict),
    ("empty", empty),
    ("gen", gen_edges),
    ("raiser0", make_raiser(0)),
    ("raiser3", make_raiser(3)),
]:
    for nname, namer in [("n_bare", n_bare), ("n_bare_tuple", n_bare_tuple), ("n_none", n_none), ("n_noisy", n_noisy), ("n_raise", n_raise), ("n_two", n_two)]:
        run("%s/%s" % (name, nname), P([2], [namer], [build], [[0]]), make_jds(24, [3], len(name) * 7 + len(nname), [2]), repeat_calls=2)

# exactly two edges vs bare edge in one model
run("two+bare", P([3, 2], [n_two, n_bare], [two_edges, bare_tuple], [[0], [1]]), make_jds(40, [2, 3], 50, [3, 2]), repeat_calls=2)
run("twolists+barelist", P([3, 2], [n_two, n_bare], [two_edges_lists, bare_list], [[0], [1]]), make_jds(40, [2, 3], 51, [3, 2]))
run("bare_in_two_orbits", P([1, 1], [n_bare], [bare_tuple], [[0, 1]]), [(1, 1)] * 9 + [(0, 0)] * 3, repeat_calls=2)
run("bare_then_tri", P([2, 3], [n_bare, n_tri], [bare_tuple, tri], [[0], [1]]), make_jds(60, [3, 2], 52, [2, 3]))
run("tri_then_bare", P([3, 2], [n_tri, n_bare], [tri, bare_tuple], [[0], [1]]), make_jds(60, [2, 3], 53, [3, 2]))
run("wrong_name_len", P([2, 3], [n_tri, n_bare], [bare_tuple, tri], [[0], [1]]), make_jds(30, [2, 2], 54, [2, 3]))

# degenerate / error paths
run("empty_jds", P([2], [n_bare], [bare_tuple], [[0]]), [])
run("all_zero", P([2], [n_bare], [bare_tuple], [[0]]), [(0,)] * 4)
run("remainder", P([2], [n_bare], [bare_tuple], [[0]]), [(1,), (1,), (1,)])
run("no_indices", P([2], [n_bare], [bare_tuple], []), make_jds(10, [2], 55, [2]))
run("index_oob", P([2], [n_bare], [bare_tuple], [[3]]), make_jds(10, [2], 56, [2]))
run("names_short", P([2, 2], [n_bare], [bare_tuple, bare_tuple], [[0], [1]]), make_jds(10, [2, 2], 57, [2, 2]))
run("builds_short", P([2, 2], [n_bare, n_bare], [bare_tuple], [[0], [1]]), make_jds(10, [2, 2], 58, [2, 2]))
run("size_zero", P([0], [n_bare], [bare_tuple], [[0]]), make_jds(5, [2], 59, None))
run("size_neg", P([-2], [n_bare], [bare_tuple], [[0]]), make_jds(5, [2], 60, None))
run("size_float", P([2.0], [n_bare], [bare_tuple], [[0]]), make_jds(5, [2], 61, None))
run("name_not_callable", P([2], ["2-clique"], [bare_tuple], [[0]]), make_jds(6, [2], 62, [2]))
run("missing_indices", {GCMAlgorithmNames.MOTIF_SIZES: [2], GCMAlgorithmNames.EDGE_NAMES: [n_bare], GCMAlgorithmNames.BUILD_FUNCTIONS: [bare_tuple]}, make_jds(6, [2], 63, [2]))
run("jds_none", P([2], [n_bare], [bare_tuple], [[0]]), None)
run("numpy_jds", P([2, 3], [n_bare, n_tri], [bare_tuple, tri], [[0], [1]]), np.array(make_jds(30, [2, 2], 64, [2, 3])))

# random configurations mixing everything
r = random.Random(7)
builders = [(bare_tuple, n_bare, 2), (bare_list, n_bare, 2), (two_edges, n_two, 3), (tri, n_tri, 3), (one_wrapped, n_bare_tuple, 2), (noisy_bare, n_noisy, 2), (empty, n_none, 2), (diamond, n_diamond, 4)]
for t in range(60):
    ntop = r.randrange(1, 4)
    pick = [r.choice(builders) for _ in range(ntop)]
    if r.random() < 0.15:
        pick[r.randrange(ntop)] = (make_raiser(r.randrange(0, 5)), n_bare, 2)
    sizes = [p[2] for p in pick]
    jds = make_jds(r.randrange(0, 40), [r.randrange(0, 4) for _ in range(ntop)], 2000 + t, sizes if r.random() < 0.7 else None)
    run("rand%d" % t, P(sizes, [p[1] for p in pick], [p[0] for p in pick], [[i] for i in range(ntop)]), jds, repeat_calls=r.randrange(1, 3))

print("final", rng_digest())
