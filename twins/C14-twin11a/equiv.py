import sys, os; sys.path.insert(0, os.getcwd())
import hashlib
import random
import traceback

import numpy as np

from gcmpy.names.tools_names import ToolsNames
from gcmpy.names.network_names import NetworkNames
from gcmpy.tools.joint_excess_joint_degree_matrices import (
    JointExcessJointDegreeMatrices,
)
from gcmpy.tools.joint_excess_from_ejk import JointExcessFromEjk
from gcmpy.tools.joint_degree_from_excess import JointDegreeFromExcess
from gcmpy.tools.joint_excess_joint_degree import JointExcessJointDegree
from gcmpy.network.network import Network

random.seed(1402)
np.random.seed(1402)

LINES = []


def out(*parts):
    LINES.append(" ".join(str(p) for p in parts))


def exc_chain(e):
    """type names of the exception and of its __context__ / __cause__ chain"""
    names = []
    seen = 0
    while e is not None and seen < 6:
        names.append(type(e).__name__ + ":" + str(e)[:80])
        e = e.__cause__ or e.__context__
        seen += 1
    return names


def describe(obj):
    return (
        "vars_order=%r ejks=%r keys=%r names=%r"
        % (
            list(vars(obj).keys()),
            obj.ejks,
            obj.excess_degree_keys,
            obj.topology_names,
        )
    )


def attempt(label, *args, **kwargs):
    try:
        obj = JointExcessJointDegreeMatrices(*args, **kwargs)
    except BaseException as e:  # noqa
        tb = traceback.extract_tb(e.__traceback__)
        out(label, "EXC", exc_chain(e), "frames", [f.name for f in tb])
        return None
    out(label, "OK", describe(obj))
    return obj


class LoudDict(dict):
    """records every lookup that the constructor performs"""

    def __init__(self, *a, **k):
        super().__init__(*a, **k)
        self.log = []

    def __getitem__(self, key):
        self.log.append(("getitem", key))
        return super().__getitem__(key)

    def get(self, key, default=None):
        self.log.append(("get", key))
        return super().get(key, default)

    def __contains__(self, key):
        self.log.append(("contains", key))
        return super().__contains__(key)


class Falsy(dict):
    def __bool__(self):
        return False


class WeirdEq(dict):
    """params object whose == / != would lie; `is not None` must not consult them"""

    def __eq__(self, other):
        return True

    def __ne__(self, other):
        return False

    __hash__ = None


ejk_tree = {
    (0, 3, 0, 3): 1 / 81,
    (0, 3, 4, 1): 5 / 81,
    (0, 3, 2, 2): 3 / 81,
    (4, 1, 0, 3): 5 / 81,
    (4, 1, 4, 1): 25 / 81,
    (4, 1, 2, 2): 15 / 81,
    (2, 2, 0, 3): 3 / 81,
    (2, 2, 4, 1): 15 / 81,
    (2, 2, 2, 2): 9 / 81,
}
ejk_triangle = {
    (3, 1, 3, 1): 16 / 144,
    (3, 1, 1, 2): 24 / 144,
    (3, 1, 5, 0): 8 / 144,
    (1, 2, 3, 1): 24 / 144,
    (1, 2, 1, 2): 36 / 144,
    (1, 2, 5, 0): 12 / 144,
    (5, 0, 3, 1): 8 / 144,
    (5, 0, 1, 2): 12 / 144,
    (5, 0, 5, 0): 4 / 144,
}
NAMES = ["2-clique", "3-clique"]

# ---- 1. no params, in every spelling -------------------------------------
attempt("noarg")
attempt("None-positional", None)
attempt("None-keyword", params=None)

# ---- 2. well-formed params -------------------------------------------------
full = {ToolsNames.EJKS: {"2-clique": ejk_tree, "3-clique": ejk_triangle},
        ToolsNames.EDGE_NAMES: NAMES}
o = attempt("full", full)
out("full identity", o.ejks is full[ToolsNames.EJKS], o.topology_names is NAMES)
for t in NAMES + ["nope"]:
    try:
        out("index", t, o.get_topology_index(t))
    except BaseException as e:  # noqa
        out("index", t, "EXC", exc_chain(e))
qks = JointExcessFromEjk.get_excess_joint_distributions(o)
out("qks", qks)
out("jdd", JointDegreeFromExcess.get_joint_degree_distribution(qks, NAMES))

# ---- 3. malformed / unusual params ----------------------------------------
attempt("empty-dict", {})
attempt("only-ejks", {ToolsNames.EJKS: {"a": {(1, 2): 0.5}}})
attempt("only-names", {ToolsNames.EDGE_NAMES: ["a"]})
attempt("string-keys", {"ejks": {}, "edge_names": []})
attempt("falsy-empty-subclass", Falsy())
attempt("falsy-full-subclass", Falsy(full))
attempt("weird-eq-empty", WeirdEq())
attempt("weird-eq-full", WeirdEq(full))
attempt("zero", 0)
attempt("false", False)
attempt("empty-list", [])
attempt("empty-tuple", ())
attempt("empty-str", "")
attempt("int", 7)
attempt("list-of-pairs", [(ToolsNames.EJKS, {})])
attempt("ejks-none", {ToolsNames.EJKS: None, ToolsNames.EDGE_NAMES: ["a"]})
attempt("ejks-int-values", {ToolsNames.EJKS: {"a": 5}, ToolsNames.EDGE_NAMES: ["a"]})
attempt("ejks-odd-keys", {ToolsNames.EJKS: {"a": {(1, 2, 3): 1.0}}, ToolsNames.EDGE_NAMES: ["a"]})
attempt("ejks-scalar-key", {ToolsNames.EJKS: {"a": {4: 1.0}}, ToolsNames.EDGE_NAMES: ["a"]})
attempt("ejks-empty", {ToolsNames.EJKS: {}, ToolsNames.EDGE_NAMES: []})
attempt("names-none", {ToolsNames.EJKS: {"a": {(0, 0): 1.0}}, ToolsNames.EDGE_NAMES: None})
attempt("two-positional", full, full)
attempt("unknown-keyword", parameters=full)

ld = LoudDict(full)
attempt("loud-full", ld)
out("loud-full log", ld.log)
ld = LoudDict({ToolsNames.EJKS: {}})
attempt("loud-partial", ld)
out("loud-partial log", ld.log)
ld = LoudDict()
attempt("loud-empty", ld)
out("loud-empty log", ld.log)

# ---- 4. randomised matrices -------------------------------------------------
for trial in range(200):
    ntop = random.randint(1, 3)
    names = ["t%d" % i for i in range(ntop)]
    ejks = {}
    for nm in names:
        m = {}
        for _ in range(random.randint(0, 12)):
            left = tuple(random.randint(0, 3) for _ in range(ntop))
            right = tuple(random.randint(0, 3) for _ in range(ntop))
            m[left + right] = m.get(left + right, 0.0) + random.random()
        ejks[nm] = m
    if trial % 7 == 0:
        names = names[:-1]
    p = {ToolsNames.EJKS: ejks, ToolsNames.EDGE_NAMES: names}
    obj = attempt("rand%d" % trial, p)
    if obj is not None:
        try:
            out("rand%d qks" % trial, JointExcessFromEjk.get_excess_joint_distributions(obj))
        except BaseException as e:  # noqa
            out("rand%d qks EXC" % trial, exc_chain(e))
        # repeated calls on one object
        obj.get_excess_degree_keys()
        obj.get_excess_degree_keys()
        out("rand%d again" % trial, describe(obj))

# ---- 5. the constructor as used by the network extractor --------------------
net = Network()
G = net.G
jd = {0: (2, 0), 1: (1, 2), 2: (1, 2), 3: (0, 2)}
for n, d in jd.items():
    G.add_node(n)
    G.nodes[n][NetworkNames.JOINT_DEGREE] = d
for (u, v, t) in [(0, 1, "e"), (0, 2, "e"), (1, 2, "tri"), (2, 3, "tri"), (1, 3, "tri")]:
    G.add_edge(u, v)
    G.edges[u, v][NetworkNames.TOPOLOGY] = t
C = JointExcessJointDegree({ToolsNames.NETWORK: G, ToolsNames.EDGE_NAMES: ["e", "tri"]})
for rep in range(3):
    m = C.get_ejks()
    out("extractor", rep, list(vars(m).keys()), m.ejks,
        {k: sorted(v) for k, v in m.excess_degree_keys.items()}, m.topology_names)
    out("extractor qks", rep, JointExcessFromEjk.get_excess_joint_distributions(m))

# ---- digest ----------------------------------------------------------------
out("random.getstate", hashlib.sha256(repr(random.getstate()).encode()).hexdigest())
st = np.random.get_state()
out("numpy state", hashlib.sha256(repr((st[0], st[1].tolist(), st[2], st[3], st[4])).encode()).hexdigest())
body = "\n".join(LINES)
print(body)
print("DIGEST", hashlib.sha256(body.encode()).hexdigest())
