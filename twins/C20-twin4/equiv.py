"""
Equivalence harness for gcmpy/tools/draw_set.py (property C20).

Run with cwd = a checkout of gcmpy:  python /tmp/wt7/C20.out/equiv.py
Prints a deterministic transcript + digest of: results, exceptions, the internal
layout of the structure (list order, dict order, stored indices), number of
__hash__/__eq__ calls on instrumented elements, and the RNG states afterwards.

Set EQUIV_DEBUG=1 to run the very same scenario with a DEBUG-level logging
handler attached (output must still be identical: log records go to a sink).
"""
import hashlib
import io
import logging
import os
import random
import sys

sys.path.insert(0, os.getcwd())

import numpy as np

if os.environ.get("EQUIV_DEBUG"):
    _sink = io.StringIO()
    _handler = logging.StreamHandler(_sink)
    _handler.setLevel(logging.DEBUG)
    logging.getLogger().addHandler(_handler)
    logging.getLogger().setLevel(logging.DEBUG)

from gcmpy.tools.draw_set import DrawSet
import gcmpy.tools.draw_set as draw_set_module

LINES = []


def out(*parts):
    line = " ".join(str(p) for p in parts)
    LINES.append(line)
    print(line)


def rng_digest():
    h = hashlib.sha256()
    h.update(repr(random.getstate()).encode())
    st = np.random.get_state()
    h.update(repr((st[0], st[1].tolist(), st[2], st[3], repr(st[4]))).encode())
    return h.hexdigest()[:16]


def layout(ds):
    """Full internal layout: list order, dict insertion order and stored slots."""
    return "edges=%r map=%r" % (list(ds._edges), list(ds._edge_hashmap.items()))


def call(label, fn, *args):
    try:
        res = fn(*args)
        out(label, "->", repr(res))
        return res
    except BaseException as exc:  # noqa
        out(label, "!!", type(exc).__name__, repr(exc.args),
            "ctx=%r" % (type(exc.__context__).__name__,),
            "cause=%r" % (type(exc.__cause__).__name__,))
        return None


def public_view(ds):
    items = list(iter(ds))
    return "len=%d iter=%r" % (len(ds), items)


# ---------------------------------------------------------------------------
def scenario_basic():
    out("== basic")
    random.seed(12345)
    np.random.seed(12345)
    ds = DrawSet()
    out(public_view(ds), layout(ds))
    out("rng0", rng_digest())
    call("draw-empty", ds.draw)
    out("rng-after-empty-draw", rng_digest())
    call("remove-from-empty", ds.remove, (1, 2))
    out(layout(ds))
    for e in [(1, 2), (2, 3), (1, 2), (3, 4), (0, 9), (2, 3), (5, 6)]:
        call("add %r" % (e,), ds.add, e)
        out(public_view(ds), layout(ds))
    for e in [(1, 2), (2, 1), (9, 9), (5, 6)]:
        call("contains %r" % (e,), ds.__contains__, e)
    call("contains-unhashable", ds.__contains__, [1, 2])
    call("add-unhashable", ds.add, [1, 2])
    out(layout(ds))
    call("remove-unhashable", ds.remove, [1, 2])
    out(layout(ds))
    for _ in range(10):
        call("draw", ds.draw)
    out("rng", rng_digest())
    # remove: middle, absent, last, first, repeated
    for e in [(2, 3), (2, 3), (7, 7), (5, 6), (1, 2), (1, 2)]:
        call("remove %r" % (e,), ds.remove, e)
        out(public_view(ds), layout(ds))
        call("draw", ds.draw)
    # down to empty and back up
    for e in list(ds):
        call("remove %r" % (e,), ds.remove, e)
        out(public_view(ds), layout(ds))
    call("draw-empty-again", ds.draw)
    call("remove-absent-empty", ds.remove, (3, 4))
    call("add", ds.add, (3, 4))
    call("draw-single", ds.draw)
    call("remove-single", ds.remove, (3, 4))
    out(public_view(ds), layout(ds))
    out("rng-end", rng_digest())
    out("return-values", repr(ds.add((8, 8))), repr(ds.add((8, 8))), repr(ds.remove((8, 8))))


def scenario_odd_elements():
    out("== odd elements")
    random.seed(777)
    ds = DrawSet()
    nan = float("nan")
    other_nan = float("nan")
    elements = [1, 1.0, True, 0, False, -0.0, "a", ("a",), None, nan, (nan,), other_nan,
                (other_nan,), (nan,), frozenset([1, 2]), (1, (2, 3)), 2 ** 70, 1e300, (1.5, 2.5)]
    for e in elements:
        call("add %r" % (e,), ds.add, e)
    out(public_view(ds), layout(ds))
    for e in [1.0, nan, float("nan"), (nan,), (float("nan"),), None, frozenset([2, 1]), 0.0]:
        call("contains %r" % (e,), ds.__contains__, e)
    for _ in range(12):
        call("draw", ds.draw)
    for e in [True, float("nan"), nan, (other_nan,), -0.0, None, 0, frozenset([2, 1]), "zz"]:
        call("remove %r" % (e,), ds.remove, e)
        out(public_view(ds), layout(ds))
    for _ in range(5):
        call("draw", ds.draw)
    out("rng", rng_digest())


class Probe(object):
    """Element that counts every __hash__ / __eq__ / __repr__ call made on it."""
    calls = []

    def __init__(self, key, hash_value=None):
        self.key = key
        self.hash_value = hash(key) if hash_value is None else hash_value

    def __hash__(self):
        Probe.calls.append(("hash", self.key))
        return self.hash_value

    def __eq__(self, other):
        Probe.calls.append(("eq", self.key, getattr(other, "key", other)))
        return isinstance(other, Probe) and self.key == other.key

    def __repr__(self):
        Probe.calls.append(("repr", self.key))
        return "P(%r)" % (self.key,)


def probe_layout(ds):
    return "edges=%r map=%r" % ([p.key for p in ds._edges],
                                [(p.key, i) for p, i in ds._edge_hashmap.items()])


def scenario_probe():
    out("== instrumented elements (hash/eq call counts, collisions)")
    random.seed(99)
    Probe.calls = []
    ds = DrawSet()
    # all collide on hash 7 -> __eq__ is exercised by the dict
    a, b, c, d = Probe("a", 7), Probe("b", 7), Probe("c", 7), Probe("d", 7)
    a2 = Probe("a", 7)  # equal to a but a different object
    ops = [("add", a), ("add", b), ("add", a2), ("add", c), ("contains", a2), ("contains", d),
           ("draw", None), ("draw", None), ("remove", a2), ("remove", a2), ("add", d),
           ("remove", d), ("remove", b), ("draw", None), ("remove", c), ("remove", c),
           ("draw", None), ("add", a2), ("remove", a)]
    for name, arg in ops:
        before = len(Probe.calls)
        try:
            if name == "add":
                res = ds.add(arg)
            elif name == "remove":
                res = ds.remove(arg)
            elif name == "contains":
                res = arg in ds
            else:
                res = ds.draw()
            res = getattr(res, "key", res)
            status = "-> %r" % (res,)
        except BaseException as exc:  # noqa
            status = "!! %s" % (type(exc).__name__,)
        new_calls = Probe.calls[before:]
        out(name, getattr(arg, "key", arg), status, "calls=%r" % (new_calls,))
        out("  ", probe_layout(ds), "len=%d" % len(ds))
        Probe.calls = Probe.calls[:before] + new_calls
    out("total-calls", len(Probe.calls), hashlib.sha256(repr(Probe.calls).encode()).hexdigest()[:16])
    out("rng", rng_digest())


def scenario_mutating_hash():
    out("== element whose hash changes while stored (contract violation, still deterministic)")
    random.seed(5)
    Probe.calls = []
    ds = DrawSet()
    x, y = Probe("x", 1), Probe("y", 2)
    for name, arg, newhash in [("add", y, None), ("add", x, None), ("remove", y, 100),
                               ("add", x, None), ("add", y, None), ("remove", x, None),
                               ("remove", x, 1), ("remove", x, None), ("remove", y, None),
                               ("remove", y, None), ("draw", None, None)]:
        if newhash is not None:
            x.hash_value = newhash
        try:
            res = getattr(ds, name)(*([] if arg is None else [arg]))
            status = "-> %r" % (getattr(res, "key", res),)
        except BaseException as exc:  # noqa
            status = "!! %s %r" % (type(exc).__name__, exc.args and type(exc.args[0]).__name__)
        out(name, getattr(arg, "key", arg), status)
        out("  ", probe_layout(ds), "len=%d" % len(ds))
    out("calls", hashlib.sha256(repr(Probe.calls).encode()).hexdigest()[:16], len(Probe.calls))
    out("rng", rng_digest())


def scenario_model(seed, steps, universe):
    out("== model based random history seed=%d steps=%d universe=%d" % (seed, steps, universe))
    driver = random.Random(seed)       # independent driver: does not touch the global RNG
    random.seed(seed * 31 + 1)          # global RNG used by DrawSet.draw
    np.random.seed(seed)
    ds = DrawSet()
    model = set()
    h = hashlib.sha256()
    mismatches = 0
    for step in range(steps):
        op = driver.random()
        e = tuple(sorted((driver.randrange(universe), driver.randrange(universe))))
        if op < 0.40:
            rec = ("add", e, repr(ds.add(e)))
            model.add(e)
        elif op < 0.70:
            try:
                rec = ("remove", e, repr(ds.remove(e)))
                model.remove(e)
            except KeyError as exc:
                rec = ("remove-keyerror", e, repr(exc.args))
                if e in model:
                    mismatches += 1
        elif op < 0.90:
            try:
                got = ds.draw()
                rec = ("draw", got)
                if got not in model:
                    mismatches += 1
            except IndexError as exc:
                rec = ("draw-indexerror", repr(exc.args))
                if model:
                    mismatches += 1
        else:
            rec = ("contains", e, e in ds)
            if (e in ds) != (e in model):
                mismatches += 1
        items = list(ds)
        if len(ds) != len(model) or len(items) != len(set(items)) or set(items) != model:
            mismatches += 1
        h.update(repr(rec).encode())
        h.update(layout(ds).encode())
        if step % (steps // 8) == 0:
            out("  step", step, rec, "len=%d" % len(ds), h.hexdigest()[:12])
    out("  final", public_view(ds) if len(ds) < 40 else "len=%d" % len(ds))
    out("  digest", h.hexdigest(), "mismatches", mismatches, "rng", rng_digest())


def scenario_two_objects_and_api():
    out("== several objects share nothing; class surface")
    random.seed(3)
    one, two = DrawSet(), DrawSet()
    one.add((1, 2))
    two.add((3, 4))
    two.add((5, 6))
    out(layout(one), "|", layout(two))
    one.remove((1, 2))
    out(layout(one), "|", layout(two))
    out([two.draw() for _ in range(6)], rng_digest())
    out("iter-type", type(iter(two)).__name__, "len-type", type(len(two)).__name__,
        "contains-type", type((3, 4) in two).__name__)
    out("instance-attrs", sorted(vars(one)))
    public = sorted(n for n in vars(DrawSet) if not n.startswith("_") or n in
                    ("__init__", "__len__", "__iter__", "__contains__"))
    out("class-surface", public)
    out("module-has-DrawSet", draw_set_module.DrawSet is DrawSet)
    it = iter(two)
    first = next(it)
    out("live-iter", first, list(it))


def main():
    scenario_basic()
    scenario_odd_elements()
    scenario_probe()
    scenario_mutating_hash()
    scenario_model(1, 4000, 6)
    scenario_model(2, 4000, 25)
    scenario_model(3, 800, 2)
    scenario_two_objects_and_api()
    out("TOTAL", hashlib.sha256("\n".join(LINES).encode()).hexdigest())


if __name__ == "__main__":
    main()
