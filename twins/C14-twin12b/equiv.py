import sys, os; sys.path.insert(0, os.getcwd())
import random
import hashlib
import pickle
import copy
from collections import OrderedDict, defaultdict
from fractions import Fraction
from decimal import Decimal

import numpy as np

random.seed(1402)
np.random.seed(1402)

from gcmpy.tools.joint_degree_from_excess import JointDegreeFromExcess
from gcmpy.tools.joint_excess_from_jdd import JointExcessfromJDD
from gcmpy.tools.joint_excess_from_ejk import JointExcessFromEjk
from gcmpy.tools.joint_excess_joint_degree_matrices import (
    JointExcessJointDegreeMatrices,
)
from gcmpy.names.tools_names import ToolsNames

GET = JointDegreeFromExcess.get_joint_degree_distribution
OBS = JointDegreeFromExcess.observations_from_dict
INV = JointDegreeFromExcess.invert_single


def fx(v):
    if type(v) is float:
        return v.hex()
    if isinstance(v, np.floating):
        return "%s:%s" % (type(v).__name__, float(v).hex())
    return "%s:%r" % (type(v).__name__, v)


def dump(d):
    if isinstance(d, dict):
        return (
            type(d).__name__
            + "{"
            + ", ".join("%r: %s" % (k, dump(v)) for k, v in d.items())
            + "}"
        )
    return fx(d)


def run(tag, qks, keys, repeat=2):
    """call the public entry point (repeatedly on the same arguments) and show
    result, exception type, and the arguments afterwards (mutation check)"""
    for rep in range(repeat):
        try:
            res = GET(qks, keys)
            out = dump(res)
        except BaseException as e:  # noqa
            out = "EXC %s: %s" % (type(e).__name__, e)
        try:
            args_after = dump(qks) if isinstance(qks, dict) else repr(qks)
        except BaseException as e:  # noqa
            args_after = "undumpable %s" % type(e).__name__
        print(tag, "call", rep, "|", out, "| qks after:", args_after, "| keys after:", repr(keys))


# ---- hand-made boundary cases ------------------------------------------------
A, B, C = "2-clique", "3-clique", "4-clique"

# single topology, single key / several keys
run("one topo one key", {A: {(0,): 1.0}}, [A])
run("one topo", {A: {(0,): 0.25, (1,): 0.5, (4,): 0.25}}, [A])
run("one topo unnormalised", {A: {(0,): 2.5, (1,): 5, (4,): 7}}, [A])
# two topologies sharing one / all / no joint degree
q2 = JointExcessfromJDD.get_joint_excess_distributions(
    {(5, 1): 1 / 3, (3, 2): 1 / 3, (1, 3): 1 / 3}
)
run("two topo roundtrip", {A: q2[0], B: q2[1]}, [A, B])
run("two topo roundtrip reversed names", {A: q2[0], B: q2[1]}, [B, A])
run("two topo one common", {A: {(0, 1): 0.5, (2, 0): 0.5}, B: {(1, 0): 1.0}}, [A, B])
run("two topo no common", {A: {(0, 0): 1.0}, B: {(0, 0): 1.0}}, [A, B])
run("two topo scale one", {A: {(0, 1): 1.0}, B: {(1, 0): 1.0}}, [A, B])
run("dup joint degree after shift", {A: {(0, 1): 0.5, (1, 1): 0.5}, B: {(1, 0): 0.5, (2, 0): 0.5}}, [A, B])
# empty things
run("empty qks empty keys", {}, [])
run("empty keys", {A: {(0,): 1.0}}, [])
run("empty qk", {A: {}}, [A])
run("one empty one not", {A: {(0, 1): 1.0}, B: {}}, [A, B])
run("missing topology", {A: {(0, 1): 1.0}}, [A, B])
run("extra topology", {A: {(0, 1): 1.0}, B: {(1, 0): 1.0}, C: {(9, 9): 1.0}}, [A, B])
run("duplicate names", {A: {(0, 1): 0.5, (1, 0): 0.5}}, [A, A])
run("duplicate names 3", {A: {(0, 1, 0): 0.5, (1, 0, 0): 0.5}, B: {(1, 1, 0): 1.0}}, [A, B, A])
# zeros
run("zero mass on common key", {A: {(0, 1): 0.0, (2, 0): 1.0}, B: {(1, 0): 1.0}}, [A, B])
run("zero mass on other common key", {A: {(0, 1): 1.0}, B: {(1, 0): 0.0, (3, 3): 1.0}}, [A, B])
run("all zero", {A: {(0, 1): 0.0}, B: {(1, 0): 0.0}}, [A, B])
run("zero non common", {A: {(0, 1): 0.5, (4, 4): 0.0}, B: {(1, 0): 0.5, (7, 7): 0.5}}, [A, B])
run("negative / inf / nan", {A: {(0, 1): -0.5, (4, 4): float("inf")}, B: {(1, 0): float("nan"), (7, 7): 0.5}}, [A, B])
run("excess -1 at index", {A: {(-1, 1): 0.5, (0, 1): 0.5}, B: {(1, 0): 1.0}}, [A, B])
# numeric types
run("ints", {A: {(0, 1): 1, (2, 0): 3}, B: {(1, 0): 2, (0, 5): 7}}, [A, B])
run("fractions", {A: {(0, 1): Fraction(1, 3), (2, 0): Fraction(2, 3)}, B: {(1, 0): Fraction(1, 7), (0, 5): Fraction(6, 7)}}, [A, B])
run("mixed fraction float", {A: {(0, 1): Fraction(1, 3), (2, 0): 0.5}, B: {(1, 0): 0.25, (0, 5): Fraction(6, 7)}}, [A, B])
run("mixed float fraction", {A: {(0, 1): 0.5, (2, 0): 0.5}, B: {(1, 0): Fraction(1, 2), (0, 5): Fraction(1, 2)}}, [A, B])
run("decimals", {A: {(0, 1): Decimal("0.25"), (2, 0): Decimal("0.75")}, B: {(1, 0): Decimal("0.5"), (0, 5): Decimal("0.5")}}, [A, B])
run("decimal float mix", {A: {(0, 1): Decimal("0.25")}, B: {(1, 0): 0.5}}, [A, B])
run("np float64", {A: {(0, 1): np.float64(0.25), (2, 0): np.float64(0.75)}, B: {(1, 0): np.float64(0.3), (0, 5): np.float64(0.7)}}, [A, B])
run("np float32", {A: {(0, 1): np.float32(0.25), (2, 0): np.float32(0.75)}, B: {(1, 0): np.float32(0.3), (0, 5): np.float32(0.7)}}, [A, B])
run("np mixed 32/64", {A: {(0, 1): np.float32(0.25), (2, 0): 0.75}, B: {(1, 0): np.float64(0.3), (0, 5): np.float32(0.7)}}, [A, B])
run("strings", {A: {(0, 1): "x"}, B: {(1, 0): "y"}}, [A, B])
run("None mass", {A: {(0, 1): None}, B: {(1, 0): 1.0}}, [A, B])
# containers
run("OrderedDict / defaultdict", OrderedDict([(A, OrderedDict([((0, 1), 0.5), ((3, 0), 0.5)])), (B, defaultdict(float, {(1, 0): 0.25, (0, 0): 0.75}))]), [A, B])
run("keys tuple", {A: {(0, 1): 0.5, (3, 0): 0.5}, B: {(1, 0): 0.25, (0, 0): 0.75}}, (A, B))
run("list joint excess", {A: {(0, 1): 1.0}, B: [(1, 0)]}, [A, B])
run("non-tuple joint excess", {A: {0: 1.0}}, [A])
run("short joint excess", {A: {(0,): 1.0}, B: {(1,): 1.0}}, [A, B])
run("nan topology name", {float("nan"): {(0,): 1.0}}, [float("nan")])
nan = float("nan")
run("same nan topology name", {nan: {(0,): 0.5, (1,): 0.5}}, [nan])
run("same nan topology name zero mass", {nan: {(0,): 0.0}}, [nan])
run("int topology names", {0: {(0, 1): 0.5, (3, 0): 0.5}, 1: {(1, 0): 0.25, (0, 0): 0.75}}, [0, 1])
for bad in (None, 0, "ab", [], [{}]):
    run("qks=%r" % (bad,), bad, [A], repeat=1)
    run("keys=%r" % (bad,), {A: {(0,): 1.0}}, bad, repeat=1)

# the shared inner dict: same dict object under two topology names
shared = {(0, 0): 0.5, (1, 1): 0.5}
run("aliased qk", {A: shared, B: shared}, [A, B])

# the lower-level public helpers on the same data
for tag, qks, keys in (
    ("obs two", {A: q2[0], B: q2[1]}, [A, B]),
    ("obs empty", {}, []),
    ("obs dup", {A: {(0, 1): 0.5, (1, 0): 0.5}}, [A, A]),
):
    try:
        print(tag, dump(OBS(qks, keys)))
    except BaseException as e:  # noqa
        print(tag, "EXC", type(e).__name__, e)
for tag, qk, i in (
    ("inv empty", {}, 0),
    ("inv one", {(0, 0): 1.0}, 1),
    ("inv bad index", {(0, 0): 1.0}, 2),
    ("inv neg index", {(0, 3): 0.5, (2, 1): 0.5}, -1),
    ("inv zero", {(0, 0): 0.0}, 0),
):
    try:
        print(tag, dump(INV(qk, i)))
    except BaseException as e:  # noqa
        print(tag, "EXC", type(e).__name__, e)

# ---- random round trips P -> q_i -> P for 1..4 topologies ---------------------
h = hashlib.sha256()
count = 0
excs = {}
for trial in range(1500):
    m = random.randint(1, 4)
    nk = random.choice([1, 1, 2, 3, 5, 9, 20])
    lo = random.choice([0, 0, 1])  # lo=1: every joint degree positive everywhere
    jds = set()
    for _ in range(nk):
        jds.add(tuple(random.randint(lo, 4) for _ in range(m)))
    jds = sorted(jds)
    random.shuffle(jds)
    w = [random.choice([random.random(), random.random(), 0.5, 0.25, 1.0]) for _ in jds]
    if random.random() < 0.5:
        s = sum(w)
        w = [x / s for x in w]
    P = dict(zip(jds, w))
    names = ["t%d" % i for i in range(m)]
    try:
        qs = JointExcessfromJDD.get_joint_excess_distributions(P)
        qd = JointExcessfromJDD.convert_list_qks_to_dict(qs, names)
        snapshot = copy.deepcopy(qd)
        if random.random() < 0.2:
            names = list(reversed(names))
        res = GET(qd, names)
        res_again = GET(qd, names)
        assert dump(res) == dump(res_again)
        assert dump(qd) == dump(snapshot), "arguments mutated"
        line = "%d %s" % (trial, dump(res))
    except BaseException as e:  # noqa
        if isinstance(e, AssertionError):
            raise
        excs[type(e).__name__] = excs.get(type(e).__name__, 0) + 1
        line = "%d EXC %s: %s" % (trial, type(e).__name__, e)
    h.update(line.encode())
    count += 1
    if trial < 12:
        print(line)
print("round trips", count, "exceptions", sorted(excs.items()), "digest", h.hexdigest())

# ---- through the mixing matrices (ejk -> excess -> P), as the MCMC test does --
h = hashlib.sha256()
for trial in range(300):
    m = random.randint(1, 3)
    names = ["e%d" % i for i in range(m)]
    ejks = {}
    base = [tuple(random.randint(0, 3) for _ in range(m)) for _ in range(random.randint(1, 5))]
    for i, name in enumerate(names):
        # excess tuples of topology i: base joint degrees with one i-edge removed
        ex = [tuple(v - (1 if j == i else 0) for j, v in enumerate(jd)) for jd in base if jd[i] > 0]
        e = {}
        for l in ex:
            for r in ex:
                if random.random() < 0.8:
                    e[l + r] = random.random()
        ejks[name] = e
    try:
        M = JointExcessJointDegreeMatrices({ToolsNames.EJKS: ejks, ToolsNames.EDGE_NAMES: names})
        qks = JointExcessFromEjk.get_excess_joint_distributions(M)
        res = GET(qks, names)
        line = "%d %s" % (trial, dump(res))
    except BaseException as e:  # noqa
        line = "%d EXC %s: %s" % (trial, type(e).__name__, e)
    h.update(line.encode())
    if trial < 6:
        print(line)
print("ejk pipeline digest", h.hexdigest())

# ---- RNG streams afterwards --------------------------------------------------
print("random state", hashlib.sha256(pickle.dumps(random.getstate())).hexdigest())
print("numpy state", hashlib.sha256(pickle.dumps(np.random.get_state())).hexdigest())
print("next draws", random.random().hex(), float(np.random.random()).hex())
