import sys, os; sys.path.insert(0, os.getcwd())
import hashlib
import re
import random

import numpy as np

from gcmpy.motif_generators.clique_motif import clique_motif
from gcmpy.motif_generators.cycle_motif import cycle_motif
from gcmpy.motif_generators.diamond_motif import diamond_motif
from gcmpy.gcm_algorithm.gcm_algorithm_fast import GCMAlgorithmFast
from gcmpy.gcm_algorithm.gcm_algorithm_network import GCMAlgorithmNetwork
from gcmpy.gcm_algorithm.gcm_algorithm_main import GCMAlgorithmMain
from gcmpy.gcm_algorithm.gcm_algorithm_factory import GCMAlgorithmFactory
from gcmpy.gcm_algorithm.gcm_algorithm_types import GCMAlgorithmTypes
from gcmpy.names.gcm_algorithm_names import GCMAlgorithmNames as N

random.seed(4242)
np.random.seed(4242)

H = hashlib.sha256()
LINES = 0
EXC_COUNTS = {}


def emit(*parts):
    global LINES
    line = re.sub(r"0x[0-9a-fA-F]+", "0x?", " | ".join(str(p) for p in parts))
    if " | EXC | " in line or " | CTOR-EXC | " in line:
        key = line.split("EXC | ", 1)[1].split(" | ")[0]
        EXC_COUNTS[key] = EXC_COUNTS.get(key, 0) + 1
    H.update(line.encode() + b"\n")
    LINES += 1
    if LINES <= 300 or os.environ.get("EQUIV_FULL"):
        print(line)


def rng_state():
    return hashlib.sha256(repr(random.getstate()).encode()).hexdigest()[:16]


CALLS = []


def spy(inner, tag):
    def f(vs):
        CALLS.append((tag, type(vs).__name__, repr(vs)))
        return inner(vs)

    return f


def path_motif(vs):
    return [(a, b) for a, b in zip(vs, vs[1:])]


def star_motif(vs):
    return [(vs[0], v) for v in vs[1:]]


def dump(label, g):
    if g is None:
        return
    if hasattr(g, "G"):
        emit(label, "nodes", sorted(g.G.nodes(data=True), key=lambda x: repr(x[0])))
        emit(label, "nxedges", [(u, v, sorted(d.items(), key=repr)) for u, v, d in g.G.edges(data=True)])
    else:
        emit(label, "edges", g.edge_list)
        emit(label, "topologies", g.topologies)
        emit(label, "motif_id", g.motif_id)
        emit(label, "jds", g.joint_degrees, type(g.joint_degrees).__name__)


def construct(kind, p):
    if kind == "fast":
        return GCMAlgorithmFast(p)
    if kind == "network":
        return GCMAlgorithmNetwork(p)
    fam, t = kind.split("-")
    if fam == "main":
        q = dict(p)
        q[N.GCM_TYPE] = t
        return GCMAlgorithmMain.load_gcm_algorithm(q)
    return GCMAlgorithmFactory.resolve_algorithm(GCMAlgorithmTypes(t), p)


KINDS = ("fast", "network", "main-fast", "main-network", "factory-fast", "factory-network")


def run(label, p, jds, kinds=KINDS, reps=2):
    snapshot = repr(jds)
    for kind in kinds:
        try:
            alg = construct(kind, p)
        except BaseException as e:
            emit(label, kind, "CTOR-EXC", type(e).__name__, str(e))
            continue
        for rep in range(reps):
            del CALLS[:]
            g = None
            try:
                g = alg.random_clustered_graph(jds)
                emit(label, kind, rep, "OK", type(g).__name__)
                if not hasattr(g, "G"):
                    emit(label, kind, rep, "jds-identity", g.joint_degrees is jds)
            except BaseException as e:
                emit(label, kind, rep, "EXC", type(e).__name__, str(e))
            dump(f"{label}-{kind}-{rep}", g)
            emit(label, kind, rep, "calls", CALLS)
            emit(label, kind, rep, "rng", rng_state(), "jds-unchanged", repr(jds) == snapshot)
            emit(label, kind, rep, "state", alg._motif_sizes, [getattr(f, "__name__", "?") for f in alg._build_functions] if isinstance(alg._build_functions, list) else alg._build_functions, alg._edge_names)


def P(sizes, builders, names):
    return {N.MOTIF_SIZES: sizes, N.BUILD_FUNCTIONS: builders, N.EDGE_NAMES: names}


def make_jds(n, cols, maxdeg, rowtype=tuple):
    return [rowtype(random.randint(0, maxdeg) for _ in range(cols)) for _ in range(n)]


def balance(jds, sizes):
    n = len(jds)
    for col, size in enumerate(sizes):
        while n and sum(r[col] for r in jds) % size:
            i = random.randrange(n)
            r = list(jds[i])
            r[col] += 1
            jds[i] = type(jds[i])(r)
    return jds


B = {2: spy(clique_motif, "K2"), 3: spy(clique_motif, "K3"), 4: spy(diamond_motif, "D4"),
     5: spy(cycle_motif, "C5"), 6: spy(path_motif, "P6"), 1: spy(star_motif, "S1")}

# ---- handshake-satisfying sequences ----------------------------------------
for trial in range(40):
    sizes = random.sample([1, 2, 3, 4, 5, 6], random.randint(1, 4))
    n = random.choice([1, 2, 5, 9, 17, 30])
    jds = balance(make_jds(n, len(sizes), 3, random.choice([tuple, list])), sizes)
    p = P(sizes, [B[s] for s in sizes], [f"t{s}" for s in sizes])
    run(f"valid{trial}", p, jds)

# ---- sequences that leave a short last group --------------------------------
for trial in range(40):
    sizes = random.sample([2, 3, 5, 6, 7], random.randint(1, 3))
    n = random.choice([1, 2, 3, 4, 7, 11])
    jds = make_jds(n, len(sizes), 3)
    builders = [spy(random.choice([clique_motif, cycle_motif, path_motif, star_motif, diamond_motif]), f"b{s}") for s in sizes]
    p = P(sizes, builders, [f"t{s}" for s in sizes])
    run(f"ragged{trial}", p, jds, kinds=("fast", "network", "main-fast"))

# ---- degenerate and invalid inputs -----------------------------------------
k2 = spy(clique_motif, "K2")
cases = {
    "empty": (P([2], [k2], ["e"]), []),
    "empty-rows": (P([2], [k2], ["e"]), [(), (), ()]),
    "all-zero": (P([2, 3], [k2, k2], ["e", "f"]), [(0, 0)] * 5),
    "single-stub": (P([2], [k2], ["e"]), [(1,), (0,)]),
    "size0": (P([0], [k2], ["e"]), [(1,), (1,)]),
    "size0-nostubs": (P([0], [k2], ["e"]), [(0,), (0,)]),
    "size-neg": (P([-2], [k2], ["e"]), [(1,), (1,)]),
    "size-float": (P([2.0], [k2], ["e"]), [(1,), (1,)]),
    "size-bool": (P([True], [spy(star_motif, "S")], ["e"]), [(1,), (1,)]),
    "size-str": (P(["2"], [k2], ["e"]), [(1,), (1,)]),
    "size-none": (P([None], [k2], ["e"]), [(1,), (1,)]),
    "size-huge": (P([10 ** 6], [k2], ["e"]), [(2,), (3,)]),
    "size-toobig": (P([2 ** 80], [k2], ["e"]), [(2,), (3,)]),
    "sizes-short": (P([2], [k2, k2], ["e", "f"]), [(1, 1), (1, 1)]),
    "sizes-long": (P([2, 3, 4], [k2], ["e"]), [(1,), (1,)]),
    "builders-short": (P([2, 2], [k2], ["e", "f"]), [(1, 1), (1, 1)]),
    "names-short": (P([2, 2], [k2, k2], ["e"]), [(1, 1), (1, 1)]),
    "names-short-empty-col": (P([2, 2], [k2, k2], ["e"]), [(1, 0), (1, 0)]),
    "sizes-tuple": (P((2, 3), (k2, spy(clique_motif, "K3")), ("e", "f")), [(1, 1), (1, 1), (0, 1)]),
    "sizes-dict": (P({0: 2}, {0: k2}, {0: "e"}), [(1,), (1,)]),
    "sizes-none": (P(None, None, None), [(1,), (1,)]),
    "neg-degree": (P([2], [k2], ["e"]), [(-1,), (2,), (1,), (1,)]),
    "float-degree": (P([2], [k2], ["e"]), [(1.0,), (1,)]),
    "bool-degree": (P([2], [k2], ["e"]), [(True,), (True,), (False,)]),
    "str-degree": (P([2], [k2], ["e"]), [("1",), (1,)]),
    "none-degree": (P([2], [k2], ["e"]), [(None,), (1,)]),
    "ragged-rows": (P([2, 2], [k2, k2], ["e", "f"]), [(1, 1), (1,), (2, 2)]),
    "jds-none": (P([2], [k2], ["e"]), None),
    "jds-int": (P([2], [k2], ["e"]), 5),
    "jds-ints": (P([2], [k2], ["e"]), [1, 2]),
    "jds-str": (P([2], [k2], ["e"]), ["11", "22"]),
    "jds-numpy": (P([2], [k2], ["e"]), np.array([[1], [2], [1]])),
    "jds-numpy2": (P([2, 3], [k2, spy(clique_motif, "K3")], ["e", "f"]), np.array([[1, 2], [2, 1], [1, 3]])),
    "jds-tuple": (P([2], [k2], ["e"]), ((1,), (1,))),
    "jds-dict": (P([2], [k2], ["e"]), {(1,): 1, (2,): 2}),
    "builder-raises": (P([2], [spy(lambda vs: 1 / 0, "boom")], ["e"]), [(1,), (1,)]),
    "builder-none": (P([2], [spy(lambda vs: None, "none")], ["e"]), [(1,), (1,)]),
    "builder-empty": (P([2], [spy(lambda vs: [], "nil")], ["e"]), [(1,), (1,), (2,)]),
    "builder-notcallable": (P([2], [7], ["e"]), [(1,), (1,)]),
    "builder-mutates": (P([3], [spy(lambda vs: [tuple(vs)] if vs.append(-1) is None else None, "mut")], ["e"]), [(2,), (2,), (3,)]),
    "builder-gen": (P([2], [spy(lambda vs: ((a, a) for a in vs), "gen")], ["e"]), [(1,), (1,)]),
    "name-unhashable": (P([2], [k2], [["x"]]), [(1,), (1,)]),
}
for name, (p, jds) in cases.items():
    run("case-" + name, p, jds)

# missing parameter keys
for drop in (N.MOTIF_SIZES, N.BUILD_FUNCTIONS, N.EDGE_NAMES):
    p = P([2], [k2], ["e"])
    del p[drop]
    run("missing-" + drop.value, p, [(1,), (1,)])
run("params-none", None, [(1,), (1,)])

# larger run through the factory, as the suite does
sizes = [2, 3]
jds = balance(make_jds(3000, 2, 4), sizes)
run("large", P(sizes, [clique_motif, clique_motif], ["2-clique", "3-clique"]), jds, kinds=("main-fast", "main-network"), reps=1)

emit("final-rng", rng_state(), repr(np.random.get_state()[1][:4].tolist()))
print("EXCEPTIONS", sorted(EXC_COUNTS.items()))
print("LINES", LINES)
print("DIGEST", H.hexdigest())
