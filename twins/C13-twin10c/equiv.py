import sys, os; sys.path.insert(0, os.getcwd())
import hashlib
import random

import networkx as nx
import numpy as np

from gcmpy.tools.joint_excess_joint_degree_matrices import JointExcessJointDegreeMatrices
from gcmpy.tools.joint_excess_joint_degree import JointExcessJointDegree
from gcmpy.tools.joint_excess_from_ejk import JointExcessFromEjk
from gcmpy.names.network_names import NetworkNames
from gcmpy.names.tools_names import ToolsNames

random.seed(1331)
np.random.seed(1331)


def rng_digest():
    a = hashlib.sha256(repr(random.getstate()).encode()).hexdigest()[:16]
    s = np.random.get_state()
    b = hashlib.sha256(repr((s[0], s[1].tolist(), s[2], s[3], s[4])).encode()).hexdigest()[:16]
    return a, b


def show(M, full=True):
    # raw order of every list: the order in which the set hands the keys out
    d = M.excess_degree_keys
    out = [(repr(t), type(v).__name__, list(v)) for t, v in d.items()]
    s = repr(out)
    if full and len(s) < 600:
        return type(d).__name__, out
    return type(d).__name__, len(s), hashlib.sha256(s.encode()).hexdigest()[:16], s[:160]


def run(label, ejks, names=("a", "b"), full=True):
    try:
        M = JointExcessJointDegreeMatrices({ToolsNames.EJKS: ejks, ToolsNames.EDGE_NAMES: list(names)})
    except BaseException as ex:
        print(label, "INIT_EXC", type(ex).__name__, repr(ex.args)[:100])
        # the same thing through the default constructor, to see the partial state
        M = JointExcessJointDegreeMatrices()
        M.ejks = ejks
        M.topology_names = list(names)
        try:
            M.get_excess_degree_keys()
        except BaseException as ex2:
            print(label, "CALL_EXC", type(ex2).__name__, show(M, full))
        return M
    print(label, show(M, full))
    r = M.get_excess_degree_keys()
    print(label, "again", r, show(M, full))
    return M


# --- hand-made ------------------------------------------------------------
run("empty", {})
run("empty_matrix", {"a": {}, "b": {}})
run("simple", {"a": {(0, 1, 1, 0): .5, (1, 0, 0, 1): .5}, "b": {(2, 2, 2, 2): 1.0}})
run("same_halves", {"a": {(3, 3): 1.0, (4, 4): 0.0, (3, 4): 0.0}})
run("empty_key", {"a": {(): 1.0}})
run("odd_len", {"a": {(1, 2, 3): 1.0, (7,): 0.5, (1, 2, 3, 4, 5): 0.1}})
M = JointExcessJointDegreeMatrices({ToolsNames.EJKS: {"a": {"abcd": 1, "xy": 2, "": 3, "abc": 4}}, ToolsNames.EDGE_NAMES: ["a"]})
print("string_keys (sorted: str hashes vary per process)", sorted(M.excess_degree_keys["a"]))
run("frozenset_key", {"a": {frozenset([1]): 1}})
# hash(-1) == hash(-2): the two halves collide, order of arrival decides
run("collide_12", {"a": {(-1, -2): 1.0}})
run("collide_21", {"a": {(-2, -1): 1.0}})
run("collide_many", {"a": {(-1, 0, -2, 0): 1, (-2, 0, -1, 0): 1, (0, -2, 0, -1): 1}, "b": {(0, -1, 0, -2): 1}})
run("num_equal", {"a": {(1, 1.0): 1, (True, 1): 2, (1.0, True): 3}})
run("nan", {"a": {(float("nan"), float("nan")): 1}})
# matrices given as plain iterables of keys
run("list_matrix", {"a": [(1, 2, 3, 4), (3, 4, 1, 2), [5, 6, 7, 8]], "b": ((0, 0),)})
run("gen_matrix", {"a": iter([(1, 2), (2, 1)])})
run("int_topologies", {0: {(1, 2): 1}, 1: {(2, 1): 1}}, names=(0, 1))
# error paths
run("unhashable_first_half", {"a": {(5, 5): 1}, "b": [([1], 2)], "c": {(9, 9): 1}})
run("unhashable_second_half", {"a": {(5, 5): 1}, "b": [(6, 6), (1, [2]), (7, 7)], "c": {(9, 9): 1}})
run("unhashable_both", {"b": [([1], [2])]})
run("non_iterable_key", {"a": {(1, 1): 1}, "b": {5: 1.0}})
run("none_key", {"a": {None: 1.0}})
run("matrix_none", {"a": None})
run("ejks_none", None)
run("ejks_list", [1, 2])
run("ejks_str_list", ["ab"])
try:
    JointExcessJointDegreeMatrices({ToolsNames.EJKS: {}})
except BaseException as ex:
    print("no_names", type(ex).__name__, repr(ex.args))
try:
    JointExcessJointDegreeMatrices({})
except BaseException as ex:
    print("no_ejks", type(ex).__name__, repr(ex.args))

# --- many random matrices (sizes that make the set grow several times) ----
for t in range(150):
    ntop = random.randint(1, 3)
    width = random.randint(0, 4)
    ejks = {}
    for i in range(ntop):
        m = {}
        lo = random.choice([-3, 0, 0, -40])
        hi = random.choice([2, 5, 40, 1000])
        for _ in range(random.choice([0, 1, 3, 8, 30, 200, 1500])):
            w = width if t % 4 else random.randint(0, 5)
            k = tuple(random.randint(lo, hi) for _ in range(2 * w + (t % 11 == 0)))
            m[k] = random.random()
        ejks["t%d" % i] = m
    M = run("rand%03d" % t, ejks, names=["t%d" % i for i in range(ntop)], full=False)
    if t % 10 == 0:
        # setter + repeated call on the same object with a different matrix set
        M.ejks = {"z": {(t, -1, -2, t): 1.0, (-2, t, t, -1): 1.0}}
        M.get_excess_degree_keys()
        print("rand%03d" % t, "reset", show(M))

# --- through the extractor and a consumer -----------------------------------
JD, TOP = NetworkNames.JOINT_DEGREE, NetworkNames.TOPOLOGY
for t in range(12):
    G = nx.gnp_random_graph(25, 0.2, seed=100 + t)
    names = ["p", "q"]
    for u, v in G.edges():
        G.edges[u, v][TOP] = random.choice(names)
    for n in G.nodes():
        G.nodes[n][JD] = tuple(sum(1 for nb in G[n] if G.edges[n, nb][TOP] == x) for x in names)
    M0 = JointExcessJointDegree({ToolsNames.NETWORK: G, ToolsNames.EDGE_NAMES: names}).get_ejks()
    M = run("net%02d" % t, M0.ejks, names=names, full=False)
    try:
        q = JointExcessFromEjk.get_excess_joint_distributions(M)
        print("net%02d" % t, "excess", [(repr(k), [(kk, float(vv).hex()) for kk, vv in v.items()][:3], len(v)) for k, v in q.items()])
    except BaseException as ex:
        print("net%02d" % t, "excess EXC", type(ex).__name__)

print("rng", rng_digest())
