import sys, os; sys.path.insert(0, os.getcwd())
import copy
import hashlib
import random
import re

import numpy as np

from gcmpy.gcm_algorithm.gcm_algorithm_fast import GCMAlgorithmFast
from gcmpy.gcm_algorithm.gcm_algorithm_network import GCMAlgorithmNetwork
from gcmpy.gcm_algorithm.gcm_algorithm_custom_motifs import GCMAlgorithmCustomMotifs
from gcmpy.gcm_algorithm.gcm_algorithm_main import GCMAlgorithmMain
from gcmpy.names.gcm_algorithm_names import GCMAlgorithmNames as N
from gcmpy.motif_generators.clique_motif import clique_motif

LINES = []


def rng_digest():
    s = repr(random.getstate()) + repr(np.random.get_state()[1].tobytes()) + repr(np.random.get_state()[2:])
    return hashlib.sha256(s.encode()).hexdigest()[:16]


def emit(tag, *parts):
    LINES.append(re.sub(r"0x[0-9a-fA-F]+", "0x?", tag + " | " + " | ".join(str(p) for p in parts)))


def show_edge_list(el, jds):
    return "EL(edges=%r, topo=%r, ids=%r, jd_is_arg=%r, jd=%r)" % (
        el.edge_list,
        el.topologies,
        el.motif_id,
        el.joint_degrees is jds,
        el.joint_degrees,
    )


def show_network(net):
    g = net.G if hasattr(net, "G") else net._G
    return "NET(nodes=%r, edges=%r)" % (
        sorted(g.nodes(data=True), key=lambda t: t[0]),
        sorted(((min(u, v), max(u, v), sorted((str(k), repr(x)) for k, x in d.items())) for u, v, d in g.edges(data=True))),
    )


def state_of(obj):
    return repr({k: repr(v) if not callable(v) else getattr(v, "__name__", "?") for k, v in sorted(vars(obj).items())})


def run(tag, seed, thunk, shower, watched=()):
    random.seed(seed)
    np.random.seed(seed % (2 ** 32))
    try:
        out = shower(thunk())
    except BaseException as e:  # noqa
        out = "EXC %s: %s" % (type(e).__name__, e)
    emit(tag, "seed=%d" % seed, out, "rng=" + rng_digest(), *[repr(w) for w in watched])


# ------------------------------------------------------------------ builders
CALLS = []


def rec_clique(vs):
    CALLS.append(("clique", type(vs).__name__, list(vs)))
    return clique_motif(vs)


def mutating_builder(vs):
    CALLS.append(("mut", type(vs).__name__, list(vs)))
    es = list(zip(vs, vs[1:]))
    vs.clear()
    return es


def strict_pair(vs):
    return [(vs[0], vs[1])]


def strict_triple(vs):
    return [(vs[0], vs[1]), (vs[0], vs[2]), (vs[1], vs[2])]


def boom(vs):
    raise RuntimeError("boom %r" % (vs,))


def rng_builder(vs):
    # consumes the global stream between placements
    random.random()
    return clique_motif(vs)


def fast_params(sizes, names, builders):
    return {N.MOTIF_SIZES: sizes, N.EDGE_NAMES: names, N.BUILD_FUNCTIONS: builders}


# ------------------------------------------------------------------ jds pool
def random_jds(rnd, n, k, hi):
    return [tuple(rnd.randint(0, hi) for _ in range(k)) for _ in range(n)]


rnd = random.Random(12345)
JDS_POOL = [
    [],
    [()],
    [(), ()],
    [(0,)],
    [(1,)],
    [(2,)],
    [(1,), (0,)],
    [(1,), (1,)],
    [(1,), (1,), (1,), (1,)],
    [(0, 0), (0, 0)],
    [(1, 0), (0, 1)],
    [(1, 1), (1, 1), (0, 1)],
    [(1, 0, 0), (0, 1, 0), (0, 0, 1)],
    [(2, 1), (1, 1), (3, 1), (2, 0), (0, 0), (1, 0), (1, 0)],
    [(-1,), (2,), (-3,), (2,)],
    [(1.0,), (1,)],
    [(1, 2), (3,)],
    [[1, 2], [3, 4]],
    [(True, False), (True, True)],
    [("a",), (1,)],
    [(None,)],
    [1, 2],
    None,
    5,
    "ab",
    ["12", "34"],
    np.array([[1, 2], [2, 1], [1, 0]]),
    np.zeros((0, 2), dtype=int),
    np.array([[1], [1], [1], [1]]),
    {(1, 1): 1, (2, 2): 2},
    ((1, 1), (1, 2), (2, 0)),
]
for n in (1, 2, 3, 4, 5, 7, 10, 25, 60):
    for k in (1, 2, 3):
        for hi in (1, 2, 4):
            JDS_POOL.append(random_jds(rnd, n, k, hi))

FAST_CONFIGS = [
    ("c2", [2], ["2-clique"], [rec_clique]),
    ("c23", [2, 3], ["2-clique", "3-clique"], [rec_clique, rec_clique]),
    ("c234", [2, 3, 4], ["a", "b", "c"], [rec_clique, rec_clique, rec_clique]),
    ("c1", [1], ["one"], [rec_clique]),
    ("big", [50], ["big"], [rec_clique]),
    ("strict", [2, 3], ["p", "t"], [strict_pair, strict_triple]),
    ("mut", [2, 3], ["p", "t"], [mutating_builder, mutating_builder]),
    ("boom", [2], ["p"], [boom]),
    ("rngb", [2, 3], ["p", "t"], [rng_builder, rng_builder]),
    ("zero", [0], ["z"], [rec_clique]),
    ("neg", [-2], ["z"], [rec_clique]),
    ("flt", [2.0], ["z"], [rec_clique]),
    ("short", [2], ["only"], [rec_clique]),
    ("nobuild", [2, 2], ["x", "y"], [rec_clique]),
    ("noname", [2, 2], ["x"], [rec_clique, rec_clique]),
    ("nonebuild", [2], ["x"], [None]),
    ("tuples", (2, 3), ("x", "y"), (rec_clique, rec_clique)),
    ("npsize", [np.int64(2), np.int64(3)], ["x", "y"], [rec_clique, rec_clique]),
    ("boolsize", [True], ["x"], [rec_clique]),
]


def fresh(j):
    try:
        return copy.deepcopy(j)
    except Exception:
        return j


# ------------------------------------------------------------------ fast
for cname, sizes, names, builders in FAST_CONFIGS:
    for ji, jds0 in enumerate(JDS_POOL):
        jds = fresh(jds0)
        del CALLS[:]
        alg = GCMAlgorithmFast(fast_params(sizes, names, builders))
        run(
            "fast/%s/%d" % (cname, ji),
            1000 + ji,
            lambda: alg.random_clustered_graph(jds),
            lambda el: show_edge_list(el, jds),
        )
        emit("  after", "jds=%r" % (jds,), "calls=%r" % (CALLS,), "state=" + state_of(alg))

# repeated calls on one object, without reseeding in between
alg = GCMAlgorithmFast(fast_params([2, 3], ["2-clique", "3-clique"], [rec_clique, rec_clique]))
random.seed(77)
np.random.seed(77)
for rep in range(40):
    jds = fresh(JDS_POOL[31 + rep])
    try:
        el = alg.random_clustered_graph(jds)
        out = show_edge_list(el, jds)
    except BaseException as e:  # noqa
        out = "EXC %s: %s" % (type(e).__name__, e)
    emit("fast/repeat/%d" % rep, out, "rng=" + rng_digest(), "state=" + state_of(alg))

# distribution-style run: four degree-1 vertices many times, one stream
random.seed(4242)
alg = GCMAlgorithmFast(fast_params([2], ["2-clique"], [clique_motif]))
hist = {}
for rep in range(3000):
    el = alg.random_clustered_graph([(1,), (1,), (1,), (1,)])
    key = repr(el.edge_list)
    hist[key] = hist.get(key, 0) + 1
emit("fast/matchings", sorted(hist.items()), "rng=" + rng_digest())

# ------------------------------------------------------------------ network + loader
for ji, jds0 in enumerate(JDS_POOL):
    jds = fresh(jds0)
    alg = GCMAlgorithmNetwork(fast_params([2, 3], ["2-clique", "3-clique"], [clique_motif, clique_motif]))
    run("network/%d" % ji, 2000 + ji, lambda: alg.random_clustered_graph(jds), show_network)
    emit("  after", "jds=%r" % (jds,), "state=" + state_of(alg))

for gtype in ("fast", "network", "motifs", "nope"):
    p = fast_params([2, 3], ["2-clique", "3-clique"], [clique_motif, clique_motif])
    p[N.GCM_TYPE] = gtype
    jds = fresh(JDS_POOL[13])

    def go():
        a = GCMAlgorithmMain.load_gcm_algorithm(p)
        return a.random_clustered_graph(jds)

    run(
        "loader/%s" % gtype,
        3000,
        go,
        lambda r: show_edge_list(r, jds) if hasattr(r, "edge_list") else show_network(r),
    )


# ------------------------------------------------------------------ custom motifs
def twoclique(vs):
    CALLS.append(("two", list(vs)))
    return (vs[0], vs[1])


def twoclique_names():
    return "2-clique"


def threeclique(vs):
    CALLS.append(("three", list(vs)))
    return (vs[0], vs[1]), (vs[0], vs[2]), (vs[1], vs[2])


def threeclique_names():
    return "3-clique", "3-clique", "3-clique"


def diamond(vs):
    CALLS.append(("diamond", list(vs)))
    return ((vs[0], vs[1]), (vs[1], vs[2]), (vs[2], vs[3]), (vs[3], vs[1]), (vs[0], vs[2]))


def diamond_names():
    return ("do", "do", "do", "do", "di")


def pentagon(vs):
    CALLS.append(("pent", list(vs)))
    return ((vs[0], vs[1]), (vs[1], vs[2]), (vs[2], vs[3]), (vs[3], vs[4]), (vs[0], vs[4]), (vs[1], vs[3]))


def pentagon_names():
    return "p01", "p12", "p23", "p34", "p40", "p13"


def loose_two(vs):
    CALLS.append(("loose", list(vs)))
    return list(zip(vs, vs[1:]))


def loose_names():
    return ["l"] * 3


def empty_builder(vs):
    CALLS.append(("empty", list(vs)))
    return []


def vs_mutator(vs):
    CALLS.append(("vmut", list(vs)))
    vs.reverse()
    return [(vs[0], vs[-1])]


def one_name():
    return ["m"]


PAPER_JDS = [
    (2, 1, 0, 1, 1, 0, 0),
    (1, 1, 0, 1, 1, 0, 0),
    (3, 1, 1, 0, 0, 1, 0),
    (2, 0, 1, 0, 0, 1, 0),
    (0, 0, 0, 1, 0, 0, 1),
    (1, 0, 0, 1, 0, 0, 0),
    (1, 0, 1, 0, 0, 0, 0),
    (1, 0, 1, 0, 0, 0, 0),
    (1, 0, 0, 1, 0, 0, 0),
    (1, 0, 0, 1, 0, 0, 0),
    (1, 0, 1, 0, 0, 0, 0),
    (0, 0, 1, 0, 0, 0, 0),
]


def custom_params(sizes, names, builders, indices):
    return {N.MOTIF_SIZES: sizes, N.EDGE_NAMES: names, N.BUILD_FUNCTIONS: builders, N.MOTIF_INDICES: indices}


PAPER = (
    [2, 3, 2, 2, 2, 2, 1],
    [twoclique_names, threeclique_names, diamond_names, pentagon_names],
    [twoclique, threeclique, diamond, pentagon],
    [[0], [1], [2, 3], [4, 5, 6]],
)

CUSTOM_CONFIGS = [
    ("paper", PAPER),
    ("two", ([2], [twoclique_names], [twoclique], [[0]])),
    ("two3", ([2, 3], [twoclique_names, threeclique_names], [twoclique, threeclique], [[0], [1]])),
    ("swapidx", ([2, 3], [threeclique_names, twoclique_names], [threeclique, twoclique], [[1], [0]])),
    ("shared", ([2, 2], [twoclique_names, twoclique_names], [twoclique, twoclique], [[0], [0]])),
    ("negidx", ([2, 3], [twoclique_names, threeclique_names], [twoclique, threeclique], [[-2], [-1]])),
    ("oob", ([2], [twoclique_names], [twoclique], [[5]])),
    ("emptyidx", ([2], [twoclique_names], [twoclique], [[]])),
    ("noidx", ([2], [twoclique_names], [twoclique], [])),
    ("loose", ([2, 1], [loose_names], [loose_two], [[0, 1]])),
    ("loose2", ([1, 2], [loose_names], [loose_two], [[0, 1]])),
    ("empty", ([2], [one_name], [empty_builder], [[0]])),
    ("vmut", ([2], [one_name], [vs_mutator], [[0]])),
    ("zero", ([0], [twoclique_names], [twoclique], [[0]])),
    ("neg", ([-2], [twoclique_names], [twoclique], [[0]])),
    ("flt", ([2.0], [twoclique_names], [twoclique], [[0]])),
    ("huge", ([10 ** 400], [twoclique_names], [twoclique], [[0]])),
    ("npsz", ([np.int64(2), np.int64(3)], [twoclique_names, threeclique_names], [twoclique, threeclique], [[0], [1]])),
    ("one", ([1], [one_name], [vs_mutator], [[0]])),
    ("shortsz", ([2], [twoclique_names, threeclique_names], [twoclique, threeclique], [[0], [1]])),
    ("boomc", ([2], [twoclique_names], [boom], [[0]])),
    ("stridx", ([2], [twoclique_names], [twoclique], [["0"]])),
    ("tupidx", ((2, 3), (twoclique_names, threeclique_names), (twoclique, threeclique), ((0,), (1,)))),
]

CUSTOM_JDS = [PAPER_JDS] + JDS_POOL

for cname, (sizes, names, builders, indices) in CUSTOM_CONFIGS:
    for ji, jds0 in enumerate(CUSTOM_JDS):
        jds = fresh(jds0)
        del CALLS[:]
        try:
            alg = GCMAlgorithmCustomMotifs(custom_params(sizes, names, builders, indices))
        except BaseException as e:  # noqa
            emit("custom/%s/%d" % (cname, ji), "CTOR EXC %s: %s" % (type(e).__name__, e))
            continue
        run(
            "custom/%s/%d" % (cname, ji),
            5000 + ji,
            lambda: alg.random_clustered_graph(jds),
            lambda el: show_edge_list(el, jds),
        )
        emit("  after", "jds=%r" % (jds,), "calls=%r" % (CALLS,), "state=" + state_of(alg))

# constructor error path
for bad in ({}, {N.MOTIF_INDICES: [[0]]}, None):
    try:
        GCMAlgorithmCustomMotifs(bad)
        out = "ok"
    except BaseException as e:  # noqa
        out = "EXC %s: %s" % (type(e).__name__, e)
    emit("custom/ctor", repr(bad), out)

# repeated calls on one object, one stream
alg = GCMAlgorithmCustomMotifs(custom_params(*PAPER))
random.seed(99)
np.random.seed(99)
for rep in range(30):
    jds = fresh(PAPER_JDS)
    rnd2 = random.Random(rep)
    rnd2.shuffle(jds)
    del CALLS[:]
    try:
        el = alg.random_clustered_graph(jds)
        out = show_edge_list(el, jds)
    except BaseException as e:  # noqa
        out = "EXC %s: %s" % (type(e).__name__, e)
    emit("custom/repeat/%d" % rep, out, "calls=%r" % (CALLS,), "rng=" + rng_digest(), "state=" + state_of(alg))

# four degree-1 vertices many times through the custom generator
random.seed(31337)
alg = GCMAlgorithmCustomMotifs(custom_params([2], [twoclique_names], [lambda vs: (vs[0], vs[1])], [[0]]))
hist = {}
for rep in range(3000):
    el = alg.random_clustered_graph([(1,), (1,), (1,), (1,)])
    key = repr(el.edge_list)
    hist[key] = hist.get(key, 0) + 1
emit("custom/matchings", sorted(hist.items()), "rng=" + rng_digest())

# ------------------------------------------------------------------ partition directly
alg = GCMAlgorithmCustomMotifs(custom_params(*PAPER))
PART_LISTS = [
    [],
    [1],
    [1, 2],
    [1, 2, 3],
    list(range(10)),
    list(range(11)),
    (1, 2, 3, 4, 5),
    "abcdefg",
    b"abcdefg",
    bytearray(b"abcde"),
    range(7),
    np.arange(7),
    np.arange(12).reshape(4, 3),
    np.array([]),
    [[1], [2], [3]],
    {1: 2, 3: 4},
    {1, 2, 3},
    None,
    5,
    iter([1, 2, 3]),
    memoryview(b"abcdef"),
]
PART_NS = [1, 2, 3, 4, 5, 7, 10, 11, 12, 100, 0, -1, -3, 2.0, 2.5, True, False, None, "2", np.int64(3), np.int32(-2), np.float64(2.0), 10 ** 30, -(10 ** 30), [2]]
random.seed(5)
for li, lst in enumerate(PART_LISTS):
    for n in PART_NS:
        before = repr(lst)
        try:
            res = alg.partition(lst, n)
            out = repr(res) + " types=" + repr([type(x).__name__ for x in res])
            if isinstance(lst, list):
                out += " fresh=" + repr(all(x is not lst for x in res))
        except BaseException as e:  # noqa
            out = "EXC %s: %s" % (type(e).__name__, e)
        emit("partition/%d/%r" % (li, n), out, "unchanged=%r" % (repr(lst) == before), "rng=" + rng_digest())

text = "\n".join(LINES)
print("lines", len(LINES))
print("sha256", hashlib.sha256(text.encode()).hexdigest())
print(text)
