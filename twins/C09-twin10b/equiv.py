import sys, os; sys.path.insert(0, os.getcwd())
import hashlib
import random
import signal

import networkx as nx
import numpy as np

from gcmpy.covers.eecc import EECC, binom
from gcmpy.network.network import Network


def _alarm(signum, frame):
    raise RuntimeError("equiv.py safety timeout")


signal.signal(signal.SIGALRM, _alarm)


def rng_digest():
    h = hashlib.sha256()
    h.update(repr(random.getstate()).encode())
    st = np.random.get_state()
    h.update(repr((st[0], st[1].tolist(), st[2], st[3], st[4])).encode())
    return h.hexdigest()[:16]


def graph_digest(net):
    G = net.G
    try:
        return (type(G).__name__, list(G.nodes()), list(G.edges()))
    except Exception as exc:  # noqa
        return ("?", type(exc).__name__)


def call(label, fn, *args):
    signal.alarm(60)
    try:
        out = ("ok", fn(*args))
    except Exception as exc:  # noqa
        out = ("exc", type(exc).__name__)
    finally:
        signal.alarm(0)
    print(label, repr(out), rng_digest())
    return out


def make(edges, m0=None, one_by_one=False):
    g = EECC()
    if m0 is not None:
        g.set_max_clique_size(m0)
    if one_by_one:
        for e in edges:
            g.add_edge(e)
    else:
        g.add_edges_from(edges)
    return g


def run_cover(label, edges, m0, one_by_one=False):
    g = make(edges, m0, one_by_one)
    print(label, "has_edges", g.has_edges())
    call(label + " lmc", g.limited_maximal_cliques)
    call(label + " cover1", g.get_EECC)
    print(label, "after1", graph_digest(g), g.has_edges())
    call(label + " cover2", g.get_EECC)
    print(label, "after2", graph_digest(g), g.has_edges())
    return g


random.seed(20261004)
np.random.seed(20261004)
gen = random.Random(99)

# ---- the suite's network, every bound ----
SUITE = [(1, 2), (1, 14), (2, 4), (2, 13), (2, 14), (3, 4), (3, 5), (4, 5), (4, 13),
         (4, 14), (6, 7), (6, 13), (7, 8), (7, 13), (8, 9), (8, 13), (9, 10), (9, 11),
         (9, 13), (10, 11), (11, 12), (12, 13), (13, 14)]
for m0 in (2, 3, 4, 5, 9):
    for rep in range(3):
        run_cover(f"suite m0={m0} rep={rep}", SUITE, m0, one_by_one=True)

# ---- random graphs, many densities and bounds ----
for t in range(140):
    n = gen.randrange(2, 13)
    p = gen.choice([0.15, 0.3, 0.5, 0.7, 0.9, 1.0])
    nodes = list(range(n))
    gen.shuffle(nodes)
    edges = [(u, v) for i, u in enumerate(nodes) for v in nodes[i + 1:] if gen.random() < p]
    if gen.random() < 0.3:
        edges = [(v, u) for u, v in edges]
    gen.shuffle(edges)
    m0 = gen.choice([2, 2, 3, 3, 4, 5, 6, 20])
    run_cover(f"rand{t} n={n} p={p} m0={m0}", edges, m0, one_by_one=bool(t % 2))

# ---- structured graphs with many ties ----
for name, G0 in [
    ("K6", nx.complete_graph(6)), ("K7", nx.complete_graph(7)), ("C8", nx.cycle_graph(8)),
    ("P5", nx.path_graph(5)), ("star", nx.star_graph(6)), ("wheel", nx.wheel_graph(7)),
    ("K33", nx.complete_bipartite_graph(3, 3)), ("lollipop", nx.lollipop_graph(5, 3)),
    ("barbell", nx.barbell_graph(4, 2)), ("octa", nx.octahedral_graph()),
    ("caveman", nx.caveman_graph(3, 4)), ("ring_cliques", nx.ring_of_cliques(4, 4)),
    ("turan", nx.turan_graph(8, 4)), ("petersen", nx.petersen_graph()),
    ("ladder", nx.circular_ladder_graph(5)), ("windmill", nx.windmill_graph(4, 4)),
]:
    for m0 in (2, 3, 4, 5):
        run_cover(f"{name} m0={m0}", list(G0.edges()), m0)

# ---- string nodes, tuple nodes ----
run_cover("strings", [("a", "b"), ("b", "c"), ("a", "c"), ("c", "d"), ("d", "e"), ("c", "e"), ("b", "d")], 3)
run_cover("tuples", [((0, 1), (0, 2)), ((0, 2), (1, 1)), ((0, 1), (1, 1)), ((1, 1), (2, 2))], 3)

# ---- edge cases and error paths ----
run_cover("empty", [], 3)
run_cover("single", [(0, 1)], 2)
run_cover("dup edges", [(0, 1), (1, 0), (0, 1), (1, 2), (2, 0)], 3)
run_cover("selfloop only", [(0, 0)], 2)
run_cover("selfloop + tri", [(0, 1), (1, 2), (0, 2), (2, 2), (2, 3)], 3)
run_cover("mixed types", [(0, "a"), ("a", 1), (0, 1), (1, 2)], 3)
run_cover("m0=1", [(0, 1), (1, 2), (0, 2)], 1)
run_cover("m0=0", [(0, 1), (1, 2), (0, 2)], 0)
run_cover("m0=-1", [(0, 1), (1, 2), (0, 2)], -1)
run_cover("m0=2.5", [(0, 1), (1, 2), (0, 2)], 2.5)
run_cover("m0=None", [(0, 1), (1, 2), (0, 2)], None)
run_cover("m0=str", [(0, 1), (1, 2), (0, 2)], "3")
run_cover("m0 default", [(0, 1), (1, 2), (0, 2), (2, 3)], None)
run_cover("weighted 3-tuples", [(0, 1, {"weight": 2.0}), (1, 2, {"weight": 0.0}), (0, 2, {"weight": -1})], 3)

# ---- one object: cover, refill, cover again, change bound ----
g = make(list(nx.complete_graph(5).edges()), 3)
for rnd in range(4):
    call(f"reuse round {rnd}", g.get_EECC)
    print("reuse has_edges", g.has_edges(), graph_digest(g))
    g.add_edges_from(list(nx.wheel_graph(6).edges()))
    g.add_edge((rnd, rnd + 7))
    print("reuse refilled has_edges", g.has_edges(), g.has_edges())
    g.set_max_clique_size(2 + rnd)

# ---- Network primitives directly ----
net = Network()
print("net empty", net.has_edges(), graph_digest(net))
net.add_edge((1, 2))
print("net one", net.has_edges())
net.remove_edge(2, 1)
print("net removed", net.has_edges(), graph_digest(net))
net.remove_edge(2, 1)
net.remove_edge(5, 6)
print("net removed absent", net.has_edges(), graph_digest(net))
net.add_edge((3, 3))
print("net selfloop", net.has_edges(), net.find_cliques())
net.remove_edge(3, 3)
print("net selfloop removed", net.has_edges())
net.add_edges_from([(0, 1), (1, 2), (2, 0), (2, 2)])
print("net tri+loop", net.has_edges(), sorted(map(sorted, net.find_cliques())))
for G0, loop in [(cls(), lp) for cls in (nx.Graph, nx.DiGraph, nx.MultiGraph, nx.MultiDiGraph) for lp in ([], [(1, 1)])]:
    net = Network()
    net.G = G0
    seq = [net.has_edges()]
    net.add_edges_from([(0, 1), (1, 0), (0, 1)] + loop)
    seq.append(net.has_edges())
    for _ in range(4):
        net.remove_edge(0, 1)
        seq.append(net.has_edges())
        net.remove_edge(1, 0)
        seq.append(net.has_edges())
    net.remove_edge(1, 1)
    seq.append(net.has_edges())
    print("setter", type(G0).__name__, seq, graph_digest(net))
net = Network()
net.G = nx.freeze(nx.path_graph(3))
print("frozen", net.has_edges())
net.G = nx.subgraph_view(nx.path_graph(4), filter_edge=lambda u, v: False)
print("view none", net.has_edges())
net.G = nx.subgraph_view(nx.path_graph(4), filter_node=lambda n: n < 2)
print("view some", net.has_edges())
for bad in (None, 3, [(0, 1)], {}):
    net = Network()
    net.G = bad
    call(f"bad G {type(bad).__name__}", net.has_edges)

# ---- compute_scores called directly ----
def scores(label, C, m0=3):
    g = make([(0, 1)], m0)
    EC, idx = [], []
    ordl, r = [0] * len(C), [0.0] * len(C)
    out = call(label, g.compute_scores, C, EC, ordl, r, idx)
    print(label, "state", C, EC, ordl, [x.hex() if isinstance(x, float) else x for x in r], idx)


scores("cs empty", [])
scores("cs disjoint", [[3, 1, 2], [6, 5, 4], [7, 8]])
scores("cs overlap", [[0, 1, 2], [1, 2, 3], [2, 3, 4], [9, 8]])
scores("cs big", [list(range(k, k + 7)) for k in range(0, 12, 2)])
scores("cs strings", ["cab", "bcd", "xy"])
scores("cs tuples", [(2, 1, 0), (3, 2, 1, 0), (5, 4)])
scores("cs singleton/empty rows", [[1], [], [1, 2, 3]])
scores("cs unsortable", [[1, "a", 2], [1, 2]])
scores("cs nonsized", [5, [1, 2]])
scores("cs huge", [list(range(40)), list(range(35, 60)), [0, 39, 41]])
g = make([(0, 1)], 3)
call("cs short lists", g.compute_scores, [[1, 2, 3], [2, 3, 4]], [], [0], [0.0], [])
call("cs int scores", g.compute_scores, [[1, 2, 3], [2, 3, 4]], [], [0, 0], [0, 0], [])

# ---- binom ----
print("binom", [binom(n, k) for n in range(0, 12) for k in range(0, n + 1)][:80], binom(60, 2), binom(3, 5), binom(-3, 2))
print("final", rng_digest())
