"""
Differential digest for the C09 commit (gcmpy/covers/eecc.py, gcmpy/network/network.py).

Run with cwd = a checkout of gcmpy.  Exercises every function the commit touched
through its PRE-EXISTING signature only:
  EECC.compute_scores(C, EC, ord, r, indexes)   (5 positional arguments)
  EECC.get_EECC()                               (calls compute_scores)
plus the untouched neighbours they rely on (limited_maximal_cliques, has_edges, G).
Nothing new (common_neighbours, shared_edges, shared=) is used.
Prints a deterministic digest: bit-exact floats via repr, exception types, mutated
inputs, working graph afterwards, RNG state afterwards.
"""
import copy
import hashlib
import os
import random
import sys
import warnings

warnings.filterwarnings("ignore")
sys.path.insert(0, os.getcwd())

import networkx as nx  # noqa: E402
import numpy as np  # noqa: E402

from gcmpy.covers.eecc import EECC  # noqa: E402

LINES = []


def out(*parts):
    line = " ".join(str(p) for p in parts)
    LINES.append(line)
    print(line)


def rng_state():
    h = hashlib.sha256()
    h.update(repr(random.getstate()).encode())
    st = np.random.get_state()
    h.update(repr((st[0], st[1].tolist(), st[2], st[3], repr(st[4]))).encode())
    return h.hexdigest()[:16]


def graph_digest(g):
    try:
        nodes = sorted(g.G.nodes(), key=repr)
        edges = sorted((tuple(sorted(e, key=repr)) for e in g.G.edges()), key=repr)
        return "nodes=%r edges=%r" % (nodes, edges)
    except Exception as exc:  # pragma: no cover
        return "graph-error %s" % type(exc).__name__


def build(edges, m0=None, nodes=()):
    g = EECC()
    for n in nodes:
        g.G.add_node(n)
    g.add_edges_from(list(edges))
    if m0 is not None:
        g.set_max_clique_size(m0)
    return g


def seed_all(seed):
    random.seed(seed)
    np.random.seed(seed)


# ---------------------------------------------------------------- compute_scores
def run_scores(label, g, C, EC=None, ord_=None, r=None, indexes=None):
    """One call through the old 5-argument signature; everything mutable is reported."""
    C = copy.deepcopy(C)
    EC = [] if EC is None else EC
    ord_ = [0] * len(C) if ord_ is None else ord_
    r = [0.0] * len(C) if r is None else r
    indexes = [] if indexes is None else indexes
    before = rng_state()
    try:
        ret = g.compute_scores(C, EC, ord_, r, indexes)
        res = "ret=%r" % (ret,)
    except Exception as exc:
        res = "EXC %s" % type(exc).__name__
    out("scores", label, res)
    out("   C=%r" % (C,))
    out("   EC=%r" % (EC,))
    out("   ord=%r" % (ord_,))
    out("   r=%s" % "[" + ", ".join(repr(x) for x in r) + "]")
    out("   r_types=%r" % ([type(x).__name__ for x in r],))
    out("   indexes=%r" % (indexes,))
    out("   rng_unchanged=%r" % (before == rng_state(),), graph_digest(g))
    return C, EC, ord_, r, indexes


def scores_section():
    bowtie0 = [(0, 1), (0, 2), (1, 2), (1, 3), (2, 3)]
    bowtie1 = [(u + 1, v + 1) for u, v in bowtie0]
    wheel = [(0, i) for i in range(1, 7)] + [(i, i % 6 + 1) for i in range(1, 7)]
    k5 = [(a, b) for a in range(5) for b in range(a + 1, 5)]

    # the intended use: C = limited maximal cliques of the working graph
    for name, edges in [("bowtie0", bowtie0), ("bowtie1", bowtie1), ("wheel0", wheel),
                        ("k5", k5), ("k5+tail", k5 + [(4, 5), (5, 6), (4, 6), (6, 7)])]:
        for m0 in (2, 3, 4, 6):
            g = build(edges, m0)
            C = g.limited_maximal_cliques()
            run_scores("%s m0=%d lmc" % (name, m0), g, C)

    for gseed in range(12):
        n = 6 + gseed
        gr = nx.gnp_random_graph(n, 0.45, seed=gseed)
        edges = sorted(gr.edges())
        for m0 in (3, 4, 5):
            g = build(edges, m0)
            run_scores("gnp%d m0=%d lmc" % (gseed, m0), g, g.limited_maximal_cliques())

    # string labels and negative / falsy labels
    g = build([("a", "b"), ("b", "c"), ("a", "c"), ("c", "d"), ("b", "d"), ("", "a"), ("", "b")], 3)
    run_scores("string labels", g, g.limited_maximal_cliques())
    g = build([(-1, 0), (0, 1), (-1, 1), (1, 2), (0, 2), (2, 3)], 3)
    run_scores("negative labels", g, g.limited_maximal_cliques())
    g = build([(0.0, 1.5), (1.5, 2.5), (0.0, 2.5), (2.5, 3.5), (1.5, 3.5)], 3)
    run_scores("float labels", g, g.limited_maximal_cliques())

    # C that is NOT the clique list of the working graph
    g = build(bowtie0, 3)
    run_scores("subset of cliques: single triangle", g, [[0, 1, 2]])
    run_scores("subset of cliques: other triangle", g, [[3, 2, 1]])
    run_scores("both triangles unsorted", g, [[2, 1, 0], [3, 1, 2]])
    run_scores("duplicate clique in C", g, [[0, 1, 2], [0, 1, 2]])
    run_scores("duplicate as tuple", g, [(0, 1, 2), [2, 1, 0], (1, 3)])
    run_scores("triangle and its own edge", g, [[0, 1, 2], [0, 1]])
    run_scores("sets as cliques", g, [{0, 1, 2}, {1, 2, 3}])
    run_scores("empty C", g, [])
    run_scores("only pairs", g, [[1, 0], [2, 3]])
    run_scores("singletons and empties", g, [[5], [], [0, 1, 2]])
    run_scores("repeated vertex in clique", g, [[1, 1, 2], [1, 2, 3]])
    run_scores("vertices absent from the graph", g, [[10, 11, 12], [11, 12, 13], [20, 21]])
    run_scores("clique of a different graph", g, [[0, 1, 2, 3], [0, 1, 4], [2, 3, 5, 6]])

    e = EECC()
    run_scores("empty graph, cliques given", e, [[1, 2, 3], [2, 3, 4], [7, 8, 9]])
    run_scores("empty graph, empty C", e, [])

    # graph with isolated vertices and self loop
    g = build(bowtie0 + [(3, 3)], 3, nodes=[9, 10])
    run_scores("self loop + isolated nodes lmc", g, g.limited_maximal_cliques())

    # stale C: edges removed after the cliques were computed
    g = build(wheel, 3)
    C = g.limited_maximal_cliques()
    g.remove_edge(0, 1)
    g.remove_edge(1, 2)
    run_scores("stale C after removals", g, C)
    run_scores("fresh C after removals", g, g.limited_maximal_cliques())

    # pre-populated accumulators, int r as used inside get_EECC's loop
    g = build(wheel, 3)
    C = g.limited_maximal_cliques()
    run_scores("int r", g, C, r=[0] * len(C))
    run_scores("pre-populated r/EC/indexes", g, C, EC=[["x"]], r=[0.25] * len(C), indexes=[99],
               ord_=[7] * len(C))
    run_scores("negative start r", g, C, r=[-1.0 / 3] * len(C))

    # error paths
    run_scores("ord too short", g, C, ord_=[0])
    run_scores("r too short", g, C, r=[0.0])
    run_scores("r empty", g, C, r=[])
    run_scores("unhashable vertices", g, [[[1], [2], [3]], [[1], [2], [4]]])
    run_scores("unorderable vertices", g, [[1, "a", 2], [1, 2, 3]])
    run_scores("None clique", g, [None, [1, 2, 3]])
    run_scores("int clique", g, [[0, 1, 2], 5])
    run_scores("C is None", g, None, ord_=[], r=[])
    run_scores("EC is a tuple", g, [[0, 1], [1, 2]], EC=())
    run_scores("indexes is None", g, [[0, 1], [1, 2]], indexes=None)
    try:
        g.compute_scores([[0, 1]], [], [0], [0.0], None)
        out("indexes None -> no exception")
    except Exception as exc:
        out("indexes None -> EXC", type(exc).__name__)
    try:
        g.compute_scores([[0, 1]], [], [0], [0.0])
        out("4 args -> no exception")
    except Exception as exc:
        out("4 args -> EXC", type(exc).__name__)

    # repeated calls on one object with the same accumulators
    g = build(k5 + [(4, 5), (5, 6), (4, 6)], 3)
    C = g.limited_maximal_cliques()
    state = run_scores("repeat 1", g, C)
    state = run_scores("repeat 2 (same accumulators)", g, *state)
    run_scores("repeat 3 (same accumulators)", g, *state)

    # replaced graph objects through the G setter
    g = EECC()
    g.G = nx.complete_graph(4)
    g.set_max_clique_size(3)
    run_scores("G setter complete graph", g, g.limited_maximal_cliques())
    g = EECC()
    g.G = nx.MultiGraph([(0, 1), (0, 1), (1, 2), (0, 2), (2, 3), (1, 3)])
    g.set_max_clique_size(3)
    run_scores("G setter multigraph", g, g.limited_maximal_cliques())


# ---------------------------------------------------------------------- get_EECC
def run_cover(label, g, seed):
    seed_all(seed)
    try:
        cover = g.get_EECC()
        res = "cover=%r" % (cover,)
    except Exception as exc:
        res = "EXC %s" % type(exc).__name__
    out("cover", label, "seed=%d" % seed, res)
    out("   rng=%s" % rng_state(), graph_digest(g), "m0=%r" % (g._m0,))


def cover_section():
    bowtie0 = [(0, 1), (0, 2), (1, 2), (1, 3), (2, 3)]
    bowtie1 = [(u + 1, v + 1) for u, v in bowtie0]
    wheel = [(0, i) for i in range(1, 7)] + [(i, i % 6 + 1) for i in range(1, 7)]
    k6 = [(a, b) for a in range(6) for b in range(a + 1, 6)]
    test_graph = [
        (1, 2), (1, 3), (2, 3), (2, 4), (3, 4), (4, 5), (4, 6), (5, 6), (5, 7), (6, 7),
        (6, 8), (7, 8), (5, 8), (8, 9), (9, 10), (9, 11), (10, 11), (10, 12), (11, 12),
        (9, 12), (12, 13), (13, 14), (12, 14),
    ]
    shapes = [("bowtie0", bowtie0), ("bowtie1", bowtie1), ("wheel0", wheel), ("k6", k6),
              ("testgraph", test_graph), ("path", [(0, 1), (1, 2), (2, 3)]),
              ("single edge", [(0, 1)]), ("star0", [(0, i) for i in range(1, 6)]),
              ("strings", [("a", "b"), ("b", "c"), ("a", "c"), ("c", "d"), ("b", "d"), ("", "a"), ("", "b")])]
    for name, edges in shapes:
        for m0 in (2, 3, 4, 6):
            for seed in (0, 1, 2):
                run_cover("%s m0=%d" % (name, m0), build(edges, m0), seed)

    for gseed in range(25):
        n = 5 + gseed % 11
        p = (0.3, 0.45, 0.6, 0.8)[gseed % 4]
        gr = nx.gnp_random_graph(n, p, seed=gseed)
        edges = sorted(gr.edges())
        shift = sorted((u + 1, v + 1) for u, v in edges)
        for m0 in (2, 3, 4, 5):
            for seed in (0, 7):
                run_cover("gnp%d(n=%d,p=%.2f) m0=%d" % (gseed, n, p, m0), build(edges, m0), seed)
            run_cover("gnp%d shifted m0=%d" % (gseed, m0), build(shift, m0), 3)

    for gseed in range(6):
        gr = nx.barabasi_albert_graph(14, 3, seed=gseed)
        run_cover("ba%d m0=3" % gseed, build(sorted(gr.edges()), 3), gseed)
        gr = nx.relabel_nodes(nx.watts_strogatz_graph(12, 4, 0.2, seed=gseed), lambda x: x - 3)
        run_cover("ws%d labels from -3 m0=4" % gseed, build(sorted(gr.edges()), 4), gseed)

    # default m0, empty graph, isolated nodes
    run_cover("default m0 bowtie0", build(bowtie0), 0)
    run_cover("empty graph", EECC(), 0)
    run_cover("isolated nodes + triangle", build([(0, 1), (1, 2), (0, 2)], 3, nodes=[7, 8]), 0)

    # error paths
    run_cover("m0=1", build(bowtie0, 1), 0)
    run_cover("m0=0", build([(0, 1)], 0), 0)
    run_cover("m0 None", _with_m0(bowtie0, None), 0)
    run_cover("m0 string", _with_m0(bowtie0, "3"), 0)
    run_cover("unorderable labels", build([(0, "a"), ("a", 1), (0, 1)], 3), 0)
    d = EECC()
    d.G = nx.DiGraph([(0, 1), (1, 2)])
    run_cover("directed graph via setter", d, 0)
    m = EECC()
    m.G = nx.MultiGraph([(0, 1), (0, 1), (1, 2), (0, 2), (2, 3), (1, 3)])
    m.set_max_clique_size(3)
    run_cover("multigraph via setter", m, 0)

    # repeated calls on one object: second call on the emptied graph, then refill
    g = build(wheel, 3)
    run_cover("repeat: first", g, 5)
    run_cover("repeat: second (graph emptied)", g, 5)
    g.add_edges_from(bowtie0)
    g.set_max_clique_size(4)
    run_cover("repeat: refilled", g, 5)
    g.add_edge((0, 9))
    run_cover("repeat: one more edge", g, 5)

    # one RNG stream across several objects (no reseeding in between)
    seed_all(11)
    for name, edges in shapes[:5]:
        g = build(edges, 3)
        try:
            out("stream", name, repr(g.get_EECC()), rng_state())
        except Exception as exc:
            out("stream", name, "EXC", type(exc).__name__, rng_state())


def _with_m0(edges, m0):
    g = build(edges)
    g.set_max_clique_size(m0)
    return g


def main():
    seed_all(12345)
    scores_section()
    cover_section()
    out("final rng", rng_state())
    print("DIGEST", hashlib.sha256("\n".join(LINES).encode()).hexdigest())


if __name__ == "__main__":
    main()
