"""
Behavioural digest for C03 (stub matching of the GCM generators).

Run with cwd = a checkout of gcmpy.  Prints a deterministic digest of
results (repr, bit exact floats), exceptions, RNG states and mutated inputs
for GCMAlgorithmFast / GCMAlgorithmCustomMotifs (and the callers that wrap them).
Set EQUIV_DEBUG=1 to additionally enable DEBUG logging on stderr (stdout must
not change).
"""

import copy
import hashlib
import logging
import os
import random
import sys

sys.path.insert(0, os.getcwd())

import numpy as np  # noqa: E402

if os.environ.get("EQUIV_DEBUG"):
    logging.basicConfig(level=logging.DEBUG, stream=sys.stderr)

from gcmpy.gcm_algorithm.gcm_algorithm_fast import GCMAlgorithmFast  # noqa: E402
from gcmpy.gcm_algorithm.gcm_algorithm_custom_motifs import (  # noqa: E402
    GCMAlgorithmCustomMotifs,
)
from gcmpy.gcm_algorithm.gcm_algorithm_factory import GCMAlgorithmFactory  # noqa: E402
from gcmpy.gcm_algorithm.gcm_algorithm_types import GCMAlgorithmTypes  # noqa: E402
from gcmpy.gcm_algorithm.gcm_algorithm_network import GCMAlgorithmNetwork  # noqa: E402
from gcmpy.names.gcm_algorithm_names import GCMAlgorithmNames as N  # noqa: E402
from gcmpy.motif_generators.clique_motif import clique_motif  # noqa: E402


def h(obj) -> str:
    return hashlib.sha256(repr(obj).encode()).hexdigest()[:16]


def rng_digest() -> str:
    return h(random.getstate()) + "/" + h(
        tuple(
            x.tolist() if hasattr(x, "tolist") else x for x in np.random.get_state()
        )
    )


def seed(s: int) -> None:
    random.seed(s)
    np.random.seed(s)


def show_edge_list(tag, el, jds=None, full=True):
    if full:
        print(tag, "edges", repr(el.edge_list))
        print(tag, "topologies", repr(el.topologies))
        print(tag, "motif_id", repr(el.motif_id))
    else:
        print(
            tag,
            "digest",
            len(el.edge_list),
            h(el.edge_list),
            len(el.topologies),
            h(el.topologies),
            len(el.motif_id),
            h(el.motif_id),
        )
    print(tag, "types", type(el).__name__, type(el.edge_list).__name__,
          sorted(vars(el).keys()))
    if jds is not None:
        print(tag, "jds is same object", el.joint_degrees is jds)
    if isinstance(el.joint_degrees, (list, tuple, np.ndarray)) or el.joint_degrees is None:
        print(tag, "jds", h(el.joint_degrees))
    else:
        # repr of other objects (generators) contains a memory address
        print(tag, "jds type", type(el.joint_degrees).__name__)


def attempt(tag, fn):
    """Run fn, print result or exception, and RNG state afterwards."""
    try:
        out = fn()
    except BaseException as e:  # noqa: BLE001
        print(tag, "EXC", type(e).__name__, repr(str(e)))
        out = None
    print(tag, "rng", rng_digest())
    return out


CALLS = []


def recording_clique(vs):
    CALLS.append((type(vs).__name__, tuple(vs)))
    return list(clique_motif(vs))


def tuple_clique(vs):
    return tuple(clique_motif(vs))


def drawing_clique(vs):
    # the builder itself consumes random numbers: draw order matters
    CALLS.append(("draw", tuple(vs), repr(random.random())))
    return clique_motif(vs)


def mutating_builder(vs):
    # mutates the list that it is handed
    vs.reverse()
    return clique_motif(vs)


def failing_builder(vs):
    raise RuntimeError("builder failed on %r" % (vs,))


def empty_builder(vs):
    return []


def fast_params(sizes, names, builders):
    return {N.MOTIF_SIZES: sizes, N.EDGE_NAMES: names, N.BUILD_FUNCTIONS: builders}


# --------------------------------------------------------------------------
# GCMAlgorithmFast
# --------------------------------------------------------------------------
def section_fast():
    print("== fast: four degree-1 vertices, matching frequencies")
    counts = {}
    alg = GCMAlgorithmFast(fast_params([2], ["2-clique"], [clique_motif]))
    jds = [(1,), (1,), (1,), (1,)]
    seed(12345)
    for _ in range(600):
        el = alg.random_clustered_graph(jds)
        key = tuple(sorted(tuple(sorted(e)) for e in el.edge_list))
        counts[key] = counts.get(key, 0) + 1
    print("matchings", sorted(counts.items()))
    print("rng", rng_digest())
    print("jds after", jds)

    print("== fast: small cases, full output")
    cases = {
        "single": ([2], ["2-clique"], [recording_clique],
                   [(1,), (2,), (3,), (2,), (0,), (2,)]),
        "two_topologies": ([2, 3], ["2-clique", "3-clique"],
                           [recording_clique, recording_clique],
                           [(1, 0), (2, 1), (3, 0), (5, 1), (1, 1), (0, 3), (2, 0), (0, 0)]),
        "truncated_last_group": ([2, 3], ["e", "t"], [recording_clique, recording_clique],
                                 [(1, 1), (1, 1), (1, 2), (0, 1)]),
        "tuple_es": ([3], ["t"], [tuple_clique], [(2,), (2,), (2,)]),
        "empty_es": ([2, 2], ["a", "b"], [empty_builder, recording_clique],
                     [(1, 1), (1, 1), (2, 2)]),
        "size_one": ([1], ["loop"], [recording_clique], [(2,), (1,)]),
        "empty_jds": ([2], ["2-clique"], [recording_clique], []),
        "zero_degrees": ([2, 3], ["a", "b"], [recording_clique, recording_clique],
                         [(0, 0), (0, 0)]),
        "negative_degree": ([2], ["a"], [recording_clique], [(-1,), (2,), (2,)]),
        "ragged": ([2, 3, 4], ["a", "b", "c"], [recording_clique] * 3,
                   [(1, 3, 1), (1, 3), (2, 0, 5)]),
        "extra_params": ([2, 3, 4], ["a", "b", "c"], [recording_clique] * 3,
                         [(1,), (1,)]),
        "tuple_jds": ([2], ["a"], [recording_clique], ((2,), (1,), (1,))),
        "list_rows": ([2, 2], ["a", "b"], [recording_clique] * 2, [[2, 1], [1, 1], [1, 2]]),
        "drawing_builder": ([2, 3], ["a", "b"], [drawing_clique, drawing_clique],
                            [(2, 1), (2, 1), (2, 1), (0, 3)]),
        "mutating_builder": ([3], ["t"], [mutating_builder], [(1,), (1,), (1,), (3,)]),
        "names_not_str": ([2], [("x", 1)], [recording_clique], [(1,), (1,)]),
        "bool_size": ([True], ["a"], [recording_clique], [(1,), (1,)]),
        "numpy_rows": ([2, 3], ["a", "b"], [recording_clique] * 2,
                       np.array([[1, 2], [1, 2], [2, 2]])),
    }
    for name, (sizes, names, builders, jds) in cases.items():
        for s in (0, 7):
            del CALLS[:]
            seed(s)
            params = fast_params(sizes, names, builders)
            params_before = dict(params)
            jds_before = copy.deepcopy(jds)
            tag = "fast[%s,%d]" % (name, s)
            alg = GCMAlgorithmFast(params)
            el = attempt(tag, lambda: alg.random_clustered_graph(jds))
            if el is not None:
                show_edge_list(tag, el, jds)
            # repeated call on the same object, without reseeding
            el2 = attempt(tag + "#2", lambda: alg.random_clustered_graph(jds))
            if el2 is not None:
                show_edge_list(tag + "#2", el2, jds)
                print(tag, "fresh objects", el2 is not el,
                      el2.edge_list is not el.edge_list)
            print(tag, "calls", repr(CALLS))
            print(tag, "params unchanged", params == params_before,
                  "jds unchanged", repr(jds) == repr(jds_before))
            print(tag, "attrs", sorted(vars(alg).keys()))

    print("== fast: generator as jds")
    seed(3)
    alg = GCMAlgorithmFast(fast_params([2], ["a"], [recording_clique]))
    g = ((d,) for d in (1, 2, 1))
    el = attempt("fast[gen]", lambda: alg.random_clustered_graph(g))
    if el is not None:
        show_edge_list("fast[gen]", el, g)
        print("fast[gen] leftover", list(g))

    print("== fast: error paths")
    err_cases = {
        "builders_short": ([2, 3], ["a", "b"], [recording_clique], [(1, 1), (1, 2)]),
        "builders_short_but_unused": ([2, 3], ["a", "b"], [recording_clique], [(1, 0), (1, 0)]),
        "names_short": ([2, 3], ["a"], [recording_clique, recording_clique], [(1, 1), (1, 2)]),
        "names_short_empty_es": ([2, 3], ["a"], [recording_clique, empty_builder],
                                 [(1, 1), (1, 2)]),
        "sizes_short": ([2], ["a", "b"], [recording_clique, recording_clique],
                        [(1, 1), (1, 2)]),
        "size_zero": ([0], ["a"], [recording_clique], [(1,), (1,)]),
        "size_zero_no_stubs": ([0], ["a"], [recording_clique], [(0,), (0,)]),
        "size_negative": ([-2], ["a"], [recording_clique], [(1,), (1,)]),
        "size_float": ([2.0], ["a"], [recording_clique], [(1,), (1,)]),
        "size_none": ([None], ["a"], [recording_clique], [(1,), (1,)]),
        "builder_fails": ([2, 2], ["a", "b"], [recording_clique, failing_builder],
                          [(1, 1), (1, 1)]),
        "builder_not_callable": ([2], ["a"], [None], [(1,), (1,)]),
        "builder_returns_none": ([2], ["a"], [lambda vs: None], [(1,), (1,)]),
        "builder_returns_int": ([2], ["a"], [lambda vs: 3], [(1,), (1,)]),
        "builder_returns_gen": ([2], ["a"], [lambda vs: (x for x in vs)], [(1,), (1,)]),
        "float_degree": ([2], ["a"], [recording_clique], [(1.0,), (1,)]),
        "jds_not_iterable": ([2], ["a"], [recording_clique], 5),
        "jds_row_int": ([2], ["a"], [recording_clique], [1, 2]),
        "jds_none": ([2], ["a"], [recording_clique], None),
    }
    for name, (sizes, names, builders, jds) in err_cases.items():
        del CALLS[:]
        seed(11)
        tag = "fasterr[%s]" % name
        alg = GCMAlgorithmFast(fast_params(sizes, names, builders))
        el = attempt(tag, lambda: alg.random_clustered_graph(jds))
        if el is not None:
            show_edge_list(tag, el, jds)
        print(tag, "calls", repr(CALLS))
        # object still usable afterwards
        el = attempt(tag + "#again", lambda: alg.random_clustered_graph([(1,), (1,)]))
        if el is not None:
            show_edge_list(tag + "#again", el)

    print("== fast: constructor error paths")
    for name, params in {
        "missing_sizes": {N.EDGE_NAMES: ["a"], N.BUILD_FUNCTIONS: [clique_motif]},
        "missing_all": {},
        "string_keys": {"motif_sizes": [2], "edge_names": ["a"],
                        "build_functions": [clique_motif]},
    }.items():
        attempt("fastctor[%s]" % name, lambda: GCMAlgorithmFast(params))
    attempt("fastctor[none]", lambda: GCMAlgorithmFast(None))

    print("== fast: larger graph digest, factory and network wrapper")
    seed(99)
    jds = [
        (random.randrange(0, 5), random.randrange(0, 3), random.randrange(0, 2))
        for _ in range(3000)
    ]
    params = fast_params([2, 3, 4], ["2-clique", "3-clique", "4-clique"],
                         [clique_motif, clique_motif, clique_motif])
    alg = GCMAlgorithmFactory.resolve_algorithm(GCMAlgorithmTypes.FAST, params)
    print("factory type", type(alg).__name__)
    for rep in range(3):
        el = attempt("fast[large,%d]" % rep, lambda: alg.random_clustered_graph(jds))
        show_edge_list("fast[large,%d]" % rep, el, jds, full=False)
    net = attempt(
        "network",
        lambda: GCMAlgorithmNetwork(params).random_clustered_graph(jds[:200]),
    )
    if net is not None:
        G = getattr(net, "G", None) or getattr(net, "_G", None)
        print("network type", type(net).__name__, sorted(vars(net).keys()))
        for key, val in sorted(vars(net).items()):
            try:
                edges = list(val.edges(data=True))
                print("network", key, len(edges), h(edges), h(list(val.nodes(data=True))))
            except AttributeError:
                print("network", key, h(val))


# --------------------------------------------------------------------------
# GCMAlgorithmCustomMotifs
# --------------------------------------------------------------------------
def diamond(vs):
    CALLS.append(("diamond", type(vs).__name__, tuple(vs)))
    return (
        (vs[0], vs[1]),
        (vs[1], vs[2]),
        (vs[2], vs[3]),
        (vs[3], vs[1]),
        (vs[0], vs[2]),
    )


def diamond_names():
    return ("d-outer", "d-outer", "d-outer", "d-outer", "d-inner")


def twoclique(vs):
    CALLS.append(("twoclique", type(vs).__name__, tuple(vs)))
    return (vs[0], vs[1])


def twoclique_list(vs):
    return [vs[0], vs[1]]


def twoclique_wrapped(vs):
    return ((vs[0], vs[1]),)


def twoclique_names():
    return "2-clique"


def threeclique(vs):
    CALLS.append(("threeclique", type(vs).__name__, tuple(vs)))
    return (vs[0], vs[1]), (vs[0], vs[2]), (vs[1], vs[2])


def threeclique_names():
    return "3-clique", "3-clique", "3-clique"


def pentagon(vs):
    CALLS.append(("pentagon", type(vs).__name__, tuple(vs)))
    return (
        (vs[0], vs[1]),
        (vs[1], vs[2]),
        (vs[2], vs[3]),
        (vs[3], vs[4]),
        (vs[0], vs[4]),
        (vs[1], vs[3]),
    )


def pentagon_names():
    return "p01", "p12", "p23", "p34", "p40", "p13"


def path3(vs):
    # two edges given as tuples: length 2 but NOT a bare edge
    return ((vs[0], vs[1]), (vs[1], vs[2]))


def path3_lists(vs):
    return [[vs[0], vs[1]], [vs[1], vs[2]]]


def path3_names():
    return ("path", "path")


def drawing_twoclique(vs):
    CALLS.append(("draw", tuple(vs), repr(random.random())))
    return (vs[0], vs[1])


def string_vertices_twoclique(vs):
    # vertices as strings: first entry is not a tuple/list
    return (str(vs[0]), str(vs[1]))


def custom_params(sizes, names, builders, indices):
    return {
        N.MOTIF_SIZES: sizes,
        N.EDGE_NAMES: names,
        N.BUILD_FUNCTIONS: builders,
        N.MOTIF_INDICES: indices,
    }


PAPER_JDS = [
    (2, 1, 0, 1, 1, 0, 0),
    (1, 1, 0, 1, 1, 0, 0),
    (3, 1, 1, 0, 0, 1, 0),
    (2, 0, 1, 0, 0, 1, 0),
    (0, 0, 0, 1, 0, 0, 1),
    (1, 0, 0, 1, 0, 0, 0),
    (1, 0, 1, 0, 0, 0, 0),
    (1, 0, 1, 0, 0, 0, 0),
    (1, 0, 0, 1, 0, 0, 0),
    (1, 0, 0, 1, 0, 0, 0),
    (1, 0, 1, 0, 0, 0, 0),
    (0, 0, 1, 0, 0, 0, 0),
]


def section_custom():
    print("== custom: partition")
    alg = GCMAlgorithmCustomMotifs(
        custom_params([2], [twoclique_names], [twoclique], [[0]])
    )
    lst7 = list(range(7))
    part_cases = [
        (lst7, 1), (lst7, 2), (lst7, 3), (lst7, 7), (lst7, 8), (lst7, 100),
        ([], 3), ([5], 1), (lst7, 0), ([], 0), (lst7, -1), (lst7, -3), ([], -1),
        (lst7, 2.0), (lst7, None), (lst7, True), (lst7, np.int64(3)),
        (tuple(lst7), 3), ("abcdefg", 3), (range(7), 3), (np.arange(7), 3),
        (None, 2), (5, 2), ({1: 2}, 1), ([[1, 2], [3]], 1),
    ]
    for lst, n in part_cases:
        tag = "partition[%r,%r]" % (lst, n)
        before = repr(lst)
        out = attempt(tag, lambda: alg.partition(lst, n))
        print(tag, "->", type(out).__name__, repr(out), "input unchanged", repr(lst) == before)
        if isinstance(out, list) and out and isinstance(lst, list):
            print(tag, "copies", out[0] is not lst)

    print("== custom: four degree-1 vertices, matching frequencies")
    counts = {}
    jds = [(1,), (1,), (1,), (1,)]
    seed(54321)
    for _ in range(600):
        el = alg.random_clustered_graph(jds)
        key = tuple(sorted(tuple(sorted(e)) for e in el.edge_list))
        counts[key] = counts.get(key, 0) + 1
    print("matchings", sorted(counts.items()))
    print("rng", rng_digest())

    print("== custom: small cases, full output")
    paper = ([2, 3, 2, 2, 2, 2, 1],
             [twoclique_names, threeclique_names, diamond_names, pentagon_names],
             [twoclique, threeclique, diamond, pentagon],
             [[0], [1], [2, 3], [4, 5, 6]],
             PAPER_JDS)
    cases = {
        "paper": paper,
        "paper_reordered_motifs": ([2, 3, 2, 2, 2, 2, 1],
                                   [pentagon_names, diamond_names, threeclique_names,
                                    twoclique_names],
                                   [pentagon, diamond, threeclique, twoclique],
                                   [[4, 5, 6], [2, 3], [1], [0]],
                                   PAPER_JDS),
        "twoclique_only": ([2], [twoclique_names], [twoclique], [[0]],
                           [(1,), (2,), (3,), (2,)]),
        "twoclique_list": ([2], [twoclique_names], [twoclique_list], [[0]],
                           [(1,), (2,), (3,), (2,)]),
        "twoclique_wrapped": ([2], [lambda: ("2-clique",)], [twoclique_wrapped], [[0]],
                              [(1,), (2,), (3,), (2,)]),
        "twoclique_strings": ([2], [twoclique_names], [string_vertices_twoclique], [[0]],
                              [(1,), (2,), (1,)]),
        "path_two_edges": ([1, 2], [path3_names], [path3], [[0, 1]],
                           [(1, 0), (0, 1), (0, 1), (1, 1), (0, 1)]),
        "path_two_edges_lists": ([1, 2], [path3_names], [path3_lists], [[0, 1]],
                                 [(1, 0), (0, 1), (0, 1), (1, 1), (0, 1)]),
        "odd_stubs_truncated": ([2], [twoclique_names], [twoclique], [[0]],
                                [(1,), (2,), (2,), (1,), (2,)]),
        "names_mismatch": ([3], [twoclique_names], [threeclique], [[0]],
                           [(1,), (1,), (1,)]),
        "empty_es": ([2], [lambda: ()], [lambda vs: ()], [[0]], [(1,), (1,)]),
        "empty_jds": ([2], [twoclique_names], [twoclique], [[0]], []),
        "no_motifs": ([2], [], [], [], [(1,), (1,)]),
        "unused_orbit": ([2, 3], [twoclique_names], [twoclique], [[0]],
                         [(1, 1), (1, 1), (2, 1)]),
        "shared_orbit": ([2], [twoclique_names, twoclique_names], [twoclique, twoclique],
                         [[0], [0]], [(1,), (1,), (1,), (1,)]),
        "reference_orbit_smaller": ([2, 2], [diamond_names], [diamond], [[0, 1]],
                                    [(1, 1), (1, 1), (0, 1), (0, 1)]),
        "tuple_indices": ([2, 2], [diamond_names], [diamond], ((0, 1),),
                          [(1, 1), (1, 1), (1, 1), (1, 1)]),
        "drawing_builder": ([2], [twoclique_names], [drawing_twoclique], [[0]],
                            [(2,), (2,), (2,)]),
        "negative_size_reference": ([-2], [twoclique_names], [twoclique], [[0]],
                                    [(1,), (1,)]),
        "float_size_unused": ([2, 2.5], [twoclique_names], [twoclique], [[0]],
                              [(1, 0), (1, 0)]),
        "size_three_stub_count_seven": ([3], [threeclique_names], [threeclique], [[0]],
                                        [(2,), (2,), (3,)]),
    }
    for name, (sizes, names, builders, indices, jds) in cases.items():
        for s in (0, 7):
            del CALLS[:]
            seed(s)
            params = custom_params(sizes, names, builders, indices)
            params_before = dict(params)
            jds_before = copy.deepcopy(jds)
            tag = "custom[%s,%d]" % (name, s)
            alg = attempt(tag + "#ctor", lambda: GCMAlgorithmCustomMotifs(params))
            if alg is None:
                continue
            el = attempt(tag, lambda: alg.random_clustered_graph(jds))
            if el is not None:
                show_edge_list(tag, el, jds)
            el2 = attempt(tag + "#2", lambda: alg.random_clustered_graph(jds))
            if el2 is not None:
                show_edge_list(tag + "#2", el2, jds)
            print(tag, "calls", repr(CALLS))
            print(tag, "params unchanged", params == params_before,
                  "jds unchanged", repr(jds) == repr(jds_before),
                  "indices", repr(alg._motif_indices),
                  "indices same object", alg._motif_indices is indices)
            print(tag, "attrs", sorted(vars(alg).keys()))

    print("== custom: error paths")
    err_cases = {
        "orbit_runs_out": ([2, 2], [diamond_names], [diamond], [[0, 1]],
                           [(1, 1), (1, 0), (1, 0), (1, 0), (0, 1)]),
        "index_out_of_range": ([2], [twoclique_names], [twoclique], [[3]],
                               [(1,), (1,)]),
        "second_index_out_of_range": ([2], [twoclique_names], [twoclique], [[0, 3]],
                                      [(1,), (1,)]),
        "empty_motif_indexes": ([2], [twoclique_names], [twoclique], [[]], [(1,), (1,)]),
        "indices_not_nested": ([2], [twoclique_names], [twoclique], [0], [(1,), (1,)]),
        "sizes_short": ([2], [twoclique_names], [twoclique], [[0]], [(1, 1), (1, 1)]),
        "size_zero": ([0], [twoclique_names], [twoclique], [[0]], [(1,), (1,)]),
        "size_zero_no_stubs": ([0], [twoclique_names], [twoclique], [[0]], [(0,), (0,)]),
        "size_float": ([2.0], [twoclique_names], [twoclique], [[0]], [(1,), (1,)]),
        "builders_short": ([2, 3], [twoclique_names, threeclique_names], [twoclique],
                           [[0], [1]], [(1, 1), (1, 1), (0, 1)]),
        "names_short": ([2, 3], [twoclique_names], [twoclique, threeclique],
                        [[0], [1]], [(1, 1), (1, 1), (0, 1)]),
        "names_not_callable": ([2], ["2-clique"], [twoclique], [[0]], [(1,), (1,)]),
        "names_return_none": ([3], [lambda: None], [threeclique], [[0]],
                              [(1,), (1,), (1,)]),
        "builder_fails": ([2], [twoclique_names], [failing_builder], [[0]], [(1,), (1,)]),
        "builder_returns_none": ([2], [twoclique_names], [lambda vs: None], [[0]],
                                 [(1,), (1,)]),
        "builder_returns_dict": ([2], [twoclique_names], [lambda vs: {"a": 1, "b": 2}],
                                 [[0]], [(1,), (1,)]),
        "builder_short_vertices": ([2], [twoclique_names], [twoclique], [[0]], [(1,)]),
        "jds_none": ([2], [twoclique_names], [twoclique], [[0]], None),
        "jds_row_int": ([2], [twoclique_names], [twoclique], [[0]], [1, 2]),
    }
    for name, (sizes, names, builders, indices, jds) in err_cases.items():
        del CALLS[:]
        seed(23)
        tag = "customerr[%s]" % name
        alg = GCMAlgorithmCustomMotifs(custom_params(sizes, names, builders, indices))
        el = attempt(tag, lambda: alg.random_clustered_graph(jds))
        if el is not None:
            show_edge_list(tag, el, jds)
        print(tag, "calls", repr(CALLS))
        el = attempt(tag + "#again", lambda: alg.random_clustered_graph([(1,), (1,)]))
        if el is not None:
            show_edge_list(tag + "#again", el)

    print("== custom: constructor error paths")
    for name, params in {
        "missing_indices": {N.MOTIF_SIZES: [2], N.EDGE_NAMES: [twoclique_names],
                            N.BUILD_FUNCTIONS: [twoclique]},
        "missing_sizes": {N.MOTIF_INDICES: [[0]], N.EDGE_NAMES: [twoclique_names],
                          N.BUILD_FUNCTIONS: [twoclique]},
        "missing_all": {},
    }.items():
        attempt("customctor[%s]" % name, lambda: GCMAlgorithmCustomMotifs(params))
    attempt("customctor[none]", lambda: GCMAlgorithmCustomMotifs(None))

    print("== custom: larger graph digest via factory")
    seed(77)
    # diamonds (orbits 1,2), triangles (orbit 0)
    jds = []
    for _ in range(1500):
        jds.append((random.randrange(0, 4), random.randrange(0, 2), random.randrange(0, 2)))
    # make the two diamond orbits carry the same number of stubs
    d1 = sum(r[1] for r in jds)
    d2 = sum(r[2] for r in jds)
    print("orbit stubs", sum(r[0] for r in jds), d1, d2)
    params = custom_params([3, 2, 2], [threeclique_names, diamond_names],
                           [lambda vs: ((vs[0], vs[1]), (vs[0], vs[2]), (vs[1], vs[2])),
                            lambda vs: ((vs[0], vs[1]), (vs[1], vs[2]), (vs[2], vs[3]),
                                        (vs[3], vs[1]), (vs[0], vs[2]))],
                           [[0], [1, 2]] if d1 <= d2 else [[0], [2, 1]])
    alg = GCMAlgorithmFactory.resolve_algorithm(GCMAlgorithmTypes.MOTIFS, params)
    print("factory type", type(alg).__name__)
    for rep in range(3):
        el = attempt("custom[large,%d]" % rep, lambda: alg.random_clustered_graph(jds))
        if el is not None:
            show_edge_list("custom[large,%d]" % rep, el, jds, full=False)


def section_module_surface():
    print("== module surface")
    import gcmpy.gcm_algorithm.gcm_algorithm_fast as mf
    import gcmpy.gcm_algorithm.gcm_algorithm_custom_motifs as mc

    for cls in (GCMAlgorithmFast, GCMAlgorithmCustomMotifs):
        public = sorted(k for k in vars(cls) if not k.startswith("_"))
        print(cls.__name__, "public", public, "mro", [c.__name__ for c in cls.__mro__])
    for m in (mf, mc):
        public = sorted(k for k in vars(m) if not k.startswith("_"))
        # names imported for typing only are not part of the behaviour
        public = [k for k in public if k not in (
            "Any", "Callable", "Generator", "List", "Tuple", "logging")]
        print(m.__name__, "public", public)
    print("root logger level", logging.getLogger().level if not os.environ.get("EQUIV_DEBUG") else "debug-run",
          "handlers", len(logging.getLogger().handlers) if not os.environ.get("EQUIV_DEBUG") else "debug-run")


if __name__ == "__main__":
    section_fast()
    section_custom()
    section_module_surface()
    print("final rng", rng_digest())
