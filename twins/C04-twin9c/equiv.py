import sys, os; sys.path.insert(0, os.getcwd())
import hashlib
import random

import numpy as np
import networkx as nx

from gcmpy.network.network import Network
from gcmpy.network.edge_list import LightWeightEdgeList
from gcmpy.network.edge_list_to_network import EdgeListToNetwork
from gcmpy.covers.eecc import EECC

random.seed(1312)
np.random.seed(1312)

H = hashlib.sha256()
LINES = []


def emit(*parts):
    line = " | ".join(p if isinstance(p, str) else repr(p) for p in parts)
    LINES.append(line)
    H.update(line.encode() + b"\n")


def graph_digest(G):
    try:
        return (
            type(G).__name__,
            [(n, list(d.items())) for n, d in G.nodes(data=True)],
            [tuple(e[:-1]) + (list(e[-1].items()),) for e in G.edges(data=True)],
        )
    except BaseException as exc:
        return ("undigestable", type(G).__name__, type(exc).__name__)


def probe(label, net, times=3):
    for k in range(times):
        before = graph_digest(net.G)
        try:
            r = net.has_edges()
            emit(label, k, "ok", type(r).__name__, r)
        except BaseException as exc:
            emit(label, k, "exc", type(exc).__name__, str(exc))
        emit(label, k, "unchanged", before == graph_digest(net.G))


class FakeEdges:
    def __init__(self, n):
        self.n = n

    def __len__(self):
        return self.n


class FakeGraph:
    def __init__(self, n):
        self.n = n
        self.calls = 0

    def edges(self):
        self.calls += 1
        return FakeEdges(self.n)


class BoolLenEdges:
    def __init__(self, v):
        self.v = v

    def __len__(self):
        return self.v


class AnyGraph:
    def __init__(self, obj):
        self.obj = obj

    def edges(self):
        return self.obj


for cls in (Network, EECC):
    name = cls.__name__
    n = cls()
    probe(name + "-fresh", n)
    n.G.add_nodes_from(range(5))
    probe(name + "-isolated-only", n)
    n.add_edge((0, 1))
    probe(name + "-one-edge", n)
    n.remove_edge(1, 0)
    probe(name + "-edge-removed", n)
    n.remove_edge(1, 0)
    n.remove_edge(8, 9)
    probe(name + "-removed-twice", n)
    n.add_edge((2, 2))
    probe(name + "-self-loop-only", n)
    n.remove_edge(2, 2)
    probe(name + "-self-loop-removed", n)
    n.add_edges_from([(0, 1), (1, 2), (2, 0), (0, 1), (1, 0)])
    probe(name + "-triangle-with-duplicates", n)
    for e in [(0, 1), (1, 2)]:
        n.remove_edge(*e)
        probe(name + "-triangle-minus-%d%d" % e, n, times=1)
    n.remove_edge(0, 2)
    probe(name + "-triangle-gone", n)
    n.add_edges_from([(0, 1, {"w": 1})])
    probe(name + "-edge-with-data", n)
    try:
        n.add_edge((0,))
    except BaseException as exc:
        emit(name + "-bad-add", type(exc).__name__, str(exc))
    probe(name + "-after-bad-add", n)

    for gname, g in (
        ("empty-digraph", nx.DiGraph()),
        ("digraph", nx.DiGraph([(0, 1), (1, 0)])),
        ("multigraph-parallel", nx.MultiGraph([(0, 1), (0, 1)])),
        ("multigraph-empty", nx.MultiGraph()),
        ("multidigraph-loop", nx.MultiDiGraph([(3, 3)])),
        ("frozen", nx.freeze(nx.path_graph(3))),
        ("frozen-empty", nx.freeze(nx.empty_graph(3))),
        ("subgraph-view-no-edges", nx.path_graph(5).subgraph([0, 2, 4])),
        ("subgraph-view-edges", nx.path_graph(5).subgraph([0, 1, 4])),
        ("complete", nx.complete_graph(6)),
        ("fake-0", FakeGraph(0)),
        ("fake-1", FakeGraph(1)),
        ("fake-2", FakeGraph(2)),
        ("fake-huge", FakeGraph(sys.maxsize)),
        ("fake-negative-len", FakeGraph(-1)),
        ("fake-float-len", AnyGraph(BoolLenEdges(1.0))),
        ("fake-bool-len-true", AnyGraph(BoolLenEdges(True))),
        ("fake-bool-len-false", AnyGraph(BoolLenEdges(False))),
        ("edges-list-empty", AnyGraph([])),
        ("edges-list", AnyGraph([(0, 1)])),
        ("edges-str", AnyGraph("")),
        ("edges-dict", AnyGraph({1: 2})),
        ("edges-generator", AnyGraph(iter([(0, 1)]))),
        ("edges-none", AnyGraph(None)),
        ("edges-int", AnyGraph(0)),
        ("none", None),
        ("int", 0),
        ("dict", {}),
    ):
        m = cls()
        m.G = g
        probe("%s-G=%s" % (name, gname), m, times=2)
        if isinstance(g, FakeGraph):
            emit("%s-G=%s" % (name, gname), "edges-calls", g.calls)

# has_edges drives the main loop of the EECC cover
rng = random.Random(5)


def cover(label, edges, m0):
    g = EECC()
    g.set_max_clique_size(m0)
    try:
        for e in edges:
            g.add_edge(e)
        emit(label, "has-edges-before", g.has_edges())
        ec = g.get_EECC()
        emit(label, "cover", ec)
    except BaseException as exc:
        emit(label, "exc", type(exc).__name__, str(exc))
    try:
        emit(label, "has-edges-after", g.has_edges(), graph_digest(g.G))
    except BaseException as exc:
        emit(label, "after-exc", type(exc).__name__, str(exc))
    emit(label, "rng", hashlib.sha256(repr(random.getstate()).encode()).hexdigest()[:16])


paper = [
    (1, 2), (1, 14), (2, 4), (2, 13), (2, 14), (3, 4), (3, 5), (4, 5), (4, 13),
    (4, 14), (6, 7), (6, 13), (7, 8), (7, 13), (8, 9), (8, 13), (9, 10), (9, 11),
    (9, 13), (10, 11), (11, 12), (12, 13), (13, 14),
]
for m0 in (2, 3, 4, 5):
    cover("paper-m0=%d" % m0, paper, m0)
cover("no-edges", [], 3)
cover("single-edge", [(0, 1)], 3)
cover("triangle", [(0, 1), (1, 2), (0, 2)], 3)
cover("k4-m0=3", [(i, j) for i in range(4) for j in range(i + 1, 4)], 3)
cover("k5-m0=3", [(i, j) for i in range(5) for j in range(i + 1, 5)], 3)
cover("k5-m0=4", [(i, j) for i in range(5) for j in range(i + 1, 5)], 4)
cover("two-triangles-sharing-edge", [(0, 1), (1, 2), (0, 2), (1, 3), (2, 3)], 3)
cover("self-loop", [(0, 0), (0, 1)], 3)
cover("bad-edge", [(0,)], 3)
for t in range(120):
    nn = rng.randrange(2, 9)
    p = rng.choice([0.2, 0.4, 0.6, 0.9])
    edges = [(i, j) for i in range(nn) for j in range(i + 1, nn) if rng.random() < p]
    rng.shuffle(edges)
    cover("rand-%d" % t, edges, rng.choice([2, 3, 4]))

# networks produced by the converter answer has_edges as well
for t in range(60):
    nn = rng.randrange(0, 7)
    m = rng.randrange(0, 6)
    el = LightWeightEdgeList()
    el.edge_list = [(rng.randrange(0, nn + 1), rng.randrange(0, nn + 1)) for _ in range(m)]
    el.topologies = ["2-clique"] * m
    el.motif_id = list(range(m))
    el.joint_degrees = [(1,)] * (nn + 1)
    net = EdgeListToNetwork.convert(el)
    probe("converted-%d" % t, net, times=1)
    for e in list(net.G.edges()):
        net.remove_edge(*e)
        probe("converted-%d-minus-%r" % (t, e), net, times=1)

emit("rng-python", hashlib.sha256(repr(random.getstate()).encode()).hexdigest())
st = np.random.get_state()
emit("rng-numpy", st[0], hashlib.sha256(st[1].tobytes()).hexdigest(), st[2], st[3], repr(st[4]))

for line in LINES:
    print(line if len(line) <= 400 else line[:200] + " ...sha:" + hashlib.sha256(line.encode()).hexdigest())
print("DIGEST", H.hexdigest())
