import sys, os; sys.path.insert(0, os.getcwd())

import copy
import hashlib
import random
import warnings

warnings.simplefilter("ignore")

import numpy as np

from gcmpy.gcm_algorithm.gcm_algorithm_fast import GCMAlgorithmFast
from gcmpy.gcm_algorithm.gcm_algorithm_custom_motifs import GCMAlgorithmCustomMotifs
from gcmpy.gcm_algorithm.gcm_algorithm_network import GCMAlgorithmNetwork
from gcmpy.gcm_algorithm.gcm_algorithm_main import GCMAlgorithmMain
from gcmpy.gcm_algorithm.gcm_algorithm_factory import GCMAlgorithmFactory
from gcmpy.gcm_algorithm.gcm_algorithm_types import GCMAlgorithmTypes
from gcmpy.names.gcm_algorithm_names import GCMAlgorithmNames as N
from gcmpy.motif_generators.clique_motif import clique_motif
from gcmpy.motif_generators.cycle_motif import cycle_motif


def rng_digest():
    h = hashlib.sha256()
    h.update(repr(random.getstate()).encode())
    st = np.random.get_state()
    h.update(repr((st[0], st[1].tolist(), st[2], st[3], repr(st[4]))).encode())
    return h.hexdigest()[:24]


def stable(obj):
    """repr without memory addresses: callables are shown by name."""
    if isinstance(obj, dict):
        return "{" + ", ".join("%s: %s" % (stable(k), stable(v)) for k, v in obj.items()) + "}"
    if isinstance(obj, list):
        return "[" + ", ".join(stable(v) for v in obj) + "]"
    if isinstance(obj, tuple):
        return "(" + ", ".join(stable(v) for v in obj) + ",)"
    if callable(obj):
        return "<callable %s>" % getattr(obj, "__name__", type(obj).__name__)
    return repr(obj)


def seed(s):
    random.seed(s)
    np.random.seed(s)


def show_edge_list(el):
    print("   type", type(el).__name__)
    print("   edge_list", repr(el.edge_list))
    print("   topologies", repr(el.topologies))
    print("   motif_id", repr(el.motif_id))
    jd = el.joint_degrees
    print("   joint_degrees", repr(jd) if isinstance(jd, (list, tuple)) else type(jd).__name__,
          repr(np.asarray(jd).tolist()) if isinstance(jd, np.ndarray) else "")


def show_network(net):
    g = net.G
    print("   type", type(net).__name__)
    print("   nodes", repr(list(g.nodes(data=True))))
    print("   edges", repr(list(g.edges(data=True))))


# ---- a recording wrapper around random.shuffle: number, order and content of shuffles
_real_shuffle = random.shuffle
_shuffle_log = []


def _recording_shuffle(x, *a, **k):
    _shuffle_log.append(("in", list(x)))
    r = _real_shuffle(x, *a, **k)
    _shuffle_log.append(("out", list(x)))
    return r


def run(label, fn, *, mutables=(), record_shuffles=False):
    """Run fn(), print result / exception, RNG state and the mutable inputs afterwards."""
    print("==", label)
    del _shuffle_log[:]
    if record_shuffles:
        random.shuffle = _recording_shuffle
    try:
        try:
            res = fn()
        finally:
            random.shuffle = _real_shuffle
    except BaseException as e:  # noqa
        print("   EXC", type(e).__name__, repr(str(e)))
        ctx = e.__context__
        print("   CTX", type(ctx).__name__ if ctx is not None else None,
              repr(str(ctx)) if ctx is not None else None)
        res = None
    else:
        if hasattr(res, "edge_list"):
            show_edge_list(res)
        elif hasattr(res, "G"):
            show_network(res)
        else:
            r = repr(res)
            print("   result", r if " at 0x" not in r else "<%s instance>" % type(res).__name__)
    if record_shuffles:
        print("   shuffles", repr(_shuffle_log))
    print("   rng", rng_digest())
    for name, m in mutables:
        print("   after", name, stable(m))
    return res


def fast_params(sizes, names, builders):
    return {N.MOTIF_SIZES: sizes, N.EDGE_NAMES: names, N.BUILD_FUNCTIONS: builders}


# ---------------------------------------------------------------- build callbacks
calls = []


def logging_clique(vs):
    calls.append(list(vs))
    return clique_motif(vs)


def failing_after_two(vs):
    calls.append(list(vs))
    if len(calls) >= 3:
        raise RuntimeError("builder failed on %r" % (vs,))
    return clique_motif(vs)


def tuple_edges(vs):
    return tuple(clique_motif(vs))


def mutating_builder(vs):
    es = clique_motif(vs)
    vs.reverse()  # callers hand over a fresh list; mutation must stay invisible
    return es


def diamond(vs):
    return (
        (vs[0], vs[1]),
        (vs[1], vs[2]),
        (vs[2], vs[3]),
        (vs[3], vs[1]),
        (vs[0], vs[2]),
    )


def diamond_names():
    return ("d-outer", "d-outer", "d-outer", "d-outer", "d-inner")


def twoclique(vs):
    return (vs[0], vs[1])


def twoclique_names():
    return "2-clique"


def twoclique_as_list(vs):
    return [vs[0], vs[1]]


def two_edges_list(vs):
    # two edges, first is a list -> must take the generic branch
    return [[vs[0], vs[1]], (vs[1], vs[0])]


def two_edges_names():
    return ["a", "b"]


def threeclique(vs):
    return (vs[0], vs[1]), (vs[0], vs[2]), (vs[1], vs[2])


def threeclique_names():
    return "3-clique", "3-clique", "3-clique"


def pentagon(vs):
    return (
        (vs[0], vs[1]),
        (vs[1], vs[2]),
        (vs[2], vs[3]),
        (vs[3], vs[4]),
        (vs[0], vs[4]),
        (vs[1], vs[3]),
    )


def pentagon_names():
    return "p01", "p12", "p23", "p34", "p40", "p13"


def logging_threeclique(vs):
    calls.append(list(vs))
    return threeclique(vs)


# ================================================================== FAST
print("######## GCMAlgorithmFast")

# four degree-1 vertices: the three perfect matchings
jds4 = [(1,), (1,), (1,), (1,)]
params = fast_params([2], ["2-clique"], [clique_motif])
alg = GCMAlgorithmFast(params)
for s in range(8):
    seed(s)
    run("fast four degree-1 vertices seed=%d" % s, lambda: alg.random_clustered_graph(jds4),
        mutables=[("jds", jds4), ("params", params)])

# histogram over many seeds (matching distribution, deterministic given seeds)
hist = {}
seed(12345)
for _ in range(600):
    el = alg.random_clustered_graph(jds4)
    key = tuple(sorted(tuple(sorted(e)) for e in el.edge_list))
    hist[key] = hist.get(key, 0) + 1
print("== fast matching histogram", sorted(hist.items()), rng_digest())

# repeated calls on the same object without reseeding; returned objects are distinct
seed(99)
r1 = run("fast repeated call 1", lambda: alg.random_clustered_graph(jds4), record_shuffles=True)
r2 = run("fast repeated call 2", lambda: alg.random_clustered_graph(jds4), record_shuffles=True)
print("   distinct results", r1 is not r2, r1.edge_list is not r2.edge_list,
      r1.joint_degrees is jds4, r2.joint_degrees is jds4)

# two topologies, list rows, and a remainder group (stubs not a multiple of motif size)
jds2 = [[2, 1], [1, 1], [3, 1], [2, 0], [0, 0], [1, 2], [1, 0], [1, 1]]
params2 = fast_params([2, 3], ["2-clique", "3-clique"], [logging_clique, logging_clique])
alg2 = GCMAlgorithmFast(params2)
for s in (0, 1, 7):
    seed(s)
    del calls[:]
    run("fast two topologies seed=%d" % s, lambda: alg2.random_clustered_graph(jds2),
        mutables=[("jds", jds2), ("calls", calls), ("params", params2)], record_shuffles=True)

# different builders / tuple results / mutating builder / cycle motif, larger sizes
jds3 = [(3, 2, 1), (2, 2, 0), (1, 0, 1), (0, 3, 1), (4, 1, 1), (2, 0, 0), (1, 1, 1), (1, 1, 0)]
params3 = fast_params([2, 3, 4], ["e", "tri", "sq"], [tuple_edges, mutating_builder, cycle_motif])
alg3 = GCMAlgorithmFast(params3)
for s in (3, 4):
    seed(s)
    run("fast three topologies seed=%d" % s, lambda: alg3.random_clustered_graph(jds3),
        mutables=[("jds", jds3)], record_shuffles=True)

# numpy integer / bool degrees, numpy array as jds
seed(5)
jds_np = np.array([[1, 2], [2, 1], [1, 0], [0, 3]])
run("fast numpy array jds", lambda: GCMAlgorithmFast(
    fast_params([2, 3], ["a", "b"], [clique_motif, clique_motif])).random_clustered_graph(jds_np),
    mutables=[("jds", jds_np.tolist())], record_shuffles=True)
seed(5)
jds_bool = [(True, np.int64(2)), (True, np.int32(1)), (False, 0), (True, 3)]
run("fast bool / numpy scalar degrees", lambda: GCMAlgorithmFast(
    fast_params([2, 3], ["a", "b"], [clique_motif, clique_motif])).random_clustered_graph(jds_bool),
    mutables=[("jds", jds_bool)], record_shuffles=True)

# edge cases
seed(6)
run("fast empty jds", lambda: alg.random_clustered_graph([]), record_shuffles=True)
seed(6)
run("fast rows of empty tuples", lambda: alg.random_clustered_graph([(), (), ()]), record_shuffles=True)
seed(6)
run("fast all zero degrees", lambda: alg.random_clustered_graph([(0,), (0,)]), record_shuffles=True)
seed(6)
run("fast negative degrees", lambda: alg.random_clustered_graph([(-1,), (2,), (1,), (1,)]),
    record_shuffles=True)
seed(6)
run("fast ragged rows (zip truncates)",
    lambda: alg2.random_clustered_graph([(1, 1), (1,), (2, 2), (2, 1)]), record_shuffles=True)
seed(6)
run("fast single vertex odd stub", lambda: alg.random_clustered_graph([(3,)]), record_shuffles=True)
seed(6)
jds_gen = ((1,) for _ in range(4))
run("fast generator jds", lambda: alg.random_clustered_graph(jds_gen), record_shuffles=True)
seed(6)
run("fast fewer topologies than sizes", lambda: alg3.random_clustered_graph([(1,), (1,), (2,)]),
    record_shuffles=True)

# error paths
seed(7)
run("fast float degree", lambda: alg2.random_clustered_graph([(1, 1), (1, 2.0), (2, 1)]),
    record_shuffles=True)
seed(7)
run("fast string degree", lambda: alg.random_clustered_graph([("1",), (1,)]), record_shuffles=True)
seed(7)
run("fast jds None", lambda: alg.random_clustered_graph(None), record_shuffles=True)
seed(7)
run("fast jds of ints", lambda: alg.random_clustered_graph([1, 2]), record_shuffles=True)
seed(7)
del calls[:]
run("fast more topologies than sizes",
    lambda: GCMAlgorithmFast(fast_params([2], ["a"], [logging_clique])).random_clustered_graph(
        [(1, 1), (1, 1), (2, 1)]),
    mutables=[("calls", calls)], record_shuffles=True)
seed(7)
run("fast motif size zero",
    lambda: GCMAlgorithmFast(fast_params([0], ["a"], [clique_motif])).random_clustered_graph(jds4),
    record_shuffles=True)
seed(7)
run("fast motif size negative",
    lambda: GCMAlgorithmFast(fast_params([-2], ["a"], [clique_motif])).random_clustered_graph(jds4),
    record_shuffles=True)
seed(7)
run("fast motif size float",
    lambda: GCMAlgorithmFast(fast_params([2.0], ["a"], [clique_motif])).random_clustered_graph(jds4),
    record_shuffles=True)
seed(7)
del calls[:]
run("fast builder raising midway",
    lambda: GCMAlgorithmFast(fast_params([2], ["a"], [failing_after_two])).random_clustered_graph(
        [(2,), (2,), (2,), (2,)]),
    mutables=[("calls", calls)], record_shuffles=True)
seed(7)
run("fast builder not callable",
    lambda: GCMAlgorithmFast(fast_params([2], ["a"], [None])).random_clustered_graph(jds4),
    record_shuffles=True)
seed(7)
run("fast missing edge names",
    lambda: GCMAlgorithmFast(fast_params([2, 2], ["a"], [clique_motif, clique_motif]))
    .random_clustered_graph([(1, 1), (1, 1)]),
    record_shuffles=True)
seed(7)
run("fast builder returning None",
    lambda: GCMAlgorithmFast(fast_params([2], ["a"], [lambda vs: None])).random_clustered_graph(jds4),
    record_shuffles=True)

# constructor error paths
run("fast ctor missing keys", lambda: GCMAlgorithmFast({N.MOTIF_SIZES: [2]}))
run("fast ctor params None", lambda: GCMAlgorithmFast(None))
run("fast ctor string keys", lambda: GCMAlgorithmFast(
    {"motif_sizes": [2], "edge_names": ["a"], "build_functions": [clique_motif]}))


# subclass overriding the motif id sequence
class FastFrom100(GCMAlgorithmFast):
    def infinite_sequence(self):
        num = 100
        while True:
            yield num
            num += 5


seed(8)
run("fast subclass infinite_sequence",
    lambda: FastFrom100(fast_params([2, 3], ["a", "b"], [clique_motif, clique_motif]))
    .random_clustered_graph(jds2), record_shuffles=True)

# through the Network algorithm, the factory and the main loader
seed(9)
net_alg = GCMAlgorithmNetwork(fast_params([2, 3], ["2-clique", "3-clique"], [clique_motif, clique_motif]))
run("network algorithm call 1", lambda: net_alg.random_clustered_graph(jds2), record_shuffles=True)
run("network algorithm call 2", lambda: net_alg.random_clustered_graph(jds2), record_shuffles=True)
seed(9)
run("network algorithm error", lambda: net_alg.random_clustered_graph([(1, 1.5)]), record_shuffles=True)

for gcm_type in ("fast", "network", "motifs", "nonsense"):
    seed(10)
    p = fast_params([2, 3], ["2-clique", "3-clique"], [clique_motif, clique_motif])
    p[N.GCM_TYPE] = gcm_type
    if gcm_type == "motifs":
        p[N.EDGE_NAMES] = [twoclique_names, threeclique_names]
        p[N.BUILD_FUNCTIONS] = [twoclique, threeclique]
        p[N.MOTIF_INDICES] = [[0], [1]]
    loaded = run("main loader type=%s" % gcm_type, lambda: GCMAlgorithmMain.load_gcm_algorithm(p))
    if loaded is not None:
        print("   loaded", type(loaded).__name__)
        run("main loader run type=%s" % gcm_type, lambda: loaded.random_clustered_graph(jds2),
            record_shuffles=True)

seed(11)
fa = GCMAlgorithmFactory.resolve_algorithm(
    GCMAlgorithmTypes.FAST, fast_params([2], ["2-clique"], [clique_motif]))
print("== factory type", type(fa).__name__)
run("factory fast run", lambda: fa.random_clustered_graph(jds4), record_shuffles=True)


# ================================================================== CUSTOM MOTIFS
print("######## GCMAlgorithmCustomMotifs")

jds_c = [
    (2, 1, 0, 1, 1, 0, 0),
    (1, 1, 0, 1, 1, 0, 0),
    (3, 1, 1, 0, 0, 1, 0),
    (2, 0, 1, 0, 0, 1, 0),
    (0, 0, 0, 1, 0, 0, 1),
    (1, 0, 0, 1, 0, 0, 0),
    (1, 0, 1, 0, 0, 0, 0),
    (1, 0, 1, 0, 0, 0, 0),
    (1, 0, 0, 1, 0, 0, 0),
    (1, 0, 0, 1, 0, 0, 0),
    (1, 0, 1, 0, 0, 0, 0),
    (0, 0, 1, 0, 0, 0, 0),
]


def custom_params():
    return {
        N.MOTIF_SIZES: [2, 3, 2, 2, 2, 2, 1],
        N.EDGE_NAMES: [twoclique_names, threeclique_names, diamond_names, pentagon_names],
        N.BUILD_FUNCTIONS: [twoclique, threeclique, diamond, pentagon],
        N.MOTIF_INDICES: [[0], [1], [2, 3], [4, 5, 6]],
    }


cp = custom_params()
calg = GCMAlgorithmCustomMotifs(cp)
for s in (0, 1, 2, 42):
    seed(s)
    run("custom manuscript example seed=%d" % s, lambda: calg.random_clustered_graph(jds_c),
        mutables=[("jds", jds_c), ("motif_indices", cp[N.MOTIF_INDICES]),
                  ("motif_sizes", cp[N.MOTIF_SIZES])],
        record_shuffles=True)

seed(77)
c1 = run("custom repeated call 1", lambda: calg.random_clustered_graph(jds_c))
c2 = run("custom repeated call 2", lambda: calg.random_clustered_graph(jds_c))
print("   distinct results", c1 is not c2, c1.edge_list is not c2.edge_list,
      c1.joint_degrees is jds_c)

# four degree-1 vertices with the custom generator: matchings
p4 = {N.MOTIF_SIZES: [2], N.EDGE_NAMES: [twoclique_names], N.BUILD_FUNCTIONS: [twoclique],
      N.MOTIF_INDICES: [[0]]}
calg4 = GCMAlgorithmCustomMotifs(p4)
for s in range(6):
    seed(s)
    run("custom four degree-1 vertices seed=%d" % s, lambda: calg4.random_clustered_graph(jds4),
        record_shuffles=True)
hist = {}
seed(4321)
for _ in range(600):
    el = calg4.random_clustered_graph(jds4)
    key = tuple(sorted(tuple(sorted(e)) for e in el.edge_list))
    hist[key] = hist.get(key, 0) + 1
print("== custom matching histogram", sorted(hist.items()), rng_digest())

# 2-clique returned as a list, and a 2-edge motif whose first edge is a list/tuple
seed(13)
run("custom 2-clique as list",
    lambda: GCMAlgorithmCustomMotifs({N.MOTIF_SIZES: [2], N.EDGE_NAMES: [twoclique_names],
                                      N.BUILD_FUNCTIONS: [twoclique_as_list],
                                      N.MOTIF_INDICES: [[0]]}).random_clustered_graph(
        [(2,), (1,), (1,), (2,)]), record_shuffles=True)
seed(13)
run("custom two-edge motif (generic branch)",
    lambda: GCMAlgorithmCustomMotifs({N.MOTIF_SIZES: [2], N.EDGE_NAMES: [two_edges_names],
                                      N.BUILD_FUNCTIONS: [two_edges_list],
                                      N.MOTIF_INDICES: [[0]]}).random_clustered_graph(
        [(2,), (1,), (1,), (2,)]), record_shuffles=True)
seed(13)
run("custom string vertices in 2-clique? (strings as edges)",
    lambda: GCMAlgorithmCustomMotifs({N.MOTIF_SIZES: [2], N.EDGE_NAMES: [twoclique_names],
                                      N.BUILD_FUNCTIONS: [lambda vs: ("ab", "cd")],
                                      N.MOTIF_INDICES: [[0]]}).random_clustered_graph(
        [(1,), (1,)]), record_shuffles=True)

# remainder stubs (not a multiple of the motif size), unused slots, zero motifs
seed(14)
del calls[:]
run("custom remainder stubs",
    lambda: GCMAlgorithmCustomMotifs({N.MOTIF_SIZES: [3], N.EDGE_NAMES: [threeclique_names],
                                      N.BUILD_FUNCTIONS: [logging_threeclique],
                                      N.MOTIF_INDICES: [[0]]}).random_clustered_graph(
        [(2,), (2,), (1,), (1,), (1,), (1,)]),
    mutables=[("calls", calls)], record_shuffles=True)
seed(14)
run("custom remainder stubs -> short motif (IndexError in builder)",
    lambda: GCMAlgorithmCustomMotifs({N.MOTIF_SIZES: [3], N.EDGE_NAMES: [threeclique_names],
                                      N.BUILD_FUNCTIONS: [threeclique],
                                      N.MOTIF_INDICES: [[0]]}).random_clustered_graph(
        [(2,), (2,), (1,), (1,), (1,)]), record_shuffles=True)
seed(14)
run("custom empty jds", lambda: calg4.random_clustered_graph([]), record_shuffles=True)
seed(14)
run("custom all zero", lambda: calg4.random_clustered_graph([(0,), (0,)]), record_shuffles=True)
seed(14)
run("custom no motif types",
    lambda: GCMAlgorithmCustomMotifs({N.MOTIF_SIZES: [2], N.EDGE_NAMES: [], N.BUILD_FUNCTIONS: [],
                                      N.MOTIF_INDICES: []}).random_clustered_graph(jds4),
    record_shuffles=True)
seed(14)
run("custom slot used twice by two motif types",
    lambda: GCMAlgorithmCustomMotifs({N.MOTIF_SIZES: [2, 1],
                                      N.EDGE_NAMES: [twoclique_names, threeclique_names],
                                      N.BUILD_FUNCTIONS: [twoclique, threeclique],
                                      N.MOTIF_INDICES: [[0], [1, 0]]}).random_clustered_graph(
        [(2, 1), (2, 0), (1, 0), (1, 0)]), record_shuffles=True)
seed(14)
run("custom numpy jds",
    lambda: calg.random_clustered_graph(np.array(jds_c)), record_shuffles=True)

# error paths
seed(15)
run("custom float degree", lambda: calg4.random_clustered_graph([(1,), (1.0,)]), record_shuffles=True)
seed(15)
run("custom jds None", lambda: calg4.random_clustered_graph(None), record_shuffles=True)
seed(15)
run("custom motif size zero",
    lambda: GCMAlgorithmCustomMotifs({N.MOTIF_SIZES: [0], N.EDGE_NAMES: [twoclique_names],
                                      N.BUILD_FUNCTIONS: [twoclique],
                                      N.MOTIF_INDICES: [[0]]}).random_clustered_graph(jds4),
    record_shuffles=True)
seed(15)
run("custom motif size negative",
    lambda: GCMAlgorithmCustomMotifs({N.MOTIF_SIZES: [-1], N.EDGE_NAMES: [twoclique_names],
                                      N.BUILD_FUNCTIONS: [twoclique],
                                      N.MOTIF_INDICES: [[0]]}).random_clustered_graph(jds4),
    record_shuffles=True)
seed(15)
run("custom motif size float",
    lambda: GCMAlgorithmCustomMotifs({N.MOTIF_SIZES: [2.0], N.EDGE_NAMES: [twoclique_names],
                                      N.BUILD_FUNCTIONS: [twoclique],
                                      N.MOTIF_INDICES: [[0]]}).random_clustered_graph(jds4),
    record_shuffles=True)
seed(15)
run("custom more slots than sizes",
    lambda: GCMAlgorithmCustomMotifs({N.MOTIF_SIZES: [2], N.EDGE_NAMES: [twoclique_names],
                                      N.BUILD_FUNCTIONS: [twoclique],
                                      N.MOTIF_INDICES: [[0]]}).random_clustered_graph(
        [(1, 1), (1, 1)]), record_shuffles=True)
seed(15)
run("custom slot index out of range",
    lambda: GCMAlgorithmCustomMotifs({N.MOTIF_SIZES: [2], N.EDGE_NAMES: [twoclique_names],
                                      N.BUILD_FUNCTIONS: [twoclique],
                                      N.MOTIF_INDICES: [[3]]}).random_clustered_graph(jds4),
    record_shuffles=True)
seed(15)
run("custom empty slot list",
    lambda: GCMAlgorithmCustomMotifs({N.MOTIF_SIZES: [2], N.EDGE_NAMES: [twoclique_names],
                                      N.BUILD_FUNCTIONS: [twoclique],
                                      N.MOTIF_INDICES: [[]]}).random_clustered_graph(jds4),
    record_shuffles=True)
seed(15)
del calls[:]
run("custom inconsistent orbit counts (pop from empty)",
    lambda: GCMAlgorithmCustomMotifs({N.MOTIF_SIZES: [1, 2], N.EDGE_NAMES: [threeclique_names],
                                      N.BUILD_FUNCTIONS: [logging_threeclique],
                                      N.MOTIF_INDICES: [[0, 1]]}).random_clustered_graph(
        [(1, 1), (1, 1), (1, 0), (1, 0)]),
    mutables=[("calls", calls)], record_shuffles=True)
seed(15)
run("custom more motif types than builders",
    lambda: GCMAlgorithmCustomMotifs({N.MOTIF_SIZES: [2, 2], N.EDGE_NAMES: [twoclique_names],
                                      N.BUILD_FUNCTIONS: [twoclique],
                                      N.MOTIF_INDICES: [[0], [1]]}).random_clustered_graph(
        [(1, 1), (1, 1)]), record_shuffles=True)
seed(15)
run("custom edge names not callable",
    lambda: GCMAlgorithmCustomMotifs({N.MOTIF_SIZES: [2], N.EDGE_NAMES: ["2-clique"],
                                      N.BUILD_FUNCTIONS: [twoclique],
                                      N.MOTIF_INDICES: [[0]]}).random_clustered_graph(jds4),
    record_shuffles=True)
seed(15)
run("custom builder returns None",
    lambda: GCMAlgorithmCustomMotifs({N.MOTIF_SIZES: [2], N.EDGE_NAMES: [twoclique_names],
                                      N.BUILD_FUNCTIONS: [lambda vs: None],
                                      N.MOTIF_INDICES: [[0]]}).random_clustered_graph(jds4),
    record_shuffles=True)
seed(15)
run("custom builder returns empty",
    lambda: GCMAlgorithmCustomMotifs({N.MOTIF_SIZES: [2], N.EDGE_NAMES: [lambda: []],
                                      N.BUILD_FUNCTIONS: [lambda vs: []],
                                      N.MOTIF_INDICES: [[0]]}).random_clustered_graph(jds4),
    record_shuffles=True)

# constructor error paths
run("custom ctor missing motif indices", lambda: GCMAlgorithmCustomMotifs(
    fast_params([2], [twoclique_names], [twoclique])))
run("custom ctor missing base keys", lambda: GCMAlgorithmCustomMotifs({N.MOTIF_INDICES: [[0]]}))
run("custom ctor None", lambda: GCMAlgorithmCustomMotifs(None))

# partition through the instance
for lst, n in (([], 2), ([1], 1), ([1, 2, 3, 4, 5], 2), ([1, 2, 3, 4], 2), ([1, 2, 3], 5),
               ((1, 2, 3), 2), ("abcde", 2), ([1, 2, 3], 0), ([1, 2, 3], -1), ([1, 2, 3], 1.5),
               (None, 2), ([1, 2], None), (np.arange(5), 2), (range(7), 3)):
    src = copy.copy(lst)
    res = run("partition %r n=%r" % (lst, n), lambda: calg.partition(lst, n),
              mutables=[("lst", lst)])
    if isinstance(res, list) and res and isinstance(lst, list):
        print("   parts are copies", all(p is not lst for p in res))
lst = [1, 2, 3, 4, 5, 6]
parts = calg.partition(lst, 4)
parts[0].pop()
print("== partition independence", lst, parts, calg.partition(lst, 4))


# subclass overriding partition and infinite_sequence
class CustomSub(GCMAlgorithmCustomMotifs):
    def partition(self, lst, n):
        calls.append(("partition", list(lst), n))
        return [list(reversed(lst[i : i + n])) for i in range(0, len(lst), n)]

    def infinite_sequence(self):
        num = -3
        while True:
            yield num
            num -= 1


seed(16)
del calls[:]
run("custom subclass overriding partition / infinite_sequence",
    lambda: CustomSub(custom_params()).random_clustered_graph(jds_c),
    mutables=[("calls", calls)], record_shuffles=True)

# interleaving the two generators on one RNG stream
seed(17)
run("interleave fast", lambda: alg2.random_clustered_graph(jds2))
run("interleave custom", lambda: calg.random_clustered_graph(jds_c))
run("interleave network", lambda: net_alg.random_clustered_graph(jds2))
run("interleave custom again", lambda: calg.random_clustered_graph(jds_c))
print("final rng", rng_digest())
