"""Equivalence digest for gcmpy/message_passing/equations/automated_equation.py.

Run with cwd = a checkout of gcmpy.  Prints a deterministic digest of every result
(bit-exact floats via repr / float.hex), of the evaluator's caches, of the inputs
after the calls and of the RNG states.
"""
import sys
import os
import random
import hashlib
from fractions import Fraction

# string-labelled motifs live in sets: pin the str hash seed so that runs are comparable
if os.environ.get("PYTHONHASHSEED") != "0":
    os.environ["PYTHONHASHSEED"] = "0"
    os.execv(sys.executable, [sys.executable] + sys.argv)

sys.path.insert(0, os.getcwd())

import numpy as np
import networkx as nx

from gcmpy.message_passing.equations.automated_equation import AutomatedEquation

random.seed(12345)
np.random.seed(12345)


def fl(x):
    if isinstance(x, float):
        return f"{x!r}|{x.hex()}"
    if isinstance(x, np.ndarray):
        return "nd[" + ",".join(fl(float(v)) for v in x.ravel()) + "]"
    if isinstance(x, np.floating):
        return f"{type(x).__name__}:{fl(float(x))}"
    return f"{type(x).__name__}:{x!r}"


def graph_state(G):
    out = [type(G).__name__, repr(G.name), repr(dict(G.graph))]
    out.append("nodes=" + repr([(n, sorted(d.items())) for n, d in G._node.items()]))
    out.append("adj=" + repr([(n, [(m, sorted(dd.items()) if isinstance(dd, dict) else repr(dd))
                                    for m, dd in nb.items()]) for n, nb in G._adj.items()]))
    out.append("dictkeys=" + repr(list(G.__dict__.keys())))
    return " ; ".join(out)


def cache_state(ae):
    out = []
    out.append("CS keys=" + repr(list(ae._connected_subgraphs.keys())))
    for k, v in ae._connected_subgraphs.items():
        out.append(f"  CS[{k!r}] = " + (repr([list(s) for s in v]) if v is not None else "None"))
    out.append("EC keys=" + repr(list(ae._edge_combinations.keys())))
    for k, v in ae._edge_combinations.items():
        out.append(f"  EC[{k!r}] = " + repr(v) + " types=" + repr(sorted({type(x).__name__ for x in (v or [])})))
    out.append("attrs=" + repr(sorted(ae.__dict__.keys())))
    return "\n".join(out)


def rng_state():
    h = hashlib.sha256()
    h.update(repr(random.getstate()).encode())
    st = np.random.get_state()
    h.update(repr((st[0], st[1].tolist(), st[2], st[3], st[4])).encode())
    return h.hexdigest()


def call(label, f, *a, **k):
    try:
        r = f(*a, **k)
        print(label, "->", fl(r) if not isinstance(r, list) else repr(r))
        return r
    except BaseException as e:  # noqa
        ctx = e.__context__
        cause = e.__cause__
        print(label, "!! ", type(e).__name__, repr(e.args),
              "ctx=", type(ctx).__name__ if ctx is not None else None,
              "cause=", type(cause).__name__ if cause is not None else None)
        return None


def with_u(G, name, mode="rand"):
    G.name = name
    for i, n in enumerate(G.nodes()):
        if mode == "rand":
            G.nodes[n]["u"] = random.random()
        elif mode == "one":
            G.nodes[n]["u"] = 1.0
        elif mode == "frac":
            G.nodes[n]["u"] = Fraction(i + 1, i + 3)
        elif mode == "np":
            G.nodes[n]["u"] = np.float64(np.random.random())
    return G


def motifs():
    out = []
    out.append(with_u(nx.complete_graph(2), "K2"))
    out.append(with_u(nx.complete_graph(3), "K3"))
    out.append(with_u(nx.complete_graph(4), "K4"))
    out.append(with_u(nx.complete_graph(5), "K5"))
    out.append(with_u(nx.cycle_graph(4), "C4"))
    out.append(with_u(nx.cycle_graph(5), "C5"))
    out.append(with_u(nx.cycle_graph(6), "C6"))
    out.append(with_u(nx.path_graph(5), "P5"))
    out.append(with_u(nx.star_graph(4), "S4"))
    out.append(with_u(nx.wheel_graph(5), "W5"))
    out.append(with_u(nx.diamond_graph(), "diamond"))
    out.append(with_u(nx.bull_graph(), "bull"))
    out.append(with_u(nx.house_graph(), "house"))
    out.append(with_u(nx.lollipop_graph(3, 2), "lolli"))
    out.append(with_u(nx.complete_bipartite_graph(2, 3), "K23"))
    # chorded cycle, node labels not in sorted order
    G = nx.Graph()
    G.add_edges_from([(7, 3), (3, 9), (9, 1), (1, 7), (7, 9), (1, 12)])
    out.append(with_u(G, "odd-labels"))
    # string labels
    G = nx.Graph()
    G.add_edges_from([("a", "b"), ("b", "c"), ("c", "a"), ("c", "d")])
    out.append(with_u(G, "strs"))
    # mixed labels
    G = nx.Graph()
    G.add_edges_from([(0, "x"), ("x", (1, 2)), ((1, 2), 0), (0, 2.5)])
    out.append(with_u(G, "mixed"))
    # single vertex
    G = nx.Graph()
    G.add_node(0)
    out.append(with_u(G, "single"))
    # with a self loop
    G = nx.Graph()
    G.add_edges_from([(0, 1), (1, 2), (2, 0), (1, 1)])
    out.append(with_u(G, "selfloop"))
    # extra graph / edge attributes
    G = nx.cycle_graph(4)
    G.graph["colour"] = "red"
    for (a, b) in G.edges():
        G.edges[a, b]["w"] = a + b
    out.append(with_u(G, "attrs"))
    # random connected graphs
    for i in range(4):
        while True:
            G = nx.gnp_random_graph(5, 0.6, seed=random.randrange(10 ** 6))
            if nx.is_connected(G):
                break
        out.append(with_u(G, f"rnd{i}"))
    return out


print("=== section 1: automated_equation on one evaluator, many motifs / roots / phi ===")
AE = AutomatedEquation()
Ms = motifs()
phis = [0.0, 1.0, 0.5, 0.1, 0.37, 0.999, random.random(), random.random()]
for G in Ms:
    roots = list(G.nodes())
    for root in roots:
        for p in phis[:3] + [phis[6]]:
            call(f"AE[{G.name}] root={root!r} p={p!r}", AE.automated_equation, G, p, root)
    print("G after:", graph_state(G))
print(cache_state(AE))
print("rng:", rng_state())

print("=== section 2: repeated calls / changed u / call order independence on same object ===")
for G in Ms[:8]:
    for n in G.nodes():
        G.nodes[n]["u"] = random.random()
    for root in reversed(list(G.nodes())):
        for p in phis[3:]:
            call(f"AE2[{G.name}] root={root!r} p={p!r}", AE.automated_equation, G, p, root)
print(cache_state(AE))
print("rng:", rng_state())

print("=== section 3: fresh evaluator per call, different order ===")
for G in reversed(Ms):
    ae = AutomatedEquation()
    root = list(G.nodes())[-1]
    call(f"fresh[{G.name}] root={root!r}", ae.automated_equation, G, 0.42, root)
    call(f"fresh-again[{G.name}] root={root!r}", ae.automated_equation, G, 0.42, root)
    print(cache_state(ae))

print("=== section 4: non-float phi / u (Fraction, numpy scalar, numpy array, int) ===")
ae = AutomatedEquation()
for mode in ("frac", "np", "one"):
    for base, nm in ((nx.complete_graph(4), "K4"), (nx.cycle_graph(5), "C5"), (nx.diamond_graph(), "dm"),
                     (nx.path_graph(3), "P3")):
        G = with_u(base.copy(), f"{nm}-{mode}", mode)
        for p in (Fraction(1, 3), Fraction(0), Fraction(1), np.float64(0.3), np.float32(0.3), 0, 1,
                  np.array([0.0, 0.25, 0.5, 1.0]), np.array([[0.1, 0.9]])):
            for root in (0, 2):
                call(f"nf[{G.name}] root={root} p={p!r}", ae.automated_equation, G, p, root)
        print("G after:", graph_state(G))
try:
    import sympy
    x = sympy.Symbol("x")
    G = nx.complete_graph(3)
    G.name = "sym"
    for n in G.nodes():
        G.nodes[n]["u"] = sympy.Symbol(f"u{n}")
    r = ae.automated_equation(G, x, 0)
    print("sympy:", sympy.srepr(r))
except ImportError:
    print("sympy: not available")
print(cache_state(ae))
print("rng:", rng_state())

print("=== section 5: public helpers directly ===")
ae = AutomatedEquation()
for G in Ms:
    for root in list(G.nodes())[:2]:
        r1 = call(f"gcs[{G.name}] root={root!r}", lambda G=G, root=root: [list(s) for s in ae.get_connected_subgraphs(G, root)])
        a = ae.get_connected_subgraphs(G, root)
        b = ae.get_connected_subgraphs(G, root)
        print("  same object on repeat:", a is b, "is cache entry:", a is ae._connected_subgraphs[f"{root}-{G.name}"])
        call(f"get_us[{G.name}] root={root!r}", ae.get_us, G, root)
    call(f"get_us[{G.name}] root=absent", ae.get_us, G, "absent")
    c = list(G.nodes())
    r = call(f"gec[{G.name}]", ae.get_edge_combinations, G, c)
    r2 = ae.get_edge_combinations(G, c)
    print("  same object on repeat:", r is r2, "is cache entry:", r2 is ae._edge_combinations[f"{c}-{G.name}"])
    print("G after:", graph_state(G))
print(cache_state(ae))

print("=== section 6: _get_connected_subgraphs directly ===")
for G in Ms[:10]:
    for root in list(G.nodes())[:2]:
        res = []
        sub = {root}
        poss = set(G.neighbors(root))
        excl = {root}
        ret = ae._get_connected_subgraphs(G, sub, poss, excl, res, len(G))
        print(f"_gcs[{G.name}] root={root!r} ret={ret!r} n={len(res)}", [list(s) for s in res],
              "first is input:", res[0] is sub, "inputs after:", list(sub), list(poss), list(excl))
        # smaller max size cut-off
        res = []
        ae._get_connected_subgraphs(G, {root}, set(G.neighbors(root)), {root}, res, 2)
        print(f"_gcs2[{G.name}] root={root!r}", [list(s) for s in res])
        res = []
        ae._get_connected_subgraphs(G, {root}, set(G.neighbors(root)), {root}, res, 1)
        print(f"_gcs1[{G.name}] root={root!r}", [list(s) for s in res])
        # non-empty results list, pre-excluded vertices
        res = ["sentinel"]
        others = [n for n in G.nodes() if n != root]
        ae._get_connected_subgraphs(G, {root}, set(G.neighbors(root)), {root, others[0]}, res, len(G))
        print(f"_gcs-ex[{G.name}] root={root!r}", [list(s) if isinstance(s, set) else s for s in res])

print("=== section 7: get_edge_combinations edge cases ===")
ae = AutomatedEquation()
# disconnected graphs (nothing is connected)
G = nx.Graph(); G.add_edges_from([(0, 1), (2, 3)]); G.name = "disc"
call("gec disc", ae.get_edge_combinations, G, [0, 1, 2, 3])
G = nx.Graph(); G.add_nodes_from([0, 1, 2]); G.name = "empty3"
call("gec empty3", ae.get_edge_combinations, G, [0, 1, 2])
G = nx.Graph(); G.add_nodes_from([0, 1]); G.add_edge(0, 0); G.name = "loop+iso"
call("gec loop+iso", ae.get_edge_combinations, G, [0, 1])
G = nx.Graph(); G.add_node(0); G.name = "one"
call("gec one", ae.get_edge_combinations, G, [0])
G = nx.Graph(); G.add_edge(0, 0); G.name = "oneloop"
call("gec oneloop", ae.get_edge_combinations, G, [0])
G = nx.Graph(); G.add_edges_from([(0, 1), (1, 2), (0, 0), (2, 2)]); G.name = "loops"
call("gec loops", ae.get_edge_combinations, G, [0, 1, 2])
# null graph: networkx raises
G = nx.Graph(); G.name = "null"
call("gec null", ae.get_edge_combinations, G, [])
call("gec null again", ae.get_edge_combinations, G, [])
# directed graphs: networkx refuses
G = nx.DiGraph(); G.add_edges_from([(0, 1), (1, 2)]); G.name = "di"
call("gec di", ae.get_edge_combinations, G, [0, 1, 2])
G = nx.DiGraph(); G.add_nodes_from([0, 1, 2]); G.name = "di-empty"
call("gec di-empty", ae.get_edge_combinations, G, [0, 1, 2])
G = nx.DiGraph(); G.name = "di-null"
call("gec di-null", ae.get_edge_combinations, G, [])
# multigraph
G = nx.MultiGraph(); G.add_edges_from([(0, 1), (0, 1), (1, 2)]); G.name = "multi"
call("gec multi", ae.get_edge_combinations, G, [0, 1, 2])
G = nx.MultiGraph(); G.add_nodes_from([0, 1, 2]); G.add_edge(0, 1); G.name = "multi-sparse"
call("gec multi-sparse", ae.get_edge_combinations, G, [0, 1, 2])
# the key ignores the graph: same key, different graph gives the stale entry
G1 = nx.path_graph(3); G1.name = "same"
G2 = nx.complete_graph(3); G2.name = "same"
call("gec same/path", ae.get_edge_combinations, G1, [0, 1, 2])
call("gec same/K3 (stale)", ae.get_edge_combinations, G2, [0, 1, 2])
call("gec same/K3 other c", ae.get_edge_combinations, G2, [2, 1, 0])
# c is only part of the key
call("gec c=str", ae.get_edge_combinations, G2, "whatever")
# not a graph
call("gec notgraph", ae.get_edge_combinations, object(), [0])
call("gec None", ae.get_edge_combinations, None, [0])
print(cache_state(ae))

print("=== section 8: error paths and stale caches in automated_equation / get_connected_subgraphs ===")
ae = AutomatedEquation()
G = with_u(nx.complete_graph(3), "err")
call("root missing", ae.automated_equation, G, 0.5, 99)
call("root unhashable", ae.automated_equation, G, 0.5, [0])
call("gcs root missing", ae.get_connected_subgraphs, G, 99)
print(cache_state(ae))
call("p is str", ae.automated_equation, G, "0.5", 0)
print(cache_state(ae))
call("p is None", ae.automated_equation, G, None, 1)
print(cache_state(ae))
H = nx.complete_graph(3); H.name = "no-u"
call("missing u", ae.automated_equation, H, 0.5, 0)
print(cache_state(ae))
H = nx.complete_graph(3); H.name = "part-u"; H.nodes[0]["u"] = 0.5
call("u only on root", ae.automated_equation, H, 0.5, 0)
call("u only on non-root", ae.automated_equation, H, 0.5, 1)
H = nx.complete_graph(3); H.name = "str-u"
for n in H.nodes():
    H.nodes[n]["u"] = "a"
call("u is str", ae.automated_equation, H, 0.5, 0)
# disconnected motif: only the root's component matters
H = nx.Graph(); H.add_edges_from([(0, 1), (1, 2), (3, 4)]); with_u(H, "disconnected")
for r in H.nodes():
    call(f"disconnected root={r}", ae.automated_equation, H, 0.3, r)
print("H after:", graph_state(H))
# same name, different motif -> stale caches are used
A = with_u(nx.path_graph(4), "clash")
B = with_u(nx.complete_graph(4), "clash")
Csmall = with_u(nx.path_graph(2), "clash")
call("clash A", ae.automated_equation, A, 0.3, 0)
call("clash B (stale)", ae.automated_equation, B, 0.3, 0)
call("clash small (stale)", ae.automated_equation, Csmall, 0.3, 0)
call("clash B root 1", ae.automated_equation, B, 0.3, 1)
call("clash A root 1 (stale)", ae.automated_equation, A, 0.3, 1)
ae2 = AutomatedEquation()
call("clash2 B", ae2.automated_equation, B, 0.3, 0)
call("clash2 A (stale)", ae2.automated_equation, A, 0.3, 0)
call("clash2 small (stale)", ae2.automated_equation, Csmall, 0.3, 0)
print(cache_state(ae))
print(cache_state(ae2))
# unnamed graphs all share the name ''
ae3 = AutomatedEquation()
U1 = with_u(nx.cycle_graph(4), "")
U2 = with_u(nx.complete_graph(4), "")
call("unnamed C4", ae3.automated_equation, U1, 0.6, 0)
call("unnamed K4", ae3.automated_equation, U2, 0.6, 0)
print(cache_state(ae3))
# directed / multigraph motifs
D = nx.DiGraph(); D.add_edges_from([(0, 1), (1, 2), (2, 0)]); with_u(D, "dimotif")
call("digraph motif", ae3.automated_equation, D, 0.5, 0)
M = nx.MultiGraph(); M.add_edges_from([(0, 1), (0, 1), (1, 2)]); with_u(M, "multimotif")
call("multigraph motif", ae3.automated_equation, M, 0.5, 0)
call("multigraph motif r1", ae3.automated_equation, M, 0.5, 1)
print("M after:", graph_state(M))
print(cache_state(ae3))
# pre-seeded / tampered caches are honoured
ae4 = AutomatedEquation()
T = with_u(nx.complete_graph(3), "tamper")
ae4._connected_subgraphs["0-tamper"] = [{0}, {0, 1}]
call("tampered components", ae4.automated_equation, T, 0.25, 0)
ae4._connected_subgraphs["1-tamper"] = []
call("tampered empty components", ae4.automated_equation, T, 0.25, 1)
ae4._connected_subgraphs["2-tamper"] = None
call("tampered None components", ae4.automated_equation, T, 0.25, 2)
call("tampered None gcs", ae4.get_connected_subgraphs, T, 2)
ae4._edge_combinations["[0, 1, 2]-tamper"] = None
call("tampered None gec", ae4.get_edge_combinations, T, [0, 1, 2])
print(cache_state(ae4))
# frozen graph
F = nx.freeze(with_u(nx.complete_graph(3), "frozen"))
call("frozen", ae4.automated_equation, F, 0.5, 0)
print("F after:", graph_state(F))

print("=== section 9: through MessagePassing-style usage, interleaved evaluator objects ===")
ae_a, ae_b = AutomatedEquation(), AutomatedEquation()
for G in Ms[:12]:
    for root in list(G.nodes())[:2]:
        p = random.random()
        ra = ae_a.automated_equation(G, p, root)
        rb = ae_b.automated_equation(G, p, root)
        rc = AutomatedEquation().automated_equation(G, p, root)
        print(f"inter[{G.name}] root={root!r} p={p!r}", fl(ra), fl(rb), fl(rc))
print("rng:", rng_state())
print("=== done ===")
