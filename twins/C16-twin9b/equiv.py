import sys, os; sys.path.insert(0, os.getcwd())
import random, hashlib, fractions, decimal
import numpy as np

random.seed(1602)
np.random.seed(1602)

from gcmpy.message_passing.equations.chordless_cycle_equation import (
    chordless_cycle_equation,
)

out = []


def show(r):
    if isinstance(r, np.ndarray):
        return "%s %s %r" % (type(r).__name__, r.dtype, r.tolist())
    return "%s %r" % (type(r).__name__, r)


def call(tag, *args, **kw):
    try:
        out.append("%s -> %s" % (tag, show(chordless_cycle_equation(*args, **kw))))
    except BaseException as e:
        out.append("%s !! %s" % (tag, type(e).__name__))


vals = [0.0, -0.0, 1.0, 0.5, 0.1, 0.9, 1e-300, 1 - 1e-16, 1.5, -0.25, -3.0, 0, 1, 2,
        1e200, float("inf"), float("-inf"), float("nan"), True,
        fractions.Fraction(1, 3), np.float64(0.3), np.float32(0.7)]
for n in list(range(-3, 12)) + [50, 400, True, False, np.int64(5)]:
    for phi in vals:
        for u in vals:
            call("n=%r u=%r p=%r" % (n, u, phi), n, u, phi)

for n in range(0, 40):
    for _ in range(20):
        u, phi = random.random(), random.random()
        call("rnd n=%d" % n, n, u, phi)
        call("rnd-kw n=%d" % n, n=n, phi=phi, u=u)
    u, phi = np.random.random(), np.random.random()
    call("nprnd n=%d" % n, n, u, phi)
    call("arr n=%d" % n, n, np.random.random(3), 0.4)
    call("arr2 n=%d" % n, n, np.random.random(3), np.random.random(3))
    call("mat n=%d" % n, n, np.matrix(np.random.random((2, 2))), np.matrix(np.random.random((2, 2))))
    call("frac n=%d" % n, n, fractions.Fraction(random.randint(0, 9), 10), fractions.Fraction(2, 7))
    call("dec n=%d" % n, n, decimal.Decimal("0.3"), decimal.Decimal("0.6"))
    call("cplx n=%d" % n, n, 0.3 + 0.1j, 0.6)

bad = [
    (3.0, 0.5, 0.5), (2.5, 0.5, 0.5), ("3", 0.5, 0.5), (None, 0.5, 0.5),
    (3, "x", 0.5), (3, 0.5, "x"), (2, "x", 0.5), (2, 0.5, "x"), (1, "x", 2),
    (3, None, 0.5), (3, 0.5, None), (2, None, 0.5), (3, [1], 0.5), (3, [1], 2),
    (2, [1], 2), (5, decimal.Decimal("0.3"), 0.5), (3, 0.5, [0.5]),
    (10, 1e200, 1e200), (3, 10 ** 400, 0.5), (0, 0.0, 0.0), (1, 0.0, 0.0),
    (-1, 0.0, 0.5), (-5, 0, 0), (4, "ab", 2), (4, b"ab", 2), (4,), (4, 1, 2, 3),
    ([4], 0.5, 0.5), (np.float64(4.0), 0.5, 0.5),
]
for k, a in enumerate(bad):
    call("bad%d" % k, *a)

out.append("rng " + hashlib.sha256(repr(random.getstate()).encode()).hexdigest())
out.append("nprng " + hashlib.sha256(repr(np.random.get_state()).encode()).hexdigest())
print("\n".join(out))
print("digest", hashlib.sha256("\n".join(out).encode()).hexdigest())
