import sys, os; sys.path.insert(0, os.getcwd())
# Equivalence harness for MPCC (gcmpy/covers/mpcc.py).  VARIANT = which guard is stressed.
VARIANT = "b"
import random, hashlib, itertools, pickle
import numpy as np
import networkx as nx
from gcmpy.covers.mpcc import MPCC
import gcmpy

H = hashlib.sha256()
LINES = []

def out(*xs):
    s = " ".join(str(x) for x in xs)
    LINES.append(s)
    H.update(s.encode() + b"\n")

def rng_digest():
    a = hashlib.sha256(repr(random.getstate()).encode()).hexdigest()[:16]
    st = np.random.get_state()
    b = hashlib.sha256(repr((st[0], st[1].tolist(), st[2], st[3], st[4])).encode()).hexdigest()[:16]
    return a + "/" + b

def gdump(G):
    try:
        nodes = [(repr(n), sorted((repr(k), repr(v)) for k, v in d.items())) for n, d in G.nodes(data=True)]
        if G.is_multigraph():
            edges = [(repr(u), repr(v), repr(k), sorted((repr(a), repr(b)) for a, b in d.items()))
                     for u, v, k, d in G.edges(keys=True, data=True)]
        else:
            edges = [(repr(u), repr(v), sorted((repr(a), repr(b)) for a, b in d.items()))
                     for u, v, d in G.edges(data=True)]
        return repr((type(G).__name__, sorted(G.graph.items(), key=repr), nodes, edges))
    except Exception as ex:  # pragma: no cover
        return "DUMPFAIL " + type(ex).__name__

def run(tag, make, *args, seed=0, repeat=1, **kw):
    random.seed(seed); np.random.seed(seed)
    try:
        G = make()
    except Exception as ex:
        out(tag, "MAKEFAIL", type(ex).__name__); return
    for r in range(repeat):
        try:
            R = MPCC(G, *args, **kw)
            res = ("OK", R is G, gdump(R) if R is not None else None)
        except BaseException as ex:
            res = ("EXC", type(ex).__name__, str(ex)[:80])
        full = repr(res) + "|" + gdump(G) if G is not None and hasattr(G, "nodes") else repr(res)
        out(tag, "args", repr(args), repr(kw), "rep", r, hashlib.sha256(full.encode()).hexdigest()[:20],
            res[0], res[1] if res[0] == "EXC" else "", "rng", rng_digest())
        if len(full) < 400:
            out("   ", full)

class NaNLike(float):
    pass

MAXS = [(), (0,), (1,), (2,), (3,), (4,), (10,), (-1,), (-7,), (0.5,), (1.0,), (1.5,), (2.5,),
        (float("nan"),), (float("inf"),), (float("-inf"),), (True,), (False,), (None,), ("2",), ("",),
        ([1],), ((2,),), (2 + 0j,), (np.int64(2),), (np.float64(0.5),), (np.array([1, 2]),), (np.array(2),)]

def g_empty(): return nx.Graph()
def g_null_attr():
    G = nx.Graph(name="x"); return G
def g_one():
    G = nx.Graph(); G.add_node(0, colour="r"); return G
def g_iso(n):
    def f():
        G = nx.Graph(); G.add_nodes_from(range(n)); return G
    return f
def g_edge():
    G = nx.Graph(); G.add_edge("a", "b", w=1); return G
def g_selfloop_only():
    G = nx.Graph(); G.add_edge(0, 0); return G
def g_selfloops():
    G = nx.complete_graph(4); G.add_edge(0, 0); G.add_edge(2, 2); G.add_edge(7, 7); return G
def g_path(n): return lambda: nx.path_graph(n)
def g_K(n): return lambda: nx.complete_graph(n)
def g_mixed():
    G = nx.Graph(); G.add_edges_from([(1, "x"), ("x", (2, 3)), ((2, 3), 1), (1, None), (None, 4.5), (frozenset([1]), 1)])
    G.add_node("lonely"); return G
def g_prelabelled():
    G = nx.complete_graph(5); G.add_edge(4, 5); G.add_node(9)
    for u, v in G.edges: G.edges[u, v]["clique"] = "stale"; G.edges[u, v]["w"] = u + v
    return G
def g_frozen():
    return nx.freeze(nx.complete_graph(4))
def g_frozen_empty():
    return nx.freeze(nx.Graph())
def g_er(n, p, s):
    return lambda: nx.gnp_random_graph(n, p, seed=s)
def g_caveman(): return nx.connected_caveman_graph(3, 4)
def g_windmill(): return nx.windmill_graph(4, 3)
def g_two_tri_shared_edge():
    G = nx.Graph(); G.add_edges_from([(0, 1), (1, 2), (0, 2), (1, 3), (2, 3)]); return G
def g_k4_plus_iso():
    G = nx.complete_graph(4); G.add_nodes_from(["i1", "i2", "i3"]); return G
def g_di(): return nx.DiGraph([(0, 1), (1, 2)])
def g_di_empty(): return nx.DiGraph()
def g_multidi_empty(): return nx.MultiDiGraph()
def g_multi_empty(): return nx.MultiGraph()
def g_multi_iso():
    G = nx.MultiGraph(); G.add_nodes_from([1, 2, 3]); return G
def g_multi():
    G = nx.MultiGraph(); G.add_edges_from([(0, 1), (0, 1), (1, 2), (0, 2)]); return G
def g_none(): return None
def g_notgraph(): return {0: [1]}
def g_list(): return []

GRAPHS = [("empty", g_empty), ("emptyattr", g_null_attr), ("one", g_one), ("iso2", g_iso(2)), ("iso5", g_iso(5)),
          ("edge", g_edge), ("selfloop_only", g_selfloop_only), ("selfloops", g_selfloops),
          ("path2", g_path(2)), ("path3", g_path(3)), ("path6", g_path(6)),
          ("K1", g_K(1)), ("K2", g_K(2)), ("K3", g_K(3)), ("K4", g_K(4)), ("K6", g_K(6)), ("K0", g_K(0)),
          ("mixed", g_mixed), ("prelab", g_prelabelled), ("frozen", g_frozen), ("frozen_empty", g_frozen_empty),
          ("caveman", g_caveman), ("windmill", g_windmill), ("twotri", g_two_tri_shared_edge), ("k4iso", g_k4_plus_iso),
          ("di", g_di), ("di_empty", g_di_empty), ("multidi_empty", g_multidi_empty), ("multi_empty", g_multi_empty),
          ("multi_iso", g_multi_iso), ("multi", g_multi), ("none", g_none), ("dict", g_notgraph), ("list", g_list)]
for i, (n, p) in enumerate([(6, 0.5), (8, 0.6), (10, 0.4), (12, 0.5), (14, 0.35), (9, 0.9), (15, 0.1), (20, 0.05), (7, 0.0), (7, 1.0)]):
    GRAPHS.append((f"er{n}_{p}", g_er(n, p, 100 + i)))

# 1. every graph x every max_size (positional), twice on the same object
for name, mk in GRAPHS:
    for ms in MAXS:
        run(name, mk, *ms, seed=7, repeat=2)

# 2. keyword form, bad keyword, too many args
for name, mk in GRAPHS[:12]:
    run(name + "/kw", mk, max_size=2, seed=3)
    run(name + "/kwNone", mk, max_size=None, seed=3)
    try:
        MPCC(mk(), 1, 2); out(name, "3args OK")
    except BaseException as ex:
        out(name, "3args", type(ex).__name__)
    try:
        MPCC(mk(), bogus=1); out(name, "bogus OK")
    except BaseException as ex:
        out(name, "bogus", type(ex).__name__)
try:
    MPCC(); out("noargs OK")
except BaseException as ex:
    out("noargs", type(ex).__name__)

# 3. many seeds on moderately sized graphs; repeated calls; random stream position after each call
for s in range(25):
    for name, mk in [("er10", g_er(10, 0.5, s)), ("er13", g_er(13, 0.45, s)), ("caveman", g_caveman), ("k4iso", g_k4_plus_iso),
                     ("iso5", g_iso(5)), ("empty", g_empty), ("one", g_one)]:
        for ms in [(), (1,), (2,), (3,), (0.5,)]:
            run(f"{name}/s{s}", mk, *ms, seed=s, repeat=3)

# 4. interleaving: stream continuity across calls on different graphs without reseeding
random.seed(99); np.random.seed(99)
for k in range(40):
    n = random.randrange(0, 9)
    p = random.random()
    G = nx.gnp_random_graph(n, p, seed=k)
    if k % 5 == 0:
        G.add_nodes_from(["z%d" % j for j in range(k % 3)])
    ms = random.choice([0, 0, 1, 2, 3, 5, -2, 0.5])
    try:
        R = MPCC(G, ms); tag = "OK"
    except BaseException as ex:
        tag = type(ex).__name__
    out("chain", k, n, round(p, 6), ms, tag, hashlib.sha256(gdump(G).encode()).hexdigest()[:16], rng_digest())

# 5. via the package namespace
out("same-object", gcmpy.MPCC is MPCC, gcmpy.covers.MPCC is MPCC)
out("signature", MPCC.__name__, MPCC.__defaults__, MPCC.__code__.co_varnames[:MPCC.__code__.co_argcount],
    sorted(MPCC.__annotations__))

print("\n".join(LINES))
print("DIGEST", VARIANT, H.hexdigest(), len(LINES))
