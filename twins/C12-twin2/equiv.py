"""
Equivalence harness for the C12 refactoring (MCMC rewiring, keys view, ejk matrices).
Run with cwd = a checkout of gcmpy; prints a deterministic digest.
"""
import os
import sys

if os.environ.get("PYTHONHASHSEED") != "0":
    # make str hashing (set iteration orders) reproducible between runs
    os.environ["PYTHONHASHSEED"] = "0"
    os.execv(sys.executable, [sys.executable] + sys.argv)

sys.path.insert(0, os.getcwd())

import hashlib
import itertools
import random
import signal
import warnings

warnings.filterwarnings("ignore")

import networkx as nx
import numpy as np

from gcmpy.names.network_names import NetworkNames
from gcmpy.names.tools_names import ToolsNames
from gcmpy.names.gcm_algorithm_names import GCMAlgorithmNames
from gcmpy.names.joint_degree_names import JointDegreeNames
from gcmpy.network.network import Network
from gcmpy.tools.markov_chain_monte_carlo import MarkovChainMonteCarlo
from gcmpy.tools.markov_chain_monte_carlo_rewiring import (
    MarkovChainMonteCarloRewiring,
    ErrorMarkovChainMonteCarloRewiring,
)
from gcmpy.tools.joint_excess_joint_degree_matrices import (
    JointExcessJointDegreeMatrices,
)
from gcmpy.tools.joint_excess_joint_degree_keys_view import (
    JointExcessJointDegreeKeysView,
)
from gcmpy.tools.joint_excess_joint_degree import JointExcessJointDegree
from gcmpy.tools.joint_excess_from_ejk import JointExcessFromEjk
from gcmpy.tools.joint_degree_from_excess import JointDegreeFromExcess
from gcmpy.joint_degree.joint_degree_loaders.joint_degree_manual import (
    JointDegreeManual,
)
from gcmpy.motif_generators.clique_motif import clique_motif
from gcmpy.gcm_algorithm.gcm_algorithm_network import GCMAlgorithmNetwork

JD = NetworkNames.JOINT_DEGREE
TOP = NetworkNames.TOPOLOGY
MID = NetworkNames.MOTIF_IDS

EDGE_NAMES = ["2-clique", "3-clique"]


def h(obj) -> str:
    return hashlib.sha256(repr(obj).encode()).hexdigest()[:16]


def rng_digest() -> str:
    st = np.random.get_state()
    return h(random.getstate()) + "/" + h((st[0], st[1].tolist(), st[2], st[3], st[4]))


def seed(n: int) -> None:
    random.seed(n)
    np.random.seed(n)


def graph_digest(G: nx.Graph) -> str:
    nodes = [(n, repr(d)) for n, d in G.nodes(data=True)]
    edges = [(u, v, repr(sorted((k.value, w) for k, w in d.items()))) for u, v, d in G.edges(data=True)]
    adj = [(n, list(G.adj[n])) for n in G.nodes()]
    return "nodes=%s edges=%s adj=%s n=%d m=%d" % (
        h(nodes),
        h(edges),
        h(adj),
        G.number_of_nodes(),
        G.number_of_edges(),
    )


def counters(m=None) -> str:
    s = "cls(%d,%d)" % (
        MarkovChainMonteCarlo._proposal_count,
        MarkovChainMonteCarlo._proposals_accepted,
    )
    if m is not None:
        s += " inst(%r,%r,%r)" % (
            m._proposal_count,
            m._proposals_accepted,
            m._acceptance_ratio,
        )
        s += " sub(%r,%r)" % (
            MarkovChainMonteCarloRewiring._proposal_count,
            MarkovChainMonteCarloRewiring._proposals_accepted,
        )
    return s


def call(f, *args, **kwargs):
    try:
        r = f(*args, **kwargs)
        return "OK %s %r" % (type(r).__name__, r)
    except BaseException as e:  # noqa
        if isinstance(e, (KeyboardInterrupt, SystemExit)):
            raise
        return "EXC %s %s" % (type(e).__name__, " ".join(str(e).split()))


# --------------------------------------------------------------------------- #
# hand built graph
# --------------------------------------------------------------------------- #
def hand_graph() -> nx.Graph:
    G = nx.Graph()
    motifs = [
        ("3-clique", [(0, 1), (1, 2), (0, 2)]),
        ("3-clique", [(3, 4), (4, 5), (3, 5)]),
        ("2-clique", [(0, 6)]),
        ("2-clique", [(3, 7)]),
        ("2-clique", [(6, 7)]),
        ("2-clique", [(8, 9)]),
        ("2-clique", [(1, 3)]),
        ("2-clique", [(10, 11)]),
        ("3-clique", [(8, 10), (10, 12), (8, 12)]),
        ("2-clique", [(12, 13)]),
        ("2-clique", [(13, 5)]),
        ("3-clique", [(9, 11), (11, 13), (13, 9)]),
    ]
    for mid, (top, es) in enumerate(motifs, start=1):
        for e in es:
            G.add_edge(*e)
            G.edges[e][TOP] = top
            G.edges[e][MID] = mid
    for n in G.nodes():
        twos = sum(1 for e in G.edges(n) if G.edges[e][TOP] == "2-clique")
        tris = len({G.edges[e][MID] for e in G.edges(n) if G.edges[e][TOP] == "3-clique"})
        G.nodes[n][JD] = (twos, tris)
    return G


def all_keys(G: nx.Graph):
    """all possible ejk keys per topology from the joint degrees present in G."""
    out = {}
    for i, name in enumerate(EDGE_NAMES):
        ex = set()
        for n in G.nodes():
            jd = list(G.nodes[n][JD])
            if jd[i] > 0:
                jd[i] -= 1
                ex.add(tuple(jd))
        ex = sorted(ex)
        out[name] = [a + b for a in ex for b in ex]
    return out


def make_targets(G: nx.Graph):
    keys = all_keys(G)
    rnd = random.Random(12345)
    targets = {}

    full = {t: {k: rnd.uniform(0.05, 1.0) for k in ks} for t, ks in keys.items()}
    targets["full"] = full

    big_small = {
        t: {k: (10.0 if i % 2 else 0.01) for i, k in enumerate(ks)}
        for t, ks in keys.items()
    }
    targets["big_small"] = big_small

    missing = {
        t: {k: v for i, (k, v) in enumerate(d.items()) if i % 3 != 0}
        for t, d in full.items()
    }
    targets["missing"] = missing

    zeros = {
        t: {k: (0.0 if i % 4 == 1 else v) for i, (k, v) in enumerate(d.items())}
        for t, d in full.items()
    }
    targets["zeros"] = zeros

    ints = {t: {k: 1 + (i % 3) for i, k in enumerate(ks)} for t, ks in keys.items()}
    targets["ints"] = ints

    npf = {
        t: {k: np.float64(v) for k, v in d.items()} for t, d in full.items()
    }
    targets["npfloat"] = npf

    only_two = {"2-clique": dict(full["2-clique"])}
    targets["only_two"] = only_two

    out = {}
    for name, ejks in targets.items():
        out[name] = JointExcessJointDegreeMatrices(
            {ToolsNames.EJKS: ejks, ToolsNames.EDGE_NAMES: list(EDGE_NAMES)}
        )
    return out


def new_mcmc(G: nx.Graph, ejks, extra=None) -> MarkovChainMonteCarloRewiring:
    net = Network()
    net.G = G
    params = {ToolsNames.NETWORK: net, ToolsNames.EJKS: ejks}
    params.update(extra or {})
    return MarkovChainMonteCarloRewiring(params)


def section(name: str) -> None:
    print("=" * 8, name)


# --------------------------------------------------------------------------- #
def test_keys_view() -> None:
    section("keys view")
    cases = [
        [(0, 1), (2, 3), (4, 5), (6, 7)],
        [(), (), (), ()],
        [(1,), (2,), (3,), (4,)],
        [[1, 2], [3], [4, 5], [6]],
        ["ab", "cd", "ef", "gh"],
        [(1, 2), (3, 4)],
        [],
        [(1, 2), [3], (4,), (5,)],
    ]
    for keys in cases:
        kv = JointExcessJointDegreeKeysView(keys)
        for g in ("get_u0u1", "get_u1u0", "get_v0v1", "get_v1v0", "get_u0v1", "get_v0u1"):
            print(g, call(getattr(kv, g)))
        print("keys after", repr(kv._keys), kv._keys is keys)


def test_matrices() -> None:
    section("matrices")
    rnd = random.Random(7)
    cases = []
    cases.append({})
    cases.append({"a": {}})
    cases.append({"a": {(1, 2, 3, 4): 0.5, (3, 4, 1, 2): 0.5}})
    cases.append({"a": {(1, 2, 3): 1.0, (): 0.0, (5,): 2.0}})
    big = {}
    for t in ("x", "y", "z"):
        d = {}
        for _ in range(200):
            k = tuple(rnd.randrange(0, 9) for _ in range(rnd.choice([2, 4, 6])))
            d[k] = rnd.random()
        big[t] = d
    cases.append(big)
    cases.append({"s": {"abcd": 1.0, "xy": 2.0}})
    for ejks in cases:
        names = list(ejks)
        m = JointExcessJointDegreeMatrices(
            {ToolsNames.EJKS: ejks, ToolsNames.EDGE_NAMES: names}
        )
        print("keys", h(m.excess_degree_keys), repr(m.excess_degree_keys)[:200])
        print("order", list(m.excess_degree_keys))
        for t in names + ["nope"]:
            print("index", t, call(m.get_topology_index, t))
        # recompute on a pre-populated object
        m.excess_degree_keys = {"stale": [1]}
        print("recompute", call(m.get_excess_degree_keys), h(m.excess_degree_keys))
        print("ejks same object", m.ejks is ejks, h(ejks))
    m = JointExcessJointDegreeMatrices()
    print("empty", m.ejks, m.excess_degree_keys, m.topology_names)
    print("empty index", call(m.get_topology_index, "a"))
    print("empty recompute", call(m.get_excess_degree_keys), m.excess_degree_keys)
    print("bad params", call(JointExcessJointDegreeMatrices, {}))
    print("bad ejks", call(JointExcessJointDegreeMatrices, {ToolsNames.EJKS: {"a": {5: 1.0}}, ToolsNames.EDGE_NAMES: ["a"]}))
    print("bad ejks 2", call(JointExcessJointDegreeMatrices, {ToolsNames.EJKS: [1, 2], ToolsNames.EDGE_NAMES: ["a"]}))


def test_init() -> None:
    section("init")
    G = hand_graph()
    t = make_targets(G)["full"]
    net = Network()
    net.G = G

    def describe(m):
        return (
            m._convergence_limit,
            m._search_limit,
            m._network is net,
            m._ejks is t,
            m._proposal_edges,
            m._proposal_count,
            m._proposals_accepted,
            m._acceptance_ratio,
            m.convergence_limit,
            m.search_limit,
        )

    param_cases = [
        {ToolsNames.NETWORK: net, ToolsNames.EJKS: t},
        {ToolsNames.NETWORK: net, ToolsNames.EJKS: t, ToolsNames.CONVERGENCE_LIMIT: 7},
        {ToolsNames.NETWORK: net, ToolsNames.EJKS: t, ToolsNames.SEARCH_LIMIT: 3},
        {ToolsNames.NETWORK: net, ToolsNames.EJKS: t, ToolsNames.SEARCH_LIMIT: None, ToolsNames.CONVERGENCE_LIMIT: None},
        {ToolsNames.NETWORK: net, ToolsNames.EJKS: t, ToolsNames.SEARCH_LIMIT: 0, ToolsNames.CONVERGENCE_LIMIT: 0},
        {},
        {ToolsNames.NETWORK: net},
        {ToolsNames.EJKS: t},
        {ToolsNames.NETWORK: G, ToolsNames.EJKS: t},
        {ToolsNames.NETWORK: G, ToolsNames.EJKS: t, ToolsNames.CONVERGENCE_LIMIT: 4},
        {ToolsNames.NETWORK: None, ToolsNames.EJKS: None, ToolsNames.SEARCH_LIMIT: 9},
    ]
    for params in param_cases:
        before = dict(params)
        try:
            m = MarkovChainMonteCarloRewiring(params)
            print("OK", describe(m))
        except BaseException as e:
            print("EXC", type(e).__name__, " ".join(str(e).split()))
        print("params unchanged", before == params, len(params))
    print("None params", call(MarkovChainMonteCarloRewiring, None))
    print("list params", call(MarkovChainMonteCarloRewiring, [1, 2]))


def test_small_methods() -> None:
    section("small methods")
    G = hand_graph()
    targets = make_targets(G)
    m = new_mcmc(G, targets["full"])
    gd0 = graph_digest(G)

    # get_other_vertex
    for u, e in [(0, (0, 1)), (1, (0, 1)), (2, (0, 1)), (0, (0, 0)), (0, [1, 0]), (0, ())]:
        print("other", u, e, call(m.get_other_vertex, u, e))

    # get_all_edges
    for e in list(G.edges()):
        for u0 in e:
            print("all_edges", u0, e, call(m.get_all_edges, G, u0, e))
        print("all_edges rev", call(m.get_all_edges, G, e[1], (e[1], e[0])))
    print("all_edges foreign", call(m.get_all_edges, G, 9, (0, 1)))
    print("all_edges missing edge", call(m.get_all_edges, G, 0, (0, 9)))
    print("all_edges missing node", call(m.get_all_edges, G, 99, (0, 1)))

    # get_hashmap
    ebunches = [
        [],
        list(G.edges()),
        list(G.edges(3)),
        list(reversed(list(G.edges()))),
        [(0, 1), (0, 1), (1, 0), (0, 6)],
        [(0, 9)],
    ]
    for es in ebunches:
        es_copy = list(es)
        r = call(m.get_hashmap, G, es)
        print("hashmap", r, es == es_copy)
    hm = m.get_hashmap(G, [(0, 1), (0, 2)])
    print("hashmap key order", list(m.get_hashmap(G, [(0, 6), (0, 1), (3, 7), (0, 2)])))
    print("hashmap fresh lists", hm["3-clique"] is not m.get_hashmap(G, [(0, 1), (0, 2)])["3-clique"])

    # get_joint_excess_degree_key
    for e in list(G.edges())[:12] + [(0, 1, 2), (5,), (), (0, 99)]:
        for index in (0, 1, 2, -1):
            print("jek", e, index, call(m.get_joint_excess_degree_key, G, e, index))
    print("jek str index", call(m.get_joint_excess_degree_key, G, (0, 1), "a"))

    # get_swapped_joint_excess_degree_key
    def swapped(e0, e1, u0, v0, index):
        try:
            kv = m.get_swapped_joint_excess_degree_key(G, e0, e1, u0, v0, index)
            return "OK %s %r" % (type(kv).__name__, kv._keys)
        except BaseException as e:
            return "EXC %s %s" % (type(e).__name__, " ".join(str(e).split()))

    es = list(G.edges())
    for e0, e1 in itertools.product(es[:8], es[4:14]):
        for index in (0, 1):
            print("swapped", e0, e1, index, swapped(e0, e1, e0[0], e1[1], index))
    print("swapped bad u0", swapped((0, 1), (3, 4), 9, 3, 0))
    print("swapped bad v0", swapped((0, 1), (3, 4), 0, 9, 0))
    print("swapped bad both", swapped((0, 1), (3, 4), 8, 9, 0))
    print("swapped bad index", swapped((0, 1), (3, 4), 0, 3, 5))
    print("swapped missing node", swapped((0, 77), (3, 4), 0, 3, 0))

    # append_proposal_edges
    m._proposal_edges = []
    for args in [
        (0, (0, 1), (0, 4)),
        (0, (1, 0), (4, 0)),
        (3, (3, 7), (3, 99)),
        (3, (3, 7), (1, 2)),
        (3, (3, 99), (3, 1)),
    ]:
        print("append", args, call(m.append_proposal_edges, G, *args))
    print(
        "proposals",
        [(p._topology, p._motif_id, p._new_edge, p.topology, p.motif_id, p.new_edge) for p in m._proposal_edges],
    )
    print("graph untouched", graph_digest(G) == gd0)
    print("rng", rng_digest())


def test_suitable_and_swap() -> None:
    section("suitable + swap_condition")
    G = hand_graph()
    gd0 = graph_digest(G)
    targets = make_targets(G)
    es = list(G.edges())
    MarkovChainMonteCarlo._proposal_count = 0
    MarkovChainMonteCarlo._proposals_accepted = 0

    mcmcs = {name: new_mcmc(G, t) for name, t in targets.items()}
    ref = mcmcs["full"]
    lines = 0
    for e0, e1 in itertools.product(es, es):
        for u0, v0 in itertools.product(e0, e1):
            e0s = ref.get_all_edges(G, u0, e0)
            e1s = ref.get_all_edges(G, v0, e1)
            c0, c1 = list(e0s), list(e1s)
            suit = call(ref.is_edge_choice_suitable, G, u0, v0, e0s, e1s)
            out = [suit]
            for name, m in mcmcs.items():
                seed(hash((u0, v0, e0, e1)) % 1000)
                r = call(m.swap_condition, G, e0s, e1s, u0, v0)
                props = [(p._topology, p._motif_id, p._new_edge) for p in m._proposal_edges]
                out.append((name, r, h(props), rng_digest(), counters(m)))
            print("pair", e0, e1, u0, v0, h(out), out[0], [o[1] for o in out[1:]])
            print("  inputs unchanged", e0s == c0, e1s == c1)
            lines += 1
    print("pairs", lines)

    # hand-made corner lists hitting each guard of is_edge_choice_suitable
    hand = [
        (0, 6, [(0, 1), (0, 2)], [(6, 7)]),
        (0, 3, [(0, 6)], [(3, 4)]),
        (0, 3, [(0, 1), (0, 2), (0, 6)], [(3, 4), (3, 7), (3, 1)]),
        (0, 3, [(0, 1), (0, 6)], [(3, 7), (3, 4)]),
        (0, 1, [(0, 1), (0, 2)], [(1, 0), (1, 2)]),
        (0, 6, [(0, 6)], [(6, 7)]),
        (6, 0, [(6, 7)], [(0, 6)]),
        (0, 3, [(0, 1), (0, 2)], [(3, 4), (3, 5)]),
        (0, 4, [(0, 1), (0, 2)], [(4, 3), (4, 5)]),
        (8, 10, [(8, 9)], [(10, 11)]),
        (8, 11, [(8, 9)], [(11, 10)]),
        (0, 3, [], []),
        (0, 3, [(0, 9)], [(3, 4)]),
        (0, 3, [(0, 1)], [(3, 99)]),
        (9, 3, [(0, 1)], [(3, 4)]),
        (0, 9, [(0, 1)], [(3, 4)]),
        (0, 3, [(0, 1), (0, 2), (0, 6)], [(3, 4), (3, 5), (3, 7)]),
        (0, 3, [(0, 6), (0, 1), (0, 2)], [(3, 4), (3, 7), (3, 5)]),
    ]
    for name, m in mcmcs.items():
        for u0, v0, e0s, e1s in hand:
            c0, c1 = list(e0s), list(e1s)
            seed(99)
            print("hand suit", name, u0, v0, e0s, e1s, call(m.is_edge_choice_suitable, G, u0, v0, e0s, e1s))
            print("hand swap", name, call(m.swap_condition, G, e0s, e1s, u0, v0))
            print(
                "   ",
                [(p._topology, p._motif_id, p._new_edge) for p in m._proposal_edges],
                rng_digest(),
                counters(m),
                e0s == c0,
                e1s == c1,
            )

    # repeated calls on the same instance with a running RNG (call history)
    m = mcmcs["big_small"]
    seed(2024)
    acc = []
    for i in range(300):
        e0 = random.choice(es)
        e1 = random.choice(es)
        u0, v0 = e0[i % 2], e1[(i // 2) % 2]
        e0s = m.get_all_edges(G, u0, e0)
        e1s = m.get_all_edges(G, v0, e1)
        if m.is_edge_choice_suitable(G, u0, v0, e0s, e1s):
            acc.append((i, call(m.swap_condition, G, e0s, e1s, u0, v0)))
    print("history", len(acc), h(acc), acc[:6], rng_digest(), counters(m))
    print("graph untouched", graph_digest(G) == gd0)


def gcm_network(n: int, sd: int):
    e1 = e2 = e3 = 1e-3
    ejk_tree = {
        (0, 3, 0, 3): 9 / 81 - e1 - e2,
        (0, 3, 4, 1): e1,
        (0, 3, 2, 2): e2,
        (4, 1, 0, 3): e1,
        (4, 1, 4, 1): 45 / 81 - e1 - e3,
        (4, 1, 2, 2): e3,
        (2, 2, 0, 3): e2,
        (2, 2, 4, 1): e3,
        (2, 2, 2, 2): 27 / 81 - e2 - e3,
    }
    ejk_tri = {
        (3, 1, 3, 1): 48 / 144 - e1 - e2,
        (3, 1, 1, 2): e1,
        (3, 1, 5, 0): e2,
        (1, 2, 3, 1): e1,
        (1, 2, 1, 2): 72 / 144 - e1 - e3,
        (1, 2, 5, 0): e3,
        (5, 0, 3, 1): e2,
        (5, 0, 1, 2): e3,
        (5, 0, 5, 0): 24 / 144 - e2 - e3,
    }
    target = JointExcessJointDegreeMatrices(
        {
            ToolsNames.EDGE_NAMES: list(EDGE_NAMES),
            ToolsNames.EJKS: {"2-clique": ejk_tree, "3-clique": ejk_tri},
        }
    )
    seed(sd)
    qks = JointExcessFromEjk.get_excess_joint_distributions(target)
    jdd = JointDegreeFromExcess.get_joint_degree_distribution(qks, EDGE_NAMES)
    jds = JointDegreeManual(
        {JointDegreeNames.JDD: jdd, JointDegreeNames.MOTIF_SIZES: [2, 3]}
    ).sample_jds_from_jdd(n)
    g = GCMAlgorithmNetwork(
        {
            GCMAlgorithmNames.MOTIF_SIZES: [2, 3],
            GCMAlgorithmNames.EDGE_NAMES: list(EDGE_NAMES),
            GCMAlgorithmNames.BUILD_FUNCTIONS: [clique_motif, clique_motif],
        }
    ).random_clustered_graph(jds)
    return g, target


def mixing(G: nx.Graph):
    C = JointExcessJointDegree({ToolsNames.NETWORK: G, ToolsNames.EDGE_NAMES: list(EDGE_NAMES)})
    return C.get_ejks().ejks


class Timeout(Exception):
    pass


def _alarm(signum, frame):
    raise Timeout()


def test_rewire() -> None:
    section("rewire")
    signal.signal(signal.SIGALRM, _alarm)
    configs = [
        (300, 1, {ToolsNames.CONVERGENCE_LIMIT: 150, ToolsNames.SEARCH_LIMIT: 20}),
        (300, 2, {ToolsNames.CONVERGENCE_LIMIT: 60}),
        (120, 3, {ToolsNames.SEARCH_LIMIT: 5, ToolsNames.CONVERGENCE_LIMIT: 40}),
        (150, 4, {ToolsNames.CONVERGENCE_LIMIT: 100, ToolsNames.SEARCH_LIMIT: 50}),
        (200, 5, {ToolsNames.CONVERGENCE_LIMIT: 0}),
        (200, 6, {ToolsNames.CONVERGENCE_LIMIT: -1}),
        (200, 7, {ToolsNames.CONVERGENCE_LIMIT: 30, ToolsNames.SEARCH_LIMIT: 1}),
    ]
    for n, sd, extra in configs:
        g, target = gcm_network(n, sd)
        before = graph_digest(g.G)
        MarkovChainMonteCarlo._proposal_count = 0
        MarkovChainMonteCarlo._proposals_accepted = 0
        params = {ToolsNames.NETWORK: g, ToolsNames.EJKS: target}
        params.update(extra)
        m = MarkovChainMonteCarloRewiring(params)
        seed(1000 + sd)
        signal.alarm(240)
        try:
            G2 = m.rewire()
            res = "OK " + graph_digest(G2)
            # every created edge respects the target
            old = {tuple(sorted(e)) for e in g.G.edges()}
            new = [e for e in G2.edges() if tuple(sorted(e)) not in old]
            res += " new=%d %s" % (len(new), h(sorted(tuple(sorted(e)) for e in new)))
            res += " mix=%s" % h(sorted((t, sorted(d.items())) for t, d in mixing(G2).items()))
        except Timeout:
            res = "TIMEOUT"
        except BaseException as e:
            res = "EXC %s %s" % (type(e).__name__, " ".join(str(e).split()))
        finally:
            signal.alarm(0)
        print("rewire", n, sd, sorted((k.value, v) for k, v in extra.items()), res)
        print("  input untouched", graph_digest(g.G) == before, "rng", rng_digest(), counters(m))
        print(
            "  proposals",
            h([(p._topology, p._motif_id, p._new_edge) for p in m._proposal_edges]),
            m._convergence_limit,
            m._search_limit,
        )
        # second call on the same instance (call history)
        signal.alarm(240)
        try:
            G3 = m.rewire()
            print("  again", graph_digest(G3), rng_digest(), counters(m))
        except Timeout:
            print("  again TIMEOUT")
        except BaseException as e:
            print("  again EXC", type(e).__name__, " ".join(str(e).split()))
        finally:
            signal.alarm(0)

    # rewiring the hand graph with a few budgets
    G = hand_graph()
    targets = make_targets(G)
    for name in ("full", "big_small", "ints", "npfloat", "missing"):
        for limit in (0, 3):
            m = new_mcmc(hand_graph(), targets[name], {ToolsNames.CONVERGENCE_LIMIT: limit, ToolsNames.SEARCH_LIMIT: 10})
            seed(5 + limit)
            signal.alarm(20)
            try:
                G2 = m.rewire()
                res = "OK " + graph_digest(G2)
            except Timeout:
                res = "TIMEOUT"
            except BaseException as e:
                res = "EXC %s %s" % (type(e).__name__, " ".join(str(e).split()))
            finally:
                signal.alarm(0)
            if res == "TIMEOUT":
                print("hand rewire", name, limit, res)
            else:
                print("hand rewire", name, limit, res, rng_digest(), counters(m))


if __name__ == "__main__":
    seed(0)
    test_keys_view()
    test_matrices()
    test_init()
    test_small_methods()
    test_suitable_and_swap()
    test_rewire()
    print("done")
