import sys, os; sys.path.insert(0, os.getcwd())

import copy
import hashlib
import random

import numpy as np

from gcmpy.gcm_algorithm.gcm_algorithm import GCMAlgorithm
from gcmpy.gcm_algorithm.gcm_algorithm_fast import GCMAlgorithmFast
from gcmpy.gcm_algorithm.gcm_algorithm_custom_motifs import GCMAlgorithmCustomMotifs
from gcmpy.gcm_algorithm.gcm_algorithm_network import GCMAlgorithmNetwork
from gcmpy.gcm_algorithm.gcm_algorithm_factory import GCMAlgorithmFactory
from gcmpy.gcm_algorithm.gcm_algorithm_main import GCMAlgorithmMain
from gcmpy.gcm_algorithm.gcm_algorithm_types import GCMAlgorithmTypes
from gcmpy.names.gcm_algorithm_names import GCMAlgorithmNames as N
from gcmpy.motif_generators.clique_motif import clique_motif
from gcmpy.motif_generators.cycle_motif import cycle_motif
from gcmpy.motif_generators.diamond_motif import diamond_motif
import gcmpy
import gcmpy.motif_generators as mg
import gcmpy.gcm_algorithm as ga


def rng_digest():
    h = hashlib.sha256()
    h.update(repr(random.getstate()).encode())
    st = np.random.get_state()
    h.update(repr((st[0], st[1].tolist(), st[2], st[3], st[4])).encode())
    return h.hexdigest()[:16]


def seed(s):
    random.seed(s)
    np.random.seed(s)


def short(obj, limit=400):
    r = repr(obj)
    if len(r) > limit:
        return "sha:" + hashlib.sha256(r.encode()).hexdigest()[:20] + " len=" + str(len(r))
    return r


def show(label, fn):
    try:
        res = fn()
        print(label, "->", short(res))
    except BaseException as e:  # noqa
        ctx = e.__context__
        print(
            label,
            "!! ",
            type(e).__name__,
            repr(str(e)),
            "ctx=",
            type(ctx).__name__ if ctx is not None else None,
            repr(str(ctx)) if ctx is not None else None,
        )
    print("   rng", rng_digest())


def el_digest(el, jds=None):
    out = (
        type(el).__name__,
        el.edge_list,
        el.topologies,
        el.motif_id,
        el.joint_degrees,
        (el.joint_degrees is jds) if jds is not None else None,
    )
    return out


def net_digest(net, jds=None):
    G = net.G
    return (
        type(net).__name__,
        list(G.nodes(data=True)),
        list(G.edges(data=True)),
    )


# --------------------------------------------------------------- motif builders
seed(2026)
print("== motif generators")
for fn in (clique_motif, cycle_motif, diamond_motif, gcmpy.cycle_motif, gcmpy.diamond_motif, mg.cycle_motif, mg.diamond_motif, mg.clique_motif):
    for vs in (
        [],
        [7],
        [1, 2],
        [3, 1, 2],
        [4, 3, 2, 1],
        [0, 0, 0, 0],
        [1, 2, 3, 4, 5],
        list(range(9)),
        (5, 6, 7, 8),
        "abcd",
        "ab",
        {0: "a", 1: "b", 2: "c", 3: "d"},
        {2: "a", 5: "b"},
        {1, 2, 3, 4},
        5,
        None,
        [1.5, 2.5, -0.0, 1e-300],
        [(1, 2), (3, 4), (5, 6), (7, 8)],
        np.array([4, 5, 6, 7]),
        range(4),
        range(0),
    ):
        before = copy.deepcopy(vs)
        show(f"{fn.__name__}({short(vs, 60)})", lambda: (fn(vs), type(fn(vs)).__name__))
        same = repr(before) == repr(vs)
        print("   input unchanged:", same)
    # one-shot iterators
    for mk in (lambda: iter([1, 2, 3, 4]), lambda: (x for x in [1, 2, 3, 4])):
        it = mk()
        show(f"{fn.__name__}(iterator)", lambda: fn(it))
        print("   leftover", list(it))
    # result is a fresh mutable list each time
    a = [1, 2, 3, 4]
    r1 = fn(a)
    r2 = fn(a)
    print("   fresh:", r1 is not r2, r1 == r2, type(r1).__name__)

# --------------------------------------------------------------- helper: params
def fast_params(sizes, builders, names, gcm_type=None):
    p = {}
    if gcm_type is not None:
        p[N.GCM_TYPE] = gcm_type
    p[N.MOTIF_SIZES] = sizes
    p[N.BUILD_FUNCTIONS] = builders
    p[N.EDGE_NAMES] = names
    return p


calls = []


def logging_builder(name, inner):
    def build(vs):
        calls.append((name, type(vs).__name__, list(vs)))
        return inner(vs)

    return build


def handshake_jds(n, sizes, seed_value, maxdeg=3):
    rnd = random.Random(seed_value)
    rows = [[rnd.randint(0, maxdeg) for _ in sizes] for _ in range(n)]
    for k, s in enumerate(sizes):
        tot = sum(r[k] for r in rows)
        while tot % s:
            rows[rnd.randrange(n)][k] += 1
            tot += 1
    return [tuple(r) for r in rows]


JDS_CASES = []
JDS_CASES.append(("empty", [], [2], [clique_motif], ["2c"]))
JDS_CASES.append(("zeros", [(0, 0)] * 4, [2, 3], [clique_motif, clique_motif], ["2c", "3c"]))
JDS_CASES.append(("single-top", [(1,), (2,), (1,), (0,), (2,)], [2], [clique_motif], ["2-clique"]))
JDS_CASES.append(
    (
        "two-top",
        [(1, 1), (2, 0), (1, 1), (0, 1), (2, 0)],
        [2, 3],
        [clique_motif, clique_motif],
        ["2-clique", "3-clique"],
    )
)
JDS_CASES.append(
    (
        "lists-rows",
        [[1, 1, 1], [1, 1, 1], [2, 1, 1], [0, 1, 1]],
        [2, 4, 4],
        [clique_motif, cycle_motif, diamond_motif],
        ["e", "c4", "d"],
    )
)
JDS_CASES.append(
    (
        "rand-30",
        handshake_jds(30, [2, 3, 4, 5], 11),
        [2, 3, 4, 5],
        [clique_motif, cycle_motif, diamond_motif, cycle_motif],
        ["2c", "tri", "dia", "c5"],
    )
)
JDS_CASES.append(
    (
        "rand-200",
        handshake_jds(200, [2, 3, 4], 5, maxdeg=5),
        [2, 3, 4],
        [clique_motif, clique_motif, diamond_motif],
        ["2c", "3c", "dia"],
    )
)
# not handshake: trailing short group
JDS_CASES.append(("non-handshake", [(1, 1), (1, 1), (1, 0)], [2, 3], [clique_motif, clique_motif], ["a", "b"]))
JDS_CASES.append(("non-handshake-diamond", [(1,), (1,), (1,), (1,), (1,)], [4], [diamond_motif], ["d"]))
# numpy rows
JDS_CASES.append(
    ("numpy", [tuple(r) for r in np.array([[1, 0], [1, 3], [2, 0], [0, 0]])], [2, 3], [clique_motif, cycle_motif], ["e", "t"])
)
# ragged rows (zip truncates)
JDS_CASES.append(("ragged", [(1, 1), (1,), (2, 2)], [2, 3], [clique_motif, clique_motif], ["e", "t"]))
# too few sizes / builders / names
JDS_CASES.append(("few-sizes", [(1, 3), (1, 3)], [2], [clique_motif, clique_motif], ["e", "t"]))
JDS_CASES.append(("few-builders", [(1, 3), (1, 3)], [2, 3], [clique_motif], ["e", "t"]))
JDS_CASES.append(("few-builders-empty-top", [(1, 0), (1, 0)], [2, 3], [clique_motif], ["e", "t"]))
JDS_CASES.append(("few-names", [(1, 3), (1, 3)], [2, 3], [clique_motif, clique_motif], ["e"]))
JDS_CASES.append(("zero-size", [(1,), (1,)], [0], [clique_motif], ["e"]))
JDS_CASES.append(("neg-degree", [(-1, 2), (3, 0)], [2, 2], [clique_motif, clique_motif], ["e", "f"]))
JDS_CASES.append(("float-degree", [(1.0,), (1.0,)], [2], [clique_motif], ["e"]))
JDS_CASES.append(("builder-generator", [(1,), (1,)], [2], [lambda vs: (e for e in [(vs[0], vs[1])])], ["e"]))
JDS_CASES.append(("builder-none", [(1,), (1,)], [2], [lambda vs: None], ["e"]))
JDS_CASES.append(("builder-tuple", [(2,), (2,)], [2], [lambda vs: ((vs[0], vs[1]),)], ["e"]))
JDS_CASES.append(("jds-not-iterable", 5, [2], [clique_motif], ["e"]))
JDS_CASES.append(("jds-none", None, [2], [clique_motif], ["e"]))
JDS_CASES.append(("jds-tuple-of-rows", ((1, 3), (1, 3), (0, 3)), [2, 3], [clique_motif, cycle_motif], ["e", "t"]))


def run_generator(label, make_alg, digest):
    for name, jds, sizes, builders, names in JDS_CASES:
        del calls[:]
        wrapped = [logging_builder(f"b{i}", b) for i, b in enumerate(builders)]
        sizes_c, names_c = list(sizes), list(names)
        params = fast_params(sizes_c, wrapped, names_c)
        params_before = dict(params)
        jds_before = copy.deepcopy(jds)
        seed(1234)
        holder = {}

        def first():
            holder["alg"] = make_alg(params)
            g = holder["alg"].random_clustered_graph(jds)
            return digest(g, jds)

        show(f"{label}[{name}] call1", first)
        print("   builder calls", short(calls))
        if "alg" in holder:
            # repeated calls on the same object: motif ids restart, rng continues
            show(f"{label}[{name}] call2", lambda: digest(holder["alg"].random_clustered_graph(jds), jds))
            show(f"{label}[{name}] call3", lambda: digest(holder["alg"].random_clustered_graph(jds), jds))
            print("   type", type(holder["alg"]).__name__, isinstance(holder["alg"], GCMAlgorithm))
        print(
            "   inputs unchanged:",
            repr(jds_before) == repr(jds),
            params == params_before,
            sizes_c == list(sizes),
            names_c == list(names),
            list(params.keys()) == list(params_before.keys()),
        )


print("== GCMAlgorithmFast direct")
run_generator("fast", GCMAlgorithmFast, el_digest)
print("== GCMAlgorithmNetwork direct")
run_generator("network", GCMAlgorithmNetwork, net_digest)

print("== via factory")
for t in (GCMAlgorithmTypes.FAST, GCMAlgorithmTypes.NETWORK):
    dg = el_digest if t is GCMAlgorithmTypes.FAST else net_digest
    run_generator(f"factory-{t.value}", lambda p, t=t: GCMAlgorithmFactory.resolve_algorithm(t, p), dg)
    run_generator(f"factory-inst-{t.value}", lambda p, t=t: GCMAlgorithmFactory().resolve_algorithm(type=t, params=p), dg)

print("== via main")
for tv in (GCMAlgorithmTypes.FAST, "fast", GCMAlgorithmTypes.NETWORK, "network"):
    dg = el_digest if tv in (GCMAlgorithmTypes.FAST, "fast") else net_digest

    def mk(p, tv=tv):
        q = dict(p)
        q[N.GCM_TYPE] = tv
        return GCMAlgorithmMain.load_gcm_algorithm(q)

    run_generator(f"main-{tv}", mk, dg)


# --------------------------------------------------------------- factory / main errors
print("== factory / main edge cases")


class EqLogger:
    def __init__(self):
        self.log = []

    def __eq__(self, other):
        self.log.append(repr(other))
        return False

    __hash__ = None


good = fast_params([2], [clique_motif], ["e"])
for t in ("fast", "network", "motifs", None, 0, "FAST", GCMAlgorithmTypes, N.GCM_TYPE):
    show(f"factory.resolve({t!r})", lambda: type(GCMAlgorithmFactory.resolve_algorithm(t, good)).__name__)
eql = EqLogger()
show("factory.resolve(EqLogger)", lambda: GCMAlgorithmFactory.resolve_algorithm(eql, good))
print("   eq log", eql.log)
for t in GCMAlgorithmTypes:
    show(f"factory.resolve({t}) good", lambda: type(GCMAlgorithmFactory.resolve_algorithm(t, good)).__name__)
    show(f"factory.resolve({t}) empty params", lambda: type(GCMAlgorithmFactory.resolve_algorithm(t, {})).__name__)
    show(f"factory.resolve({t}) None params", lambda: type(GCMAlgorithmFactory.resolve_algorithm(t, None)).__name__)
    for drop in (N.MOTIF_SIZES, N.BUILD_FUNCTIONS, N.EDGE_NAMES):
        q = dict(good)
        q[N.MOTIF_INDICES] = [[0]]
        del q[drop]
        show(f"factory.resolve({t}) without {drop.value}", lambda: type(GCMAlgorithmFactory.resolve_algorithm(t, q)).__name__)

for tv in ("fast", "network", "motifs", "nope", None, GCMAlgorithmTypes.MOTIFS, 3):
    q = dict(good)
    q[N.GCM_TYPE] = tv
    show(f"main.load({tv!r})", lambda: type(GCMAlgorithmMain.load_gcm_algorithm(q)).__name__)
    q[N.MOTIF_INDICES] = [[0]]
    show(f"main.load({tv!r}) +indices", lambda: type(GCMAlgorithmMain.load_gcm_algorithm(q)).__name__)
show("main.load({})", lambda: GCMAlgorithmMain.load_gcm_algorithm({}))
show("main.load(None)", lambda: GCMAlgorithmMain.load_gcm_algorithm(None))
show("main.load(good no type)", lambda: GCMAlgorithmMain.load_gcm_algorithm(good))
show("main().load", lambda: type(GCMAlgorithmMain().load_gcm_algorithm(params={**good, N.GCM_TYPE: "fast"})).__name__)
show("GCMAlgorithm()", lambda: GCMAlgorithm({}))
show("package exports", lambda: sorted(n for n in dir(ga) if n.startswith("GCM")))
show("isinstance checks", lambda: [issubclass(c, GCMAlgorithm) for c in (GCMAlgorithmFast, GCMAlgorithmNetwork, GCMAlgorithmCustomMotifs)])


# --------------------------------------------------------------- network passes own attrs
print("== network generator forwards its configuration")


class SpyFast(GCMAlgorithmNetwork):
    pass


alg = GCMAlgorithmNetwork(fast_params([2, 3], [clique_motif, cycle_motif], ["e", "t"]))
seed(77)
jds = handshake_jds(12, [2, 3], 3)
show("network 12", lambda: net_digest(alg.random_clustered_graph(jds)))
# mutate configuration between calls (object history)
alg._motif_sizes[1] = 3
show("network 12 again", lambda: net_digest(alg.random_clustered_graph(jds)))
show("network degree check", lambda: sorted(dict(alg.random_clustered_graph(jds).G.degree()).items()))


# --------------------------------------------------------------- custom motifs
print("== GCMAlgorithmCustomMotifs")


def diamond(vs):
    return ((vs[0], vs[1]), (vs[1], vs[2]), (vs[2], vs[3]), (vs[3], vs[1]), (vs[0], vs[2]))


def diamond_names():
    return ("diamond-outer",) * 4 + ("diamond-inner",)


def twoclique(vs):
    return (vs[0], vs[1])


def twoclique_names():
    return "2-clique"


def twoclique_list(vs):
    return [vs[0], vs[1]]


def twoclique_wrapped(vs):
    return [(vs[0], vs[1])]


def twoclique_wrapped_names():
    return ["2-clique"]


def threeclique(vs):
    return (vs[0], vs[1]), (vs[0], vs[2]), (vs[1], vs[2])


def threeclique_names():
    return "3-clique", "3-clique", "3-clique"


def pentagon(vs):
    return ((vs[0], vs[1]), (vs[1], vs[2]), (vs[2], vs[3]), (vs[3], vs[4]), (vs[0], vs[4]), (vs[1], vs[3]))


def pentagon_names():
    return "p01", "p12", "p23", "p34", "p40", "p13"


def path3(vs):
    # two edges given as lists -> exercises len == 2 with list first element
    return [[vs[0], vs[1]], [vs[1], vs[2]]]


def path3_names():
    return ["pa", "pb"]


paper_jds = [
    (2, 1, 0, 1, 1, 0, 0),
    (1, 1, 0, 1, 1, 0, 0),
    (3, 1, 1, 0, 0, 1, 0),
    (2, 0, 1, 0, 0, 1, 0),
    (0, 0, 0, 1, 0, 0, 1),
    (1, 0, 0, 1, 0, 0, 0),
    (1, 0, 1, 0, 0, 0, 0),
    (1, 0, 1, 0, 0, 0, 0),
    (1, 0, 0, 1, 0, 0, 0),
    (1, 0, 0, 1, 0, 0, 0),
    (1, 0, 1, 0, 0, 0, 0),
    (0, 0, 1, 0, 0, 0, 0),
]


def custom_params(sizes, names, builders, indices, gcm_type=None):
    p = {}
    if gcm_type is not None:
        p[N.GCM_TYPE] = gcm_type
    p[N.MOTIF_SIZES] = sizes
    p[N.EDGE_NAMES] = names
    p[N.BUILD_FUNCTIONS] = builders
    p[N.MOTIF_INDICES] = indices
    return p


CUSTOM_CASES = [
    (
        "paper",
        paper_jds,
        [2, 3, 2, 2, 2, 2, 1],
        [twoclique_names, threeclique_names, diamond_names, pentagon_names],
        [twoclique, threeclique, diamond, pentagon],
        [[0], [1], [2, 3], [4, 5, 6]],
    ),
    (
        "paper-big",
        paper_jds * 7,
        [2, 3, 2, 2, 2, 2, 1],
        [twoclique_names, threeclique_names, diamond_names, pentagon_names],
        [twoclique, threeclique, diamond, pentagon],
        [[0], [1], [2, 3], [4, 5, 6]],
    ),
    ("empty", [], [2], [twoclique_names], [twoclique], [[0]]),
    ("zeros", [(0, 0), (0, 0)], [2, 3], [twoclique_names, threeclique_names], [twoclique, threeclique], [[0], [1]]),
    ("list-2clique", [(1,), (1,), (2,), (2,)], [2], [twoclique_names], [twoclique_list], [[0]]),
    ("wrapped-2clique", [(1,), (1,), (2,), (2,)], [2], [twoclique_wrapped_names], [twoclique_wrapped], [[0]]),
    ("path3", [(1,), (1,), (2,), (2,)], [3], [path3_names], [path3], [[0]]),
    ("two-types", [(1, 1), (1, 1), (2, 1), (0, 0)], [2, 3], [twoclique_names, threeclique_names], [twoclique, threeclique], [[0], [1]]),
    ("reordered-types", [(1, 1), (1, 1), (2, 1), (0, 0)], [2, 3], [threeclique_names, twoclique_names], [threeclique, twoclique], [[1], [0]]),
    ("repeated-orbit", [(2,), (2,), (2,), (2,)], [1], [twoclique_names], [twoclique], [[0, 0]]),
    ("non-handshake", [(1,), (1,), (1,)], [2], [twoclique_names], [twoclique], [[0]]),
    ("orbit-underflow", [(2, 1), (2, 0)], [1, 1], [twoclique_names], [twoclique], [[0, 1]]),
    ("bad-orbit-index", [(1,), (1,)], [2], [twoclique_names], [twoclique], [[3]]),
    ("empty-orbits", [(1,), (1,)], [2], [twoclique_names], [twoclique], [[]]),
    ("no-motif-types", [(1,), (1,)], [2], [twoclique_names], [twoclique], []),
    ("few-sizes", [(1, 1), (1, 1)], [2], [twoclique_names], [twoclique], [[0]]),
    ("few-builders", [(1, 3), (1, 3), (0, 3)], [2, 3], [twoclique_names, threeclique_names], [twoclique], [[0], [1]]),
    ("few-names", [(1, 3), (1, 3), (0, 3)], [2, 3], [twoclique_names], [twoclique, threeclique], [[0], [1]]),
    ("zero-size", [(1,), (1,)], [0], [twoclique_names], [twoclique], [[0]]),
    ("names-not-callable", [(1,), (1,)], [2], ["2-clique"], [twoclique], [[0]]),
    ("builder-none", [(1,), (1,)], [2], [twoclique_names], [lambda vs: None], [[0]]),
    ("builder-empty", [(1,), (1,)], [2], [lambda: ()], [lambda vs: ()], [[0]]),
    ("jds-none", None, [2], [twoclique_names], [twoclique], [[0]]),
    ("float-size", [(1,), (1,), (1,), (1,)], [2.0], [twoclique_names], [twoclique], [[0]]),
    ("tuple-indices", [(1, 1), (1, 1)], [1, 1], [twoclique_names], [twoclique], ((0, 1),)),
]


def run_custom(label, make_alg):
    for name, jds, sizes, names, builders, indices in CUSTOM_CASES:
        del calls[:]
        wrapped = [logging_builder(f"b{i}", b) for i, b in enumerate(builders)]
        sizes_c = list(sizes)
        indices_c = copy.deepcopy(indices)
        params = custom_params(sizes_c, list(names), wrapped, indices_c)
        jds_before = copy.deepcopy(jds)
        seed(4321)
        holder = {}

        def first():
            holder["alg"] = make_alg(params)
            return el_digest(holder["alg"].random_clustered_graph(jds), jds)

        show(f"{label}[{name}] call1", first)
        print("   builder calls", short(calls))
        if "alg" in holder:
            show(f"{label}[{name}] call2", lambda: el_digest(holder["alg"].random_clustered_graph(jds), jds))
            print("   type", type(holder["alg"]).__name__)
        print(
            "   inputs unchanged:",
            repr(jds_before) == repr(jds),
            sizes_c == list(sizes),
            repr(indices_c) == repr(indices),
        )


run_custom("custom", GCMAlgorithmCustomMotifs)
run_custom("custom-factory", lambda p: GCMAlgorithmFactory.resolve_algorithm(GCMAlgorithmTypes.MOTIFS, p))


def mk_main(p):
    q = dict(p)
    q[N.GCM_TYPE] = "motifs"
    return GCMAlgorithmMain.load_gcm_algorithm(q)


run_custom("custom-main", mk_main)

print("== custom motifs: partition and construction errors")
alg = GCMAlgorithmCustomMotifs(custom_params([2], [twoclique_names], [twoclique], [[0]]))
for lst, n in (
    ([], 2),
    ([1], 2),
    ([1, 2, 3, 4], 2),
    ([1, 2, 3, 4, 5], 2),
    ([1, 2, 3], 5),
    ([1, 2, 3], 1),
    ([1, 2, 3], 0),
    ([1, 2, 3], -1),
    ([1, 2, 3], 1.5),
    ((1, 2, 3, 4), 3),
    ("abcdefg", 3),
    (None, 2),
    (range(7), 3),
    (np.arange(5), 2),
):
    keep = copy.deepcopy(lst)
    show(f"partition({short(lst, 40)}, {n!r})", lambda: alg.partition(lst, n))
    print("   input unchanged:", repr(keep) == repr(lst))
src = [1, 2, 3, 4]
parts = alg.partition(src, 2)
parts[0].append(99)
print("   partition copies:", src, parts)


class Halving(GCMAlgorithmCustomMotifs):
    """subclass hook: overriding partition must still be honoured"""

    def partition(self, lst, n):
        calls.append(("partition", list(lst), n))
        return [lst[i : i + n] for i in range(0, len(lst), n)][::-1]


class Counting(GCMAlgorithmCustomMotifs):
    def infinite_sequence(self):
        num = 100
        while True:
            yield num
            num += 10


class CountingFast(GCMAlgorithmFast):
    def infinite_sequence(self):
        num = 100
        while True:
            yield num
            num += 10


for cls in (Halving, Counting):
    del calls[:]
    seed(99)
    a = cls(
        custom_params(
            [2, 3, 2, 2, 2, 2, 1],
            [twoclique_names, threeclique_names, diamond_names, pentagon_names],
            [twoclique, threeclique, diamond, pentagon],
            [[0], [1], [2, 3], [4, 5, 6]],
        )
    )
    show(f"{cls.__name__} paper", lambda: el_digest(a.random_clustered_graph(paper_jds), paper_jds))
    print("   calls", short(calls))
seed(98)
a = CountingFast(fast_params([2, 3], [clique_motif, cycle_motif], ["e", "t"]))
j = handshake_jds(15, [2, 3], 8)
show("CountingFast", lambda: el_digest(a.random_clustered_graph(j), j))

for drop in (N.MOTIF_SIZES, N.BUILD_FUNCTIONS, N.EDGE_NAMES, N.MOTIF_INDICES):
    q = custom_params([2], [twoclique_names], [twoclique], [[0]])
    del q[drop]
    show(f"custom without {drop.value}", lambda: GCMAlgorithmCustomMotifs(q))
    show(f"fast without {drop.value}", lambda: type(GCMAlgorithmFast(q)).__name__)
    show(f"network without {drop.value}", lambda: type(GCMAlgorithmNetwork(q)).__name__)
show("custom(None)", lambda: GCMAlgorithmCustomMotifs(None))
show("custom('x')", lambda: GCMAlgorithmCustomMotifs("x"))

# --------------------------------------------------------------- property check
print("== property C01 spot check")


def check_property(jds, sizes, el):
    ok = el.joint_degrees is jds
    per = {}
    for (e, t, m) in zip(el.edge_list, el.topologies, el.motif_id):
        per.setdefault(m, (t, set()))[1].update(e)
    slots = [[0] * len(sizes) for _ in jds]
    return ok, len(per), len(el.edge_list) == len(el.topologies) == len(el.motif_id)


for sd in range(5):
    seed(sd)
    sizes = [2, 3, 4]
    jds = handshake_jds(40 + sd, sizes, sd)
    a = GCMAlgorithmFast(fast_params(sizes, [clique_motif, cycle_motif, diamond_motif], ["a", "b", "c"]))
    el = a.random_clustered_graph(jds)
    print(sd, check_property(jds, sizes, el), short(el_digest(el, jds)))
    print("   rng", rng_digest())
    vmax = max((max(e) for e in el.edge_list), default=None)
    vmin = min((min(e) for e in el.edge_list), default=None)
    print("   vertex range", vmin, vmax, len(jds))

print("== done", rng_digest())
