"""
Equivalence digest for the C09 hardening change (gcmpy/covers/eecc.py,
gcmpy/network/network.py). Run with cwd = a checkout of gcmpy:

    /venv/bin/python /tmp/wt7/C09.out/equiv.py > out.txt

Prints a deterministic transcript: results (floats via repr), exceptions, RNG
state digests, mutated inputs, graph internals. Set EQUIV_DEBUG=1 to run with
the DEBUG level enabled and a formatting-but-discarding handler (the transcript
must not change).
"""
import hashlib
import logging
import os
import random
import sys

if os.environ.get("PYTHONHASHSEED") != "0":
    # string / tuple vertices go through sets inside networkx: pin the str hash
    # seed so that the transcript is reproducible across processes
    env = dict(os.environ, PYTHONHASHSEED="0")
    flags = ["-O"] * sys.flags.optimize
    os.execve(sys.executable, [sys.executable] + flags + sys.argv, env)

sys.path.insert(0, os.getcwd())

import networkx as nx
import numpy as np

from gcmpy.covers import eecc as eecc_mod
from gcmpy.covers.eecc import EECC, binom
from gcmpy.network.network import Network


class _Collect(logging.Handler):
    def __init__(self, level):
        super().__init__(level)
        self.records = []

    def emit(self, record):
        self.records.append((record.levelname, record.name, record.getMessage()))


WARN = _Collect(logging.WARNING)
logging.getLogger().addHandler(WARN)
if os.environ.get("EQUIV_DEBUG"):
    DBG = _Collect(logging.DEBUG)
    logging.getLogger().addHandler(DBG)
    logging.getLogger().setLevel(logging.DEBUG)


def rng_digest():
    h = hashlib.sha256()
    h.update(repr(random.getstate()).encode())
    st = np.random.get_state()
    h.update(repr((st[0], st[1].tolist(), st[2], st[3], repr(st[4]))).encode())
    return h.hexdigest()[:16]


def show(label, fn):
    try:
        res = fn()
        print(label, "->", repr(res))
    except BaseException as e:  # noqa
        print(label, "!!", type(e).__name__, repr(e.args))


def graph_state(G):
    return (
        sorted(G.__dict__.keys()),
        [(repr(n), sorted(map(repr, G.adj[n]))) for n in G.nodes()],
        list(map(repr, G.edges())),
    )


def seed_all(k):
    random.seed(k)
    np.random.seed(k)


# ---------------------------------------------------------------- binom
print("== binom")
for n in (-3, -1, 0, 1, 2, 3, 5, 10, 30, 61):
    for r in (-2, 0, 1, 2, 3, 7, 30, 70):
        show("binom(%d,%d)" % (n, r), lambda: binom(n, r))
show("binom(5.5,2)", lambda: binom(5.5, 2))
show("binom(5.0,2.0)", lambda: binom(5.0, 2.0))
show("binom('a',2)", lambda: binom("a", 2))
show("binom(True,True)", lambda: binom(True, True))

# ---------------------------------------------------------------- Network
print("== Network")
seed_all(1)
N = Network()
print("init", graph_state(N.G), N.has_edges(), N.find_cliques())
show("add_edge((1,2))", lambda: N.add_edge((1, 2)))
show("add_edge((2,3,{'w':1}))", lambda: N.add_edge((2, 3, {"w": 1})))
show("add_edge((2,))", lambda: N.add_edge((2,)))
show("add_edge((1,2,3,4))", lambda: N.add_edge((1, 2, 3, 4)))
show("add_edge(5)", lambda: N.add_edge(5))
show("add_edge('ab')", lambda: N.add_edge("ab"))
show("add_edges_from", lambda: N.add_edges_from([(3, 1), (3, 4), (4, 5), (5, 3), (7, 7)]))
show("add_edges_from bad", lambda: N.add_edges_from([(1,)]))
show("add_edges_from None", lambda: N.add_edges_from(None))
print("state", graph_state(N.G))
fc1 = N.find_cliques()
fc2 = N.find_cliques()
print("find_cliques", fc1, fc2, fc1 is fc2, type(fc1).__name__)
fc1.append("x")
print("find_cliques again", N.find_cliques())
print("has_edges", N.has_edges(), N.has_edges())
show("remove_edge(1,2)", lambda: N.remove_edge(1, 2))
show("remove_edge(1,2) again", lambda: N.remove_edge(1, 2))
show("remove_edge(2,1)", lambda: N.remove_edge(2, 1))
show("remove_edge(99,100)", lambda: N.remove_edge(99, 100))
show("remove_edge(1,99)", lambda: N.remove_edge(1, 99))
show("remove_edge([],1)", lambda: N.remove_edge([], 1))
show("remove_edge(7,7)", lambda: N.remove_edge(7, 7))
show("remove_edge(5,3)", lambda: N.remove_edge(5, 3))
print("state", graph_state(N.G), N.has_edges())
g2 = nx.path_graph(4)
N.G = g2
print("setter", N.G is g2, N._G is g2, N.has_edges(), N.find_cliques(), graph_state(N.G))
for e in list(g2.edges()):
    N.remove_edge(*e)
print("emptied", N.has_edges(), N.find_cliques(), graph_state(N.G))
N.G = None
show("has_edges on None", lambda: N.has_edges())
show("find_cliques on None", lambda: N.find_cliques())
show("remove_edge on None", lambda: N.remove_edge(1, 2))
show("add_edge on None", lambda: N.add_edge((1, 2)))
dg = nx.DiGraph([(1, 2), (2, 3)])
N.G = dg
show("find_cliques digraph", lambda: N.find_cliques())
show("has_edges digraph", lambda: N.has_edges())
show("remove_edge digraph (2,1)", lambda: N.remove_edge(2, 1))
show("remove_edge digraph (1,2)", lambda: N.remove_edge(1, 2))
print("digraph", graph_state(dg))
print("Network attrs", sorted(k for k in vars(Network) if not k.startswith("__")))
print("rng", rng_digest())

# ---------------------------------------------------------------- EECC pieces
print("== EECC basics")
E = EECC()
print("m0", E._m0, sorted(vars(E).keys()), graph_state(E.G))
print("EECC attrs", sorted(k for k in vars(EECC) if not k.startswith("__")))
print("mro", [c.__name__ for c in EECC.__mro__])
show("set_max_clique_size(3)", lambda: E.set_max_clique_size(3))
print("m0", E._m0)
show("limited empty", lambda: E.limited_maximal_cliques())
show("get_EECC empty", lambda: E.get_EECC())


def test_network():
    # the network of the unit tests, roughly: overlapping cliques of several orders
    edges = []
    for block in ([0, 1, 2, 3, 4], [3, 4, 5, 6], [6, 7, 8], [8, 9], [9, 10, 11], [10, 11, 12, 13, 14, 15],
                  [15, 16], [16, 17], [17, 15], [2, 20], [20, 21], [21, 2], [21, 22]):
        for i in range(len(block)):
            for j in range(i + 1, len(block)):
                edges.append((block[i], block[j]))
    return edges


GRAPHS = {
    "triangle": [(1, 2), (2, 3), (1, 3)],
    "edge": [(5, 4)],
    "path": [(1, 2), (2, 3), (3, 4)],
    "k5": list(nx.complete_graph(5).edges()),
    "k6": list(nx.complete_graph(6).edges()),
    "two_k4_share_edge": [(0, 1), (0, 2), (0, 3), (1, 2), (1, 3), (2, 3), (2, 4), (2, 5), (3, 4), (3, 5), (4, 5)],
    "bowtie": [(0, 1), (1, 2), (0, 2), (2, 3), (3, 4), (2, 4)],
    "blocks": test_network(),
    "strings": [("a", "b"), ("b", "c"), ("a", "c"), ("c", "d"), ("d", "e"), ("c", "e"), ("e", "a")],
    "floats": [(0.5, 1.5), (1.5, 2.5), (0.5, 2.5), (2.5, 3.0)],
    "tuples": [((0, 0), (0, 1)), ((0, 1), (1, 1)), ((0, 0), (1, 1)), ((1, 1), (2, 2))],
    "selfloop": [(1, 1), (1, 2), (2, 3), (1, 3)],
    "only_selfloop": [(1, 1)],
    "mixed_types": [(1, "a"), ("a", 2), (1, 2)],
    "dup_edges": [(1, 2), (2, 1), (1, 2), (2, 3), (3, 1), (3, 4), (4, 1), (2, 4)],
    "star": [(0, i) for i in range(1, 7)],
    "wheel": list(nx.wheel_graph(7).edges()),
    "petersen": list(nx.petersen_graph().edges()),
    "octahedron": list(nx.octahedral_graph().edges()),
}
for seed, (n, p) in enumerate([(8, 0.5), (12, 0.4), (14, 0.6), (20, 0.3), (16, 0.7), (25, 0.25), (10, 0.9)]):
    GRAPHS["gnp_%d_%s" % (n, p)] = list(nx.gnp_random_graph(n, p, seed=100 + seed).edges())


def build(edges, m0=None):
    g = EECC()
    g.add_edges_from(edges)
    if m0 is not None:
        g.set_max_clique_size(m0)
    return g


def validate(edges, cover, m0):
    """property C09 on the result (printed, so it must agree before/after)."""
    try:
        ref = nx.Graph()
        ref.add_edges_from(edges)
        seen = {}
        ok_clique = True
        ok_size = True
        for cl in cover:
            if not (2 <= len(cl) <= m0):
                ok_size = False
            for i in range(len(cl)):
                for j in range(i + 1, len(cl)):
                    if not ref.has_edge(cl[i], cl[j]):
                        ok_clique = False
                    k = frozenset((cl[i], cl[j]))
                    seen[k] = seen.get(k, 0) + 1
        all_edges = {frozenset(e) for e in ref.edges() if e[0] != e[1]}
        return (ok_clique, ok_size, set(seen) == all_edges, all(v == 1 for v in seen.values()))
    except BaseException as e:  # noqa
        return ("validate-error", type(e).__name__)


print("== limited_maximal_cliques")
for name, edges in GRAPHS.items():
    for m0 in (None, 2, 3, 4, 6, 100):
        g = build(edges, m0)
        before = graph_state(g.G)
        show("lmc %s m0=%r" % (name, m0), lambda: g.limited_maximal_cliques())
        show("lmc %s m0=%r again" % (name, m0), lambda: g.limited_maximal_cliques())
        print("   graph unchanged", graph_state(g.G) == before, sorted(g.G.__dict__.keys()), sorted(vars(g).keys()))
for m0 in (1, 0, -1, float("nan"), float("inf"), 2.5, 3.0, None, "3", True, False):
    for name in ("k5", "edge", "bowtie"):
        g = build(GRAPHS[name])
        g.set_max_clique_size(m0)
        show("lmc %s weird m0=%r" % (name, m0), lambda: g.limited_maximal_cliques())
    g = EECC()
    g.set_max_clique_size(m0)
    show("lmc emptygraph weird m0=%r" % (m0,), lambda: g.limited_maximal_cliques())
print("rng", rng_digest())

print("== compute_scores")
seed_all(7)
for name, edges in GRAPHS.items():
    for m0 in (2, 3, 4, 100):
        g = build(edges, m0)
        try:
            C = g.limited_maximal_cliques()
        except BaseException as e:  # noqa
            print("cs %s m0=%r lmc !!" % (name, m0), type(e).__name__)
            continue
        for variant in ("float", "int", "shuffled"):
            Cc = [list(c) for c in C]
            if variant == "shuffled":
                rr = random.Random(3)
                rr.shuffle(Cc)
                for c in Cc:
                    rr.shuffle(c)
            ids_before = [id(c) for c in Cc]
            EC = [["pre"]]
            ordl = [0] * len(Cc)
            r = ([0.0] if variant != "int" else [0]) * len(Cc)
            idx = [-5]
            gs = graph_state(g.G)
            show("cs %s m0=%r %s" % (name, m0, variant), lambda: g.compute_scores(Cc, EC, ordl, r, idx))
            print("   C", Cc)
            print("   EC", EC, [any(e is c for c in Cc) for e in EC])
            print("   ord", ordl, "r", [repr(x) for x in r], "idx", idx)
            print("   same objs", [id(c) for c in Cc] == ids_before, "graph unchanged", graph_state(g.G) == gs)
            # second call on the already processed lists (scores accumulate)
            show("cs %s m0=%r %s again" % (name, m0, variant), lambda: g.compute_scores(Cc, EC, ordl, r, idx))
            print("   EC", EC, "r", [repr(x) for x in r], "idx", idx)
g = build(GRAPHS["bowtie"], 3)
C = g.limited_maximal_cliques()
for args in (
    (C, [], [], [], []),
    (C, [], [0] * 5, [], []),
    (C, [], [0] * 5, [0.0], []),
    (C, None, [0] * 5, [0.0] * 5, []),
    (C, [], [0] * 5, [0.0] * 5, None),
    (None, [], [], [], []),
    ([], None, None, None, None),
    ([[1, 2, 3], [2, 3, 4]], [], {}, {0: 0.0, 1: 0.0}, []),
    ([(3, 2, 1), (4, 3, 2), (9,), ()], [], [0] * 4, [0.0] * 4, []),
    ([[1, "a", 2]], [], [0], [0.0], []),
    ([[1, 2, 3], 5], [], [0, 0], [0.0, 0.0], []),
    ([[1, 2, 3], [1, 2, 3]], [], [0, 0], [0.0, 0.0], []),
    ([[1, 2, 3], [1, 2, 3]], [], [0, 0], [float("nan"), 0.5], []),
):
    a = [x if not isinstance(x, list) else list(x) for x in args]
    show("cs args %r" % (args,), lambda: g.compute_scores(*a))
    print("   after", [repr(x) for x in a])
print("rng", rng_digest())

print("== get_EECC")
for name, edges in GRAPHS.items():
    for m0 in (None, 2, 3, 4, 5, 100):
        for seed in (0, 1, 2, 12345):
            seed_all(seed)
            g = build(edges, m0)
            G_obj = g.G
            holder = {}

            def run():
                holder["res"] = g.get_EECC()
                return holder["res"]

            show("eecc %s m0=%r seed=%d" % (name, m0, seed), run)
            print("   rng", rng_digest(), "draw", repr(random.random()), "same G", g.G is G_obj,
                  "has_edges", g.has_edges(), "vars", sorted(vars(g).keys()), "m0", g._m0)
            print("   graph", graph_state(g.G))
            if "res" in holder:
                res = holder["res"]
                print("   type", type(res).__name__, [type(c).__name__ for c in res][:3],
                      "valid", validate(edges, res, 2 if m0 is None else m0))
            # repeated call on the consumed object
            show("   again", lambda: g.get_EECC())
            print("   rng", rng_digest(), "graph", graph_state(g.G))
            # refill the same object and run once more
            show("   refill", lambda: (g.add_edges_from(edges), g.get_EECC())[1])
            print("   rng", rng_digest(), "graph", graph_state(g.G))

print("== get_EECC weird m0")
for m0 in (1, 0, -1, float("nan"), float("inf"), 2.5, 3.0, None, "3", True):
    for name in ("k5", "edge", "bowtie", "blocks", "selfloop"):
        seed_all(5)
        g = build(GRAPHS[name])
        g.set_max_clique_size(m0)
        show("eecc %s weird m0=%r" % (name, m0), lambda: g.get_EECC())
        print("   rng", rng_digest(), "graph", graph_state(g.G))

print("== get_EECC with replaced graph / isolated vertices")
seed_all(9)
g = EECC()
gg = nx.Graph()
gg.add_nodes_from([1, 2, 3])
g.G = gg
show("eecc isolated only", lambda: g.get_EECC())
gg = nx.Graph([(1, 2), (2, 3), (1, 3), (3, 4)])
gg.add_node(99)
g.G = gg
g.set_max_clique_size(3)
show("eecc with isolated vertex", lambda: g.get_EECC())
print("   graph", graph_state(g.G), "rng", rng_digest())
mg = nx.MultiGraph([(1, 2), (1, 2), (2, 3), (1, 3)])
g.G = mg
show("eecc multigraph", lambda: g.get_EECC())
print("   graph", graph_state(g.G), "rng", rng_digest())
g.G = nx.DiGraph([(1, 2), (2, 3)])
show("eecc digraph", lambda: g.get_EECC())
print("   rng", rng_digest())

print("== many random ties (sequence of draws)")
seed_all(2024)
for rep in range(6):
    edges = list(nx.gnp_random_graph(18, 0.45, seed=rep).edges())
    for m0 in (3, 4):
        g = build(edges, m0)
        show("ties rep=%d m0=%d" % (rep, m0), lambda: g.get_EECC())
        print("   rng", rng_digest())

print("== module surface")
# public classes / functions defined by the module itself (imports are not API)
print(sorted(k for k, v in vars(eecc_mod).items()
             if not k.startswith("_") and getattr(v, "__module__", None) == eecc_mod.__name__))
print("warnings+ emitted:", WARN.records)
print("final rng", rng_digest())
