import sys, os; sys.path.insert(0, os.getcwd())
if os.environ.get("PYTHONHASHSEED") != "0":   # str vertices: pin set order so the digest is reproducible
    os.execve(sys.executable, [sys.executable] + sys.argv, dict(os.environ, PYTHONHASHSEED="0"))
import hashlib, random, itertools
from fractions import Fraction
import numpy as np
import networkx as nx
from gcmpy.message_passing.message_passing import MessagePassing
from gcmpy.message_passing.equations.automated_equation import AutomatedEquation

random.seed(1717)
np.random.seed(1717)
OUT = []


def show(x):
    if isinstance(x, float):
        return f"{type(x).__name__}:{float(x).hex()}"
    return f"{type(x).__name__}:{x!r}"


def emit(tag, fn):
    try:
        r = fn()
        OUT.append(f"{tag} -> {show(r)}")
    except BaseException as e:
        OUT.append(f"{tag} !! {type(e).__name__}")


def graph_state(G):
    return repr((type(G).__name__, G.name, list(G.nodes(data=True)), list(G.edges(data=True))))


def with_us(G, name, us=None):
    G.name = name
    if us is None:
        us = {n: 0.3 + 0.05 * k for k, n in enumerate(G.nodes())}
    nx.set_node_attributes(G, us, "u")
    return G


def motifs():
    yield with_us(nx.complete_graph(2), "k2")
    yield with_us(nx.complete_graph(3), "k3")
    yield with_us(nx.complete_graph(4), "k4")
    yield with_us(nx.cycle_graph(4), "c4")
    yield with_us(nx.cycle_graph(5), "c5")
    yield with_us(nx.path_graph(4), "p4")
    yield with_us(nx.star_graph(4), "s4")
    G = nx.Graph(); G.add_edges_from([(0, 1), (1, 2), (2, 3), (3, 0), (0, 2)])
    yield with_us(G, "diamond")
    G = nx.Graph(); G.add_edges_from([(0, 1), (1, 2), (2, 0), (2, 3), (3, 4), (4, 2)])
    yield with_us(G, "bowtie")
    G = nx.Graph(); G.add_edges_from([("a", "b"), ("b", "c"), ("c", "a"), ("c", "d")])
    yield with_us(G, "paw-str")
    # self loops: a neighbour list that contains the vertex itself
    G = nx.Graph(); G.add_edges_from([(0, 1), (1, 1), (1, 2), (2, 0)])
    yield with_us(G, "k3-loop")
    G = nx.Graph(); G.add_edges_from([(0, 0), (0, 1)])
    yield with_us(G, "k2-loop-root")
    # disconnected motif: vertices that become / are isolated
    G = nx.Graph(); G.add_edges_from([(0, 1), (2, 3)]); G.add_node(9)
    yield with_us(G, "two-k2-plus-isolate")
    G = nx.Graph(); G.add_node(0)
    yield with_us(G, "single")
    # integer / numpy / Fraction u values
    yield with_us(nx.complete_graph(3), "k3-int-u", {0: 1, 1: 1, 2: 1})
    yield with_us(nx.cycle_graph(4), "c4-np-u", {n: np.float64(0.25 * (n + 1)) for n in range(4)})
    yield with_us(nx.complete_graph(3), "k3-frac-u", {n: Fraction(n + 1, 5) for n in range(3)})
    # multigraph and directed inputs
    G = nx.MultiGraph(); G.add_edges_from([(0, 1), (0, 1), (1, 2), (2, 0)])
    yield with_us(G, "multi-k3")
    G = nx.DiGraph(); G.add_edges_from([(0, 1), (1, 2), (2, 0)])
    yield with_us(G, "di-c3")
    G = nx.DiGraph(); G.add_edges_from([(1, 0), (2, 0)])
    yield with_us(G, "di-sink-root")
    # missing u attribute on one vertex
    G = with_us(nx.complete_graph(3), "k3-missing-u"); del G.nodes[2]["u"]
    yield G


PS = [0.0, 1.0, 0.5, 0.3141592653589793, 1e-12, 1 - 1e-12, 0, 1, np.float64(0.37),
      Fraction(1, 3), -0.25, 1.5, float("nan"), "x", None]

# 1. automated_equation directly, fresh object per call and one shared object (caches)
shared = AutomatedEquation()
for G in motifs():
    before = graph_state(G)
    roots = list(G.nodes())[:3] + [12345]
    for root in roots:
        for p in PS:
            emit(f"AE fresh {G.name} root={root!r} p={p!r}",
                 lambda: AutomatedEquation().automated_equation(G, p, root))
            emit(f"AE shared {G.name} root={root!r} p={p!r}",
                 lambda: shared.automated_equation(G, p, root))
    OUT.append(f"graph-unchanged {G.name} {graph_state(G) == before}")
OUT.append("shared caches " + hashlib.sha256(
    repr((sorted(shared._edge_combinations.items()),
          sorted((k, [sorted(map(repr, s)) for s in v]) for k, v in shared._connected_subgraphs.items()))
         ).encode()).hexdigest())

# 2. repeated calls, same object, reversed order of p
shared2 = AutomatedEquation()
for G in list(motifs())[:10]:
    for p in reversed(PS[:8]):
        emit(f"AE rev {G.name} p={p!r}", lambda: shared2.automated_equation(G, p, list(G.nodes())[0]))


# 3. through MessagePassing.theoretical on random edge-disjoint covers
def covered_network(n, shapes, tries):
    G = nx.Graph()
    G.add_nodes_from(range(n))
    uid = 0
    for _ in range(tries):
        shape = random.choice(shapes)
        k = shape.number_of_nodes()
        vs = random.sample(range(n), k)
        es = [(vs[a], vs[b]) for a, b in shape.edges()]
        if any(G.has_edge(*e) for e in es):
            continue
        label = f"{k}-{vs}-{es}-{uid}"
        uid += 1
        for e in es:
            G.add_edge(*e, CoverLabel=label)
    return G


SHAPES = [nx.complete_graph(2), nx.complete_graph(3), nx.cycle_graph(4), nx.complete_graph(4),
          nx.path_graph(3)]
diamond = nx.Graph(); diamond.add_edges_from([(0, 1), (1, 2), (2, 3), (3, 0), (0, 2)])
SHAPES.append(diamond)

for trial in range(6):
    n = random.choice([6, 9, 14, 20])
    G = covered_network(n, SHAPES, tries=random.choice([2, 6, 12, 20]))
    before = graph_state(G)
    phis = [0.0, 0.2, 0.45, 0.7, 1.0, 0.45, 0.0]
    mp = MessagePassing(G, iterations=random.choice([1, 3, 6]))
    for phi in phis:
        emit(f"MP shared t{trial} phi={phi}", lambda: mp.theoretical(phi))
        OUT.append(f"  H_tau {hashlib.sha256(repr([(k, float(v).hex()) for k, v in mp._H_tau.items()]).encode()).hexdigest()}")
    for phi in phis[:5]:
        emit(f"MP fresh t{trial} phi={phi}", lambda: MessagePassing(G, iterations=mp._iterations).theoretical(phi))
    OUT.append(f"MP graph-unchanged t{trial} {graph_state(G) == before}")

# 4. error paths through MessagePassing
G = nx.Graph(); G.add_edge(0, 1)                       # no CoverLabel
emit("MP no-label", lambda: MessagePassing(G).theoretical(0.5))
G = nx.Graph(); G.add_edge(0, 1, CoverLabel="2-[0, 1]-[(0, 1)]-x")
emit("MP bad-id", lambda: MessagePassing(G).theoretical(0.5))
G = nx.Graph(); G.add_edge(0, 1, CoverLabel="2-[0, 1, 7]-[(0, 1)]-0")   # vertex not in G
emit("MP ghost-vertex", lambda: MessagePassing(G, iterations=2).theoretical(0.5))
G = nx.Graph(); G.add_nodes_from(range(3))             # no edges
emit("MP edgeless", lambda: MessagePassing(G).theoretical(0.5))
emit("MP empty", lambda: MessagePassing(nx.Graph()).theoretical(0.5))
G = nx.Graph(); G.add_edge(0, 1, CoverLabel="2-[0, 1]-[(0, 1)]-0")
emit("MP iterations=0", lambda: MessagePassing(G, iterations=0).theoretical(0.5))
emit("MP phi=str", lambda: MessagePassing(G, iterations=1).theoretical("p"))


# 5. get_motif_ID and the other label parsers, directly
from gcmpy.message_passing.message_passing_mixin import MessagePassingMixin
mx = MessagePassingMixin("motif cover", nx.Graph())


class S(str):
    pass


LABELS = [
    "3-[0, 1, 2]-[(0, 1), (1, 2), (2, 0)]-17", "2-[0, 1]-[(0, 1)]-0", "7", "", "-", "--", "5-", "-5", "--5", "a-b--5",
    "1-2-3-", "1-2-3- 9 ", "1-2-3-\t9\n", "1-2-3-+9", "1-2-3-1_000", "1-2-3-0x10", "1-2-3-9.0", "1-2-3-٤٢",
    "1-2-3-−9", "1–2–3", "1-2-3-" + "9" * 50, "1-2-3-" + "9" * 5000, "1-[0, -1]-[(0, -1)]-4", "x-y", "nan", "1-2-3-None",
    "1-2-3-007", "1-2-3-1e3", " - ", "\x00-1", "1-\x00", S("4-[]-[]-12"), S("12"), np.str_("4-[]-[]-13"),
    b"1-2-3-4", bytearray(b"1-2-3-4"), None, 5, 5.5, ("1-2",), ["1-2"], {"1-2": 1}, object(),
]
for lab in LABELS:
    tag = repr(lab)[:60] if not type(lab) is object else "object()"
    emit(f"ID {tag}", lambda: mx.get_motif_ID(lab))
    emit(f"TOPO {tag}", lambda: mx.get_motif_topology(lab))
    emit(f"VERTS {tag}", lambda: mx.get_vertices_in_motif(lab))
    emit(f"EDGES {tag}", lambda: mx.get_edges_in_motif(lab))
for _ in range(400):
    lab = "".join(random.choice("0123456789--- _+x[],()") for _ in range(random.randrange(0, 14)))
    emit(f"ID rnd {lab!r}", lambda: mx.get_motif_ID(lab))

# 6. labels whose id field is awkward, through MessagePassing
for name, labs in {
    "dashed-id": ["2-[0, 1]-[(0, 1)]--3", "2-[1, 2]-[(1, 2)]--3"],
    "spaced-id": ["2-[0, 1]-[(0, 1)]- 3", "2-[1, 2]-[(1, 2)]-3 "],
    "trailing-dash": ["2-[0, 1]-[(0, 1)]-3-", "2-[1, 2]-[(1, 2)]-4"],
    "no-dash": ["12", "13"],
    "bytes-label": [b"2-[0, 1]-[(0, 1)]-3", b"2-[1, 2]-[(1, 2)]-4"],
    "none-label": [None, None],
    "negative-vertex": ["2-[0, -1]-[(0, -1)]-3", "2-[1, 2]-[(1, 2)]-4"],
}.items():
    G = nx.Graph(); G.add_edge(0, 1, CoverLabel=labs[0]); G.add_edge(1, 2, CoverLabel=labs[1])
    mp = MessagePassing(G, iterations=2)
    for phi in (0.3, 0.8, 0.3):
        emit(f"MP label {name} phi={phi}", lambda: mp.theoretical(phi))
        OUT.append(f"  H_tau keys {list(mp._H_tau)!r}")

OUT.append("random-state " + hashlib.sha256(repr(random.getstate()).encode()).hexdigest())
st = np.random.get_state()
OUT.append("numpy-state " + hashlib.sha256(repr((st[0], st[1].tolist(), st[2:])).encode()).hexdigest())
print("\n".join(OUT))
print("digest", hashlib.sha256("\n".join(OUT).encode()).hexdigest())
