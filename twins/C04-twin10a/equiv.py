import sys, os; sys.path.insert(0, os.getcwd())
import hashlib
import pickle
import random

import numpy as np
import networkx as nx

from gcmpy.network.edge_list import LightWeightEdgeList
from gcmpy.network.network import Network
from gcmpy.network.edge_list_to_network import EdgeListToNetwork
from gcmpy.network.network_to_edge_list import NetworkToEdgeList
from gcmpy.names.network_names import NetworkNames
from gcmpy.names.joint_degree_names import JointDegreeNames
from gcmpy.names.gcm_algorithm_names import GCMAlgorithmNames
from gcmpy.joint_degree.joint_degree_loaders.joint_degree_manual import (
    JointDegreeManual,
)
from gcmpy.gcm_algorithm.gcm_algorithm_network import GCMAlgorithmNetwork
from gcmpy.motif_generators.clique_motif import clique_motif

random.seed(20261004)
np.random.seed(20261004)

H = hashlib.sha256()
LINES = []


def out(*parts):
    line = " ".join(str(p) for p in parts)
    LINES.append(line)
    H.update(line.encode() + b"\n")


def rng_state():
    a = hashlib.sha256(repr(random.getstate()).encode()).hexdigest()[:16]
    st = np.random.get_state()
    b = hashlib.sha256(
        repr((st[0], st[1].tolist(), st[2], st[3], st[4])).encode()
    ).hexdigest()[:16]
    return a + "/" + b


def describe_graph(G):
    return (
        type(G).__name__,
        sorted(G.__dict__.keys()),
        [(n, repr(sorted(d.items(), key=repr))) for n, d in G.nodes(data=True)],
        [
            (e[0], e[1], repr(sorted(e[-1].items(), key=repr)))
            for e in G.edges(data=True)
        ],
        [(n, list(nb)) for n, nb in G.adj.items()],
    )


def describe_el(el):
    return (
        type(el.edge_list).__name__,
        repr(el.edge_list),
        type(el.joint_degrees).__name__,
        repr(el.joint_degrees),
        type(el.topologies).__name__,
        repr(el.topologies),
        type(el.motif_id).__name__,
        repr(el.motif_id),
    )


def make_el(edges, jds, topos, mids):
    el = LightWeightEdgeList()
    el.edge_list = edges
    el.joint_degrees = jds
    el.topologies = topos
    el.motif_id = mids
    return el


def attempt(tag, fn):
    try:
        r = fn()
    except BaseException as exc:
        out(tag, "EXC", type(exc).__module__, type(exc).__name__)
        r = None
    out(tag, "rng", rng_state())
    return r


def to_net(tag, el, back=True):
    def run():
        before = describe_el(el)
        net = EdgeListToNetwork.convert(el)
        out(tag, "net", describe_graph(net.G))
        out(tag, "input-untouched", before == describe_el(el))
        try:
            out(tag, "pickle", hashlib.sha256(pickle.dumps(net.G)).hexdigest()[:16])
        except BaseException as exc:
            out(tag, "pickle-EXC", type(exc).__name__)
        return net

    net = attempt(tag + ":to_net", run)
    if net is not None and back:
        to_el(tag + ":back", net)
        to_el(tag + ":back-again", net)
    return net


def to_el(tag, net):
    def run():
        keys0 = sorted(getattr(net.G, "__dict__", {}).keys())
        el = NetworkToEdgeList.convert(net)
        out(tag, "el", describe_el(el))
        out(tag, "Gdict", keys0, sorted(getattr(net.G, "__dict__", {}).keys()))
        if isinstance(net.G, nx.Graph):
            out(tag, "net-after", describe_graph(net.G))
        return el

    return attempt(tag + ":to_el", run)


class LenOnly:
    def __init__(self, n):
        self.n = n

    def __len__(self):
        return self.n


class GetItemSeq:
    def __init__(self, xs):
        self.xs = xs

    def __len__(self):
        return len(self.xs)

    def __getitem__(self, i):
        return self.xs[i]


class BoomIter:
    def __init__(self, xs, at):
        self.xs = xs
        self.at = at

    def __len__(self):
        return len(self.xs)

    def __iter__(self):
        for i, x in enumerate(self.xs):
            if i == self.at:
                raise ZeroDivisionError("boom")
            yield x


class Unhash:
    __hash__ = None

    def __repr__(self):
        return "Unhash()"


# ---------------------------------------------------------------- hand cases
cases = []
cases.append(("empty", [], [], [], []))
cases.append(("only-isolated", [], [(0, 0), (0, 0), (0, 0)], [], []))
cases.append(("one-edge", [(0, 1)], [(1, 0), (1, 0)], ["2-clique"], [0]))
cases.append(
    (
        "triangle+isolated",
        [(0, 1), (0, 2), (1, 2)],
        [(0, 1), (0, 1), (0, 1), (0, 0), (0, 0)],
        ["3-clique"] * 3,
        [7, 7, 7],
    )
)
cases.append(
    (
        "dup-pair",
        [(0, 1), (0, 1), (1, 2)],
        [(2, 0), (3, 0), (1, 0)],
        ["a", "b", "c"],
        [0, 1, 2],
    )
)
cases.append(
    (
        "dup-reversed",
        [(0, 1), (1, 0), (2, 1), (1, 2)],
        [(2, 0), (4, 0), (2, 0)],
        ["a", "b", "c", "d"],
        [0, 1, 2, 3],
    )
)
cases.append(("self-loop", [(0, 0), (0, 1)], [(3, 0), (1, 0)], ["l", "e"], [0, 1]))
cases.append(
    ("reversed-orientation", [(3, 0), (2, 1)], [(1,), (1,), (1,), (1,)], ["x", "y"], [5, 6])
)
cases.append(("edge-beyond-jds", [(0, 5)], [(1, 0), (0, 0)], ["x"], [0]))
cases.append(("topos-short", [(0, 1), (1, 2)], [(1,), (2,), (1,)], ["x"], [0, 1]))
cases.append(("mids-short", [(0, 1), (1, 2)], [(1,), (2,), (1,)], ["x", "y"], [0]))
cases.append(("topos-long", [(0, 1)], [(1,), (1,)], ["x", "y", "z"], [0, 1, 2]))
cases.append(("edges-tuple", ((0, 1), (1, 2)), ((1,), (2,), (1,)), ("x", "y"), (0, 1)))
cases.append(("jds-mixed-types", [(0, 1)], [None, 3.5, "s", [1, 2]], ["x"], [0]))
cases.append(("jds-unhashable-values", [(0, 1)], [[1], {2: 3}, Unhash()], ["x"], [0]))
cases.append(("edge-3tuple-dict", [(0, 1, {"w": 2})], [(1,), (1,)], ["x"], [0]))
cases.append(("edge-3tuple-int", [(0, 1, 2)], [(1,), (1,)], ["x"], [0]))
cases.append(("edge-1tuple", [(0,)], [(1,), (1,)], ["x"], [0]))
cases.append(("edge-unhashable-node", [([0], 1)], [(1,), (1,)], ["x"], [0]))
cases.append(("edge-list-not-tuple", [[0, 1]], [(1,), (1,)], ["x"], [0]))
cases.append(("edge-none-node", [(None, 1)], [(1,), (1,)], ["x"], [0]))
cases.append(("edges-none", None, [(1,), (1,)], ["x"], [0]))
cases.append(("jds-none", [(0, 1)], None, ["x"], [0]))
cases.append(("jds-int", [(0, 1)], 5, ["x"], [0]))
cases.append(("jds-lenonly", [(0, 1)], LenOnly(3), ["x"], [0]))
cases.append(("jds-getitem", [(0, 1)], GetItemSeq([(1,), (1,), (0,)]), ["x"], [0]))
cases.append(("jds-boom-0", [(0, 1)], BoomIter([(1,), (1,), (0,)], 0), ["x"], [0]))
cases.append(("jds-boom-2", [(0, 1)], BoomIter([(1,), (1,), (0,)], 2), ["x"], [0]))
cases.append(("jds-string", [(0, 1)], "abc", ["x"], [0]))
cases.append(("jds-dict", [(0, 1)], {5: 1, 6: 2}, ["x"], [0]))
cases.append(("jds-ndarray", [(0, 1)], np.array([[1, 0], [1, 0], [0, 0]]), ["x"], [0]))
cases.append(("jds-range", [(0, 1)], range(4), ["x"], [0]))
cases.append(("str-nodes", [("a", "b")], [(1,), (1,)], ["x"], [0]))

for tag, edges, jds, topos, mids in cases:
    to_net("case:" + tag, make_el(edges, jds, topos, mids))

# generators as inputs (one-shot iterables)
attempt(
    "case:jds-generator",
    lambda: to_net(
        "case:jds-generator", make_el([(0, 1)], (x for x in [(1,), (1,)]), ["x"], [0])
    ),
)
attempt(
    "case:edges-generator",
    lambda: to_net(
        "case:edges-generator",
        make_el((e for e in [(0, 1), (1, 2)]), [(1,), (2,), (1,)], ["x", "y"], [0, 1]),
    ),
)

# ------------------------------------------------ repeated calls on one object
el = make_el([(0, 1), (1, 2), (2, 3)], [(1,), (2,), (2,), (1,), (0,)], list("abc"), [0, 1, 2])
n1 = to_net("repeat:1", el)
n2 = to_net("repeat:2", el)
out("repeat:distinct-graphs", n1.G is not n2.G, n1 is not n2)
el.joint_degrees.append((0,))
el.edge_list.append((4, 5))
el.topologies.append("d")
el.motif_id.append(3)
to_net("repeat:3-after-mutation", el)
out("repeat:earlier-unaffected", describe_graph(n1.G) == describe_graph(n2.G))

# ------------------------------------------------ networks built by hand
def hand_net(G):
    net = Network()
    net.G = G
    return net


net = Network()
to_el("hand:empty", net)
to_el("hand:empty-again", net)

net = Network()
net.G.add_nodes_from(range(3))
to_el("hand:nodes-no-attrs", net)

net = Network()
net.G.add_nodes_from(range(3))
nx.set_node_attributes(net.G, {0: (0,), 1: (0,), 2: (0,)}, NetworkNames.JOINT_DEGREE)
to_el("hand:isolated-with-attrs", net)
to_el("hand:isolated-with-attrs-again", net)

net = Network()
net.add_edges_from([(0, 1), (1, 2)])
nx.set_node_attributes(net.G, {0: (1,), 1: (2,), 2: (1,)}, NetworkNames.JOINT_DEGREE)
to_el("hand:edges-no-attrs", net)
nx.set_edge_attributes(net.G, {(0, 1): "x", (1, 2): "y"}, NetworkNames.TOPOLOGY)
to_el("hand:edges-topology-only", net)
nx.set_edge_attributes(net.G, {(0, 1): 0, (1, 2): 1}, NetworkNames.MOTIF_IDS)
to_el("hand:complete", net)
net.add_edge((2, 2))
net.G.edges[2, 2][NetworkNames.TOPOLOGY] = "loop"
net.G.edges[2, 2][NetworkNames.MOTIF_IDS] = 9
to_el("hand:with-self-loop", net)
net.remove_edge(0, 1)
net.remove_edge(0, 1)
to_el("hand:after-removal", net)
out("hand:has_edges", net.has_edges(), net.find_cliques())

net = Network()
net.add_edges_from([(10, 20), (20, 30)])
nx.set_node_attributes(net.G, {10: (1,), 20: (2,), 30: (1,)}, NetworkNames.JOINT_DEGREE)
to_el("hand:noncontiguous-labels", net)

net = Network()
net.add_edges_from([(2, 1), (1, 0)])
nx.set_node_attributes(net.G, {0: (1,), 1: (2,), 2: (1,)}, NetworkNames.JOINT_DEGREE)
nx.set_edge_attributes(net.G, "t", NetworkNames.TOPOLOGY)
nx.set_edge_attributes(net.G, 4, NetworkNames.MOTIF_IDS)
el = to_el("hand:reverse-insertion", net)
if el is not None:
    to_net("hand:reverse-insertion:forward", el)

for cls in (nx.DiGraph, nx.MultiGraph, nx.MultiDiGraph):
    G = cls()
    G.add_edges_from([(0, 1), (1, 0), (1, 2)])
    nx.set_node_attributes(G, {0: (1,), 1: (2,), 2: (1,)}, NetworkNames.JOINT_DEGREE)
    nx.set_edge_attributes(G, "t", NetworkNames.TOPOLOGY)
    nx.set_edge_attributes(G, 4, NetworkNames.MOTIF_IDS)
    to_el("hand:" + cls.__name__, hand_net(G))
    to_el("hand:empty-" + cls.__name__, hand_net(cls()))

fz = nx.freeze(nx.path_graph(3))
to_el("hand:frozen-no-attrs", hand_net(fz))
to_el("hand:G-none", hand_net(None))
to_el("hand:G-dict", hand_net({}))
to_el("hand:subgraph-view", hand_net(nx.path_graph(4).subgraph([0, 1])))

# ------------------------------------------------ random edge lists
rnd = random.Random(77)
for trial in range(60):
    n = rnd.randrange(0, 12)
    m = rnd.randrange(0, 20) if n else 0
    edges = [(rnd.randrange(n), rnd.randrange(n)) for _ in range(m)]
    jds = [(rnd.randrange(4), rnd.randrange(3)) for _ in range(n)]
    topos = [rnd.choice(["2-clique", "3-clique", "c4"]) for _ in range(m)]
    mids = [rnd.randrange(6) for _ in range(m)]
    to_net("rand:%d" % trial, make_el(edges, jds, topos, mids))

# ------------------------------------------------ through the generator
jdd = {(1, 0): 0.2, (2, 1): 0.5, (3, 0): 0.1, (5, 1): 0.2, (0, 0): 0.0}
for n_vertices in (0, 1, 6, 60, 600):
    def pipeline():
        p = {JointDegreeNames.JDD: dict(jdd), JointDegreeNames.MOTIF_SIZES: [2, 3]}
        jds = JointDegreeManual(p).sample_jds_from_jdd(n_vertices)
        q = {
            GCMAlgorithmNames.MOTIF_SIZES: [2, 3],
            GCMAlgorithmNames.EDGE_NAMES: ["2-clique", "3-clique"],
            GCMAlgorithmNames.BUILD_FUNCTIONS: [clique_motif, clique_motif],
        }
        g = GCMAlgorithmNetwork(q).random_clustered_graph(jds)
        out("gen", n_vertices, "net", hashlib.sha256(repr(describe_graph(g.G)).encode()).hexdigest())
        el = NetworkToEdgeList.convert(g)
        out("gen", n_vertices, "el", hashlib.sha256(repr(describe_el(el)).encode()).hexdigest())
        g2 = EdgeListToNetwork.convert(el)
        out("gen", n_vertices, "net2", hashlib.sha256(repr(describe_graph(g2.G)).encode()).hexdigest())
        el2 = NetworkToEdgeList.convert(g2)
        out("gen", n_vertices, "roundtrip-same", describe_el(el) == describe_el(el2))

    attempt("gen:%d" % n_vertices, pipeline)

for line in LINES:
    print(line)
print("FINAL-RNG", rng_state())
print("DIGEST", H.hexdigest())
