"""
Equivalence digest for the C17 commit (cached reduced component subgraphs in AutomatedEquation).

Run with cwd = a checkout of gcmpy.  Exercises, through their PRE-EXISTING signatures only,
  AutomatedEquation.__init__, get_us(G, root), automated_equation(G, p, root)
(the functions the commit touched), the untouched helpers they rely on, and the one caller
MessagePassing.theoretical(phi).  Prints a deterministic digest: floats bit-exact through repr,
exception types and messages, cache contents, the inputs after the call and the RNG states.
"""
import hashlib
import os
import random
import sys
import warnings

if os.environ.get("PYTHONHASHSEED") != "0":
    # some motifs have string vertices and the library iterates over sets of them:
    # pin the string hash so that the digest is reproducible from run to run
    os.environ["PYTHONHASHSEED"] = "0"
    os.execv(sys.executable, [sys.executable] + sys.argv)
from fractions import Fraction

warnings.simplefilter("ignore")

import networkx as nx
import numpy as np

sys.path.insert(0, ".")
from gcmpy.message_passing.equations.automated_equation import AutomatedEquation  # noqa: E402
from gcmpy.message_passing.message_passing import MessagePassing  # noqa: E402

random.seed(20261004)
np.random.seed(20261004)
RNG = random.Random(1717)  # private stream for the inputs, the global ones must stay untouched


def show(x):
    if isinstance(x, (float, np.floating)):
        return f"{type(x).__name__}:{float(x).hex()}:{x!r}"
    if isinstance(x, dict):
        return "{" + ", ".join(f"{show(k)}: {show(v)}" for k, v in x.items()) + "}"
    if isinstance(x, (list, tuple)):
        return type(x).__name__ + "(" + ", ".join(show(v) for v in x) + ")"
    if isinstance(x, (set, frozenset)):
        return "set(" + ", ".join(sorted(show(v) for v in x)) + ")"
    return f"{type(x).__name__}:{x!r}"


def graph_state(G):
    if not isinstance(G, nx.Graph):
        return show(G)
    return (
        f"{type(G).__name__} name={G.name!r} graph={show(dict(G.graph))} "
        f"nodes={show(list(G.nodes(data=True)))} adj={show([(n, list(nb)) for n, nb in G.adjacency()])} "
        f"edges={show(list(G.edges(data=True)))}"
    )


def caches(ae):
    ec = {k: list(v) for k, v in ae._edge_combinations.items()}
    cs = {k: [sorted(s, key=repr) for s in v] for k, v in ae._connected_subgraphs.items()}
    blob = show(ec) + "|" + show(cs)
    return f"edge_comb={len(ec)} conn_sub={len(cs)} sha={hashlib.sha256(blob.encode()).hexdigest()[:20]}"


def call(label, fn, *inputs):
    try:
        out = "-> " + show(fn())
    except BaseException as e:  # noqa: BLE001
        out = f"!! {type(e).__module__}.{type(e).__name__}: {e}"
    print(f"{label} {out}")
    for G in inputs:
        print(f"    input after: {graph_state(G)}")


def set_us(G, gen):
    nx.set_node_attributes(G, {n: gen() for n in G.nodes()}, "u")
    return G


def named(G, name):
    G.name = name
    return G


PS = [0.0, 1.0, 0.5, 0.5645231765, 0.1, 1e-12, 1 - 1e-12, 0.999, -0.3, 1.7, 0, 1, True,
      Fraction(1, 3), np.float64(0.3), float("nan")]


def motifs():
    out = []
    for n in (2, 3, 4, 5):
        out.append(named(nx.complete_graph(n), f"{n}-clique"))
    for n in (3, 4, 5, 6):
        out.append(named(nx.cycle_graph(n), f"{n}-cycle"))
    d = nx.Graph()
    d.add_edges_from([(0, 1), (1, 2), (2, 3), (3, 0), (0, 2)])
    out.append(named(d, "1,3-chorded-4-cycle"))
    out.append(named(nx.path_graph(4), "4-path"))
    out.append(named(nx.star_graph(3), "3-star"))
    b = nx.Graph()
    b.add_edges_from([(7, 3), (3, 9), (9, 7), (9, 4), (4, 11), (11, 9)])
    out.append(named(b, "bowtie"))
    t = nx.Graph()
    t.add_edges_from([("a", "b"), ("b", "c"), ("c", "a"), ("c", "d")])
    out.append(named(t, "tadpole-str"))
    return out


# ------------------------------------------------------------------------------------------
print("== A. named motifs, every root, many p, one long-lived AutomatedEquation")
ae = AutomatedEquation()
print("fresh object attributes:", sorted(k for k in vars(ae) if k in ("_edge_combinations", "_connected_subgraphs")),
      show(ae._edge_combinations), show(ae._connected_subgraphs))
Ms = motifs()
for G in Ms:
    set_us(G, RNG.random)
for G in Ms:
    for root in list(G.nodes()):
        for p in PS:
            call(f"A {G.name} root={root!r} p={p!r}", lambda: ae.automated_equation(G, p, root))
    print(f"    input after: {graph_state(G)}")
print("A caches:", caches(ae))

print("== B. same object and same motifs again with new u values (same graph objects, then rebuilt ones)")
for rnd in range(3):
    for G in Ms:
        set_us(G, RNG.random)
        for root in list(G.nodes())[:3]:
            for p in (0.05, 0.3, 0.5645231765, 1.0):
                call(f"B{rnd} {G.name} root={root!r} p={p!r}", lambda: ae.automated_equation(G, p, root))
for G in motifs():
    set_us(G, lambda: RNG.choice([0.0, 1.0, 0.25, 1e-300, 3, Fraction(2, 7), np.float64(0.75)]))
    for root in list(G.nodes())[:2]:
        for p in (0.3, Fraction(1, 4)):
            call(f"B-rebuilt {G.name} root={root!r} p={p!r}", lambda: ae.automated_equation(G, p, root), G)
print("B caches:", caches(ae))

print("== C. name collisions on one object: unnamed graphs, reused names, other node / edge order")
ae = AutomatedEquation()
seq = [
    nx.complete_graph(3), nx.cycle_graph(4), nx.complete_graph(4), nx.path_graph(3), nx.complete_graph(3),
    nx.path_graph(2), nx.star_graph(4), nx.cycle_graph(4), nx.complete_graph(2),
]
for i, G in enumerate(seq):
    set_us(G, RNG.random)
    for root in (0, 1, 2):
        call(f"C unnamed#{i} n={len(G)} m={G.number_of_edges()} root={root}",
             lambda: ae.automated_equation(G, 0.37, root))
print("C caches:", caches(ae))
orders = [
    [(0, 1), (1, 2), (2, 3), (3, 0), (0, 2)],
    [(0, 2), (3, 0), (2, 3), (1, 2), (0, 1)],
    [(3, 2), (2, 1), (1, 0), (0, 3), (2, 0)],
    [(0, 1), (1, 2), (2, 3), (3, 0), (1, 3)],
    [(0, 1), (1, 2), (2, 3), (3, 0)],
    [(0, 1), (1, 2), (2, 3), (3, 0), (0, 2)],
]
for i, es in enumerate(orders):
    G = nx.Graph(name="diamond")
    if i == 2:
        G.add_nodes_from([3, 1, 0, 2])
    G.add_edges_from(es)
    us = {0: 0.11, 1: 0.23, 2: 0.37, 3: 0.53}
    nx.set_node_attributes(G, {n: us[n] * (1 + i / 7) for n in G.nodes()}, "u")
    for root in (0, 1, 3):
        for p in (0.2, 0.81):
            call(f"C diamond#{i} root={root} p={p}", lambda: ae.automated_equation(G, p, root))
    print(f"    input after: {graph_state(G)}")
print("C caches:", caches(ae))

print("== D. error paths and odd inputs (one object, then a fresh object for each)")
def odd_inputs():
    out = []
    G = set_us(named(nx.complete_graph(3), "tri-missing-one"), RNG.random); del G.nodes[2]["u"]
    out.append(("missing u on 2", G, 0.4, 0))
    out.append(("missing u on root only", (lambda H: (H.nodes[0].pop("u"), H)[1])(set_us(named(nx.complete_graph(3), "tri-missing-root"), RNG.random)), 0.4, 0))
    out.append(("no u at all", named(nx.cycle_graph(4), "no-u"), 0.4, 1))
    out.append(("root absent", set_us(named(nx.complete_graph(3), "tri-absent"), RNG.random), 0.4, 17))
    out.append(("root absent, name seen before", set_us(named(nx.complete_graph(3), "tri-missing-one"), RNG.random), 0.4, 5))
    out.append(("empty graph", named(nx.Graph(), "empty"), 0.4, 0))
    G = set_us(named(nx.path_graph(3), "with-isolated"), RNG.random); G.add_node(9, u=0.5)
    out.append(("isolated root", G, 0.4, 9))
    out.append(("isolated other", G, 0.4, 0))
    G = set_us(named(nx.disjoint_union(nx.complete_graph(3), nx.path_graph(2)), "disconnected"), RNG.random)
    out.append(("disconnected root in tri", G, 0.4, 1))
    out.append(("disconnected root in edge", G, 0.4, 4))
    out.append(("p str", set_us(named(nx.complete_graph(3), "tri-pstr"), RNG.random), "0.4", 0))
    out.append(("p None", set_us(named(nx.complete_graph(3), "tri-pnone"), RNG.random), None, 0))
    out.append(("p complex", set_us(named(nx.complete_graph(3), "tri-pcomplex"), RNG.random), 0.4 + 0.1j, 0))
    out.append(("G None", None, 0.4, 0))
    out.append(("root None", set_us(named(nx.complete_graph(3), "tri-rootnone"), RNG.random), 0.4, None))
    out.append(("root unhashable", set_us(named(nx.complete_graph(3), "tri-rootlist"), RNG.random), 0.4, [0]))
    G = set_us(named(nx.complete_graph(3), "selfloop"), RNG.random); G.add_edge(1, 1)
    out.append(("self loop", G, 0.4, 0))
    out.append(("self loop at root", G, 0.4, 1))
    G = set_us(named(nx.DiGraph([(0, 1), (1, 2), (2, 0)]), "digraph"), RNG.random)
    out.append(("digraph", G, 0.4, 0))
    G = set_us(named(nx.MultiGraph([(0, 1), (0, 1), (1, 2), (2, 0)]), "multigraph"), RNG.random)
    out.append(("multigraph", G, 0.4, 0))
    G = named(nx.complete_graph(3), "u-str"); nx.set_node_attributes(G, "x", "u")
    out.append(("u str", G, 0.4, 0))
    G = named(nx.complete_graph(3), "u-nan-inf"); nx.set_node_attributes(G, {0: 0.5, 1: float("nan"), 2: float("inf")}, "u")
    out.append(("u nan/inf", G, 0.4, 0))
    G = named(nx.complete_graph(3), "u-none"); nx.set_node_attributes(G, None, "u")
    out.append(("u None", G, 0.4, 0))
    G = set_us(nx.complete_graph(3), RNG.random); G.name = 12
    out.append(("name int", G, 0.4, 0))
    G = set_us(named(nx.Graph([((0, 0), (0, 1)), ((0, 1), (1, 1)), ((1, 1), (0, 0))]), "tuple-nodes"), RNG.random)
    out.append(("tuple nodes", G, 0.4, (0, 0)))
    G = set_us(named(nx.Graph([(0, "x"), ("x", 2.5), (2.5, 0)]), "mixed-nodes"), RNG.random)
    out.append(("mixed nodes", G, 0.4, "x"))
    return out

ae = AutomatedEquation()
for lbl, G, p, root in odd_inputs():
    call(f"D shared [{lbl}]", lambda: ae.automated_equation(G, p, root), G)
    call(f"D shared again [{lbl}]", lambda: ae.automated_equation(G, p, root))
    print("    caches:", caches(ae))
for lbl, G, p, root in odd_inputs():
    one = AutomatedEquation()
    call(f"D fresh [{lbl}]", lambda: one.automated_equation(G, p, root))
    print("    caches:", caches(one))

print("== E. a failed evaluation followed by a repaired one, and a motif that is edited between calls")
ae = AutomatedEquation()
G = named(nx.cycle_graph(4), "repairable")
call("E no u", lambda: ae.automated_equation(G, 0.4, 0))
nx.set_node_attributes(G, {1: 0.3, 2: 0.6}, "u")
call("E some u", lambda: ae.automated_equation(G, 0.4, 0))
nx.set_node_attributes(G, {3: 0.9}, "u")
call("E all but root u", lambda: ae.automated_equation(G, 0.4, 0))
call("E other root", lambda: ae.automated_equation(G, 0.4, 2))
G.add_edge(0, 2)
call("E chord added, same name", lambda: ae.automated_equation(G, 0.4, 0), G)
G.remove_edge(0, 2)
call("E chord removed again", lambda: ae.automated_equation(G, 0.4, 0), G)
G.add_edge(3, 4); G.nodes[4]["u"] = 0.2
call("E pendant added", lambda: ae.automated_equation(G, 0.4, 0), G)
G.remove_node(1)
call("E vertex removed", lambda: ae.automated_equation(G, 0.4, 0), G)
print("E caches:", caches(ae))
H = set_us(named(nx.complete_graph(4), "copied"), RNG.random)
call("E original", lambda: ae.automated_equation(H, 0.6, 0))
H2 = H.copy(); nx.set_node_attributes(H2, {1: 0.01, 2: 0.02, 3: 0.03}, "u")
call("E copy with other u", lambda: ae.automated_equation(H2, 0.6, 0))
call("E original again", lambda: ae.automated_equation(H, 0.6, 0), H, H2)
H3 = nx.relabel_nodes(H, {0: 3, 3: 0}); H3.name = "copied"
call("E relabelled, same name", lambda: ae.automated_equation(H3, 0.6, 0), H3)

print("== F. helpers through their old signatures")
ae = AutomatedEquation()
for G in motifs():
    set_us(G, RNG.random)
    r = list(G.nodes())[0]
    call(f"F get_us {G.name}", lambda: ae.get_us(G, r))
    call(f"F get_us {G.name} root absent", lambda: ae.get_us(G, "nope"))
    call(f"F get_connected_subgraphs {G.name}", lambda: ae.get_connected_subgraphs(G, r))
    call(f"F get_edge_combinations {G.name}", lambda: ae.get_edge_combinations(G, list(G.nodes())))
    call(f"F automated_equation afterwards {G.name}", lambda: ae.automated_equation(G, 0.45, r))
call("F get_us no attr", lambda: ae.get_us(nx.path_graph(2), 0))
call("F get_us empty", lambda: ae.get_us(nx.Graph(), 0))
call("F get_us positional misuse", lambda: ae.get_us(nx.Graph()))
call("F automated_equation keywords", lambda: ae.automated_equation(G=set_us(named(nx.complete_graph(3), "kw"), RNG.random), p=0.3, root=2))
call("F automated_equation too many args", lambda: ae.automated_equation(nx.Graph(), 0.3, 0, 1))
print("F caches:", caches(ae))


class Logged(AutomatedEquation):
    """records the order in which the old helpers are consulted"""

    def __init__(self):
        super().__init__()
        self.log = []

    def get_connected_subgraphs(self, G, root):
        self.log.append(("cs", G.name, root))
        return super().get_connected_subgraphs(G, root)

    def get_edge_combinations(self, G, c):
        self.log.append(("ec", G.name, tuple(c), tuple(G.nodes()), tuple(G.edges())))
        return super().get_edge_combinations(G, c)


print("== G. edge-combination requests seen by a subclass (first evaluation of each motif)")
lg = Logged()
for G in motifs()[:9]:
    set_us(G, RNG.random)
    call(f"G {G.name}", lambda: lg.automated_equation(G, 0.35, list(G.nodes())[-1]))
print("G edge-combination log sha:", hashlib.sha256(show([e for e in lg.log if e[0] == "ec"]).encode()).hexdigest()[:20],
      len([e for e in lg.log if e[0] == "ec"]))

print("== H. MessagePassing.theoretical: fresh and reused objects")
MOTIFS = [
    (3, [16, 13, 9], [(16, 13), (13, 9), (16, 9)]),
    (40, [11, 9, 5, 12], [(11, 9), (9, 5), (5, 12), (12, 11)]),
    (41, [17, 8, 3, 14], [(17, 8), (8, 3), (3, 14), (14, 17), (17, 3)]),
    (4, [0, 7, 12, 13], [(0, 7), (0, 12), (0, 13), (7, 12), (7, 13), (12, 13)]),
    (2, [13, 8], [(13, 8)]),
    (50, [16, 10, 12, 2, 8], [(16, 10), (10, 12), (12, 2), (2, 8), (8, 16)]),
    (3, [1, 4, 6], [(1, 4), (4, 6), (1, 6)]),
    (41, [3, 2, 9, 6], [(3, 2), (2, 9), (9, 6), (6, 3), (3, 9)]),
    (40, [13, 11, 1, 14], [(13, 11), (11, 1), (1, 14), (14, 13)]),
    (3, [7, 16, 11], [(7, 16), (16, 11), (7, 11)]),
    (2, [1, 8], [(1, 8)]),
    (3, [5, 10, 3], [(5, 10), (10, 3), (5, 3)]),
    (41, [9, 1, 15, 17], [(9, 1), (1, 15), (15, 17), (17, 9), (9, 15)]),
    (3, [7, 15, 10], [(7, 15), (15, 10), (7, 10)]),
    (2, [6, 11], [(6, 11)]),
    (40, [14, 16, 4, 15], [(14, 16), (16, 4), (4, 15), (15, 14)]),
]


def network(motif_list):
    G = nx.Graph()
    for uid, (key, vs, es) in enumerate(motif_list):
        for a, b in es:
            G.add_edge(a, b, CoverLabel=f"{key}-{vs}-{es}-{uid}")
    return G


def h_tau(mp):
    blob = show(sorted(mp._H_tau.items()))
    return hashlib.sha256(blob.encode()).hexdigest()[:20]


NET = network(MOTIFS)
before = graph_state(NET)
for phi in (0.0, 0.05, 0.17, 0.3, 0.6, 1.0):
    mp = MessagePassing(NET, iterations=6)
    call(f"H fresh it=6 phi={phi}", lambda: mp.theoretical(phi))
    print("    H_tau:", h_tau(mp), "caches:", caches(mp._AE))
mp = MessagePassing(NET, iterations=4)
for phi in (0.6, 0.05, 1.0, 0.0, 0.3, 0.6, 0.6, Fraction(1, 2), -0.1, 1.3, "x"):
    call(f"H reused it=4 phi={phi!r}", lambda: mp.theoretical(phi))
    print("    H_tau:", h_tau(mp), "caches:", caches(mp._AE))
call("H default iterations, tree of triangles",
     lambda: MessagePassing(network(MOTIFS[:1] + MOTIFS[9:10] + MOTIFS[13:14])).theoretical(0.7))
call("H zero iterations", lambda: MessagePassing(NET, iterations=0).theoretical(0.4))
call("H positional cover type", lambda: MessagePassing(NET, "motif cover", 2).theoretical(0.4))
call("H unlabelled network", lambda: MessagePassing(nx.complete_graph(3), iterations=2).theoretical(0.4))
call("H empty network", lambda: MessagePassing(nx.Graph(), iterations=2).theoretical(0.4))
mp = MessagePassing(NET, iterations=2)
call("H resolve_equation direct", lambda: (mp.__setattr__("_phi", 0.3), mp.resolve_equation(
    13, NET.edges[16, 13]["CoverLabel"], {16: 0.2, 9: 0.7}))[1])
call("H resolve_equation direct, other u", lambda: mp.resolve_equation(
    13, NET.edges[16, 13]["CoverLabel"], {16: 0.9, 9: 0.1}))
call("H resolve_equation direct, u missing", lambda: mp.resolve_equation(
    13, NET.edges[16, 13]["CoverLabel"], {16: 0.9}))
print("network untouched:", before == graph_state(NET))

print("== I. RNG state afterwards")
print("random:", hashlib.sha256(repr(random.getstate()).encode()).hexdigest()[:20], repr(random.random()))
st = np.random.get_state()
print("numpy:", hashlib.sha256(st[1].tobytes() + repr(st[2:]).encode()).hexdigest()[:20], repr(np.random.random()))
