import sys, os; sys.path.insert(0, os.getcwd())
# Differential digest for property C04 (edge list <-> network conversion).
# Run with cwd = a gcmpy checkout.  Prints a deterministic digest of return
# values, exception types, argument / object state after the calls and the
# RNG states, for the three touched sites:
#   EdgeListToNetwork.convert, NetworkToEdgeList.convert, Network.has_edges.
# FOCUS: variant a - EdgeListToNetwork.convert: edge attributes only written when the attribute dicts are non-empty (sections 1 and 4: no edges, isolated vertices only, names or ids missing or shorter, exhausted iterators)
import hashlib
import random
import re

import numpy as np
import networkx as nx

from gcmpy.network.edge_list import LightWeightEdgeList
from gcmpy.network.edge_list_to_network import EdgeListToNetwork
from gcmpy.network.network_to_edge_list import NetworkToEdgeList
from gcmpy.network.network import Network
from gcmpy.names.network_names import NetworkNames
from gcmpy.names.joint_degree_names import JointDegreeNames
from gcmpy.names.gcm_algorithm_names import GCMAlgorithmNames
from gcmpy.joint_degree.joint_degree_loaders.joint_degree_manual import (
    JointDegreeManual,
)
from gcmpy.gcm_algorithm.gcm_algorithm_network import GCMAlgorithmNetwork
from gcmpy.gcm_algorithm.gcm_algorithm_fast import GCMAlgorithmFast
from gcmpy.motif_generators.clique_motif import clique_motif
from gcmpy.covers.eecc import EECC

random.seed(20261004)
np.random.seed(20261004)

OUT = []


def emit(*parts):
    OUT.append(" | ".join(str(p) for p in parts))


def h(s):
    return hashlib.sha256(s.encode()).hexdigest()[:16]


def rng_state():
    return h(repr(random.getstate())) + "/" + h(repr(np.random.get_state()))


def R(x):
    # repr that also shows the concrete type (memory addresses removed)
    return "%s:%s" % (type(x).__name__, re.sub(r"0x[0-9a-f]+", "0x", repr(x)))


def graph_digest(G, short=False):
    if isinstance(G, Network):
        G = G.G
    if not isinstance(G, nx.Graph):
        return R(G)
    parts = [
        type(G).__name__,
        "nodes=" + repr([(n, sorted((str(k), repr(v)) for k, v in d.items()))
                         for n, d in G.nodes(data=True)]),
        "edges=" + repr([e[:-1] + (sorted((str(k), repr(v)) for k, v in e[-1].items()),)
                         for e in G.edges(data=True)]),
        "adj=" + repr({n: list(nb) for n, nb in G.adjacency()}),
        "gattr=" + repr(G.graph),
        "cache=" + repr(getattr(G, "__networkx_cache__", "n/a")),
    ]
    s = " ; ".join(parts)
    return h(s) + " len=%d" % len(s) if short else s


def el_digest(el, short=False):
    if el is None:
        return "-"
    s = "el=%s jd=%s top=%s mid=%s distinct=%s" % (
        R(el.edge_list), R(el.joint_degrees), R(el.topologies), R(el.motif_id),
        len({id(el.edge_list), id(el.joint_degrees), id(el.topologies), id(el.motif_id)}),
    )
    return h(s) + " len=%d" % len(s) if short else s


def mk_el(edges, jds, tops, mids):
    el = LightWeightEdgeList()
    el.edge_list = edges
    el.joint_degrees = jds
    el.topologies = tops
    el.motif_id = mids
    return el


def try_call(tag, f, *a):
    try:
        r = f(*a)
        return "ok", r
    except BaseException as exc:  # digest the type, not the message
        return "EXC " + type(exc).__module__ + "." + type(exc).__name__, None


# ---------------------------------------------------------------- section 1
# EdgeListToNetwork.convert on hand-made edge lists (boundary + malformed)
def to_network_case(tag, make, repeat=2, short=False):
    el = make()
    for k in range(repeat):  # repeated calls on ONE object
        status, net = try_call(tag, EdgeListToNetwork.convert, el)
        if net is not None:
            emit("E2N", tag, k, status, type(net).__name__, graph_digest(net.G, short),
                 "has_edges=%r" % net.has_edges())
            st2, back = try_call(tag, NetworkToEdgeList.convert, net)
            emit("E2N>N2E", tag, k, st2, el_digest(back, short) if back is not None else "-")
        else:
            emit("E2N", tag, k, status)
        # argument state after the call (lists only; iterators are shown by type)
        try:
            emit("E2N arg", tag, k, el_digest(el, short))
        except BaseException as exc:
            emit("E2N arg", tag, k, "EXC", type(exc).__name__)
    # what is left in one-shot iterators after the calls
    for fld in ("edge_list", "joint_degrees", "topologies", "motif_id"):
        v = getattr(el, fld)
        if hasattr(v, "__next__"):
            emit("E2N left", tag, fld, R(list(v)))
    emit("rng", tag, rng_state())


JD = [(1, 0), (2, 1), (0, 0), (3, 0)]
cases = {
    "all-empty": lambda: mk_el([], [], [], []),
    "default-object": lambda: LightWeightEdgeList(),
    "isolated-only": lambda: mk_el([], [(0, 0), (0, 0), (0, 0)], [], []),
    "single-vertex": lambda: mk_el([], [(0, 0)], [], []),
    "one-edge": lambda: mk_el([(0, 1)], [(1, 0), (1, 0)], ["2-clique"], [0]),
    "one-edge-no-jd": lambda: mk_el([(0, 1)], [], ["2-clique"], [0]),
    "edges-no-names": lambda: mk_el([(0, 1), (1, 2)], JD, [], []),
    "edges-no-ids": lambda: mk_el([(0, 1), (1, 2)], JD, ["a", "b"], []),
    "edges-no-names-ids": lambda: mk_el([(0, 1), (1, 2)], JD, [], [7, 8]),
    "names-no-edges": lambda: mk_el([], JD, ["a", "b"], [1, 2]),
    "short-names": lambda: mk_el([(0, 1), (1, 2), (2, 3)], JD, ["a"], [1, 2, 3]),
    "short-ids": lambda: mk_el([(0, 1), (1, 2), (2, 3)], JD, ["a", "b", "c"], [1]),
    "long-names": lambda: mk_el([(0, 1)], JD, ["a", "b", "c"], [1, 2, 3]),
    "duplicate-pair": lambda: mk_el([(0, 1), (0, 1)], JD, ["a", "b"], [1, 2]),
    "reversed-pair": lambda: mk_el([(0, 1), (1, 0)], JD, ["a", "b"], [1, 2]),
    "self-loop": lambda: mk_el([(2, 2)], JD, ["loop"], [5]),
    "self-loop-dup": lambda: mk_el([(2, 2), (2, 2), (0, 1)], JD, ["l1", "l2", "e"], [5, 6, 7]),
    "beyond-jds": lambda: mk_el([(0, 9), (9, 11)], JD, ["a", "b"], [1, 2]),
    "falsy-names": lambda: mk_el([(0, 1), (1, 2)], JD, ["", None], [0, 0]),
    "falsy-names-one": lambda: mk_el([(0, 1)], JD, [0], [0]),
    "zero-vertex-edge": lambda: mk_el([(0, 0)], [(0, 0)], [None], [None]),
    "str-vertices": lambda: mk_el([("a", "b")], JD, ["t"], [1]),
    "tuple-vertices": lambda: mk_el([((0, 1), (1, 2))], JD, ["t"], [1]),
    "list-edges": lambda: mk_el([[0, 1], [1, 2]], JD, ["a", "b"], [1, 2]),
    "list-edges-no-names": lambda: mk_el([[0, 1], [1, 2]], JD, [], []),
    "triple-dict": lambda: mk_el([(0, 1, {"w": 3})], JD, ["a"], [1]),
    "triple-dict-no-names": lambda: mk_el([(0, 1, {"w": 3})], JD, [], []),
    "triple-nondict": lambda: mk_el([(0, 1, 5)], JD, ["a"], [1]),
    "one-tuple": lambda: mk_el([(0,)], JD, ["a"], [1]),
    "four-tuple": lambda: mk_el([(0, 1, 2, 3)], JD, ["a"], [1]),
    "none-vertex": lambda: mk_el([(None, 1)], JD, ["a"], [1]),
    "unhashable-vertex": lambda: mk_el([([0], 1)], JD, ["a"], [1]),
    "int-edge": lambda: mk_el([3], JD, ["a"], [1]),
    "edge-list-None": lambda: mk_el(None, JD, [], []),
    "edge-list-0": lambda: mk_el(0, JD, [], []),
    "names-None": lambda: mk_el([(0, 1)], JD, None, [1]),
    "names-None-no-edges": lambda: mk_el([], JD, None, []),
    "ids-None": lambda: mk_el([(0, 1)], JD, ["a"], None),
    "ids-None-no-edges": lambda: mk_el([], JD, [], None),
    "jds-None": lambda: mk_el([(0, 1)], None, ["a"], [1]),
    "jds-int": lambda: mk_el([], 4, [], []),
    "jds-str": lambda: mk_el([(0, 1)], "abc", ["a"], [1]),
    "jds-dict": lambda: mk_el([(0, 1)], {5: "x", 6: "y"}, ["a"], [1]),
    "jds-tuple": lambda: mk_el([(0, 1)], tuple(JD), ("a",), (1,)),
    "jds-unhashable-values": lambda: mk_el([(0, 1)], [[1, 0], [1, 0]], ["a"], [[1]]),
    "edges-tuple": lambda: mk_el(((0, 1), (1, 2)), JD, ("a", "b"), (1, 2)),
    "edges-set": lambda: mk_el({(0, 1)}, JD, {"a"}, {1}),
    "edges-dict": lambda: mk_el({(0, 1): "x"}, JD, {"a": 1}, {1: 1}),
    "edges-str": lambda: mk_el(["ab", "bc"], JD, ["a", "b"], [1, 2]),
    "edges-generator": lambda: mk_el((e for e in [(0, 1), (1, 2)]), JD, ["a", "b"], [1, 2]),
    "edges-iterator": lambda: mk_el(iter([(0, 1), (1, 2)]), JD, iter(["a", "b"]), iter([1, 2])),
    "names-generator": lambda: mk_el([(0, 1), (1, 2)], JD, (t for t in ["a", "b"]), [1, 2]),
    "names-iter-empty": lambda: mk_el([(0, 1), (1, 2)], JD, iter([]), iter([1, 2])),
    "np-edges": lambda: mk_el(np.array([[0, 1], [1, 2]]), JD, ["a", "b"], [1, 2]),
    "np-edges-empty": lambda: mk_el(np.zeros((0, 2), dtype=int), JD, [], []),
    "np-jds": lambda: mk_el([(0, 1)], np.array(JD), np.array(["a"]), np.array([1])),
    "float-vertices": lambda: mk_el([(0.0, 1.0), (0, 1)], JD, ["f", "i"], [1, 2]),
    "nan-vertices": lambda: mk_el([(float("nan"), 1)], JD, ["f"], [1]),
    "bool-vertices": lambda: mk_el([(False, True)], JD, ["b"], [1]),
    "shared-lists": lambda: (lambda L: mk_el(L, L, L, L))([]),
    "shared-lists-nonempty": lambda: (lambda L: mk_el(L, L, L, L))([(0, 1), (1, 2)]),
}
for tag, make in cases.items():
    to_network_case(tag, make)


class Loud(list):
    """list that logs how it is queried"""
    log = []

    def __init__(self, name, it=()):
        super().__init__(it)
        self.name = name

    def __len__(self):
        Loud.log.append(self.name + ".len")
        return super().__len__()

    def __iter__(self):
        Loud.log.append(self.name + ".iter")
        return super().__iter__()

    def __bool__(self):
        Loud.log.append(self.name + ".bool")
        return super().__len__() > 0


for edges, jds, tops, mids in [
    ([], [], [], []),
    ([], JD, [], []),
    ([(0, 1)], JD, [], []),
    ([(0, 1)], JD, ["a"], [1]),
    ([(0, 1)], JD, ["a"], []),
]:
    Loud.log = []
    el = mk_el(Loud("E", edges), Loud("J", jds), Loud("T", tops), Loud("M", mids))
    status, net = try_call("loud", EdgeListToNetwork.convert, el)
    emit("E2N loud", status, graph_digest(net), "log=" + ",".join(Loud.log))


# ---------------------------------------------------------------- section 2
# NetworkToEdgeList.convert on hand-made networks (boundary + malformed)
def annotate(G, jd=True, top=True, mid=True, skip_edge=None, skip_node=None):
    if jd:
        for n in G.nodes():
            if n != skip_node:
                G.nodes[n][NetworkNames.JOINT_DEGREE] = (G.degree(n), 0)
    for k, e in enumerate(G.edges()):
        if e == skip_edge:
            continue
        if top:
            G.edges[e][NetworkNames.TOPOLOGY] = "t%d" % k
        if mid:
            G.edges[e][NetworkNames.MOTIF_IDS] = k
    return G


def net_of(G):
    net = Network()
    net.G = G
    return net


def empty_graph(n, cls=nx.Graph):
    G = cls()
    G.add_nodes_from(range(n))
    return G


def relabelled():
    G = nx.Graph()
    G.add_nodes_from(["a", "b"])
    return annotate(G)


def node_gap():
    G = nx.Graph()
    G.add_nodes_from([0, 2, 3])
    return annotate(G)


def removed_edges():
    G = annotate(nx.path_graph(4))
    G.remove_edges_from(list(G.edges()))
    return G


def multigraph_edges():
    G = nx.MultiGraph()
    G.add_nodes_from(range(3))
    G.add_edge(0, 1)
    G.add_edge(0, 1)
    for n in G.nodes():
        G.nodes[n][NetworkNames.JOINT_DEGREE] = (1, 1)
    return G


def digraph_edges():
    G = nx.DiGraph()
    G.add_edges_from([(0, 1), (1, 0), (1, 2)])
    return annotate(G)


ncases = {
    "fresh-Network": lambda: Network(),
    "null-graph": lambda: net_of(nx.Graph()),
    "isolated-1": lambda: net_of(annotate(empty_graph(1))),
    "isolated-5": lambda: net_of(annotate(empty_graph(5))),
    "isolated-no-jd": lambda: net_of(empty_graph(3)),
    "isolated-one-jd-missing": lambda: net_of(annotate(empty_graph(3), skip_node=1)),
    "isolated-str-labels": lambda: net_of(relabelled()),
    "isolated-label-gap": lambda: net_of(node_gap()),
    "edges-removed": lambda: net_of(removed_edges()),
    "path": lambda: net_of(annotate(nx.path_graph(5))),
    "path-plus-isolated": lambda: net_of(annotate(nx.disjoint_union(nx.path_graph(3), empty_graph(2)))),
    "complete": lambda: net_of(annotate(nx.complete_graph(4))),
    "self-loop": lambda: net_of(annotate(nx.Graph([(0, 0), (0, 1)]))),
    "one-edge": lambda: net_of(annotate(nx.Graph([(0, 1)]))),
    "no-topology": lambda: net_of(annotate(nx.path_graph(3), top=False)),
    "no-motif-id": lambda: net_of(annotate(nx.path_graph(3), mid=False)),
    "no-jd": lambda: net_of(annotate(nx.path_graph(3), jd=False)),
    "one-edge-bare": lambda: net_of(annotate(nx.path_graph(4), skip_edge=(1, 2))),
    "str-keys-not-enum": lambda: net_of(nx.Graph([(0, 1, {"topology": "x", "motif_ids": 1})])),
    "digraph-empty": lambda: net_of(annotate(empty_graph(3, nx.DiGraph))),
    "digraph": lambda: net_of(digraph_edges()),
    "multigraph-empty": lambda: net_of(annotate(empty_graph(3, nx.MultiGraph))),
    "multigraph": lambda: net_of(multigraph_edges()),
    "multidigraph-empty": lambda: net_of(annotate(empty_graph(2, nx.MultiDiGraph))),
    "frozen-empty": lambda: net_of(nx.freeze(annotate(empty_graph(3)))),
    "frozen-path": lambda: net_of(nx.freeze(annotate(nx.path_graph(3)))),
    "subgraph-view-empty": lambda: net_of(annotate(nx.path_graph(4)).subgraph([0])),
    "subgraph-view": lambda: net_of(annotate(nx.path_graph(4)).subgraph([0, 1])),
    "G-None": lambda: net_of(None),
    "G-list": lambda: net_of([]),
    "G-dict": lambda: net_of({}),
    "G-int": lambda: net_of(0),
    "not-a-network": lambda: None,
    "bare-nx-graph": lambda: nx.path_graph(3),
    "EECC-empty": lambda: EECC(),
}
for tag, make in ncases.items():
    net = make()
    for k in range(2):  # repeated calls on ONE object
        before = graph_digest(getattr(net, "G", None), short=True)
        status, el = try_call(tag, NetworkToEdgeList.convert, net)
        after = graph_digest(getattr(net, "G", None), short=True)
        emit("N2E", tag, k, status, el_digest(el) if el is not None else "-",
             "arg-unchanged=%r" % (before == after))
        if el is not None:
            emit("N2E fresh-lists", tag, k,
                 el.topologies is not el.motif_id,
                 el.edge_list is not el.topologies,
                 el.joint_degrees is not el.topologies,
                 type(el.topologies).__name__, type(el.motif_id).__name__)
            # results must be independent objects that can be extended separately
            el.topologies.append("X")
            el.motif_id.append("Y")
            emit("N2E after-append", tag, k, el_digest(el))
            st2, net2 = try_call(tag, EdgeListToNetwork.convert, el)
            emit("N2E>E2N", tag, k, st2, graph_digest(net2.G) if net2 is not None else "-")
        try:
            emit("N2E has_edges", tag, k, R(net.has_edges()))
        except BaseException as exc:
            emit("N2E has_edges", tag, k, "EXC", type(exc).__name__)
    emit("rng", tag, rng_state())


# ---------------------------------------------------------------- section 3
# Network.has_edges / remove_edge / add_edge(s) on one object, many states
def he(net):
    st, r = try_call("he", net.has_edges)
    return st + " " + R(r)


net = Network()
emit("HE new", he(net), he(net))
net.add_edges_from([])
emit("HE add-none", he(net))
net.add_edge((0, 1))
emit("HE one", he(net))
net.remove_edge(1, 0)
emit("HE removed", he(net), graph_digest(net.G))
net.remove_edge(1, 0)
net.remove_edge(5, 6)
emit("HE removed-again", he(net), graph_digest(net.G))
net.add_edge((3, 3))
emit("HE self-loop", he(net), len(net.G.edges()))
net.remove_edge(3, 3)
emit("HE self-loop-removed", he(net))
net.add_edges_from([(0, 1), (1, 2), (2, 0), (0, 1)])
emit("HE triangle", he(net), len(net.G.edges()))
for i, j in [(0, 1), (1, 2), (0, 2)]:
    net.remove_edge(i, j)
    emit("HE peel", i, j, he(net))
net.G.add_nodes_from(range(100))
emit("HE many-isolated", he(net))
for cls in (nx.Graph, nx.DiGraph, nx.MultiGraph, nx.MultiDiGraph):
    for edges in ([], [(0, 0)], [(0, 1)], [(0, 1), (1, 0)], [(0, 1), (0, 1)]):
        n2 = Network()
        n2.G = cls(edges)
        emit("HE cls", cls.__name__, edges, he(n2), he(n2))
    n2 = Network()
    n2.G = nx.freeze(cls([(0, 1)]))
    emit("HE frozen", cls.__name__, he(n2))
for bad in (None, [], {}, 0, "ab", nx.path_graph(3).edges):
    n2 = Network()
    n2.G = bad
    emit("HE bad-G", type(bad).__name__, he(n2))


class NegLen:
    def edges(self):
        return self

    def __len__(self):
        return -1


class BigLen(NegLen):
    def __len__(self):
        return 2 ** 70


class FloatLen(NegLen):
    def __len__(self):
        return 1.0


class IndexLen(NegLen):
    class _I:
        def __index__(self):
            return 3

    def __len__(self):
        return IndexLen._I()


for cls in (NegLen, BigLen, FloatLen, IndexLen):
    n2 = Network()
    n2.G = cls()
    emit("HE odd-len", cls.__name__, he(n2))

# EECC drives `while self.has_edges()` and consumes random.choice
for m0 in (2, 3, 4):
    for seed in range(6):
        random.seed(seed)
        G = nx.gnp_random_graph(14, 0.35, seed=seed)
        cov = EECC()
        cov.set_max_clique_size(m0)
        cov.add_edges_from(list(G.edges()))
        st, r = try_call("eecc", cov.get_EECC)
        emit("EECC", m0, seed, st, R(r), he(cov), graph_digest(cov.G, short=True), rng_state())
for edges in ([], [(0, 1)], [(0, 0)], [(0, 1), (1, 2), (0, 2)]):
    random.seed(1)
    cov = EECC()
    cov.add_edges_from(edges)
    st, r = try_call("eecc", cov.get_EECC)
    emit("EECC small", edges, st, R(r), he(cov), rng_state())

# ---------------------------------------------------------------- section 4
# random graphs through the public generators, round trips, repeated calls
random.seed(7)
np.random.seed(7)


def jdd_params(jdd, sizes):
    return {JointDegreeNames.JDD: jdd, JointDegreeNames.MOTIF_SIZES: sizes}


def alg_params():
    return {
        GCMAlgorithmNames.MOTIF_SIZES: [2, 3],
        GCMAlgorithmNames.EDGE_NAMES: ["2-clique", "3-clique"],
        GCMAlgorithmNames.BUILD_FUNCTIONS: [clique_motif, clique_motif],
    }


JDDS = {
    "mixed": {(1, 0): 0.2, (2, 1): 0.5, (3, 0): 0.1, (5, 1): 0.2},
    "all-zero": {(0, 0): 1.0},
    "mostly-zero": {(0, 0): 0.9, (1, 1): 0.1},
    "ties-only": {(1, 0): 0.5, (2, 0): 0.5},
    "triangles-only": {(0, 1): 0.6, (0, 2): 0.4},
}
for name, jdd in JDDS.items():
    for n in (0, 1, 2, 3, 6, 30, 300):
        st, jds = try_call("jds", JointDegreeManual(jdd_params(jdd, [2, 3])).sample_jds_from_jdd, n)
        if jds is None:
            emit("GEN", name, n, "jds", st, rng_state())
            continue
        st, net = try_call("gen", GCMAlgorithmNetwork(alg_params()).random_clustered_graph, jds)
        emit("GEN", name, n, st, graph_digest(net.G, short=True) if net is not None else "-",
             rng_state())
        if net is None:
            continue
        emit("GEN has_edges", name, n, he(net))
        st, el = try_call("n2e", NetworkToEdgeList.convert, net)
        emit("GEN N2E", name, n, st, el_digest(el, short=True))
        st, net2 = try_call("e2n", EdgeListToNetwork.convert, el)
        emit("GEN E2N", name, n, st, graph_digest(net2, short=True),
             "same=%r" % (graph_digest(net2) == graph_digest(net)))
        st, el2 = try_call("n2e", NetworkToEdgeList.convert, net2)
        emit("GEN N2E2", name, n, st, el_digest(el2, short=True),
             "same=%r" % (el_digest(el2) == el_digest(el)), rng_state())
        # the fast generator's edge list itself
        st, raw = try_call("fast", GCMAlgorithmFast(alg_params()).random_clustered_graph, jds)
        emit("GEN fast", name, n, st, el_digest(raw, short=True), rng_state())
        for k in range(2):
            st, net3 = try_call("e2n", EdgeListToNetwork.convert, raw)
            emit("GEN fast E2N", name, n, k, st, graph_digest(net3, short=True),
                 he(net3) if net3 is not None else "-", el_digest(raw, short=True))

for line in OUT:
    print(line)
print("lines", len(OUT), "digest", h("\n".join(OUT)))
print("final rng", rng_state())
