import sys, os; sys.path.insert(0, os.getcwd())
# Variant a: exercises gcmpy.message_passing.number_connected_graphs.binomial
# directly and through Q / clique_equation (its only callers).
import hashlib
import random
import decimal
from fractions import Fraction

import numpy as np

random.seed(160001)
np.random.seed(160001)

import gcmpy
from gcmpy.message_passing import number_connected_graphs as ncg
from gcmpy.message_passing.number_connected_graphs import binomial, Q
from gcmpy.message_passing.equations.clique_equation import clique_equation

LINES = []


def emit(*parts):
    LINES.append(" ".join(str(p) for p in parts))


def show(v):
    return f"{type(v).__name__}:{v!r}"


def call(tag, f, *args):
    try:
        r = f(*args)
        emit(tag, [show(a) for a in args], "->", show(r))
    except BaseException as e:  # noqa
        emit(tag, [show(a) for a in args], "!!", type(e).__name__, str(e)[:80])


class Weird:
    """Object whose subtraction / comparison are observable."""

    log = []

    def __init__(self, v):
        self.v = v

    def __hash__(self):
        return hash(("W", self.v))

    def __eq__(self, o):
        return isinstance(o, Weird) and o.v == self.v

    def __sub__(self, o):
        Weird.log.append(("sub", self.v, getattr(o, "v", o)))
        return Weird(self.v - getattr(o, "v", o))

    def __rsub__(self, o):
        Weird.log.append(("rsub", o, self.v))
        return Weird(o - self.v)

    def __lt__(self, o):
        Weird.log.append(("lt", self.v, o))
        return self.v < o

    def __index__(self):
        Weird.log.append(("index", self.v))
        return self.v

    def __repr__(self):
        return f"W({self.v})"


class NoBool:
    """d < 0 yields an object whose truth value raises."""

    def __init__(self, v):
        self.v = v

    def __hash__(self):
        return 7

    def __sub__(self, o):
        return NoBool(self.v - o)

    def __lt__(self, o):
        class R:
            def __bool__(s):
                raise RuntimeError("no truth value")
        return R()

    def __repr__(self):
        return f"NB({self.v})"


emit("cache_parameters", binomial.cache_parameters(), binomial.__name__,
     binomial.__wrapped__.__name__, binomial.__wrapped__.__code__.co_varnames[:2],
     binomial.__wrapped__.__defaults__)
emit("cache_info0", binomial.cache_info())

# integer grid, incl. negatives and k > n
for n in range(-4, 14):
    for k in range(-4, 16):
        call("grid", binomial, n, k)
emit("cache_info1", binomial.cache_info())

# repeated calls on the same (cached) function
for rep in range(3):
    for n, k in [(0, 0), (5, 2), (5, 7), (-1, 0), (-1, -3), (3, -1), (10, 10)]:
        call(f"rep{rep}", binomial, n, k)
emit("cache_info2", binomial.cache_info())

# big values
call("big", binomial, 200, 100)
call("big", binomial, 1000, 3)
call("big", binomial, 3, 10 ** 30)
call("big", binomial, 10 ** 30, 10 ** 30 + 1)

# other numeric / malformed argument types
odd = [True, False, 3.0, 2.5, -0.0, float("nan"), float("inf"), Fraction(6), Fraction(7, 2),
       decimal.Decimal(4), np.int64(6), np.int32(2), np.uint8(3), np.float64(4.0), "3", "", None,
       (1, 2), 2 + 0j, b"1"]
for x in odd:
    for y in [0, 2, 9, True, 2.0, "1", None, np.int64(2), np.uint8(5), Fraction(2)]:
        call("odd", binomial, x, y)
        call("odd", binomial, y, x)
for bad in ([1], {1: 2}, {1}, np.arange(3)):
    call("unhashable", binomial, bad, 1)
    call("unhashable", binomial, 5, bad)
call("arity", binomial)
call("arity", binomial, 1)
call("arity", binomial, 1, 2, 3)
try:
    emit("kw", binomial(n=6, k=2), binomial(k=2, n=6), binomial(6, k=9))
except BaseException as e:  # noqa
    emit("kw !!", type(e).__name__, e)
try:
    binomial(6, kk=2)
except BaseException as e:  # noqa
    emit("kw !!", type(e).__name__, e)

for n, k in [(6, 2), (2, 6), (-2, 1), (1, -2), (-1, -5)]:
    Weird.log.clear()
    call("weird", binomial, Weird(n), Weird(k))
    emit("weirdlog", Weird.log)
    Weird.log.clear()
    call("weird", binomial, Weird(n), k)
    emit("weirdlog", Weird.log)
    Weird.log.clear()
    call("weird", binomial, n, Weird(k))
    emit("weirdlog", Weird.log)
call("nobool", binomial, NoBool(3), 1)
call("nobool", binomial, NoBool(3), 1)
emit("cache_info3", binomial.cache_info())

# the undecorated function
raw = binomial.__wrapped__
for n in range(-3, 9):
    for k in range(-3, 10):
        call("raw", raw, n, k)
call("raw", raw, 3.0, 1)
call("raw", raw, "a", 1)
call("raw", raw, None, None)

# through the callers
binomial.cache_clear()
Q.cache_clear()
for n in range(-1, 10):
    for k in range(-2, n * (n - 1) // 2 + 3):
        call("Q", Q, n, k)
emit("cache_info4", binomial.cache_info(), Q.cache_info())
rs = random.Random(5)
for tau in range(0, 8):
    for _ in range(4):
        phi = rs.random()
        Hs = [rs.random() for _ in range(max(tau - 1, 0))]
        try:
            emit("clique", tau, repr(phi), [repr(h) for h in Hs], "->", repr(clique_equation(tau, phi, Hs)))
        except BaseException as e:  # noqa
            emit("clique", tau, "!!", type(e).__name__, e)
for tau in range(1, 7):
    Hs = [Fraction(i + 1, i + 3) for i in range(tau - 1)]
    emit("cliqueF", tau, clique_equation(tau, Fraction(2, 7), Hs))
emit("cache_info5", binomial.cache_info(), Q.cache_info())
emit("same object", gcmpy.Q is Q, ncg.binomial is binomial)

emit("rng", random.random(), hashlib.sha256(repr(random.getstate()).encode()).hexdigest())
st = np.random.get_state()
emit("nprng", np.random.random(), hashlib.sha256(st[1].tobytes()).hexdigest(), st[2:])

for ln in LINES:
    print(ln)
print("DIGEST", hashlib.sha256("\n".join(LINES).encode()).hexdigest(), len(LINES))
