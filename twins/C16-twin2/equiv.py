"""Behavioural digest of the C16 code (clique / chordless-cycle equations,
connected-graph counts).  Run with cwd = a checkout of gcmpy."""
import hashlib
import itertools
import os
import random
import sys
from fractions import Fraction

sys.path.insert(0, os.getcwd())

import numpy as np
import networkx as nx

random.seed(20261003)
np.random.seed(20261003)

from gcmpy.message_passing.equations.clique_equation import clique_equation
from gcmpy.message_passing.equations.chordless_cycle_equation import (
    chordless_cycle_equation,
)
from gcmpy.message_passing import number_connected_graphs as ncg

try:
    import sympy
except Exception:  # pragma: no cover
    sympy = None

LINES = []


def emit(*parts):
    LINES.append(" | ".join(str(p) for p in parts))


def show(x):
    """type-qualified exact representation"""
    if isinstance(x, float):
        return "%s:%s" % (type(x).__name__, x.hex())
    if isinstance(x, (np.floating,)):
        return "%s:%s" % (type(x).__name__, float(x).hex())
    return "%s:%r" % (type(x).__name__, x)


def call(label, f, *args):
    try:
        res = f(*args)
        emit(label, "OK", show(res))
    except BaseException as e:  # noqa
        emit(label, "EXC", type(e).__name__, str(e))


def graph_sig(G):
    return (
        type(G).__name__,
        list(G.nodes(data=True)),
        list(G.edges(data=True)),
        {n: list(G.adj[n]) for n in G},
    )


def cache_sig():
    return "Q=%s binomial=%s QQ=%s" % (
        ncg.Q.cache_info(),
        ncg.binomial.cache_info(),
        ncg.QQ.cache_info(),
    )


# --------------------------------------------------------------- Q ----------
emit("## Q, cold cache, deep call first")
call("Q(7,12)", ncg.Q, 7, 12)
emit("cache", cache_sig())
for n in range(0, 9):
    top = n * (n - 1) // 2
    for k in range(-2, top + 3):
        call("Q(%d,%d)" % (n, k), ncg.Q, n, k)
    emit("cache after n=%d" % n, cache_sig())
call("Q(12,30)", ncg.Q, 12, 30)
call("Q(15,14)", ncg.Q, 15, 14)
call("Q(15,15)", ncg.Q, 15, 15)
call("Q(10,45)", ncg.Q, 10, 45)
call("Q(10,44)", ncg.Q, 10, 44)
call("Q(-1,0)", ncg.Q, -1, 0)
call("Q(-1,-2)", ncg.Q, -1, -2)
call("Q(0,-1)", ncg.Q, 0, -1)
call("Q(-3,-4)", ncg.Q, -3, -4)
call("Q(2.0,1)", ncg.Q, 2.0, 1)
call("Q(4.0,5)", ncg.Q, 4.0, 5)
call("Q(11.0,12)", ncg.Q, 11.0, 12)
call("Q(11.0,10.0)", ncg.Q, 11.0, 10.0)
call("Q(13,12.0)", ncg.Q, 13, 12.0)
call("Q('a',1)", ncg.Q, "a", 1)
call("Q(3,None)", ncg.Q, 3, None)
call("Q(np.int64(5),np.int64(6))", ncg.Q, np.int64(5), np.int64(6))
call("Q(True,0)", ncg.Q, True, 0)
emit("cache", cache_sig())

# ---- helper-level: same recursion from a cleared cache, different order
ncg.Q.cache_clear()
ncg.binomial.cache_clear()
for (n, k) in [(6, 9), (5, 7), (8, 20), (6, 9), (9, 10), (9, 36), (9, 35)]:
    call("Q(%d,%d) after clear" % (n, k), ncg.Q, n, k)
    emit("cache", cache_sig())

# --------------------------------------------------------------- QQ ---------
emit("## QQ")
for n in range(0, 6):
    top = n * (n - 1) // 2
    for k in range(-1, top + 2):
        call("QQ(%d,%d)" % (n, k), ncg.QQ, n, k)
checks = [1, 15, 105, 455, 1365, 2997, 4945, 6165, 5700, 3660, 1296, 0]
for idx in range(len(checks)):
    call("QQ(6,%d) expect %d" % (15 - idx, checks[idx]), ncg.QQ, 6, 15 - idx)
call("QQ(2.0,1)", ncg.QQ, 2.0, 1)
call("QQ('a',1)", ncg.QQ, "a", 1)
emit("cache", cache_sig())
emit("Q==QQ", all(ncg.Q(n, k) == ncg.QQ(n, k) for n in range(1, 6)
                  for k in range(0, n * (n - 1) // 2 + 1)))

# -------------------------------------------- number_of_connected_graphs ----
emit("## number_of_connected_graphs")


def ncg_case(label, G, ak, i, k):
    before = graph_sig(G)
    ak_before = repr(ak)
    call(label, ncg.number_of_connected_graphs, G, ak, i, k)
    emit(label, "G unchanged", before == graph_sig(G), "ak unchanged",
         ak_before == repr(ak))


tri = nx.complete_graph(3)
for k in range(-1, 5):
    ncg_case("triangle k=%d" % k, tri, [1, 2], 0, k)
K5 = nx.complete_graph(5)
for ak in ([1, 2, 3, 4], [1, 2], (3, 4), {1, 4}, [], [0], [7, 8], range(1, 4)):
    for k in range(0, 5):
        ncg_case("K5 ak=%r k=%d" % (ak, k), K5, ak, 0, k)
ncg_case("K5 focal absent", K5, [1, 2, 3], 99, 1)
ncg_case("K5 focal absent, ak empty", K5, [], 99, 0)
ncg_case("K5 ak=None", K5, None, 0, 0)
ncg_case("K5 ak=None focal only graph", nx.complete_graph(1), None, 0, 0)
ncg_case("K5 k='x'", K5, [1, 2], 0, "x")
ncg_case("K5 k=1.0", K5, [1, 2], 0, 1.0)
ncg_case("empty graph k=0", nx.Graph(), [], 0, 0)
ncg_case("empty graph k=1", nx.Graph(), [], 0, 1)
ncg_case("single node k=0", nx.complete_graph(1), [], 0, 0)
call("G=None", ncg.number_of_connected_graphs, None, [1], 0, 0)

cyc = nx.cycle_graph(6)
for k in range(0, 4):
    ncg_case("C6 all k=%d" % k, cyc, [1, 2, 3, 4, 5], 0, k)
    ncg_case("C6 disconnected choice k=%d" % k, cyc, [1, 3, 4], 0, k)

# random graphs, random node selections (uses and therefore checks the RNG)
for trial in range(12):
    n = random.randint(3, 7)
    p = random.choice([0.4, 0.6, 0.9])
    G = nx.gnp_random_graph(n, p, seed=random.randint(0, 10 ** 6))
    # relabel with mixed hashables in a shuffled insertion order
    names = ["v%d" % j if j % 2 else j for j in range(n)]
    random.shuffle(names)
    G = nx.relabel_nodes(G, dict(zip(range(n), names)))
    G.add_node("lonely")
    nodes = list(G.nodes())
    focal = random.choice(nodes)
    ak = random.sample(nodes, random.randint(0, len(nodes) - 1))
    for k in range(0, 4):
        ncg_case("rand%d k=%d focal=%r ak=%r" % (trial, k, focal, ak), G, ak,
                 focal, k)

G = nx.Graph()
G.add_edges_from([(0, 1), (1, 2), (2, 0), (2, 2), (2, 3)], w=1.5)
for k in range(0, 4):
    ncg_case("selfloop graph k=%d" % k, G, [1, 2, 3], 0, k)
MG = nx.MultiGraph()
MG.add_edges_from([(0, 1), (0, 1), (1, 2), (2, 0), (2, 3)])
for k in range(0, 4):
    ncg_case("multigraph k=%d" % k, MG, [1, 2], 0, k)
    ncg_case("multigraph all k=%d" % k, MG, [1, 2, 3], 0, k)
DG = nx.DiGraph([(0, 1), (1, 2), (2, 0)])
for k in range(0, 2):
    ncg_case("digraph k=%d" % k, DG, [1, 2], 0, k)
view = nx.complete_graph(6).subgraph([0, 1, 2, 3])
for k in range(0, 4):
    ncg_case("subgraph view k=%d" % k, view, [1, 2, 5], 0, k)
frozen = nx.freeze(nx.complete_graph(4))
ncg_case("frozen K4 k=2", frozen, [1, 2, 3], 0, 2)
ncg_case("frozen K4 k=2 partial", frozen, [1, 2], 0, 2)

# ------------------------------------------------------ clique_equation -----
emit("## clique_equation")
ncg.Q.cache_clear()
ncg.binomial.cache_clear()
for tau in range(0, 8):
    for phi in (0.0, 1.0, 0.5, 0.3, 0.123456789, 0, 1):
        Hs = [random.random() for _ in range(max(tau - 1, 0))]
        call("clique tau=%d phi=%r Hs=%s" % (tau, phi, [h.hex() for h in Hs]),
             clique_equation, tau, phi, Hs)
        call("clique same-u tau=%d phi=%r" % (tau, phi), clique_equation, tau,
             phi, [0.7] * max(tau - 1, 0))
    emit("cache", cache_sig())

for tau in range(0, 7):
    Hs = [Fraction(random.randint(0, 9), 9) for _ in range(max(tau - 1, 0))]
    call("clique Fraction tau=%d Hs=%r" % (tau, Hs), clique_equation, tau,
         Fraction(2, 7), Hs)
    call("clique Fraction Hs int phi tau=%d" % tau, clique_equation, tau, 1, Hs)
    call("clique int Hs tau=%d" % tau, clique_equation, tau, 0.25,
         [random.randint(0, 3) for _ in range(max(tau - 1, 0))])
    call("clique np Hs tau=%d" % tau, clique_equation, tau, np.float64(0.35),
         list(np.random.random(max(tau - 1, 0))))
    call("clique np array Hs tau=%d" % tau, clique_equation, tau, 0.35,
         np.random.random(max(tau - 1, 0)))
    call("clique np tau=%d" % tau, clique_equation, np.int64(tau), 0.35,
         [0.5] * max(tau - 1, 0))

# wrong number of H values, other containers, one-shot iterators, bad input
call("clique too few Hs", clique_equation, 4, 0.4, [0.5])
call("clique too many Hs", clique_equation, 3, 0.4, [0.5, 0.25, 0.125, 0.9])
call("clique tuple", clique_equation, 4, 0.4, (0.5, 0.25, 0.125))
d = {"a": 0.5, "b": 0.25, "c": 0.125}
call("clique dict values view", clique_equation, 4, 0.4, d.values())
call("clique generator", clique_equation, 4, 0.4, (x for x in [0.5, 0.25, 0.125]))
it = iter([0.5, 0.25, 0.125])
call("clique iterator", clique_equation, 4, 0.4, it)
emit("iterator leftover", list(it))
call("clique tau float", clique_equation, 3.0, 0.4, [0.5, 0.5])
call("clique tau negative", clique_equation, -2, 0.4, [0.5, 0.5])
call("clique Hs None", clique_equation, 3, 0.4, None)
call("clique Hs None tau 0", clique_equation, 0, 0.4, None)
call("clique Hs strings", clique_equation, 3, 0.4, ["a", "b"])
call("clique phi string", clique_equation, 3, "p", [0.5, 0.5])
call("clique phi string Hs strings", clique_equation, 3, "p", ["a", "b"])
call("clique phi None", clique_equation, 3, None, [0.5, 0.5])
call("clique phi complex", clique_equation, 4, 0.3 + 0.1j, [0.5, 0.2j, 1])
call("clique phi>1", clique_equation, 5, 1.5, [0.5, 0.25, 2.0, 3.0])
call("clique phi<0", clique_equation, 5, -0.5, [0.5, 0.25, 2.0, 3.0])
call("clique nan", clique_equation, 4, float("nan"), [0.5, 0.25, 2.0])
call("clique inf H", clique_equation, 4, 0.5, [float("inf"), 0.25, 0.0])
Hs_list = [0.5, 0.25, 0.125]
clique_equation(4, 0.4, Hs_list)
emit("Hs list unchanged", Hs_list)
emit("cache", cache_sig())

if sympy is not None:
    phi_s = sympy.Symbol("phi")
    for tau in range(0, 6):
        hs = sympy.symbols("h1:%d" % max(tau, 1)) if tau > 1 else ()
        res = clique_equation(tau, phi_s, list(hs))
        emit("clique sympy tau=%d" % tau, sympy.srepr(res))
        emit("clique sympy expanded tau=%d" % tau,
             sympy.srepr(sympy.expand(sympy.nsimplify(res))))
else:
    emit("sympy unavailable")

# ------------------------------------------------ chordless_cycle_equation --
emit("## chordless_cycle_equation")
for n in range(-1, 12):
    for phi in (0.0, 1.0, 0.5, 0.3, 0.987654321, 0, 1):
        for u in (0.0, 1.0, 0.61, random.random(), 0, 1):
            call("cycle n=%d u=%s phi=%s" % (n, show(u), show(phi)),
                 chordless_cycle_equation, n, u, phi)
for n in range(0, 8):
    call("cycle Fraction n=%d" % n, chordless_cycle_equation, n,
         Fraction(3, 5), Fraction(2, 7))
    call("cycle np n=%d" % n, chordless_cycle_equation, n, np.float64(0.6),
         np.float64(0.3))
    call("cycle np int n=%d" % n, chordless_cycle_equation, np.int64(n), 0.6, 0.3)
    call("cycle complex n=%d" % n, chordless_cycle_equation, n, 0.6 + 0.2j, 0.3)
    call("cycle array n=%d" % n, lambda n_: chordless_cycle_equation(
        n_, np.array([0.1, 0.5, 0.9]), np.array([0.2, 0.4, 0.6])).tolist(), n)
call("cycle n float", chordless_cycle_equation, 4.0, 0.5, 0.5)
call("cycle n None", chordless_cycle_equation, None, 0.5, 0.5)
call("cycle u str n=2", chordless_cycle_equation, 2, "u", 0.5)
call("cycle u str n=4", chordless_cycle_equation, 4, "u", 0.5)
call("cycle phi str n=2", chordless_cycle_equation, 2, 0.5, "p")
call("cycle phi str n=4", chordless_cycle_equation, 4, 0.5, "p")
call("cycle phi None n=4", chordless_cycle_equation, 4, 0.5, None)
call("cycle u None n=4", chordless_cycle_equation, 4, None, 0.5)
call("cycle u None n=1", chordless_cycle_equation, 1, None, 0.5)
call("cycle zero base negative power", chordless_cycle_equation, 0, 0.0, 0.5)
call("cycle zero int base negative power", chordless_cycle_equation, 0, 0, 1)
call("cycle nan", chordless_cycle_equation, 5, float("nan"), 0.5)
call("cycle big", chordless_cycle_equation, 400, 0.999, 0.999)
call("cycle overflow", chordless_cycle_equation, 2000, 10.0, 10.0)
call("cycle int overflowless", chordless_cycle_equation, 30, 7, 3)
if sympy is not None:
    u_s, phi_s = sympy.symbols("u phi")
    for n in range(0, 8):
        res = chordless_cycle_equation(n, u_s, phi_s)
        emit("cycle sympy n=%d" % n, sympy.srepr(res))

# ------------------------------------------------------------- RNG state ----
emit("## RNG")
emit("random state", hashlib.sha256(repr(random.getstate()).encode()).hexdigest())
st = np.random.get_state()
emit("numpy state", hashlib.sha256(
    repr((st[0], st[1].tolist(), st[2], st[3], st[4])).encode()).hexdigest())
emit("next draws", random.random().hex(), float(np.random.random()).hex())

body = "\n".join(LINES)
print(body)
print("DIGEST", hashlib.sha256(body.encode()).hexdigest(), "lines", len(LINES))
