import sys, os; sys.path.insert(0, os.getcwd())

# str hashes feed set iteration orders: pin them so two runs are comparable
if os.environ.get("PYTHONHASHSEED") != "0":
    os.environ["PYTHONHASHSEED"] = "0"
    os.execv(sys.executable, [sys.executable, "-W", "ignore"] + sys.argv)

import hashlib
import random

import numpy as np
import networkx as nx

from gcmpy.names.network_names import NetworkNames
from gcmpy.names.tools_names import ToolsNames
from gcmpy.tools.joint_excess_joint_degree import JointExcessJointDegree
from gcmpy.tools.joint_excess_degree import JointExcessDegree
from gcmpy.tools.joint_excess_joint_degree_matrices import (
    JointExcessJointDegreeMatrices,
)
from gcmpy.tools.joint_excess_from_ejk import JointExcessFromEjk
import gcmpy.tools as tools_pkg

JD = NetworkNames.JOINT_DEGREE
TOP = NetworkNames.TOPOLOGY


def h(obj) -> str:
    return hashlib.sha256(repr(obj).encode()).hexdigest()[:24]


def show(label, obj, full=True):
    r = repr(obj)
    if full and len(r) < 1500:
        print(f"{label}: {r}")
    else:
        print(f"{label}: len={len(r)} sha={h(obj)}")


def rng_state():
    return h(random.getstate()) + "/" + h(
        [x.tolist() if hasattr(x, "tolist") else x for x in np.random.get_state()]
    )


def attempt(label, fn, full=True):
    try:
        out = fn()
    except BaseException as exc:  # noqa
        ctx = exc.__context__
        print(
            f"{label}: RAISED {type(exc).__name__}: {exc!s} | context="
            f"{type(ctx).__name__ if ctx is not None else None}: {ctx!s}"
        )
        return None
    show(label, out, full)
    return out


def attempt_quiet(label, fn):
    """Like attempt, but only reports the type of the result."""
    box = []
    attempt(label, lambda: box.append(fn()) or type(box[0]).__name__)
    return box[0] if box else None


def graph_digest(G):
    nodes = [(n, repr(d)) for n, d in G.nodes(data=True)]
    edges = [tuple(e[:-1]) + (repr(e[-1]),) for e in G.edges(data=True)]
    return h((nodes, edges))


def dump_matrices(label, M, full=True):
    show(f"{label}.type", type(M).__name__)
    show(f"{label}.topology_names", M.topology_names)
    show(f"{label}.ejks", [(t, list(d.items())) for t, d in M.ejks.items()], full)
    show(
        f"{label}.excess_degree_keys",
        [(t, list(v)) for t, v in M.excess_degree_keys.items()],
        full,
    )
    for t, d in M.ejks.items():
        show(f"{label}.sum[{t}]", sum(d.values()))
        show(f"{label}.sym[{t}]", all(
            d[k] == d.get(k[len(k) // 2:] + k[: len(k) // 2]) for k in d
        ))


def annotate(G, assignment, names):
    """Give edges a topology and vertices the matching joint degree."""
    for e, t in assignment.items():
        G.edges[e][TOP] = t
    for n in G.nodes():
        jd = [0] * len(names)
        for nb in G.neighbors(n):
            jd[names.index(G.edges[n, nb][TOP])] += 1
        G.nodes[n][JD] = tuple(jd)
    return G


def make_random_annotated(n, p, names, seed, container=tuple):
    rnd = random.Random(seed)
    G = nx.gnp_random_graph(n, p, seed=seed)
    assignment = {e: rnd.choice(names) for e in G.edges()}
    annotate(G, assignment, names)
    for v in G.nodes():
        G.nodes[v][JD] = container(G.nodes[v][JD])
    return G


def extractor(G, names):
    return JointExcessJointDegree({ToolsNames.NETWORK: G, ToolsNames.EDGE_NAMES: names})


def exercise_extractor(label, G, names, full=True):
    before = graph_digest(G)
    names_before = list(names)
    C = attempt(f"{label}.ctor", lambda: type(extractor(G, names)).__name__) and extractor(G, names)
    if C is None:
        return None
    # get_ejk before any count: stale/empty counts
    for i, t in enumerate(names):
        attempt(f"{label}.get_ejk_precount[{i},{t}]", lambda: list(C.get_ejk(i, t).items()), full)
    M1 = attempt_quiet(f"{label}.get_ejks#1", lambda: C.get_ejks())
    if M1 is not None:
        dump_matrices(f"{label}.M1", M1, full)
    M2 = attempt_quiet(f"{label}.get_ejks#2", lambda: C.get_ejks())
    if M1 is not None and M2 is not None:
        dump_matrices(f"{label}.M2", M2, full)
        show(f"{label}.same_object", M1 is M2)
        show(f"{label}.same_ejks", M1.ejks == M2.ejks)
        show(f"{label}.same_ejk_order", [list(d) for d in M1.ejks.values()] == [list(d) for d in M2.ejks.values()])
        show(f"{label}.shared_keys_dict", M1.excess_degree_keys is M2.excess_degree_keys)
        show(f"{label}.shared_names", M1.topology_names is names)
        attempt(f"{label}.excess_dists", lambda: [
            (t, list(q.items()))
            for t, q in JointExcessFromEjk.get_excess_joint_distributions(M2).items()
        ], full)
    # public pieces individually, repeated
    attempt(f"{label}.count", lambda: C.count_edge_types())
    for i, t in enumerate(names):
        attempt(f"{label}.get_ejk[{i},{t}]", lambda: list(C.get_ejk(i, t).items()), full)
    attempt(f"{label}.get_ejk[0,absent]", lambda: C.get_ejk(0, "no-such-topology"))
    attempt(f"{label}.get_ejk[99,first]", lambda: C.get_ejk(99, names[0]) if names else None)
    attempt(f"{label}.get_ejk[-1,first]", lambda: list(C.get_ejk(-1, names[0]).items()) if names else None, full)
    attempt(f"{label}.resolve_again", lambda: C.resolve_excess_degree_keys())
    if M2 is not None:
        show(f"{label}.keys_after_resolve", [(t, list(v)) for t, v in M2.excess_degree_keys.items()], full)
    show(f"{label}.graph_unchanged", graph_digest(G) == before)
    show(f"{label}.names_unchanged", list(names) == names_before)
    show(f"{label}.public_attrs", sorted(a for a in dir(C) if not a.startswith("_")))
    show(f"{label}.rng", rng_state())
    return C


def main():
    random.seed(12345)
    np.random.seed(54321)
    show("rng.start", rng_state())

    # ---------------------------------------------------------------- API
    show("tools.exports", sorted(a for a in dir(tools_pkg) if a[0].isupper()))
    show("JED.get_ejk.is_function", callable(JointExcessDegree.get_ejk))
    show("JED.instance_call", JointExcessDegree().get_ejk(nx.path_graph(3)))
    show("JEJDM.public", sorted(a for a in dir(JointExcessJointDegreeMatrices) if not a.startswith("_")))
    show("JEJD.public", sorted(a for a in dir(JointExcessJointDegree) if not a.startswith("_")))

    # ------------------------------------------------ JointExcessDegree
    graphs = {
        "empty": nx.Graph(),
        "nodes_only": nx.empty_graph(4),
        "single_edge": nx.path_graph(2),
        "path5": nx.path_graph(5),
        "star6": nx.star_graph(6),
        "k4": nx.complete_graph(4),
        "cycle7": nx.cycle_graph(7),
        "karate": nx.karate_club_graph(),
        "gnp": nx.gnp_random_graph(60, 0.1, seed=7),
        "ba": nx.barabasi_albert_graph(200, 3, seed=11),
        "digraph": nx.gnp_random_graph(20, 0.2, seed=3, directed=True),
        "multigraph": nx.MultiGraph([(0, 1), (0, 1), (1, 2), (2, 2)]),
        "selfloop": nx.Graph([(0, 0), (0, 1), (1, 2)]),
        "str_nodes": nx.Graph([("a", "b"), ("b", "c"), ("c", "a"), ("c", "d")]),
        "tuple_nodes": nx.grid_2d_graph(3, 4),
    }
    for name, G in graphs.items():
        before = graph_digest(G)
        r1 = attempt(f"JED[{name}]#1", lambda: list(JointExcessDegree.get_ejk(G).items()), len(G) < 40)
        r2 = attempt(f"JED[{name}]#2", lambda: list(JointExcessDegree.get_ejk(G).items()), False)
        show(f"JED[{name}].repeat_equal", r1 == r2)
        if r1:
            show(f"JED[{name}].sum", sum(v for _, v in r1))
        show(f"JED[{name}].graph_unchanged", graph_digest(G) == before)
    attempt("JED[None]", lambda: JointExcessDegree.get_ejk(None))
    attempt("JED[list]", lambda: JointExcessDegree.get_ejk([(0, 1)]))
    show("rng.after_JED", rng_state())

    # ------------------------------------------- JointExcessJointDegree
    two = ["2-clique", "3-clique"]

    # hand made: triangle + pendant edges
    G = nx.Graph()
    G.add_edges_from([(0, 1), (1, 2), (2, 0)], **{})
    G.add_edges_from([(0, 3), (1, 4), (4, 5)])
    annotate(
        G,
        {(0, 1): "3-clique", (1, 2): "3-clique", (2, 0): "3-clique",
         (0, 3): "2-clique", (1, 4): "2-clique", (4, 5): "2-clique"},
        two,
    )
    exercise_extractor("hand", G, two)

    exercise_extractor("single_edge", annotate(nx.path_graph(2), {(0, 1): "t"}, ["t"]), ["t"])
    exercise_extractor("no_edges", annotate(nx.empty_graph(3), {}, ["t"]), ["t"])
    exercise_extractor("empty_graph", nx.Graph(), ["t"])
    exercise_extractor("no_names", make_random_annotated(8, 0.4, two, 1), [])
    exercise_extractor("extra_name", make_random_annotated(8, 0.4, two, 2), two + ["4-clique"])
    exercise_extractor("missing_name", make_random_annotated(8, 0.4, two, 3), two[:1])
    exercise_extractor("reversed_names", make_random_annotated(8, 0.4, two, 4), two[::-1])
    exercise_extractor("dup_names", make_random_annotated(8, 0.4, two, 5), [two[0], two[0]])
    exercise_extractor("list_jd", make_random_annotated(12, 0.3, two, 6, container=list), two)
    exercise_extractor("np_jd", make_random_annotated(12, 0.3, two, 7, container=np.array), two)

    three = ["a", "b", "c"]
    exercise_extractor("three_small", make_random_annotated(10, 0.4, three, 8), three)
    exercise_extractor("three_mid", make_random_annotated(80, 0.08, three, 9), three, full=False)
    exercise_extractor("two_big", make_random_annotated(400, 0.02, two, 10), two, full=False)

    # self loop
    G = nx.Graph([(0, 0), (0, 1), (1, 2)])
    for e in G.edges():
        G.edges[e][TOP] = "t"
    for n, jd in {0: (3,), 1: (2,), 2: (1,)}.items():
        G.nodes[n][JD] = jd
    exercise_extractor("selfloop", G, ["t"])

    # directed / multi graphs
    D = nx.DiGraph([(0, 1), (1, 2), (2, 0), (0, 2)])
    for e in D.edges():
        D.edges[e][TOP] = "t"
    for n in D.nodes():
        D.nodes[n][JD] = (D.degree(n),)
    exercise_extractor("digraph", D, ["t"])

    MG = nx.MultiGraph([(0, 1), (0, 1), (1, 2)])
    for u, v, k in MG.edges(keys=True):
        MG.edges[u, v, k][TOP] = "t"
    for n in MG.nodes():
        MG.nodes[n][JD] = (MG.degree(n),)
    exercise_extractor("multigraph", MG, ["t"])

    # inconsistent annotations
    G = make_random_annotated(8, 0.5, two, 11)
    del G.nodes[3][JD]
    exercise_extractor("node_without_jd", G, two)

    G = make_random_annotated(8, 0.5, two, 12)
    first = next(iter(G.edges()))
    del G.edges[first][TOP]
    exercise_extractor("edge_without_topology_first", G, two)

    G = make_random_annotated(8, 0.5, two, 13)
    last = list(G.edges())[-1]
    del G.edges[last][TOP]
    exercise_extractor("edge_without_topology_last", G, two)

    G = make_random_annotated(8, 0.5, two, 14)
    G.nodes[2][JD] = (G.nodes[2][JD][0],)  # too short
    exercise_extractor("short_jd", G, two)

    G = make_random_annotated(8, 0.5, two, 15)
    C = extractor(G, two)
    # after construction: short jd AND every other vertex without jd at all
    G.nodes[2][JD] = (G.nodes[2][JD][0],)
    for nb in list(G.nodes()):
        if nb != 2:
            del G.nodes[nb][JD]
    attempt_quiet("short_and_missing.get_ejks", lambda: C.get_ejks())
    attempt("short_and_missing.get_ejk0", lambda: C.get_ejk(0, two[0]))
    attempt("short_and_missing.get_ejk1", lambda: C.get_ejk(1, two[1]))

    # sharp ordering check: u has a short jd, v has none (and the reverse)
    for flip in (False, True):
        G = annotate(nx.path_graph(2), {(0, 1): two[1]}, two)
        C = extractor(G, two)
        short, missing = (1, 0) if flip else (0, 1)
        G.nodes[short][JD] = (0,)
        del G.nodes[missing][JD]
        attempt(f"order[{flip}].get_ejk1", lambda: C.get_ejk(1, two[1]))
        attempt_quiet(f"order[{flip}].get_ejks", lambda: C.get_ejks())
        G.nodes[missing][JD] = 7
        attempt(f"order[{flip}].get_ejk1_int", lambda: C.get_ejk(1, two[1]))
        G.nodes[missing][JD] = (0, 1)
        G.edges[0, 1][TOP] = "uncounted"
        attempt(f"order[{flip}].short_and_uncounted", lambda: C.get_ejk(1, "uncounted"))
        G.nodes[short][JD] = (1, 0)
        attempt(f"order[{flip}].uncounted", lambda: C.get_ejk(1, "uncounted"))

    G = make_random_annotated(8, 0.5, two, 16)
    G.nodes[0][JD] = ("x", "y")
    exercise_extractor("str_jd", G, two)

    G = make_random_annotated(8, 0.5, two, 17)
    G.nodes[0][JD] = 5
    exercise_extractor("int_jd", G, two)

    G = make_random_annotated(8, 0.5, two, 18)
    for e in list(G.edges())[:3]:
        G.edges[e][TOP] = None
    exercise_extractor("none_topology", G, two)

    G = make_random_annotated(8, 0.5, two, 19)
    for n in G.nodes():
        G.nodes[n][JD] = tuple(float(x) for x in G.nodes[n][JD])
    exercise_extractor("float_jd", G, two)

    # constructor error paths
    attempt("ctor.empty_params", lambda: JointExcessJointDegree({}))
    attempt("ctor.no_names", lambda: JointExcessJointDegree({ToolsNames.NETWORK: nx.path_graph(2)}))
    attempt("ctor.none", lambda: JointExcessJointDegree(None))
    attempt("ctor.names_none", lambda: extractor(make_random_annotated(5, 0.5, two, 20), None))
    attempt("ctor.network_none", lambda: extractor(None, two))
    attempt("ctor.unannotated", lambda: extractor(nx.path_graph(3), two))

    # network mutated between calls on the same extractor (object history)
    G = make_random_annotated(14, 0.3, two, 21)
    C = extractor(G, two)
    Ma = C.get_ejks()
    dump_matrices("history.before", Ma)
    snapshot = [(t, list(d.items())) for t, d in Ma.ejks.items()]
    G.add_edge(0, 13)
    G.edges[0, 13][TOP] = "brand-new"
    attempt("history.stale_get_ejk", lambda: C.get_ejk(0, "brand-new"))
    G.edges[0, 13][TOP] = two[0]
    attempt("history.stale_get_ejk2", lambda: list(C.get_ejk(0, two[0]).items()))
    del G.edges[0, 13][TOP]
    attempt("history.count_fails", lambda: C.count_edge_types())
    attempt("history.after_failed_count0", lambda: list(C.get_ejk(0, two[0]).items()))
    attempt("history.after_failed_count1", lambda: list(C.get_ejk(1, two[1]).items()))
    attempt_quiet("history.get_ejks_fails", lambda: C.get_ejks())
    G.edges[0, 13][TOP] = two[1]
    Mb = C.get_ejks()
    dump_matrices("history.after", Mb)
    show("history.old_matrices_untouched", snapshot == [(t, list(d.items())) for t, d in Ma.ejks.items()])
    show("history.new_object", Ma is not Mb)
    show("history.keys_shared", Ma.excess_degree_keys is Mb.excess_degree_keys)
    names = C.get_ejks().topology_names
    names.append("later")
    attempt_quiet("history.names_grown", lambda: C.get_ejks())
    attempt("history.resolve_names_grown", lambda: C.resolve_excess_degree_keys())
    show("history.keys_after", [(t, list(v)) for t, v in Mb.excess_degree_keys.items()])

    # a network built by the library itself
    from gcmpy.joint_degree.joint_degree_loaders.joint_degree_manual import JointDegreeManual
    from gcmpy.motif_generators.clique_motif import clique_motif
    from gcmpy.gcm_algorithm.gcm_algorithm_network import GCMAlgorithmNetwork
    from gcmpy.names.gcm_algorithm_names import GCMAlgorithmNames
    from gcmpy.names.joint_degree_names import JointDegreeNames

    random.seed(99)
    np.random.seed(99)
    jdd = {(5, 1): 1 / 3, (3, 2): 1 / 3, (1, 3): 1 / 3}
    jds = JointDegreeManual(
        {JointDegreeNames.JDD: jdd, JointDegreeNames.MOTIF_SIZES: [2, 3]}
    ).sample_jds_from_jdd(900)
    g = GCMAlgorithmNetwork(
        {
            GCMAlgorithmNames.MOTIF_SIZES: [2, 3],
            GCMAlgorithmNames.EDGE_NAMES: two,
            GCMAlgorithmNames.BUILD_FUNCTIONS: [clique_motif, clique_motif],
        }
    ).random_clustered_graph(jds)
    show("lib.graph", graph_digest(g.G))
    show("rng.lib_built", rng_state())
    exercise_extractor("lib", g.G, two, full=False)
    attempt("lib.JED", lambda: list(JointExcessDegree.get_ejk(g.G).items()), False)

    # --------------------------------- JointExcessJointDegreeMatrices
    M = JointExcessJointDegreeMatrices()
    show("M0.ejks", M.ejks)
    show("M0.keys", M.excess_degree_keys)
    show("M0.names", M.topology_names)
    attempt("M0.index_empty", lambda: M.get_topology_index("x"))
    attempt("M0.get_keys", lambda: M.get_excess_degree_keys())
    show("M0.keys2", M.excess_degree_keys)

    ejk_tree = {
        (0, 3, 0, 3): 1 / 81, (0, 3, 4, 1): 5 / 81, (0, 3, 2, 2): 3 / 81,
        (4, 1, 0, 3): 5 / 81, (4, 1, 4, 1): 25 / 81, (4, 1, 2, 2): 15 / 81,
        (2, 2, 0, 3): 3 / 81, (2, 2, 4, 1): 15 / 81, (2, 2, 2, 2): 9 / 81,
    }
    ejk_tri = {
        (5, 0, 5, 0): 1 / 36, (5, 0, 3, 1): 4 / 36, (5, 0, 1, 2): 1 / 36,
        (3, 1, 5, 0): 4 / 36, (3, 1, 3, 1): 16 / 36, (3, 1, 1, 2): 4 / 36,
        (1, 2, 5, 0): 1 / 36, (1, 2, 3, 1): 4 / 36, (1, 2, 1, 2): 1 / 36,
    }
    source = {"2-clique": ejk_tree, "3-clique": ejk_tri}
    params = {ToolsNames.EJKS: source, ToolsNames.EDGE_NAMES: two}
    M = JointExcessJointDegreeMatrices(params)
    dump_matrices("Mp", M)
    show("Mp.ejks_is_source", M.ejks is source)
    show("Mp.names_is_source", M.topology_names is two)
    for t in two + ["nope", None, 0]:
        attempt(f"Mp.index[{t!r}]", lambda: M.get_topology_index(t))
    old = M.excess_degree_keys
    attempt("Mp.get_keys_again", lambda: M.get_excess_degree_keys())
    show("Mp.keys_new_dict", M.excess_degree_keys is not old)
    show("Mp.keys_equal", [(t, v) for t, v in M.excess_degree_keys.items()] == [(t, v) for t, v in old.items()])
    attempt("Mp.excess_dists", lambda: [
        (t, list(q.items())) for t, q in JointExcessFromEjk.get_excess_joint_distributions(M).items()
    ])
    # setters
    M.ejks = {"z": {(1, 2, 3, 4, 5): 1.0, (): 0.0, (7,): 0.5, "abcd": 0.25, (1, 2, 1, 2): 0.1}}
    M.topology_names = ["z"]
    M.excess_degree_keys = {"stale": [(9,)]}
    show("Ms.before", M.excess_degree_keys)
    attempt("Ms.get_keys", lambda: M.get_excess_degree_keys())
    show("Ms.after", [(t, list(v)) for t, v in M.excess_degree_keys.items()])
    # error in the middle: earlier topologies stay, later absent
    M.ejks = {"ok": {(1, 1): 1.0}, "bad": {5: 1.0}, "never": {(2, 2): 1.0}}
    attempt("Me.get_keys", lambda: M.get_excess_degree_keys())
    show("Me.after", [(t, list(v)) for t, v in M.excess_degree_keys.items()])
    M.ejks = {"ok": {(1, 1): 1.0}, "bad": [(1, 2, 3, [4])], "bad2": [(1, [2], 3, [4])]}
    attempt("Me2.get_keys", lambda: M.get_excess_degree_keys())
    show("Me2.after", [(t, list(v)) for t, v in M.excess_degree_keys.items()])
    M.ejks = [0, 1]
    attempt("Me3.get_keys", lambda: M.get_excess_degree_keys())
    M.ejks = None
    attempt("Me4.get_keys", lambda: M.get_excess_degree_keys())
    attempt("ctor.bad_params", lambda: JointExcessJointDegreeMatrices({}))
    attempt("ctor.only_ejks", lambda: JointExcessJointDegreeMatrices({ToolsNames.EJKS: source}))
    show("ctor.empty_dict_ejks", JointExcessJointDegreeMatrices({ToolsNames.EJKS: {}, ToolsNames.EDGE_NAMES: []}).excess_degree_keys)

    # large key sets: iteration order of the derived key lists
    rnd = random.Random(5)
    big = {}
    for _ in range(3000):
        a = (rnd.randrange(40), rnd.randrange(40), rnd.randrange(5))
        b = (rnd.randrange(40), rnd.randrange(40), rnd.randrange(5))
        big[a + b] = rnd.random()
        big[b + a] = big[a + b]
    M = JointExcessJointDegreeMatrices({ToolsNames.EJKS: {"big": big, "tree": ejk_tree}, ToolsNames.EDGE_NAMES: ["big", "tree"]})
    show("Mbig.keys", [(t, list(v)) for t, v in M.excess_degree_keys.items()], False)
    show("Mbig.keys_head", M.excess_degree_keys["big"][:12])

    show("rng.end", rng_state())
    show("rng.next_draws", (random.random(), float(np.random.random())))


if __name__ == "__main__":
    main()
