"""
Equivalence digest for the C12 optimisation (MCMC rewiring, keys view, ejk matrices).
Run with cwd = a checkout of gcmpy.  Prints a deterministic transcript: results
(bit exact floats via repr), RNG state digests, mutated inputs, exceptions raised.
"""
import os
import sys
import random
import hashlib
import logging

if os.environ.get("PYTHONHASHSEED") != "0":
    # str hashes feed set iteration orders: pin them so two runs are comparable
    env = dict(os.environ, PYTHONHASHSEED="0")
    os.execve(sys.executable, [sys.executable] + sys.argv, env)

sys.path.insert(0, os.getcwd())

import networkx as nx  # noqa: E402

try:
    import numpy as np  # noqa: E402
except Exception:  # pragma: no cover
    np = None

from gcmpy.names.network_names import NetworkNames  # noqa: E402
from gcmpy.names.tools_names import ToolsNames  # noqa: E402
from gcmpy.names.gcm_algorithm_names import GCMAlgorithmNames  # noqa: E402
from gcmpy.names.joint_degree_names import JointDegreeNames  # noqa: E402
from gcmpy.network.network import Network  # noqa: E402
from gcmpy.tools.draw_set import DrawSet  # noqa: E402
from gcmpy.tools.joint_excess_joint_degree_matrices import (  # noqa: E402
    JointExcessJointDegreeMatrices,
)
from gcmpy.tools.joint_excess_joint_degree_keys_view import (  # noqa: E402
    JointExcessJointDegreeKeysView,
)
from gcmpy.tools.markov_chain_monte_carlo import MarkovChainMonteCarlo  # noqa: E402
from gcmpy.tools.markov_chain_monte_carlo_rewiring import (  # noqa: E402
    MarkovChainMonteCarloRewiring,
    ErrorMarkovChainMonteCarloRewiring,
)
from gcmpy.tools.joint_excess_from_ejk import JointExcessFromEjk  # noqa: E402
from gcmpy.tools.joint_degree_from_excess import JointDegreeFromExcess  # noqa: E402
from gcmpy.tools.joint_excess_joint_degree import JointExcessJointDegree  # noqa: E402
from gcmpy.joint_degree.joint_degree_loaders.joint_degree_manual import (  # noqa: E402
    JointDegreeManual,
)
from gcmpy.motif_generators.clique_motif import clique_motif  # noqa: E402
from gcmpy.gcm_algorithm.gcm_algorithm_network import GCMAlgorithmNetwork  # noqa: E402

JD = NetworkNames.JOINT_DEGREE
TOP = NetworkNames.TOPOLOGY
MID = NetworkNames.MOTIF_IDS


# ----------------------------------------------------------------------------
# helpers
# ----------------------------------------------------------------------------
def sha(s: str) -> str:
    return hashlib.sha256(s.encode()).hexdigest()[:20]


def rng_digest() -> str:
    out = sha(repr(random.getstate()))
    if np is not None:
        st = np.random.get_state()
        out += "/" + sha(repr((st[0], st[1].tolist(), st[2], st[3], repr(st[4]))))
    return out


def seed(n: int) -> None:
    random.seed(n)
    if np is not None:
        np.random.seed(n)


def R(x) -> str:
    """deterministic, bit exact repr (dict / set order preserved as iterated)."""
    if isinstance(x, float):
        return repr(x)
    if isinstance(x, dict):
        return "{" + ", ".join(f"{R(k)}: {R(v)}" for k, v in x.items()) + "}"
    if isinstance(x, list):
        return "[" + ", ".join(R(v) for v in x) + "]"
    if isinstance(x, tuple):
        return "(" + ", ".join(R(v) for v in x) + ",)"
    if isinstance(x, set):
        return "set<" + ", ".join(R(v) for v in x) + ">"
    if isinstance(x, nx.Graph):
        return "Graph<" + graph_digest(x) + ">"
    if isinstance(x, JointExcessJointDegreeKeysView):
        return f"View({type(x._keys).__name__}:{R(x._keys)})"
    return f"{type(x).__name__}:{x!r}"


def graph_digest(G: nx.Graph, full: bool = False) -> str:
    """iteration-order sensitive dump of the graph (nodes, adjacency, attributes)."""
    parts = []
    for n in G.nodes():
        parts.append(f"N{n!r}:{R(dict(G.nodes[n]))}")
    for n, nbrs in G.adjacency():
        parts.append(f"A{n!r}:" + ";".join(f"{m!r}={R(d)}" for m, d in nbrs.items()))
    s = "|".join(parts)
    if full:
        return s
    return f"n={G.number_of_nodes()} m={G.number_of_edges()} sha={sha(s)}"


def counters() -> str:
    return f"cls_count={MarkovChainMonteCarlo._proposal_count} cls_acc={MarkovChainMonteCarlo._proposals_accepted}"


def mcmc_state(m: MarkovChainMonteCarloRewiring) -> str:
    pes = [(p._topology, p._motif_id, p._new_edge) for p in m._proposal_edges]
    return (
        f"pes={R(pes)} pc={m._proposal_count} pa={m._proposals_accepted} "
        f"ar={R(m._acceptance_ratio)} cl={m._convergence_limit!r} sl={m._search_limit!r} {counters()}"
    )


def call(label: str, fn, *args, **kwargs):
    try:
        res = fn(*args, **kwargs)
        print(f"{label} -> {R(res)} [{type(res).__name__}] rng={rng_digest()} draws={_DRAW['used']}")
        return res
    except BaseException as e:  # noqa: B902
        print(f"{label} !! {type(e).__name__}: {e!s} rng={rng_digest()} draws={_DRAW['used']}")
        return None


class DrawBudgetExceeded(BaseException):
    ...


_DRAW = {"left": None, "used": 0}
_original_draw = DrawSet.draw


def _budget_draw(self):
    """harness-side guard: rewire() never terminates when no swap is acceptable."""
    _DRAW["used"] += 1
    if _DRAW["left"] is not None:
        if _DRAW["left"] <= 0:
            raise DrawBudgetExceeded(f"draw budget exhausted, {len(self._edges)} edges in set")
        _DRAW["left"] -= 1
    return _original_draw(self)


DrawSet.draw = _budget_draw


def budget(n):
    _DRAW["left"] = n
    _DRAW["used"] = 0


class ListHandler(logging.Handler):
    def __init__(self):
        super().__init__(level=0)
        self.records = []

    def emit(self, record):
        self.records.append(f"{record.levelname}:{record.getMessage()}")


def attach(m: MarkovChainMonteCarloRewiring) -> ListHandler:
    h = ListHandler()
    m._logger.addHandler(h)
    return h


def flush(h: ListHandler, label: str) -> None:
    print(f"{label} log n={len(h.records)} sha={sha('||'.join(h.records))}")
    for r in h.records[:3]:
        print("   ", " ".join(r.split()))
    h.records.clear()


# ----------------------------------------------------------------------------
# 1. keys view
# ----------------------------------------------------------------------------
def section_keys_view():
    print("== keys view")
    inputs = [
        [(1, 2), (3, 4), (5, 6), (7, 8)],
        [(0,), (0,), (0,), (0,)],
        [(), (), (), ()],
        [(1.5, -0.0), (2, 3, 4), (9,), ("a", None)],
        [[1], [2], [3], [4]],  # lists concatenate too
        ["ab", "cd", "ef", "gh"],
        ((1,), (2,), (3,), (4,), (5,)),  # tuple container, extra element
        [(1,), (2,), (3,)],  # too short: IndexError on some getters
        [(1,), [2], (3,), (4,)],  # TypeError tuple + list
    ]
    names = ["get_u0u1", "get_u1u0", "get_v0v1", "get_v1v0", "get_u0v1", "get_v0u1"]
    for i, keys in enumerate(inputs):
        v = JointExcessJointDegreeKeysView(keys)
        print("identity", v._keys is keys)
        for rep in range(2):
            for nm in names:
                call(f"kv[{i}].{nm}#{rep}", getattr(v, nm))
        # mutate the underlying keys, views must follow
        if isinstance(keys, list) and len(keys) >= 4:
            keys[0], keys[3] = keys[3], keys[0]
            for nm in names:
                call(f"kv[{i}].{nm}#swapped", getattr(v, nm))
            v._keys = list(reversed(keys))
            for nm in names:
                call(f"kv[{i}].{nm}#rebound", getattr(v, nm))
        print("keys after", R(keys))


# ----------------------------------------------------------------------------
# 2. matrices
# ----------------------------------------------------------------------------
class OddKey:
    """hashable iterable key of odd length"""

    def __init__(self, *a):
        self.a = a

    def __iter__(self):
        return iter(self.a)

    def __hash__(self):
        return hash(self.a)

    def __eq__(self, o):
        return isinstance(o, OddKey) and o.a == self.a

    def __repr__(self):
        return f"OddKey{self.a}"


def section_matrices():
    print("== matrices")
    m0 = JointExcessJointDegreeMatrices()
    print("empty", R(m0.ejks), R(m0.excess_degree_keys), R(m0.topology_names))
    call("empty.get_excess_degree_keys", m0.get_excess_degree_keys)
    print("empty after", R(m0.excess_degree_keys))
    call("empty.index", m0.get_topology_index, "x")

    ejk_a = {
        (0, 3, 0, 3): 0.25,
        (0, 3, 4, 1): 0.125,
        (4, 1, 0, 3): 0.125,
        (4, 1, 4, 1): 0.5,
    }
    ejk_b = {
        (3, 1, 3, 1): 1 / 3,
        (3, 1, 1, 2): 1 / 6,
        (1, 2, 3, 1): 1 / 6,
        (1, 2, 1, 2): 1 / 3,
        (5, 0, 5, 0): 0.0,
    }
    variants = {
        "two": ({"2-clique": ejk_a, "3-clique": ejk_b}, ["2-clique", "3-clique"]),
        "reversed": ({"3-clique": ejk_b, "2-clique": ejk_a}, ["2-clique", "3-clique"]),
        "empty_topology": ({"t": {}}, ["t"]),
        "odd": ({"t": {(1, 2, 3): 1.0, (4,): 0.5, (): 0.1, OddKey(1, 2, 3, 4, 5): 0.2}}, ["t"]),
        "strings": ({"t": {"abcd": 1.0, "xy": 2.0, "abxy": 3.0}}, ["s", "t"]),
        "many": (
            {
                f"top{k}": {
                    (a, b, c, d): 1.0 / (1 + a + b + c + d)
                    for a in range(k + 1)
                    for b in range(3)
                    for c in range(k + 1)
                    for d in range(3)
                }
                for k in range(4)
            },
            [f"top{k}" for k in range(4)],
        ),
        "dup_names": ({"a": {(1, 1): 1.0}}, ["a", "b", "a"]),
    }
    for nm, (ejks, names) in variants.items():
        params = {ToolsNames.EJKS: ejks, ToolsNames.EDGE_NAMES: names}
        m = JointExcessJointDegreeMatrices(params)
        print(nm, "ctor", R(m.excess_degree_keys), "same_ejks", m.ejks is ejks, "same_names", m.topology_names is names)
        held = m.excess_degree_keys
        for rep in range(2):
            call(f"{nm}.get_excess_degree_keys#{rep}", m.get_excess_degree_keys)
            print(nm, "after", R(m.excess_degree_keys), "fresh_dict", m.excess_degree_keys is not held)
        print(nm, "ejks unchanged", R(ejks))
        for t in list(names) + ["missing", 0, None]:
            call(f"{nm}.index({t!r})", m.get_topology_index, t)
        # modify the matrices then recompute
        first = next(iter(ejks))
        ejks[first][(9, 9, 8, 8)] = 0.75
        ejks["late"] = {(7, 6): 0.5}
        call(f"{nm}.get_excess_degree_keys#mod", m.get_excess_degree_keys)
        print(nm, "after mod", R(m.excess_degree_keys))

    # failure half way: partial state must be identical
    bad = {"ok": {(1, 2): 1.0}, "bad": {(1, [2]): 1.0} if False else None, "never": {(3, 4): 1.0}}
    m = JointExcessJointDegreeMatrices()
    m.ejks = bad
    m.excess_degree_keys = {"stale": [1]}
    call("bad.get_excess_degree_keys", m.get_excess_degree_keys)
    print("bad after", R(m.excess_degree_keys))
    bad2 = {"ok": {(1, 2): 1.0}, "bad": {5: 1.0}}
    m.ejks = bad2
    call("bad2.get_excess_degree_keys", m.get_excess_degree_keys)
    print("bad2 after", R(m.excess_degree_keys))
    call("ctor missing names", JointExcessJointDegreeMatrices, {ToolsNames.EJKS: {}})
    call("ctor missing ejks", JointExcessJointDegreeMatrices, {ToolsNames.EDGE_NAMES: []})


# ----------------------------------------------------------------------------
# 3. hand built graph for the unit level functions
# ----------------------------------------------------------------------------
def hand_graph() -> nx.Graph:
    """
    joint degree = (number of 2-clique edges, number of triangles)
    triangles: (0,1,2) id 0, (3,4,5) id 1, (6,7,8) id 2, (0,9,10) id 3
    lines: (1,3) id 10, (2,6) id 11, (4,7) id 12, (5,8) id 13, (9,11) id 14, (10,12) id 15,
           (11,12) id 16, (13,14) id 17
    """
    G = nx.Graph()
    tri = [((0, 1, 2), 0), ((3, 4, 5), 1), ((6, 7, 8), 2), ((0, 9, 10), 3)]
    lines = [((1, 3), 10), ((2, 6), 11), ((4, 7), 12), ((5, 8), 13), ((9, 11), 14), ((10, 12), 15), ((11, 12), 16), ((13, 14), 17)]
    for (a, b, c), mid in tri:
        for e in ((a, b), (b, c), (c, a)):
            G.add_edge(*e)
            G.edges[e][TOP] = "3-clique"
            G.edges[e][MID] = mid
    for e, mid in lines:
        G.add_edge(*e)
        G.edges[e][TOP] = "2-clique"
        G.edges[e][MID] = mid
    for n in G.nodes():
        n2 = sum(1 for e in G.edges(n) if G.edges[e][TOP] == "2-clique")
        n3 = len({G.edges[e][MID] for e in G.edges(n) if G.edges[e][TOP] == "3-clique"})
        G.nodes[n][JD] = (n2, n3) if n % 2 else [n2, n3]  # tuples and lists both occur
    return G


def ring_graph(k: int = 14) -> nx.Graph:
    """k triangles (3i,3i+1,3i+2) plus lines between them; joint degree = (lines, triangles)."""
    G = nx.Graph()
    mid = 0
    for i in range(k):
        a, b, c = 3 * i, 3 * i + 1, 3 * i + 2
        for e in ((a, b), (b, c), (c, a)):
            G.add_edge(*e)
            G.edges[e][TOP] = "3-clique"
            G.edges[e][MID] = mid
        mid += 1
    for i in range(k):
        for e in ((3 * i + 1, 3 * ((i + 1) % k)), (3 * i + 2, 3 * ((i + 5) % k) + 1), (3 * i, 3 * ((i + 3) % k) + 2)):
            if i % 3 == 2 and e[0] % 3 == 0:
                continue
            if i % 2 == 1 and e[0] % 3 == 2:
                continue
            if i % 5 == 0 and e[0] % 3 == 1:
                continue
            if not G.has_edge(*e):
                G.add_edge(*e)
                G.edges[e][TOP] = "2-clique"
                G.edges[e][MID] = mid
                mid += 1
    for n in G.nodes():
        n2 = sum(1 for e in G.edges(n) if G.edges[e][TOP] == "2-clique")
        G.nodes[n][JD] = (n2, 1) if n % 2 else [n2, 1]
    return G


def full_support_target(G: nx.Graph, names: list, value=None) -> JointExcessJointDegreeMatrices:
    ejks = {}
    for i, nm in enumerate(names):
        exc = []
        for n in G.nodes():
            jd = list(G.nodes[n][JD])
            if jd[i] > 0:
                jd[i] -= 1
                if tuple(jd) not in exc:
                    exc.append(tuple(jd))
        d = {}
        for a in exc:
            for b in exc:
                d[a + b] = (1.0 + 0.37 * len(d)) / 7.0 if value is None else value
        ejks[nm] = d
    return JointExcessJointDegreeMatrices({ToolsNames.EJKS: ejks, ToolsNames.EDGE_NAMES: names})


def make_mcmc(G: nx.Graph, target, **kw) -> MarkovChainMonteCarloRewiring:
    net = Network()
    net.G = G
    params = {ToolsNames.NETWORK: net, ToolsNames.EJKS: target}
    if "cl" in kw:
        params[ToolsNames.CONVERGENCE_LIMIT] = kw["cl"]
    if "sl" in kw:
        params[ToolsNames.SEARCH_LIMIT] = kw["sl"]
    return MarkovChainMonteCarloRewiring(params)


def section_units():
    print("== unit functions")
    names = ["2-clique", "3-clique"]
    G = hand_graph()
    print("hand graph", graph_digest(G, full=True))
    target = full_support_target(G, names)
    print("target", R(target.ejks))
    m = make_mcmc(G, target)
    h = attach(m)
    print("ctor", mcmc_state(m))
    call("ctor bad", MarkovChainMonteCarloRewiring, {})
    call("ctor bad2", MarkovChainMonteCarloRewiring, {ToolsNames.NETWORK: None, ToolsNames.EJKS: None})

    # get_other_vertex
    for u, e in [(0, (0, 1)), (1, (0, 1)), (2, (0, 1)), (3, (3, 3)), (1, (1.0, 2)), (0, (0,)), (5, (4,)), (0, [1, 0, 9])]:
        call(f"get_other_vertex({u},{e})", m.get_other_vertex, u, e)

    # get_all_edges
    for u0, e in [(0, (0, 1)), (0, (1, 0)), (0, (0, 9)), (0, (9, 10)), (1, (1, 3)), (3, (1, 3)), (12, (11, 12)), (13, (13, 14)), (5, (0, 1)), (99, (0, 1)), (0, (0, 5)), (0, (0, 99))]:
        for rep in range(2):
            call(f"get_all_edges({u0},{e})#{rep}", m.get_all_edges, G, u0, e)

    # a graph with a self loop and a missing attribute
    G2 = hand_graph()
    G2.add_edge(0, 0)
    G2.edges[(0, 0)][TOP] = "3-clique"
    G2.edges[(0, 0)][MID] = 0
    G2.add_edge(0, 14)  # no attributes at all
    call("get_all_edges selfloop", m.get_all_edges, G2, 0, (0, 1))
    G2.remove_edge(0, 14)
    G2.add_edge(14, 0)
    G2.edges[(0, 14)][TOP] = "2-clique"
    call("get_all_edges no motif id", m.get_all_edges, G2, 0, (0, 1))
    call("get_all_edges no motif id on query", m.get_all_edges, G2, 14, (0, 14))

    # get_hashmap
    ebunches = [
        [],
        [(0, 1), (0, 2)],
        [(0, 1), (1, 3), (0, 2), (2, 6), (3, 1)],
        [(1, 3), (0, 1), (1, 3)],
        [(0, 1), (0, 5)],
        ((0, 9), (9, 11)),
    ]
    for i, es in enumerate(ebunches):
        res = call(f"get_hashmap[{i}]", m.get_hashmap, G, es)
        if res:
            print("   lists distinct", len({id(v) for v in res.values()}) == len(res), "input", R(es))
    call("get_hashmap no topology", m.get_hashmap, G2, [(0, 1), (0, 14), (14, 0)])
    G2.edges[(0, 14)][MID] = 5
    del G2.edges[(0, 14)][TOP]
    call("get_hashmap no topology 2", m.get_hashmap, G2, [(0, 1), (0, 14), (1, 2)])

    # is_edge_choice_suitable: all branches
    cases = [
        ("ok tri", 1, 3, [(1, 0), (1, 2)], [(3, 4), (3, 5)]),
        ("ok line", 1, 4, [(1, 3)], [(4, 7)]),
        ("len mismatch", 1, 3, [(1, 0), (1, 2)], [(3, 4)]),
        ("topology mismatch", 1, 3, [(1, 0)], [(3, 1)]),
        ("count mismatch", 1, 3, [(1, 0), (1, 3)], [(3, 1), (3, 4)]),
        ("count mismatch2", 1, 3, [(1, 0), (1, 2), (1, 3)], [(3, 4), (3, 1), (1, 3)]),
        ("same motif", 1, 2, [(1, 0), (1, 2)], [(2, 0), (2, 1)]),
        ("same motif line", 1, 3, [(1, 3)], [(3, 1)]),
        ("shared vertex", 1, 9, [(1, 0), (1, 2)], [(9, 0), (9, 10)]),
        ("self loop u0==v1", 11, 12, [(11, 9)], [(12, 11)]),
        ("target present", 1, 6, [(1, 0), (1, 2)], [(6, 7), (6, 8)]),
        ("target present line", 9, 12, [(9, 11)], [(12, 10)]),
        ("ok far line", 13, 5, [(13, 14)], [(5, 8)]),
        ("empty", 1, 3, [], []),
        ("bad vertex", 7, 3, [(1, 0), (1, 2)], [(3, 4), (3, 5)]),
        ("bad vertex right", 1, 7, [(1, 0), (1, 2)], [(3, 4), (3, 5)]),
        ("missing edge", 1, 3, [(1, 0), (1, 5)], [(3, 4), (3, 5)]),
        ("missing edge right", 1, 3, [(1, 0), (1, 2)], [(3, 4), (3, 0)]),
    ]
    for nm, u0, v0, e0s, e1s in cases:
        a, b = list(e0s), list(e1s)
        for rep in range(2):
            call(f"suitable[{nm}]#{rep}", m.is_edge_choice_suitable, G, u0, v0, a, b)
        print("   inputs unchanged", a == e0s and b == e1s)
        flush(h, f"suitable[{nm}]")
    print("graph unchanged", graph_digest(G, full=True) == graph_digest(hand_graph(), full=True))

    # get_joint_excess_degree_key
    for e, idx in [((0, 1), 0), ((0, 1), 1), ((1, 0), 1), ((1, 3), 0), ((3, 3), 0), ((0, 1), -1), ((0, 1), -2), ((0, 1), 2), ((0, 1), -3), ((0,), 0), ((0, 1, 2), 1), ((0, 99), 0), ((99, 0), 0), ([4, 7], 0), ((), 0), ((0, 1), "x"), ((0, 1, 99), 0), ((0, 1, 2), 5)]:
        for rep in range(2):
            call(f"jekey({e},{idx})#{rep}", m.get_joint_excess_degree_key, G, e, idx)
    # get_swapped_joint_excess_degree_key
    for e0, e1, u0, v0, idx in [
        ((1, 0), (3, 4), 1, 3, 1),
        ((0, 1), (4, 3), 1, 3, 1),
        ((1, 3), (4, 7), 1, 4, 0),
        ((1, 3), (4, 7), 3, 7, 0),
        ((1, 3), (4, 7), 1, 4, -1),
        ((1, 3), (4, 7), 1, 4, 2),
        ((1, 3), (4, 7), 2, 4, 0),
        ((1, 3), (4, 7), 1, 5, 0),
        ((1, 99), (4, 7), 1, 4, 0),
        ((1, 3), (4, 99), 1, 4, 0),
        ((3, 3), (4, 4), 3, 4, 0),
    ]:
        for rep in range(2):
            res = call(f"swapped({e0},{e1},{u0},{v0},{idx})#{rep}", m.get_swapped_joint_excess_degree_key, G, e0, e1, u0, v0, idx)
            if res is not None:
                print("   views", R([res.get_u0u1(), res.get_u1u0(), res.get_v0v1(), res.get_v1v0(), res.get_u0v1(), res.get_v0u1()]))
    print("node attrs unchanged", graph_digest(G, full=True) == graph_digest(hand_graph(), full=True))

    # append_proposal_edges
    for u0, old, new in [(1, (1, 0), (1, 4)), (1, (0, 1), (4, 1)), (3, (1, 3), (3, 7)), (3, (1, 3), (4, 7)), (3, (1, 5), (3, 7)), (0, (0, 1), (0, 0))]:
        call(f"append_proposal({u0},{old},{new})", m.append_proposal_edges, G, u0, old, new)
        print("  ", mcmc_state(m))
    call("append_proposal no topology", m.append_proposal_edges, G2, 0, (0, 14), (0, 3))
    print("  ", mcmc_state(m))
    flush(h, "units")


# ----------------------------------------------------------------------------
# 4. swap condition
# ----------------------------------------------------------------------------
def section_swap_condition():
    print("== swap_condition")
    names = ["2-clique", "3-clique"]
    G = hand_graph()
    ref = graph_digest(G, full=True)

    swaps = [
        ("tri 1<->3", [(1, 0), (1, 2)], [(3, 4), (3, 5)], 1, 3),
        ("tri 1<->4", [(1, 0), (1, 2)], [(4, 3), (4, 5)], 1, 4),
        ("tri 0<->7", [(0, 1), (0, 2)], [(7, 6), (7, 8)], 0, 7),
        ("tri 9<->5", [(9, 0), (9, 10)], [(5, 3), (5, 4)], 9, 5),
        ("line 1<->4", [(1, 3)], [(4, 7)], 1, 4),
        ("line 13<->5", [(13, 14)], [(5, 8)], 13, 5),
        ("line 13<->8", [(13, 14)], [(8, 5)], 13, 8),
        ("line 9<->12", [(9, 11)], [(12, 10)], 9, 12),
        ("line 2<->10", [(2, 6)], [(10, 12)], 2, 10),
        ("mixed 1<->3", [(1, 0), (1, 3)], [(3, 1), (3, 4)], 1, 3),
        ("mixed order", [(1, 3), (1, 0)], [(4, 3), (4, 7)], 1, 4),
        ("empty", [], [], 1, 3),
        ("e1s short", [(1, 0), (1, 2)], [(3, 4)], 1, 3),
        ("e1s long", [(1, 0)], [(3, 4), (3, 5)], 1, 3),
        ("no partner topology", [(1, 3)], [(3, 4)], 1, 3),
        ("bad focal", [(1, 0), (1, 2)], [(3, 4), (3, 5)], 2, 3),
        ("bad focal right", [(1, 0), (1, 2)], [(3, 4), (3, 5)], 1, 6),
    ]

    def run(label, target, seeds=(1, 2, 3)):
        m = make_mcmc(G, target)
        h = attach(m)
        for nm, e0s, e1s, u0, v0 in swaps:
            for s in seeds:
                seed(s)
                a, b = list(e0s), list(e1s)
                call(f"swap[{label}][{nm}] seed={s}", m.swap_condition, G, a, b, u0, v0)
                print("   ", mcmc_state(m), "inputs unchanged", a == e0s and b == e1s)
            flush(h, f"swap[{label}][{nm}]")
        # repeated calls on the same object without reseeding
        seed(99)
        for k in range(6):
            nm, e0s, e1s, u0, v0 = swaps[k % 4]
            call(f"swap[{label}] chain {k}", m.swap_condition, G, e0s, e1s, u0, v0)
        print("   ", mcmc_state(m))

    run("full", full_support_target(G, names))
    run("big", full_support_target(G, names, value=3.0), seeds=(1,))
    run("ints", full_support_target(G, names, value=2), seeds=(1,))
    # zero everywhere: numerator hits zero (return False)
    run("zeros", full_support_target(G, names, value=0.0), seeds=(1,))

    # zero only on present pairings -> denominator zero -> raises
    t = full_support_target(G, names)
    for nm in names:
        i = names.index(nm)
        for e in G.edges():
            if G.edges[e][TOP] == nm:
                ks = []
                for u in e:
                    jd = list(G.nodes[u][JD])
                    jd[i] -= 1
                    ks.append(tuple(jd))
                t.ejks[nm][ks[0] + ks[1]] = 0.0
                t.ejks[nm][ks[1] + ks[0]] = 0.0
    run("zero_present", t, seeds=(1,))

    # missing keys: numerator KeyError / denominator KeyError
    t = full_support_target(G, names)
    for nm in names:
        for k in list(t.ejks[nm])[::2]:
            del t.ejks[nm][k]
    run("sparse", t, seeds=(1,))
    t = full_support_target(G, names)
    del t.ejks["3-clique"]
    run("no_triangle_matrix", t, seeds=(1,))
    t = full_support_target(G, names)
    t.topology_names = ["3-clique", "2-clique"]  # indices swapped
    run("swapped_names", t, seeds=(1,))
    t = full_support_target(G, names)
    t.topology_names = ["2-clique"]  # triangle name unknown
    run("unknown_name", t, seeds=(1,))

    # no matrices object at all
    m = make_mcmc(G, full_support_target(G, names))
    m.ejks = None
    seed(5)
    call("swap[None] empty", m.swap_condition, G, [], [], 1, 3)
    call("swap[None] tri", m.swap_condition, G, [(1, 0), (1, 2)], [(3, 4), (3, 5)], 1, 3)
    print("   ", mcmc_state(m))
    print("graph unchanged", graph_digest(G, full=True) == ref)


# ----------------------------------------------------------------------------
# 5. rewire
# ----------------------------------------------------------------------------
def gcm_network(n: int, s: int):
    edge_names = ["2-clique", "3-clique"]
    motif_sizes = [2, 3]
    e1 = e2 = e3 = 1e-8
    ejk_tree = {
        (0, 3, 0, 3): 9 / 81 - e1 - e2,
        (0, 3, 4, 1): e1,
        (0, 3, 2, 2): e2,
        (4, 1, 0, 3): e1,
        (4, 1, 4, 1): 45 / 81 - e1 - e3,
        (4, 1, 2, 2): e3,
        (2, 2, 0, 3): e2,
        (2, 2, 4, 1): e3,
        (2, 2, 2, 2): 27 / 81 - e2 - e3,
    }
    ejk_tri = {
        (3, 1, 3, 1): 48 / 144 - e1 - e2,
        (3, 1, 1, 2): e1,
        (3, 1, 5, 0): e2,
        (1, 2, 3, 1): e1,
        (1, 2, 1, 2): 72 / 144 - e1 - e3,
        (1, 2, 5, 0): e3,
        (5, 0, 3, 1): e2,
        (5, 0, 1, 2): e3,
        (5, 0, 5, 0): 24 / 144 - e2 - e3,
    }
    target = JointExcessJointDegreeMatrices(
        {ToolsNames.EDGE_NAMES: edge_names, ToolsNames.EJKS: {"2-clique": ejk_tree, "3-clique": ejk_tri}}
    )
    seed(s)
    qks = JointExcessFromEjk.get_excess_joint_distributions(target)
    jdd = JointDegreeFromExcess.get_joint_degree_distribution(qks, edge_names)
    D = JointDegreeManual({JointDegreeNames.JDD: jdd, JointDegreeNames.MOTIF_SIZES: motif_sizes})
    jds = D.sample_jds_from_jdd(n)
    g = GCMAlgorithmNetwork(
        {
            GCMAlgorithmNames.MOTIF_SIZES: motif_sizes,
            GCMAlgorithmNames.EDGE_NAMES: edge_names,
            GCMAlgorithmNames.BUILD_FUNCTIONS: [clique_motif, clique_motif],
        }
    ).random_clustered_graph(jds)
    return g, target, edge_names


def ejk_digest(G, names):
    C = JointExcessJointDegree({ToolsNames.NETWORK: G, ToolsNames.EDGE_NAMES: names})
    return R(C.get_ejks().ejks)


def check_created(G0, G1, target, names):
    """count created edges whose pairing is not allowed (property C12)."""
    bad = 0
    created = 0
    for e in G1.edges():
        if not G0.has_edge(*e):
            created += 1
            t = G1.edges[e][TOP]
            i = names.index(t)
            ks = []
            for u in e:
                jd = list(G1.nodes[u][JD])
                jd[i] -= 1
                ks.append(tuple(jd))
            if not target.ejks[t].get(ks[0] + ks[1], 0.0) > 0.0:
                bad += 1
    return f"created={created} bad={bad}"


def section_rewire():
    print("== rewire")
    names = ["2-clique", "3-clique"]

    # hand graph, tiny budgets, repeated calls on the same object
    for label, value, maker in [("full", None, hand_graph), ("big", 3.0, hand_graph), ("ring", None, ring_graph), ("ringbig", 5.0, ring_graph)]:
        G = maker()
        ref = graph_digest(G, full=True)
        target = full_support_target(G, names, value=value)
        for cl, sl in [(0, 25), (1, 25), (5, 25), (12, 3), (7, 1), (-1, 25)]:
            m = make_mcmc(G, target, cl=cl, sl=sl)
            h = attach(m)
            for rep in range(3):
                seed(100 + cl + rep)
                budget(1500)
                out = call(f"rewire hand[{label}] cl={cl} sl={sl} #{rep}", lambda: graph_digest(m.rewire(), full=True))
                print("   ", mcmc_state(m))
                flush(h, "   rewire hand")
            print("   source unchanged", graph_digest(G, full=True) == ref, "net is same", m.network.G is G)
        # default convergence limit
        m = make_mcmc(G, target)
        seed(7)
        budget(3000)
        print("default limit", m.convergence_limit, m.search_limit)
        call(f"rewire hand[{label}] default", lambda: graph_digest(m.rewire(), full=True))
        print("   ", mcmc_state(m))

    # property setters then rewire again on the same object
    G = ring_graph()
    m = make_mcmc(G, full_support_target(G, names), cl=3)
    seed(11)
    budget(3000)
    call("rewire a", lambda: graph_digest(m.rewire(), full=True))
    m.convergence_limit = 6
    m.search_limit = 4
    m.ejks = full_support_target(G, names, value=1.0)
    budget(3000)
    call("rewire b", lambda: graph_digest(m.rewire(), full=True))
    net2 = Network()
    budget(3000)
    net2.G = call("rewire for chaining", m.rewire) or ring_graph()
    m.network = net2
    budget(3000)
    call("rewire c (chained network)", lambda: graph_digest(m.rewire(), full=True))
    print("   ", mcmc_state(m))

    # an edge without topology attribute: exception and RNG position must agree
    G = hand_graph()
    del G.edges[(13, 14)][TOP]
    m = make_mcmc(G, full_support_target(hand_graph(), names), cl=50)
    for s in range(4):
        seed(s)
        budget(500)
        call(f"rewire missing topology seed={s}", lambda: graph_digest(m.rewire(), full=True))
    G = hand_graph()
    del G.edges[(13, 14)][MID]
    m = make_mcmc(G, full_support_target(hand_graph(), names), cl=50)
    for s in range(4):
        seed(s)
        budget(500)
        call(f"rewire missing motif id seed={s}", lambda: graph_digest(m.rewire(), full=True))
    # sparse target (KeyError guards) and denominators at zero (raises)
    G = ring_graph()
    t = full_support_target(G, names)
    for nm in names:
        for k in list(t.ejks[nm])[::3]:
            del t.ejks[nm][k]
    m = make_mcmc(G, t, cl=6)
    for s in range(3):
        seed(s)
        budget(800)
        call(f"rewire sparse seed={s}", lambda: graph_digest(m.rewire(), full=True))
    t = full_support_target(G, names)
    for nm in names:
        for k in list(t.ejks[nm])[::2]:
            t.ejks[nm][k] = 0.0
    m = make_mcmc(G, t, cl=6)
    for s in range(3):
        seed(s)
        budget(800)
        call(f"rewire zeros seed={s}", lambda: graph_digest(m.rewire(), full=True))
    # empty graph: random.choice on empty list
    m = make_mcmc(nx.Graph(), full_support_target(G, names), cl=2)
    seed(1)
    budget(10)
    call("rewire empty graph", lambda: graph_digest(m.rewire(), full=True))
    m = make_mcmc(G, full_support_target(G, names), cl=None)
    m.convergence_limit = None
    seed(1)
    budget(10)
    call("rewire None limit", lambda: graph_digest(m.rewire(), full=True))

    # GCM networks
    for n, s, cl, sl in [(150, 1, 60, 20), (300, 2, 250, 20), (300, 3, 120, 5), (600, 4, 500, 25)]:
        g, target, names = gcm_network(n, s)
        G0 = g.G
        before = graph_digest(G0)
        print(f"gcm n={n} seed={s}", before, "rng", rng_digest())
        print("   initial ejk", sha(ejk_digest(G0, names)))
        m = make_mcmc(G0, target, cl=cl, sl=sl)
        m.network = g
        h = attach(m)
        for rep in range(2):
            budget(200000)
            G1 = call(f"gcm n={n} rewire#{rep}", lambda: m.rewire())
            if G1 is not None:
                print("   out", graph_digest(G1), check_created(G0, G1, target, names))
                print("   out full sha", sha(graph_digest(G1, full=True)), "ejk", sha(ejk_digest(G1, names)))
                print("   ejk", ejk_digest(G1, names)[:400])
            print("   ", mcmc_state(m)[-160:])
            flush(h, "   gcm")
        print("   source unchanged", graph_digest(G0) == before)


if __name__ == "__main__":
    seed(0)
    section_keys_view()
    section_matrices()
    section_units()
    section_swap_condition()
    section_rewire()
    print("final rng", rng_digest(), counters())
