"""Equivalence digest for the C09 additions.

Run with cwd = a checkout of gcmpy.  Uses only the pre-existing API.
"""
import hashlib
import os
import random
import sys

sys.path.insert(0, os.getcwd())

import networkx as nx  # noqa: E402
import numpy as np  # noqa: E402

from gcmpy.covers.eecc import EECC, binom  # noqa: E402
from gcmpy.network.network import Network  # noqa: E402


def rng_digest():
    h = hashlib.sha256()
    h.update(repr(random.getstate()).encode())
    st = np.random.get_state()
    h.update(repr((st[0], st[1].tolist(), st[2], st[3], repr(st[4]))).encode())
    return h.hexdigest()[:16]


def graph_state(G):
    return (list(G.nodes()), [(u, v) for u, v in G.edges()])


def show(label, fn):
    try:
        out = fn()
        print(label, "->", repr(out))
    except BaseException as e:  # noqa: B902
        print(label, "!!", type(e).__name__, repr(e.args))
    print("   rng", rng_digest())


def seed(s):
    random.seed(s)
    np.random.seed(s)


def build(edges, m0=None):
    g = EECC()
    if m0 is not None:
        g.set_max_clique_size(m0)
    g.add_edges_from(edges)
    return g


def test_network_edges():
    return [
        (1, 2), (1, 3), (1, 4), (2, 3), (2, 4), (3, 4),
        (4, 5), (4, 6), (5, 6),
        (6, 7), (6, 8), (7, 8), (7, 9), (8, 9), (6, 9),
        (9, 10), (10, 11), (9, 11), (11, 12),
        (3, 12), (3, 13), (12, 13),
    ]


def complete(n, off=0):
    return [(i + off, j + off) for i in range(n) for j in range(i + 1, n)]


GRAPHS = {
    "empty": [],
    "single": [(0, 1)],
    "path": [(0, 1), (1, 2), (2, 3)],
    "triangle": complete(3),
    "k4": complete(4),
    "k5": complete(5),
    "k6": complete(6),
    "two_tri_shared_edge": [(0, 1), (1, 2), (0, 2), (1, 3), (2, 3)],
    "bowtie": [(0, 1), (1, 2), (0, 2), (2, 3), (3, 4), (2, 4)],
    "k4_plus_k4_overlap": complete(4) + [(2, 4), (3, 4), (2, 5), (3, 5), (4, 5)],
    "testnet": test_network_edges(),
    "wheel": [(0, i) for i in range(1, 7)] + [(i, i % 6 + 1) for i in range(1, 7)],
    "reversed_dups": [(2, 1), (1, 2), (3, 2), (3, 1), (1, 3), (4, 3)],
    "strings": [("a", "b"), ("b", "c"), ("a", "c"), ("c", "d")],
    "selfloop": [(1, 1), (1, 2)],
    "selfloop_tri": [(0, 1), (1, 2), (0, 2), (2, 2)],
}


def random_graph(n, p, s):
    r = random.Random(s)
    return [(i, j) for i in range(n) for j in range(i + 1, n) if r.random() < p]


for k, (n, p, s) in enumerate(
    [(8, 0.5, 1), (10, 0.45, 2), (12, 0.4, 3), (9, 0.7, 4), (14, 0.3, 5), (7, 0.9, 6)]
):
    GRAPHS["gnp%d" % k] = random_graph(n, p, s)


seed(2024)
print("== binom")
for n in range(0, 9):
    print(n, [binom(n, r) for r in range(0, n + 2)])
show("binom(-1,2)", lambda: binom(-1, 2))
show("binom(5,-1)", lambda: binom(5, -1))
show("binom(5.0,2)", lambda: binom(5.0, 2))

print("== Network")
seed(11)
net = Network()
print("type G", type(net.G).__name__, graph_state(net.G))
show("has_edges empty", net.has_edges)
show("find_cliques empty", net.find_cliques)
show("add_edge", lambda: net.add_edge((1, 2)))
show("add_edge attr", lambda: net.add_edge((2, 3, {"w": 1.5})))
show("add_edge bad", lambda: net.add_edge((1,)))
show("add_edge bad2", lambda: net.add_edge(5))
show("add_edges_from", lambda: net.add_edges_from([(3, 1), (3, 4), (4, 5)]))
show("add_edges_from bad", lambda: net.add_edges_from([(7,)]))
show("add_edges_from none", lambda: net.add_edges_from(None))
print(graph_state(net.G), [(u, v, dict(d)) for u, v, d in net.G.edges(data=True)])
show("find_cliques", lambda: sorted(sorted(c) for c in net.find_cliques()))
show("find_cliques raw", net.find_cliques)
show("remove_edge", lambda: net.remove_edge(1, 2))
show("remove_edge again", lambda: net.remove_edge(1, 2))
show("remove_edge rev", lambda: net.remove_edge(4, 3))
show("remove_edge missing nodes", lambda: net.remove_edge(100, 200))
show("remove_edge unhashable", lambda: net.remove_edge([1], 2))
print(graph_state(net.G))
show("has_edges", net.has_edges)
for e in list(net.G.edges()):
    net.remove_edge(*e)
show("has_edges after", net.has_edges)
print(graph_state(net.G))
g2 = nx.complete_graph(4)
net.G = g2
print("setter identity", net.G is g2, graph_state(net.G))
show("Network(1)", lambda: type(Network(*[])).__name__)
print("bool(Network())", bool(Network()), bool(EECC()))
show("len(Network())", lambda: len(Network()))
show("iter(Network())", lambda: iter(Network()))
show("1 in Network()", lambda: 1 in Network())
print("vars Network", sorted(vars(Network()).keys()))
print("vars EECC", sorted(vars(EECC()).keys()), EECC()._m0)

print("== limited_maximal_cliques / compute_scores")
for name, edges in GRAPHS.items():
    for m0 in (None, 2, 3, 4, 5, 10):
        seed(5)
        g = build(edges, m0)
        before = graph_state(g.G)
        label = "%s m0=%r" % (name, m0)

        def lmc():
            C = g.limited_maximal_cliques()
            return C

        show("lmc " + label, lmc)
        show("lmc again " + label, lmc)
        print("   graph unchanged", graph_state(g.G) == before, "m0", g._m0)

        def cs():
            C = g.limited_maximal_cliques()
            n = len(C)
            EC, o, r, idx = [], [0] * n, [0.0] * n, []
            ret = g.compute_scores(C, EC, o, r, idx)
            return (ret, C, EC, o, [repr(x) for x in r], idx)

        show("cs " + label, cs)

        def cs_int():
            C = [c for c in g.limited_maximal_cliques() if len(c) > 1]
            n = len(C)
            EC, o, r, idx = [[99, 98]], [0] * n, [0] * n, []
            ret = g.compute_scores(C, EC, o, r, idx)
            return (ret, C, EC, o, [repr(x) for x in r], idx)

        show("cs_int " + label, cs_int)

# compute_scores on hand-made inputs (unsorted cliques, tuples, short lists)
g = EECC()
for C in (
    [[3, 1, 2], [2, 3, 4], [5, 4]],
    [(3, 1, 2), (4, 3, 2), (1, 2, 3, 4)],
    [[1]],
    [],
):
    def cs_hand(C=C):
        C = [c for c in C]
        n = len(C)
        EC, o, r, idx = [], [0] * n, [0.0] * n, []
        g.compute_scores(C, EC, o, r, idx)
        return (C, EC, o, [repr(x) for x in r], idx)

    show("cs_hand %r" % (C,), cs_hand)
show("cs short lists", lambda: g.compute_scores([[1, 2], [2, 3]], [], [0], [0.0], []))
show("cs none", lambda: g.compute_scores(None, [], [], [], []))

print("== get_EECC")
for name, edges in GRAPHS.items():
    for m0 in (None, 2, 3, 4, 5, 10):
        for s in (0, 1, 7):
            seed(s)
            g = build(edges, m0)
            label = "%s m0=%r seed=%d" % (name, m0, s)
            show("eecc " + label, g.get_EECC)
            print("   graph after", graph_state(g.G))
            # repeated call on the same (now edge-less or failed) object
            show("eecc again " + label, g.get_EECC)
            print("   graph after", graph_state(g.G))
            # re-use the object: add edges again and change m0
            g.add_edges_from(edges)
            g.set_max_clique_size(3)
            show("eecc reuse " + label, g.get_EECC)
            print("   graph after", graph_state(g.G), g._m0)

print("== get_EECC odd m0")
for m0 in (1, 0, -1, 2.0, "3", None):
    for name in ("triangle", "k4", "testnet", "empty"):
        seed(3)
        g = EECC()
        g.set_max_clique_size(m0)
        g.add_edges_from(GRAPHS[name])
        show("eecc %s m0=%r" % (name, m0), g.get_EECC)
        print("   graph after", graph_state(g.G))

print("== get_EECC with G assigned")
for s in range(4):
    seed(s)
    g = EECC()
    G = nx.gnp_random_graph(15, 0.35, seed=s)
    g.G = G
    g.set_max_clique_size(4)
    show("eecc gnp15 seed=%d" % s, g.get_EECC)
    print("   graph after", graph_state(g.G), g.G is G)

print("== draws")
# the tie-breaking draw must be consumed from the global generator exactly as before
seed(123)
g = build(GRAPHS["k6"], 3)
show("k6 m0=3", g.get_EECC)
print("next random", repr(random.random()), repr(np.random.random()))

print("== signatures of old call forms")
show("get_EECC()", lambda: build(GRAPHS["bowtie"], 3).get_EECC())
show("set_max_clique_size ret", lambda: EECC().set_max_clique_size(4))
show("EECC mro", lambda: [c.__name__ for c in EECC.__mro__])
print("final rng", rng_digest())
