"""Equivalence digest for gcmpy/tools/draw_set.py (existing API only).

Run with cwd = a checkout. Uses only DrawSet(), add, remove, draw,
__contains__, __iter__, __len__ through their original signatures.
"""
import hashlib
import os
import random
import sys

sys.path.insert(0, os.getcwd())

import numpy as np  # noqa: E402

from gcmpy.tools.draw_set import DrawSet  # noqa: E402
import gcmpy  # noqa: E402
import gcmpy.tools  # noqa: E402

LINES = []


def out(*parts):
    LINES.append(" ".join(str(p) for p in parts))


def rng_state():
    s = random.getstate()
    h = hashlib.sha256(repr(s).encode()).hexdigest()[:16]
    n = np.random.get_state()
    hn = hashlib.sha256(repr((n[0], n[1].tolist(), n[2], n[3], repr(n[4]))).encode()).hexdigest()[:16]
    return "py=%s np=%s" % (h, hn)


def state(ds):
    return "len=%d edges=%r map=%r vars=%r" % (
        len(ds), ds._edges, sorted(ds._edge_hashmap.items(), key=repr),
        sorted(vars(ds).keys()))


def attempt(label, fn):
    try:
        r = fn()
        out(label, "->", repr(r))
    except BaseException as exc:  # noqa
        out(label, "!!", type(exc).__name__, repr(exc.args))


def main():
    random.seed(12345)
    np.random.seed(54321)

    out("same class re-exported", gcmpy.DrawSet is DrawSet, gcmpy.tools.DrawSet is DrawSet)

    # --- empty set, error paths
    ds = DrawSet()
    out("empty", state(ds), list(ds), (1, 2) in ds)
    attempt("draw empty", ds.draw)
    out("rng", rng_state())
    attempt("remove absent from empty", lambda: ds.remove((1, 2)))
    out("after", state(ds))
    attempt("add unhashable", lambda: ds.add([1, 2]))
    out("after", state(ds))
    attempt("remove unhashable", lambda: ds.remove([1, 2]))
    out("after", state(ds))
    attempt("contains unhashable", lambda: [1, 2] in ds)
    attempt("ctor positional arg count", lambda: DrawSet.__init__.__code__.co_varnames[:1])

    # --- basic histories
    attempt("add returns", lambda: ds.add((0, 1)))
    attempt("add dup returns", lambda: ds.add((0, 1)))
    out("after", state(ds))
    attempt("single draw", ds.draw)
    out("rng", rng_state())
    attempt("remove only returns", lambda: ds.remove((0, 1)))
    out("after", state(ds))
    attempt("remove again", lambda: ds.remove((0, 1)))
    out("after", state(ds))

    for e in [(0, 1), (1, 2), (2, 3), (0, 1), (3, 4), (4, 5), (1, 2)]:
        ds.add(e)
    out("filled", state(ds), list(iter(ds)))
    out("draws", [ds.draw() for _ in range(25)])
    out("rng", rng_state())
    ds.remove((0, 1))  # first -> swap with last
    out("rm first", state(ds))
    ds.remove((2, 3))  # middle
    out("rm middle", state(ds))
    ds.remove(ds._edges[-1])  # last
    out("rm last", state(ds))
    attempt("rm absent", lambda: ds.remove((9, 9)))
    out("after absent", state(ds))
    attempt("rm absent again", lambda: ds.remove((9, 9)))
    out("after absent", state(ds))
    out("draws", [ds.draw() for _ in range(10)])
    out("membership", [(e, e in ds) for e in [(0, 1), (1, 2), (2, 3), (3, 4), (4, 5), (9, 9)]])
    out("rng", rng_state())

    # mixed hashables incl. values equal under ==
    ds2 = DrawSet()
    for e in [1, 1.0, True, "a", (1,), frozenset([1]), None, 0, False, 0.0, -0.0, float("nan")]:
        ds2.add(e)
    out("mixed", state(ds2))
    out("mixed draws", [repr(ds2.draw()) for _ in range(12)])
    ds2.remove(1.0)
    out("mixed rm 1.0", state(ds2))
    attempt("mixed rm 1 again", lambda: ds2.remove(1))
    out("mixed after", state(ds2))

    # two objects are independent
    a, b = DrawSet(), DrawSet()
    a.add((1, 1))
    out("independent", state(a), state(b))

    # --- random history against a plain-set model, several seeds
    for seed in range(6):
        random.seed(seed)
        ds = DrawSet()
        model = set()
        trace = []
        for step in range(400):
            r = random.random()
            e = (random.randrange(12), random.randrange(12))
            if r < 0.45:
                ds.add(e)
                model.add(e)
                trace.append(("a", e))
            elif r < 0.75:
                try:
                    ds.remove(e)
                    trace.append(("r", e))
                except KeyError as exc:
                    trace.append(("rK", exc.args))
                model.discard(e)
            elif r < 0.95:
                try:
                    trace.append(("d", ds.draw()))
                except IndexError as exc:
                    trace.append(("dI", exc.args))
            else:
                trace.append(("c", e in ds, len(ds)))
            assert len(ds) == len(model)
            assert set(ds) == model and len(list(ds)) == len(model)
        out("seed", seed, hashlib.sha256(repr(trace).encode()).hexdigest())
        out("seed", seed, "final", state(ds))
        out("seed", seed, "rng", rng_state())

    # --- iteration while reading; iterator type
    ds = DrawSet()
    for i in range(5):
        ds.add((i, i + 1))
    it = iter(ds)
    out("iter type", type(it).__name__, next(it), next(it))
    out("len/dunder", ds.__len__(), ds.__contains__((0, 1)), ds.__contains__((7, 8)))
    out("add/remove/draw return None?", ds.add((0, 1)) is None, ds.remove((0, 1)) is None)
    out("final", state(ds))
    out("final rng", rng_state())

    # --- the only in-package consumer: MCMC rewiring, if cheaply runnable
    try:
        import networkx as nx
        from gcmpy.tools import MarkovChainMonteCarloRewiring  # noqa
        out("mcmc importable", True)
    except BaseException as exc:  # noqa
        out("mcmc import", type(exc).__name__)

    print("\n".join(LINES))
    print("DIGEST", hashlib.sha256("\n".join(LINES).encode()).hexdigest())


if __name__ == "__main__":
    main()
