"""Deterministic digest of the edge list <-> network conversion (C04).

Run with cwd = a checkout of gcmpy.
"""
import hashlib
import os
import random
import sys

sys.path.insert(0, os.getcwd())

import numpy as np
import networkx as nx

from gcmpy.network.edge_list import LightWeightEdgeList
from gcmpy.network.network import Network
from gcmpy.network.edge_list_to_network import EdgeListToNetwork
from gcmpy.network.network_to_edge_list import NetworkToEdgeList
from gcmpy.names.network_names import NetworkNames

random.seed(12345)
np.random.seed(12345)


def digest(obj) -> str:
    return hashlib.sha256(repr(obj).encode()).hexdigest()[:16]


def describe_network(net: Network):
    G = net.G
    nodes = [(n, dict(G.nodes[n])) for n in G.nodes()]
    edges = [(u, v, dict(d)) for u, v, d in G.edges(data=True)]
    adj = [(n, list(G.adj[n])) for n in G.nodes()]
    return (type(G).__name__, nodes, edges, adj, G.number_of_nodes(),
            G.number_of_edges(), net.has_edges())


def describe_edge_list(el: LightWeightEdgeList):
    return (list(el.edge_list), list(el.joint_degrees), list(el.topologies),
            list(el.motif_id))


def make_edge_list(n, m, n_topologies=3, dup=False, orient=False, loops=False):
    el = LightWeightEdgeList()
    edges, tops, mids = [], [], []
    for k in range(m):
        u = random.randrange(n)
        v = random.randrange(n)
        if not loops:
            while v == u:
                v = random.randrange(n)
        edges.append((u, v))
        tops.append("top_%d" % random.randrange(n_topologies))
        mids.append(random.randrange(1000))
    if dup and edges:
        for k in range(max(1, m // 4)):
            i = random.randrange(len(edges))
            e = edges[i]
            if orient and random.random() < 0.5:
                e = (e[1], e[0])
            edges.append(e)
            tops.append("dup_%d" % k)
            mids.append(5000 + k)
    el.edge_list = edges
    el.topologies = tops
    el.motif_id = mids
    el.joint_degrees = [
        tuple(int(x) for x in np.random.randint(0, 4, size=n_topologies))
        for _ in range(n)
    ]
    return el


def run_case(label, el):
    before = describe_edge_list(el)
    try:
        net = EdgeListToNetwork.convert(el)
    except Exception as exc:  # digest exceptions too
        print(label, "forward EXC", type(exc).__name__, exc)
        return
    after = describe_edge_list(el)
    d_net = describe_network(net)
    print(label, "input_unchanged", before == after)
    print(label, "network", digest(d_net), d_net[4], d_net[5], d_net[6])
    try:
        back = NetworkToEdgeList.convert(net)
    except Exception as exc:
        print(label, "backward EXC", type(exc).__name__, exc)
        return
    d_back = describe_edge_list(back)
    print(label, "edge_list", digest(d_back), len(back.edge_list))
    print(label, "types", type(back.edge_list).__name__,
          type(back.joint_degrees).__name__, type(back.topologies).__name__,
          type(back.motif_id).__name__)
    print(label, "network_after_back", digest(describe_network(net)))
    # second round trip
    net2 = EdgeListToNetwork.convert(back)
    back2 = NetworkToEdgeList.convert(net2)
    print(label, "round2", digest(describe_network(net2)),
          digest(describe_edge_list(back2)),
          describe_edge_list(back2) == d_back)
    # aliasing: the converted lists must be independent of the graph
    net.G.add_edge(10 ** 6, 10 ** 6 + 1)
    print(label, "alias", digest(describe_edge_list(back)))


# small literal cases, printed in full
el = LightWeightEdgeList()
run_case("empty", el)
print("empty-full", describe_network(EdgeListToNetwork.convert(el)),
      describe_edge_list(NetworkToEdgeList.convert(EdgeListToNetwork.convert(el))))

el = LightWeightEdgeList()
el.joint_degrees = [(0, 0), (0, 0), (0, 0)]
run_case("isolated", el)
print("isolated-full", describe_network(EdgeListToNetwork.convert(el)))

el = LightWeightEdgeList()
el.edge_list = [(0, 1), (1, 2), (2, 0), (3, 4)]
el.topologies = ["3-clique", "3-clique", "3-clique", "2-clique"]
el.motif_id = [0, 0, 0, 1]
el.joint_degrees = [(0, 1), (0, 1), (0, 1), (1, 0), (1, 0), (0, 0)]
run_case("literal", el)
net = EdgeListToNetwork.convert(el)
print("literal-full", describe_network(net))
print("literal-back", describe_edge_list(NetworkToEdgeList.convert(net)))

# duplicates in both orientations, self loops, mismatched column lengths
el = LightWeightEdgeList()
el.edge_list = [(0, 1), (1, 0), (0, 1), (2, 2), (1, 2)]
el.topologies = ["a", "b", "c", "d", "e"]
el.motif_id = [1, 2, 3, 4, 5]
el.joint_degrees = [(1,), (2,), (3,)]
run_case("dups", el)
print("dups-full", describe_network(EdgeListToNetwork.convert(el)))

el = LightWeightEdgeList()
el.edge_list = [(0, 1), (1, 2), (2, 3), (3, 4)]
el.topologies = ["a", "b"]
el.motif_id = [1, 2, 3]
el.joint_degrees = [(1,), (2,)]  # shorter than the number of vertices
run_case("mismatch", el)
print("mismatch-full", describe_network(EdgeListToNetwork.convert(el)))

el = LightWeightEdgeList()
el.edge_list = [(0, 1)]
el.topologies = ["a", "b", "c"]
el.motif_id = [1, 2, 3]
el.joint_degrees = [(1,), (2,), (3,), (4,)]
run_case("long-columns", el)

# generator / tuple inputs
el = LightWeightEdgeList()
el.edge_list = ((0, 1), (1, 2))
el.topologies = ("x", "y")
el.motif_id = (7, 8)
el.joint_degrees = ((1,), (2,), (1,))
run_case("tuples", el)

# random cases
for i in range(12):
    n = random.randrange(1, 60)
    m = random.randrange(0, 150)
    if n == 1:
        m = 0
    el = make_edge_list(n, m, n_topologies=1 + i % 4, dup=(i % 2 == 1),
                        orient=(i % 4 == 3), loops=False)
    run_case("rand%d" % i, el)
for i in range(4):
    el = make_edge_list(random.randrange(2, 30), random.randrange(1, 80),
                        dup=True, orient=True, loops=True)
    run_case("loops%d" % i, el)

# NetworkToEdgeList on hand-built networks (node insertion order != 0..n-1)
net = Network()
for n in [3, 1, 0, 2]:
    net.G.add_node(n)
    net.G.nodes[n][NetworkNames.JOINT_DEGREE] = (n, n + 1)
for k, e in enumerate([(3, 1), (0, 2), (1, 0)]):
    net.G.add_edge(*e)
    net.G.edges[e][NetworkNames.TOPOLOGY] = "t%d" % k
    net.G.edges[e][NetworkNames.MOTIF_IDS] = k
print("handbuilt", describe_edge_list(NetworkToEdgeList.convert(net)))

# missing attributes -> same exception
net = Network()
net.G.add_edge(0, 1)
try:
    NetworkToEdgeList.convert(net)
except Exception as exc:
    print("missing-attr", type(exc).__name__, exc)
net = Network()
net.G.add_node(5)
net.G.nodes[5][NetworkNames.JOINT_DEGREE] = (1,)
try:
    NetworkToEdgeList.convert(net)
except Exception as exc:
    print("missing-node", type(exc).__name__, exc)

# Network helpers (has_edges on several graph kinds via the setter)
net = Network()
print("has_edges empty", net.has_edges())
net.add_edge((0, 1))
print("has_edges one", net.has_edges())
net.remove_edge(0, 1)
net.remove_edge(0, 1)
print("has_edges removed", net.has_edges(), list(net.G.nodes()))
net.add_edge((4, 4))
print("has_edges loop", net.has_edges())
for cls in (nx.Graph, nx.DiGraph, nx.MultiGraph, nx.MultiDiGraph):
    net = Network()
    net.G = cls()
    r0 = net.has_edges()
    net.G.add_node(1)
    r1 = net.has_edges()
    net.G.add_edge(1, 1)
    r2 = net.has_edges()
    net.G.add_edge(1, 2)
    r3 = net.has_edges()
    print("has_edges", cls.__name__, r0, r1, r2, r3, type(r0).__name__)
net = Network()
net.add_edges_from([(0, 1), (1, 2), (2, 0), (2, 3)])
print("cliques", sorted(sorted(c) for c in net.find_cliques()), net.has_edges())

# through the public algorithm entry point, if available
try:
    from gcmpy.gcm_algorithm.gcm_algorithm_network import GCMAlgorithmNetwork  # noqa
    print("gcm_algorithm_network import ok")
except Exception as exc:
    print("gcm_algorithm_network import", type(exc).__name__)

print("rng-state", random.random(), float(np.random.random()))
