"""Deterministic digest of the cover loader / JointDegree behaviour (run with cwd = a checkout)."""
import hashlib
import os
import random
import sys

sys.path.insert(0, os.getcwd())

import numpy as np  # noqa: E402

from gcmpy.joint_degree.joint_degree_loaders.joint_degree_cover import (  # noqa: E402
    JointDegreeCover,
)
from gcmpy.names.joint_degree_names import JointDegreeNames  # noqa: E402


def digest(obj) -> str:
    return hashlib.sha256(repr(obj).encode()).hexdigest()[:16]


def random_cover(rng, n_vertices, n_cliques, sizes, base):
    cover = []
    for _ in range(n_cliques):
        k = rng.choice(sizes)
        cover.append(rng.sample(range(base, base + n_vertices), k))
    # make sure the numbering is contiguous: add the missing vertices as edges
    seen = {v for c in cover for v in c}
    missing = [v for v in range(base, base + n_vertices) if v not in seen]
    for v in missing:
        other = base if v != base else base + 1
        cover.append([v, other])
    return cover


def show(name, cover, n_sample):
    try:
        _show(name, cover, n_sample)
    except Exception as e:  # failure after construction is part of the digest too
        print(name, "EXC_LATE", type(e).__name__, e)


def _show(name, cover, n_sample):
    try:
        jd = JointDegreeCover({JointDegreeNames.COVER: cover})
    except Exception as e:  # report the failure mode as part of the digest
        print(name, "EXC", type(e).__name__, e)
        return
    print(name, "motif_sizes", jd.motif_sizes)
    items = list(jd.jdd.items())  # insertion order matters for sampling
    print(name, "jdd_len", len(items), "jdd_digest", digest(items))
    if len(items) <= 12:
        print(name, "jdd", items)
    print(name, "key_types", sorted({type(k).__name__ for k in jd.jdd}))
    print(name, "cover_is_same", jd.cover is cover)
    for N in n_sample:
        jds = jd.sample_jds_from_jdd(N)
        tops = list(map(sum, zip(*jds)))
        print(name, "N", N, "jds_digest", digest(jds), "tops", tops,
              "rand_after", random.random())
    # handshaking lemma on a fixed sequence
    fixed = [tuple((i + j) % 3 for j in range(len(jd.motif_sizes))) for i in range(17)]
    out = jd.handshaking_lemma(list(fixed))
    print(name, "hl_digest", digest(out), "rand_after", random.random())
    # convert / normalise on the same object
    jd.convert_jds_to_jdd(out)
    print(name, "reconv_digest", digest(list(jd.jdd.items())))
    jd.normalise_jdd()
    print(name, "norm_digest", digest(list(jd.jdd.items())))
    jd.convert_jds_to_jdd([])
    print(name, "empty_conv", jd.jdd)


def main():
    random.seed(12345)
    np.random.seed(12345)
    rng = random.Random(777)

    show("tiny0", [[0, 1], [1, 2], [0, 1, 2], [2, 3, 4, 5]], [1, 7, 50])
    show("tiny1", [[1, 2], [2, 3], [1, 2, 3], [3, 4, 5, 6]], [5, 33])
    show("tuples", [(0, 1, 2), (2, 3), (3, 4, 5, 6, 7)], [10])
    show("gaps_in_sizes", [[0, 1], [1, 2, 3, 4, 5], [4, 5, 6, 7, 8, 9, 10]], [9, 100])
    show("only_big", [[0, 1, 2, 3, 4, 5], [3, 4, 5, 6, 7, 8]], [4, 11])
    show("single_edge", [[0, 1]], [3])
    show("singletons", [[0], [1], [0, 1]], [5])
    show("repeat_vertex", [[0, 0, 1], [1, 2]], [5])
    show("empty", [], [1])
    show("empty_clique", [[], [0, 1]], [3])
    show("base2", [[2, 3], [3, 4, 5]], [3])
    show("noncontig", [[0, 1], [1, 5, 7]], [3])
    for idx, (n, m, sizes, base) in enumerate([
        (30, 40, [2, 3], 0),
        (30, 40, [2, 3], 1),
        (100, 150, [2, 3, 4, 7], 0),
        (100, 150, [3, 5, 9], 1),
        (500, 900, [2, 4, 6, 8, 10], 0),
    ]):
        cover = random_cover(rng, n, m, sizes, base)
        show(f"rand{idx}", cover, [n, 2 * n + 1])

    # generation end to end: sample from the cover and build with clique motifs
    from collections import Counter
    from gcmpy.gcm_algorithm.gcm_algorithm_fast import GCMAlgorithmFast
    from gcmpy.motif_generators.clique_motif import clique_motif
    from gcmpy.names.gcm_algorithm_names import GCMAlgorithmNames

    cover = random_cover(rng, 60, 80, [2, 3, 5], 0)
    jd = JointDegreeCover({JointDegreeNames.COVER: cover})
    jds = jd.sample_jds_from_jdd(200)
    params = {
        GCMAlgorithmNames.MOTIF_SIZES: jd.motif_sizes,
        GCMAlgorithmNames.BUILD_FUNCTIONS: [clique_motif] * len(jd.motif_sizes),
        GCMAlgorithmNames.EDGE_NAMES: [f"{k}-clique" for k in jd.motif_sizes],
    }
    el = GCMAlgorithmFast(params).random_clustered_graph(jds)
    print("gen", "edges", len(el.edge_list), "edge_digest", digest(el.edge_list),
          "topo", sorted(Counter(el.topologies).items()),
          "motif_digest", digest(el.motif_id), "rand_after", random.random())


if __name__ == "__main__":
    main()
