import sys, os; sys.path.insert(0, os.getcwd())
import random, hashlib, fractions
import numpy as np

random.seed(1603)
np.random.seed(1603)

from gcmpy.message_passing import number_connected_graphs as M
from gcmpy.message_passing.number_connected_graphs import Q, QQ, binomial
from gcmpy.message_passing.equations.clique_equation import clique_equation

out = []


def call(tag, f, *args):
    try:
        r = f(*args)
        out.append("%s -> %s %r" % (tag, type(r).__name__, r))
    except BaseException as e:
        out.append("%s !! %s" % (tag, type(e).__name__))


def caches(tag):
    out.append("%s Q=%r bin=%r" % (tag, Q.cache_info(), binomial.cache_info()))


# cold-cache single calls first, in a scrambled order, cache statistics after each
pairs = [(n, k) for n in range(-3, 11) for k in range(-3, n * (n - 1) // 2 + 4)]
random.shuffle(pairs)
for n, k in pairs:
    call("Q(%d,%d)" % (n, k), Q, n, k)
    if (n + k) % 7 == 0:
        caches("after")
caches("sweep1")
for n, k in pairs[:200]:
    call("again Q(%d,%d)" % (n, k), Q, n, k)
caches("sweep2")

# larger orders, and the uncached function body
for n in (11, 12, 14, 17, 20):
    for k in sorted({n - 2, n - 1, n, n + 1, 2 * n, n * (n - 1) // 4, n * (n - 1) // 2 - 1,
                     n * (n - 1) // 2, n * (n - 1) // 2 + 1}):
        call("big Q(%d,%d)" % (n, k), Q, n, k)
        call("raw Q(%d,%d)" % (n, k), Q.__wrapped__, n, k)
caches("big")

# agreement data with the brute-force counter
for n in range(0, 6):
    for k in range(-1, n * (n - 1) // 2 + 2):
        call("QQ(%d,%d)" % (n, k), QQ, n, k)

# other integer-like and invalid argument types
odd = [
    (True, 0), (True, True), (False, 0), (4, True), (np.int64(5), 6), (5, np.int64(6)),
    (np.int64(5), np.int64(7)), (np.int32(6), np.int32(9)), (np.uint8(5), np.uint8(6)),
    (4.0, 4), (4, 4.0), (4, 5.0), (4.0, 5.0), (4, 4.5), (4.5, 5), (5, 6.0), (5.0, 6),
    (4, float("nan")), (float("nan"), 4), (4, float("inf")), (float("inf"), 4),
    (fractions.Fraction(4), 5), (4, fractions.Fraction(5)), (4, fractions.Fraction(9, 2)),
    ("4", 5), (4, "5"), (None, 5), (4, None), ([4], 5), (4, [5]), (4, 5j), (4j, 5),
    ((4,), 5), (4, (5,)), (4,), (4, 5, 6), (),
    (-1, 0), (-1, 1), (-2, 1), (-2, 3), (-5, 2), (0, 0), (0, -1), (1, 0), (2, 1), (2, 2),
]
for a in odd:
    call("odd Q%r" % (a,), Q, *a)
    call("oddraw Q%r" % (a,), Q.__wrapped__, *a)
caches("odd")

Q.cache_clear()
binomial.cache_clear()
caches("cleared")
for n in range(1, 9):
    for k in range(n * (n - 1) // 2, -2, -1):
        call("desc Q(%d,%d)" % (n, k), Q, n, k)
    caches("desc n=%d" % n)

# through the public consumer of Q
for tau in range(1, 8):
    Hs = [random.random() for _ in range(tau - 1)]
    call("clique tau=%d" % tau, clique_equation, tau, random.random(), Hs)
caches("clique")

out.append("rng " + hashlib.sha256(repr(random.getstate()).encode()).hexdigest())
out.append("nprng " + hashlib.sha256(repr(np.random.get_state()).encode()).hexdigest())
print("\n".join(out))
print("digest", hashlib.sha256("\n".join(out).encode()).hexdigest())
