"""
Equivalence digest for the C13 refactoring (mixing-matrix extractors).

Run with cwd = a checkout of gcmpy.  Prints a deterministic transcript of the
results of every refactored function on a battery of inputs, of the mutated
inputs / object state afterwards, and of the RNG states at the end.
"""
import hashlib
import os
import random
import sys

# set iteration order of str-containing keys depends on the per-process hash
# seed: pin it so that the transcript is deterministic across runs.
if os.environ.get("PYTHONHASHSEED") != "0":
    os.environ["PYTHONHASHSEED"] = "0"
    os.execv(sys.executable, [sys.executable] + sys.argv)

sys.path.insert(0, os.getcwd())

import networkx as nx  # noqa: E402
import numpy as np  # noqa: E402

from gcmpy.names.network_names import NetworkNames  # noqa: E402
from gcmpy.names.tools_names import ToolsNames  # noqa: E402
from gcmpy.tools.joint_excess_degree import JointExcessDegree  # noqa: E402
from gcmpy.tools.joint_excess_joint_degree import JointExcessJointDegree  # noqa: E402
from gcmpy.tools.joint_excess_joint_degree_matrices import (  # noqa: E402
    JointExcessJointDegreeMatrices,
)

random.seed(20261003)
np.random.seed(20261003)

_ALL = hashlib.sha256()


def emit(label, value):
    text = f"{label}: {value!r}"
    _ALL.update(text.encode())
    if len(text) > 600:
        text = text[:600] + f"...<{len(text)} chars sha={hashlib.sha256(text.encode()).hexdigest()}>"
    print(text)


def attempt(label, fn):
    try:
        out = fn()
    except BaseException as exc:  # noqa: B902
        ctx = exc.__context__
        emit(label, ("RAISED", type(exc).__name__, str(exc), type(ctx).__name__ if ctx is not None else None))
        return None
    emit(label, out)
    return out


def graph_state(G):
    if G is None:
        return None
    return (
        type(G).__name__,
        [(n, repr(sorted(((str(k), repr(v)) for k, v in d.items())))) for n, d in G.nodes(data=True)],
        [tuple(e[:-1]) + (repr(sorted(((str(k), repr(v)) for k, v in e[-1].items()))),) for e in G.edges(data=True)],
    )


def ordered(d):
    """dict -> list of items, insertion order kept (order is part of the digest)"""
    if isinstance(d, dict):
        return [(k, ordered(v)) for k, v in d.items()]
    return d


def extractor_state(C):
    return {
        "num_edges": ordered(C._num_edges),
        "degree_keys": (type(C._degree_keys).__name__, list(C._degree_keys)),
        "excess_degree_keys": ordered(C._excess_degree_keys),
        "topology_names": C._topology_names,
        "ejks_is_none": C._ejks is None,
    }


def matrices_state(M):
    return {
        "type": type(M).__name__,
        "ejks": ordered(M.ejks),
        "ejks_type": type(M.ejks).__name__,
        "excess_degree_keys": ordered(M.excess_degree_keys),
        "topology_names": M.topology_names,
    }


# --------------------------------------------------------------------------
# 1. JointExcessDegree.get_ejk (overall degrees)
# --------------------------------------------------------------------------
def overall_graphs():
    yield "empty", nx.Graph()
    G = nx.Graph()
    G.add_nodes_from(range(4))
    yield "isolated", G
    yield "single_edge", nx.path_graph(2)
    yield "path5", nx.path_graph(5)
    yield "star6", nx.star_graph(6)
    yield "complete5", nx.complete_graph(5)
    yield "cycle7", nx.cycle_graph(7)
    G = nx.path_graph(4)
    G.add_edge(1, 1)
    G.add_edge(3, 3)
    yield "selfloops", G
    yield "digraph", nx.gnp_random_graph(12, 0.3, seed=5, directed=True)
    M = nx.MultiGraph()
    M.add_edges_from([(0, 1), (0, 1), (1, 2), (2, 2), (2, 3)])
    yield "multigraph", M
    for seed in range(4):
        yield f"gnp_{seed}", nx.gnp_random_graph(30 + 10 * seed, 0.12, seed=seed)
    yield "ba", nx.barabasi_albert_graph(60, 3, seed=11)
    G = nx.Graph()
    G.add_edges_from([("b", "a"), ("a", "c"), ("c", "b"), ("c", "d")])
    yield "string_nodes", G


print("== JointExcessDegree.get_ejk ==")
for name, G in overall_graphs():
    before = graph_state(G)
    first = attempt(f"JED[{name}]", lambda: ordered(JointExcessDegree.get_ejk(G)))
    second = attempt(f"JED[{name}] again", lambda: ordered(JointExcessDegree.get_ejk(G)))
    emit(f"JED[{name}] repeatable", first == second)
    emit(f"JED[{name}] input untouched", before == graph_state(G))
    if first:
        emit(f"JED[{name}] sum", sum(v for _, v in first))
attempt("JED[None]", lambda: JointExcessDegree.get_ejk(None))
attempt("JED[dict]", lambda: JointExcessDegree.get_ejk({0: [1]}))


# --------------------------------------------------------------------------
# 2. JointExcessJointDegree on annotated networks
# --------------------------------------------------------------------------
def annotate(G, names, rng, container=tuple, consistent=True, skip=()):
    """give every edge a topology and every vertex its joint degree"""
    usable = [n for n in names if n not in skip]
    for e in G.edges():
        G.edges[e][NetworkNames.TOPOLOGY] = rng.choice(usable)
    for n in G.nodes():
        jd = [0] * len(names)
        for nb in G[n]:
            jd[names.index(G.edges[n, nb][NetworkNames.TOPOLOGY])] += 1
        if not consistent:
            jd = [x + rng.randint(0, 2) for x in jd]
        G.nodes[n][NetworkNames.JOINT_DEGREE] = container(jd)
    return G


def annotated_networks():
    rng = random.Random(77)
    two = ["2-clique", "3-clique"]
    three = ["a", "b", "c"]
    yield "empty", nx.Graph(), two
    G = nx.Graph()
    G.add_nodes_from(range(3))
    for n in G:
        G.nodes[n][NetworkNames.JOINT_DEGREE] = (0, 0)
    yield "isolated", G, two
    yield "single_edge", annotate(nx.path_graph(2), two, rng), two
    yield "path6", annotate(nx.path_graph(6), two, rng), two
    yield "cycle8_one_topology", annotate(nx.cycle_graph(8), ["only"], rng), ["only"]
    yield "complete6", annotate(nx.complete_graph(6), three, rng), three
    yield "star", annotate(nx.star_graph(9), two, rng), two
    yield "unused_topology", annotate(nx.gnp_random_graph(25, 0.2, seed=3), three, rng, skip=("b",)), three
    yield "no_names", annotate(nx.path_graph(4), two, rng), []
    yield "names_subset", annotate(nx.gnp_random_graph(20, 0.25, seed=8), three, rng), ["a", "b"]
    yield "unknown_name", annotate(nx.path_graph(5), two, rng), ["2-clique", "nope"]
    yield "duplicate_names", annotate(nx.path_graph(5), two, rng), ["2-clique", "2-clique"]
    yield "list_jd", annotate(nx.gnp_random_graph(18, 0.3, seed=2), two, rng, container=list), two
    yield "numpy_jd", annotate(nx.gnp_random_graph(18, 0.3, seed=4), two, rng, container=np.array), two
    yield "inconsistent_jd", annotate(nx.gnp_random_graph(30, 0.15, seed=6), three, rng, consistent=False), three
    G = annotate(nx.path_graph(5), two, rng)
    G.add_edge(2, 2)
    G.edges[2, 2][NetworkNames.TOPOLOGY] = "3-clique"
    yield "selfloop", G, two
    for seed in range(5):
        names = [f"t{k}" for k in range(1 + seed % 4)]
        yield f"gnp_{seed}", annotate(nx.gnp_random_graph(40 + 25 * seed, 0.08, seed=seed), names, rng), names
    yield "big", annotate(nx.gnp_random_graph(400, 0.03, seed=99), ["w", "x", "y", "z"], rng), ["w", "x", "y", "z"]
    yield "digraph", annotate(nx.gnp_random_graph(15, 0.2, seed=1, directed=True).to_undirected().to_directed(), two, rng), two


def check_law(G, names, ejks):
    """independent recomputation of the stated property, as plain facts"""
    facts = []
    for i, name in enumerate(names):
        ejk = ejks.ejks.get(name, {})
        facts.append(
            (
                name,
                "sum",
                sum(ejk.values()),
                "symmetric",
                all(
                    ejk.get(k[len(k) // 2:] + k[: len(k) // 2]) == v
                    for k, v in ejk.items()
                ),
            )
        )
    return facts


print("== JointExcessJointDegree ==")
for label, G, names in annotated_networks():
    params = {ToolsNames.NETWORK: G, ToolsNames.EDGE_NAMES: names}
    before = graph_state(G)
    names_before = list(names)
    holder = {}

    def build():
        holder["C"] = JointExcessJointDegree(params)
        return extractor_state(holder["C"])

    attempt(f"JEJD[{label}] init", build)
    C = holder.get("C")
    if C is None:
        continue
    # direct get_ejk before any counting (edge counter still empty)
    for i, name in enumerate(names[:2]):
        attempt(f"JEJD[{label}] get_ejk-before-count {i}", lambda: ordered(C.get_ejk(i, name)))
    attempt(f"JEJD[{label}] count_edge_types", lambda: (C.count_edge_types(), ordered(C._num_edges)))
    for i, name in enumerate(names):
        attempt(f"JEJD[{label}] get_ejk {i}", lambda: ordered(C.get_ejk(i, name)))
    # wrong index / unknown name
    attempt(f"JEJD[{label}] get_ejk bad index", lambda: ordered(C.get_ejk(7, names[0] if names else "q")))
    attempt(f"JEJD[{label}] get_ejk neg index", lambda: ordered(C.get_ejk(-1, names[0] if names else "q")))
    attempt(f"JEJD[{label}] get_ejk unknown", lambda: ordered(C.get_ejk(0, "__unknown__")))

    r1 = attempt(f"JEJD[{label}] get_ejks #1", lambda: matrices_state(C.get_ejks()))
    m1 = C._ejks
    emit(f"JEJD[{label}] state #1", extractor_state(C))
    r2 = attempt(f"JEJD[{label}] get_ejks #2", lambda: matrices_state(C.get_ejks()))
    m2 = C._ejks
    emit(f"JEJD[{label}] repeatable", r1 == r2)
    emit(f"JEJD[{label}] fresh object per call", (m1 is not m2, m1 is not None and m2 is not None))
    if m2 is not None:
        emit(
            f"JEJD[{label}] aliasing",
            (
                m2.excess_degree_keys is C._excess_degree_keys,
                m2.topology_names is C._topology_names,
                C.get_ejks() is C._ejks,
            ),
        )
        attempt(f"JEJD[{label}] law", lambda: check_law(G, names, m2))
    attempt(f"JEJD[{label}] resolve again", lambda: (C.resolve_excess_degree_keys(), ordered(C._excess_degree_keys)))
    emit(f"JEJD[{label}] graph untouched", before == graph_state(G))
    emit(f"JEJD[{label}] params untouched", (list(params), names == names_before))

    # mutate the network and ask again: the edge counter must follow
    if G.number_of_nodes() >= 2 and names:
        nodes = list(G.nodes())
        u, v = nodes[0], nodes[-1]
        if not G.has_edge(u, v):
            G.add_edge(u, v)
            G.edges[u, v][NetworkNames.TOPOLOGY] = names[0]
            for n in (u, v):
                jd = list(G.nodes[n][NetworkNames.JOINT_DEGREE])
                jd[0] += 1
                G.nodes[n][NetworkNames.JOINT_DEGREE] = tuple(jd)
        else:
            G.remove_edge(u, v)
        attempt(f"JEJD[{label}] get_ejks after mutation", lambda: matrices_state(C.get_ejks()))
        emit(f"JEJD[{label}] state after mutation", extractor_state(C))

# error paths of the extractor
print("== JointExcessJointDegree error paths ==")
attempt("JEJD[no params]", lambda: JointExcessJointDegree({}))
attempt("JEJD[no names]", lambda: JointExcessJointDegree({ToolsNames.NETWORK: nx.path_graph(3)}))
attempt("JEJD[None]", lambda: JointExcessJointDegree(None))
attempt(
    "JEJD[unannotated vertices]",
    lambda: JointExcessJointDegree({ToolsNames.NETWORK: nx.path_graph(3), ToolsNames.EDGE_NAMES: ["a"]}),
)
attempt(
    "JEJD[network None]",
    lambda: JointExcessJointDegree({ToolsNames.NETWORK: None, ToolsNames.EDGE_NAMES: ["a"]}),
)
attempt(
    "JEJD[names None]",
    lambda: JointExcessJointDegree({ToolsNames.NETWORK: nx.Graph(), ToolsNames.EDGE_NAMES: None}),
)
attempt(
    "JEJD[short joint degree]",
    lambda: JointExcessJointDegree(
        {
            ToolsNames.NETWORK: annotate(nx.path_graph(3), ["a"], random.Random(1)),
            ToolsNames.EDGE_NAMES: ["a", "b"],
        }
    ),
)

# vertices annotated, edges partly not: counting fails half-way
G = annotate(nx.path_graph(6), ["a", "b"], random.Random(3))
del G.edges[2, 3][NetworkNames.TOPOLOGY]
C = JointExcessJointDegree({ToolsNames.NETWORK: G, ToolsNames.EDGE_NAMES: ["a", "b"]})
C._num_edges = {"stale": 99}
attempt("JEJD[edge without topology] count", lambda: C.count_edge_types())
emit("JEJD[edge without topology] counter after failure", ordered(C._num_edges))
C._num_edges = {"stale": 99}
attempt("JEJD[edge without topology] get_ejks", lambda: matrices_state(C.get_ejks()))
emit("JEJD[edge without topology] state after failure", extractor_state(C))
emit("JEJD[edge without topology] matrices after failure", matrices_state(C._ejks) if C._ejks is not None else None)
attempt("JEJD[edge without topology] get_ejk", lambda: ordered(C.get_ejk(0, "a")))

# an edge whose end has lost its joint degree after construction
G = annotate(nx.path_graph(5), ["a"], random.Random(4))
C = JointExcessJointDegree({ToolsNames.NETWORK: G, ToolsNames.EDGE_NAMES: ["a"]})
del G.nodes[3][NetworkNames.JOINT_DEGREE]
attempt("JEJD[vertex lost joint degree] get_ejks", lambda: matrices_state(C.get_ejks()))
emit("JEJD[vertex lost joint degree] state", extractor_state(C))
emit("JEJD[vertex lost joint degree] matrices", matrices_state(C._ejks))

# multigraph input (edge lookup by pair is not supported by networkx)
M = nx.MultiGraph()
M.add_edge(0, 1)
for n in M:
    M.nodes[n][NetworkNames.JOINT_DEGREE] = (1,)
attempt(
    "JEJD[multigraph]",
    lambda: matrices_state(JointExcessJointDegree({ToolsNames.NETWORK: M, ToolsNames.EDGE_NAMES: ["a"]}).get_ejks()),
)

# stale counter is discarded on every query
G = annotate(nx.cycle_graph(6), ["a", "b"], random.Random(5))
C = JointExcessJointDegree({ToolsNames.NETWORK: G, ToolsNames.EDGE_NAMES: ["a", "b"]})
C._num_edges = {"a": 1000, "b": 1000, "ghost": 1}
attempt("JEJD[stale counter] get_ejks", lambda: matrices_state(C.get_ejks()))
emit("JEJD[stale counter] state", extractor_state(C))

# a real configuration-model network produced by the library itself
print("== library generated network ==")


def library_network():
    from gcmpy.gcm_algorithm.gcm_algorithm_network import GCMAlgorithmNetwork
    from gcmpy.joint_degree.joint_degree_loaders.joint_degree_manual import JointDegreeManual
    from gcmpy.motif_generators.clique_motif import clique_motif
    from gcmpy.names.gcm_algorithm_names import GCMAlgorithmNames
    from gcmpy.names.joint_degree_names import JointDegreeNames

    jdd = {(5, 1): 1 / 3, (3, 2): 1 / 3, (1, 3): 1 / 3}
    loader = JointDegreeManual({JointDegreeNames.JDD: jdd, JointDegreeNames.MOTIF_SIZES: [2, 3]})
    jds = loader.sample_jds_from_jdd(600)
    g = GCMAlgorithmNetwork(
        {
            GCMAlgorithmNames.MOTIF_SIZES: [2, 3],
            GCMAlgorithmNames.EDGE_NAMES: ["2-clique", "3-clique"],
            GCMAlgorithmNames.BUILD_FUNCTIONS: [clique_motif, clique_motif],
        }
    ).random_clustered_graph(jds)
    return g._G


try:
    G = library_network()
    names = ["2-clique", "3-clique"]
    before = graph_state(G)
    C = JointExcessJointDegree({ToolsNames.NETWORK: G, ToolsNames.EDGE_NAMES: names})
    emit("lib init", extractor_state(C))
    r1 = matrices_state(C.get_ejks())
    emit("lib get_ejks", r1)
    emit("lib repeatable", r1 == matrices_state(C.get_ejks()))
    emit("lib law", check_law(G, names, C._ejks))
    emit("lib overall", ordered(JointExcessDegree.get_ejk(G)))
    emit("lib graph untouched", before == graph_state(G))
    # round trip through the matrices constructor
    M = JointExcessJointDegreeMatrices({ToolsNames.EJKS: C._ejks.ejks, ToolsNames.EDGE_NAMES: names})
    emit("lib matrices round trip", matrices_state(M))
    emit(
        "lib same key sets",
        [sorted(M.excess_degree_keys[n]) == sorted(C._ejks.excess_degree_keys[n]) for n in names],
    )
except Exception as exc:  # pragma: no cover
    emit("library network failed", (type(exc).__name__, str(exc)))


# --------------------------------------------------------------------------
# 3. JointExcessJointDegreeMatrices
# --------------------------------------------------------------------------
print("== JointExcessJointDegreeMatrices ==")
M = JointExcessJointDegreeMatrices()
emit("JEJDM[default]", matrices_state(M))
attempt("JEJDM[default] index on empty names", lambda: M.get_topology_index("a"))
attempt("JEJDM[default] get_excess_degree_keys", lambda: (M.get_excess_degree_keys(), matrices_state(M)))
M.topology_names = ["x", "y", "x"]
attempt("JEJDM index x", lambda: M.get_topology_index("x"))
attempt("JEJDM index y", lambda: M.get_topology_index("y"))
attempt("JEJDM index missing", lambda: M.get_topology_index("z"))
M.ejks = {"x": {(1, 2, 3, 4): 0.5, (3, 4, 1, 2): 0.5}}
M.excess_degree_keys = {"x": [(9, 9)]}
emit("JEJDM setters", matrices_state(M))
attempt("JEJDM recompute keys", lambda: (M.get_excess_degree_keys(), matrices_state(M)))

matrix_inputs = {
    "empty": {},
    "empty_topology": {"a": {}},
    "pairs": {"a": {(0, 1): 0.25, (1, 0): 0.25, (1, 1): 0.5}},
    "two_topologies": {
        "2-clique": {(0, 3, 0, 3): 0.1, (0, 3, 4, 1): 0.2, (4, 1, 0, 3): 0.2, (4, 1, 4, 1): 0.5},
        "3-clique": {(3, 1, 3, 1): 0.4, (3, 1, 1, 2): 0.3, (1, 2, 3, 1): 0.3},
    },
    "odd_length": {"a": {(1, 2, 3): 1.0, (5,): 0.0, (): 0.0}},
    "string_keys": {"a": {"abcd": 0.5, "xyz": 0.5, "": 0.0}},
    "list_values": {"a": [(1, 2), (3, 4, 5, 6)]},
    "frozenset_keys": {"a": {frozenset([1, 2]): 1.0}},
    "mixed_widths": {"a": {(1, 2): 0.5, (1, 0, 2, 0): 0.5}, "b": {(7, 7, 7, 7, 7, 7): 1.0}},
    "numpy_ints": {"a": {(np.int64(1), np.int64(2)): 1.0}},
    "many": {
        "t": {
            (a, b, c, d): 1.0
            for a in range(7)
            for b in range(5)
            for c in range(7)
            for d in range(5)
            if (a * 3 + b * 5 + c * 7 + d) % 4 == 0
        }
    },
}
for label, ejks in matrix_inputs.items():
    params = {ToolsNames.EJKS: ejks, ToolsNames.EDGE_NAMES: list(ejks)}
    snapshot = repr(ordered(ejks)) if isinstance(ejks, dict) else repr(ejks)
    holder = {}

    def build():
        holder["M"] = JointExcessJointDegreeMatrices(params)
        return matrices_state(holder["M"])

    attempt(f"JEJDM[{label}] init", build)
    M = holder.get("M")
    if M is not None:
        emit(f"JEJDM[{label}] aliasing", (M.ejks is ejks, M.topology_names is params[ToolsNames.EDGE_NAMES]))
        attempt(f"JEJDM[{label}] again", lambda: (M.get_excess_degree_keys(), ordered(M.excess_degree_keys)))
        for n in list(ejks)[:2]:
            attempt(f"JEJDM[{label}] index {n}", lambda: M.get_topology_index(n))
    emit(f"JEJDM[{label}] input untouched", snapshot == (repr(ordered(ejks)) if isinstance(ejks, dict) else repr(ejks)))

attempt("JEJDM[missing ejks]", lambda: JointExcessJointDegreeMatrices({ToolsNames.EDGE_NAMES: []}))
attempt("JEJDM[missing names]", lambda: JointExcessJointDegreeMatrices({ToolsNames.EJKS: {}}))
attempt("JEJDM[ejks None]", lambda: JointExcessJointDegreeMatrices({ToolsNames.EJKS: None, ToolsNames.EDGE_NAMES: []}))
attempt(
    "JEJDM[inner None]",
    lambda: JointExcessJointDegreeMatrices({ToolsNames.EJKS: {"a": None}, ToolsNames.EDGE_NAMES: ["a"]}),
)
attempt(
    "JEJDM[int key]",
    lambda: JointExcessJointDegreeMatrices({ToolsNames.EJKS: {"a": {3: 1.0}}, ToolsNames.EDGE_NAMES: ["a"]}),
)
# partial state after a failure half-way through the topologies
M = JointExcessJointDegreeMatrices()
M.ejks = {"good": {(1, 2): 1.0}, "bad": {3: 1.0}, "never": {(4, 5): 1.0}}
M.excess_degree_keys = {"old": [(0,)]}
attempt("JEJDM[partial failure]", lambda: M.get_excess_degree_keys())
emit("JEJDM[partial failure] state", matrices_state(M))


# --------------------------------------------------------------------------
# RNG states afterwards
# --------------------------------------------------------------------------
print("== rng ==")
emit("random state", hashlib.sha256(repr(random.getstate()).encode()).hexdigest())
st = np.random.get_state()
emit("numpy state", hashlib.sha256(repr((st[0], st[1].tolist(), st[2], st[3], st[4])).encode()).hexdigest())
emit("next draws", (random.random(), float(np.random.random())))
print("TOTAL", _ALL.hexdigest())
