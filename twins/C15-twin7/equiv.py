import sys, os; sys.path.insert(0, os.getcwd())

# str hashes (hence set iteration orders over string-named vertices) are randomised
# per process: pin the hash seed so the digest is reproducible.
if os.environ.get("PYTHONHASHSEED") != "0":
    os.execve(sys.executable, [sys.executable] + sys.argv, dict(os.environ, PYTHONHASHSEED="0"))

import hashlib
import random
from fractions import Fraction

import numpy as np
import networkx as nx

from gcmpy.message_passing.equations.automated_equation import AutomatedEquation
from gcmpy.message_passing.equations import AutomatedEquation as AE2
from gcmpy.message_passing.message_passing import MessagePassing

random.seed(12345)
np.random.seed(12345)

assert AE2 is AutomatedEquation

LINES = []


def emit(*parts):
    line = " | ".join(str(x) for x in parts)
    LINES.append(line)
    print(line)


def show(v):
    """Deterministic, bit exact rendering that preserves container iteration order."""
    if isinstance(v, float):
        return f"float:{v!r}:{v.hex()}"
    if isinstance(v, (set, frozenset)):
        return "set<" + ",".join(show(x) for x in v) + ">"
    if isinstance(v, (list, tuple)):
        return type(v).__name__ + "[" + ",".join(show(x) for x in v) + "]"
    if isinstance(v, dict):
        return "dict{" + ",".join(f"{show(k)}=>{show(x)}" for k, x in v.items()) + "}"
    if isinstance(v, np.ndarray):
        return f"nd:{v.dtype}:{v.tolist()!r}"
    return f"{type(v).__name__}:{v!r}"


def graph_state(G):
    return show(
        [
            type(G).__name__,
            G.name,
            [(n, dict(d)) for n, d in G.nodes(data=True)],
            [tuple(e) for e in G.edges(data=True)],
            dict(G.graph),
        ]
    )


def obj_state(ae):
    # private caches, in attribute creation order, without naming them
    return show([v for v in vars(ae).values()])


def call(tag, fn, *args):
    try:
        out = fn(*args)
        emit(tag, "OK", show(out))
        return out
    except BaseException as exc:  # noqa
        emit(tag, "EXC", type(exc).__module__ + "." + type(exc).__name__, repr(exc.args))
        return None


def with_u(G, us, name=None):
    H = G.copy()
    if name is not None:
        H.name = name
    nx.set_node_attributes(H, us, "u")
    return H


def motifs():
    out = []
    out.append(("edge", nx.path_graph(2)))
    out.append(("path3", nx.path_graph(3)))
    out.append(("path4", nx.path_graph(4)))
    out.append(("tri", nx.complete_graph(3)))
    out.append(("square", nx.cycle_graph(4)))
    out.append(("c5", nx.cycle_graph(5)))
    out.append(("k4", nx.complete_graph(4)))
    out.append(("k5", nx.complete_graph(5)))
    out.append(("star4", nx.star_graph(4)))
    d = nx.Graph()
    d.add_edges_from([(0, 1), (1, 2), (2, 3), (3, 0), (0, 2)])
    out.append(("diamond", d))
    b = nx.Graph()
    b.add_edges_from([(0, 1), (1, 2), (2, 0), (2, 3), (3, 4), (4, 2)])
    out.append(("bowtie", b))
    h = nx.Graph()
    h.add_edges_from([(10, 3), (3, 7), (7, 10), (7, 22), (22, 35), (35, 3), (35, 64), (64, 10)])
    out.append(("sparse_ids", h))
    s = nx.Graph()
    s.add_edges_from([("a", "b"), ("b", "c"), ("c", "a"), ("c", "d")])
    out.append(("strings", s))
    t = nx.Graph()
    t.add_edges_from([((0, 0), (0, 1)), ((0, 1), (1, 1)), ((1, 1), (0, 0)), ((1, 1), (2, 2))])
    out.append(("tuples", t))
    w = nx.wheel_graph(6)
    out.append(("wheel6", w))
    k33 = nx.complete_bipartite_graph(3, 3)
    out.append(("k33", k33))
    big = nx.Graph()
    big.add_edges_from([(8, 16), (16, 24), (24, 8), (24, 32), (32, 40), (40, 8), (0, 8)])
    out.append(("mult8", big))
    return out


PHIS = [0.0, 1.0, 0.5, 0.1, 0.3, 0.7310585786300049, 1e-12, 0.999999999, 1.5, -0.25]

# ---------------------------------------------------------------- section 1
emit("== section 1: one evaluator, many motifs / roots / phis / us")
ae = AutomatedEquation()
for name, G in motifs():
    nodes = list(G.nodes())
    for trial in range(2):
        us = {n: random.random() for n in nodes}
        for root in nodes[:3] + nodes[-1:]:
            H = with_u(G, us, f"{name}")
            before = graph_state(H)
            for phi in (PHIS if trial == 0 else [random.random(), float(np.random.rand())]):
                call(f"s1 {name} t{trial} root={root!r} phi={phi!r}", ae.automated_equation, H, phi, root)
            emit(f"s1 {name} root={root!r} input-unchanged", before == graph_state(H))
emit("s1 state-hash", hashlib.sha256(obj_state(ae).encode()).hexdigest())

# ---------------------------------------------------------------- section 2
emit("== section 2: fresh evaluator per call vs shared evaluator, reversed order")
shared = AutomatedEquation()
for name, G in reversed(motifs()):
    nodes = list(G.nodes())
    us = {n: float(np.random.rand()) for n in nodes}
    for root in reversed(nodes):
        H = with_u(G, us, f"m-{name}")
        phi = random.random()
        a = call(f"s2 shared {name} root={root!r}", shared.automated_equation, H, phi, root)
        b = call(f"s2 fresh  {name} root={root!r}", AutomatedEquation().automated_equation, H, phi, root)
        emit("s2 same", repr(a) == repr(b))
        # repeat on the same object: caches are hit now
        call(f"s2 again  {name} root={root!r}", shared.automated_equation, H, phi, root)
emit("s2 state", obj_state(shared)[:4000])
emit("s2 state-hash", hashlib.sha256(obj_state(shared).encode()).hexdigest())

# ---------------------------------------------------------------- section 3
emit("== section 3: public helpers directly")
ae = AutomatedEquation()
for name, G in motifs():
    H = with_u(G, {n: 0.25 + 0.5 * i / (len(G) + 1) for i, n in enumerate(G.nodes())}, f"h-{name}")
    nodes = list(H.nodes())
    for root in (nodes[0], nodes[-1]):
        comps = call(f"s3 subgraphs {name} root={root!r}", ae.get_connected_subgraphs, H, root)
        again = ae.get_connected_subgraphs(H, root)
        emit("s3 cached identity", again is comps)
        call(f"s3 us {name} root={root!r}", ae.get_us, H, root)
    call(f"s3 us-absent-root {name}", ae.get_us, H, "not-a-node")
    if H.number_of_edges() <= 9:
        combos = call(f"s3 combos {name}", ae.get_edge_combinations, H, list(H.nodes()))
        again = ae.get_edge_combinations(H, list(H.nodes()))
        emit("s3 combos cached identity", again is combos)
        call(f"s3 combos-otherkey {name}", ae.get_edge_combinations, H, [0])
emit("s3 state-hash", hashlib.sha256(obj_state(ae).encode()).hexdigest())

# ---------------------------------------------------------------- section 4
emit("== section 4: name collisions / unnamed graphs / stale cache behaviour")
ae = AutomatedEquation()
tri = with_u(nx.complete_graph(3), {0: 0.3, 1: 0.6, 2: 0.9})  # name ''
sq = with_u(nx.cycle_graph(4), {0: 0.2, 1: 0.4, 2: 0.6, 3: 0.8})  # name ''
call("s4 tri unnamed", ae.automated_equation, tri, 0.4, 0)
call("s4 square unnamed after tri", ae.automated_equation, sq, 0.4, 0)
call("s4 square unnamed fresh", AutomatedEquation().automated_equation, sq, 0.4, 0)
call("s4 tri unnamed again", ae.automated_equation, tri, 0.4, 0)
call("s4 tri root1", ae.automated_equation, tri, 0.4, 1)
emit("s4 state", obj_state(ae))
# same name, new u values: value must follow the new u
tri2 = with_u(nx.complete_graph(3), {0: 0.1, 1: 0.2, 2: 0.35})
call("s4 tri new-u", ae.automated_equation, tri2, 0.4, 0)
call("s4 tri new-phi", ae.automated_equation, tri2, 0.9, 0)
# mutate the graph between calls under the same name
g = with_u(nx.path_graph(3), {0: 0.5, 1: 0.5, 2: 0.5}, "mut")
call("s4 mut before", ae.automated_equation, g, 0.3, 0)
g.add_edge(0, 2)
call("s4 mut after add_edge", ae.automated_equation, g, 0.3, 0)
g.add_node(3, u=0.7)
g.add_edge(2, 3)
call("s4 mut after add_node", ae.automated_equation, g, 0.3, 0)
emit("s4 state2", obj_state(ae))
# caller mutates the returned (cached) list
ae2 = AutomatedEquation()
k = with_u(nx.complete_graph(3), {0: 0.3, 1: 0.6, 2: 0.9}, "k")
lst = ae2.get_connected_subgraphs(k, 0)
lst.reverse()
call("s4 reversed cache", ae2.automated_equation, k, 0.4, 0)
lst.clear()
call("s4 cleared cache", ae2.automated_equation, k, 0.4, 0)
call("s4 cleared cache str phi", ae2.automated_equation, k, "x", 0)
emit("s4 state3", obj_state(ae2))

# ---------------------------------------------------------------- section 5
emit("== section 5: exotic value types")
ae = AutomatedEquation()
k4 = nx.complete_graph(4)
call("s5 int u", ae.automated_equation, with_u(k4, {0: 1, 1: 2, 2: 3, 3: 4}, "int"), 0.5, 0)
call("s5 frac", ae.automated_equation,
     with_u(k4, {n: Fraction(n + 1, 7) for n in k4}, "frac"), Fraction(1, 3), 2)
call("s5 frac tri", ae.automated_equation,
     with_u(nx.complete_graph(3), {n: Fraction(n + 2, 9) for n in range(3)}, "fract"), Fraction(2, 5), 1)
call("s5 complex", ae.automated_equation,
     with_u(k4, {n: complex(0.1 * n, 0.2) for n in k4}, "cplx"), 0.25 + 0.5j, 1)
call("s5 numpy scalar", ae.automated_equation,
     with_u(k4, {n: np.float64(0.1 * (n + 1)) for n in k4}, "npf"), np.float64(0.35), 3)
call("s5 numpy f32", ae.automated_equation,
     with_u(k4, {n: np.float32(0.1 * (n + 1)) for n in k4}, "npf32"), np.float32(0.35), 3)
call("s5 array u", ae.automated_equation,
     with_u(nx.complete_graph(3), {n: np.array([0.1, 0.5, 0.9]) * (n + 1) / 3 for n in range(3)}, "arr"),
     0.35, 0)
call("s5 array phi", ae.automated_equation,
     with_u(nx.cycle_graph(4), {n: 0.2 * (n + 1) for n in range(4)}, "arrphi"),
     np.linspace(0, 1, 5), 0)
call("s5 int array u", ae.automated_equation,
     with_u(nx.complete_graph(3), {n: np.array([1, 2, 3]) for n in range(3)}, "iarr"), 0.35, 0)
call("s5 bool phi", ae.automated_equation,
     with_u(k4, {n: 0.5 for n in k4}, "boolphi"), True, 0)
call("s5 int phi", ae.automated_equation,
     with_u(k4, {n: 0.5 for n in k4}, "intphi"), 2, 0)
call("s5 inf", ae.automated_equation,
     with_u(k4, {n: float("inf") for n in k4}, "inf"), 0.5, 0)
call("s5 nan", ae.automated_equation,
     with_u(k4, {0: 0.5, 1: float("nan"), 2: 0.5, 3: 0.5}, "nan"), 0.5, 0)
call("s5 tiny", ae.automated_equation,
     with_u(k4, {n: 5e-324 for n in k4}, "tiny"), 1e-300, 0)
emit("s5 state-hash", hashlib.sha256(obj_state(ae).encode()).hexdigest())

# ---------------------------------------------------------------- section 6
emit("== section 6: error paths and degenerate graphs")
ae = AutomatedEquation()
tri = with_u(nx.complete_graph(3), {0: 0.3, 1: 0.6, 2: 0.9}, "tri")
call("s6 root missing", ae.automated_equation, tri, 0.5, 99)
emit("s6 state a", obj_state(ae))
call("s6 subgraphs root missing", ae.get_connected_subgraphs, tri, 99)
nou = nx.complete_graph(3)
nou.name = "nou"
call("s6 missing u", ae.automated_equation, nou, 0.5, 0)
emit("s6 state b", obj_state(ae))
call("s6 missing u again", ae.automated_equation, nou, 0.5, 0)
partial = with_u(nx.complete_graph(3), {1: 0.6}, "partial")
call("s6 partial u root0", ae.automated_equation, partial, 0.5, 0)
call("s6 partial u root1", ae.automated_equation, partial, 0.5, 1)
rootonly = with_u(nx.complete_graph(3), {1: 0.6, 2: 0.2}, "rootless-u")
call("s6 u missing only on root", ae.automated_equation, rootonly, 0.5, 0)
call("s6 str phi", ae.automated_equation, tri, "0.5", 0)
call("s6 none phi", ae.automated_equation, tri, None, 0)
call("s6 str u", ae.automated_equation, with_u(nx.complete_graph(3), {0: 0.1, 1: "a", 2: 0.3}, "stru"), 0.5, 0)
call("s6 none u", ae.automated_equation, with_u(nx.complete_graph(3), {0: 0.1, 1: None, 2: 0.3}, "noneu"), 0.5, 0)
emit("s6 state c", obj_state(ae))
single = nx.Graph(name="single")
single.add_node(0, u=0.5)
call("s6 single vertex", ae.automated_equation, single, 0.5, 0)
call("s6 single combos", ae.get_edge_combinations, single, [0])
empty = nx.Graph(name="empty")
call("s6 empty graph", ae.automated_equation, empty, 0.5, 0)
call("s6 empty combos", ae.get_edge_combinations, empty, [])
call("s6 empty us", ae.get_us, empty, 0)
disc = with_u(nx.Graph([(0, 1), (2, 3), (3, 4), (4, 2)]), {n: 0.5 + n / 20 for n in range(5)}, "disc")
call("s6 disconnected root0", ae.automated_equation, disc, 0.4, 0)
call("s6 disconnected root3", ae.automated_equation, disc, 0.4, 3)
call("s6 disconnected combos", ae.get_edge_combinations, disc, [0, 1, 2, 3, 4])
loop = with_u(nx.Graph([(0, 1), (1, 2), (2, 0), (1, 1)]), {0: 0.3, 1: 0.6, 2: 0.9}, "loop")
call("s6 selfloop root0", ae.automated_equation, loop, 0.4, 0)
call("s6 selfloop root1", ae.automated_equation, loop, 0.4, 1)
looponly = nx.Graph(name="looponly")
looponly.add_edge(0, 0)
looponly.nodes[0]["u"] = 0.5
call("s6 only selfloop", ae.automated_equation, looponly, 0.4, 0)
multi = nx.MultiGraph(name="multi")
multi.add_edges_from([(0, 1), (0, 1), (1, 2), (2, 0)])
nx.set_node_attributes(multi, {0: 0.3, 1: 0.6, 2: 0.9}, "u")
call("s6 multigraph", ae.automated_equation, multi, 0.4, 0)
di = nx.DiGraph(name="di")
di.add_edges_from([(0, 1), (1, 2), (2, 0)])
nx.set_node_attributes(di, {0: 0.3, 1: 0.6, 2: 0.9}, "u")
call("s6 digraph", ae.automated_equation, di, 0.4, 0)
call("s6 digraph root1", ae.automated_equation, di, 0.4, 1)
call("s6 not a graph", ae.automated_equation, None, 0.4, 0)
call("s6 not a graph us", ae.get_us, None, 0)
call("s6 unhashable root", ae.automated_equation, tri, 0.4, [0])
frozen = nx.freeze(with_u(nx.complete_graph(3), {0: 0.3, 1: 0.6, 2: 0.9}, "frozen"))
call("s6 frozen", ae.automated_equation, frozen, 0.4, 0)
view = nx.subgraph_view(with_u(nx.complete_graph(5), {n: 0.1 + n / 10 for n in range(5)}, "view"),
                        filter_node=lambda n: n != 4)
call("s6 subgraph view", ae.automated_equation, view, 0.4, 0)
sub = with_u(nx.complete_graph(5), {n: 0.1 + n / 10 for n in range(5)}, "sub").subgraph([0, 1, 3])
call("s6 subgraph", ae.automated_equation, sub, 0.4, 0)
emit("s6 state d", obj_state(ae)[:6000])
emit("s6 state-hash", hashlib.sha256(obj_state(ae).encode()).hexdigest())
call("s6 unbound call", AutomatedEquation.automated_equation, ae, tri, 0.5, 0)
call("s6 unbound get_us", AutomatedEquation.get_us, ae, tri, 0)
call("s6 unbound subgraphs", AutomatedEquation.get_connected_subgraphs, ae, tri, 1)
call("s6 unbound combos", AutomatedEquation.get_edge_combinations, ae, tri, [0, 1, 2])

# ---------------------------------------------------------------- section 7
emit("== section 7: exact bond percolation identity (brute force) on random motifs")


def brute(G, phi, root):
    edges = list(G.edges())
    total = 0.0
    for mask in range(1 << len(edges)):
        kept = [e for i, e in enumerate(edges) if mask >> i & 1]
        H = nx.Graph()
        H.add_nodes_from(G.nodes())
        H.add_edges_from(kept)
        comp = nx.node_connected_component(H, root)
        w = phi ** len(kept) * (1 - phi) ** (len(edges) - len(kept))
        for n in comp:
            if n != root:
                w *= G.nodes[n]["u"]
        total += w
    return total


ae = AutomatedEquation()
count = 0
while count < 25:
    n = random.randint(2, 6)
    m = random.randint(n - 1, min(n * (n - 1) // 2, 9))
    G = nx.gnm_random_graph(n, m, seed=random.randint(0, 10**6))
    if not nx.is_connected(G):
        continue
    relabel = dict(zip(G.nodes(), random.sample(range(50), n)))
    G = nx.relabel_nodes(G, relabel)
    G.name = f"rand-{count}"
    nx.set_node_attributes(G, {v: float(np.random.rand()) for v in G}, "u")
    phi = random.random()
    for root in G.nodes():
        val = call(f"s7 rand-{count} n={n} m={m} root={root}", ae.automated_equation, G, phi, root)
        emit("s7 brute close", abs(val - brute(G, phi, root)) < 1e-12)
    count += 1
emit("s7 state-hash", hashlib.sha256(obj_state(ae).encode()).hexdigest())

# ---------------------------------------------------------------- section 8
emit("== section 8: through MessagePassing")


def covered_network():
    G = nx.Graph()
    uid = 0

    def add_motif(key, vertices, edges):
        nonlocal uid
        label = f"{key}-{list(vertices)}-{list(edges)}-{uid}"
        uid += 1
        for a, b in edges:
            G.add_edge(a, b, CoverLabel=label)

    add_motif(3, [0, 1, 2], [(0, 1), (0, 2), (1, 2)])
    add_motif(3, [2, 3, 4], [(2, 3), (2, 4), (3, 4)])
    add_motif(4, [4, 5, 6, 7], [(4, 5), (5, 6), (6, 7), (7, 4)])
    add_motif(2, [7, 8], [(7, 8)])
    add_motif(5, [8, 9, 10, 11], [(8, 9), (9, 10), (10, 11), (11, 8), (8, 10)])
    add_motif(2, [11, 0], [(11, 0)])
    add_motif(6, [1, 12, 13, 14], [(1, 12), (1, 13), (1, 14), (12, 13), (12, 14), (13, 14)])
    add_motif(2, [14, 6], [(14, 6)])
    return G


net = covered_network()
net_before = graph_state(net)
mp = MessagePassing(net, iterations=6)
for phi in (0.0, 0.2, 0.5, 0.8, 1.0, random.random()):
    call(f"s8 theoretical phi={phi!r}", mp.theoretical, phi)
call("s8 resolve_equation", mp.resolve_equation, 4,
     net.edges[4, 5]["CoverLabel"], {5: 0.3, 6: 0.4, 7: 0.5})
emit("s8 network unchanged", net_before == graph_state(net))
emit("s8 evaluator state-hash",
     hashlib.sha256(obj_state(mp._AE).encode()).hexdigest())
emit("s8 H_tau", show(mp._H_tau))

# ---------------------------------------------------------------- epilogue
emit("== rng state")
emit("random", hashlib.sha256(repr(random.getstate()).encode()).hexdigest(), repr(random.random()))
st = np.random.get_state()
emit("numpy", hashlib.sha256(st[1].tobytes()).hexdigest(), st[2], repr(float(np.random.rand())))
emit("DIGEST", hashlib.sha256("\n".join(LINES).encode()).hexdigest())
