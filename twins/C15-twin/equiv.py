"""
Equivalence digest for gcmpy/message_passing/equations/automated_equation.py.

Run with cwd = a checkout of gcmpy. Prints one line per observation plus a final sha256 over all lines.
Everything printed is deterministic (seeded RNGs, integer vertex labels, repr of floats).
"""
import hashlib
import os
import random
import sys
from fractions import Fraction

sys.path.insert(0, os.getcwd())

import networkx as nx
import numpy as np
from numpy.polynomial import Polynomial

from gcmpy.message_passing.equations.automated_equation import AutomatedEquation
from gcmpy.message_passing.message_passing import MessagePassing  # noqa: F401  (import must keep working)

random.seed(12345)
np.random.seed(12345)

LINES = []


def out(*parts):
    line = " ".join(str(x) for x in parts)
    LINES.append(line)
    print(line)


def named(G, name):
    G = nx.Graph(G) if not G.is_multigraph() else G
    G.name = name
    return G


def set_us(G, rng):
    for n in G.nodes():
        G.nodes[n]["u"] = rng.random()


def motifs():
    ms = []
    ms.append(named(nx.path_graph(2), "edge"))
    ms.append(named(nx.path_graph(4), "path4"))
    ms.append(named(nx.cycle_graph(3), "triangle"))
    ms.append(named(nx.cycle_graph(4), "square"))
    ms.append(named(nx.cycle_graph(5), "pentagon"))
    ms.append(named(nx.complete_graph(4), "K4"))
    ms.append(named(nx.star_graph(4), "star4"))
    d = nx.cycle_graph(4)
    d.add_edge(0, 2)
    ms.append(named(d, "diamond"))
    b = nx.Graph([(0, 1), (1, 2), (2, 0), (2, 3), (3, 4), (4, 2)])
    ms.append(named(b, "bowtie"))
    w = nx.wheel_graph(5)
    ms.append(named(w, "wheel5"))
    # relabelled vertices (non contiguous labels, insertion order not sorted)
    r = nx.Graph([(7, 3), (3, 11), (11, 7), (11, 2), (2, 5)])
    ms.append(named(r, "relabelled"))
    # a self loop on a non focal vertex
    s = nx.Graph([(0, 1), (1, 2), (2, 0), (1, 1)])
    ms.append(named(s, "selfloop"))
    # random connected graphs
    rng = random.Random(99)
    k = 0
    while k < 4:
        g = nx.gnp_random_graph(rng.randint(4, 6), 0.55, seed=rng.randint(0, 10**6))
        if g.number_of_edges() <= 9 and nx.is_connected(g):
            ms.append(named(g, f"rand{k}"))
            k += 1
    return ms


def dump_cache(AE, tag):
    out(tag, "CS-keys", list(AE._connected_subgraphs.keys()))
    for k, v in AE._connected_subgraphs.items():
        out(tag, "CS", k, [sorted(s) for s in v], [list(s) for s in v])
    out(tag, "EC-keys", list(AE._edge_combinations.keys()))
    for k, v in AE._edge_combinations.items():
        out(tag, "EC", k, v)


def main():
    rng = random.Random(2024)
    ms = motifs()

    # 1. the two cached getters and the backtracker, on a fresh evaluator per motif
    for G in ms:
        set_us(G, rng)
        for root in G.nodes():
            AE = AutomatedEquation()
            nodes_before = list(G.nodes())
            edges_before = list(G.edges())
            res = AE.get_connected_subgraphs(G, root)
            out("subgraphs", G.name, root, len(res), [list(s) for s in res])
            out("subgraphs-unique", G.name, root, len({frozenset(s) for s in res}) == len(res))
            again = AE.get_connected_subgraphs(G, root)
            out("subgraphs-same-object", again is res, AE._connected_subgraphs[f"{root}-{G.name}"] is res)

            # direct call of the backtracker: arguments of the caller stay untouched
            results = []
            sub, poss, excl = {root}, set(G.neighbors(root)), {root}
            ret = AE._get_connected_subgraphs(G, sub, poss, excl, results, len(G.nodes()))
            out("backtrack", G.name, root, ret, sorted(sub), sorted(poss), sorted(excl),
                [list(s) for s in results], results[0] is sub)
            # truncated by max_size
            results = []
            AE._get_connected_subgraphs(G, {root}, set(G.neighbors(root)), {root}, results, 2)
            out("backtrack-max2", G.name, root, [list(s) for s in results])

            c = list(G.nodes())
            ec = AE.get_edge_combinations(G, c)
            out("edgecomb", G.name, root, ec)
            ec2 = AE.get_edge_combinations(G, c)
            out("edgecomb-same-object", ec2 is ec, AE._edge_combinations[f"{c}-{G.name}"] is ec)
            out("get_us", G.name, root, repr(AE.get_us(G, root)))
            out("untouched", list(G.nodes()) == nodes_before, list(G.edges()) == edges_before)

    # 2. the equation: floats, Fractions, polynomials in phi; fresh evaluator vs shared evaluator
    phis = [0.0, 1.0, 0.5, 0.3, 0.123456789, 0.87, Fraction(1, 3), Fraction(5, 7)]
    shared = AutomatedEquation()
    for G in ms:
        for root in G.nodes():
            for p in phis:
                fresh = AutomatedEquation()
                a = fresh.automated_equation(G, p, root)
                b = shared.automated_equation(G, p, root)
                out("eq", G.name, root, repr(p), repr(a), repr(b), a == b, type(a).__name__)
            # polynomial in phi (coefficients are floats because u values are floats)
            poly = AutomatedEquation().automated_equation(G, Polynomial([0.0, 1.0]), root)
            out("poly", G.name, root, [repr(float(x)) for x in poly.coef])
    dump_cache(shared, "shared")

    # 3. call history: change u values and phi between calls on one evaluator, in shuffled order
    AE = AutomatedEquation()
    order = [(G, root) for G in ms for root in G.nodes()]
    rng2 = random.Random(7)
    for rnd in range(3):
        rng2.shuffle(order)
        for G, root in order:
            set_us(G, rng2)
            p = rng2.random()
            a = AE.automated_equation(G, p, root)
            b = AutomatedEquation().automated_equation(G, p, root)
            out("hist", rnd, G.name, root, repr(p), repr(a), repr(b), a == b)
    dump_cache(AE, "hist")

    # 4. numpy scalars / arrays as phi, numpy-drawn u values
    AE = AutomatedEquation()
    for G in ms[:8]:
        for n in G.nodes():
            G.nodes[n]["u"] = float(np.random.random())
        root = list(G.nodes())[0]
        a = AE.automated_equation(G, np.float64(0.37), root)
        out("np-scalar", G.name, repr(float(a)), type(a).__name__)
        arr = AE.automated_equation(G, np.linspace(0.0, 1.0, 7), root)
        out("np-array", G.name, [repr(float(x)) for x in arr])

    # 5. brute force cross-check value (exact expectation), printed so both runs must agree on it too
    import itertools
    for G in ms[:9]:
        root = list(G.nodes())[0]
        p = 0.41
        edges = list(G.edges())
        total = 0.0
        for mask in itertools.product([0, 1], repeat=len(edges)):
            H = nx.Graph()
            H.add_nodes_from(G.nodes())
            H.add_edges_from(e for e, m in zip(edges, mask) if m)
            w = 1.0
            for m in mask:
                w *= p if m else (1 - p)
            comp = nx.node_connected_component(H, root)
            prod = 1.0
            for n in comp:
                if n != root:
                    prod *= G.nodes[n]["u"]
            total += w * prod
        val = AutomatedEquation().automated_equation(G, p, root)
        out("brute", G.name, repr(val), abs(val - total) < 1e-12)

    print("sha256", hashlib.sha256("\n".join(LINES).encode()).hexdigest())


if __name__ == "__main__":
    main()
