import sys, os; sys.path.insert(0, os.getcwd())

"""
Equivalence digest for the C14 clean-up commit (gcmpy/tools degree-distribution
tools).  Deterministic; run with cwd = a checkout.
"""
if os.environ.get("PYTHONHASHSEED") != "0":  # string / nan hashing -> set order
    os.environ["PYTHONHASHSEED"] = "0"
    os.execv(sys.executable, [sys.executable] + sys.argv)

import copy
import random
import warnings
from collections import OrderedDict, defaultdict
from fractions import Fraction

warnings.simplefilter("ignore")

import numpy as np

random.seed(1404)
np.random.seed(1404)

from gcmpy.tools.average_joint_degree_from_jdd import AverageJointDegreeFromJDD
from gcmpy.tools.joint_excess_from_jdd import JointExcessfromJDD
from gcmpy.tools.joint_degree_from_excess import JointDegreeFromExcess
from gcmpy.tools.joint_excess_from_ejk import JointExcessFromEjk
from gcmpy.tools.joint_excess_joint_degree_matrices import (
    JointExcessJointDegreeMatrices,
)
from gcmpy.names.tools_names import ToolsNames

NAN = float("nan")


def show(x):
    """repr preserving dict / list order and exact floats, with type tags"""
    if isinstance(x, dict):
        return (
            type(x).__name__
            + "{"
            + ", ".join(f"{show(k)}: {show(v)}" for k, v in x.items())
            + "}"
        )
    if isinstance(x, (list, tuple)):
        o, c = ("[", "]") if isinstance(x, list) else ("(", ")")
        return o + ", ".join(show(v) for v in x) + c
    if hasattr(x, "_ejks") and hasattr(x, "_excess_degree_keys"):
        keys = x._excess_degree_keys
        if isinstance(keys, dict):
            keys = {k: (v if isinstance(v, (list, tuple)) else "<iterator>") for k, v in keys.items()}
        return f"Matrices({show(x._ejks)}; {show(keys)}; {show(x._topology_names)})"
    if isinstance(x, (float, np.floating)):
        return f"{type(x).__name__}:{float(x)!r}:{float(x).hex()}"
    return f"{type(x).__name__}:{x!r}"


def call(label, fn, *args):
    """call on deep copies, print result / exception and the inputs afterwards"""
    args = copy.deepcopy(args)
    try:
        out = fn(*args)
        print(label, "->", show(out))
    except BaseException as e:  # noqa
        print(label, "!!", type(e).__name__, str(e)[:120])
    print("   inputs after:", " | ".join(show(a) for a in args))
    return args


# ---------------------------------------------------------------- inputs
def random_jdd(n_top, n_keys, max_k, zero_frac=0.3):
    keys = []
    while len(keys) < n_keys:
        k = tuple(
            0 if random.random() < zero_frac else random.randint(1, max_k)
            for _ in range(n_top)
        )
        if k not in keys:
            keys.append(k)
    w = [random.random() for _ in keys]
    s = sum(w)
    return {k: x / s for k, x in zip(keys, w)}


JDDS = [
    ("two", {(0, 0): 0.10, (2, 0): 0.20, (1, 1): 0.30, (0, 3): 0.15, (2, 2): 0.25}),
    (
        "three",
        {
            (1, 1, 1): 0.2,
            (3, 0, 0): 0.2,
            (2, 0, 1): 0.1,
            (0, 2, 0): 0.1,
            (0, 1, 4): 0.1,
            (2, 2, 1): 0.3,
        },
    ),
    ("one", {(0,): 0.25, (1,): 0.25, (3,): 0.5}),
    ("suite", {(5, 1): 1 / 3, (3, 2): 1 / 3, (1, 3): 1 / 3}),
    ("single-key", {(2, 3): 1.0}),
    ("all-zero-degree", {(0, 0): 1.0}),
    ("zero-mass", {(1, 1): 0.0, (2, 1): 0.0}),
    ("unnormalised", {(1, 2): 3, (2, 1): 5, (0, 4): 2}),
    ("fractions", {(1, 2): Fraction(1, 3), (2, 0): Fraction(2, 3)}),
    ("negative-degree", {(-1, 2): 0.5, (1, 1): 0.5}),
    ("float-degree", {(0.5, 2): 0.5, (1.5, 1): 0.5}),
    ("nan-degree", {(NAN, 1): 0.5, (1, 1): 0.5}),
    ("nan-mass", {(1, 1): NAN, (2, 1): 0.5}),
    ("numpy", {(np.int64(1), np.int64(2)): np.float64(0.25), (np.int64(3), np.int64(0)): np.float64(0.75)}),
    ("ragged", {(1, 2): 0.5, (1,): 0.5}),
    ("list-like-str", {"12": 0.5, "30": 0.5}),
    ("empty", {}),
    ("ordered", OrderedDict([((2, 1), 0.5), ((1, 2), 0.5)])),
    ("defaultdict", defaultdict(float, {(2, 1): 0.25, (1, 2): 0.75})),
    ("no-common", {(1, 0): 0.5, (0, 1): 0.5}),
    ("not-a-dict", [((1, 1), 1.0)]),
]
for n_top, n_keys, max_k in [(1, 4, 5), (2, 7, 4), (3, 9, 3), (4, 12, 3), (2, 25, 9)]:
    JDDS.append((f"random-{n_top}-{n_keys}", random_jdd(n_top, n_keys, max_k)))

NAMES = {
    1: ["2-clique"],
    2: ["2-clique-blue", "3-clique"],
    3: ["tree", "triangle-red", "4-clique"],
    4: ["a", "b", "c", "d"],
}

print("=== jdd tools / round trip")
for label, jdd in JDDS:
    print("---", label)
    call("average", AverageJointDegreeFromJDD.get_average_joint_degrees, jdd)
    call("excess", JointExcessfromJDD.get_joint_excess_distributions, jdd)
    try:
        qks_list = JointExcessfromJDD.get_joint_excess_distributions(copy.deepcopy(jdd))
    except BaseException:
        continue
    names = NAMES.get(len(qks_list), [f"t{i}" for i in range(len(qks_list))])
    (ql, nm) = call("to_dict", JointExcessfromJDD.convert_list_qks_to_dict, qks_list, names)
    qks = JointExcessfromJDD.convert_list_qks_to_dict(qks_list, names)
    print("   identity kept:", all(qks[n] is q for n, q in zip(names, qks_list)))
    call("to_list", JointExcessfromJDD.convert_dict_qks_to_list, qks, names)
    back = JointExcessfromJDD.convert_dict_qks_to_list(qks, names)
    print("   identity kept:", all(a is b for a, b in zip(back, qks_list)))
    for i, n in enumerate(names):
        call(f"invert_single[{i}]", JointDegreeFromExcess.invert_single, qks[n], i)
    call("observations", JointDegreeFromExcess.observations_from_dict, qks, names)
    call("jdd_from_excess", JointDegreeFromExcess.get_joint_degree_distribution, qks, names)
    # repeated call on the same objects (inputs must not be consumed / mutated)
    try:
        r1 = JointDegreeFromExcess.get_joint_degree_distribution(qks, names)
        r2 = JointDegreeFromExcess.get_joint_degree_distribution(qks, names)
        print("   repeat:", show(r1) == show(r2), show(qks) == show(JointExcessfromJDD.convert_list_qks_to_dict(qks_list, names)))
    except BaseException as e:
        print("   repeat !!", type(e).__name__)
    # permuted / partial / reversed key lists
    if len(names) > 1:
        call("jdd_from_excess[reversed]", JointDegreeFromExcess.get_joint_degree_distribution, qks, names[::-1])
        call("jdd_from_excess[first-only]", JointDegreeFromExcess.get_joint_degree_distribution, qks, names[:1])
        call("jdd_from_excess[last-only]", JointDegreeFromExcess.get_joint_degree_distribution, qks, names[-1:])
        call("jdd_from_excess[dup]", JointDegreeFromExcess.get_joint_degree_distribution, qks, [names[0], names[0], names[1]])
        call("observations[tuple keys]", JointDegreeFromExcess.observations_from_dict, qks, tuple(names))

print("=== converters: edge cases")
call("to_dict short keys", JointExcessfromJDD.convert_list_qks_to_dict, [{1: 2}, {3: 4}], ["a"])
call("to_dict long keys", JointExcessfromJDD.convert_list_qks_to_dict, [{1: 2}], ["a", "b"])
call("to_dict dup keys", JointExcessfromJDD.convert_list_qks_to_dict, [{1: 2}, {3: 4}], ["a", "a"])
call("to_dict empty", JointExcessfromJDD.convert_list_qks_to_dict, [], [])
call("to_dict unhashable", JointExcessfromJDD.convert_list_qks_to_dict, [{1: 2}], [["a"]])
call("to_dict none", JointExcessfromJDD.convert_list_qks_to_dict, None, ["a"])
call("to_list missing", JointExcessfromJDD.convert_dict_qks_to_list, {"a": {1: 2}}, ["a", "b"])
call("to_list dup", JointExcessfromJDD.convert_dict_qks_to_list, {"a": {1: 2}}, ["a", "a"])
call("to_list empty", JointExcessfromJDD.convert_dict_qks_to_list, {"a": {1: 2}}, [])
call("to_list none", JointExcessfromJDD.convert_dict_qks_to_list, {"a": {1: 2}}, None)

print("=== jdd from excess: hand-made excess distributions")
QKS = [
    ("suite", {"2-clique": {(0, 3): 1 / 9, (4, 1): 5 / 9, (2, 2): 3 / 9}, "3-clique": {(1, 2): 0.5, (5, 0): 1 / 6, (3, 1): 1 / 3}}, ["2-clique", "3-clique"]),
    ("ref-only-keys", {"a": {(0, 0): 0.2, (1, 0): 0.3, (0, 1): 0.5}, "b": {(1, 0): 1.0}}, ["a", "b"]),
    ("other-only-keys", {"a": {(0, 1): 1.0}, "b": {(1, 0): 0.4, (0, 2): 0.6}}, ["a", "b"]),
    ("three-mixed", {"a": {(0, 1, 1): 0.5, (2, 0, 0): 0.5}, "b": {(1, 0, 1): 0.7, (0, 3, 0): 0.3}, "c": {(1, 1, 0): 0.9, (0, 0, 2): 0.1}}, ["a", "b", "c"]),
    ("overlap-conflict", {"a": {(0, 1): 0.5, (1, 1): 0.5}, "b": {(1, 0): 0.1, (2, 0): 0.9}}, ["a", "b"]),
    ("no-common", {"a": {(0, 0): 1.0}, "b": {(0, 0): 1.0}}, ["a", "b"]),
    ("zero-common-in-other", {"a": {(0, 1): 1.0}, "b": {(1, 0): 0.0, (3, 3): 1.0}}, ["a", "b"]),
    ("zero-common-in-ref", {"a": {(0, 1): 0.0, (4, 4): 1.0}, "b": {(1, 0): 1.0}}, ["a", "b"]),
    ("minus-one", {"a": {(-1, 1): 1.0}, "b": {(0, 0): 1.0}}, ["a", "b"]),
    ("empty-q", {"a": {}, "b": {(0, 0): 1.0}}, ["a", "b"]),
    ("all-empty", {"a": {}, "b": {}}, ["a", "b"]),
    ("all-zero", {"a": {(0, 1): 0.0}, "b": {(1, 0): 0.0}}, ["a", "b"]),
    ("missing-topology", {"a": {(0, 1): 1.0}}, ["a", "b"]),
    ("extra-topology", {"a": {(0, 1): 1.0}, "b": {(1, 0): 1.0}, "c": {(5, 5): 1.0}}, ["a", "b"]),
    ("no-keys", {"a": {(0, 1): 1.0}}, []),
    ("single", {"a": {(0,): 0.25, (2,): 0.75}}, ["a"]),
    ("short-tuple", {"a": {(0,): 1.0}, "b": {(0,): 1.0}}, ["a", "b"]),
    ("int-masses", {"a": {(0, 1): 2, (1, 1): 4}, "b": {(1, 0): 3, (2, 0): 1}}, ["a", "b"]),
    ("nan-mass", {"a": {(0, 1): NAN, (1, 1): 0.5}, "b": {(1, 0): 0.5, (2, 0): 0.5}}, ["a", "b"]),
    ("int-topology-keys", {0: {(0, 1): 0.5, (1, 1): 0.5}, 1: {(1, 0): 0.5, (2, 0): 0.5}}, [0, 1]),
    ("qks-none", None, ["a"]),
]
for label, qks, names in QKS:
    print("---", label)
    if isinstance(qks, dict):
        for i, n in enumerate(names):
            if n in qks:
                call(f"invert_single[{i}]", JointDegreeFromExcess.invert_single, qks[n], i)
    call("observations", JointDegreeFromExcess.observations_from_dict, qks, names)
    call("jdd_from_excess", JointDegreeFromExcess.get_joint_degree_distribution, qks, names)
    if len(names) > 1:
        call("jdd_from_excess[reversed]", JointDegreeFromExcess.get_joint_degree_distribution, qks, names[::-1])
call("invert_single index error", JointDegreeFromExcess.invert_single, {(0, 1): 1.0}, 5)
call("invert_single neg index", JointDegreeFromExcess.invert_single, {(0, 1): 0.5, (3, 2): 0.5}, -1)
call("invert_single list", JointDegreeFromExcess.invert_single, [(0, 1)], 0)
call("invert_single str mass", JointDegreeFromExcess.invert_single, {(0, 1): "x"}, 0)

print("=== ejk matrices")
ejk_tree = {
    (0, 3, 0, 3): 1 / 81, (0, 3, 4, 1): 5 / 81, (0, 3, 2, 2): 3 / 81,
    (4, 1, 0, 3): 5 / 81, (4, 1, 4, 1): 25 / 81, (4, 1, 2, 2): 15 / 81,
    (2, 2, 0, 3): 3 / 81, (2, 2, 4, 1): 15 / 81, (2, 2, 2, 2): 9 / 81,
}
ejk_triangle = {
    (3, 1, 3, 1): 16 / 144, (3, 1, 1, 2): 24 / 144, (3, 1, 5, 0): 8 / 144,
    (1, 2, 3, 1): 24 / 144, (1, 2, 1, 2): 36 / 144, (1, 2, 5, 0): 12 / 144,
    (5, 0, 3, 1): 8 / 144, (5, 0, 1, 2): 12 / 144, (5, 0, 5, 0): 4 / 144,
}


def random_ejk(n_top, n_excess, fill):
    ks = []
    while len(ks) < n_excess:
        k = tuple(random.randint(0, 6) for _ in range(n_top))
        if k not in ks:
            ks.append(k)
    m = {}
    for a in ks:
        for b in ks:
            if random.random() < fill:
                m[a + b] = random.random()
    s = sum(m.values()) or 1.0
    return {k: v / s for k, v in m.items()}


EJKS = [
    ("suite", {"2-clique": ejk_tree, "3-clique": ejk_triangle}, ["2-clique", "3-clique"]),
    ("asymmetric", {"a": {(0, 1, 2, 3): 0.25, (2, 3, 0, 1): 0.25, (0, 1, 0, 1): 0.5}}, ["a"]),
    ("one-dim", {"a": {(0, 1): 0.5, (1, 0): 0.25, (1, 1): 0.25}}, ["a"]),
    ("odd-length", {"a": {(0, 1, 2): 0.5, (2, 0, 1): 0.5}}, ["a"]),
    ("empty-matrix", {"a": {}, "b": {(1, 1): 1.0}}, ["a", "b"]),
    ("empty", {}, []),
    ("string-keys", {"a": {"abcd": 0.5, "cdab": 0.5}}, ["a"]),
    ("list-of-keys", {"a": [(0, 1, 2, 3), (2, 3, 0, 1)]}, ["a"]),
    ("int-key", {"a": {7: 1.0}}, ["a"]),
    ("frozenset-key", {"a": {frozenset([1, 2, 3, 4]): 1.0}}, ["a"]),
    ("int-masses", {"a": {(0, 1, 0, 1): 1, (0, 1, 2, 2): 2, (2, 2, 0, 1): 3}}, ["a"]),
    ("random-2", {"x": random_ejk(2, 5, 0.7), "y": random_ejk(2, 6, 0.5)}, ["x", "y"]),
    ("random-3", {"x": random_ejk(3, 4, 0.9), "y": random_ejk(3, 7, 0.4), "z": random_ejk(3, 3, 1.0)}, ["x", "y", "z"]),
]
for label, ejks, names in EJKS:
    print("---", label)
    params = {ToolsNames.EJKS: copy.deepcopy(ejks), ToolsNames.EDGE_NAMES: list(names)}
    try:
        M = JointExcessJointDegreeMatrices(params)
    except BaseException as e:
        print("ctor !!", type(e).__name__, str(e)[:120])
        continue
    print("keys:", show(M.excess_degree_keys))
    M.get_excess_degree_keys()  # repeated call on the same object
    print("keys again:", show(M.excess_degree_keys), "| ejks:", show(M.ejks))
    for rep in range(2):
        try:
            qks = JointExcessFromEjk.get_excess_joint_distributions(M)
            print("qks:", show(qks))
        except BaseException as e:
            print("qks !!", type(e).__name__, str(e)[:120])
            qks = None
    print("state:", show(M.ejks), show(M.excess_degree_keys), show(M.topology_names))
    if qks:
        call("jdd_from_excess", JointDegreeFromExcess.get_joint_degree_distribution, qks, names)

print("--- hand-set excess keys (as in the suite)")
M = JointExcessJointDegreeMatrices()
M._ejks = {"2-clique": dict(ejk_tree), "3-clique": dict(ejk_triangle)}
M._excess_degree_keys = {
    "2-clique": [(0, 3), (4, 1), (2, 2)],
    "3-clique": [(3, 1), (1, 2), (5, 0)],
}
qks = JointExcessFromEjk.get_excess_joint_distributions(M)
print("qks:", show(qks))
call("jdd_from_excess", JointDegreeFromExcess.get_joint_degree_distribution, qks, ["2-clique", "3-clique"])
M._excess_degree_keys = {"2-clique": [(0, 3), (9, 9), (0, 3)], "3-clique": []}
print("qks (dup / foreign keys):", show(JointExcessFromEjk.get_excess_joint_distributions(M)))
M._excess_degree_keys = {"2-clique": [(0, 3)]}
call("qks length mismatch", JointExcessFromEjk.get_excess_joint_distributions, M)
M._excess_degree_keys = {"2-clique": [(0, 3)], "other": [(1, 1)]}
call("qks missing topology", JointExcessFromEjk.get_excess_joint_distributions, M)
M.excess_degree_keys = {"2-clique": ((0, 3), (4, 1)), "3-clique": ((3, 1), (1, 2))}
try:
    print("qks (tuple keys):", show(JointExcessFromEjk.get_excess_joint_distributions(M)))
except BaseException as e:
    print("qks (tuple keys) !!", type(e).__name__)
M2 = JointExcessJointDegreeMatrices()
call("qks on empty object", JointExcessFromEjk.get_excess_joint_distributions, M2)
try:
    print(M2.get_topology_index("x"))
except BaseException as e:
    print("topology index !!", type(e).__name__)

print("=== network-derived matrices")
import networkx as nx
from gcmpy.tools.joint_excess_joint_degree import JointExcessJointDegree
from gcmpy.tools.joint_degree_distribution_from_network import (
    JointDegreeDistributionFromNetwork,
)
from gcmpy.joint_degree.joint_degree_loaders.joint_degree_manual import JointDegreeManual
from gcmpy.motif_generators.clique_motif import clique_motif
from gcmpy.gcm_algorithm.gcm_algorithm_network import GCMAlgorithmNetwork
from gcmpy.names.gcm_algorithm_names import GCMAlgorithmNames
from gcmpy.names.joint_degree_names import JointDegreeNames

for jdd, n in [
    ({(5, 1): 1 / 3, (3, 2): 1 / 3, (1, 3): 1 / 3}, 300),
    ({(2, 0): 0.3, (1, 1): 0.4, (0, 2): 0.2, (0, 0): 0.1}, 400),
]:
    try:
        params = {JointDegreeNames.JDD: jdd, JointDegreeNames.MOTIF_SIZES: [2, 3]}
        jds = JointDegreeManual(params).sample_jds_from_jdd(n)
        params = {
            GCMAlgorithmNames.MOTIF_SIZES: [2, 3],
            GCMAlgorithmNames.EDGE_NAMES: ["2-clique", "3-clique"],
            GCMAlgorithmNames.BUILD_FUNCTIONS: [clique_motif, clique_motif],
        }
        g = GCMAlgorithmNetwork(params).random_clustered_graph(jds)
        names = ["2-clique", "3-clique"]
        C = JointExcessJointDegree({ToolsNames.NETWORK: g._G, ToolsNames.EDGE_NAMES: names})
        M = C.get_ejks()
        print("ejks:", show({t: dict(sorted(m.items())) for t, m in M.ejks.items()}))
        print("keys:", show(M.excess_degree_keys))
        qks = JointExcessFromEjk.get_excess_joint_distributions(M)
        print("qks:", show(qks))
        call("jdd_from_excess", JointDegreeFromExcess.get_joint_degree_distribution, qks, names)
        M.get_excess_degree_keys()
        print("keys recomputed:", show(M.excess_degree_keys))
        qks = JointExcessFromEjk.get_excess_joint_distributions(M)
        print("qks recomputed:", show(qks))
        emp = JointDegreeDistributionFromNetwork.get_joint_degree_distribution(g._G)
        call("average emp", AverageJointDegreeFromJDD.get_average_joint_degrees, emp)
        call("excess emp", JointExcessfromJDD.get_joint_excess_distributions, emp)
    except BaseException as e:
        print("network !!", type(e).__name__, str(e)[:200])

print("=== rng state")
print(random.getstate()[1][:5], random.random())
st = np.random.get_state()
print(st[1][:5].tolist(), st[2], np.random.random().hex())
