"""Equivalence harness for C08 (cover joint-degree loader + JointDegree base).

Run with cwd = a checkout of gcmpy.  Prints a deterministic transcript:
results (bit-exact floats through repr), RNG state digests, mutated inputs.
"""
import sys
import os
import copy
import hashlib
import random

sys.path.insert(0, os.getcwd())

import numpy as np  # noqa: E402

from gcmpy.joint_degree.joint_degree import JointDegree  # noqa: E402
from gcmpy.joint_degree.joint_degree_loaders.joint_degree_cover import (  # noqa: E402
    JointDegreeCover,
)
from gcmpy.joint_degree.joint_degree_loaders.joint_degree_manual import (  # noqa: E402
    JointDegreeManual,
)
from gcmpy.joint_degree.joint_degree_loaders.joint_degree_empirical import (  # noqa: E402
    JointDegreeEmpirical,
)
from gcmpy.joint_degree.joint_degree_loaders.joint_degree_delta import (  # noqa: E402
    JointDegreeDelta,
)
from gcmpy.joint_degree.joint_degree_distribution import (  # noqa: E402
    JointDegreeDistribution,
)
from gcmpy.joint_degree.joint_degree_type import JointDegreeType  # noqa: E402
from gcmpy.names.joint_degree_names import JointDegreeNames as N  # noqa: E402


def h(s):
    return hashlib.sha256(s.encode()).hexdigest()[:16]


def rng():
    return h(repr(random.getstate())) + "/" + h(repr(np.random.get_state()))


def seed(s):
    random.seed(s)
    np.random.seed(s)


def show(x):
    """repr with types, insertion order of dicts kept (it is observable)."""
    if isinstance(x, dict):
        return "{" + ", ".join(show(k) + ": " + show(v) for k, v in x.items()) + "}"
    if isinstance(x, (list, tuple)):
        o, c = ("[", "]") if isinstance(x, list) else ("(", ")")
        return o + ", ".join(show(v) for v in x) + c
    return type(x).__name__ + ":" + repr(x)


def out(label, *parts):
    print(label, "|", " | ".join(str(p) for p in parts))


def attempt(label, fn):
    try:
        r = fn()
        out(label, "OK", r if isinstance(r, (str, type(None))) else type(r).__name__)
        return r
    except BaseException as e:  # noqa: BLE001
        out(label, "EXC", type(e).__name__, str(e), "rng=" + rng())
        return None


def state(o):
    return "jdd=%s sizes=%s" % (
        show(getattr(o, "_jdd", "<unset>")),
        show(getattr(o, "_motif_sizes", "<unset>")),
    )


# ---------------------------------------------------------------- covers
COVERS = {
    "zero_based_edges_tri": [(0, 1), (1, 2), (0, 1, 2), (2, 3), (3, 4, 5), (5, 0)],
    "one_based": [(1, 2), (2, 3), (1, 2, 3), (3, 4), (4, 5, 6), (6, 1)],
    "gap_sizes_2_5": [(0, 1), (2, 3, 4, 5, 6), (1, 2), (6, 0)],
    "only_size_4": [(1, 2, 3, 4), (4, 5, 6, 7), (7, 8, 1, 2)],
    "single_clique": [(0, 1, 2)],
    "single_vertex_cliques": [(0,), (1,), (2,), (0, 1, 2)],
    "lists": [[0, 1], [1, 2, 3], [3, 0]],
    "mixed_containers": [(0, 1), [1, 2, 3], (3, 4), [4, 0, 2, 1]],
    "frozensets": [frozenset((0, 1)), frozenset((1, 2, 3)), frozenset((3, 0))],
    "dup_vertex_in_clique": [(0, 0, 1), (1, 2)],
    "dup_cliques": [(0, 1), (0, 1), (1, 2), (1, 2), (0, 1, 2)],
    "tuple_of_cliques": ((0, 1), (1, 2), (2, 0, 1)),
    "bools_and_ints": [(True, 2), (2, 3), (3, True)],
    "numpy_ints": [tuple(np.array([0, 1])), tuple(np.array([1, 2, 3])), (3, 0)],
    "starts_at_2_wraps": [(2, 3), (3, 4), (4, 2)],
    "negative_ids": [(-1, 0), (0, 1), (1, -1)],
    "empty_clique_present": [(), (0, 1), (1, 2)],
    "big_sizes": [tuple(range(0, 7)), tuple(range(3, 12)), (11, 0), (5, 6, 7)],
    # error paths
    "empty_cover": [],
    "only_empty_cliques": [(), ()],
    "non_contiguous": [(0, 1), (5, 9)],
    "non_contiguous_one": [(1, 2), (7, 8, 9)],
    "float_ids": [(0.0, 1.0), (1.0, 2.0)],
    "string_cliques": ["ab", "bc"],
    "unhashable_vertex": [([0], 1), (1, 2)],
    "int_clique": [(0, 1), 3],
    "none_cover": None,
    "generator_cover": "GEN",
}


def random_cover(s, n, m, kmax, base):
    r = random.Random(s)
    cov = []
    for _ in range(m):
        k = r.randint(2, kmax)
        cov.append(tuple(r.sample(range(base, base + n), k)))
    # make sure every vertex occurs so ids are contiguous
    for v in range(base, base + n - 1):
        cov.append((v, v + 1))
    return cov


for i, (n_, m_, k_, b_) in enumerate(
    [(10, 8, 4, 0), (30, 40, 6, 1), (50, 25, 9, 0), (200, 300, 5, 1), (7, 3, 7, 0)]
):
    COVERS["random_%d" % i] = random_cover(100 + i, n_, m_, k_, b_)


def build(name):
    cov = COVERS[name]
    if cov == "GEN":
        cov = (c for c in [(0, 1), (1, 2)])
    return cov


print("== JointDegreeCover construction / create_jdd / sampling ==")
for name in COVERS:
    seed(12345)
    cov = build(name)
    snapshot = copy.deepcopy(cov) if not hasattr(cov, "__next__") else None
    obj = attempt(name + ":init", lambda: JointDegreeCover({N.COVER: cov}))
    if obj is None:
        out(name + ":rng-after-fail", rng())
        continue
    out(name + ":state", state(obj))
    out(name + ":cover-unchanged", obj.cover is cov, show(cov) == show(snapshot))
    out(name + ":jdd-sum", repr(sum(obj.jdd.values())))
    out(name + ":rng-after-init", rng())
    # repeated create_jdd on the same object: new dict each time, same content
    first = obj.jdd
    attempt(name + ":create2", lambda: obj.create_jdd())
    out(name + ":state2", state(obj), "fresh-dict=%s" % (obj.jdd is not first))
    # sampling, repeated, several N
    for N_ in (0, 1, 5, 37, 200):
        r = attempt(name + ":sample%d" % N_, lambda: show(obj.sample_jds_from_jdd(N_)))
        out(name + ":rng", rng())
    out(name + ":state-after-sampling", state(obj))
    # column sums divisible by motif sizes
    jds = attempt(name + ":sample101", lambda: obj.sample_jds_from_jdd(101))
    if jds is not None:
        out(
            name + ":lemma",
            [sum(c) % s for c, s in zip(zip(*jds), obj.motif_sizes)],
            h(show(jds)),
            rng(),
        )

print("== missing key / bad params ==")
attempt("missing-key", lambda: JointDegreeCover({}))
attempt("params-none", lambda: JointDegreeCover(None))

print("== object history: setters then create_jdd ==")
seed(7)
obj = JointDegreeCover({N.COVER: COVERS["zero_based_edges_tri"]})
out("hist0", state(obj))
obj.cover = COVERS["gap_sizes_2_5"]
obj.create_jdd()
out("hist1 (stale motif sizes kept)", state(obj))
attempt("hist1:sample", lambda: show(obj.sample_jds_from_jdd(20)))
out("hist1:rng", rng())
obj.motif_sizes = [2, 5]
attempt("hist2:sample", lambda: show(obj.sample_jds_from_jdd(20)))
out("hist2:rng", rng())
obj.motif_sizes = [99]
obj.create_jdd()
out("hist3 (user motif sizes untouched by create_jdd)", state(obj))
attempt("hist3:sample-short-sizes", lambda: show(obj.sample_jds_from_jdd(20)))
out("hist3:rng", rng())
obj.cover = []
attempt("hist4:create-empty", lambda: obj.create_jdd())
out("hist4", state(obj))
obj.cover = COVERS["non_contiguous"]
attempt("hist5:create-noncontig", lambda: obj.create_jdd())
out("hist5", state(obj))
obj.jdd = {(1, 0): 0.25, (0, 2): 0.75}
obj.motif_sizes = [2, 3]
attempt("hist6:sample", lambda: show(obj.sample_jds_from_jdd(15)))
out("hist6", state(obj), rng())
# cover mutated in place between calls
cov = [[0, 1], [1, 2]]
obj = JointDegreeCover({N.COVER: cov})
out("hist7", state(obj))
cov.append([0, 1, 2])
cov[0].append(2)
obj.create_jdd()
out("hist8", state(obj), show(cov))

print("== via JointDegreeDistribution (create_jdd called twice) ==")
seed(99)
obj = JointDegreeDistribution.load_joint_degree(
    {N.JOINT_DEGREE_TYPE: JointDegreeType.COVER.value, N.COVER: COVERS["one_based"]}
)
out("dist", type(obj).__name__, state(obj), rng())
out("dist:sample", show(obj.sample_jds_from_jdd(50)), rng())

print("== handshaking_lemma directly ==")
HL_CASES = [
    ("empty", [], [2, 3]),
    ("divisible", [(1, 0), (1, 3)], [2, 3]),
    ("one_off", [(1, 0), (0, 1), (2, 2)], [2, 3]),
    ("three_cols", [(1, 0, 2), (0, 1, 1), (2, 2, 0), (1, 1, 1)], [2, 3, 5]),
    ("size_one", [(1,), (2,)], [1]),
    ("rows_are_lists", [[1, 0], [0, 1], [2, 2]], [2, 3]),
    ("jds_is_tuple", ((1, 0), (0, 1)), [2, 3]),
    ("extra_motif_sizes", [(1, 0), (0, 1)], [2, 3, 4]),
    ("short_motif_sizes", [(1, 1), (0, 1)], [2]),
    ("short_motif_sizes_after_draws", [(1, 1), (0, 0)], [2]),
    ("zero_motif_size", [(1, 1), (0, 1)], [2, 0]),
    ("zero_motif_size_after_draws", [(1, 1), (0, 0)], [2, 0]),
    ("float_entries", [(1.5, 1), (0, 1)], [2, 3]),
    ("float_whole", [(1.0, 1), (0.0, 1)], [2, 3]),
    ("numpy_entries", [tuple(np.array([1, 0])), tuple(np.array([0, 1]))], [2, 3]),
    ("numpy_sizes", [(1, 0), (0, 1)], np.array([2, 3])),
    ("ragged", [(1, 0, 4), (0, 1)], [2, 3]),
    ("string_entries", [("a", 1), ("b", 1)], [2, 3]),
    ("string_second_col", [(1, "a"), (0, "b")], [2, 3]),
    ("negative_size", [(1, 1), (0, 1)], [-2, 3]),
    ("none_sizes", [(1, 1)], None),
    ("big_sizes", [(1, 1), (0, 1), (3, 0)], [7, 11]),
]
for name, jds, sizes in HL_CASES:
    seed(2024)
    obj = JointDegreeManual({N.JDD: {}, N.MOTIF_SIZES: sizes})
    arg = copy.deepcopy(jds)
    r = attempt("hl:" + name, lambda: show(obj.handshaking_lemma(arg)))
    out("hl:" + name + ":arg-after", show(arg), "sizes=" + repr(sizes), rng())
    if r is not None and isinstance(arg, list):
        # repeated call on the already-adjusted list: nothing more to do
        same = obj.handshaking_lemma(arg)
        out("hl:" + name + ":again", same is arg, show(same), rng())

# larger random jds
for s in range(5):
    seed(s)
    r = random.Random(1000 + s)
    ncol = r.randint(1, 5)
    sizes = [r.randint(2, 9) for _ in range(ncol)]
    jds = [tuple(r.randint(0, 4) for _ in range(ncol)) for _ in range(r.randint(1, 60))]
    obj = JointDegreeManual({N.JDD: {}, N.MOTIF_SIZES: sizes})
    res = obj.handshaking_lemma(jds)
    out("hl:rand%d" % s, res is jds, h(show(res)), show(res[:5]), sizes, rng())

print("== sample_jds_from_jdd on manual / odd jdds ==")
SJ = [
    ("simple", {(1, 0): 0.5, (0, 1): 0.25, (2, 2): 0.25}, [2, 3]),
    ("unnormalised_ints", {(1, 0): 3, (0, 1): 1}, [2, 3]),
    ("single_key", {(1, 1): 1.0}, [2, 3]),
    ("empty", {}, [2, 3]),
    ("zero_weights", {(1, 0): 0.0, (0, 1): 0.0}, [2, 3]),
    ("negative_total", {(1, 0): -1.0, (0, 1): 0.5}, [2, 3]),
    ("inf_weight", {(1, 0): float("inf"), (0, 1): 0.5}, [2, 3]),
    ("nan_weight", {(1, 0): float("nan"), (0, 1): 0.5}, [2, 3]),
    ("numpy_weights", {(1, 0): np.float64(0.3), (0, 1): np.float64(0.7)}, [2, 3]),
    ("string_weight", {(1, 0): "x", (0, 1): 0.5}, [2, 3]),
    ("none_jdd", None, [2, 3]),
    ("non_tuple_keys", {1: 0.5, 2: 0.5}, [2]),
]
for name, jdd, sizes in SJ:
    seed(31337)
    obj = JointDegreeManual({N.JDD: jdd, N.MOTIF_SIZES: sizes})
    for N_ in (0, 3, 50, -1):
        attempt("sj:%s:%d" % (name, N_), lambda: show(obj.sample_jds_from_jdd(N_)))
        out("sj:%s:%d:after" % (name, N_), state(obj), rng())
    attempt("sj:%s:N=None" % name, lambda: show(obj.sample_jds_from_jdd(None)))
    attempt("sj:%s:N=2.0" % name, lambda: show(obj.sample_jds_from_jdd(2.0)))
    out("sj:%s:end" % name, obj.jdd is jdd, rng())

print("== normalise_jdd ==")
NJ = [
    ("floats", {(1, 0): 0.1, (0, 1): 0.2, (2, 2): 0.3, (3, 3): 0.7}),
    ("ints", {(1, 0): 3, (0, 1): 1, (5, 5): 3}),
    ("tiny", {(i,): 1e-3 * (i + 1) / 3.0 for i in range(25)}),
    ("empty", {}),
    ("zero_sum", {(1,): 0.0, (2,): 0.0}),
    ("zero_sum_int", {(1,): 1, (2,): -1}),
    ("numpy_vals", {(1,): np.float64(0.2), (2,): np.float32(0.4)}),
    ("numpy_arrays_inplace", {(1,): np.array([1.0, 2.0]), (2,): np.array([3.0, 4.0])}),
    ("string_val", {(1,): 0.5, (2,): "a"}),
    ("none", None),
    ("inf", {(1,): float("inf"), (2,): 1.0}),
]
for name, jdd in NJ:
    seed(5)
    obj = JointDegreeManual({N.JDD: jdd, N.MOTIF_SIZES: [2]})
    held = None
    if name == "numpy_arrays_inplace":
        held = list(jdd.values())
    for rep in range(3):
        attempt("nj:%s:%d" % (name, rep), lambda: obj.normalise_jdd())
        out("nj:%s:%d:state" % (name, rep), state(obj), obj.jdd is jdd, rng())
    if held is not None:
        out("nj:held-arrays", [a.tolist() for a in held],
            [a is b for a, b in zip(held, jdd.values())])

print("== convert_jds_to_jdd ==")
CJ = [
    ("tuples", [(1, 0), (0, 1), (1, 0), (2, 2), (1, 0), (0, 1), (3, 3)]),
    ("thirds", [(1,), (2,), (3,)]),
    ("sevenths", [(i % 7,) for i in range(23)]),
    ("empty", []),
    ("single", [(4, 4)]),
    ("scalars", [1, 2, 2, 3, 3, 3]),
    ("mixed_equal_keys", [1, 1.0, True, 2]),
    ("unhashable_rows", [[1, 0], [0, 1]]),
    ("unhashable_late", [(1, 0), (0, 1), [2, 2]]),
    ("generator", "GEN"),
    ("none", None),
    ("tuple_input", ((1, 0), (1, 0), (0, 1))),
    ("string_input", "aabbbc"),
    ("dict_input", {(1, 0): 5, (0, 1): 6}),
]
for name, jds in CJ:
    seed(6)
    obj = JointDegreeManual({N.JDD: {"sentinel": 1.0}, N.MOTIF_SIZES: [2, 3]})
    arg = (x for x in [(1, 0), (0, 1)]) if jds == "GEN" else copy.deepcopy(jds)
    before = obj.jdd
    attempt("cj:%s" % name, lambda: obj.convert_jds_to_jdd(arg))
    out("cj:%s:state" % name, state(obj), "replaced=%s" % (obj.jdd is not before),
        "old=" + show(before), "arg=" + (show(arg) if jds != "GEN" else "gen"), rng())
    # again on same object
    attempt("cj:%s:again" % name, lambda: obj.convert_jds_to_jdd(arg))
    out("cj:%s:state2" % name, state(obj), rng())

print("== sibling loaders sharing the base methods ==")
seed(11)
emp = JointDegreeEmpirical(
    {N.MOTIF_SIZES: [2, 3], N.JDS: [(1, 0), (0, 1), (1, 0), (2, 1), (2, 1), (1, 0), (5, 2)]}
)
out("emp", state(emp), rng())
out("emp:sample", show(emp.sample_jds_from_jdd(40)), rng())
emp.empirical_jds = [(3, 3), (3, 3), (0, 0)]
emp.create_jdd()
out("emp2", state(emp))
out("emp2:sample", show(emp.sample_jds_from_jdd(9)), rng())

seed(13)
delta = attempt(
    "delta:init",
    lambda: JointDegreeDelta(
        {
            N.TARGET_K: 4,
            N.FP: lambda k: 0.5 ** k,
            N.PROBS: [0.5, 0.3, 0.2],
            N.MOTIF_SIZES: [2, 3, 4],
            N.LOW_HIGH_DEGREE_BOUND: (1, 9),
        }
    ),
)
if delta is not None:
    out("delta", state(delta), rng())
    out("delta:sum", repr(sum(delta.jdd.values())))
    out("delta:sample", show(delta.sample_jds_from_jdd(60)), rng())
    delta.normalise_jdd()
    out("delta:renorm", state(delta))
    delta.create_jdd()
    out("delta:recreate", state(delta), rng())

print("== abstract base ==")
attempt("abstract", lambda: JointDegree())

print("== end to end: cover -> sample -> clique profile ==")
seed(424242)
cov = COVERS["random_3"]
obj = JointDegreeCover({N.COVER: cov})
out("e2e:sizes", obj.motif_sizes, sorted(set(map(len, cov))))
jds = obj.sample_jds_from_jdd(5000)
out("e2e:digest", h(show(jds)), [sum(c) for c in zip(*jds)], rng())
out("e2e:jdd", h(show(obj.jdd)), len(obj.jdd), repr(sum(obj.jdd.values())))
print("== final rng ==", rng())
