"""Deterministic digest of DrawSet behaviour (run with cwd = a checkout)."""
import hashlib
import os
import random
import sys

sys.path.insert(0, os.getcwd())

import numpy as np  # noqa: E402

from gcmpy.tools.draw_set import DrawSet  # noqa: E402


def state(ds):
    return (
        len(ds),
        list(ds),
        list(ds._edges),
        sorted(ds._edge_hashmap.items()),
    )


def run(seed, universe, steps):
    random.seed(seed)
    np.random.seed(seed)
    ds = DrawSet()
    model = set()
    log = []
    ops = random.Random(seed * 7919 + 1)  # op choice independent of global RNG
    for _ in range(steps):
        r = ops.random()
        e = (ops.randrange(universe), ops.randrange(universe))
        if r < 0.45:
            ds.add(e)
            model.add(e)
            log.append(("add", e))
        elif r < 0.75:
            if e in model:
                ds.remove(e)
                model.discard(e)
                log.append(("rm", e))
            else:
                before = state(ds)
                try:
                    ds.remove(e)
                    log.append(("rm-absent-noraise", e))
                except Exception as exc:  # noqa: BLE001
                    log.append(("rm-absent", e, type(exc).__name__, exc.args))
                log.append(("unchanged", state(ds) == before))
        elif r < 0.9:
            if len(ds):
                d = ds.draw()
                log.append(("draw", d, d in model))
            else:
                try:
                    ds.draw()
                    log.append(("draw-empty-noraise",))
                except Exception as exc:  # noqa: BLE001
                    log.append(("draw-empty", type(exc).__name__))
        else:
            log.append(("in", e, e in ds, e in model))
        log.append(state(ds))
        assert set(ds) == model and len(ds) == len(model)
    # trailing global RNG state: draws must consume the RNG identically
    log.append(("rng", random.random(), float(np.random.random())))
    return log


def main():
    print("mro", [c.__name__ for c in DrawSet.__mro__])
    for seed, universe, steps in [(0, 3, 400), (1, 6, 800), (2, 2, 300), (3, 12, 1500)]:
        log = run(seed, universe, steps)
        text = repr(log)
        print(seed, universe, steps, len(log), hashlib.sha256(text.encode()).hexdigest())
        print("  head", repr(log[:6]))
        print("  tail", repr(log[-3:]))

    # fixed scripted history, printed in full
    random.seed(12345)
    ds = DrawSet()
    for e in [(1, 2), (3, 4), (1, 2), (5, 6), (7, 8)]:
        ds.add(e)
        print("add", e, state(ds))
    for e in [(3, 4), (7, 8), (1, 2)]:
        ds.remove(e)
        print("rm", e, state(ds))
    try:
        ds.remove((9, 9))
    except KeyError as exc:
        print("absent", repr(exc), state(ds))
    print("draws", [ds.draw() for _ in range(5)])
    ds.add((0, 0))
    ds.add((2, 2))
    print("draws", [ds.draw() for _ in range(20)], random.random())
    ds.remove((5, 6))
    ds.remove((2, 2))
    ds.remove((0, 0))
    print("empty", state(ds), (0, 0) in ds)
    try:
        ds.draw()
    except Exception as exc:  # noqa: BLE001
        print("draw-empty", type(exc).__name__)


if __name__ == "__main__":
    main()
