import sys, os; sys.path.insert(0, os.getcwd())
import hashlib
import itertools
import random
import warnings
from fractions import Fraction
from decimal import Decimal

import numpy as np
import networkx as nx

from gcmpy.message_passing.equations.automated_equation import AutomatedEquation
from gcmpy.message_passing.message_passing import MessagePassing

random.seed(1515)
np.random.seed(1515)

OUT = []


def emit(*xs):
    OUT.append(" ".join(str(x) for x in xs))


def show(v):
    if isinstance(v, float):
        return "float:" + v.hex()
    if isinstance(v, np.floating):
        return type(v).__name__ + ":" + float(v).hex()
    if isinstance(v, (list, tuple)):
        return type(v).__name__ + "[" + ",".join(show(x) for x in v) + "]"
    if isinstance(v, (set, frozenset)):
        # iteration order of the stored sets is observable (c = list(c))
        return type(v).__name__ + "{" + ",".join(show(x) for x in v) + "}"
    return type(v).__name__ + ":" + repr(v)


def attempt(tag, f):
    with warnings.catch_warnings(record=True) as ws:
        warnings.simplefilter("always")
        try:
            r = f()
            emit(tag, "->", show(r))
        except BaseException as e:  # noqa
            emit(tag, "!!", type(e).__name__, repr(e.args)[:120])
    if ws:
        emit("  warnings", [(w.category.__name__, str(w.message)) for w in ws])


def gstate(G):
    return (
        type(G).__name__,
        sorted(G.__dict__.keys()),
        list(G._node.items()).__repr__(),
        [(k, list(v.items())) for k, v in G._adj.items()].__repr__(),
        G.graph.__repr__(),
    )


def caches(ae):
    emit("  cs-cache", [(k, show(v)) for k, v in ae._connected_subgraphs.items()])
    emit("  ec-cache", [(k, show(v)) for k, v in ae._edge_combinations.items()])


def with_u(G, us):
    for n, u in zip(G.nodes(), itertools.cycle(us)):
        G.nodes[n]["u"] = u
    return G


def named(G, name):
    G.graph["name"] = name
    return G


def motifs():
    yield "K1", nx.complete_graph(1)
    yield "K2", nx.complete_graph(2)
    yield "K3", nx.complete_graph(3)
    yield "K4", nx.complete_graph(4)
    yield "P4", nx.path_graph(4)
    yield "P5", nx.path_graph(5)
    yield "C4", nx.cycle_graph(4)
    yield "C5", nx.cycle_graph(5)
    yield "C6", nx.cycle_graph(6)
    yield "S4", nx.star_graph(4)
    yield "diamond", nx.diamond_graph()
    yield "bull", nx.bull_graph()
    yield "house", nx.house_graph()
    yield "lollipop", nx.lollipop_graph(3, 2)
    yield "K23", nx.complete_bipartite_graph(2, 3)
    g = nx.Graph()
    g.add_edges_from([((0, 1), (1, 2)), ((1, 2), (2, 0)), ((2, 0), (0, 1)), ((2, 0), (3, 3))])
    yield "tuplenodes", g
    g = nx.Graph()
    g.add_edges_from([(10, 3), (3, 7), (7, 10), (7, 1), (1, 22), (22, 7)])
    yield "bowtie", g
    g = nx.cycle_graph(4)
    g.add_edge(0, 0)
    yield "selfloop", g
    g = nx.path_graph(3)
    g.add_node(9)
    yield "disconnected", g
    g = nx.Graph()
    g.add_edges_from([(0, 1), (2, 3), (3, 4), (4, 2)])
    yield "twoparts", g
    for i in range(12):
        n = random.randint(3, 6)
        while True:
            h = nx.gnp_random_graph(n, 0.55, seed=random.randrange(10**6))
            if nx.is_connected(h) and h.number_of_edges() <= 9:
                break
        relabel = list(range(n))
        random.shuffle(relabel)
        h = nx.relabel_nodes(h, dict(zip(range(n), [r * 3 + 1 for r in relabel])))
        yield f"rnd{i}", h


PS = [0.0, 1.0, 0.5, 0.1, 0.37, 0.9999999, 1e-12, 1.5, -0.25, float("inf"), float("nan"),
      1, 0, Fraction(1, 3), np.float64(0.3), np.float32(0.3), Decimal("0.25"), True, 2 + 1j]
US = [
    [0.5],
    [0.2, 0.9, 0.33, 0.71, 1.0, 0.0],
    [1.0],
    [Fraction(1, 2), Fraction(2, 3), Fraction(5, 7)],
    [1, 2, 3],
    [np.float64(0.25), 0.75],
    [1e308, 1e308, 1e-300],
    [10 ** 400, 3],
]

# ---- 1. one evaluator per motif, all roots, all p, several u
for nm, G0 in motifs():
    ae = AutomatedEquation()
    emit("== motif", nm, list(G0.nodes()), list(G0.edges()))
    for ui, us in enumerate(US[:3]):
        G = with_u(named(G0.copy(), f"{nm}-u{ui}"), us)
        for root in list(G.nodes()):
            Gr = named(G.copy(), f"{nm}-u{ui}-r{root}")
            before = gstate(Gr)
            for p in PS[:6] if ui else PS:
                attempt(f"AE {nm} u{ui} root={root!r} p={p!r}",
                        lambda: ae.automated_equation(Gr, p, root))
            emit("  G-dict-keys", sorted(Gr.__dict__.keys()), "unchanged-data", before[2:] == gstate(Gr)[2:])
    caches(ae)

# ---- 2. one shared evaluator across motifs; exotic u; interleaving order; same names reused
ae = AutomatedEquation()
ms = list(motifs())
random.shuffle(ms)
for rep in range(2):
    for nm, G0 in ms:
        for ui, us in enumerate(US):
            G = with_u(named(G0.copy(), nm if ui % 2 else ""), us)
            root = random.choice(list(G.nodes()))
            p = random.choice(PS)
            attempt(f"shared rep{rep} {nm} u{ui} root={root!r} p={p!r}",
                    lambda: ae.automated_equation(G, p, root))
caches(ae)

# ---- 3. public helpers called directly, incl. error paths
ae = AutomatedEquation()
for nm, G0 in ms[:14]:
    G = with_u(named(G0.copy(), "h" + nm), US[1])
    nodes = list(G.nodes())
    k0 = sorted(G.__dict__.keys())
    attempt(f"gcs {nm}", lambda: ae.get_connected_subgraphs(G, nodes[0]))
    attempt(f"gcs-again {nm}", lambda: ae.get_connected_subgraphs(G, nodes[0]) is ae.get_connected_subgraphs(G, nodes[0]))
    attempt(f"gcs-last {nm}", lambda: ae.get_connected_subgraphs(G, nodes[-1]))
    emit("  keys", k0, sorted(G.__dict__.keys()))
    G2 = with_u(named(G0.copy(), "h2" + nm), US[1])
    k0 = sorted(G2.__dict__.keys())
    attempt(f"gec {nm}", lambda: ae.get_edge_combinations(G2, nodes))
    attempt(f"gec-sub {nm}", lambda: ae.get_edge_combinations(G2, nodes[:2]))
    emit("  keys", k0, sorted(G2.__dict__.keys()))
    G3 = nx.Graph(G0.edges(), name="h3" + nm)
    G3.add_nodes_from(G0)
    for n in G3:
        G3._node[n]["u"] = 0.5 + 0.01 * len(str(n))
    k0 = sorted(G3.__dict__.keys())
    attempt(f"us {nm}", lambda: ae.get_us(G3, nodes[0]))
    attempt(f"us-noroot {nm}", lambda: ae.get_us(G3, "zzz"))
    emit("  keys", k0, sorted(G3.__dict__.keys()))
    res = []
    attempt(f"_gcs {nm}", lambda: (ae._get_connected_subgraphs(
        G, {nodes[0]}, set(G.neighbors(nodes[0])), {nodes[0]}, res, len(G)), res)[1])
caches(ae)

# error paths
ae = AutomatedEquation()
G = with_u(nx.cycle_graph(4), [0.5])
attempt("err root-missing", lambda: ae.automated_equation(G, 0.5, 99))
attempt("err root-unhashable", lambda: ae.automated_equation(G, 0.5, [0]))
attempt("err root-None", lambda: ae.automated_equation(G, 0.5, None))
attempt("err p-str", lambda: ae.automated_equation(named(G.copy(), "ps"), "x", 0))
attempt("err p-None", lambda: ae.automated_equation(named(G.copy(), "pn"), None, 0))
H = nx.cycle_graph(4)
attempt("err no-u", lambda: ae.automated_equation(named(H, "nou"), 0.5, 0))
H = nx.cycle_graph(4)
H.nodes[2]["u"] = 0.5
attempt("err partial-u", lambda: ae.automated_equation(named(H, "pu"), 0.5, 0))
H = with_u(nx.cycle_graph(4), ["s"])
attempt("err str-u", lambda: ae.automated_equation(named(H, "su"), 0.5, 0))
attempt("err empty", lambda: ae.automated_equation(nx.Graph(name="empty"), 0.5, 0))
attempt("err G-None", lambda: ae.automated_equation(None, 0.5, 0))
attempt("err gec-None", lambda: ae.get_edge_combinations(None, [0]))
attempt("err gec-empty", lambda: ae.get_edge_combinations(nx.Graph(name="e2"), []))
attempt("err us-None", lambda: ae.get_us(None, 0))
attempt("err gcs-missing", lambda: ae.get_connected_subgraphs(G, 77))
D = with_u(nx.DiGraph([(0, 1), (1, 2), (2, 0), (2, 3)], name="di"), [0.5, 0.25])
for r in D.nodes():
    attempt(f"digraph root={r}", lambda: ae.automated_equation(D, 0.3, r))
M = with_u(nx.MultiGraph([(0, 1), (0, 1), (1, 2), (2, 0)], name="multi"), [0.5, 0.25])
for r in M.nodes():
    attempt(f"multigraph root={r}", lambda: ae.automated_equation(M, 0.3, r))
# cache poisoning through equal names (different graphs, same name)
A = with_u(named(nx.path_graph(4), "same"), [0.3])
B = with_u(named(nx.complete_graph(4), "same"), [0.3])
C = with_u(named(nx.path_graph(2), "same"), [0.3])
E = with_u(named(nx.relabel_nodes(nx.path_graph(3), {0: 5, 1: 6, 2: 7}), "same"), [0.3])
for tag, X, r in (("A", A, 0), ("B", B, 0), ("C", C, 0), ("E5", E, 5), ("E0", E, 0), ("A1", A, 1), ("B1", B, 1)):
    attempt(f"samename {tag}", lambda: ae.automated_equation(X, 0.4, r))
caches(ae)

# ---- 4. through MessagePassing (pre-existing public entry point)
def covered(edges_by_motif):
    G = nx.Graph()
    for mid, (verts, edges) in enumerate(edges_by_motif):
        for (i, j) in edges:
            G.add_edge(i, j, CoverLabel=f"{len(verts)}-{list(verts)}-{list(edges)}-{mid}")
    return G


net = covered([
    ((0, 1, 2), [(0, 1), (1, 2), (0, 2)]),
    ((2, 3, 4, 5), [(2, 3), (3, 4), (4, 5), (5, 2)]),
    ((5, 6), [(5, 6)]),
    ((6, 7, 8, 9), [(6, 7), (7, 8), (8, 9), (9, 6), (6, 8)]),
    ((9, 0), [(9, 0)]),
    ((1, 10, 11), [(1, 10), (10, 11), (1, 11)]),
])
for iters in (1, 3):
    mp = MessagePassing(net, iterations=iters)
    for phi in (0.0, 0.2, 0.5, 0.8, 1.0):
        attempt(f"MP iters={iters} phi={phi}", lambda: mp.theoretical(phi))
    emit("  H_tau", [(k, show(v)) for k, v in mp._H_tau.items()])
    caches(mp._AE)

emit("random-state", hashlib.sha256(repr(random.getstate()).encode()).hexdigest())
emit("numpy-state", hashlib.sha256(repr(np.random.get_state()).encode()).hexdigest())
text = "\n".join(OUT)
print(text)
print("DIGEST", hashlib.sha256(text.encode()).hexdigest(), len(OUT))
