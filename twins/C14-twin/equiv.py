"""Deterministic digest of the C14 degree-distribution algebra functions.

Run with cwd = a checkout of gcmpy (the package is imported from cwd).
"""
import os
import sys
import random
import hashlib

sys.path.insert(0, os.getcwd())

import numpy as np
import networkx as nx

from gcmpy.tools.joint_excess_from_jdd import JointExcessfromJDD
from gcmpy.tools.joint_degree_from_excess import JointDegreeFromExcess
from gcmpy.tools.joint_excess_from_ejk import JointExcessFromEjk
from gcmpy.tools.joint_degree_distribution_from_network import (
    JointDegreeDistributionFromNetwork,
)
from gcmpy.tools.average_joint_degree_from_jdd import AverageJointDegreeFromJDD
from gcmpy.tools.joint_excess_joint_degree_matrices import (
    JointExcessJointDegreeMatrices,
)
from gcmpy.tools.joint_excess_joint_degree import JointExcessJointDegree
from gcmpy.joint_degree.joint_degree_loaders.joint_degree_manual import (
    JointDegreeManual,
)
from gcmpy.motif_generators.clique_motif import clique_motif
from gcmpy.gcm_algorithm.gcm_algorithm_network import GCMAlgorithmNetwork
from gcmpy.names.gcm_algorithm_names import GCMAlgorithmNames
from gcmpy.names.joint_degree_names import JointDegreeNames
from gcmpy.names.tools_names import ToolsNames


def show(label, obj):
    """Print repr (order-preserving, full float precision) and its digest."""
    text = repr(obj)
    digest = hashlib.sha256(text.encode()).hexdigest()[:16]
    if len(text) > 400:
        text = text[:400] + "..."
    print(f"{label}: {digest} {text}")


def attempt(label, fn):
    try:
        show(label, fn())
    except BaseException as e:  # the library raises strings -> TypeError
        print(f"{label}: EXC {type(e).__name__}: {e}")


def random_jdd(rng, n_top, n_keys, kmax, force_positive=True):
    keys = set()
    n_keys = min(n_keys, (kmax + 1) ** n_top - 1)
    if force_positive:
        keys.add(tuple(rng.randint(1, kmax) for _ in range(n_top)))
    while len(keys) < n_keys:
        keys.add(tuple(rng.randint(0, kmax) for _ in range(n_top)))
    keys = list(keys)
    rng.shuffle(keys)
    w = [rng.random() for _ in keys]
    tot = sum(w)
    return {k: x / tot for k, x in zip(keys, w)}


def algebra(label, jdd, names):
    attempt(f"{label}.avg", lambda: AverageJointDegreeFromJDD.get_average_joint_degrees(jdd))
    qks = JointExcessfromJDD.get_joint_excess_distributions(jdd)
    show(f"{label}.qks", qks)
    show(f"{label}.qsum", [sum(q.values()) for q in qks])
    qd = JointExcessfromJDD.convert_list_qks_to_dict(qks, names)
    show(f"{label}.qdict", qd)
    show(f"{label}.qlist", JointExcessfromJDD.convert_dict_qks_to_list(qd, names))
    for i, n in enumerate(names):
        attempt(f"{label}.inv{i}", lambda: JointDegreeFromExcess.invert_single(qd[n], i))
    attempt(f"{label}.obs", lambda: JointDegreeFromExcess.observations_from_dict(qd, names))
    attempt(f"{label}.P", lambda: JointDegreeFromExcess.get_joint_degree_distribution(qd, names))
    # input must not be mutated
    show(f"{label}.qdict_after", qd)
    show(f"{label}.jdd_after", jdd)


def matrices(label, ejk_dict, names):
    m = JointExcessJointDegreeMatrices({ToolsNames.EJKS: ejk_dict, ToolsNames.EDGE_NAMES: names})
    show(f"{label}.keys", m.excess_degree_keys)
    for n in names:
        attempt(f"{label}.idx.{n}", lambda: m.get_topology_index(n))
    attempt(f"{label}.idx.missing", lambda: m.get_topology_index("nope"))
    attempt(f"{label}.q", lambda: JointExcessFromEjk.get_excess_joint_distributions(m))
    # call history: recompute keys, then again
    m.get_excess_degree_keys()
    show(f"{label}.keys2", m.excess_degree_keys)
    attempt(f"{label}.q2", lambda: JointExcessFromEjk.get_excess_joint_distributions(m))
    return m


def main():
    random.seed(12345)
    np.random.seed(12345)
    rng = random.Random(999)

    # fixed jdds
    algebra("fix2", {(5, 1): 1 / 3, (3, 2): 1 / 3, (1, 3): 1 / 3}, ["a", "b"])
    algebra("fix1", {(1,): 0.2, (2,): 0.5, (7,): 0.3}, ["a"])
    algebra("zeros", {(0, 0): 0.1, (0, 2): 0.2, (3, 0): 0.3, (2, 2): 0.4}, ["a", "b"])
    # no joint degree positive in every topology -> no common key
    algebra("nocommon", {(0, 2): 0.5, (3, 0): 0.5}, ["a", "b"])
    # numpy ints / floats as entries
    algebra("npkeys", {(np.int64(2), np.int64(1)): np.float64(0.25), (np.int64(1), np.int64(4)): np.float64(0.75)}, ["a", "b"])

    for t in range(8):
        n_top = 1 + t % 4
        jdd = random_jdd(rng, n_top, rng.randint(1, 12), 6, force_positive=(t != 5))
        algebra(f"rnd{t}", jdd, [f"t{i}" for i in range(n_top)])

    # hand-made ejk matrices
    ejk_tree = {
        (0, 3, 0, 3): 1 / 81, (0, 3, 4, 1): 5 / 81, (0, 3, 2, 2): 3 / 81,
        (4, 1, 0, 3): 5 / 81, (4, 1, 4, 1): 25 / 81, (4, 1, 2, 2): 15 / 81,
        (2, 2, 0, 3): 3 / 81, (2, 2, 4, 1): 15 / 81, (2, 2, 2, 2): 9 / 81,
    }
    ejk_tri = {
        (3, 1, 3, 1): 16 / 144, (3, 1, 1, 2): 24 / 144, (3, 1, 5, 0): 8 / 144,
        (1, 2, 3, 1): 24 / 144, (1, 2, 1, 2): 36 / 144, (1, 2, 5, 0): 12 / 144,
        (5, 0, 3, 1): 8 / 144, (5, 0, 1, 2): 12 / 144,
    }
    matrices("hand", {"2-clique": ejk_tree, "3-clique": ejk_tri}, ["2-clique", "3-clique"])
    matrices("empty", {"x": {}}, ["x"])
    for t in range(4):
        n_top = 1 + t % 3
        ks = [tuple(rng.randint(0, 4) for _ in range(n_top)) for _ in range(6)]
        d = {}
        for _ in range(rng.randint(3, 20)):
            d[rng.choice(ks) + rng.choice(ks)] = rng.random()
        matrices(f"rndm{t}", {"t": d, "u": dict(list(d.items())[::2])}, ["t", "u"])

    # mismatched lengths guard
    m = JointExcessJointDegreeMatrices()
    m.ejks = {"a": {(1, 1): 1.0}}
    attempt("guard", lambda: JointExcessFromEjk.get_excess_joint_distributions(m))
    m.get_excess_degree_keys()
    attempt("guard2", lambda: JointExcessFromEjk.get_excess_joint_distributions(m))

    # network-derived
    for seed, jdd, sizes in [
        (1, {(5, 1): 1 / 3, (3, 2): 1 / 3, (1, 3): 1 / 3}, [2, 3]),
        (2, {(2, 0): 0.25, (1, 1): 0.5, (4, 2): 0.25}, [2, 3]),
    ]:
        random.seed(seed)
        np.random.seed(seed)
        names = ["2-clique", "3-clique"]
        jds = JointDegreeManual(
            {JointDegreeNames.JDD: jdd, JointDegreeNames.MOTIF_SIZES: sizes}
        ).sample_jds_from_jdd(600)
        g = GCMAlgorithmNetwork(
            {
                GCMAlgorithmNames.MOTIF_SIZES: sizes,
                GCMAlgorithmNames.EDGE_NAMES: names,
                GCMAlgorithmNames.BUILD_FUNCTIONS: [clique_motif, clique_motif],
            }
        ).random_clustered_graph(jds)
        G = g._G
        pk = JointDegreeDistributionFromNetwork.get_joint_degree_distribution(G)
        show(f"net{seed}.pk", pk)
        show(f"net{seed}.pksum", sum(pk.values()))
        algebra(f"net{seed}", pk, names)
        ejks = JointExcessJointDegree({ToolsNames.NETWORK: G, ToolsNames.EDGE_NAMES: names}).get_ejks()
        show(f"net{seed}.ejkkeys", ejks.excess_degree_keys)
        attempt(f"net{seed}.qejk", lambda: JointExcessFromEjk.get_excess_joint_distributions(ejks))
        ejks.get_excess_degree_keys()
        show(f"net{seed}.ejkkeys2", ejks.excess_degree_keys)
        attempt(f"net{seed}.qejk2", lambda: JointExcessFromEjk.get_excess_joint_distributions(ejks))
        show(f"net{seed}.rng", (random.random(), float(np.random.random())))

    # empty / tiny graphs
    attempt("emptyG", lambda: JointDegreeDistributionFromNetwork.get_joint_degree_distribution(nx.Graph()))
    H = nx.Graph()
    from gcmpy.names.network_names import NetworkNames

    for node, jd in [(0, [1, 2]), (1, (1, 2)), (2, (0, 0))]:
        H.add_node(node)
        H.nodes[node][NetworkNames.JOINT_DEGREE] = jd
    attempt("tinyG", lambda: JointDegreeDistributionFromNetwork.get_joint_degree_distribution(H))
    attempt("emptyjdd", lambda: JointExcessfromJDD.get_joint_excess_distributions({}))
    attempt("emptyavg", lambda: AverageJointDegreeFromJDD.get_average_joint_degrees({}))


if __name__ == "__main__":
    main()
