"""Equivalence digest for the C05 refactoring of gcmpy/joint_degree/joint_degree.py.

Run with cwd = a checkout of gcmpy. Prints a deterministic transcript of results,
RNG states and mutated inputs / object state for every refactored function.
"""
import copy
import hashlib
import os
import random
import sys

sys.path.insert(0, os.getcwd())

import numpy as np

from gcmpy.joint_degree.joint_degree import JointDegree


def h(obj) -> str:
    return hashlib.sha256(repr(obj).encode()).hexdigest()[:16]


def rng() -> str:
    return h(random.getstate()) + "/" + h(
        tuple(x.tolist() if hasattr(x, "tolist") else x for x in np.random.get_state())
    )


class Concrete(JointDegree):
    def create_jdd(self) -> None:
        self._jdd = {(1, 0): 1.0}


def make(jdd=None, sizes=None):
    obj = Concrete()
    obj._jdd = jdd
    obj._motif_sizes = sizes
    return obj


def call(label, fn, *args, show=True, **kwargs):
    try:
        res = fn(*args, **kwargs)
        out = ("ok", repr(res) if show else h(res), type(res).__name__)
    except BaseException as e:  # noqa
        out = ("exc", type(e).__name__, str(e))
    print(label, *out, "rng", rng())
    return out


def seed(s):
    random.seed(s)
    np.random.seed(s)


# ---------------------------------------------------------------- __new__
print("== __new__")
seed(0)
call("abstract", JointDegree)
call("abstract-args", JointDegree, 1, a=2)
o = call("concrete", lambda: type(Concrete()).__name__)
c = Concrete()
print("init", c._jdd, c._motif_sizes, c.jdd, c.motif_sizes, Concrete._type)
call("concrete-args", lambda: Concrete(1))

# ------------------------------------------------------ handshaking_lemma
print("== handshaking_lemma")
HS_CASES = [
    ("empty", [], [2, 3]),
    ("empty-none-sizes", [], None),
    ("single", [(1, 1)], [2, 3]),
    ("already-ok", [(2, 3), (2, 3), (0, 0)], [2, 3]),
    ("one-short", [(1, 0), (2, 1), (0, 1)], [2, 3]),
    ("both-short", [(1, 1), (1, 1), (1, 2), (0, 0), (5, 3)], [3, 4]),
    ("big-size", [(1, 1, 1)] * 7, [5, 6, 10]),
    ("size-one", [(1, 2), (3, 4)], [1, 1]),
    ("lists-as-entries", [[1, 1], [0, 2], [2, 2]], [2, 3]),
    ("mixed-len-entries", [(1, 1, 9), (1, 1), (1, 2, 5)], [2, 3, 4]),
    ("extra-sizes", [(1, 1), (0, 1)], [2, 3, 4, 5]),
    ("too-few-sizes", [(1, 1), (0, 1), (1, 0)], [3]),
    ("zero-size", [(1, 1), (0, 1)], [2, 0]),
    ("zero-size-first", [(1, 1), (0, 1)], [0, 2]),
    ("none-sizes", [(1, 1)], None),
    ("negative-entries", [(-1, 2), (0, -5)], [2, 3]),
    ("zero-totals", [(0, 0), (0, 0)], [2, 3]),
    ("float-entries", [(1.0, 2.0), (2.0, 2.0)], [2, 3]),
    ("float-frac-entries", [(1.5, 2.0), (2.0, 2.0)], [2, 3]),
    ("float-sizes", [(1, 2), (2, 2)], [2.0, 3.0]),
    ("numpy-entries", [tuple(np.array([1, 2])), tuple(np.array([2, 2]))], [2, 3]),
    ("tuple-jds", ((1, 1), (0, 1)), [2, 3]),
    ("tuple-jds-ok", ((1, 2), (1, 1)), [2, 3]),
    ("non-iterable-entries", [1, 2], [2]),
    ("string-entries", ["ab", "cd"], [2, 2]),
    ("large", [(i % 4, (i * 7) % 5, i % 3) for i in range(1001)], [2, 3, 7]),
]
for s in (0, 1, 12345):
    for name, jds, sizes in HS_CASES:
        seed(s)
        obj = make({(9, 9): 1.0}, copy.deepcopy(sizes))
        arg = copy.deepcopy(jds)
        out = call(f"hs[{s}] {name}", obj.handshaking_lemma, arg, show=len(jds) < 50)
        print("   arg-after", repr(arg) if len(jds) < 50 else h(arg),
              "sizes-after", obj._motif_sizes, "jdd-after", obj._jdd)
        if out[0] == "ok":
            try:
                res = obj.handshaking_lemma(arg)
                print("   identity", res is arg)
            except BaseException as e:  # noqa
                print("   identity-exc", type(e).__name__)

# call history: repeated calls on the same object & list without reseeding
seed(77)
obj = make(None, [4, 5, 6])
seq = [(1, 2, 3), (3, 2, 1), (0, 0, 1), (2, 2, 2)]
for r in range(5):
    res = obj.handshaking_lemma(seq)
    print("hs-repeat", r, res, res is seq, rng())
    seq[r % len(seq)] = tuple(x + r + 1 for x in seq[r % len(seq)])

# ---------------------------------------------------- private helpers via public path
print("== sample_jds_from_jdd")
JDD_CASES = [
    ("delta", {(3, 1): 1.0}, [2, 3]),
    ("two-keys", {(1, 0): 0.25, (2, 1): 0.75}, [2, 3]),
    ("unnormalised", {(1, 0): 2, (2, 1): 5, (0, 4): 1}, [2, 3]),
    ("three-top", {(1, 0, 2): 0.2, (2, 1, 0): 0.3, (0, 0, 1): 0.5}, [2, 3, 4]),
    ("zero-weight-key", {(1, 1): 0.0, (2, 3): 1.0}, [2, 3]),
    ("all-zero-weights", {(1, 1): 0.0, (2, 3): 0.0}, [2, 3]),
    ("negative-weight", {(1, 1): -1.0, (2, 3): 2.0}, [2, 3]),
    ("empty-jdd", {}, [2, 3]),
    ("none-jdd", None, [2, 3]),
    ("none-sizes", {(1, 1): 1.0}, None),
    ("short-sizes", {(1, 1): 1.0}, [3]),
    ("non-tuple-keys", {"ab": 1.0, "cd": 2.0}, [2, 2]),
    ("int-keys", {1: 1.0, 2: 2.0}, [2]),
    ("insertion-order", {(5, 5): 0.1, (0, 1): 0.6, (3, 0): 0.3}, [2, 3]),
    ("insertion-order-rev", {(3, 0): 0.3, (0, 1): 0.6, (5, 5): 0.1}, [2, 3]),
]
for s in (0, 5):
    for name, jdd, sizes in JDD_CASES:
        for N in (0, 1, 2, 7, 100, 1000, -1, 2.0, None):
            seed(s)
            obj = make(copy.deepcopy(jdd), copy.deepcopy(sizes))
            big = isinstance(N, int) and N > 10
            call(f"sample[{s}] {name} N={N!r}", obj.sample_jds_from_jdd, N, show=not big)
            print("   jdd-after", obj._jdd, "sizes-after", obj._motif_sizes)

# call history: many consecutive samples on one object
seed(2024)
obj = make({(1, 0): 0.25, (2, 1): 0.5, (0, 3): 0.25}, [2, 3])
for r in range(6):
    res = obj.sample_jds_from_jdd(11 + r)
    tot = [sum(c) for c in zip(*res)]
    print("sample-repeat", r, res, tot, rng())

# through the real loaders (they call normalise_jdd / convert_jds_to_jdd themselves)
print("== loaders")
from gcmpy.names.joint_degree_names import JointDegreeNames as JN  # noqa: E402
from gcmpy.joint_degree.joint_degree_loaders.joint_degree_manual import JointDegreeManual  # noqa: E402
from gcmpy.joint_degree.joint_degree_loaders.joint_degree_empirical import JointDegreeEmpirical  # noqa: E402
from gcmpy.joint_degree.joint_degree_loaders.joint_degree_delta import JointDegreeDelta  # noqa: E402
from gcmpy.joint_degree.joint_degree_loaders.joint_degree_split_degree import JointDegreeSplitDegree  # noqa: E402
from gcmpy.joint_degree.joint_degree_loaders.joint_degree_marginal import JointDegreeMarginal  # noqa: E402
from gcmpy.distributions.poisson import poisson  # noqa: E402


def loader(label, build, ns=(25, 400)):
    try:
        seed(3)
        obj = build()
        print(label, "jdd", h(obj.jdd), len(obj.jdd), h(list(obj.jdd)), "sizes", obj.motif_sizes, rng())
        for n in ns:
            out = call(f"{label}-sample N={n}", obj.sample_jds_from_jdd, n, show=n <= 30)
        print(label, "jdd-after", h(obj.jdd), rng())
    except BaseException as e:  # noqa
        print(label, "exc", type(e).__name__, e)


loader("manual", lambda: JointDegreeManual(
    {JN.JDD: {(1, 1): 0.5, (2, 0): 0.5}, JN.MOTIF_SIZES: [2, 3]}))
loader("empirical", lambda: JointDegreeEmpirical(
    {JN.JDS: [(1, 1), (2, 0), (1, 1), (0, 3)], JN.MOTIF_SIZES: [2, 3]}))
loader("empirical-empty", lambda: JointDegreeEmpirical(
    {JN.JDS: [], JN.MOTIF_SIZES: [2, 3]}))
loader("split", lambda: JointDegreeSplitDegree(
    {JN.FP: poisson(2.5), JN.PROBS: [0.6, 0.4], JN.MOTIF_SIZES: [2, 3],
     JN.LOW_HIGH_DEGREE_BOUND: (0, 12)}))
loader("delta", lambda: JointDegreeDelta(
    {JN.TARGET_K: 4, JN.FP: poisson(3.0), JN.PROBS: [0.5, 0.5], JN.MOTIF_SIZES: [2, 3],
     JN.LOW_HIGH_DEGREE_BOUND: (0, 10)}))
loader("marginal", lambda: JointDegreeMarginal(
    {JN.MOTIF_SIZES: [2, 3], JN.ARR_FP: [poisson(2.5), poisson(1.0)],
     JN.LOW_HIGH_DEGREE_BOUND: [(0, 10), (0, 6)]}))
loader("marginal-sampling", lambda: JointDegreeMarginal(
    {JN.MOTIF_SIZES: [2, 3], JN.ARR_FP: [poisson(2.5), poisson(1.0)],
     JN.LOW_HIGH_DEGREE_BOUND: [(0, 10), (0, 6)], JN.USE_SAMPLING: True, JN.N_SAMPLES: 500}))

# ---------------------------------------------------------- normalise_jdd
print("== normalise_jdd")
from fractions import Fraction  # noqa: E402

NORM_CASES = [
    ("ints", {(1, 0): 2, (2, 1): 5, (0, 4): 1}),
    ("floats", {(1, 0): 0.1, (2, 1): 0.2, (0, 4): 0.3}),
    ("already", {(1, 0): 0.25, (2, 1): 0.75}),
    ("single", {(1, 0): 7}),
    ("empty", {}),
    ("zero-sum", {(1, 0): 0, (2, 1): 0}),
    ("zero-sum-float", {(1, 0): 0.0, (2, 1): 0.0}),
    ("cancel", {(1, 0): 1, (2, 1): -1, (3, 3): 4}),
    ("fractions", {(1, 0): Fraction(1, 3), (2, 1): Fraction(1, 6)}),
    ("numpy", {(1, 0): np.float64(0.3), (2, 1): np.int64(4)}),
    ("mixed-bad", {(1, 0): 1, (2, 1): "x"}),
    ("none", None),
]
for name, jdd in NORM_CASES:
    seed(9)
    obj = make(copy.deepcopy(jdd), [2, 3])
    before_id = id(obj._jdd)
    call(f"norm {name}", obj.normalise_jdd)
    print("   jdd-after", repr(obj._jdd), "same-dict", id(obj._jdd) == before_id,
          "key-order", list(obj._jdd) if obj._jdd is not None else None,
          "types", [type(v).__name__ for v in obj._jdd.values()] if obj._jdd else None)
    if jdd:
        call(f"norm-again {name}", obj.normalise_jdd)
        print("   jdd-after2", repr(obj._jdd))

# ----------------------------------------------------- convert_jds_to_jdd
print("== convert_jds_to_jdd")


def gen():
    yield (1, 1)


CONV_CASES = [
    ("basic", [(1, 1), (2, 0), (1, 1), (0, 3)]),
    ("order", [(0, 3), (2, 0), (1, 1), (2, 0), (0, 3), (0, 3)]),
    ("single", [(4, 4)]),
    ("empty", []),
    ("tuple-input", ((1, 1), (2, 0))),
    ("unhashable", [(1, 1), [2, 0]]),
    ("unhashable-first", [[1, 1], (2, 0)]),
    ("generator", gen()),
    ("none", None),
    ("string", "aab"),
    ("dict-input", {(1, 1): 3, (2, 2): 1}),
    ("counter-like-mapping", {"a": 2, "b": 0}),
    ("equal-keys-mixed-type", [(1, 1), (1.0, 1.0), (True, 1)]),
    ("large", [(i % 4, (i * 7) % 5) for i in range(997)]),
]
for name, jds in CONV_CASES:
    seed(11)
    obj = make({"sentinel": 1.0}, [2, 3])
    old = obj._jdd
    arg = jds if name == "generator" else copy.deepcopy(jds)
    call(f"conv {name}", obj.convert_jds_to_jdd, arg)
    print("   jdd-after", repr(obj._jdd) if name != "large" else h(obj._jdd),
          "key-order", h(list(obj._jdd)) if obj._jdd is not None else None,
          "replaced", obj._jdd is not old, "old-untouched", old == {"sentinel": 1.0},
          "arg-after", h(arg) if name != "generator" else "-")
    # and sampling from the converted distribution
    seed(12)
    call(f"conv-then-sample {name}", obj.sample_jds_from_jdd, 9)

# ------------------------------------------------------------ properties
print("== properties")
obj = make()
obj.jdd = {(1, 2): 1.0}
obj.motif_sizes = [2, 3]
print(obj.jdd, obj._jdd, obj.motif_sizes, obj._motif_sizes)
seed(1)
call("prop-sample", obj.sample_jds_from_jdd, 5)

# statistical sanity: proportions + minimal perturbation (deterministic under seed)
print("== proportions")
seed(31337)
obj = make({(1, 0): 0.2, (0, 1): 0.3, (2, 2): 0.5}, [2, 3])
res = obj.sample_jds_from_jdd(20000)
from collections import Counter  # noqa: E402

print(sorted(Counter(res).items()), [sum(c) for c in zip(*res)], len(res), rng())
print("== end", rng())
