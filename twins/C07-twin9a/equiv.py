import sys, os; sys.path.insert(0, os.getcwd())
import random, hashlib, math, fractions
import numpy as np

from gcmpy.joint_degree.joint_degree_loaders.joint_degree_split_degree import (
    JointDegreeSplitDegree,
)
from gcmpy.joint_degree.joint_degree_loaders.joint_degree_delta import JointDegreeDelta
from gcmpy.joint_degree.joint_degree_factory import JointDegreeFactory
from gcmpy.joint_degree.joint_degree_type import JointDegreeType
from gcmpy.names.joint_degree_names import JointDegreeNames as N
from gcmpy.distributions.power_law import power_law
from gcmpy.distributions.poisson import poisson

H = hashlib.sha256()
LINES = 0


def out(*parts):
    global LINES
    s = " ".join(str(p) for p in parts)
    H.update(s.encode() + b"\n")
    LINES += 1
    if LINES <= 400:
        print(s)


def rng_state():
    a = hashlib.sha256(repr(random.getstate()).encode()).hexdigest()[:16]
    st = np.random.get_state()
    b = hashlib.sha256(repr((st[0], st[1].tolist(), st[2:])).encode()).hexdigest()[:16]
    return a + "/" + b


def show(v):
    if isinstance(v, dict):
        return "{" + ", ".join(show(k) + ": " + show(x) for k, x in v.items()) + "}"
    if isinstance(v, (list, tuple)):
        o, c = ("[", "]") if isinstance(v, list) else ("(", ")")
        return o + ", ".join(show(x) for x in v) + c
    if isinstance(v, np.ndarray):
        return "ndarray[%s]:%r" % (v.dtype, v.tolist())
    if v is None or isinstance(v, (int, float, str, bool, complex, fractions.Fraction, np.generic, range)):
        return type(v).__name__ + ":" + repr(v)
    return "<" + type(v).__name__ + ">"


def attempt(label, fn):
    try:
        r = fn()
        out(label, "->", show(r), "| rng", rng_state())
        return r
    except BaseException as e:
        ctx = e.__context__
        out(label, "!!", type(e).__name__, repr(str(e)),
            "| ctx", type(ctx).__name__ if ctx is not None else None,
            repr(str(ctx)) if ctx is not None else None, "| rng", rng_state())
        return None


def state(o):
    return show({k: (v if not callable(v) else "<callable>") for k, v in vars(o).items()})


def params(probs, sizes, bound, fp, target=None, drop=None):
    p = {N.PROBS: probs, N.MOTIF_SIZES: sizes, N.LOW_HIGH_DEGREE_BOUND: bound, N.FP: fp}
    if target is not None or drop == "keep_none_target":
        p[N.TARGET_K] = target
    if drop in p:
        del p[drop]
    return p


def rand_fp(k):
    return random.random() + 0.01


def np_fp(k):
    return float(np.random.random()) + 0.01


def bad_fp(k):
    if k == 4:
        raise RuntimeError("fp fails at 4")
    return 1.0 / (k + 1)


def zero_fp(k):
    return 0.0


def neg_fp(k):
    return -1.0 if k % 2 else 2.5


FPS = [("pl2.5", power_law(2.5)), ("poi3", poisson(3.0)), ("rand", rand_fp),
       ("np", np_fp), ("bad", bad_fp), ("zero", zero_fp), ("neg", neg_fp),
       ("int", lambda k: k), ("frac", lambda k: fractions.Fraction(1, k + 2)),
       ("str", lambda k: "x"), ("none", lambda k: None), ("nan", lambda k: float("nan"))]

PROBS = [[1.0], [0.8, 0.2], [0.5, 0.3, 0.2], [0.4, 0.3, 0.2, 0.1], [0.0, 1.0], [1.0, 0.0],
         [0.0, 0.0], [], [0.7, 0.3, 0.0], [2, 3], [-0.5, 0.5], (0.6, 0.4),
         [0.5, "a"], [None, 0.5], [1e-200, 1e-200], [1e200, 1e200],
         [fractions.Fraction(1, 3), fractions.Fraction(2, 3)], np.array([0.25, 0.75])]

SIZES = [[2], [2, 3], [2, 3, 4], [2, 3, 4, 5], [], None, (2, 3), [3, 2], 5, "ab"]

BOUNDS = [(1, 8), (0, 6), (3, 4), (5, 5), (7, 2), (-3, 3), [2, 9], (1,), (), None,
          (1.0, 4), (1, 4, 9), "15", (0, 1), (2, 3)]

TARGETS = [3, 0, 1, 7, 100, -1, 3.0, float("nan"), "3", None, True, np.int64(4), [3]]


def run_split(label, p):
    o = attempt(label + " ctor", lambda: JointDegreeSplitDegree(p))
    if o is not None:
        out(label, "state", state(o))
        out(label, "jdd/motif", show(o.jdd), show(o.motif_sizes))
    return o


def run_delta(label, p):
    o = attempt(label + " ctor", lambda: JointDegreeDelta(p))
    if o is not None:
        out(label, "state", state(o))
        out(label, "jdd/motif", show(o.jdd), show(o.motif_sizes))
    return o


def grid():
    # constructors over the full grid of shapes
    for ip, pr in enumerate(PROBS):
        for isz, sz in enumerate(SIZES):
            for ib, bd in enumerate(BOUNDS):
                if (ip + isz + ib) % 3 and not (ip < 4 and isz < 4 and ib < 5):
                    continue
                fname, fp = FPS[(ip + 2 * isz + 3 * ib) % len(FPS)]
                lab = "S p%d s%d b%d %s" % (ip, isz, ib, fname)
                run_split(lab, params(pr, sz, bd, fp))
                tg = TARGETS[(ip + isz + ib) % len(TARGETS)]
                lab = "D p%d s%d b%d %s t%r" % (ip, isz, ib, fname, tg)
                run_delta(lab, params(pr, sz, bd, fp, target=tg, drop="keep_none_target"))
    # every fp and every target on a fixed shape
    for fname, fp in FPS:
        run_split("S fp " + fname, params([0.5, 0.3, 0.2], [2, 3, 4], (0, 9), fp))
        run_delta("D fp " + fname, params([0.5, 0.3, 0.2], [2, 3, 4], (0, 9), fp, target=4))
    for tg in TARGETS:
        for sz in SIZES:
            run_delta("D tg %r sz %r" % (tg, sz),
                      params([0.6, 0.4], sz, (0, 8), rand_fp, target=tg, drop="keep_none_target"))
    # missing keys
    for key in [N.PROBS, N.MOTIF_SIZES, N.LOW_HIGH_DEGREE_BOUND, N.FP, N.TARGET_K]:
        p = params([0.8, 0.2], [2, 3], (1, 5), rand_fp, target=3)
        del p[key]
        run_split("S missing %s" % key.name, p)
        run_delta("D missing %s" % key.name, p)
    attempt("S params None", lambda: JointDegreeSplitDegree(None))
    attempt("D params None", lambda: JointDegreeDelta(None))
    # factory
    for t in (JointDegreeType.SPLIT_DEGREE, JointDegreeType.DELTA):
        o = attempt("factory %s" % t, lambda: JointDegreeFactory.resolve_joint_degree(
            t, params([0.7, 0.2, 0.1], [2, 3, 4], (1, 12), power_law(2.2), target=6)))
        out("factory jdd", show(o.jdd))


def methods():
    for cls, tg in ((JointDegreeSplitDegree, None), (JointDegreeDelta, 3)):
        o = cls(params([0.5, 0.3, 0.2], [2, 3, 4], (1, 7), power_law(2.0), target=tg))
        nm = cls.__name__
        # calc_prob_of_joint_degree directly
        for jd in [(0, 0, 0), (1, 2, 3), [4, 0, 1], (1, 2), (1,), (), (1, 2, 3, 4), (1.5, 2, 0),
                   (-1, 0, 0), ("a", 1, 1), (None,), 5, None, "12", (True, False, True),
                   (10 ** 3, 10 ** 3, 10 ** 3), (fractions.Fraction(1, 2), 0, 0), iter([1, 1, 1]),
                   np.array([1, 2, 1]), {0: 1, 2: 3}, (0, 0, 0, 0), (2 ** 70, 0, 0)]:
            attempt(nm + " calc %r" % (jd if not hasattr(jd, "__next__") else "iter",),
                    lambda: o.calc_prob_of_joint_degree(jd))
        for pr in PROBS:
            o._probs = pr
            for jd in [(1, 1), (0, 0, 0), (2, 1, 1, 1), (), (3,)]:
                attempt(nm + " calc probs=%r jd=%r" % (pr, jd), lambda: o.calc_prob_of_joint_degree(jd))
        o._probs = [0.5, 0.3, 0.2]
        # get_valid_joint_degrees directly
        for rd in [0, 1, 2, 5, 9, -1, -4, 2.0, 5.5, True, "3", None, np.int64(6), fractions.Fraction(7, 2)]:
            for top in [1, 2, 3, 4, 0, -1, 2.0, None, True]:
                attempt(nm + " valid rd=%r top=%r" % (rd, top),
                        lambda: list(o.get_valid_joint_degrees(rd, top)))
        g = o.get_valid_joint_degrees(6, 3)
        attempt(nm + " valid gen step1", lambda: next(g))
        attempt(nm + " valid gen step2", lambda: next(g))
        attempt(nm + " valid gen rest", lambda: list(g))
        # resolve_degree directly, repeated on one object
        for k, pk in [(0, 0.5), (1, 0.25), (5, 1.0), (5, 2.0), (8, 0.0), (-2, 0.3), (6, -1.0),
                      (3, 7), (4, "w"), (4, None), (2.0, 0.1), ("3", 0.1), (None, 0.1),
                      (12, float("inf")), (12, float("nan")), (True, 0.5), (np.int64(5), 0.125),
                      (4, fractions.Fraction(1, 3)), (7, [1])]:
            attempt(nm + " resolve k=%r pk=%r" % (k, pk), lambda: o.resolve_degree(k, pk))
            out(nm, "jdd after", show(o.jdd))
        for pr in PROBS:
            o._probs = pr
            o._jdd = {}
            for k in (0, 3, 6):
                attempt(nm + " resolve probs=%r k=%d" % (pr, k), lambda: o.resolve_degree(k, 0.5))
            out(nm, "jdd after", show(o.jdd))
            attempt(nm + " normalise", lambda: o.normalise_jdd())
            out(nm, "jdd normalised", show(o.jdd))
        # create_jdd repeated, with changed state
        o._probs = [0.6, 0.3, 0.1]
        for i in range(3):
            o._fp = rand_fp
            attempt(nm + " create_jdd #%d" % i, lambda: o.create_jdd())
            out(nm, "jdd", show(o.jdd))
            o._low_high_degree_bound = (i, 2 * i + 4)
            if tg is not None:
                o._target_k = i + 2
        for sz in SIZES:
            o.motif_sizes = sz
            attempt(nm + " create_jdd sizes=%r" % (sz,), lambda: o.create_jdd())
            out(nm, "jdd", show(o.jdd), state(o))
        o.motif_sizes = [2, 3, 4]
        o._low_high_degree_bound = (1, 9)
        o._fp = power_law(2.0)
        o.create_jdd()
        # property: mass at overall degree k proportional to fp(k)
        tot = {}
        for jd, v in o.jdd.items():
            kk = sum((i + 1) * d for i, d in enumerate(jd))
            tot[kk] = tot.get(kk, 0.0) + v
        out(nm, "mass per k", show(tot), "sum", repr(sum(o.jdd.values())))
        # sampling
        for n in (0, 1, 7, 50, 501):
            attempt(nm + " sample %d" % n, lambda: o.sample_jds_from_jdd(n))
        o.jdd = {(1, 0, 0): 0.5, (0, 1, 0): 0.5}
        attempt(nm + " sample after setter", lambda: o.sample_jds_from_jdd(9))
        attempt(nm + " convert", lambda: o.convert_jds_to_jdd([(1, 0, 0), (1, 0, 0), (0, 0, 1)]))
        out(nm, "jdd", show(o.jdd))
        attempt(nm + " create again", lambda: o.create_jdd())
        out(nm, "jdd", show(o.jdd), state(o))
    # uninitialised object driven by hand
    for cls in (JointDegreeSplitDegree, JointDegreeDelta):
        o = cls.__new__(cls)
        attempt(cls.__name__ + " bare create", lambda: o.create_jdd())
        attempt(cls.__name__ + " bare resolve", lambda: o.resolve_degree(3, 0.5))
        attempt(cls.__name__ + " bare calc", lambda: o.calc_prob_of_joint_degree((1, 1)))
        attempt(cls.__name__ + " bare valid", lambda: list(o.get_valid_joint_degrees(4, 2)))
        out(cls.__name__, "bare state", state(o))
    # larger realistic runs
    for cls, tg in ((JointDegreeSplitDegree, None), (JointDegreeDelta, 12)):
        o = cls(params([0.55, 0.25, 0.15, 0.05], [2, 3, 4, 5], (1, 40), poisson(6.0), target=tg))
        out(cls.__name__, "big", len(o.jdd), hashlib.sha256(show(o.jdd).encode()).hexdigest())
        r = o.sample_jds_from_jdd(3000)
        out(cls.__name__, "big sample", hashlib.sha256(show(r).encode()).hexdigest(), rng_state())


def main():
    random.seed(20261004)
    np.random.seed(20261004)
    grid()
    methods()
    EXTRA()
    out("final rng", rng_state())
    print("lines", LINES)
    print("digest", H.hexdigest())


def EXTRA():
    # variant a: calc_prob_of_joint_degree on many random joint degrees / prob vectors
    o = JointDegreeSplitDegree(params([0.5, 0.5], [2, 3], (1, 3), power_law(2.0)))
    r = random.Random(7)
    for n in range(0, 7):
        for rep in range(40):
            pr = [r.choice([0.0, 1.0, r.random(), r.random() * 3, -r.random(), r.randint(0, 3)])
                  for _ in range(n)]
            o._probs = pr
            for m in (n - 1, n, n + 1):
                if m < 0:
                    continue
                jd = tuple(r.choice([0, 0, 1, 2, 3, 5, 17, r.randint(0, 400), -1, 0.5]) for _ in range(m))
                attempt("a calc n=%d probs=%r jd=%r" % (n, pr, jd), lambda: o.calc_prob_of_joint_degree(jd))
    # negative-index wrap must not appear: one-element probs, longer jd
    o._probs = [0.25]
    attempt("a wrap", lambda: o.calc_prob_of_joint_degree((2, 1)))
    o._probs = {0: 0.5, 1: 0.5, -1: 9.0}
    attempt("a dict probs", lambda: o.calc_prob_of_joint_degree((1, 1)))
    attempt("a dict probs long", lambda: o.calc_prob_of_joint_degree((1, 1, 1)))
    o._probs = "ab"
    attempt("a str probs", lambda: o.calc_prob_of_joint_degree((1, 1)))
    o._probs = [np.array([0.5, 0.25]), 0.5]
    attempt("a array probs", lambda: o.calc_prob_of_joint_degree((2, 1)))
    for cls, tg in ((JointDegreeSplitDegree, None), (JointDegreeDelta, 9)):
        for n in range(1, 6):
            pr = [r.random() for _ in range(n)]
            ob = cls(params(pr, list(range(2, n + 2)), (0, 14), rand_fp, target=tg))
            out("a full", cls.__name__, n, show(ob.jdd))


main()
