import sys, os; sys.path.insert(0, os.getcwd())
import hashlib, math, random, collections, types
import numpy as np

from gcmpy.joint_degree.joint_degree import JointDegree
from gcmpy.joint_degree.joint_degree_type import JointDegreeType
from gcmpy.joint_degree.joint_degree_factory import JointDegreeFactory
from gcmpy.joint_degree.joint_degree_distribution import JointDegreeDistribution
from gcmpy.joint_degree.joint_degree_loaders.joint_degree_manual import JointDegreeManual
from gcmpy.joint_degree.joint_degree_loaders.joint_degree_empirical import JointDegreeEmpirical
from gcmpy.joint_degree.joint_degree_loaders.joint_degree_marginal import JointDegreeMarginal
from gcmpy.joint_degree.joint_degree_loaders.joint_degree_function import JointDegreeFunction
from gcmpy.names.joint_degree_names import JointDegreeNames as N

random.seed(20261004)
np.random.seed(20261004)

LINES = []


def emit(*parts):
    line = " | ".join(str(p) for p in parts)
    LINES.append(line)
    print(line)


def fx(v):
    if isinstance(v, bool) or v is None:
        return repr(v)
    if isinstance(v, float):
        return v.hex()
    if isinstance(v, (int, str)):
        return repr(v)
    if isinstance(v, dict):
        return "{" + ", ".join(f"{fx(k)}: {fx(x)}" for k, x in v.items()) + "}"
    if isinstance(v, (list, tuple)):
        o, c = ("[", "]") if isinstance(v, list) else ("(", ")")
        return o + ", ".join(fx(x) for x in v) + c
    if callable(v):
        return "<callable %s>" % getattr(v, "__name__", type(v).__name__)
    return "<%s %r>" % (type(v).__name__, v)


def exc_chain(e):
    out = []
    while e is not None:
        out.append(f"{type(e).__name__}({e})")
        e = e.__context__
    return " <- ".join(out)


def state(obj):
    """publicly visible state of a loader: instance dict in insertion order"""
    if obj is None:
        return "None"
    return type(obj).__name__ + " " + fx(dict(vars(obj)))


def rng():
    h = hashlib.sha256(repr(random.getstate()).encode()).hexdigest()[:16]
    s = np.random.get_state()
    g = hashlib.sha256(s[1].tobytes() + repr(s[2:]).encode()).hexdigest()[:16]
    return f"py={h} np={g}"


def attempt(label, fn):
    try:
        r = fn()
        emit(label, "OK", r, rng())
    except BaseException as e:  # noqa
        emit(label, "EXC", exc_chain(e), rng())


def poisson(lam):
    return lambda k: math.exp(-lam) * lam ** k / math.factorial(k)


def geometric(p):
    return lambda k: p * (1 - p) ** k


def joint(jd):
    return math.exp(-sum(jd)) / (1 + jd[0])


class Weird:
    """equal to everything, hashable"""
    def __eq__(self, other):
        return True
    def __hash__(self):
        return 7
    def __repr__(self):
        return "Weird()"


class Never:
    def __eq__(self, other):
        return False
    __hash__ = None
    def __repr__(self):
        return "Never()"


class CountingDict(dict):
    """dict subclass recording the protocol calls made on it"""
    def __init__(self, *a, **k):
        super().__init__(*a, **k)
        self.log = []
    def __getitem__(self, k):
        self.log.append(("getitem", getattr(k, "name", k)))
        return super().__getitem__(k)
    def __contains__(self, k):
        self.log.append(("contains", getattr(k, "name", k)))
        return super().__contains__(k)
    def get(self, k, d=None):
        self.log.append(("get", getattr(k, "name", k)))
        return super().get(k, d)


def marginal_params(**over):
    p = {
        N.JOINT_DEGREE_TYPE: "marginal",
        N.MOTIF_SIZES: [2, 3],
        N.ARR_FP: [poisson(1.5), geometric(0.4)],
        N.LOW_HIGH_DEGREE_BOUND: [(0, 5), (1, 4)],
    }
    for k, v in over.items():
        key = N[k]
        if v is DROP:
            p.pop(key, None)
        else:
            p[key] = v
    return p


DROP = object()


def all_params():
    return {
        "manual": {N.JOINT_DEGREE_TYPE: "manual", N.MOTIF_SIZES: [2, 3],
                   N.JDD: {(1, 0): 0.25, (2, 1): 0.5, (0, 3): 0.25}},
        "empirical": {N.JOINT_DEGREE_TYPE: "empirical", N.MOTIF_SIZES: [2, 3],
                      N.JDS: [(1, 0), (2, 1), (1, 0), (0, 0), (2, 1), (1, 0), (3, 3)]},
        "function": {N.JOINT_DEGREE_TYPE: "function", N.MOTIF_SIZES: [2, 3],
                     N.FP: joint, N.LOW_HIGH_DEGREE_BOUND: [(0, 3), (1, 2)]},
        "marginal": marginal_params(),
        "marginal_s": marginal_params(USE_SAMPLING=True, N_SAMPLES=500),
        "split_degree": {N.JOINT_DEGREE_TYPE: "split_degree", N.MOTIF_SIZES: [2, 3],
                         N.FP: poisson(2.0), N.PROBS: [0.5, 0.5],
                         N.LOW_HIGH_DEGREE_BOUND: (0, 6)},
        "delta": {N.JOINT_DEGREE_TYPE: "delta", N.MOTIF_SIZES: [2, 3], N.TARGET_K: 4,
                  N.FP: poisson(2.0), N.PROBS: [0.5, 0.5],
                  N.LOW_HIGH_DEGREE_BOUND: (0, 6)},
        "cover": {N.JOINT_DEGREE_TYPE: "cover",
                  N.COVER: [[0, 1], [1, 2], [2, 3, 4], [0, 3, 4], [4, 5]]},
    }


def use(loader, n=25):
    """exercise a built loader repeatedly: jdd, sampling, re-create"""
    out = [state(loader)]
    out.append(fx(loader.jdd))
    try:
        out.append(fx(loader.sample_jds_from_jdd(n)))
        out.append(fx(loader.sample_jds_from_jdd(n + 1)))
    except BaseException as e:  # noqa
        out.append("sampleEXC " + exc_chain(e))
    try:
        loader.create_jdd()
        out.append(fx(loader.jdd))
        loader.create_jdd()
        out.append(fx(loader.jdd))
    except BaseException as e:  # noqa
        out.append("recreateEXC " + exc_chain(e))
    out.append(state(loader))
    return hashlib.sha256("\n".join(out).encode()).hexdigest()[:20] + " n=%d sum=%s" % (
        len(loader.jdd), fx(float(sum(loader.jdd.values()))))


# ---------------------------------------------------------------- variant c
# JointDegreeDistribution.load_joint_degree : the type-dispatching entry point
P = all_params()
DIRECT = {"manual": JointDegreeManual, "empirical": JointDegreeEmpirical,
          "function": JointDegreeFunction, "marginal": JointDegreeMarginal,
          "marginal_s": JointDegreeMarginal}

emit("== good params: entry point vs direct construction ==")
for rep in range(3):
    for name, p in P.items():
        before = list(p.items())
        holder = {}

        def via_load(p=p, holder=holder):
            o = JointDegreeDistribution.load_joint_degree(p)
            holder["o"] = o
            return type(o).__name__ + " " + fx(o.jdd)[:120] + " " + use(o, 10)

        attempt("load %s #%d" % (name, rep), via_load)
        assert list(p.items()) == before
        if name in DIRECT:
            random.seed(77 + rep); np.random.seed(77 + rep)
            d = DIRECT[name](p)
            dj = fx(d.jdd)
            random.seed(77 + rep); np.random.seed(77 + rep)
            l = JointDegreeDistribution.load_joint_degree(p)
            # load = construct (one create_jdd) + one more create_jdd
            random.seed(77 + rep); np.random.seed(77 + rep)
            d2 = DIRECT[name](p); d2.create_jdd()
            emit("   direct==load", name, fx(l.jdd) == fx(d2.jdd), dj == fx(l.jdd),
                 hashlib.sha256(fx(l.jdd).encode()).hexdigest()[:12], rng())

emit("== the type value: every spelling ==")
TYPE_VALUES = ["manual", "empirical", "function", "marginal", "split_degree", "delta", "cover",
               "undefined", "MANUAL", "Manual", " manual", "", None, 0, 1, True, 2.5, (), [],
               {}, set(), ["manual"], b"manual", JointDegreeType.MANUAL, JointDegreeType.COVER,
               JointDegreeType.UNDEFINED, JointDegreeType, N.JDD, N.JOINT_DEGREE_TYPE,
               float("nan"), Weird(), Never(), np.str_("manual"), np.array(["manual"]),
               np.array(["manual", "cover"])]
merged = {}
for p in P.values():
    merged.update(p)
for i, tv in enumerate(TYPE_VALUES):
    p = dict(merged)
    p[N.JOINT_DEGREE_TYPE] = tv
    before = list(p.items())
    try:
        lab = "type[%d] %s" % (i, type(tv).__name__)
    except Exception:
        lab = "type[%d]" % i
    attempt(lab, lambda p=p: (lambda o: type(o).__name__ + " " + use(o, 5))(
        JointDegreeDistribution.load_joint_degree(p)))
    assert len(p) == len(before)

emit("== missing / misplaced type key, non-dict params ==")
for bad in (None, 5, "joint_degree_type", [], [("joint_degree_type", "manual")], (), {},
            {"joint_degree_type": "manual"}, {"JOINT_DEGREE_TYPE": "manual"},
            {N.JOINT_DEGREE_TYPE.value: "manual", **P["manual"]},
            {k: v for k, v in P["manual"].items() if k is not N.JOINT_DEGREE_TYPE}):
    attempt("nokey %s" % (sorted(map(str, bad)) if isinstance(bad, dict) else repr(bad)),
            lambda bad=bad: state(JointDegreeDistribution.load_joint_degree(bad)))

emit("== valid type, constructor-level failures propagate unchanged ==")
for tname in ["manual", "empirical", "function", "marginal", "split_degree", "delta", "cover"]:
    for extra in ({}, {N.MOTIF_SIZES: [2, 3]}, {N.MOTIF_SIZES: [2], N.JDS: []},
                  {N.MOTIF_SIZES: [2], N.JDD: {}},
                  {N.MOTIF_SIZES: [2], N.FP: joint, N.LOW_HIGH_DEGREE_BOUND: 3},
                  {N.MOTIF_SIZES: [2], N.ARR_FP: [], N.LOW_HIGH_DEGREE_BOUND: [(0, 2)]},
                  {N.COVER: []}, {N.COVER: [[1, 2], [2, 3]]}):
        p = {N.JOINT_DEGREE_TYPE: tname, **extra}
        attempt("ctorfail %s %s" % (tname, sorted(k.name for k in extra)),
                lambda p=p: (lambda o: state(o) + " " + use(o, 3))(
                    JointDegreeDistribution.load_joint_degree(p)))

emit("== protocol calls on params made by the entry point ==")
for name, p in P.items():
    cd = CountingDict(p)
    attempt("counting %s" % name,
            lambda cd=cd: type(JointDegreeDistribution.load_joint_degree(cd)).__name__)
    emit("   calls", cd.log)
cd = CountingDict({})
attempt("counting empty", lambda: JointDegreeDistribution.load_joint_degree(cd))
emit("   calls", cd.log)

emit("== create_jdd is run exactly once more by the entry point ==")
calls = []


def counting_fp(jd):
    calls.append(jd)
    return 1.0


p = {N.JOINT_DEGREE_TYPE: "function", N.MOTIF_SIZES: [2], N.FP: counting_fp,
     N.LOW_HIGH_DEGREE_BOUND: [(0, 2)]}
o = JointDegreeDistribution.load_joint_degree(p)
emit("fp calls", calls, fx(o.jdd))
calls.clear()
mcalls = []


def counting_marg(k):
    mcalls.append(k)
    return 1.0 / (1 + k)


for us in (False, True):
    mcalls.clear()
    p = {N.JOINT_DEGREE_TYPE: "marginal", N.MOTIF_SIZES: [2], N.ARR_FP: [counting_marg],
         N.LOW_HIGH_DEGREE_BOUND: [(0, 3)], N.USE_SAMPLING: us, N.N_SAMPLES: 40}
    o = JointDegreeDistribution.load_joint_degree(p)
    emit("marg calls", us, mcalls, fx(o.jdd), rng())

emit("== entry point object ==")
emit(sorted(k for k in vars(JointDegreeDistribution) if not k.startswith("__")),
     type(vars(JointDegreeDistribution)["load_joint_degree"]).__name__,
     JointDegreeDistribution.load_joint_degree.__code__.co_varnames[:1],
     type(JointDegreeDistribution().load_joint_degree(P["manual"])).__name__,
     type(JointDegreeDistribution.load_joint_degree(params=P["manual"])).__name__)

emit("FINAL", rng(), hashlib.sha256("\n".join(LINES).encode()).hexdigest())
