import sys, os; sys.path.insert(0, os.getcwd())

import copy
import hashlib
import random
import types
from fractions import Fraction

import numpy as np

from gcmpy.joint_degree.joint_degree_factory import JointDegreeFactory
from gcmpy.joint_degree.joint_degree_loaders.joint_degree_delta import JointDegreeDelta
from gcmpy.joint_degree.joint_degree_loaders.joint_degree_split_degree import (
    JointDegreeSplitDegree,
)
from gcmpy.joint_degree.joint_degree_type import JointDegreeType
from gcmpy.names.joint_degree_names import JointDegreeNames as N
from gcmpy.distributions.power_law import power_law
from gcmpy.distributions.poisson import poisson


def rng_digest():
    h = hashlib.sha256()
    h.update(repr(random.getstate()).encode())
    h.update(repr(np.random.get_state()).encode())
    return h.hexdigest()[:16]


def show(label, value):
    print(f"{label}: {value!r}")


def show_jdd(label, jdd, full=True):
    items = list(jdd.items())
    text = repr(items)
    print(f"{label}: n={len(items)} sha={hashlib.sha256(text.encode()).hexdigest()[:16]}")
    if full:
        for key, val in items:
            print(f"    {key!r} -> {val!r} ({type(val).__name__})")


def attempt(label, fn, msg=True):
    try:
        out = fn()
    except BaseException as exc:  # noqa
        ctx = type(exc.__context__).__name__ if exc.__context__ is not None else None
        text = str(exc) if msg else "<message names a private attribute>"
        print(f"{label}: RAISED {type(exc).__name__}: {text} [context={ctx}]")
        return None
    return out


class CountingFn:
    """overall degree function that records the order of its calls"""

    def __init__(self, fn):
        self.fn = fn
        self.calls = []

    def __call__(self, k):
        self.calls.append(k)
        return self.fn(k)


def make_params(kind, probs, sizes, bounds, fp, target=None):
    p = {}
    p[N.MOTIF_SIZES] = sizes
    p[N.PROBS] = probs
    p[N.FP] = fp
    p[N.LOW_HIGH_DEGREE_BOUND] = bounds
    if target is not None:
        p[N.TARGET_K] = target
    return p


def params_snapshot(p):
    return repr([(k.name, v if not callable(v) else "<fn>") for k, v in p.items()])


random.seed(12345)
np.random.seed(12345)

lin = lambda k: 1.0 / (1 + k)  # noqa
flat = lambda k: 1  # noqa
frac = lambda k: Fraction(1, k + 2)  # noqa

CASES = [
    ("two_top", [0.8, 0.2], [2, 3], (1, 12), power_law(2.5), 3),
    ("three_top", [0.6, 0.3, 0.1], [2, 3, 4], (0, 10), poisson(3.0), 6),
    ("four_top", [0.4, 0.3, 0.2, 0.1], [2, 3, 4, 5], (2, 9), lin, 8),
    ("one_top", [1.0], [2], (1, 6), lin, 2),
    ("int_probs", [1, 1], [2, 3], (1, 7), flat, 4),
    ("frac_probs", [Fraction(3, 4), Fraction(1, 4)], [2, 3], (1, 7), frac, 5),
    ("list_bounds_extra", [0.5, 0.5], [2, 3], [1, 6, 99], lin, 1),
    ("target_outside", [0.7, 0.3], [2, 3], (1, 6), lin, 50),
    ("target_nan", [0.7, 0.3], [2, 3], (1, 6), lin, float("nan")),
    ("target_float_eq", [0.7, 0.3], [2, 3], (1, 6), lin, 4.0),
    ("empty_range", [0.7, 0.3], [2, 3], (5, 5), lin, 5),
    ("probs_tuple", (0.25, 0.75), (2, 3), (1, 8), power_law(2.0), 7),
    ("np_probs", np.array([0.9, 0.1]), [2, 3], (1, 6), lin, 3),
    ("sizes_longer_than_probs", [0.9, 0.1], [2, 3, 4], (1, 6), lin, 3),
    ("zero_prob", [1.0, 0.0], [2, 3], (1, 7), lin, 6),
]

for cls, type_ in (
    (JointDegreeSplitDegree, JointDegreeType.SPLIT_DEGREE),
    (JointDegreeDelta, JointDegreeType.DELTA),
):
    print(f"===== {cls.__name__}")
    for name, probs, sizes, bounds, fn, target in CASES:
        label = f"{cls.__name__}/{name}"
        fp = CountingFn(fn)
        params = make_params(cls, probs, sizes, bounds, fp, target)
        before = params_snapshot(params)
        obj = attempt(f"{label} ctor", lambda: cls(params))
        show(f"{label} fp-calls", fp.calls)
        show(f"{label} params-unchanged", before == params_snapshot(params))
        if obj is None:
            continue
        show(f"{label} class", type(obj).__name__)
        show(f"{label} type", obj._type)
        show(f"{label} motif_sizes", obj.motif_sizes)
        show_jdd(f"{label} jdd", obj.jdd)
        if len(obj.jdd):
            show(f"{label} sum", sum(obj.jdd.values()))
        # repeated call on the same object
        first = list(obj.jdd.items())
        old_dict = obj.jdd
        attempt(f"{label} create_jdd again", obj.create_jdd)
        show(f"{label} same-after-recreate", first == list(obj.jdd.items()))
        show(f"{label} new-dict-object", old_dict is not obj.jdd)
        show(f"{label} fp-calls-2", fp.calls)
        # via the factory
        fobj = attempt(
            f"{label} factory", lambda: JointDegreeFactory.resolve_joint_degree(type_, params)
        )
        if fobj is not None:
            show(f"{label} factory-same", list(fobj.jdd.items()) == first)
            show(f"{label} factory-class", type(fobj).__name__)
        # sampling (consumes random numbers)
        if len(obj.jdd):
            jds = attempt(f"{label} sample", lambda: obj.sample_jds_from_jdd(25))
            show(f"{label} jds", jds)
        show(f"{label} rng", rng_digest())

print("===== helpers on a live object")
base = JointDegreeSplitDegree(make_params(None, [0.6, 0.3, 0.1], [2, 3, 4], (1, 5), lin))
delta = JointDegreeDelta(make_params(None, [0.6, 0.3, 0.1], [2, 3, 4], (1, 5), lin, 3))
for obj in (base, delta):
    tag = type(obj).__name__
    gen = obj.get_valid_joint_degrees(7, 3)
    show(f"{tag} gen-type", type(gen).__name__)
    show(f"{tag} gen-is-generator", isinstance(gen, types.GeneratorType))
    show(f"{tag} gen-first", next(gen))
    show(f"{tag} gen-rest", list(gen))
    for rem in (0, 1, 2, 5, 9, -1, -4):
        for top in (1, 2, 3, 4):
            show(
                f"{tag} splits({rem},{top})",
                attempt(
                    f"{tag} splits({rem},{top}) err",
                    lambda: list(obj.get_valid_joint_degrees(rem, top)),
                ),
            )
    for rem, top in ((3, 0), (3, -1), (3.0, 2), (5.5, 1), ("a", 2), (3, 2.0), (True, 1)):
        show(
            f"{tag} splits({rem!r},{top!r})",
            attempt(
                f"{tag} splits({rem!r},{top!r}) err",
                lambda: list(obj.get_valid_joint_degrees(rem, top)),
            ),
        )
    # laziness: creating the generator must not raise
    lazy = attempt(f"{tag} lazy-create", lambda: obj.get_valid_joint_degrees("a", 2))
    show(f"{tag} lazy-created", lazy is not None)
    for jd in (
        (0, 0, 0),
        (1, 0, 0),
        (3, 2, 1),
        [2, 2, 2],
        (5,),
        (),
        (1, 1, 1, 1),
        (2.5, 1, 0),
        (-1, 0, 2),
        (10**3, 10**3, 10**3),
        5,
        None,
        "12",
        iter((1, 2)),
        {0: 1, 1: 1},
    ):
        label = f"{tag} prob({jd!r})" if not hasattr(jd, "__next__") else f"{tag} prob(iter)"
        res = attempt(f"{label} err", lambda: obj.calc_prob_of_joint_degree(jd))
        show(label, (res, type(res).__name__))
    # resolve_degree on a live object: overwrites / adds keys without renormalising
    before_items = list(obj.jdd.items())
    attempt(f"{tag} resolve(4,0.5)", lambda: obj.resolve_degree(4, 0.5))
    show_jdd(f"{tag} after-resolve-4", obj.jdd)
    attempt(f"{tag} resolve(6,Fraction)", lambda: obj.resolve_degree(6, Fraction(1, 3)))
    attempt(f"{tag} resolve(0,2)", lambda: obj.resolve_degree(0, 2))
    attempt(f"{tag} resolve(-1,1.0)", lambda: obj.resolve_degree(-1, 1.0))
    attempt(f"{tag} resolve('x',1.0)", lambda: obj.resolve_degree("x", 1.0))
    show_jdd(f"{tag} after-resolves", obj.jdd)
    obj.normalise_jdd()
    show_jdd(f"{tag} renormalised", obj.jdd)
    obj.jdd = {"sentinel": 1.0}
    obj.create_jdd()
    show(f"{tag} recreate-restores", list(obj.jdd.items()) == before_items)
    show(f"{tag} rng", rng_digest())

print("===== overridden hooks are honoured")


class Doubling(JointDegreeSplitDegree):
    def calc_prob_of_joint_degree(self, jd):
        return 2 * super().calc_prob_of_joint_degree(jd) + len(jd)


class Filtering(JointDegreeDelta):
    def get_valid_joint_degrees(self, remaining_degree, topology):
        for row in super().get_valid_joint_degrees(remaining_degree, topology):
            if sum(row) % 2 == 0 or topology == 1:
                yield row


class Recording(JointDegreeDelta):
    log = None

    def resolve_degree(self, k, prob_overall_k):
        if self.log is None:
            self.log = []
        self.log.append((k, prob_overall_k))
        super().resolve_degree(k, prob_overall_k)


for sub, target in ((Doubling, None), (Filtering, 6), (Recording, 4)):
    o = attempt(
        f"{sub.__name__} ctor",
        lambda: sub(make_params(None, [0.5, 0.3, 0.2], [2, 3, 4], (1, 8), lin, target)),
    )
    if o is not None:
        show_jdd(f"{sub.__name__} jdd", o.jdd)
        if sub is Recording:
            show("Recording log", o.log)

print("===== error paths")
good = make_params(None, [0.8, 0.2], [2, 3], (1, 6), lin, 3)
for cls in (JointDegreeSplitDegree, JointDegreeDelta):
    tag = cls.__name__
    for missing in (N.FP, N.PROBS, N.MOTIF_SIZES, N.LOW_HIGH_DEGREE_BOUND, N.TARGET_K):
        p = {k: v for k, v in good.items() if k is not missing}
        attempt(f"{tag} missing {missing.name}", lambda: cls(p))
    attempt(f"{tag} params=None", lambda: cls(None))
    attempt(f"{tag} params=[]", lambda: cls([]))
    attempt(f"{tag} no-args", lambda: cls())
    bad_cases = {
        "probs_all_zero": dict(probs=[0.0, 0.0]),
        "probs_all_zero_int": dict(probs=[0, 0]),
        "probs_empty": dict(probs=[]),
        "probs_none": dict(probs=None),
        "probs_negative": dict(probs=[-0.5, 1.5]),
        "probs_str": dict(probs=["a", "b"]),
        "sizes_empty": dict(sizes=[]),
        "sizes_none": dict(sizes=None),
        "bounds_short": dict(bounds=(1,)),
        "bounds_none": dict(bounds=None),
        "bounds_float": dict(bounds=(1.0, 5.0)),
        "bounds_reversed": dict(bounds=(6, 1)),
        "bounds_negative": dict(bounds=(-3, 3)),
        "fp_none": dict(fp=None),
        "fp_raises": dict(fp=lambda k: 1 / (k - 4)),
        "fp_zero": dict(fp=lambda k: 0.0),
        "fp_str": dict(fp=lambda k: "w"),
        "fp_negative": dict(fp=lambda k: -1.0),
        "huge_int_probs": dict(probs=[10**200, 10**200], bounds=(1, 5)),
    }
    for bname, over in bad_cases.items():
        kw = dict(probs=[0.8, 0.2], sizes=[2, 3], bounds=(1, 6), fp=lin)
        kw.update(over)
        p = make_params(None, kw["probs"], kw["sizes"], kw["bounds"], kw["fp"], 3)
        o = attempt(f"{tag} {bname}", lambda: cls(p))
        if o is not None:
            show_jdd(f"{tag} {bname} jdd", o.jdd)
    show(f"{tag} rng", rng_digest())

print("===== partially built objects")
for cls in (JointDegreeSplitDegree, JointDegreeDelta):
    tag = cls.__name__
    raw = cls.__new__(cls)
    attempt(f"{tag} raw create_jdd", raw.create_jdd)
    show(f"{tag} raw jdd after failed create", getattr(raw, "jdd", "<no attr>") if hasattr(raw, "_jdd") else "<unset>")
    show(f"{tag} raw prob(())", attempt(f"{tag} raw prob(()) err", lambda: raw.calc_prob_of_joint_degree(())))
    attempt(f"{tag} raw prob((1,))", lambda: raw.calc_prob_of_joint_degree((1,)), msg=False)
    show(f"{tag} raw splits", attempt(f"{tag} raw splits err", lambda: list(raw.get_valid_joint_degrees(4, 2))))
    attempt(f"{tag} raw resolve", lambda: raw.resolve_degree(2, 1.0), msg=False)

print("===== larger run + sampling + handshaking")
random.seed(777)
np.random.seed(777)
for cls, target in ((JointDegreeSplitDegree, None), (JointDegreeDelta, 3), (JointDegreeDelta, 40)):
    p = make_params(None, [0.8, 0.15, 0.05], [2, 3, 4], (1, 60), power_law(2.5), target)
    keep = copy.copy(p)
    o = cls(p)
    show_jdd(f"{cls.__name__}/{target} big", o.jdd, full=False)
    show(f"{cls.__name__}/{target} big sum", sum(o.jdd.values()))
    # total mass per overall degree
    per_k = {}
    for jd, v in o.jdd.items():
        k = sum((i + 1) * d for i, d in enumerate(jd))
        per_k.setdefault(k, []).append(v)
    show(f"{cls.__name__}/{target} per-k", [(k, sum(v), len(v)) for k, v in per_k.items()])
    jds = o.sample_jds_from_jdd(500)
    show(
        f"{cls.__name__}/{target} jds sha",
        hashlib.sha256(repr(jds).encode()).hexdigest()[:16],
    )
    show(f"{cls.__name__}/{target} params same", keep == p)
    show(f"{cls.__name__}/{target} rng", rng_digest())

print("final rng", rng_digest())
