"""Equivalence digest for the C15 refactoring of gcmpy/message_passing/equations/automated_equation.py.

Run with cwd = a checkout of gcmpy.  Prints a deterministic transcript (results, cache states,
mutated inputs, exceptions, RNG state) followed by a sha256 of the transcript.
"""
import os
import sys

# set iteration order of str / tuple vertices depends on the hash seed: pin it.
if os.environ.get("PYTHONHASHSEED") != "0":
    os.environ["PYTHONHASHSEED"] = "0"
    os.execv(sys.executable, [sys.executable] + sys.argv)

sys.path.insert(0, os.getcwd())

import copy
import hashlib
import random
from fractions import Fraction

import numpy as np
import networkx as nx

from gcmpy.message_passing.equations.automated_equation import AutomatedEquation

random.seed(20261003)
np.random.seed(20261003)

LINES = []


def out(*parts):
    line = " ".join(str(x) for x in parts)
    LINES.append(line)
    print(line)


def graph_repr(G):
    return (
        type(G).__name__,
        G.name,
        [(repr(n), sorted((k, repr(v)) for k, v in d.items())) for n, d in G.nodes(data=True)],
        [(repr(a), repr(b)) for a, b in G.edges()],
    )


def cache_repr(ae):
    return (
        [(k, [list(map(repr, s)) for s in v]) for k, v in ae._connected_subgraphs.items()],
        [(k, list(v)) for k, v in ae._edge_combinations.items()],
    )


def attempt(label, fn, *args):
    try:
        res = fn(*args)
    except BaseException as exc:  # noqa
        out(label, "RAISED", type(exc).__module__, type(exc).__name__, repr(exc.args))
        return None
    out(label, "->", type(res).__name__, repr(res))
    return res


def with_u(G, rng, kind="float"):
    for i, n in enumerate(G.nodes()):
        if kind == "float":
            G.nodes[n]["u"] = rng.random()
        elif kind == "fraction":
            G.nodes[n]["u"] = Fraction(rng.randint(0, 9), 10)
        elif kind == "int":
            G.nodes[n]["u"] = rng.randint(1, 3)
        elif kind == "mixed":
            G.nodes[n]["u"] = [rng.random(), rng.randint(0, 2), Fraction(1, 3)][i % 3]
    return G


def named(G, name):
    G.name = name
    return G


def motifs():
    ms = []
    ms.append(("single", nx.empty_graph(1)))
    ms.append(("edge", nx.path_graph(2)))
    ms.append(("path3", nx.path_graph(3)))
    ms.append(("path4", nx.path_graph(4)))
    ms.append(("triangle", nx.cycle_graph(3)))
    ms.append(("square", nx.cycle_graph(4)))
    ms.append(("c5", nx.cycle_graph(5)))
    ms.append(("k4", nx.complete_graph(4)))
    ms.append(("k5", nx.complete_graph(5)))
    ms.append(("star4", nx.star_graph(4)))
    ms.append(("wheel5", nx.wheel_graph(5)))
    diamond = nx.Graph([(0, 1), (1, 2), (2, 3), (3, 0), (0, 2)])
    ms.append(("diamond", diamond))
    bowtie = nx.Graph([(0, 1), (1, 2), (2, 0), (2, 3), (3, 4), (4, 2)])
    ms.append(("bowtie", bowtie))
    lolly = nx.lollipop_graph(3, 2)
    ms.append(("lollipop", lolly))
    selfloop = nx.Graph([(0, 1), (1, 2), (2, 0), (1, 1), (2, 2)])
    ms.append(("selfloop", selfloop))
    strs = nx.Graph([("a", "b"), ("b", "c"), ("c", "a"), ("c", "d")])
    ms.append(("strs", strs))
    tups = nx.Graph([((0, 0), (0, 1)), ((0, 1), (1, 1)), ((1, 1), (1, 0)), ((1, 0), (0, 0))])
    ms.append(("tuples", tups))
    shuffled = nx.Graph()
    shuffled.add_nodes_from([7, 3, 11, 5])
    shuffled.add_edges_from([(5, 7), (11, 3), (3, 7), (5, 11), (7, 11)])
    ms.append(("shuffled", shuffled))
    disc = nx.Graph([(0, 1), (1, 2), (3, 4)])
    ms.append(("disconnected", disc))
    withiso = nx.Graph([(0, 1), (1, 2)])
    withiso.add_node(9)
    ms.append(("withiso", withiso))
    multi = nx.MultiGraph([(0, 1), (0, 1), (1, 2), (2, 0)])
    ms.append(("multi", multi))
    for _ in range(4):
        n = random.randint(4, 6)
        while True:
            R = nx.gnp_random_graph(n, 0.55, seed=random.randint(0, 10 ** 6))
            if nx.is_connected(R) and R.number_of_edges() <= 9:
                break
        ms.append((f"rand{_}", R))
    return [(name, named(G, name)) for name, G in ms]


def section(title):
    out("=" * 10, title)


def main():
    rng = random.Random(99)

    # ------------------------------------------------------------------ get_connected_subgraphs
    section("get_connected_subgraphs")
    ae = AutomatedEquation()
    for name, G in motifs():
        before = graph_repr(G)
        for root in list(G.nodes())[:3]:
            r1 = attempt(f"cs {name} root={root!r}", ae.get_connected_subgraphs, G, root)
            r2 = ae.get_connected_subgraphs(G, root)
            out("  cached-identity", r1 is r2, r1 is ae._connected_subgraphs[f"{root}-{G.name}"])
        out("  graph-unchanged", before == graph_repr(G))
    # missing root, cache untouched by the failure
    G = named(nx.path_graph(3), "missing")
    attempt("cs missing-root", ae.get_connected_subgraphs, G, 17)
    out("  key-absent", "17-missing" not in ae._connected_subgraphs)
    # unhashable root
    attempt("cs unhashable-root", ae.get_connected_subgraphs, G, [0])
    # name collision: a different graph under an already cached name returns the stale entry
    H = named(nx.complete_graph(4), "path3")
    attempt("cs name-collision", ae.get_connected_subgraphs, H, 0)
    # unnamed graphs share the '' name
    attempt("cs unnamed-1", ae.get_connected_subgraphs, nx.path_graph(2), 0)
    attempt("cs unnamed-2", ae.get_connected_subgraphs, nx.cycle_graph(4), 0)
    out("cache", hashlib.sha256(repr(cache_repr(ae)).encode()).hexdigest())
    out("cache-keys", list(ae._connected_subgraphs))

    # ------------------------------------------------------------------ _get_connected_subgraphs
    section("_get_connected_subgraphs (direct)")
    ae = AutomatedEquation()
    for name, G in motifs():
        nodes = list(G.nodes())
        root = nodes[-1]
        for max_size in (len(nodes), 2, 1, 0, len(nodes) + 3):
            for excl_extra in (set(), set(nodes[:1])):
                subgraph = {root}
                possible = set(G.neighbors(root))
                excluded = {root} | excl_extra
                snap = (set(subgraph), set(possible), set(excluded))
                results = ["sentinel"]
                ret = ae._get_connected_subgraphs(G, subgraph, possible, excluded, results, max_size)
                out(
                    f"bt {name} root={root!r} max={max_size} excl+={sorted(map(repr, excl_extra))}",
                    "ret", ret,
                    "n", len(results),
                    "first-is-arg", results[1] is subgraph,
                    "inputs-unchanged", snap == (subgraph, possible, excluded),
                    hashlib.sha256(repr([list(map(repr, s)) for s in results[1:]]).encode()).hexdigest()[:16],
                )
    # start from a two-vertex subgraph with a possible set that is not the neighbourhood
    G = named(nx.wheel_graph(5), "w")
    results = []
    ae._get_connected_subgraphs(G, {0, 1}, {2, 3, 4}, {0, 1, 3}, results, 4)
    out("bt custom", [sorted(s) for s in results], [list(s) for s in results])
    out("bt caches-untouched", cache_repr(ae))

    # ------------------------------------------------------------------ get_edge_combinations
    section("get_edge_combinations")
    ae = AutomatedEquation()
    for name, G in motifs():
        before = graph_repr(G)
        c = list(G.nodes())
        r1 = attempt(f"ec {name}", ae.get_edge_combinations, G, c)
        key = f"{c}-{G.name}"
        if r1 is not None:
            r2 = ae.get_edge_combinations(G, c)
            out("  cached-identity", r1 is r2, r1 is ae._edge_combinations[key])
        else:
            out("  key-absent", key not in ae._edge_combinations)
        out("  graph-unchanged", before == graph_repr(G))
    attempt("ec null-graph", ae.get_edge_combinations, named(nx.Graph(), "null"), [])
    out("  key-absent", "[]-null" not in ae._edge_combinations)
    attempt("ec digraph", ae.get_edge_combinations, named(nx.DiGraph([(0, 1)]), "di"), [0, 1])
    # c only enters the key: odd values
    T = named(nx.cycle_graph(3), "tri2")
    attempt("ec c-tuple", ae.get_edge_combinations, T, (2, 0, 1))
    attempt("ec c-str", ae.get_edge_combinations, T, "xyz")
    attempt("ec key-collision", ae.get_edge_combinations, named(nx.path_graph(3), "tri2"), "xyz")
    out("cache-keys", list(ae._edge_combinations))
    out("cache", hashlib.sha256(repr(cache_repr(ae)).encode()).hexdigest())
    if hasattr(AutomatedEquation, "_connected_removal_sizes"):
        pass  # new helpers are covered through the public entry points above

    # ------------------------------------------------------------------ get_us
    section("get_us")
    ae = AutomatedEquation()
    for kind in ("float", "fraction", "int", "mixed"):
        for name, G in motifs():
            with_u(G, rng, kind)
            before = graph_repr(G)
            nodes = list(G.nodes())
            for root in (nodes[0], nodes[-1], "not-a-vertex"):
                attempt(f"us {kind} {name} root={root!r}", ae.get_us, G, root)
            out("  graph-unchanged", before == graph_repr(G))
    G = with_u(named(nx.path_graph(4), "nou"), rng)
    del G.nodes[2]["u"]
    attempt("us missing-u non-root", ae.get_us, G, 0)
    attempt("us missing-u root", ae.get_us, G, 2)
    G.nodes[1]["u"] = float("nan")
    attempt("us nan", ae.get_us, G, 2)
    G.nodes[1]["u"] = "s"
    attempt("us str-u", ae.get_us, G, 2)
    attempt("us nan-root", ae.get_us, with_u(nx.Graph([(float("nan"), 1)]), rng), float("nan"))
    attempt("us empty", ae.get_us, nx.Graph(), 0)
    out("us caches-untouched", cache_repr(ae))

    # ------------------------------------------------------------------ automated_equation
    section("automated_equation")
    ae = AutomatedEquation()
    ps = [0.0, 1.0, 0.5, 0.37, 0.9123456789, Fraction(1, 3), Fraction(0), Fraction(1), 2, -0.25]
    history = []
    for name, G in motifs():
        with_u(G, rng, "float")
        for root in list(G.nodes())[:2]:
            for p in (ps[2], ps[3], ps[5]):
                before = graph_repr(G)
                r = attempt(f"ae {name} root={root!r} p={p!r}", ae.automated_equation, G, p, root)
                history.append(r)
                out("  graph-unchanged", before == graph_repr(G))
        out("  cache", hashlib.sha256(repr(cache_repr(ae)).encode()).hexdigest()[:16])
    out("ae cache-keys-cs", list(ae._connected_subgraphs))
    out("ae cache-keys-ec", list(ae._edge_combinations))

    # exact arithmetic: Fractions for u and p -> exact polynomial values
    section("automated_equation exact")
    ae = AutomatedEquation()
    for name, G in motifs():
        with_u(G, rng, "fraction")
        for root in list(G.nodes())[:2]:
            for p in ps:
                attempt(f"aex {name} root={root!r} p={p!r}", ae.automated_equation, G, p, root)

    # history independence / order of evaluation on one evaluator vs fresh evaluators
    section("automated_equation history")
    shared = AutomatedEquation()
    ms = motifs()
    for _, G in ms:
        with_u(G, rng, "mixed")
    order = list(range(len(ms)))
    for rep in range(3):
        rng.shuffle(order)
        for i in order:
            name, G = ms[i]
            nodes = list(G.nodes())
            root = nodes[rng.randrange(len(nodes))]
            p = rng.choice(ps[:6])
            a = attempt(f"hist shared {name} root={root!r} p={p!r}", shared.automated_equation, G, p, root)
            b = attempt(f"hist fresh  {name} root={root!r} p={p!r}", AutomatedEquation().automated_equation, G, p, root)
            out("  same", repr(a) == repr(b))
            # change the u values between calls: nothing about u may be remembered
            with_u(G, rng, "float")
    out("hist cache", hashlib.sha256(repr(cache_repr(shared)).encode()).hexdigest())

    # error paths and cache poisoning through equal names
    section("automated_equation errors")
    ae = AutomatedEquation()
    G = with_u(named(nx.cycle_graph(4), "err"), rng)
    attempt("err missing-root", ae.automated_equation, G, 0.5, 42)
    attempt("err p-none", ae.automated_equation, G, None, 0)
    attempt("err p-str", ae.automated_equation, G, "0.5", 0)
    out("  cache", cache_repr(ae))
    del G.nodes[3]["u"]
    attempt("err missing-u", ae.automated_equation, G, 0.5, 0)
    out("  cache", cache_repr(ae))
    attempt("err missing-u at root is fine", ae.automated_equation, G, 0.5, 3)
    out("  cache", cache_repr(ae))
    # same name, different graph, root absent from the second graph
    A = with_u(named(nx.path_graph([5, 6, 7]), "clash"), rng)
    B = with_u(named(nx.path_graph([1, 2, 3]), "clash"), rng)
    attempt("err clash A", ae.automated_equation, A, 0.5, 5)
    attempt("err clash B-missing-root", ae.automated_equation, B, 0.5, 5)
    C = with_u(named(nx.complete_graph([5, 6, 7, 8]), "clash"), rng)
    attempt("err clash C-stale", ae.automated_equation, C, 0.5, 5)
    D = with_u(named(nx.Graph([(6, 7)]), "clash"), rng)
    D.add_node(5)
    attempt("err clash D-root-isolated", ae.automated_equation, D, 0.5, 5)
    # poked caches
    ae._connected_subgraphs["0-poke"] = [set(), {0}, {0, 1}]
    P = with_u(named(nx.path_graph(3), "poke"), rng)
    attempt("err poked-empty-component", ae.automated_equation, P, 0.5, 0)
    ae._connected_subgraphs["0-poke"] = [{0, 1}, {0}]
    attempt("err poked-order", ae.automated_equation, P, 0.25, 0)
    # directed / multigraph inputs
    DG = with_u(named(nx.DiGraph([(0, 1), (1, 2)]), "dg"), rng)
    attempt("err digraph root=0", ae.automated_equation, DG, 0.5, 0)
    attempt("err digraph root=2", ae.automated_equation, DG, 0.5, 2)
    MG = with_u(named(nx.MultiGraph([(0, 1), (0, 1), (1, 2), (2, 0)]), "mg"), rng)
    attempt("err multigraph", ae.automated_equation, MG, 0.5, 0)
    out("err cache", hashlib.sha256(repr(cache_repr(ae)).encode()).hexdigest())
    out("err cache-keys", list(ae._connected_subgraphs), list(ae._edge_combinations))

    # through the MessagePassing-style construction (graph built from an edge list, name = focal-id)
    section("message-passing style")
    ae = AutomatedEquation()
    for focal in (0, 2):
        for motif_id, edges in (("3-clique", [(0, 1), (1, 2), (2, 0)]), ("sq", [(2, 5), (5, 0), (0, 9), (9, 2)])):
            H = nx.Graph(name=f"{focal}-{motif_id}")
            H.add_edges_from(edges)
            nx.set_node_attributes(H, {n: rng.random() for n in H.nodes()}, "u")
            for phi in (0.2, 0.8):
                attempt(f"mp {H.name} phi={phi}", ae.automated_equation, H, phi, focal)
    out("mp cache-keys", list(ae._connected_subgraphs), list(ae._edge_combinations))

    # ------------------------------------------------------------------ RNG state
    section("rng")
    out("random", hashlib.sha256(repr(random.getstate()).encode()).hexdigest())
    st = np.random.get_state()
    out("numpy", hashlib.sha256(repr((st[0], st[1].tolist(), st[2], st[3], st[4])).encode()).hexdigest())
    out("next-draws", random.random(), float(np.random.random()))

    digest = hashlib.sha256("\n".join(LINES).encode()).hexdigest()
    print("DIGEST", digest)


if __name__ == "__main__":
    main()
