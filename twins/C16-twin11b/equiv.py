import sys, os; sys.path.insert(0, os.getcwd())
# Variant b: exercises gcmpy.message_passing.number_connected_graphs.QQ
# (the brute-force counter's entry point, which builds the neighbour list
# handed to number_of_connected_graphs).
import hashlib
import random
from fractions import Fraction

import numpy as np
import networkx as nx

random.seed(160002)
np.random.seed(160002)

import gcmpy
from gcmpy.message_passing import number_connected_graphs as ncg
from gcmpy.message_passing.number_connected_graphs import QQ, Q, number_of_connected_graphs

LINES = []


def emit(*parts):
    LINES.append(" ".join(str(p) for p in parts))


def show(v):
    if isinstance(v, nx.Graph):
        return f"{type(v).__name__}:n={sorted(v.nodes())},m={v.number_of_edges()}"
    return f"{type(v).__name__}:{v!r}"


def call(tag, f, *args, **kw):
    try:
        r = f(*args, **kw)
        emit(tag, [show(a) for a in args], kw, "->", show(r))
    except BaseException as e:  # noqa
        emit(tag, [show(a) for a in args], kw, "!!", type(e).__name__, str(e)[:90])


class Idx:
    """int-like only through __index__; records how often it is asked."""

    log = []

    def __init__(self, v):
        self.v = v

    def __hash__(self):
        return hash(("I", self.v))

    def __eq__(self, o):
        return isinstance(o, Idx) and o.v == self.v

    def __index__(self):
        Idx.log.append(self.v)
        return self.v

    def __repr__(self):
        return f"Idx({self.v})"


class IdxNum(Idx):
    """__index__ plus enough arithmetic to get past 0.5 * n * (n - 1)."""

    def __rmul__(self, o):
        Idx.log.append(("rmul", o))
        return o * self.v

    def __sub__(self, o):
        Idx.log.append(("sub", o))
        return self.v - o

    def __lt__(self, o):
        Idx.log.append(("lt", o))
        return self.v < o


# spy on what QQ hands over to number_of_connected_graphs (module global looked up at call time)
HANDED = []
_orig = ncg.number_of_connected_graphs


def spy(G, ak, i, k):
    HANDED.append((type(G).__name__, sorted(G.nodes()), G.number_of_edges(), type(ak).__name__,
                   list(ak), [type(x).__name__ for x in ak], i, k))
    return _orig(G, ak, i, k)


emit("cache_parameters", QQ.cache_parameters(), QQ.__name__, QQ.__wrapped__.__code__.co_varnames[:2])
emit("cache_info0", QQ.cache_info())

# full tables up to n = 6, partial for n = 7, compared with the recursion
for n in range(0, 7):
    s = n * (n - 1) // 2
    for k in range(-2, s + 3):
        call("QQ", QQ, n, k)
        try:
            emit("  Q", Q(n, k))
        except BaseException as e:  # noqa
            emit("  Q !!", type(e).__name__)
for k in (21, 20, 19, 18, 22, 25):
    call("QQ7", QQ, 7, k)
emit("cache_info1", QQ.cache_info())

# repeated calls (cached) and the undecorated function with the spy installed
for rep in range(2):
    for n, k in [(4, 3), (4, 6), (1, 0), (0, 0), (5, 4), (2, 1), (3, 5)]:
        call(f"rep{rep}", QQ, n, k)
ncg.number_of_connected_graphs = spy
try:
    raw = QQ.__wrapped__
    for n in range(0, 6):
        s = n * (n - 1) // 2
        for k in range(max(0, s - 3), s + 2):
            call("raw", raw, n, k)
    QQ.cache_clear()
    for n, k in [(4, 3), (4, 6), (1, 0), (0, 0), (5, 8), (2, 1), (3, 2), (-1, 0), (-3, 2)]:
        call("spied", QQ, n, k)
    # malformed arguments
    odd = [True, False, 3.0, 2.5, -2.0, float("nan"), float("inf"), Fraction(4), Fraction(7, 2),
           np.int64(4), np.int32(3), np.uint8(3), np.float64(3.0), "3", "", None, (1, 2), 2 + 0j, b"1",
           Idx(3), IdxNum(3), IdxNum(4), IdxNum(0), IdxNum(-2)]
    for x in odd:
        Idx.log.clear()
        call("odd-n", QQ, x, 2)
        emit("  idxlog", Idx.log)
        Idx.log.clear()
        call("odd-n-raw", raw, x, 3)
        emit("  idxlog", Idx.log)
        call("odd-k", QQ, 4, x)
    for bad in ([3], {3: 1}, {3}, np.arange(3)):
        call("unhashable", QQ, bad, 1)
        call("unhashable-raw", raw, bad, 1)
        call("unhashable", QQ, 3, bad)
    call("arity", QQ)
    call("arity", QQ, 3)
    call("arity", QQ, 3, 2, 1)
    call("kw", QQ, n=4, k=5)
    call("kw", QQ, 4, k=5)
    call("kw", QQ, 4, kk=5)
finally:
    ncg.number_of_connected_graphs = _orig
emit("handed", len(HANDED))
for h in HANDED:
    emit("  h", h)
emit("cache_info2", QQ.cache_info())

# the callee itself is untouched: a few direct calls, incl. mutation check of the arguments
G = nx.complete_graph(5)
ak = [1, 2, 3]
before = (sorted(G.edges()), list(ak))
for k in range(0, 5):
    call("nocg", number_of_connected_graphs, G, ak, 0, k)
emit("args untouched", before == (sorted(G.edges()), list(ak)))
emit("same object", gcmpy.QQ is QQ, gcmpy.number_of_connected_graphs is number_of_connected_graphs)

emit("rng", random.random(), hashlib.sha256(repr(random.getstate()).encode()).hexdigest())
st = np.random.get_state()
emit("nprng", np.random.random(), hashlib.sha256(st[1].tobytes()).hexdigest(), st[2:])

for ln in LINES:
    print(ln)
print("DIGEST", hashlib.sha256("\n".join(LINES).encode()).hexdigest(), len(LINES))
