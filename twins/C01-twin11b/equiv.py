import sys, os; sys.path.insert(0, os.getcwd())
import hashlib
import random

import numpy as np

from gcmpy.names.gcm_algorithm_names import GCMAlgorithmNames as N
from gcmpy.gcm_algorithm.gcm_algorithm import GCMAlgorithm
from gcmpy.gcm_algorithm.gcm_algorithm_fast import GCMAlgorithmFast
from gcmpy.gcm_algorithm.gcm_algorithm_network import GCMAlgorithmNetwork
from gcmpy.gcm_algorithm.gcm_algorithm_custom_motifs import GCMAlgorithmCustomMotifs
from gcmpy.gcm_algorithm.gcm_algorithm_factory import GCMAlgorithmFactory
from gcmpy.gcm_algorithm.gcm_algorithm_main import GCMAlgorithmMain
from gcmpy.gcm_algorithm.gcm_algorithm_types import GCMAlgorithmTypes as T
from gcmpy.network.edge_list import LightWeightEdgeList
from gcmpy.network.network import Network
from gcmpy.motif_generators.clique_motif import clique_motif
from gcmpy.motif_generators.cycle_motif import cycle_motif
from gcmpy.motif_generators.diamond_motif import diamond_motif

OUT = []


def emit(*parts):
    OUT.append(" ".join(str(p) for p in parts))


def h(obj):
    return hashlib.sha256(repr(obj).encode()).hexdigest()[:16]


def rng_digest():
    return "py=" + h(random.getstate()) + " np=" + h(
        tuple(str(x) for x in np.random.get_state())
    )


def exc_chain(e):
    """type names along the __context__ chain plus the messages"""
    out = []
    while e is not None:
        out.append(f"{type(e).__name__}:{e}")
        e = e.__context__
    return " <- ".join(out)


def attempt(label, fn):
    try:
        r = fn()
    except BaseException as e:  # noqa
        emit(label, "EXC", exc_chain(e), "|", rng_digest())
        return None
    emit(label, "OK", r, "|", rng_digest())
    return r


def make_jds(n, sizes, maxdeg, rnd):
    """joint degree sequence with column k summing to a multiple of sizes[k]"""
    jds = [[rnd.randrange(0, maxdeg + 1) for _ in sizes] for _ in range(n)]
    for k, s in enumerate(sizes):
        v = 0
        while sum(r[k] for r in jds) % s:
            jds[v % n][k] += 1
            v += 1
    return [tuple(r) for r in jds]


def describe(g):
    """bit-for-bit description of whatever a generator returned"""
    if isinstance(g, LightWeightEdgeList):
        return "LWEL " + h(
            (g.edge_list, g.topologies, g.motif_id, g.joint_degrees)
        ) + f" ne={len(g.edge_list)} nt={len(g.topologies)} nid={len(g.motif_id)}" + (
            f" ids={g.motif_id[:3]}..{g.motif_id[-3:]}" if g.motif_id else " ids=[]"
        )
    if isinstance(g, Network):
        G = g.G
        return "NET " + h(
            (list(G.nodes(data=True)), list(G.edges(data=True)))
        ) + f" n={G.number_of_nodes()} m={G.number_of_edges()}"
    return f"{type(g).__name__} {g!r}"


def std_params(sizes, builders, names, gcm_type=None):
    p = {}
    if gcm_type is not None:
        p[N.GCM_TYPE] = gcm_type
    p[N.MOTIF_SIZES] = sizes
    p[N.BUILD_FUNCTIONS] = builders
    p[N.EDGE_NAMES] = names
    return p


# ---- custom-motif configuration (the one from the test-suite) -------------
def c_diamond(vs):
    return ((vs[0], vs[1]), (vs[1], vs[2]), (vs[2], vs[3]), (vs[3], vs[1]), (vs[0], vs[2]))


def c_diamond_names():
    return ("d-o", "d-o", "d-o", "d-o", "d-i")


def c_two(vs):
    return (vs[0], vs[1])


def c_two_names():
    return "2-clique"


def c_three(vs):
    return (vs[0], vs[1]), (vs[0], vs[2]), (vs[1], vs[2])


def c_three_names():
    return "3-clique", "3-clique", "3-clique"


def c_pent(vs):
    return ((vs[0], vs[1]), (vs[1], vs[2]), (vs[2], vs[3]), (vs[3], vs[4]), (vs[0], vs[4]), (vs[1], vs[3]))


def c_pent_names():
    return "p01", "p12", "p23", "p34", "p40", "p13"


CUSTOM_JDS = [
    (2, 1, 0, 1, 1, 0, 0), (1, 1, 0, 1, 1, 0, 0), (3, 1, 1, 0, 0, 1, 0),
    (2, 0, 1, 0, 0, 1, 0), (0, 0, 0, 1, 0, 0, 1), (1, 0, 0, 1, 0, 0, 0),
    (1, 0, 1, 0, 0, 0, 0), (1, 0, 1, 0, 0, 0, 0), (1, 0, 0, 1, 0, 0, 0),
    (1, 0, 0, 1, 0, 0, 0), (1, 0, 1, 0, 0, 0, 0), (0, 0, 1, 0, 0, 0, 0),
]


def custom_params(gcm_type=None):
    p = std_params(
        [2, 3, 2, 2, 2, 2, 1],
        [c_two, c_three, c_diamond, c_pent],
        [c_two_names, c_three_names, c_diamond_names, c_pent_names],
        gcm_type,
    )
    p[N.MOTIF_INDICES] = [[0], [1], [2, 3], [4, 5, 6]]
    return p


CONFIGS = [
    ("k2", [2], [clique_motif], ["2-clique"]),
    ("k2k3", [2, 3], [clique_motif, clique_motif], ["2-clique", "3-clique"]),
    ("k2c4d4", [2, 4, 4], [clique_motif, cycle_motif, diamond_motif], ["e", "sq", "dia"]),
    ("k3c5k4", [3, 5, 4], [clique_motif, cycle_motif, clique_motif], ["tri", "c5", "k4"]),
]


def seed_all(s):
    random.seed(s)
    np.random.seed(s)


def finish():
    emit("FINAL", rng_digest())
    text = "\n".join(OUT)
    print(text)
    print("DIGEST", hashlib.sha256(text.encode()).hexdigest())

# =========================== variant b: GCMAlgorithmFactory.resolve_algorithm
seed_all(202)
rnd = random.Random(11)


class Loud:
    """records every comparison made against it"""

    def __init__(self, answers):
        self.answers = list(answers)
        self.log = []

    def __eq__(self, other):
        self.log.append(getattr(other, "name", repr(other)))
        return self.answers.pop(0) if self.answers else False

    __hash__ = None  # unhashable on purpose


class Truthy:
    """__eq__ result whose truth value is computed lazily (and logged)"""

    def __init__(self, log, val):
        self.log, self.val = log, val

    def __bool__(self):
        self.log.append(f"bool->{self.val}")
        return self.val


class Raises:
    def __init__(self, at):
        self.at, self.n = at, 0

    def __eq__(self, other):
        self.n += 1
        if self.n == self.at:
            raise ZeroDivisionError(f"eq#{self.n} vs {other.name}")
        return False

    def __hash__(self):
        return hash(T.NETWORK)


class EqAllHashMotifs:
    def __eq__(self, other):
        return True

    def __hash__(self):
        return hash(T.MOTIFS)


good = std_params([2, 3], [clique_motif, clique_motif], ["a", "b"])
cust = custom_params()


def res(t, p):
    r = GCMAlgorithmFactory.resolve_algorithm(t, p)
    return (type(r).__name__, type(r).__mro__[1].__name__,
            h((r._motif_sizes, [f.__name__ for f in r._build_functions],
               [getattr(x, "__name__", x) for x in r._edge_names],
               getattr(r, "_motif_indices", "-"))),
            r._motif_sizes is p[N.MOTIF_SIZES])


# 1. every legal key, with legal and malformed parameter dicts
param_sets = {
    "good": good,
    "custom": cust,
    "empty": {},
    "no-names": {N.MOTIF_SIZES: [2], N.BUILD_FUNCTIONS: [clique_motif]},
    "no-sizes": {N.BUILD_FUNCTIONS: [clique_motif], N.EDGE_NAMES: ["e"]},
    "str-keys": {"motif_sizes": [2], "build_functions": [clique_motif], "edge_names": ["e"]},
    "only-indices": {N.MOTIF_INDICES: [[0]]},
}
for pname, p in param_sets.items():
    for t in T:
        attempt(f"resolve {t.name} {pname}", lambda: res(t, p))
        attempt(f"resolve-kw {t.name} {pname}",
                lambda: type(GCMAlgorithmFactory.resolve_algorithm(type=t, params=p)).__name__)
for t in T:
    attempt(f"resolve {t.name} params=None", lambda: res(t, None))
    attempt(f"resolve {t.name} params=list", lambda: res(t, [1, 2]))
    attempt(f"resolve-instance {t.name}", lambda: type(GCMAlgorithmFactory().resolve_algorithm(t, good)).__name__)

# 2. keys that are not members: the 'unknown algorithm' failure
for bad in ("fast", "network", "motifs", "FAST", None, 0, 1.5, (), [], {}, set(), [T.FAST],
            T, N.GCM_TYPE, N.MOTIF_SIZES, object, b"fast"):
    attempt(f"resolve unknown {bad!r:.40}", lambda: res(bad, good))
    attempt(f"resolve unknown {bad!r:.40} params=None", lambda: res(bad, None))
attempt("resolve no-args", lambda: GCMAlgorithmFactory.resolve_algorithm())
attempt("resolve one-arg", lambda: GCMAlgorithmFactory.resolve_algorithm(T.FAST))

# 3. keys with their own __eq__ : same comparisons, in the same order, stop at the first hit
for answers in ([], [True], [False, True], [False, False, True], [False, False, False],
                [1], [0, "x"], [0, 0, [0]], [None, (), 2.5]):
    k = Loud(answers)
    attempt(f"resolve loud {answers}", lambda: res(k, cust))
    emit("   loud-log", k.log, "left", k.answers)
for pattern in ([True], [False, True], [False, False, True], [False, False, False]):
    log = []
    k = Loud([Truthy(log, v) for v in pattern])
    attempt(f"resolve truthy {pattern}", lambda: res(k, cust))
    emit("   truthy-log", log, k.log)
for at in (1, 2, 3, 4):
    k = Raises(at)
    attempt(f"resolve raises-at-{at}", lambda: res(k, good))
    emit("   raises-n", k.n)
attempt("resolve eq-all/hash-motifs", lambda: res(EqAllHashMotifs(), cust))

# 4. the objects that come out generate the same graphs, also via the main entry point
for s in range(10):
    for cname, sizes, builders, names in CONFIGS:
        n = rnd.choice([0, 1, 3, 10, 45])
        jds = make_jds(n, sizes, 4, rnd) if n else []
        for t in (T.FAST, T.NETWORK):
            seed_all(3000 + s)
            o = GCMAlgorithmFactory.resolve_algorithm(t, std_params(sizes, builders, names))
            for rep in range(2):
                attempt(f"gen {t.name} {cname} n={n} s={s} rep={rep}",
                        lambda: describe(o.random_clustered_graph(jds)))
            for raw in (t, t.value):
                seed_all(3000 + s)
                attempt(f"main {raw!r} {cname} n={n} s={s}", lambda: describe(
                    GCMAlgorithmMain.load_gcm_algorithm(std_params(sizes, builders, names, raw))
                    .random_clustered_graph(jds)))
    seed_all(4000 + s)
    o = GCMAlgorithmFactory.resolve_algorithm(T.MOTIFS, custom_params())
    attempt(f"gen MOTIFS s={s}", lambda: describe(o.random_clustered_graph(CUSTOM_JDS)))
    seed_all(4000 + s)
    attempt(f"main motifs s={s}", lambda: describe(
        GCMAlgorithmMain.load_gcm_algorithm(custom_params(T.MOTIFS)).random_clustered_graph(CUSTOM_JDS)))
# MOTIFS without indices, main with bad type strings / missing type
attempt("main motifs no-indices", lambda: GCMAlgorithmMain.load_gcm_algorithm(
    std_params([2], [clique_motif], ["e"], "motifs")))
for raw in ("Fast", "", None, 3, [], T, N.GCM_TYPE):
    attempt(f"main bad-type {raw!r:.30}", lambda: GCMAlgorithmMain.load_gcm_algorithm(
        std_params([2], [clique_motif], ["e"], raw)))
attempt("main no-type", lambda: GCMAlgorithmMain.load_gcm_algorithm(std_params([2], [clique_motif], ["e"])))
attempt("main None", lambda: GCMAlgorithmMain.load_gcm_algorithm(None))

# 5. the factory does not touch the dict it is given
p = custom_params(T.MOTIFS)
before = (list(p.keys()), [id(v) for v in p.values()])
GCMAlgorithmFactory.resolve_algorithm(T.MOTIFS, p)
GCMAlgorithmFactory.resolve_algorithm(T.FAST, p)
emit("params untouched", before == (list(p.keys()), [id(v) for v in p.values()]))

finish()
