import sys, os; sys.path.insert(0, os.getcwd())
# Variant c: JointExcessJointDegree.resolve_excess_degree_keys (the helper that
# derives, per topology, the list of excess-degree tuples handed to the matrices
# container).  Exercised through the constructor (which calls it), through
# repeated explicit calls of the public method on one object, through get_ejks
# (which hands the result to JointExcessJointDegreeMatrices) and through
# JointExcessFromEjk (which iterates the handed-over key lists in order).
# string hashing is randomised per process; pin it so set orders are repeatable
if os.environ.get("PYTHONHASHSEED") != "0":
    os.environ["PYTHONHASHSEED"] = "0"
    os.execv(sys.executable, [sys.executable] + sys.argv)
import hashlib
import random
import re
from fractions import Fraction

import numpy as np
import networkx as nx

from gcmpy.names.tools_names import ToolsNames
from gcmpy.names.network_names import NetworkNames
from gcmpy.names.joint_degree_names import JointDegreeNames
from gcmpy.names.gcm_algorithm_names import GCMAlgorithmNames
from gcmpy.tools.joint_excess_joint_degree import JointExcessJointDegree
from gcmpy.tools.joint_excess_degree import JointExcessDegree
from gcmpy.tools.joint_excess_from_ejk import JointExcessFromEjk
from gcmpy.joint_degree.joint_degree_loaders.joint_degree_manual import (
    JointDegreeManual,
)
from gcmpy.motif_generators.clique_motif import clique_motif
from gcmpy.gcm_algorithm.gcm_algorithm_network import GCMAlgorithmNetwork

random.seed(777001)
np.random.seed(777001)

LINES = []


def out(*parts):
    line = " ".join(str(p) for p in parts)
    line = re.sub(r" at 0x[0-9a-f]+", " at 0x?", line)  # memory addresses are not behaviour
    LINES.append(line)
    print(line)


def canon(d):
    return sorted((repr(k), float(v).hex()) for k, v in d.items())


def typed(keys):
    """key lists with the concrete element types, in their stored order"""
    if not isinstance(keys, dict):
        return repr(keys)
    return [
        (t, [tuple((type(x).__name__, repr(x)) for x in k) for k in v]) for t, v in keys.items()
    ]


class Tracked:
    """a degree-like value that logs the operations applied to it"""

    LOG = []

    def __init__(self, v, tag):
        self.v = v
        self.tag = tag

    def __gt__(self, other):
        Tracked.LOG.append(("gt", self.tag, other))
        return self.v > other

    def __sub__(self, other):
        Tracked.LOG.append(("sub", self.tag, other))
        return Tracked(self.v - other, self.tag + "'")

    def __isub__(self, other):
        Tracked.LOG.append(("isub", self.tag, other))
        return Tracked(self.v - other, self.tag + "'")

    def __hash__(self):
        return hash(self.v)

    def __eq__(self, other):
        return isinstance(other, Tracked) and self.v == other.v

    def __repr__(self):
        return "T(%r,%s)" % (self.v, self.tag)


class Unhashable:
    """positive, but its excess is unhashable"""

    def __init__(self, v):
        self.v = v

    def __gt__(self, other):
        return self.v > other

    def __sub__(self, other):
        return [self.v - other]

    def __hash__(self):
        return 7

    def __repr__(self):
        return "U(%r)" % (self.v,)


def graph(jds, edges=None, tops=None):
    G = nx.Graph()
    G.add_nodes_from(range(len(jds)))
    for n, jd in enumerate(jds):
        if jd is not Ellipsis:
            G.nodes[n][NetworkNames.JOINT_DEGREE] = jd
    for k, e in enumerate(edges or []):
        G.add_edge(*e)
        if tops is not None and tops[k] is not None:
            G.edges[e][NetworkNames.TOPOLOGY] = tops[k]
    return G


def attempt(label, G, names, raw=False):
    Tracked.LOG.clear()
    params = G if raw else {ToolsNames.NETWORK: G, ToolsNames.EDGE_NAMES: names}
    try:
        C = JointExcessJointDegree(params)
    except BaseException as e:  # noqa
        out(label, "ctor EXC", type(e).__name__, repr(str(e)), "oplog", list(Tracked.LOG))
        return
    out(label, "ctor OK", list(vars(C).keys()), "degree keys", sorted(map(repr, C._degree_keys)))
    out(label, "keys", typed(C._excess_degree_keys), "oplog", list(Tracked.LOG))
    first = C._excess_degree_keys
    first_lists = dict(first) if isinstance(first, dict) else None
    for again in range(3):  # repeated explicit calls on the one object
        Tracked.LOG.clear()
        try:
            r = C.resolve_excess_degree_keys()
            out(label, "again", again, "->", r, typed(C._excess_degree_keys),
                "same dict", C._excess_degree_keys is first,
                "fresh lists", [C._excess_degree_keys[t] is not first_lists[t] for t in first_lists],
                "oplog", list(Tracked.LOG))
        except BaseException as e:  # noqa
            out(label, "again", again, "EXC", type(e).__name__, repr(str(e)), typed(C._excess_degree_keys),
                "oplog", list(Tracked.LOG))
    out(label, "degree keys untouched", sorted(map(repr, C._degree_keys)),
        "node data", list(G.nodes(data=True)) if hasattr(G, "nodes") else None)
    for q in range(2):
        try:
            M = C.get_ejks()
            out(label, "ejks", q, [(t, canon(M.ejks[t])) for t in M.ejks], typed(M.excess_degree_keys),
                "handed over by reference", M.excess_degree_keys is C._excess_degree_keys,
                M.topology_names is C._topology_names)
            try:
                qk = JointExcessFromEjk.get_excess_joint_distributions(M)
                out(label, "qk", q, [(t, [(repr(k), float(v).hex()) for k, v in qk[t].items()]) for t in qk])
            except BaseException as e:  # noqa
                out(label, "qk", q, "EXC", type(e).__name__, repr(str(e)))
        except BaseException as e:  # noqa
            out(label, "ejks", q, "EXC", type(e).__name__, repr(str(e)))


E4 = [(0, 1), (1, 2), (2, 3), (3, 0), (0, 2)]
T4 = ["s", "s", "t", "t", "t"]

attempt("plain", graph([(2, 1), (2, 0), (1, 2), (0, 2)], E4, T4), ["s", "t"])
attempt("jd-as-lists", graph([[2, 1], [2, 0], [1, 2], [0, 2]], E4, T4), ["s", "t"])
attempt("all-zero", graph([(0, 0), (0, 0), (0, 0)]), ["s", "t"])
attempt("empty-graph", nx.Graph(), ["s", "t"])
attempt("empty-names", graph([(2, 1), (1, 1)], [(0, 1)], ["s"]), [])
attempt("names-tuple", graph([(2, 1), (1, 1)], [(0, 1)], ["s"]), ("s", "t"))
attempt("names-string", graph([(2, 1), (1, 1)], [(0, 1)], ["s"]), "st")
attempt("names-duplicate", graph([(2, 1), (1, 3)], [(0, 1)], ["s"]), ["s", "s"])
attempt("names-unhashable", graph([(2, 1), (1, 3)], [(0, 1)], ["s"]), [["s"], "t"])
attempt("names-None", graph([(2, 1), (1, 3)], [(0, 1)], ["s"]), None)
attempt("names-int", graph([(2, 1), (1, 3)], [(0, 1)], ["s"]), 3)
attempt("names-generator", graph([(2, 1), (1, 3)], [(0, 1)], ["s"]), (t for t in ["s", "t"]))
attempt("more-names-than-columns", graph([(2, 1), (1, 3)], [(0, 1)], ["s"]), ["s", "t", "u"])
attempt("fewer-names-than-columns", graph([(2, 1, 4), (1, 3, 0)], [(0, 1)], ["s"]), ["s"])
attempt("ragged", graph([(2, 1), (3,), (1, 1, 1)], [(0, 1)], ["s"]), ["s", "t"])
attempt("empty-tuple-jd", graph([(), (1, 1)], [(0, 1)], ["s"]), ["s", "t"])
attempt("negative", graph([(-1, 2), (0, -3), (1, 1)], [(0, 1)], ["s"]), ["s", "t"])
attempt("floats", graph([(1.5, 2.0), (0.5, 0.0), (float("inf"), 1.0)], [(0, 1)], ["s"]), ["s", "t"])
attempt("nan", graph([(float("nan"), 1), (1, float("nan"))], [(0, 1)], ["s"]), ["s", "t"])
attempt("bools", graph([(True, False), (False, True), (1, 0)], [(0, 1)], ["s"]), ["s", "t"])
attempt("numpy-ints", graph([tuple(np.array([2, 1])), tuple(np.array([1, 1], dtype=np.uint8)), (np.int64(0), np.uint8(0))], [(0, 1)], ["s"]), ["s", "t"])
attempt("numpy-rows", graph(list(np.array([[2, 1], [1, 1], [0, 3]])), [(0, 1)], ["s"]), ["s", "t"])
attempt("fractions", graph([(Fraction(3, 2), Fraction(1, 3)), (Fraction(1), Fraction(0))], [(0, 1)], ["s"]), ["s", "t"])
attempt("strings", graph([("a", "b"), ("c", "d")], [(0, 1)], ["s"]), ["s", "t"])
attempt("string-jd", graph(["ab", "cd"], [(0, 1)], ["s"]), ["s", "t"])
attempt("None-element", graph([(None, 1), (1, 1)], [(0, 1)], ["s"]), ["s", "t"])
attempt("mixed-bad-second", graph([(1, 1), (1, "x")], [(0, 1)], ["s"]), ["s", "t"])
attempt("unhashable-element", graph([([1], 1), (1, 1)], [(0, 1)], ["s"]), ["s", "t"])
attempt("jd-None", graph([None, (1, 1)], [(0, 1)], ["s"]), ["s", "t"])
attempt("jd-int", graph([3, (1, 1)], [(0, 1)], ["s"]), ["s", "t"])
attempt("jd-missing", graph([(1, 1), Ellipsis], [(0, 1)], ["s"]), ["s", "t"])
attempt("tracked", graph([(Tracked(2, "a"), Tracked(0, "b")), (Tracked(1, "c"), Tracked(3, "d"))], [(0, 1)], ["s"]), ["s", "t"])
attempt("unhashable-excess", graph([(Unhashable(2), 1), (1, 1)], [(0, 1)], ["s"]), ["s", "t"])
attempt("collapsing", graph([(2, 1), (2.0, 1), (3, 0), (True, 2), (1, 2)], [(0, 1)], ["s"]), ["s", "t"])
attempt("many", graph([(a, b, c) for a in range(5) for b in range(4) for c in range(3)], [(0, 1), (5, 9)], ["x", "z"]), ["x", "y", "z"])
attempt("large-values", graph([(10 ** 20, 1), (2 ** 63, 2 ** 64), (1, 10 ** 30)], [(0, 1)], ["s"]), ["s", "t"])
attempt("digraph", nx.DiGraph(graph([(2, 1), (1, 1)], [(0, 1)], ["s"])), ["s", "t"])
attempt("multigraph", nx.MultiGraph(graph([(2, 1), (1, 1)], [(0, 1)], ["s"])), ["s", "t"])

# malformed parameter objects
for label, p in [
    ("p-None", None), ("p-empty", {}), ("p-int", 3), ("p-list", [1, 2]), ("p-str", "network"),
    ("p-no-names", {ToolsNames.NETWORK: graph([(1, 1)])}), ("p-no-network", {ToolsNames.EDGE_NAMES: ["s"]}),
    ("p-string-keys", {"network": graph([(1, 1)]), "edge_names": ["s"]}),
    ("p-network-None", {ToolsNames.NETWORK: None, ToolsNames.EDGE_NAMES: ["s"]}),
    ("p-network-dict", {ToolsNames.NETWORK: {0: 1}, ToolsNames.EDGE_NAMES: ["s"]}),
]:
    attempt(label, p, None, raw=True)
try:
    JointExcessJointDegree()
except BaseException as e:  # noqa
    out("no-arg EXC", type(e).__name__, repr(str(e)))

# random hand-made annotated graphs (python stream), then mutate and re-resolve
for trial in range(12):
    ntop = random.randint(1, 4)
    n = random.randint(1, 40)
    jds = [tuple(random.randint(0, 4) for _ in range(ntop)) for _ in range(n)]
    names = ["top%d" % i for i in range(ntop)]
    edges, tops = [], []
    for _ in range(random.randint(0, 60)):
        u, v = random.randrange(n), random.randrange(n)
        if u != v and (u, v) not in edges and (v, u) not in edges:
            edges.append((u, v))
            tops.append(random.choice(names))
    attempt("rand %d" % trial, graph(jds, edges, tops), names)


# the generator route, seeded streams
def build(jdd, sizes, names, n):
    p = {JointDegreeNames.JDD: jdd, JointDegreeNames.MOTIF_SIZES: sizes}
    jds = JointDegreeManual(p).sample_jds_from_jdd(n)
    q = {
        GCMAlgorithmNames.MOTIF_SIZES: sizes,
        GCMAlgorithmNames.EDGE_NAMES: names,
        GCMAlgorithmNames.BUILD_FUNCTIONS: [clique_motif] * len(sizes),
    }
    return GCMAlgorithmNetwork(q).random_clustered_graph(jds)


cases = [
    ({(5, 1): 1 / 3, (3, 2): 1 / 3, (1, 3): 1 / 3}, [2, 3], ["2-clique", "3-clique"], 300),
    ({(1, 0): 0.2, (2, 1): 0.5, (3, 0): 0.1, (5, 1): 0.2}, [2, 3], ["2-clique", "3-clique"], 200),
    ({(2,): 0.5, (3,): 0.5}, [2], ["tree"], 150),
    ({(1, 1, 1): 0.5, (2, 0, 1): 0.25, (0, 2, 0): 0.25}, [2, 3, 4], ["a", "b", "c"], 240),
]
for ci, (jdd, sizes, names, n) in enumerate(cases):
    for rep in range(2):
        g = build(jdd, sizes, names, n)
        attempt("net %d %d" % (ci, rep), g.G, names)
        out("net %d %d" % (ci, rep), "overall", canon(JointExcessDegree.get_ejk(g.G)))

out("py-random-state", hashlib.sha256(repr(random.getstate()).encode()).hexdigest())
st = np.random.get_state()
out("np-random-state", hashlib.sha256(st[1].tobytes() + repr(st[2:]).encode()).hexdigest())
print("DIGEST", hashlib.sha256("\n".join(LINES).encode()).hexdigest())
