import sys, os; sys.path.insert(0, os.getcwd())
import hashlib
import random

import numpy as np

from gcmpy.joint_degree.joint_degree_loaders.joint_degree_marginal import JointDegreeMarginal
from gcmpy.joint_degree.joint_degree_factory import JointDegreeFactory
from gcmpy.joint_degree.joint_degree_distribution import JointDegreeDistribution
from gcmpy.joint_degree.joint_degree_type import JointDegreeType
from gcmpy.names.joint_degree_names import JointDegreeNames as N
from gcmpy.distributions.poisson import poisson
from gcmpy.distributions.power_law import power_law


def h(obj) -> str:
    return hashlib.sha256(repr(obj).encode()).hexdigest()[:16]


def rng() -> str:
    s = np.random.get_state()
    return "py=%s np=%s" % (h(random.getstate()), h((s[0], s[1].tolist(), s[2:])))


def exc_chain(e) -> str:
    out = [type(e).__name__ + ":" + str(e)]
    c = e.__context__
    while c is not None:
        out.append(type(c).__name__ + ":" + str(c))
        c = c.__context__
    return " <- ".join(out)


def attempt(label, fn):
    try:
        r = fn()
        shown = describe(r) if isinstance(r, JointDegreeMarginal) else r
        print(label, "OK", shown, "|", rng())
        return r
    except BaseException as e:  # noqa
        print(label, "EXC", exc_chain(e), "|", rng())
        return None


def describe(obj):
    jdd = obj.jdd
    return (
        type(obj).__name__,
        obj.motif_sizes,
        None if jdd is None else (len(jdd), h(list(jdd.items())), list(jdd.items())[:3]),
        [(k, type(v).__name__) for k, v in list(vars(obj).items()) if k not in ("_jdd", "_arr_fp")],
    )


def alljd(obj):
    r = obj.generate_all_joint_degrees()
    return (
        type(r).__name__,
        len(r),
        h(r),
        r[:5],
        sorted({type(x).__name__ for jd in r for x in jd}),
        sorted({type(jd).__name__ for jd in r}),
    )


LOG = []


class Idx:
    """bound that is only an integer through __index__ (logs the conversion)"""

    def __init__(self, tag, v):
        self.tag, self.v = tag, v

    def __index__(self):
        LOG.append(self.tag)
        if isinstance(self.v, BaseException):
            raise self.v
        return self.v


class Bounds:
    """iterable of bounds that logs when each pair is handed out"""

    def __init__(self, pairs, fail_at=None):
        self.pairs, self.fail_at = pairs, fail_at

    def __iter__(self):
        for i, p in enumerate(self.pairs):
            LOG.append("pair%d" % i)
            if self.fail_at == i:
                raise RuntimeError("bounds iteration failed at %d" % i)
            yield p

    def __len__(self):
        return len(self.pairs)

    def __getitem__(self, i):
        return self.pairs[i]


def flat(k):
    return 1.0


def lin(k):
    return 1.0 + k


random.seed(31337)
np.random.seed(2718)
print("start", rng())

cases = [
    ("one-top", [2], [poisson(2.5)], [(0, 10)]),
    ("two-top", [2, 3], [poisson(2.5), poisson(1.0)], [(0, 6), (0, 4)]),
    ("three-top", [2, 3, 4], [lin, flat, poisson(0.5)], [(1, 5), (0, 3), (0, 2)]),
    ("list-pairs", [2, 3], [lin, flat], [[0, 3], [2, 5]]),
    ("tuple-of-tuples", [2, 3], [lin, flat], ((0, 3), (2, 5))),
    ("single-value-range", [2, 3], [lin, flat], [(4, 5), (0, 2)]),
    ("empty-range", [2, 3], [lin, flat], [(3, 3), (0, 2)]),
    ("reversed-range", [2, 3], [lin, flat], [(5, 2), (0, 2)]),
    ("negative-range", [2], [flat], [(-3, 2)]),
    ("no-topologies", [], [], []),
    ("bounds-none", [2], [flat], None),
    ("bounds-int", [2], [flat], 7),
    ("bounds-flat-pair", [2], [flat], (0, 5)),
    ("triple", [2], [flat], [(0, 5, 1)]),
    ("singleton", [2], [flat], [(5,)]),
    ("float-bound", [2], [flat], [(0.0, 5.0)]),
    ("str-bound", [2], [flat], [("0", "5")]),
    ("none-bound", [2], [flat], [(None, 5)]),
    ("bool-bound", [2], [lin], [(False, True)]),
    ("np-int-bound", [2, 3], [lin, flat], [(np.int64(0), np.int64(4)), (np.int32(1), np.int8(3))]),
    ("np-array-bounds", [2, 3], [lin, flat], np.array([[0, 4], [1, 3]])),
    ("dict-bounds", [2, 3], [lin, flat], {(0, 3): "a", (1, 4): "b"}),
    ("str-pairs", [2], [flat], ["ab"]),
    ("fewer-fp", [2, 3], [lin], [(0, 3), (0, 3)]),
    ("more-fp", [2], [lin, flat], [(0, 3)]),
    ("fp-not-callable", [2], [3.0], [(0, 3)]),
    ("fp-raises", [2], [power_law(2.5)], [(0, 3)]),
    ("zero-weights", [2], [lambda k: 0.0], [(0, 3)]),
    ("big", [2, 3, 4], [poisson(3.0), poisson(1.0), poisson(0.3)], [(0, 25), (0, 12), (0, 6)]),
]

for name, ms, fps, bounds in cases:
    for via in ("ctor", "factory", "load"):
        p = {N.MOTIF_SIZES: ms, N.ARR_FP: fps, N.LOW_HIGH_DEGREE_BOUND: bounds}
        if via == "ctor":
            mk = lambda: JointDegreeMarginal(p)
        elif via == "factory":
            mk = lambda: JointDegreeFactory.resolve_joint_degree(JointDegreeType.MARGINAL, p)
        else:
            p[N.JOINT_DEGREE_TYPE] = "marginal"
            mk = lambda: JointDegreeDistribution.load_joint_degree(p)
        try:
            obj = mk()
        except BaseException as e:  # noqa
            print("%s[%s]" % (via, name), "EXC", exc_chain(e), "|", rng())
            continue
        print("%s[%s]" % (via, name), "OK", describe(obj), "|", rng())
        if via != "ctor":
            continue
        # the touched helper, directly and repeatedly on one object
        a = attempt("  all[%s]#1" % name, lambda: alljd(obj))
        b = attempt("  all[%s]#2" % name, lambda: alljd(obj))
        r1 = obj.generate_all_joint_degrees()
        r2 = obj.generate_all_joint_degrees()
        print("  fresh-lists[%s]" % name, r1 is not r2, r1 == r2, "|", rng())
        attempt("  direct-again[%s]" % name, lambda: (obj.create_jdd_directly(), describe(obj))[1])
        attempt("  create-again[%s]" % name, lambda: (obj.create_jdd(), describe(obj))[1])
        for n in (0, 1, 9, 400):
            def draw():
                jds = obj.sample_jds_from_jdd(n)
                tot = list(map(sum, zip(*jds)))
                return (len(jds), tot, [t % m for t, m in zip(tot, obj.motif_sizes)], h(jds))
            attempt("  sample[%s,%d]" % (name, n), draw)

# bounds whose conversion / iteration is observable
scripted = [
    ("idx-ok", Bounds([(Idx("a0", 0), Idx("a1", 3)), (Idx("b0", 1), Idx("b1", 4))])),
    ("idx-raise-hi", Bounds([(Idx("a0", 0), Idx("a1", 3)), (Idx("b0", 1), Idx("b1", ValueError("b1")))])),
    ("idx-raise-lo", Bounds([(Idx("a0", KeyError("a0")), Idx("a1", 3)), (0, 2)])),
    ("iter-fails-0", Bounds([(0, 2), (0, 2)], fail_at=0)),
    ("iter-fails-1", Bounds([(0, 2), (0, 2)], fail_at=1)),
    ("bad-unpack-second", Bounds([(0, 2), (0, 2, 3)])),
]
for name, bounds in scripted:
    del LOG[:]
    p = {N.MOTIF_SIZES: [2, 3], N.ARR_FP: [lin, flat], N.LOW_HIGH_DEGREE_BOUND: bounds}
    obj = attempt("scripted[%s]" % name, lambda: JointDegreeMarginal(p))
    print("   log", LOG)
    if obj is not None:
        del LOG[:]
        attempt("  all[%s]" % name, lambda: alljd(obj))
        print("   log", LOG, describe(obj))

# one-shot iterables as bounds
attempt("gen-bounds", lambda: describe(JointDegreeMarginal(
    {N.MOTIF_SIZES: [2, 3], N.ARR_FP: [lin, flat], N.LOW_HIGH_DEGREE_BOUND: (b for b in [(0, 3), (0, 2)])})))
attempt("zip-bounds", lambda: describe(JointDegreeMarginal(
    {N.MOTIF_SIZES: [2, 3], N.ARR_FP: [lin, flat], N.LOW_HIGH_DEGREE_BOUND: zip([0, 1], [3, 4])})))

# optional keys, sampling mode (does not call the helper at construction, but
# the helper stays callable) and malformed parameter dicts
base = {N.MOTIF_SIZES: [2, 3], N.ARR_FP: [poisson(2.0), poisson(0.7)], N.LOW_HIGH_DEGREE_BOUND: [(0, 6), (0, 3)]}
for name, extra in [
    ("sampling", {N.USE_SAMPLING: True, N.N_SAMPLES: 500}),
    ("sampling-default-n", {N.USE_SAMPLING: True, N.N_SAMPLES: 50}),
    ("sampling-false", {N.USE_SAMPLING: False, N.N_SAMPLES: 5}),
    ("sampling-zero", {N.USE_SAMPLING: True, N.N_SAMPLES: 0}),
    ("sampling-none", {N.USE_SAMPLING: None}),
    ("sampling-truthy", {N.USE_SAMPLING: "yes", N.N_SAMPLES: 20}),
    ("n-samples-bad", {N.USE_SAMPLING: True, N.N_SAMPLES: "many"}),
]:
    p = dict(base)
    p.update(extra)
    obj = attempt("opt[%s]" % name, lambda: JointDegreeMarginal(p))
    if obj is not None:
        print("  ", describe(obj))
        attempt("  all[%s]" % name, lambda: alljd(obj))
        attempt("  sample[%s]" % name, lambda: h(obj.sample_jds_from_jdd(77)))
        attempt("  directly[%s]" % name, lambda: (obj.create_jdd_directly(), describe(obj))[1])
        attempt("  sample2[%s]" % name, lambda: h(obj.sample_jds_from_jdd(77)))

for name, p in [
    ("empty", {}),
    ("none", None),
    ("list", []),
    ("strkeys", {"motif_sizes": [2], "arr_fp": [flat], "low_high_degree_bound": [(0, 2)]}),
    ("no-bounds", {N.MOTIF_SIZES: [2], N.ARR_FP: [flat]}),
    ("no-fp", {N.MOTIF_SIZES: [2], N.LOW_HIGH_DEGREE_BOUND: [(0, 2)]}),
    ("no-sizes", {N.ARR_FP: [flat], N.LOW_HIGH_DEGREE_BOUND: [(0, 2)]}),
]:
    attempt("bad[%s]" % name, lambda: describe(JointDegreeMarginal(p)))
    attempt("bad-factory[%s]" % name, lambda: describe(JointDegreeFactory.resolve_joint_degree(JointDegreeType.MARGINAL, p)))

print("end", rng())
