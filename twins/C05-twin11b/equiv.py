import sys, os; sys.path.insert(0, os.getcwd())
import hashlib
import random

import numpy as np

from gcmpy.joint_degree.joint_degree_loaders.joint_degree_cover import JointDegreeCover
from gcmpy.joint_degree.joint_degree_factory import JointDegreeFactory
from gcmpy.joint_degree.joint_degree_distribution import JointDegreeDistribution
from gcmpy.joint_degree.joint_degree_type import JointDegreeType
from gcmpy.names.joint_degree_names import JointDegreeNames as N


def h(obj) -> str:
    return hashlib.sha256(repr(obj).encode()).hexdigest()[:16]


def rng() -> str:
    s = np.random.get_state()
    return "py=%s np=%s" % (h(random.getstate()), h((s[0], s[1].tolist(), s[2:])))


def exc_chain(e) -> str:
    out = [type(e).__name__ + ":" + str(e)]
    c = e.__context__
    while c is not None:
        out.append(type(c).__name__ + ":" + str(c))
        c = c.__context__
    return " <- ".join(out)


def attempt(label, fn):
    try:
        r = fn()
        print(label, "OK", r, "|", rng())
        return r
    except BaseException as e:  # noqa
        print(label, "EXC", exc_chain(e), "|", rng())
        return None


def describe(obj):
    ms = obj.motif_sizes
    return (
        type(obj).__name__,
        type(ms).__name__,
        ms,
        [type(m).__name__ for m in ms],
        h(list(obj.jdd.items())),
        list(obj.jdd.items())[:4],
        list(vars(obj).keys()),
    )


class Sized:
    """clique-like object with a scripted __len__ (counts its calls)"""

    log = []

    def __init__(self, tag, n, items=()):
        self.tag, self.n, self.items = tag, n, items

    def __len__(self):
        Sized.log.append(self.tag)
        if isinstance(self.n, BaseException):
            raise self.n
        return self.n

    def __iter__(self):
        return iter(self.items)


class IntSub(int):
    pass


def random_cover(r, nv, nc, maxsize):
    cover = []
    for _ in range(nc):
        k = r.randint(2, maxsize)
        cover.append(r.sample(range(nv), min(k, nv)))
    # make sure every vertex 0..nv-1 appears (library assumes contiguous ids)
    for v in range(nv):
        cover.append([v, (v + 1) % nv])
    r.shuffle(cover)
    return cover


random.seed(424242)
np.random.seed(5)
print("start", rng())

fixed = [
    ("basic", [[0, 1], [1, 2, 3], [3, 4], [4, 5, 6, 7], [0, 7]]),
    ("one-indexed", [[1, 2], [2, 3, 4], [4, 1]]),
    ("tuples", ((0, 1), (1, 2, 0), (2, 0))),
    ("single", [[0, 1, 2]]),
    ("only-edges", [[0, 1], [1, 2], [2, 0]]),
    ("descending-sizes", [[0, 1, 2, 3, 4, 5], [0, 1, 2, 3, 4], [0, 1, 2, 3], [0, 1, 2], [0, 1]]),
    ("big-sizes", [list(range(40)), list(range(17)), list(range(9)), [0, 1], list(range(33)), list(range(8)), list(range(16)), list(range(24))]),
    ("sets", [{0, 1}, {1, 2, 3}]),
    ("frozensets", [frozenset((0, 1)), frozenset((1, 2))]),
    ("singletons", [[0], [1], [0, 1]]),
    ("empty-clique", [[], [0, 1]]),
    ("strings", ["ab", "abc"]),
    ("empty", []),
    ("empty-tuple", ()),
    ("int", 5),
    ("none", None),
    ("ints-inside", [1, 2, 3]),
    ("mixed-bad", [[0, 1], 3, [1, 2]]),
    ("dict-cover", {(0, 1): "x", (1, 2, 3): "y"}),
    ("str-cover", "abc"),
    ("np-array", np.array([[0, 1], [1, 2], [2, 3]])),
    ("np-ragged-list", [np.array([0, 1]), np.array([1, 2, 3])]),
    ("bool-vertices", [[False, True], [True, False]]),
    ("float-vertices", [[0.0, 1.0], [1.0, 2.0, 0.0]]),
    ("negative", [[-1, 0], [0, 1, 2]]),
    ("gap-ids", [[0, 5], [5, 9, 0]]),
    ("dup-clique", [[0, 1], [0, 1], [1, 0]]),
    ("dup-vertex", [[0, 0, 1], [1, 1]]),
]

for name, cover in fixed:
    attempt("ctor[%s]" % name, lambda: describe(JointDegreeCover({N.COVER: cover})))

# one-shot iterables handed in as the cover
attempt("ctor[generator]", lambda: describe(JointDegreeCover({N.COVER: (c for c in [[0, 1], [1, 2, 0]])})))
attempt("ctor[iter]", lambda: describe(JointDegreeCover({N.COVER: iter([[0, 1], [1, 2, 0]])})))
attempt("ctor[map]", lambda: describe(JointDegreeCover({N.COVER: map(list, [(0, 1), (1, 2)])})))

# scripted __len__: order / number of len() calls, exceptions part-way, odd ints
scripts = [
    ("ok", [Sized("a", 3, [0, 1, 2]), Sized("b", 2, [0, 1]), Sized("c", 3, [2, 1, 0])]),
    ("raise-mid", [Sized("a", 2, [0, 1]), Sized("b", RuntimeError("len b")), Sized("c", 2, [0, 1])]),
    ("raise-first", [Sized("a", KeyError("len a")), Sized("b", 2, [0, 1])]),
    ("negative-len", [Sized("a", -1, [0, 1])]),
    ("float-len", [Sized("a", 2.0, [0, 1])]),
    ("huge-len", [Sized("a", 2 ** 70, [0, 1])]),
    ("intsub-len", [Sized("a", IntSub(2), [0, 1]), Sized("b", True, [0])]),
    ("lying-len", [Sized("a", 5, [0, 1]), Sized("b", 1, [0, 1, 2])]),
]
for name, cover in scripts:
    Sized.log = []
    attempt("ctor-script[%s]" % name, lambda: describe(JointDegreeCover({N.COVER: cover})))
    print("   len-calls", Sized.log)

# malformed parameter dicts
for name, p in [
    ("empty", {}),
    ("none", None),
    ("list", []),
    ("strkey", {"cover": [[0, 1]]}),
    ("wrongenum", {JointDegreeType.COVER: [[0, 1]]}),
    ("extra", {N.COVER: [[0, 1], [1, 2, 0]], N.MOTIF_SIZES: [9, 9], N.JDD: {(1,): 1.0}}),
]:
    attempt("ctor-bad[%s]" % name, lambda: describe(JointDegreeCover(p)))
    attempt("factory-bad[%s]" % name, lambda: describe(JointDegreeFactory.resolve_joint_degree(JointDegreeType.COVER, p)))

# random covers, all entry points, then sampling (consumes the random stream),
# repeated calls and the setters on the same object
r = random.Random(99)
for i in range(40):
    nv = r.randint(3, 30)
    cover = random_cover(r, nv, r.randint(0, 25), r.randint(2, min(nv, 14)))
    if i % 3 == 0:
        cover = [[v + 1 for v in c] for c in cover]
    which = i % 3
    if which == 0:
        mk = lambda: JointDegreeCover({N.COVER: cover})
    elif which == 1:
        mk = lambda: JointDegreeFactory.resolve_joint_degree(JointDegreeType.COVER, {N.COVER: cover})
    else:
        mk = lambda: JointDegreeDistribution.load_joint_degree({N.JOINT_DEGREE_TYPE: "cover", N.COVER: cover})
    try:
        obj = mk()
    except BaseException as e:  # noqa
        print("rand[%d]" % i, "EXC", exc_chain(e), "|", rng())
        continue
    print("rand[%d]" % i, "OK", describe(obj), "|", rng())
    for n in (0, 1, 13, 500):
        def draw():
            jds = obj.sample_jds_from_jdd(n)
            tot = list(map(sum, zip(*jds)))
            return (len(jds), tot, [t % m for t, m in zip(tot, obj.motif_sizes)], h(jds))
        attempt("  sample[%d,%d]" % (i, n), draw)
    # repeated create_jdd, cover setter, motif_sizes setter
    attempt("  recreate[%d]" % i, lambda: (obj.create_jdd(), describe(obj))[1])
    obj.cover = [[0, 1], [1, 2, 3, 0]]
    attempt("  after-cover-set[%d]" % i, lambda: (obj.create_jdd(), describe(obj))[1])
    obj.motif_sizes = [2, 4]
    attempt("  sample-after-set[%d]" % i, lambda: h(obj.sample_jds_from_jdd(21)))
    print("  cover-identity[%d]" % i, obj.cover is not cover, "|", rng())

print("end", rng())
