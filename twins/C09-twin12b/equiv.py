import sys, os; sys.path.insert(0, os.getcwd())
import hashlib
import random
import itertools

import numpy as np
import networkx as nx

from gcmpy.covers.eecc import EECC, binom
from gcmpy.network.network import Network

random.seed(90417)
np.random.seed(90417)

LINES = []


def rng_tag():
    h = hashlib.sha256()
    h.update(repr(random.getstate()).encode())
    st = np.random.get_state()
    h.update(repr((st[0], st[1].tolist(), st[2], st[3], st[4])).encode())
    return h.hexdigest()[:16]


def emit(*parts):
    LINES.append(" | ".join(str(p) for p in parts))


def graph_tag(g):
    try:
        nodes = sorted(g.nodes(), key=repr)
        edges = sorted((tuple(sorted(e[:2], key=repr)) for e in g.edges()), key=repr)
        return "%s n=%r e=%r" % (type(g).__name__, nodes, edges)
    except Exception as ex:  # pragma: no cover
        return "graph_tag-failed:" + type(ex).__name__


def attempt(label, fn):
    try:
        out = fn()
        res = "ok %s %r" % (type(out).__name__, out)
    except BaseException as ex:  # noqa
        if isinstance(ex, (KeyboardInterrupt, SystemExit)):
            raise
        res = "EXC %s %s" % (type(ex).__name__, ex.args and repr(ex.args[0])[:80])
    emit(label, res, rng_tag())
    return res


def run_cover(label, edges, m0, set_m0=True, graph=None, extra_nodes=(), repeats=1):
    e = EECC()
    if graph is not None:
        e.G = graph
    if edges is not None:
        attempt(label + " add_edges_from", lambda: e.add_edges_from(edges))
    for v in extra_nodes:
        e.G.add_node(v)
    if set_m0:
        attempt(label + " set_m0=%r" % (m0,), lambda: e.set_max_clique_size(m0))
    for k in range(repeats):
        attempt(label + " get_EECC#%d" % k, e.get_EECC)
        attempt(label + " has_edges#%d" % k, e.has_edges)
        emit(label + " after#%d" % k, graph_tag(e.G), "m0=%r" % (e._m0,))
    return e


# ---------------------------------------------------------------- fixed graphs
def K(n, off=0):
    return list(itertools.combinations(range(off, off + n), 2))


FIXED = {
    "empty": [],
    "one_edge": [(0, 1)],
    "dup_edge": [(0, 1), (1, 0), (0, 1)],
    "path3": [(0, 1), (1, 2)],
    "triangle": K(3),
    "K4": K(4),
    "K5": K(5),
    "K6": K(6),
    "two_tri_share_edge": [(0, 1), (1, 2), (0, 2), (1, 3), (2, 3)],
    "two_tri_share_vertex": [(0, 1), (1, 2), (0, 2), (2, 3), (3, 4), (2, 4)],
    "K4_plus_tri": K(4) + [(3, 4), (4, 5), (3, 5)],
    "bowtie_K4s": K(4) + K(4, 3),
    "star": [(0, i) for i in range(1, 6)],
    "cycle5": [(i, (i + 1) % 5) for i in range(5)],
    "wheel": [(0, i) for i in range(1, 6)] + [(i, i % 5 + 1) for i in range(1, 6)],
    "self_loop_only": [(0, 0)],
    "self_loop_tri": K(3) + [(1, 1)],
    "str_nodes": [("a", "b"), ("b", "c"), ("a", "c"), ("c", "d")],
    "mixed_nodes": [(0, "a"), ("a", 1), (0, 1)],
    "tuple_nodes": [((0, 0), (0, 1)), ((0, 1), (1, 1)), ((0, 0), (1, 1))],
    "float_nodes": [(0.5, 1.5), (1.5, 2.5), (0.5, 2.5), (2.5, 3.0)],
    "weighted_3tuples": [(0, 1, {"w": 1}), (1, 2, {"w": 2}), (0, 2, {"w": 3})],
}

M0S = [2, 3, 4, 5, 10, 1, 0, -1, True, False, None, 2.5, 3.0, "3"]

for name, edges in FIXED.items():
    for m0 in M0S:
        run_cover("fixed:%s:m0=%r" % (name, m0), edges, m0)
    # default m0 (never set)
    run_cover("fixed:%s:default" % name, edges, None, set_m0=False)

# ---------------------------------------------------------------- malformed edge lists
for bad in [None, 5, [(0,)], [(0, 1, 2, 3)], [0, 1], "ab", [[0, 1], [1, 2]], [([], 1)], iter([(0, 1), (1, 2), (0, 2)])]:
    run_cover("bad_edges:%r" % (bad if not hasattr(bad, "__next__") else "iter"), bad, 3)

# ---------------------------------------------------------------- graphs injected through the G setter
def g_isolated():
    g = nx.Graph()
    g.add_nodes_from([7, 8, 9])
    return g


def g_isolated_plus_tri():
    g = nx.Graph(K(3))
    g.add_nodes_from([10, 11])
    return g


def g_multi():
    g = nx.MultiGraph()
    g.add_edges_from([(0, 1), (0, 1), (1, 2), (0, 2)])
    return g


def g_multi_empty():
    return nx.MultiGraph()


def g_di():
    return nx.DiGraph([(0, 1), (1, 2), (2, 0)])


def g_di_empty():
    return nx.DiGraph()


for mk in [g_isolated, g_isolated_plus_tri, g_multi, g_multi_empty, g_di, g_di_empty, nx.Graph, lambda: None, lambda: 3, lambda: {}]:
    for m0 in [2, 3, 1, 0, None]:
        try:
            g = mk()
        except Exception:
            continue
        run_cover("setter:%s:m0=%r" % (getattr(mk, "__name__", "x"), m0), None, m0, graph=g)

# ---------------------------------------------------------------- random graphs, repeated calls on one object
for seed in range(40):
    n = 4 + seed % 9
    p = [0.2, 0.35, 0.5, 0.7, 0.9][seed % 5]
    g = nx.gnp_random_graph(n, p, seed=seed)
    edges = list(g.edges())
    for m0 in [2, 3, 4, 6]:
        e = run_cover("rand:%d:m0=%d" % (seed, m0), edges, m0, repeats=2)
        # re-fill the SAME object and run again (state carried over)
        attempt("rand:%d:m0=%d refill" % (seed, m0), lambda: e.add_edges_from(edges[: len(edges) // 2 + 1]))
        attempt("rand:%d:m0=%d again" % (seed, m0), e.get_EECC)
        emit("rand:%d:m0=%d final" % (seed, m0), graph_tag(e.G), e.has_edges())

# a few denser / clique-rich graphs that exercise ties and the overlap scan
for seed in range(12):
    g = nx.relaxed_caveman_graph(3, 4, 0.3, seed=seed)
    for m0 in [3, 4]:
        run_cover("caveman:%d:m0=%d" % (seed, m0), list(g.edges()), m0)
for seed in range(6):
    g = nx.random_regular_graph(4, 10, seed=seed)
    run_cover("regular:%d" % seed, list(g.edges()), 3)

# ---------------------------------------------------------------- limited_maximal_cliques / compute_scores directly
for name, edges in FIXED.items():
    for m0 in [2, 3, 4, 0, 1, -1, None]:
        e = EECC()
        attempt("lmc:%s add" % name, lambda: e.add_edges_from(edges))
        e.set_max_clique_size(m0)
        attempt("lmc:%s:m0=%r" % (name, m0), e.limited_maximal_cliques)


def scores(label, C, EC=None, ordl=None, r=None, idx=None, owner=None):
    e = owner or EECC()
    n = len(C) if hasattr(C, "__len__") else 0
    EC = [] if EC is None else EC
    ordl = [0] * n if ordl is None else ordl
    r = [0.0] * n if r is None else r
    idx = [] if idx is None else idx
    res = attempt(label, lambda: e.compute_scores(C, EC, ordl, r, idx))
    emit(label + " state", "C=%r" % (C,), "EC=%r" % (EC,), "ord=%r" % (ordl,), "r=%r" % (r,), "idx=%r" % (idx,))
    return res


scores("cs:empty", [])
scores("cs:one_pair", [[1, 0]])
scores("cs:one_tri", [[2, 0, 1]])
scores("cs:dup_tri", [[0, 1, 2], [2, 1, 0]])
scores("cs:overlap", [[0, 1, 2], [1, 2, 3], [3, 4]])
scores("cs:overlap_tuple", [(0, 1, 2), (1, 2, 3), (2, 3, 4, 5)])
scores("cs:singletons", [[0], [1], []])
scores("cs:big", [list(range(6)), [0, 1, 9], [4, 5, 8], [6, 7]])
scores("cs:unhashable", [[[0], [1], [2]], [[0], [1], [3]]])
scores("cs:unorderable", [[0, "a", 1], [0, 1, 2]])
scores("cs:short_ord", [[0, 1, 2], [1, 2, 3]], ordl=[0])
scores("cs:short_r", [[0, 1, 2], [1, 2, 3]], r=[0.0])
scores("cs:prefilled_r", [[0, 1, 2], [1, 2, 3]], r=[0.5, 0])
scores("cs:int_r", [[0, 1, 2], [1, 2, 3], [7, 8, 9]], r=[0, 0, 0])
scores("cs:none", None)
scores("cs:int", 5)
scores("cs:nonlist_members", [[0, 1, 2], 7])
scores("cs:str_members", ["abc", "bcd"])
scores("cs:EC_none", [[0, 1]], EC=None, idx=None)
scores("cs:EC_tuple", [[0, 1]], EC=())
shared_EC, shared_idx = [["x"]], [99]
scores("cs:shared1", [[0, 1, 2], [2, 3]], EC=shared_EC, idx=shared_idx)
scores("cs:shared2", [[0, 1, 2], [0, 1, 3]], EC=shared_EC, idx=shared_idx)

# ---------------------------------------------------------------- Network primitives
def net_cases(cls):
    nm = cls.__name__
    n = cls()
    attempt(nm + " has_edges empty", n.has_edges)
    attempt(nm + " remove missing", lambda: n.remove_edge(0, 1))
    attempt(nm + " add_edge", lambda: n.add_edge((0, 1)))
    attempt(nm + " add_edge attr", lambda: n.add_edge((1, 2, {"w": 1})))
    attempt(nm + " add_edge bad", lambda: n.add_edge((1,)))
    attempt(nm + " add_edge unhashable", lambda: n.add_edge(([], 1)))
    attempt(nm + " has_edges", n.has_edges)
    attempt(nm + " remove (1,0)", lambda: n.remove_edge(1, 0))
    attempt(nm + " remove (1,0) again", lambda: n.remove_edge(1, 0))
    attempt(nm + " remove unknown node", lambda: n.remove_edge(55, 56))
    attempt(nm + " remove half-known", lambda: n.remove_edge(1, 56))
    attempt(nm + " remove unhashable", lambda: n.remove_edge([], 1))
    attempt(nm + " remove unhashable2", lambda: n.remove_edge(1, {}))
    attempt(nm + " remove None", lambda: n.remove_edge(None, None))
    attempt(nm + " add self loop", lambda: n.add_edge((4, 4)))
    attempt(nm + " remove self loop", lambda: n.remove_edge(4, 4))
    attempt(nm + " remove self loop again", lambda: n.remove_edge(4, 4))
    emit(nm + " graph", graph_tag(n.G), n.has_edges())
    attempt(nm + " find_cliques", lambda: sorted(sorted(c) for c in n.find_cliques()))
    for g in [nx.MultiGraph([(0, 1), (0, 1)]), nx.DiGraph([(0, 1)]), nx.MultiDiGraph([(0, 1), (0, 1)])]:
        n.G = g
        attempt(nm + " %s remove(0,1)" % type(g).__name__, lambda: n.remove_edge(0, 1))
        attempt(nm + " %s remove(0,1) b" % type(g).__name__, lambda: n.remove_edge(0, 1))
        attempt(nm + " %s remove(1,0)" % type(g).__name__, lambda: n.remove_edge(1, 0))
        attempt(nm + " %s remove(0,1) c" % type(g).__name__, lambda: n.remove_edge(0, 1))
        attempt(nm + " %s has_edges" % type(g).__name__, n.has_edges)
        emit(nm + " graph", graph_tag(n.G))

    class Raising:
        def __init__(self, exc):
            self.exc = exc

        def remove_edge(self, i, j):
            raise self.exc

        def edges(self):
            return []

    for exc in [KeyError("k"), nx.NetworkXError("n"), nx.NetworkXNoPath("p"), nx.NodeNotFound("q"), ValueError("v"), IndexError("i"), LookupError("l")]:
        n.G = Raising(exc)
        attempt(nm + " raising %s" % type(exc).__name__, lambda: n.remove_edge(0, 1))
        attempt(nm + " raising has_edges", n.has_edges)
    n.G = None
    attempt(nm + " G=None remove", lambda: n.remove_edge(0, 1))
    attempt(nm + " G=None has_edges", n.has_edges)


net_cases(Network)
net_cases(EECC)

# ---------------------------------------------------------------- binom (module-level helper used by the scoring)
for nn in [-3, -1, 0, 1, 2, 3, 5, 10, 2.5, -2.5, "x", None, True]:
    for rr in [-2, 0, 1, 2, 3, 7, 1.5, None]:
        attempt("binom(%r,%r)" % (nn, rr), lambda: binom(nn, rr))

emit("final rng", rng_tag())
body = "\n".join(LINES)
print(body)
print("DIGEST", hashlib.sha256(body.encode()).hexdigest(), len(LINES))
