"""
Equivalence driver for claim C02 (edge list columns / motif ids).

Run with cwd = a checkout of gcmpy:  python equiv.py > out.txt
Prints a deterministic transcript: results (bit-exact via repr), exceptions,
RNG state digests after each call and mutated inputs.  It only uses the public
surface that exists both before and after the change.

Set EQUIV_DEBUG=1 to also show (on stderr) the debug records captured during
the DEBUG-level pass; stdout is the same either way.
"""
import hashlib
import io
import logging
import os
import random
import re
import sys

sys.path.insert(0, os.getcwd())

import numpy as np  # noqa: E402

from gcmpy.gcm_algorithm.gcm_algorithm_custom_motifs import (  # noqa: E402
    GCMAlgorithmCustomMotifs,
)
from gcmpy.gcm_algorithm.gcm_algorithm_factory import GCMAlgorithmFactory  # noqa: E402
from gcmpy.gcm_algorithm.gcm_algorithm_fast import GCMAlgorithmFast  # noqa: E402
from gcmpy.gcm_algorithm.gcm_algorithm_types import GCMAlgorithmTypes  # noqa: E402
from gcmpy.motif_generators.clique_motif import clique_motif  # noqa: E402
from gcmpy.motif_generators.cycle_motif import cycle_motif  # noqa: E402
from gcmpy.motif_generators.diamond_motif import diamond_motif  # noqa: E402
from gcmpy.names.gcm_algorithm_names import GCMAlgorithmNames as N  # noqa: E402
from gcmpy.network.edge_list import LightWeightEdgeList  # noqa: E402


_ADDR = re.compile(r"0x[0-9a-fA-F]+")


def scrub(text: str) -> str:
    return _ADDR.sub("0xADDR", text)


def sha(text: str) -> str:
    return hashlib.sha256(text.encode()).hexdigest()[:20]


def rng_digest() -> str:
    py = sha(repr(random.getstate()))
    st = np.random.get_state()
    npd = sha(repr((st[0], st[1].tolist(), st[2], st[3], st[4])))
    return "py=%s np=%s" % (py, npd)


def seed(s: int) -> None:
    random.seed(s)
    np.random.seed(s)


def show(label: str, value) -> None:
    text = scrub(repr(value))
    if len(text) > 400:
        print("%s: sha=%s len=%d head=%s" % (label, sha(text), len(text), text[:160]))
    else:
        print("%s: %s" % (label, text))


def describe_edge_list(el) -> None:
    print("  type:", type(el).__name__)
    print("  instance attrs:", list(vars(el).keys()))
    show("  edge_list", el.edge_list)
    show("  topologies", el.topologies)
    show("  motif_id", el.motif_id)
    show("  joint_degrees", el.joint_degrees)
    print(
        "  lens:",
        len(el.edge_list),
        len(el.topologies),
        len(el.motif_id),
        "types:",
        type(el.edge_list).__name__,
        type(el.topologies).__name__,
        type(el.motif_id).__name__,
    )
    # group edges by motif id
    groups = {}
    for i, m in enumerate(el.motif_id):
        groups.setdefault(m, []).append(i)
    show("  id groups", sorted(groups.items()))


def attempt(label: str, fn, *inputs_to_watch):
    print("== " + label)
    try:
        out = fn()
    except BaseException as e:  # noqa: BLE001
        ctx = e.__context__
        print(
            scrub(
                "  EXC %s: %s | context=%s"
                % (
                    type(e).__name__,
                    e,
                    None if ctx is None else "%s: %s" % (type(ctx).__name__, ctx),
                )
            )
        )
        out = None
    else:
        if isinstance(out, LightWeightEdgeList):
            describe_edge_list(out)
        else:
            show("  result", out)
    print("  rng:", rng_digest())
    for k, w in enumerate(inputs_to_watch):
        show("  watched[%d]" % k, w)
    return out


# ---------------------------------------------------------------------------
# build / naming callbacks
# ---------------------------------------------------------------------------
CALLS = []


def logged(name, fn):
    def wrapper(*a):
        CALLS.append((name, repr(a)))
        return fn(*a)

    return wrapper


def bare_edge(vs):
    return (vs[0], vs[1])


def bare_edge_list(vs):
    return [vs[0], vs[1]]


def two_edges(vs):
    return ((vs[0], vs[1]), (vs[1], vs[2]))


def two_edges_lists(vs):
    return [[vs[0], vs[1]], [vs[1], vs[2]]]


def np_edges(vs):
    return np.array([(vs[0], vs[1]), (vs[1], vs[2]), (vs[0], vs[2])])


def gen_edges(vs):
    return ((vs[i], vs[i + 1]) for i in range(len(vs) - 1))


def empty_edges(vs):
    return []


def boom(vs):
    raise RuntimeError("boom %r" % (sorted(vs),))


def diamond(vs):
    return (
        (vs[0], vs[1]),
        (vs[1], vs[2]),
        (vs[2], vs[3]),
        (vs[3], vs[1]),
        (vs[0], vs[2]),
    )


def diamond_names():
    return ("d-outer", "d-outer", "d-outer", "d-outer", "d-inner")


def twoclique_names():
    return "2-clique"


def threeclique(vs):
    return (vs[0], vs[1]), (vs[0], vs[2]), (vs[1], vs[2])


def threeclique_names():
    return "3-clique", "3-clique", "3-clique"


def pentagon(vs):
    return (
        (vs[0], vs[1]),
        (vs[1], vs[2]),
        (vs[2], vs[3]),
        (vs[3], vs[4]),
        (vs[0], vs[4]),
        (vs[1], vs[3]),
    )


def pentagon_names():
    return "p01", "p12", "p23", "p34", "p40", "p13"


def two_edge_names():
    return ("chain-a", "chain-b")


def short_names():
    return ("only-one",)


PAPER_JDS = [
    (2, 1, 0, 1, 1, 0, 0),
    (1, 1, 0, 1, 1, 0, 0),
    (3, 1, 1, 0, 0, 1, 0),
    (2, 0, 1, 0, 0, 1, 0),
    (0, 0, 0, 1, 0, 0, 1),
    (1, 0, 0, 1, 0, 0, 0),
    (1, 0, 1, 0, 0, 0, 0),
    (1, 0, 1, 0, 0, 0, 0),
    (1, 0, 0, 1, 0, 0, 0),
    (1, 0, 0, 1, 0, 0, 0),
    (1, 0, 1, 0, 0, 0, 0),
    (0, 0, 1, 0, 0, 0, 0),
]


def fast_params(sizes, names, builders):
    return {N.MOTIF_SIZES: sizes, N.EDGE_NAMES: names, N.BUILD_FUNCTIONS: builders}


def custom_params(sizes, names, builders, indices):
    p = fast_params(sizes, names, builders)
    p[N.MOTIF_INDICES] = indices
    return p


def random_jds(n, cols, hi, s):
    r = random.Random(s)
    return [tuple(r.randint(0, hi) for _ in range(cols)) for _ in range(n)]


# ---------------------------------------------------------------------------
def exercise_edge_list():
    print("#### LightWeightEdgeList")
    el = LightWeightEdgeList()
    print("attrs:", list(vars(el).items()))
    for attr in ("edge_list", "topologies", "joint_degrees", "motif_id"):
        first = getattr(el, attr)
        print(attr, "default", repr(first), "stable identity", first is getattr(el, attr))
        marker = [attr, 1, (2, 3)]
        setattr(el, attr, marker)
        print(attr, "set->get identity", getattr(el, attr) is marker, repr(getattr(el, attr)))
        print(attr, "private", repr(getattr(el, "_" + attr)), getattr(el, "_" + attr) is marker)
        setattr(el, attr, None)
        print(attr, "None", repr(getattr(el, attr)))
        prop = getattr(LightWeightEdgeList, attr)
        print(attr, "is property", isinstance(prop, property), prop.fset is not None, prop.fdel)
    print("attrs after:", list(vars(el).items()))
    el2 = LightWeightEdgeList()
    el2.edge_list.append((1, 2))
    print("independent instances:", el2.edge_list, LightWeightEdgeList().edge_list)
    try:
        LightWeightEdgeList(1)
    except TypeError as e:
        print("ctor arg:", type(e).__name__)
    try:
        del el.edge_list
    except AttributeError as e:
        print("del:", type(e).__name__)


def exercise_fast():
    print("#### GCMAlgorithmFast")
    # constructor error paths
    attempt("fast ctor missing key", lambda: GCMAlgorithmFast({N.MOTIF_SIZES: [2]}))
    attempt("fast ctor params None", lambda: GCMAlgorithmFast(None))
    attempt(
        "factory FAST",
        lambda: type(
            GCMAlgorithmFactory.resolve_algorithm(
                GCMAlgorithmTypes.FAST, fast_params([2], ["e"], [clique_motif])
            )
        ).__name__,
    )

    sizes = [2, 3]
    names = ["2-clique", "3-clique"]
    builders = [logged("c2", clique_motif), logged("c3", clique_motif)]
    params = fast_params(sizes, names, builders)
    alg = GCMAlgorithmFast(params)

    for s in (0, 1, 12345):
        jds = random_jds(9, 2, 3, s)
        jds_copy = list(jds)
        seed(s)
        del CALLS[:]
        out = attempt("fast two topologies seed %d" % s, lambda: alg.random_clustered_graph(jds), jds, sizes, names)
        print("  jds untouched:", jds == jds_copy, "joint_degrees is jds:", out.joint_degrees is jds)
        show("  callback calls", CALLS)

    # repeated calls on the same object without reseeding
    seed(7)
    jds = random_jds(12, 2, 2, 99)
    for rep in range(3):
        attempt("fast repeat %d" % rep, lambda: alg.random_clustered_graph(jds))

    # empty / degenerate inputs
    seed(3)
    attempt("fast empty jds", lambda: alg.random_clustered_graph([]))
    attempt("fast all zero degrees", lambda: alg.random_clustered_graph([(0, 0), (0, 0)]))
    attempt("fast zero-width tuples", lambda: alg.random_clustered_graph([(), ()]))
    attempt("fast single vertex", lambda: alg.random_clustered_graph([(1, 1)]))
    attempt("fast ragged tuples", lambda: alg.random_clustered_graph([(2, 1), (2,), (2, 1, 5)]))
    attempt("fast jds generator", lambda: alg.random_clustered_graph(t for t in [(2, 3), (2, 3), (2, 3)]))
    attempt("fast jds None", lambda: alg.random_clustered_graph(None))
    attempt("fast jds of ints", lambda: alg.random_clustered_graph([1, 2, 3]))
    attempt("fast negative degree", lambda: alg.random_clustered_graph([(-1, 3), (2, 3), (2, 3)]))
    attempt("fast float degree", lambda: alg.random_clustered_graph([(1.5, 3), (2, 3)]))

    # more columns than configured topologies: trailing empty column is fine,
    # a populated one is an IndexError
    seed(4)
    attempt("fast extra empty column", lambda: alg.random_clustered_graph([(2, 3, 0), (2, 3, 0), (2, 3, 0)]))
    attempt("fast extra populated column", lambda: alg.random_clustered_graph([(2, 3, 1), (2, 3, 1), (2, 3, 1)]))

    # short configuration lists
    seed(5)
    attempt(
        "fast missing build function, empty column",
        lambda: GCMAlgorithmFast(fast_params([2, 3], ["a", "b"], [clique_motif])).random_clustered_graph(
            [(2, 0), (2, 0)]
        ),
    )
    attempt(
        "fast missing build function, used column",
        lambda: GCMAlgorithmFast(fast_params([2, 3], ["a", "b"], [clique_motif])).random_clustered_graph(
            [(2, 3), (2, 3)]
        ),
    )
    attempt(
        "fast missing edge name",
        lambda: GCMAlgorithmFast(fast_params([2, 3], ["a"], [clique_motif, clique_motif])).random_clustered_graph(
            [(2, 3), (2, 3), (2, 3)]
        ),
    )
    attempt(
        "fast missing motif size",
        lambda: GCMAlgorithmFast(fast_params([2], ["a", "b"], [clique_motif, clique_motif])).random_clustered_graph(
            [(2, 0), (2, 0)]
        ),
    )
    attempt(
        "fast motif size zero",
        lambda: GCMAlgorithmFast(fast_params([0], ["a"], [clique_motif])).random_clustered_graph([(2,), (2,)]),
    )
    attempt(
        "fast motif size string",
        lambda: GCMAlgorithmFast(fast_params(["2"], ["a"], [clique_motif])).random_clustered_graph([(2,), (2,)]),
    )

    # callbacks with unusual return shapes
    for label, fn, size in (
        ("bare edge", bare_edge, 2),
        ("bare edge list", bare_edge_list, 2),
        ("two edges", two_edges, 3),
        ("two edges lists", two_edges_lists, 3),
        ("numpy edges", np_edges, 3),
        ("generator edges", gen_edges, 3),
        ("empty edges", empty_edges, 2),
        ("raising", boom, 2),
        ("cycle", cycle_motif, 4),
        ("diamond", diamond_motif, 4),
        ("not callable", 17, 2),
    ):
        seed(11)
        a = GCMAlgorithmFast(fast_params([size], [("name", label)], [fn]))
        jds = [(2,), (1,), (3,), (2,), (1,), (2,), (1,)]
        attempt("fast callback " + label, lambda: a.random_clustered_graph(jds), jds)
        attempt("fast callback " + label + " again", lambda: a.random_clustered_graph(jds))

    # a larger run
    seed(2024)
    big = random_jds(400, 3, 4, 5)
    a = GCMAlgorithmFast(fast_params([2, 3, 4], ["e", "t", "sq"], [clique_motif, clique_motif, cycle_motif]))
    attempt("fast large", lambda: a.random_clustered_graph(big))

    # subclass overriding the id sequence
    class Evens(GCMAlgorithmFast):
        def infinite_sequence(self):
            n = 100
            while True:
                yield n
                n += 2

    seed(8)
    attempt(
        "fast subclass ids",
        lambda: Evens(fast_params([2], ["e"], [clique_motif])).random_clustered_graph([(1,), (2,), (1,)]),
    )


def exercise_custom():
    print("#### GCMAlgorithmCustomMotifs")
    attempt("custom ctor missing indices", lambda: GCMAlgorithmCustomMotifs(fast_params([2], [twoclique_names], [bare_edge])))
    attempt("custom ctor missing sizes", lambda: GCMAlgorithmCustomMotifs({N.MOTIF_INDICES: [[0]]}))
    attempt("custom ctor params None", lambda: GCMAlgorithmCustomMotifs(None))
    attempt(
        "factory MOTIFS",
        lambda: type(
            GCMAlgorithmFactory.resolve_algorithm(
                GCMAlgorithmTypes.MOTIFS, custom_params([2], [twoclique_names], [bare_edge], [[0]])
            )
        ).__name__,
    )

    sizes = [2, 3, 2, 2, 2, 2, 1]
    names = [twoclique_names, threeclique_names, diamond_names, pentagon_names]
    builders = [logged("k2", bare_edge), logged("k3", threeclique), logged("dm", diamond), logged("pt", pentagon)]
    indices = [[0], [1], [2, 3], [4, 5, 6]]
    params = custom_params(sizes, names, builders, indices)
    alg = GCMAlgorithmCustomMotifs(params)
    show("stored indices is params list", alg._motif_indices is indices)
    show("instance attrs", list(vars(alg).keys()))

    # partition
    print("-- partition")
    base = list(range(10))
    for n in (1, 2, 3, 4, 10, 11, -1, -3, 0, 2.0, None, "2", True):
        b = list(base)
        attempt("partition n=%r" % (n,), lambda: alg.partition(b, n), b)
    attempt("partition empty", lambda: alg.partition([], 3))
    attempt("partition tuple", lambda: alg.partition((1, 2, 3, 4, 5), 2))
    attempt("partition str", lambda: alg.partition("abcdefg", 3))
    attempt("partition ndarray", lambda: [x.tolist() for x in alg.partition(np.arange(7), 3)])
    attempt("partition set", lambda: alg.partition({1, 2, 3}, 2))
    attempt("partition None", lambda: alg.partition(None, 2))
    attempt("partition generator", lambda: alg.partition((i for i in range(4)), 2))
    src = [[1], [2], [3]]
    parts = alg.partition(src, 2)
    print("partition shares items:", parts[0][0] is src[0], "new outer lists:", parts[0] is not src)

    print("-- random_clustered_graph")
    for s in (0, 1, 31337):
        jds = list(PAPER_JDS)
        seed(s)
        del CALLS[:]
        out = attempt("custom paper seed %d" % s, lambda: alg.random_clustered_graph(jds), jds, sizes, indices)
        print("  jds untouched:", jds == PAPER_JDS, "joint_degrees is jds:", out.joint_degrees is jds)
        show("  callback calls", CALLS)

    seed(77)
    for rep in range(3):
        attempt("custom repeat %d" % rep, lambda: alg.random_clustered_graph(PAPER_JDS))

    seed(5)
    attempt("custom empty jds", lambda: alg.random_clustered_graph([]))
    attempt("custom all zero", lambda: alg.random_clustered_graph([(0,) * 7] * 3))
    attempt("custom jds generator", lambda: alg.random_clustered_graph(t for t in PAPER_JDS))
    attempt("custom jds None", lambda: alg.random_clustered_graph(None))
    attempt("custom too few columns", lambda: alg.random_clustered_graph([(2, 1), (2, 1), (2, 1)]))
    attempt("custom too many columns", lambda: alg.random_clustered_graph([t + (1,) for t in PAPER_JDS]))
    # inconsistent orbits: second orbit runs out of partitions
    attempt(
        "custom orbit exhausted",
        lambda: alg.random_clustered_graph(
            [(0, 0, 1, 0, 0, 0, 0), (0, 0, 1, 0, 0, 0, 0), (0, 0, 1, 0, 0, 0, 0), (0, 0, 1, 0, 0, 0, 0)]
        ),
    )
    # leading orbit not divisible
    attempt("custom leading orbit remainder", lambda: alg.random_clustered_graph([(1, 0, 0, 0, 0, 0, 0)] * 5))

    def run(label, sizes, names, builders, indices, jds, s=21):
        seed(s)
        try:
            a = GCMAlgorithmCustomMotifs(custom_params(sizes, names, builders, indices))
        except BaseException as e:  # noqa: BLE001
            print(scrub("== %s ctor EXC %s %s" % (label, type(e).__name__, e)))
            return
        attempt("custom " + label, lambda: a.random_clustered_graph(jds), jds, indices)
        attempt("custom " + label + " again", lambda: a.random_clustered_graph(jds))

    k2 = [(2,), (1,), (3,), (2,), (1,), (2,), (1,)]
    k3 = [(1,), (1,), (2,), (1,), (1,), (0,)]
    run("bare edge tuple", [2], [twoclique_names], [bare_edge], [[0]], k2)
    run("bare edge list", [2], [twoclique_names], [bare_edge_list], [[0]], k2)
    run("bare edge with tuple names", [2], [short_names], [bare_edge], [[0]], k2)
    run("single edge wrapped", [2], [short_names], [clique_motif], [[0]], k2)
    run("single edge wrapped, str names", [2], [twoclique_names], [clique_motif], [[0]], k2)
    run("exactly two edges tuples", [3], [two_edge_names], [two_edges], [[0]], k3)
    run("exactly two edges lists", [3], [two_edge_names], [two_edges_lists], [[0]], k3)
    run("two edges short names", [3], [short_names], [two_edges], [[0]], k3)
    run("two edges str names", [3], [twoclique_names], [two_edges], [[0]], k3)
    run("numpy edges", [3], [threeclique_names], [np_edges], [[0]], k3)
    run("numpy bare edge", [2], [twoclique_names], [lambda vs: np.array([vs[0], vs[1]])], [[0]], k2)
    run("string vertices bare", [2], [twoclique_names], [lambda vs: ("u%d" % vs[0], "v%d" % vs[1])], [[0]], k2)
    run("generator edges", [3], [two_edge_names], [gen_edges], [[0]], k3)
    run("empty edges", [2], [lambda: ()], [empty_edges], [[0]], k2)
    run("None edges", [2], [lambda: ()], [lambda vs: None], [[0]], k2)
    run("dict edges", [2], [two_edge_names], [lambda vs: {0: (vs[0], vs[1]), 1: (vs[1], vs[0])}], [[0]], k2)
    run("dict edges no zero key", [2], [two_edge_names], [lambda vs: {"a": 1, "b": 2}], [[0]], k2)
    run("raising builder", [2], [twoclique_names], [boom], [[0]], k2)
    run("raising names", [2], [lambda: 1 / 0], [clique_motif], [[0]], k2)
    run("names not callable", [2], ["2-clique"], [clique_motif], [[0]], k2)
    run("names None", [2], [lambda: None], [clique_motif], [[0]], k2)
    run("names None bare", [2], [lambda: None], [bare_edge], [[0]], k2)
    run("builder not callable", [2], [twoclique_names], [3], [[0]], k2)
    run("size zero", [0], [twoclique_names], [bare_edge], [[0]], k2)
    run("size negative", [-2], [twoclique_names], [bare_edge], [[0]], k2)
    run("size float", [2.0], [twoclique_names], [bare_edge], [[0]], k2)
    run("size one, empty build", [1], [lambda: ()], [empty_edges], [[0]], k2)
    run("index out of range", [2], [twoclique_names], [bare_edge], [[3]], k2)
    run("negative index", [2], [twoclique_names], [bare_edge], [[-1]], k2)
    run("empty index list", [2], [twoclique_names], [bare_edge], [[]], k2)
    run("no motif types", [2], [twoclique_names], [bare_edge], [], k2)
    run("indices None", [2], [twoclique_names], [bare_edge], None, k2)
    run("indices tuple of tuples", [2], [twoclique_names], [bare_edge], ((0,),), k2)
    run("indices generator", [2], [twoclique_names], [bare_edge], ([0] for _ in range(1)), k2)
    run("index string", [2], [twoclique_names], [bare_edge], [["0"]], k2)
    run("more motif types than builders", [2, 2], [twoclique_names], [bare_edge], [[0], [1]], [(1, 1), (1, 1)])
    run("same slot used twice", [2], [twoclique_names, twoclique_names], [bare_edge, bare_edge], [[0], [0]], k2)
    run("orbit repeated in a motif", [1], [two_edge_names], [two_edges], [[0, 0, 0]], [(1,)] * 6)
    run(
        "diamond two orbits",
        [2, 2],
        [diamond_names],
        [diamond],
        [[0, 1]],
        [(1, 0), (1, 0), (0, 1), (0, 1), (1, 1), (1, 1)],
    )
    run("ragged jds", [2], [twoclique_names], [bare_edge], [[0]], [(2, 1), (2,), (2, 7, 7)])

    seed(4242)
    big = random_jds(300, 3, 3, 8)
    # make slot 1 and 2 consistent for a two-orbit diamond: same totals
    big = [(a, b, b) for (a, b, _c) in big]
    a = GCMAlgorithmCustomMotifs(
        custom_params([2, 2, 2], [twoclique_names, diamond_names], [bare_edge, diamond], [[0], [1, 2]])
    )
    attempt("custom large", lambda: a.random_clustered_graph(big))

    class Evens(GCMAlgorithmCustomMotifs):
        def infinite_sequence(self):
            n = 100
            while True:
                yield n
                n += 2

        def partition(self, lst, n):
            return [tuple(p) for p in super().partition(lst, n)]

    seed(9)
    attempt(
        "custom subclass",
        lambda: Evens(custom_params([2], [twoclique_names], [bare_edge], [[0]])).random_clustered_graph(k2),
    )


def main():
    # seed before anything runs so that every rng digest is reproducible
    seed(20261003)
    exercise_edge_list()
    exercise_fast()
    exercise_custom()

    # second pass with DEBUG logging switched on and captured (not printed):
    # results must not depend on the log level
    stream = io.StringIO()
    handler = logging.StreamHandler(stream)
    handler.setFormatter(logging.Formatter("%(name)s %(levelname)s %(message)s"))
    top = logging.getLogger("gcmpy")
    top.addHandler(handler)
    top.setLevel(logging.DEBUG)
    top.propagate = False
    print("######## DEBUG-level pass")
    err = io.StringIO()
    real_stderr = sys.stderr
    sys.stderr = err
    try:
        exercise_fast()
        exercise_custom()
    finally:
        sys.stderr = real_stderr
    print("stderr during debug pass empty:", err.getvalue() == "")
    if os.environ.get("EQUIV_DEBUG"):
        real_stderr.write(stream.getvalue())
        real_stderr.write(err.getvalue())
    print("final rng:", rng_digest())


if __name__ == "__main__":
    main()
