import sys, os; sys.path.insert(0, os.getcwd())
if os.environ.get("PYTHONHASHSEED") != "0":
    # string vertices make set order (and hence cache keys / float summation order) depend on
    # the hash seed: pin it so that the digest is deterministic
    os.environ["PYTHONHASHSEED"] = "0"
    os.execv(sys.executable, [sys.executable] + sys.argv)
import random, hashlib, itertools
from fractions import Fraction
import numpy as np
import networkx as nx
from gcmpy.message_passing.message_passing import MessagePassing
from gcmpy.message_passing.message_passing_mixin import MessagePassingMixin
from gcmpy.message_passing.equations.automated_equation import AutomatedEquation

random.seed(1717)
np.random.seed(1717)

OUT = []


def emit(*a):
    OUT.append(" ".join(str(x) for x in a))


def canon(x):
    """order-preserving, exact textual form (sets are sorted by repr)"""
    if isinstance(x, (set, frozenset)):
        return "{" + ",".join(sorted(canon(y) for y in x)) + "}"
    if isinstance(x, dict):
        return "{" + ",".join(canon(k) + ":" + canon(v) for k, v in x.items()) + "}"
    if isinstance(x, list):
        return "[" + ",".join(canon(y) for y in x) + "]"
    if isinstance(x, tuple):
        return "(" + ",".join(canon(y) for y in x) + ")"
    return type(x).__name__ + ":" + repr(x)


def graph_state(G):
    try:
        return canon([type(G).__name__, G.name, list(G.nodes(data=True)), list(G.edges(data=True)), dict(G.graph)])
    except Exception as e:  # pragma: no cover
        return "graph_state-failed:" + type(e).__name__


def ae_state(ae):
    return canon([ae._connected_subgraphs, ae._edge_combinations])


def mp_state(mp):
    d = dict(mp.__dict__)
    s = []
    for k, v in d.items():
        if k == "_MPM":
            s.append("_MPM:" + canon(v._CoverType) + graph_state(v._G))
        elif k == "_AE":
            s.append("_AE:" + ae_state(v))
        else:
            s.append(k + ":" + canon(v))
    return "|".join(s)


def h(s):
    return hashlib.sha256(s.encode()).hexdigest()[:20]


def call(tag, f, *a, **k):
    try:
        r = f(*a, **k)
        emit(tag, "->", canon(r))
        return r
    except BaseException as e:
        emit(tag, "!!", type(e).__name__, repr(str(e))[:200])
        return None


def label(key, vs, es, uid):
    return f"{key}-{list(vs)}-{list(es)}-{uid}"


def cover_graph(motifs, extra_nodes=(), cls=nx.Graph):
    """motifs: list of (key, vertices, edges); uid = position"""
    G = cls()
    G.add_nodes_from(extra_nodes)
    for uid, (key, vs, es) in enumerate(motifs):
        lab = label(key, vs, es, uid)
        for (a, b) in es:
            G.add_edge(a, b, CoverLabel=lab)
    return G


def clique(vs):
    vs = list(vs)
    return (len(vs), vs, list(itertools.combinations(vs, 2)))


def cycle(vs):
    vs = list(vs)
    return (100 + len(vs), vs, [(vs[i], vs[(i + 1) % len(vs)]) for i in range(len(vs))])


def diamond(vs):
    a, b, c, d = vs
    return (204, [a, b, c, d], [(a, b), (b, c), (c, d), (d, a), (a, c)])


def path_motif(vs):
    vs = list(vs)
    return (300 + len(vs), vs, [(vs[i], vs[i + 1]) for i in range(len(vs) - 1)])


def random_cover(rng, n, n_motifs):
    """edge-disjoint random cover: motifs placed on random vertex tuples, skipping edge clashes"""
    used = set()
    motifs = []
    tries = 0
    while len(motifs) < n_motifs and tries < 200:
        tries += 1
        kind = rng.choice(["e", "e", "t", "c4", "k4", "d", "p3", "c5"])
        size = {"e": 2, "t": 3, "c4": 4, "k4": 4, "d": 4, "p3": 3, "c5": 5}[kind]
        if size > n:
            continue
        vs = rng.sample(range(n), size)
        m = {"e": clique, "t": clique, "k4": clique, "c4": cycle, "c5": cycle, "d": diamond, "p3": path_motif}[kind](vs)
        es = {frozenset(e) for e in m[2]}
        if es & used:
            continue
        used |= es
        motifs.append(m)
    return motifs


PHIS = [0.0, 1.0, 0.5, 0.3, 0.8, 0.3, 0.0, 0.97]
BAD_PHIS = [-0.25, 1.5, "0.5", None, 1, 0, True, Fraction(1, 3), 2 + 0j, float("nan"), float("inf")]


def named_graphs():
    gs = {}
    gs["empty"] = cover_graph([])
    gs["isolated-only"] = cover_graph([], extra_nodes=[0, 1, 2])
    gs["single-edge"] = cover_graph([clique([0, 1])])
    gs["single-edge+isolated"] = cover_graph([clique([0, 1])], extra_nodes=[7, 8])
    gs["single-triangle"] = cover_graph([clique([0, 1, 2])])
    gs["single-diamond"] = cover_graph([diamond([0, 1, 2, 3])])
    gs["single-c5"] = cover_graph([cycle([0, 1, 2, 3, 4])])
    gs["path-of-edges"] = cover_graph([clique([i, i + 1]) for i in range(5)])
    gs["star-of-edges"] = cover_graph([clique([0, i]) for i in range(1, 6)])
    gs["triangle+tail"] = cover_graph([clique([0, 1, 2]), clique([2, 3]), clique([3, 4])])
    gs["two-triangles-shared-vertex"] = cover_graph([clique([0, 1, 2]), clique([2, 3, 4])])
    gs["two-components"] = cover_graph([clique([0, 1, 2]), cycle([5, 6, 7, 8]), clique([8, 9])])
    gs["p3-motifs"] = cover_graph([path_motif([0, 1, 2]), path_motif([2, 3, 4]), clique([1, 3])])
    gs["k4+c4"] = cover_graph([clique([0, 1, 2, 3]), cycle([3, 4, 5, 6]), clique([6, 0])])
    gs["string-vertices"] = cover_graph([clique(["a", "b", "c"]), clique(["c", "d"])])
    gs["digraph"] = cover_graph([clique([0, 1, 2]), clique([2, 3])], cls=nx.DiGraph)
    gs["multigraph"] = cover_graph([clique([0, 1, 2]), clique([2, 3])], cls=nx.MultiGraph)
    # malformed covers
    g = cover_graph([clique([0, 1, 2]), clique([2, 3])])
    g.add_edge(3, 4)  # edge without a cover label
    gs["unlabelled-edge"] = g
    g = nx.Graph()
    g.add_edge(0, 1, CoverLabel=label(2, [0, 1, 9], [(0, 1), (1, 9)], 0))  # vertex 9 not in G
    gs["label-vertex-missing"] = g
    g = nx.Graph()
    g.add_edge(0, 1, CoverLabel=label(2, [0], [(0, 1)], 0))  # vertex list too short
    g.add_edge(1, 2, CoverLabel=label(2, [1, 2], [(1, 2)], 1))
    gs["label-vertices-short"] = g
    g = nx.Graph()
    g.add_edge(0, 1, CoverLabel=label(2, [], [(0, 1)], 0))  # empty vertex list
    gs["label-vertices-empty"] = g
    g = nx.Graph()
    g.add_edge(0, 1, CoverLabel=label(2, [0, 1, 1, 0], [(0, 1), (0, 1)], 0))  # duplicates
    g.add_edge(1, 2, CoverLabel=label(2, [1, 2], [(1, 2)], 1))
    gs["label-duplicates"] = g
    g = nx.Graph()
    g.add_edge(0, 1, CoverLabel="2-[[0], [1]]-[(0, 1)]-0")  # unhashable vertices
    gs["label-unhashable"] = g
    g = nx.Graph()
    g.add_edge(0, 1, CoverLabel="2-[0, 1.0, True]-[(0, 1)]-0")  # hash-equal vertex spellings
    g.add_edge(1, 2, CoverLabel="2-[1, 2]-[(1, 2)]-1")
    gs["label-hash-equal"] = g
    g = nx.Graph()
    g.add_edge(0, 1, CoverLabel="garbage")
    gs["label-garbage"] = g
    g = nx.Graph()
    g.add_edge(0, 1, CoverLabel="2-[0, 1]-[(0, 1)]-x")
    gs["label-bad-id"] = g
    g = nx.Graph()
    g.add_edge(0, 0, CoverLabel=label(1, [0], [(0, 0)], 0))  # self loop
    g.add_edge(0, 1, CoverLabel=label(2, [0, 1], [(0, 1)], 1))
    gs["self-loop"] = g
    g = nx.Graph()  # two motifs sharing one ID
    g.add_edge(0, 1, CoverLabel=label(2, [0, 1], [(0, 1)], 0))
    g.add_edge(1, 2, CoverLabel=label(2, [1, 2], [(1, 2)], 0))
    g.add_edge(2, 3, CoverLabel=label(2, [2, 3], [(2, 3)], 1))
    gs["shared-motif-id"] = g
    g = nx.Graph()  # motif edges in the label that the graph does not have
    g.add_edge(0, 1, CoverLabel=label(3, [0, 1, 2], [(0, 1), (1, 2), (0, 2)], 0))
    g.add_edge(1, 2, CoverLabel=label(3, [0, 1, 2], [(0, 1), (1, 2), (0, 2)], 0))
    g.add_edge(2, 3, CoverLabel=label(2, [2, 3], [(2, 3)], 1))
    gs["label-extra-edge"] = g
    rng = random.Random(99)
    for t in range(6):
        n = rng.randint(4, 11)
        gs[f"random-{t}"] = cover_graph(random_cover(rng, n, rng.randint(2, 7)), extra_nodes=range(n) if t % 2 else ())
    return gs


def run_theoretical_suite(iterations_for=lambda name: 4):
    for name, G in named_graphs().items():
        before = graph_state(G)
        it = iterations_for(name)
        mp = MessagePassing(G, iterations=it)
        for phi in PHIS:
            call(f"[{name}] theoretical({phi!r})", mp.theoretical, phi)
            emit(f"[{name}]   state", h(mp_state(mp)), "H_tau", canon(mp._H_tau)[:400])
        # fresh object per phi must agree with the reused one (digest only records)
        for phi in PHIS[:4]:
            fresh = MessagePassing(G, iterations=it)
            call(f"[{name}] fresh theoretical({phi!r})", fresh.theoretical, phi)
            emit(f"[{name}]   fresh state", h(mp_state(fresh)))
        for phi in BAD_PHIS:
            call(f"[{name}] bad-phi theoretical({phi!r})", mp.theoretical, phi)
            emit(f"[{name}]   state", h(mp_state(mp)))
        emit(f"[{name}] graph unchanged", before == graph_state(G))
    # malformed constructor arguments
    G = named_graphs()["triangle+tail"]
    for it in [0, -3, 1, 2.5, "3", None, True]:
        mp = MessagePassing(G, iterations=it)
        call(f"[iterations={it!r}] theoretical(0.6)", mp.theoretical, 0.6)
        emit("   state", h(mp_state(mp)), canon(mp._H_tau)[:300])
    for bad in [None, 5, "graph", {0: {1: {}}}]:
        try:
            mp = MessagePassing(bad)
            call(f"[G={bad!r}] theoretical(0.5)", mp.theoretical, 0.5)
            emit("   state", canon({k: v for k, v in mp.__dict__.items() if k not in ("_MPM", "_AE")}))
        except BaseException as e:
            emit("   ctor failed", type(e).__name__)


def finish():
    emit("random state", h(repr(random.getstate())))
    emit("numpy state", h(repr(np.random.get_state())))
    text = "\n".join(OUT)
    print(text)
    print("DIGEST", hashlib.sha256(text.encode()).hexdigest())


# ---------------------------------------------------------------------------
# variant a: calculate_H_tau / vertices whose only motif is the current one
# ---------------------------------------------------------------------------
def variant_specific():
    for name, G in named_graphs().items():
        if type(G) is nx.MultiGraph:
            continue
        # 1. fresh object, nothing initialised: AttributeError(_phi) when every other
        #    member of the motif is a leaf, KeyError(_H_tau) otherwise
        edges = list(G.edges(data=True))
        for (i, j, d) in edges:
            lab = d.get("CoverLabel")
            if lab is None:
                continue
            for focal in (i, j, "nope", -1):
                mp = MessagePassing(G, iterations=2)
                call(f"[{name}] fresh calculate_H_tau({focal!r},{lab})", mp.calculate_H_tau, focal, lab)
                emit("    ", canon(mp._H_tau), sorted(k for k in mp.__dict__))
                # phi set by hand, table still empty
                mp = MessagePassing(G, iterations=2)
                mp._phi = 0.35
                call(f"[{name}] phi-only calculate_H_tau({focal!r},{lab})", mp.calculate_H_tau, focal, lab)
                emit("    ", canon(mp._H_tau), h(ae_state(mp._AE)))
        # 2. after a full run: every (focal, label) pair, twice, in two orders
        mp = MessagePassing(G, iterations=3)
        call(f"[{name}] theoretical(0.45)", mp.theoretical, 0.45)
        labs = []
        for (i, j, d) in edges:
            lab = d.get("CoverLabel")
            if lab is not None and lab not in labs:
                labs.append(lab)
        nodes = list(G.nodes())
        for rep in range(2):
            for lab in (labs if rep == 0 else labs[::-1]):
                for focal in nodes + ["ghost"]:
                    call(f"[{name}] r{rep} calculate_H_tau({focal!r},{lab})", mp.calculate_H_tau, focal, lab)
            emit(f"[{name}] r{rep} table", canon(mp._H_tau))
        emit(f"[{name}] final", h(mp_state(mp)))
        # 3. resolve_equation directly with the empty-product value
        for lab in labs:
            try:
                vs = mp._MPM.get_vertices_in_motif(lab)
            except BaseException as e:
                emit("vs failed", type(e).__name__)
                continue
            def hashable(v):
                try:
                    hash(v)
                    return True
                except TypeError:
                    return False
            vs = [v for v in vs if hashable(v)]
            for prods in ({v: 1 for v in vs}, {v: 1.0 for v in vs}, {}, {v: 0 for v in vs}):
                for focal in list(vs)[:2]:
                    try:
                        hash(focal)
                    except TypeError:
                        continue
                    call(f"[{name}] resolve_equation({focal!r},{lab},{canon(prods)})", mp.resolve_equation, focal, lab, prods)


run_theoretical_suite()
variant_specific()
finish()
