import sys, os; sys.path.insert(0, os.getcwd())
import hashlib
import random
import itertools

import numpy as np
import networkx as nx

from gcmpy.covers.mpcc import MPCC

H = hashlib.sha256()


def emit(*parts):
    line = " | ".join(str(p) for p in parts)
    H.update(line.encode() + b"\n")
    print(line)


def rng_digest():
    a = hashlib.sha256(repr(random.getstate()).encode()).hexdigest()[:16]
    s = np.random.get_state()
    b = hashlib.sha256(repr((s[0], s[1].tolist(), s[2], s[3], s[4])).encode()).hexdigest()[:16]
    return a + "/" + b


def graph_digest(G):
    nodes = list(G.nodes(data=True))
    if G.is_multigraph():
        edges = list(G.edges(keys=True, data=True))
    else:
        edges = list(G.edges(data=True))
    adj = {repr(u): [repr(v) for v in G.adj[u]] for u in G}
    txt = repr((type(G).__name__, nodes, edges, adj, dict(G.graph)))
    return hashlib.sha256(txt.encode()).hexdigest()[:20], txt


def run(name, G, *args, show=False, **kwargs):
    before, _ = graph_digest(G)
    try:
        R = MPCC(G, *args, **kwargs)
    except BaseException as ex:
        after, txt = graph_digest(G)
        emit(name, args, kwargs, "EXC", type(ex).__name__, str(ex), before, after, rng_digest())
        return None
    after, txt = graph_digest(R)
    emit(name, args, kwargs, "same-object" if R is G else "other-object", before, after,
         txt if show else "", rng_digest())
    return R


def fresh(seed):
    random.seed(seed)
    np.random.seed(seed)


def caveman_plus(seed):
    r = random.Random(seed)
    G = nx.connected_caveman_graph(4, 5)
    for _ in range(8):
        u, v = r.sample(range(20), 2)
        G.add_edge(u, v)
    return G


def small_graphs():
    yield "empty", nx.Graph()
    yield "one-node", nx.empty_graph(1)
    yield "isolated-5", nx.empty_graph(5)
    yield "single-edge", nx.path_graph(2)
    yield "path-6", nx.path_graph(6)
    yield "cycle-5", nx.cycle_graph(5)
    yield "triangle", nx.complete_graph(3)
    yield "K4", nx.complete_graph(4)
    yield "K5", nx.complete_graph(5)
    yield "K7", nx.complete_graph(7)
    yield "K4-minus-edge", nx.from_edgelist([(0, 1), (0, 2), (0, 3), (1, 2), (1, 3)])
    yield "bowtie", nx.from_edgelist([(0, 1), (1, 2), (0, 2), (2, 3), (3, 4), (2, 4)])
    yield "two-triangles-sharing-edge", nx.from_edgelist([(0, 1), (1, 2), (0, 2), (1, 3), (2, 3)])
    yield "wheel-7", nx.wheel_graph(7)
    yield "petersen", nx.petersen_graph()
    yield "caveman", nx.connected_caveman_graph(3, 4)
    yield "caveman-plus", caveman_plus(5)
    yield "ring-of-cliques", nx.ring_of_cliques(4, 4)
    yield "K33", nx.complete_bipartite_graph(3, 3)
    yield "star", nx.star_graph(6)
    yield "lollipop", nx.lollipop_graph(5, 3)
    yield "barbell", nx.barbell_graph(4, 2)
    yield "turan", nx.turan_graph(8, 3)
    G = nx.Graph()
    G.add_edges_from([("a", "b"), ("b", "c"), ("a", "c"), ("c", "d"), ("d", (1, 2)), ("c", (1, 2))])
    yield "string-and-tuple-nodes", G
    G = nx.Graph()
    G.add_edges_from([(3, 1), (1, 2), (2, 3), (2, 0), (0, 3), (0, 1), (9, 0)])
    yield "insertion-order-scrambled", G
    G = nx.complete_graph(4)
    G.add_edge(0, 0)
    G.add_edge(2, 2)
    yield "self-loops", G
    G = nx.complete_graph(4)
    for u, v in G.edges():
        G.edges[u, v]["weight"] = u + v
        G.edges[u, v]["clique"] = "stale"
    G.graph["name"] = "decorated"
    G.nodes[0]["colour"] = "red"
    yield "pre-existing-attributes", G
    nan = float("nan")
    G = nx.Graph()
    G.add_edges_from([(nan, 1), (1, 2), (nan, 2), (2, 3)])
    yield "nan-node", G
    G = nx.Graph()
    G.add_edges_from([(1, 1.0), (1, 2), (2, True), (2, 3.5), (1, 3.5)])
    yield "equal-hash-nodes", G
    yield "frozen", nx.freeze(nx.complete_graph(4))
    yield "subgraph-view", nx.complete_graph(6).subgraph([0, 1, 2, 4])
    yield "digraph", nx.DiGraph([(0, 1), (1, 2), (0, 2)])
    yield "multigraph-no-edges", nx.empty_graph(3, create_using=nx.MultiGraph)
    yield "multigraph", nx.MultiGraph([(0, 1), (0, 1), (1, 2), (0, 2)])
    yield "multidigraph", nx.MultiDiGraph([(0, 1), (1, 2)])


LIMITS = [(), (0,), (1,), (2,), (3,), (4,), (100,), (-1,), (2.5,), (True,)]

# 1. every small graph under every limit, fresh seeds
for idx, (name, _) in enumerate(small_graphs()):
    for j, lim in enumerate(LIMITS):
        G = dict(small_graphs())[name]
        fresh(1000 * idx + j)
        run(name, G, *lim, show=True)

# 2. keyword spelling and bad limits
for lim in [None, "2", [2], 2 + 0j, np.int64(3), np.float64(0.0), float("nan"), float("inf")]:
    for name in ["empty", "one-node", "K4", "bowtie"]:
        G = dict(small_graphs())[name]
        fresh(77)
        run("badlimit-" + name, G, max_size=lim, show=True)

# 3. non-graph arguments
for obj in [None, 3, [(0, 1)], {0: [1]}]:
    fresh(5)
    try:
        MPCC(obj)
        emit("nongraph", repr(obj), "returned")
    except BaseException as ex:
        emit("nongraph", repr(obj), "EXC", type(ex).__name__, str(ex), rng_digest())

# 4. one continuing random stream over many random graphs, no reseeding
fresh(20261004)
for n in range(1, 13):
    for p in (0.15, 0.35, 0.6, 0.85, 1.0):
        for lim in (0, 2, 3, 4):
            G = nx.gnp_random_graph(n, p, seed=1000 * n + int(100 * p))
            run(f"gnp-{n}-{p}", G, lim, show=(n <= 6))

# 5. many seeds on tie-heavy graphs: the shuffle decides among equal sizes
for name in ["two-triangles-sharing-edge", "K4-minus-edge", "wheel-7", "turan", "caveman-plus", "K5"]:
    for seed in range(25):
        for lim in (0, 3):
            G = dict(small_graphs())[name]
            fresh(seed)
            run(f"ties-{name}-s{seed}", G, lim, show=True)

# 6. repeated calls on one object, changing limits, graph edited in between
fresh(4242)
G = nx.ring_of_cliques(3, 5)
for step, lim in enumerate([0, 3, 0, 2, 4, 1, 0]):
    R = run(f"repeat-{step}", G, lim, show=True)
    assert R is G
    if step == 2:
        G.add_edge(0, 7)
        G.add_edge(1, 7)
    if step == 4:
        G.remove_node(3)
        G.add_node("lonely")

# 7. relabelled / permuted copies of one graph, one stream
fresh(99)
base = nx.gnp_random_graph(10, 0.55, seed=3)
for k, perm in enumerate(itertools.islice(itertools.permutations(range(10)), 0, 3000, 271)):
    P = nx.Graph()
    P.add_nodes_from(perm)
    P.add_edges_from((perm[u], perm[v]) for u, v in base.edges())
    run(f"perm-{k}", P, show=False)
    run(f"perm-{k}-lim3", P, 3, show=False)

# 8. larger graphs
for seed in range(4):
    fresh(seed)
    G = nx.gnp_random_graph(60, 0.18, seed=seed)
    run(f"gnp60-{seed}", G)
    G = nx.powerlaw_cluster_graph(150, 4, 0.7, seed=seed)
    run(f"plc150-{seed}", G)
    run(f"plc150-{seed}-lim3", G, 3)
    G = nx.relaxed_caveman_graph(8, 6, 0.2, seed=seed)
    run(f"relaxed-caveman-{seed}", G, 4)

emit("final-rng", rng_digest())
print("DIGEST", H.hexdigest())
