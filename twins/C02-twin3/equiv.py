"""Behavioural digest for the C02 optimisation (run with cwd = a checkout).

Exercises GCMAlgorithmFast.random_clustered_graph,
GCMAlgorithmCustomMotifs.random_clustered_graph / partition and
LightWeightEdgeList on many inputs (edge cases, error cases, repeated calls on
one object) and prints a deterministic digest of the results, of the callback
traffic, of the inputs after the call and of the RNG states.
"""
import hashlib
import os
import random
import sys

sys.path.insert(0, os.getcwd())

import numpy as np  # noqa: E402

from gcmpy.gcm_algorithm.gcm_algorithm_fast import GCMAlgorithmFast  # noqa: E402
from gcmpy.gcm_algorithm.gcm_algorithm_custom_motifs import (  # noqa: E402
    GCMAlgorithmCustomMotifs,
)
from gcmpy.gcm_algorithm.gcm_algorithm_network import GCMAlgorithmNetwork  # noqa: E402
from gcmpy.network.edge_list import LightWeightEdgeList  # noqa: E402
from gcmpy.names.gcm_algorithm_names import GCMAlgorithmNames as N  # noqa: E402
from gcmpy.motif_generators.clique_motif import clique_motif  # noqa: E402
from gcmpy.motif_generators.cycle_motif import cycle_motif  # noqa: E402


def h(obj) -> str:
    return hashlib.sha256(repr(obj).encode()).hexdigest()[:16]


def rng_digest() -> str:
    st = np.random.get_state()
    return "py=%s np=%s" % (
        h(random.getstate()),
        h((st[0], st[1].tolist(), st[2], st[3], repr(st[4]))),
    )


def seed(s: int) -> None:
    random.seed(s)
    np.random.seed(s)


def show(tag: str, value, full: bool = True) -> None:
    r = repr(value)
    if full and len(r) <= 400:
        print("%s: %s" % (tag, r))
    else:
        print("%s: len=%d sha=%s head=%s" % (tag, len(r), h(value), r[:120]))


def describe(el) -> None:
    show("  type", type(el).__name__)
    show("  edge_list", el.edge_list)
    show("  topologies", el.topologies)
    show("  motif_id", el.motif_id)
    show(
        "  column types",
        (
            type(el.edge_list).__name__,
            type(el.topologies).__name__,
            type(el.motif_id).__name__,
        ),
    )
    show(
        "  lens",
        (len(el.edge_list), len(el.topologies), len(el.motif_id)),
    )
    show("  entry types", sorted({type(e).__name__ for e in el.edge_list}))
    show("  jds digest", h(el.joint_degrees))
    show(
        "  private is public",
        (
            el._edge_list is el.edge_list,
            el._topologies is el.topologies,
            el._motif_id is el.motif_id,
            el._joint_degrees is el.joint_degrees,
        ),
    )


def run(tag: str, s: int, make, jds, calls: int = 1, log=None) -> None:
    """make() -> (algorithm object, params); call `calls` times on one object."""
    print("=== %s (seed %d)" % (tag, s))
    seed(s)
    try:
        obj, params = make()
    except BaseException as e:  # noqa: BLE001
        show("  ctor raised", (type(e).__name__, str(e)))
        show("  rng", rng_digest())
        return
    for c in range(calls):
        print(" call %d" % c)
        try:
            el = obj.random_clustered_graph(jds)
        except BaseException as e:  # noqa: BLE001
            show("  raised", (type(e).__name__, str(e)))
        else:
            describe(el)
            show("  jds identity kept", el.joint_degrees is jds)
        show("  jds after", jds, full=True)
        show("  params after", {k: _names(v) for k, v in params.items()})
        show(
            "  attrs after",
            (
                _names(obj._motif_sizes),
                _names(obj._build_functions),
                _names(obj._edge_names),
                _names(getattr(obj, "_motif_indices", None)),
            ),
        )
        if log is not None:
            show("  callback log", log)
            show("  callback log digest", (len(log), h(log)))
        show("  rng", rng_digest())
        # one more draw of each generator: position in the stream
        show("  next draws", (repr(random.random()), repr(float(np.random.random()))))


def _names(v):
    if isinstance(v, (list, tuple)):
        return type(v)(_names(x) for x in v)
    if callable(v):
        return getattr(v, "__name__", type(v).__name__)
    return v


# --------------------------------------------------------------------------
# callbacks
# --------------------------------------------------------------------------
LOG: list = []


def logged(name, fn):
    def wrapper(*a):
        LOG.append(
            (name, tuple((type(x).__name__, repr(x)) for x in a))
        )
        return fn(*a)

    wrapper.__name__ = "logged_" + name
    return wrapper


def bare_edge(vs):
    return (vs[0], vs[1])


def bare_edge_list(vs):
    return [vs[0], vs[1]]


def one_edge_wrapped(vs):
    return [(vs[0], vs[1])]


def two_edges(vs):
    return ((vs[0], vs[1]), (vs[1], vs[2]))


def two_edges_lists(vs):
    return [[vs[0], vs[1]], [vs[1], vs[2]]]


def triangle(vs):
    return (vs[0], vs[1]), (vs[0], vs[2]), (vs[1], vs[2])


def diamond(vs):
    return (
        (vs[0], vs[1]),
        (vs[1], vs[2]),
        (vs[2], vs[3]),
        (vs[3], vs[1]),
        (vs[0], vs[2]),
    )


def pentagon(vs):
    return (
        (vs[0], vs[1]),
        (vs[1], vs[2]),
        (vs[2], vs[3]),
        (vs[3], vs[4]),
        (vs[0], vs[4]),
        (vs[1], vs[3]),
    )


def no_edges(vs):
    return []


def gen_edges(vs):
    return ((vs[i], vs[i + 1]) for i in range(len(vs) - 1))


def robust_path(vs):
    return [(vs[i], vs[i + 1]) for i in range(len(vs) - 1)]


def raising(vs):
    raise KeyError("boom %r" % (vs,))


def n_bare():
    return "2-clique"


def n_two():
    return "path-a", "path-b"


def n_tri():
    return "3-clique", "3-clique", "3-clique"


def n_tri_list():
    return ["t01", "t02", "t12"]


def n_diamond():
    return ("d-outer", "d-outer", "d-outer", "d-outer", "d-inner")


def n_pentagon():
    return "p01", "p12", "p23", "p34", "p40", "p13"


def n_empty():
    return ()


def n_short():
    return ("only-one",)


def n_string_multi():
    return "xyz"


def n_raising():
    raise ValueError("names boom")


# --------------------------------------------------------------------------
# joint degree sequences
# --------------------------------------------------------------------------
def rand_jds(s: int, n: int, maxdeg, as_list=False):
    r = random.Random(s)
    rows = [tuple(r.randint(0, m) for m in maxdeg) for _ in range(n)]
    if as_list:
        rows = [list(x) for x in rows]
    return rows


def valid_jds(s: int, n: int, totals):
    """n rows; column c holds exactly totals[c] stubs spread at random."""
    r = random.Random(s)
    rows = [[0] * len(totals) for _ in range(n)]
    for c, t in enumerate(totals):
        for _ in range(t):
            rows[r.randrange(n)][c] += 1
    return [tuple(x) for x in rows]


JDS_TEST = [
    (2, 1, 0, 1, 1, 0, 0),
    (1, 1, 0, 1, 1, 0, 0),
    (3, 1, 1, 0, 0, 1, 0),
    (2, 0, 1, 0, 0, 1, 0),
    (0, 0, 0, 1, 0, 0, 1),
    (1, 0, 0, 1, 0, 0, 0),
    (1, 0, 1, 0, 0, 0, 0),
    (1, 0, 1, 0, 0, 0, 0),
    (1, 0, 0, 1, 0, 0, 0),
    (1, 0, 0, 1, 0, 0, 0),
    (1, 0, 1, 0, 0, 0, 0),
    (0, 0, 1, 0, 0, 0, 0),
]


def fast(sizes, names, builds, cls=GCMAlgorithmFast):
    def make():
        params = {
            N.MOTIF_SIZES: sizes,
            N.EDGE_NAMES: names,
            N.BUILD_FUNCTIONS: builds,
        }
        return cls(params), params

    return make


def custom(sizes, names, builds, indices, drop=None):
    def make():
        params = {
            N.MOTIF_SIZES: sizes,
            N.EDGE_NAMES: names,
            N.BUILD_FUNCTIONS: builds,
            N.MOTIF_INDICES: indices,
        }
        if drop:
            del params[drop]
        return GCMAlgorithmCustomMotifs(params), params

    return make


def L(name, fn):
    return logged(name, fn)


def main() -> None:
    # ------------------------------------------------------------------ Fast
    print("##### GCMAlgorithmFast")
    del LOG[:]
    run(
        "fast single topology",
        1,
        fast([2], ["2-clique"], [L("clique", clique_motif)]),
        rand_jds(11, 9, (3,)),
        calls=3,
        log=LOG,
    )
    del LOG[:]
    run(
        "fast two topologies, leftovers",
        2,
        fast(
            [2, 3],
            ["2-clique", "3-clique"],
            [L("c2", clique_motif), L("c3", clique_motif)],
        ),
        rand_jds(12, 13, (3, 2)),
        calls=2,
        log=LOG,
    )
    del LOG[:]
    run(
        "fast three topologies with cycle, list rows",
        3,
        fast(
            [2, 3, 4],
            ["2-clique", "3-clique", "4-cycle"],
            [L("c2", clique_motif), L("c3", clique_motif), L("cy4", robust_path)],
        ),
        rand_jds(13, 17, (2, 2, 1), as_list=True),
        calls=2,
        log=LOG,
    )
    del LOG[:]
    run(
        "fast larger",
        4,
        fast([2, 3, 5], ["a", "b", "c"], [clique_motif, clique_motif, clique_motif]),
        rand_jds(14, 400, (4, 3, 2)),
        calls=2,
    )
    run(
        "fast real cycle motif, exact multiples",
        5,
        fast([4], ["4-cycle"], [cycle_motif]),
        [(1,)] * 8,
        calls=2,
    )
    run("fast empty jds", 6, fast([2], ["2-clique"], [clique_motif]), [], calls=2)
    run(
        "fast all zero degrees",
        7,
        fast([2, 3], ["x", "y"], [clique_motif, clique_motif]),
        [(0, 0)] * 5,
        calls=2,
    )
    del LOG[:]
    run(
        "fast zero column and too few callbacks/names (no group -> no error)",
        8,
        fast([2, 3], ["x"], [L("c2", clique_motif)]),
        [(1, 0), (2, 0), (1, 0)],
        calls=2,
        log=LOG,
    )
    del LOG[:]
    run(
        "fast too few build functions",
        9,
        fast([2, 3], ["x", "y"], [L("c2", clique_motif)]),
        rand_jds(15, 6, (2, 2)),
        calls=2,
        log=LOG,
    )
    del LOG[:]
    run(
        "fast too few names (callback runs before the error)",
        10,
        fast([2, 3], ["x"], [L("c2", clique_motif), L("c3", clique_motif)]),
        rand_jds(16, 6, (2, 2)),
        calls=2,
        log=LOG,
    )
    run(
        "fast too few sizes",
        11,
        fast([2], ["x", "y"], [clique_motif, clique_motif]),
        rand_jds(17, 6, (2, 2)),
        calls=2,
    )
    run(
        "fast zero motif size",
        12,
        fast([0], ["x"], [clique_motif]),
        rand_jds(18, 4, (2,)),
        calls=1,
    )
    run(
        "fast ragged rows (zip truncates)",
        13,
        fast([2, 2], ["x", "y"], [clique_motif, clique_motif]),
        [(1, 2), (2,), (1, 1)],
        calls=1,
    )
    del LOG[:]
    run(
        "fast callback returns nothing / generator / raises",
        14,
        fast(
            [2, 2, 2],
            ["x", "y", "z"],
            [L("none", no_edges), L("gen", gen_edges), L("raise", raising)],
        ),
        rand_jds(19, 6, (1, 1, 1)),
        calls=2,
        log=LOG,
    )
    del LOG[:]
    run(
        "fast generator result with too few names (IndexError wins)",
        15,
        fast([2, 2], ["x"], [L("ok", clique_motif), L("gen", gen_edges)]),
        rand_jds(20, 6, (1, 1)),
        calls=1,
        log=LOG,
    )
    run(
        "fast negative and float degrees",
        16,
        fast([2], ["x"], [clique_motif]),
        [(-1,), (2,), (2,)],
        calls=1,
    )
    run(
        "fast float degree raises",
        17,
        fast([2], ["x"], [clique_motif]),
        [(1.0,), (2,)],
        calls=1,
    )
    run(
        "fast unhashable/odd names and tuple containers",
        18,
        fast((2, 3), (["n", 1], None), (clique_motif, clique_motif)),
        rand_jds(21, 7, (2, 1)),
        calls=2,
    )
    run("fast missing key", 19, fast_missing, [(1,)], calls=1)

    # callbacks mutating the parameter lists in place while the call runs
    del LOG[:]
    names_m = ["first", "unused"]
    builds_m: list = []

    def swapper(vs):
        # in-place edits of the lists the algorithm object holds
        names_m[0] = "renamed-%d" % len(LOG)
        return clique_motif(vs)

    builds_m.append(L("swapper", swapper))
    run(
        "fast callback edits names list in place",
        20,
        fast([2], names_m, builds_m),
        rand_jds(22, 6, (2,)),
        calls=2,
        log=LOG,
    )

    # via the network wrapper (consumes the fast edge list)
    seed(21)
    print("=== network wrapper (seed 21)")
    params = {
        N.MOTIF_SIZES: [2, 3],
        N.EDGE_NAMES: ["2-clique", "3-clique"],
        N.BUILD_FUNCTIONS: [clique_motif, clique_motif],
    }
    g = GCMAlgorithmNetwork(params).random_clustered_graph(rand_jds(23, 30, (3, 2)))
    G = getattr(g, "_G", None)
    if G is not None:
        show("  nodes", list(G.nodes(data=True)), full=False)
        show("  edges", list(G.edges(data=True)), full=False)
    else:
        show("  network attrs", sorted(vars(g)))
    show("  rng", rng_digest())

    # -------------------------------------------------------------- Custom
    print("##### GCMAlgorithmCustomMotifs")
    del LOG[:]
    run(
        "custom test-suite example",
        31,
        custom(
            [2, 3, 2, 2, 2, 2, 1],
            [L("n_bare", n_bare), L("n_tri", n_tri), L("n_dia", n_diamond), L("n_pen", n_pentagon)],
            [L("bare", bare_edge), L("tri", triangle), L("dia", diamond), L("pen", pentagon)],
            [[0], [1], [2, 3], [4, 5, 6]],
        ),
        list(JDS_TEST),
        calls=3,
        log=LOG,
    )
    del LOG[:]
    run(
        "custom bare edge (tuple / list / wrapped) and exactly two edges",
        32,
        custom(
            [2, 2, 2, 3, 3],
            [L("n_bare", n_bare), L("n_bare2", n_bare), L("n_short", n_short), L("n_two", n_two), L("n_two2", n_two)],
            [L("bare", bare_edge), L("barel", bare_edge_list), L("wrapped", one_edge_wrapped), L("two", two_edges), L("twol", two_edges_lists)],
            [[0], [1], [2], [3], [4]],
        ),
        valid_jds(41, 12, (8, 6, 4, 9, 6)),
        calls=2,
        log=LOG,
    )
    del LOG[:]
    run(
        "custom names of other length / string / list",
        33,
        custom(
            [3, 3, 3, 2],
            [L("n_short", n_short), L("n_str", n_string_multi), L("n_tril", n_tri_list), L("n_empty", n_empty)],
            [L("tri", triangle), L("tri2", triangle), L("tri3", triangle), L("none", no_edges)],
            [[0], [1], [2], [3]],
        ),
        valid_jds(42, 9, (6, 6, 6, 4)),
        calls=2,
        log=LOG,
    )
    del LOG[:]
    run(
        "custom multi-orbit, repeated orbit index, leftovers",
        34,
        custom(
            [2, 2, 1, 3],
            [L("n_dia", n_diamond), L("n_tri", n_tri)],
            [L("dia", diamond), L("tri", triangle)],
            [[0, 1], [3]],
        ),
        valid_jds(43, 14, (6, 8, 5, 6)),
        calls=2,
        log=LOG,
    )
    del LOG[:]
    run(
        "custom same orbit used twice in one motif",
        35,
        custom(
            [1, 2],
            [L("n_bare", n_bare), L("n_bare2", n_bare)],
            [L("bare", bare_edge), L("bare2", bare_edge)],
            [[0, 0], [1]],
        ),
        [(1, 1)] * 3 + [(0, 1)] * 5,
        calls=2,
        log=LOG,
    )
    del LOG[:]
    run(
        "custom partitions run out (pop from empty list)",
        36,
        custom(
            [2, 2],
            [L("n_dia", n_diamond)],
            [L("dia", diamond)],
            [[0, 1]],
        ),
        [(1, 0)] * 6 + [(1, 1)] * 2,
        calls=2,
        log=LOG,
    )
    del LOG[:]
    run(
        "custom second orbit runs out after some motifs",
        37,
        custom(
            [2, 1],
            [L("n_tri", n_tri)],
            [L("path", robust_path)],
            [[1, 0]],
        ),
        [(1, 1)] * 5,
        calls=2,
        log=LOG,
    )
    del LOG[:]
    run(
        "custom short last partition reaches the callback (popped first)",
        58,
        custom([2], [L("n_short", n_short)], [L("path", robust_path)], [[0]]),
        valid_jds(48, 4, (5,)),
        calls=2,
        log=LOG,
    )
    del LOG[:]
    run(
        "custom three orbits",
        59,
        custom(
            [2, 2, 1, 3],
            [L("n_pen", n_pentagon), L("n_tri", n_tri)],
            [L("pen", pentagon), L("tri", triangle)],
            [[0, 1, 2], [3]],
        ),
        valid_jds(49, 20, (8, 8, 4, 9)),
        calls=2,
        log=LOG,
    )
    run(
        "custom empty jds",
        38,
        custom([2], [n_bare], [bare_edge], [[0]]),
        [],
        calls=2,
    )
    run(
        "custom empty motif indices",
        39,
        custom([2], [n_bare], [bare_edge], []),
        rand_jds(44, 5, (2,)),
        calls=2,
    )
    run(
        "custom all zero",
        40,
        custom([2, 3], [n_bare, n_tri], [bare_edge, triangle], [[0], [1]]),
        [(0, 0)] * 4,
        calls=2,
    )
    del LOG[:]
    run(
        "custom zero column and too few callbacks (no motif -> no error)",
        41,
        custom([2, 3], [L("n_bare", n_bare)], [L("bare", bare_edge)], [[0], [1]]),
        [(1, 0)] * 4,
        calls=2,
        log=LOG,
    )
    del LOG[:]
    run(
        "custom too few callbacks",
        42,
        custom([2, 3], [L("n_bare", n_bare), L("n_tri", n_tri)], [L("bare", bare_edge)], [[0], [1]]),
        [(1, 1)] * 6,
        calls=2,
        log=LOG,
    )
    del LOG[:]
    run(
        "custom too few names (build callback runs first)",
        43,
        custom([2, 3], [L("n_bare", n_bare)], [L("bare", bare_edge), L("tri", triangle)], [[0], [1]]),
        [(1, 1)] * 6,
        calls=2,
        log=LOG,
    )
    run(
        "custom too few sizes",
        44,
        custom([2], [n_bare, n_tri], [bare_edge, triangle], [[0], [1]]),
        [(1, 1)] * 6,
        calls=1,
    )
    run(
        "custom zero size",
        45,
        custom([0], [n_bare], [bare_edge], [[0]]),
        [(1,)] * 4,
        calls=1,
    )
    run(
        "custom orbit index out of range / empty orbit list",
        46,
        custom([2], [n_bare], [bare_edge], [[5]]),
        [(1,)] * 4,
        calls=1,
    )
    run(
        "custom empty orbit list",
        47,
        custom([2], [n_bare], [bare_edge], [[]]),
        [(1,)] * 4,
        calls=1,
    )
    del LOG[:]
    run(
        "custom callback raises / names raise / generator result / empty result",
        48,
        custom(
            [2, 2],
            [L("n_raise", n_raising), L("n_bare", n_bare)],
            [L("bare", bare_edge), L("raise", raising)],
            [[0], [1]],
        ),
        [(1, 1)] * 4,
        calls=2,
        log=LOG,
    )
    del LOG[:]
    run(
        "custom raising build callback first",
        49,
        custom([2], [L("n_bare", n_bare)], [L("raise", raising)], [[0]]),
        [(1,)] * 4,
        calls=1,
        log=LOG,
    )
    del LOG[:]
    run(
        "custom generator result",
        50,
        custom([2], [L("n_bare", n_bare)], [L("gen", gen_edges)], [[0]]),
        [(1,)] * 4,
        calls=1,
        log=LOG,
    )
    del LOG[:]
    run(
        "custom empty result (es[0] never looked at)",
        51,
        custom([2], [L("n_empty", n_empty)], [L("none", no_edges)], [[0]]),
        [(1,)] * 4,
        calls=2,
        log=LOG,
    )
    del LOG[:]
    run(
        "custom float size (float division then int)",
        52,
        custom([2.0, 3], [L("n_bare", n_bare), L("n_tri", n_tri)], [L("bare", bare_edge), L("tri", triangle)], [[0], [1]]),
        [(1, 1)] * 6,
        calls=1,
        log=LOG,
    )
    run(
        "custom larger",
        53,
        custom(
            [2, 3, 2, 2],
            [n_bare, n_tri, n_diamond],
            [bare_edge, triangle, diamond],
            [[0], [1], [2, 3]],
        ),
        valid_jds(45, 300, (2 * 210, 3 * 130, 2 * 90, 2 * 90)),
        calls=2,
    )
    run("custom missing indices key", 54, custom([2], [n_bare], [bare_edge], [[0]], drop=N.MOTIF_INDICES), [(1,)], calls=1)
    run("custom missing sizes key", 55, custom([2], [n_bare], [bare_edge], [[0]], drop=N.MOTIF_SIZES), [(1,)], calls=1)

    # callbacks that keep (and edit) the vertex lists they are given
    kept: list = []

    def keeper(vs):
        kept.append(vs)
        es = clique_motif(vs)
        vs.append("marker-%d" % len(kept))
        return es

    def keeper_bare(vs):
        kept.append(vs)
        e = (vs[0], vs[1])
        vs.reverse()
        return e

    run(
        "fast callback keeps and edits its vertex list",
        60,
        fast([2, 3], ["x", "y"], [keeper, keeper]),
        valid_jds(50, 8, (6, 6)),
        calls=2,
    )
    show("  kept lists", kept)
    show("  kept distinct objects", len({id(v) for v in kept}) == len(kept))
    del kept[:]
    run(
        "custom callback keeps and edits its vertex list",
        61,
        custom([2, 1, 2], [n_bare, n_tri], [keeper_bare, keeper], [[0], [1, 2]]),
        valid_jds(51, 8, (6, 3, 6)),
        calls=2,
    )
    show("  kept lists", kept)
    show("  kept distinct objects", len({id(v) for v in kept}) == len(kept))

    # subclass overriding partition / infinite_sequence: hooks must still be used
    class Odd(GCMAlgorithmCustomMotifs):
        def partition(self, lst, n):
            LOG.append(("partition", tuple(lst), n))
            return super().partition(lst, n)

        def infinite_sequence(self):
            LOG.append(("infinite_sequence",))
            num = 100
            while True:
                yield "id-%d" % num
                num += 7

    class OddFast(GCMAlgorithmFast):
        def infinite_sequence(self):
            LOG.append(("infinite_sequence",))
            num = 100
            while True:
                yield "id-%d" % num
                num += 7

    def make_odd():
        params = {
            N.MOTIF_SIZES: [2, 3],
            N.EDGE_NAMES: [L("n_bare", n_bare), L("n_tri", n_tri)],
            N.BUILD_FUNCTIONS: [L("bare", bare_edge), L("tri", triangle)],
            N.MOTIF_INDICES: [[0], [1]],
        }
        return Odd(params), params

    del LOG[:]
    run("custom subclass hooks", 56, make_odd, valid_jds(46, 9, (8, 6)), calls=2, log=LOG)
    del LOG[:]
    run(
        "fast subclass hooks",
        57,
        fast([2, 3], ["x", "y"], [L("c2", clique_motif), L("c3", clique_motif)], cls=OddFast),
        rand_jds(47, 9, (2, 1)),
        calls=2,
        log=LOG,
    )

    # partition directly
    print("=== partition")
    obj = GCMAlgorithmCustomMotifs(
        {N.MOTIF_SIZES: [], N.EDGE_NAMES: [], N.BUILD_FUNCTIONS: [], N.MOTIF_INDICES: []}
    )
    for lst, n in (([], 2), ([1], 2), ([1, 2, 3, 4], 2), ([1, 2, 3, 4, 5], 3), ("abcdefg", 3), ([1, 2], 5)):
        src = list(lst) if isinstance(lst, list) else lst
        out = obj.partition(src, n)
        show("  partition(%r,%r)" % (lst, n), (out, src, [p is src for p in out]))
    for bad in (0, -1, 1.5):
        try:
            show("  partition bad %r" % (bad,), obj.partition([1, 2, 3], bad))
        except BaseException as e:  # noqa: BLE001
            show("  partition bad %r raised" % (bad,), (type(e).__name__, str(e)))

    # ---------------------------------------------------- LightWeightEdgeList
    print("=== LightWeightEdgeList")
    el = LightWeightEdgeList()
    show("  fresh", (el.edge_list, el.topologies, el.joint_degrees, el.motif_id))
    show("  vars", sorted(vars(el)))
    show(
        "  distinct lists",
        len({id(el.edge_list), id(el.topologies), id(el.joint_degrees), id(el.motif_id)}),
    )
    a, b, c, d = [(0, 1)], ["x"], [(1,), (1,)], [0]
    el.edge_list, el.topologies, el.joint_degrees, el.motif_id = a, b, c, d
    show(
        "  setters keep identity",
        (el.edge_list is a, el.topologies is b, el.joint_degrees is c, el.motif_id is d),
    )
    el.edge_list.append((1, 2))
    show("  aliasing", (a, el._edge_list))
    el.extra = 5
    show("  extra attribute allowed", sorted(vars(el)))
    el2 = LightWeightEdgeList()
    show("  second object independent", (el2.edge_list, el2.edge_list is not el.edge_list))
    show("  has slots", hasattr(LightWeightEdgeList, "__slots__"))

    show("final rng", rng_digest())


def fast_missing():
    params = {N.MOTIF_SIZES: [2], N.EDGE_NAMES: ["x"]}
    return GCMAlgorithmFast(params), params


if __name__ == "__main__":
    main()
