import sys, os; sys.path.insert(0, os.getcwd())
import hashlib
import random

import numpy as np

from gcmpy.joint_degree.joint_degree_loaders.joint_degree_cover import JointDegreeCover
from gcmpy.joint_degree.joint_degree_factory import JointDegreeFactory
from gcmpy.joint_degree.joint_degree_type import JointDegreeType
from gcmpy.names.joint_degree_names import JointDegreeNames

OUT = []


def rng_state():
    h = hashlib.sha256(repr(random.getstate()).encode()).hexdigest()[:16]
    g = hashlib.sha256(repr(np.random.get_state()[1].tolist()).encode()).hexdigest()[:16]
    return h + "/" + g


def emit(*parts):
    OUT.append(" | ".join(str(p) for p in parts))


def show(obj):
    jdd = getattr(obj, "_jdd", "<unset>")
    if isinstance(jdd, dict):
        jdd = [(repr(k), repr(v)) for k, v in jdd.items()]
    return "sizes=%r jdd=%r cover=%r" % (
        getattr(obj, "_motif_sizes", "<unset>"),
        jdd,
        getattr(obj, "_cover", "<unset>"),
    )


def attempt(label, fn):
    try:
        r = fn()
        emit(label, "ok", r, rng_state())
    except BaseException as e:
        emit(label, "EXC", type(e).__name__, rng_state())


def build(cover):
    obj = JointDegreeCover({JointDegreeNames.COVER: cover})
    return show(obj)


def random_cover(rnd, n, m, sizes, base, kind):
    cover = []
    for _ in range(m):
        s = rnd.choice(sizes)
        s = min(s, n)
        cl = rnd.sample(range(base, n + base), s)
        cover.append(kind(cl))
    # make vertex ids contiguous: add singletons / pairs for unused vertices
    used = set(v for c in cover for v in c)
    for v in range(base, n + base):
        if v not in used:
            cover.append(kind([v, base if v != base else base + 1][: rnd.choice([1, 2])]))
    return cover


random.seed(20240808)
np.random.seed(808)
rnd = random.Random(4242)

fixed = [
    [[0, 1], [1, 2], [0, 1, 2]],
    [[1, 2], [2, 3], [1, 2, 3]],
    [[0, 1, 2, 3, 4, 5, 6]],
    [[0], [1], [2]],
    [[0, 1], [2, 3, 4, 5, 6], [0, 6]],
    [[1, 2, 3, 4, 5, 6, 7, 8, 9], [1, 2], [9, 1]],
    [(0, 1), (1, 2, 3), (3, 0)],
    [{0, 1}, {1, 2, 3}, frozenset([3, 0])],
    [[0, 1], [0, 1], [0, 1]],
    [[0, 0], [1, 1, 1]],
    [[0, 1, 2, 3, 4, 5, 6, 7, 8, 9, 10, 11], [0, 1], [2, 3, 4, 5], [6, 7, 8, 9, 10, 11]],
    [[2, 3], [3, 4]],
    [[0, 2], [2, 4]],
    [[-1, 0]],
    [[0, 1], [5, 6]],
    [[], [0, 1]],
    [[0, 1], []],
    [range(0, 3), range(2, 7)],
    [np.array([0, 1, 2]), np.array([2, 3])],
    [[True, False], [1, 2]],
    ["ab", "bc"],
    [[0.0, 1.0]],
    [[1.0, 2.0]],
    [[0, 1], "xy"],
    [[None]],
    [],
    [[]],
    [[], []],
    [0, 1],
    [None],
    [[0, 1], 3],
    [[0, 1], None],
    None,
    5,
    "abc",
    {0: [0, 1]},
    ([0, 1], [1, 2, 3]),
    {(0, 1), (1, 2, 3)},
    [[[0], [1]]],
]
for i, cov in enumerate(fixed):
    attempt("fixed%d" % i, lambda cov=cov: build(cov))

attempt("gen-cover", lambda: build(c for c in [[0, 1], [1, 2, 3]]))
attempt("gen-cliques", lambda: build([(v for v in [0, 1]), (v for v in [1, 2])]))
attempt("iter-cover", lambda: build(iter([[0, 1], [1, 2, 3]])))
attempt("missing-key", lambda: JointDegreeCover({}))
attempt("wrong-key", lambda: JointDegreeCover({"covers": [[0, 1]]}))
attempt("params-none", lambda: JointDegreeCover(None))
attempt("params-list", lambda: JointDegreeCover([[0, 1]]))
attempt("factory", lambda: show(JointDegreeFactory.create(JointDegreeType.COVER, {JointDegreeNames.COVER: [[0, 1], [1, 2, 3]]})))
attempt("factory-bad", lambda: show(JointDegreeFactory.create(JointDegreeType.COVER, {})))

for trial in range(400):
    n = rnd.randint(1, 14)
    m = rnd.randint(1, 12)
    sizes = rnd.sample(range(1, 10), rnd.randint(1, 5))
    base = rnd.choice([0, 1])
    kind = rnd.choice([list, tuple, frozenset])
    cov = random_cover(rnd, n, m, sizes, base, kind)
    rnd.shuffle(cov)
    attempt("rand%d" % trial, lambda cov=cov: build(cov))

# repeated calls on one object, cover replaced through the public setter
obj = JointDegreeCover({JointDegreeNames.COVER: [[0, 1], [1, 2, 3, 4]]})
emit("obj0", show(obj))
for i, cov in enumerate(
    [
        [[0, 1, 2], [2, 3]],
        [[1, 2, 3, 4, 5, 6], [1, 2]],
        [],
        [[0, 1], 7],
        [[0, 1, 2, 3, 4, 5, 6, 7]],
        [[0], [1, 2, 3], [0, 1, 2, 3, 4, 5]],
        None,
        [[0, 1], [0, 1]],
    ]
):
    obj.cover = cov
    attempt("setter%d" % i, lambda: (obj.create_jdd(), show(obj))[1])
    attempt("setter%d-again" % i, lambda: (obj.create_jdd(), show(obj))[1])
    emit("setter%d-state" % i, show(obj), obj.cover is cov)
obj.motif_sizes = [9, 9]
attempt("sizes-overridden", lambda: (obj.create_jdd(), show(obj))[1])
obj.jdd = {"x": 1}
attempt("jdd-overridden", lambda: (obj.create_jdd(), show(obj))[1])

# the cover list and its cliques are not mutated
cov = [[0, 1], [1, 2, 3], [3, 4, 5, 6, 7]]
snapshot = repr(cov)
o = JointDegreeCover({JointDegreeNames.COVER: cov})
emit("cover-untouched", repr(cov) == snapshot, o.cover is cov)

# sampling and handshaking on cover-derived and hand-set distributions
for trial in range(200):
    n = rnd.randint(1, 12)
    sizes = rnd.sample(range(1, 8), rnd.randint(1, 4))
    cov = random_cover(rnd, n, rnd.randint(1, 10), sizes, rnd.choice([0, 1]), list)
    o = JointDegreeCover({JointDegreeNames.COVER: cov})
    for N in (0, 1, 2, 3, 7, 50):
        random.seed(1000 * trial + N)
        attempt("sample%d-%d" % (trial, N), lambda: (o.sample_jds_from_jdd(N), show(o)))
    attempt("sample%d-neg" % trial, lambda: o.sample_jds_from_jdd(-1))

o = JointDegreeCover({JointDegreeNames.COVER: [[0, 1], [1, 2, 3]]})
hs_inputs = [
    [],
    [(1, 1)],
    [(0, 0)],
    [(1, 0), (0, 1), (1, 1)],
    [(3, 5), (2, 2), (1, 1), (0, 4)],
    [[1, 1], [2, 0]],
    ((1, 1), (2, 0)),
    [(1,), (2,)],
    [(1, 1, 1), (1, 1, 1)],
    [(1.5, 1), (1, 1)],
    [("a", 1)],
    [(), ()],
    None,
    5,
    [1, 2],
    np.array([[1, 1], [2, 2], [0, 2]]),
    {(1, 1): 1, (1, 2): 2},
    [(1, 1), None],
]
for sizes in ([2, 3], [3], [2, 3, 4], [], [0, 3], [2.0, 3], [-2, 3], None, ["a", 3], [2, 10 ** 3], (2, 3)):
    o.motif_sizes = sizes
    for i, jds in enumerate(hs_inputs):
        random.seed(77 + i)
        arg = list(jds) if isinstance(jds, list) else jds
        attempt("hs-%r-%d" % (sizes, i), lambda: o.handshaking_lemma(arg))
        emit("hs-arg-after", repr(arg), show(o))

o.motif_sizes = [2, 3]
for bad in (None, {}, {(1, 1): 0.0}, {(1, 1): -1.0, (2, 2): 1.0}, {(1, 1): 1}, [(1, 1)], {(1, 2): 0.5, (0, 1): 0.25, (3, 0): 0.25}, {"ab": 1.0}):
    o.jdd = bad
    for N in (0, 1, 5, 31):
        random.seed(N)
        attempt("sample-set-%r-%d" % (bad, N), lambda: o.sample_jds_from_jdd(N))
    attempt("sample-set-%r-str" % (bad,), lambda: o.sample_jds_from_jdd("3"))
    attempt("sample-set-%r-float" % (bad,), lambda: o.sample_jds_from_jdd(2.0))

# repeated sampling on one object shares one random stream
o = JointDegreeCover({JointDegreeNames.COVER: [[1, 2, 3], [3, 4], [4, 5, 6, 7, 8], [1, 8]]})
random.seed(5)
for r in range(60):
    attempt("repeat%d" % r, lambda: o.sample_jds_from_jdd(r))
emit("final", show(o), rng_state())

text = "\n".join(OUT)
print(text)
print("DIGEST", hashlib.sha256(text.encode()).hexdigest(), len(OUT))
