import sys, os; sys.path.insert(0, os.getcwd())
import hashlib
import random
from fractions import Fraction

import numpy as np
import networkx as nx

import gcmpy
from gcmpy import bond_percolate
from gcmpy.tools.bond_percolate import bond_percolate as bp_direct

assert bond_percolate is bp_direct

random.seed(18018)
np.random.seed(18018)

H = hashlib.sha256()


def emit(*parts):
    line = " ".join(str(p) for p in parts)
    H.update(line.encode() + b"\n")
    print(line)


def rng_digest():
    a = hashlib.sha256(repr(random.getstate()).encode()).hexdigest()[:16]
    st = np.random.get_state()
    b = hashlib.sha256(repr((st[0], st[1].tolist(), st[2], st[3], st[4])).encode()).hexdigest()[:16]
    return a + "/" + b


def snapshot(g):
    try:
        if g.is_multigraph():
            es = list(g.edges(keys=True, data=True))
        else:
            es = list(g.edges(data=True))
        return repr((type(g).__name__, list(g.nodes(data=True)), es, dict(g.graph),
                     {n: list(g.adj[n]) for n in g}))
    except Exception as e:  # pragma: no cover
        return "snap-fail " + type(e).__name__


def call(tag, g, phi):
    before = snapshot(g)
    try:
        r = bond_percolate(g, phi)
        out = "ok %s %s %s" % (type(r).__name__, r.hex() if isinstance(r, float) else repr(r), repr(r))
    except BaseException as e:
        out = "EXC %s %s | cause=%s" % (type(e).__name__, str(e), type(e.__cause__).__name__)
    after = snapshot(g)
    emit(tag, "phi=%r" % (phi,), out, "untouched=%s" % (before == after), rng_digest())


class MyGraph(nx.Graph):
    pass


def graphs():
    out = []
    out.append(("empty", nx.Graph()))
    out.append(("empty_multi", nx.MultiGraph()))
    out.append(("empty_di", nx.DiGraph()))
    g = nx.Graph(); g.add_node(0); out.append(("single", g))
    g = nx.Graph(); g.add_nodes_from(range(5)); out.append(("isolated5", g))
    g = nx.Graph(); g.add_edge(0, 0); out.append(("selfloop_only", g))
    g = nx.Graph(); g.add_edges_from([(0, 0), (0, 1), (1, 1), (1, 2), (3, 3)]); g.add_node(9); out.append(("selfloops_mix", g))
    out.append(("edge", nx.path_graph(2)))
    out.append(("path7", nx.path_graph(7)))
    out.append(("cycle9", nx.cycle_graph(9)))
    out.append(("star1", nx.star_graph(1)))
    out.append(("star6", nx.star_graph(6)))
    out.append(("star40", nx.star_graph(40)))
    out.append(("K6", nx.complete_graph(6)))
    out.append(("two_tied_comps", nx.disjoint_union(nx.path_graph(4), nx.cycle_graph(4))))
    out.append(("three_tied", nx.disjoint_union_all([nx.path_graph(3), nx.path_graph(3), nx.complete_graph(3)])))
    out.append(("gnp30", nx.gnp_random_graph(30, 0.1, seed=3)))
    out.append(("gnp80", nx.gnp_random_graph(80, 0.04, seed=5)))
    out.append(("grid", nx.grid_2d_graph(4, 5)))
    g = nx.Graph(); g.add_edges_from([("a", "b"), ("b", ("t", 1)), (("t", 1), 3.5), (frozenset({1}), "a")]); out.append(("mixed_nodes", g))
    nan = float("nan")
    g = nx.Graph(); g.add_edges_from([(nan, 1), (1, 2)]); out.append(("nan_node", g))
    g = nx.Graph(); g.add_weighted_edges_from([(0, 1, 2.0), (1, 2, 3.0), (2, 0, 1.5), (2, 3, 9.0)]); g.graph["name"] = "w"; g.nodes[0]["c"] = [1, 2]; out.append(("weighted", g))
    g = nx.MultiGraph(); g.add_edges_from([(0, 1), (0, 1), (0, 1), (1, 2), (2, 2), (2, 2), (3, 4)]); g.add_edge(1, 2, key="x"); out.append(("multi", g))
    g = nx.MultiGraph(); g.add_edges_from([(i, (i + 1) % 6) for i in range(6)] * 3); out.append(("multi_ring3", g))
    out.append(("digraph", nx.DiGraph([(0, 1), (1, 2), (2, 0), (2, 2)])))
    out.append(("multidigraph", nx.MultiDiGraph([(0, 1), (0, 1), (1, 0)])))
    g = MyGraph(); g.add_edges_from([(0, 1), (1, 2), (3, 4)]); out.append(("subclass", g))
    g = nx.freeze(nx.path_graph(5)); out.append(("frozen", g))
    g = nx.path_graph(6).subgraph([0, 1, 2, 4, 5]); out.append(("subgraph_view", g))
    g = nx.Graph(); g.add_edges_from([(5, 4), (4, 3), (9, 8), (8, 7), (7, 6), (2, 1)]); out.append(("rev_insertion", g))
    return out


PHIS = [0, 1, 0.0, 1.0, 0.5, 0.25, 0.9, -1, 2, 1e-300, float("nan"), float("inf"), -float("inf"),
        True, False, np.float64(0.4), np.float32(0.7), np.int64(1), Fraction(1, 3)]
BAD_PHIS = ["a", None, [0.5], 1j, (0.5,), np.array([0.2, 0.8])]

for name, g in graphs():
    for phi in PHIS:
        call(name, g, phi)
    for phi in BAD_PHIS:
        call(name, g, phi)

# repeated calls on one object, statistics on a star
star = nx.star_graph(25)
N = star.order()
M = N - 1
for phi in (0.0, 0.2, 0.5, 0.8, 1.0):
    vals = []
    for _ in range(300):
        s = bond_percolate(star, phi)
        vals.append(s)
    ks = [round(N * s) - 1 for s in vals]
    emit("star-rep", phi, hashlib.sha256(",".join(v.hex() for v in vals).encode()).hexdigest()[:16],
         sum(ks), min(ks), max(ks), rng_digest())
    emit("star-untouched", star.number_of_edges(), star.order())

# interleave with other consumers of the streams
g = nx.gnp_random_graph(60, 0.06, seed=11)
for i in range(200):
    phi = random.random()
    s = bond_percolate(g, phi)
    x = np.random.random()
    emit("inter", i, s.hex(), float(x).hex())
emit("inter-final", g.number_of_edges(), g.order(), rng_digest())

# multiples of 1/N
for n in (1, 2, 3, 10, 33, 64):
    gg = nx.gnp_random_graph(n, 0.3, seed=n)
    for phi in (0, 0.3, 0.6, 1):
        s = bond_percolate(gg, phi)
        emit("grid", n, phi, s.hex(), (s * n).hex(), rng_digest())

emit("DIGEST", H.hexdigest())
