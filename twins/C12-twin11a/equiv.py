import sys, os; sys.path.insert(0, os.getcwd())
# Deterministic digest of the MCMC-rewiring periphery (constructor parsing, key view,
# MCMC base-class decorator, helpers, full rewires).  Runs unchanged on the original
# and on the edited checkout; the two outputs must be byte-identical.
if os.environ.get("PYTHONHASHSEED") != "0":
    os.environ["PYTHONHASHSEED"] = "0"
    os.execv(sys.executable, [sys.executable] + sys.argv)

import warnings
warnings.simplefilter("ignore")
import re
import random
import hashlib
import numpy as np
import networkx as nx

from gcmpy.joint_degree.joint_degree_loaders.joint_degree_manual import JointDegreeManual
from gcmpy.motif_generators.clique_motif import clique_motif
from gcmpy.gcm_algorithm.gcm_algorithm_network import GCMAlgorithmNetwork
from gcmpy.names.gcm_algorithm_names import GCMAlgorithmNames
from gcmpy.names.joint_degree_names import JointDegreeNames
from gcmpy.names.network_names import NetworkNames
from gcmpy.names.tools_names import ToolsNames
from gcmpy.network.network import Network
from gcmpy.tools.joint_excess_joint_degree_matrices import JointExcessJointDegreeMatrices
from gcmpy.tools.joint_excess_joint_degree_keys_view import JointExcessJointDegreeKeysView
from gcmpy.tools.markov_chain_monte_carlo import MarkovChainMonteCarlo
from gcmpy.tools.markov_chain_monte_carlo_rewiring import (
    MarkovChainMonteCarloRewiring,
    ErrorMarkovChainMonteCarloRewiring,
)
from gcmpy.tools.joint_excess_from_ejk import JointExcessFromEjk
from gcmpy.tools.joint_degree_from_excess import JointDegreeFromExcess

EDGE_NAMES = ["2-clique", "3-clique"]
MOTIF_SIZES = [2, 3]


def clean(s):
    return re.sub(r"0x[0-9a-fA-F]+", "0x?", " ".join(str(s).split()))


def rng():
    h = hashlib.sha256()
    h.update(repr(random.getstate()).encode())
    st = np.random.get_state()
    h.update(repr((st[0], st[1].tolist(), st[2], st[3], st[4])).encode())
    return h.hexdigest()[:16]


def attempt(label, fn):
    try:
        r = fn()
        print(label, "->", clean(repr(r)))
        return r
    except BaseException as e:  # noqa
        print(label, "!!", type(e).__name__, clean(e),
              "| cause", type(e.__cause__).__name__, "| ctx", type(e.__context__).__name__)
        return None


def counters(obj=None):
    out = [
        "base", MarkovChainMonteCarlo.__dict__.get("_proposal_count"),
        MarkovChainMonteCarlo.__dict__.get("_proposals_accepted"),
        "sub", MarkovChainMonteCarloRewiring.__dict__.get("_proposal_count", "-"),
        MarkovChainMonteCarloRewiring.__dict__.get("_proposals_accepted", "-"),
    ]
    if obj is not None:
        out += ["inst", obj.__dict__.get("_proposal_count", "-"),
                obj.__dict__.get("_proposals_accepted", "-"),
                list(obj.__dict__.get("_acceptance_ratio", []))]
    return out


def target(e):
    t = {(0, 3, 0, 3): 9 / 81 - 2 * e, (0, 3, 4, 1): e, (0, 3, 2, 2): e,
         (4, 1, 0, 3): e, (4, 1, 4, 1): 45 / 81 - 2 * e, (4, 1, 2, 2): e,
         (2, 2, 0, 3): e, (2, 2, 4, 1): e, (2, 2, 2, 2): 27 / 81 - 2 * e}
    r = {(3, 1, 3, 1): 48 / 144 - 2 * e, (3, 1, 1, 2): e, (3, 1, 5, 0): e,
         (1, 2, 3, 1): e, (1, 2, 1, 2): 72 / 144 - 2 * e, (1, 2, 5, 0): e,
         (5, 0, 3, 1): e, (5, 0, 1, 2): e, (5, 0, 5, 0): 24 / 144 - 2 * e}
    return JointExcessJointDegreeMatrices(
        {ToolsNames.EDGE_NAMES: EDGE_NAMES, ToolsNames.EJKS: {"2-clique": t, "3-clique": r}}
    )


def build(seed, n, e):
    random.seed(seed)
    np.random.seed(seed)
    tg = target(e)
    qks = JointExcessFromEjk.get_excess_joint_distributions(tg)
    jdd = JointDegreeFromExcess.get_joint_degree_distribution(qks, EDGE_NAMES)
    jds = JointDegreeManual(
        {JointDegreeNames.JDD: jdd, JointDegreeNames.MOTIF_SIZES: MOTIF_SIZES}
    ).sample_jds_from_jdd(n)
    g = GCMAlgorithmNetwork(
        {GCMAlgorithmNames.MOTIF_SIZES: MOTIF_SIZES, GCMAlgorithmNames.EDGE_NAMES: EDGE_NAMES,
         GCMAlgorithmNames.BUILD_FUNCTIONS: [clique_motif, clique_motif]}
    ).random_clustered_graph(jds)
    return g, tg


def graph_digest(G):
    h = hashlib.sha256()
    for u, v, d in G.edges(data=True):  # insertion order is part of the digest
        h.update(repr((u, v, sorted((str(k), repr(x)) for k, x in d.items()))).encode())
    for u, d in G.nodes(data=True):
        h.update(repr((u, sorted((str(k), repr(x)) for k, x in d.items()))).encode())
    return (G.number_of_nodes(), G.number_of_edges(), h.hexdigest()[:16])


def state(m):
    d = m.__dict__
    return [
        (k, clean(type(v).__name__ if k in ("_network", "_ejks", "_logger") else repr(v)))
        for k, v in d.items() if k != "_proposal_edges"
    ] + [("_proposal_edges", [(p._topology, p._motif_id, p._new_edge,
                                 p.topology, p.motif_id, p.new_edge) for p in d["_proposal_edges"]])]


# --------------------------------------------------------------------------- 1
print("== 1. constructor / parameter parsing / properties")


class Rec(dict):
    """dict that records every protocol call made on it, in order."""

    def __init__(self, *a, **k):
        super().__init__(*a, **k)
        self.log = []

    def __contains__(self, k):
        self.log.append(("in", str(k)))
        return super().__contains__(k)

    def __getitem__(self, k):
        self.log.append(("get[]", str(k)))
        return super().__getitem__(k)

    def get(self, k, d=None):
        self.log.append(("get()", str(k)))
        return super().get(k, d)

    def keys(self):
        self.log.append(("keys",))
        return super().keys()

    def __iter__(self):
        self.log.append(("iter",))
        return super().__iter__()


class ContainsBoom(dict):
    def __init__(self, bad, *a, **k):
        super().__init__(*a, **k)
        self.bad = bad

    def __contains__(self, k):
        if k == self.bad:
            raise RuntimeError(f"boom on {k}")
        return super().__contains__(k)


class OnlyGetitem:
    """supports [] but neither `in` via __contains__ nor .get"""

    def __init__(self, d):
        self.d = d
        self.log = []

    def __getitem__(self, k):
        self.log.append(str(k))
        return self.d[k]


class GBoom:
    """network whose .G blows up / counts accesses"""

    def __init__(self, g=None):
        self.g = g
        self.n = 0

    @property
    def G(self):
        self.n += 1
        if self.g is None:
            raise ZeroDivisionError("no graph here")
        return self.g


net0, tg0 = build(11, 60, 0.01)
print("net0", graph_digest(net0.G), rng())
K = ToolsNames
variants = [
    ("full", lambda: {K.NETWORK: net0, K.EJKS: tg0, K.SEARCH_LIMIT: 7, K.CONVERGENCE_LIMIT: 13}),
    ("no-conv", lambda: {K.NETWORK: net0, K.EJKS: tg0, K.SEARCH_LIMIT: 7}),
    ("no-search", lambda: {K.NETWORK: net0, K.EJKS: tg0, K.CONVERGENCE_LIMIT: 13}),
    ("minimal", lambda: {K.NETWORK: net0, K.EJKS: tg0}),
    ("no-network", lambda: {K.EJKS: tg0, K.CONVERGENCE_LIMIT: 3}),
    ("no-ejks", lambda: {K.NETWORK: net0, K.CONVERGENCE_LIMIT: 3}),
    ("empty", lambda: {}),
    ("none", lambda: None),
    ("list", lambda: [net0, tg0]),
    ("int", lambda: 5),
    ("str-keys", lambda: {"network": net0, "ejks": tg0}),
    ("conv-none", lambda: {K.NETWORK: net0, K.EJKS: tg0, K.CONVERGENCE_LIMIT: None}),
    ("conv-zero", lambda: {K.NETWORK: net0, K.EJKS: tg0, K.CONVERGENCE_LIMIT: 0}),
    ("conv-false-search-none", lambda: {K.NETWORK: net0, K.EJKS: tg0, K.CONVERGENCE_LIMIT: False,
                                        K.SEARCH_LIMIT: None}),
    ("conv-str", lambda: {K.NETWORK: net0, K.EJKS: tg0, K.CONVERGENCE_LIMIT: "12"}),
    ("net-is-graph-noconv", lambda: {K.NETWORK: net0.G, K.EJKS: tg0}),
    ("net-is-graph-conv", lambda: {K.NETWORK: net0.G, K.EJKS: tg0, K.CONVERGENCE_LIMIT: 4}),
    ("net-none-noconv", lambda: {K.NETWORK: None, K.EJKS: tg0}),
    ("net-none-conv", lambda: {K.NETWORK: None, K.EJKS: None, K.CONVERGENCE_LIMIT: 4}),
    ("empty-network", lambda: {K.NETWORK: Network(), K.EJKS: tg0}),
    ("rec-full", lambda: Rec({K.NETWORK: net0, K.EJKS: tg0, K.SEARCH_LIMIT: 7, K.CONVERGENCE_LIMIT: 13})),
    ("rec-minimal", lambda: Rec({K.NETWORK: net0, K.EJKS: tg0})),
    ("rec-no-ejks", lambda: Rec({K.NETWORK: net0, K.SEARCH_LIMIT: 1})),
    ("boom-conv", lambda: ContainsBoom(K.CONVERGENCE_LIMIT, {K.NETWORK: net0, K.EJKS: tg0})),
    ("boom-search", lambda: ContainsBoom(K.SEARCH_LIMIT, {K.NETWORK: net0, K.EJKS: tg0})),
    ("only-getitem", lambda: OnlyGetitem({K.NETWORK: net0, K.EJKS: tg0, K.CONVERGENCE_LIMIT: 2})),
    ("gboom-noconv", lambda: Rec({K.NETWORK: GBoom(), K.EJKS: tg0})),
    ("gboom-conv", lambda: Rec({K.NETWORK: GBoom(), K.EJKS: tg0, K.CONVERGENCE_LIMIT: 9})),
    ("gcount-noconv", lambda: {K.NETWORK: GBoom(net0.G), K.EJKS: tg0}),
    ("gcount-conv", lambda: {K.NETWORK: GBoom(net0.G), K.EJKS: tg0, K.CONVERGENCE_LIMIT: 9}),
]
for name, mk in variants:
    p = mk()
    before = dict(p) if isinstance(p, dict) else None
    m = attempt("ctor " + name, lambda: state(MarkovChainMonteCarloRewiring(p)))
    if isinstance(p, dict):
        print("   params untouched:", [str(k) for k in p] == [str(k) for k in before],
              all(p[k] is before[k] for k in before) if not isinstance(p, Rec) else "rec")
    if hasattr(p, "log"):
        print("   access log:", p.log)
    if isinstance(p, dict) and isinstance(dict.get(p, K.NETWORK), GBoom):
        print("   G accesses:", dict.get(p, K.NETWORK).n)
    print("   ", counters(), rng())

m = MarkovChainMonteCarloRewiring({K.NETWORK: net0, K.EJKS: tg0})
print("props", m.network is net0, m.ejks is tg0, m.convergence_limit, m.search_limit,
      m.convergence_limit == 10 * net0.G.number_of_edges())
m.network, m.ejks, m.convergence_limit, m.search_limit = "N", "E", -1, -2
print("props set", m.network, m.ejks, m.convergence_limit, m.search_limit, state(m))
print("subclass/mro", [c.__name__ for c in MarkovChainMonteCarloRewiring.__mro__],
      issubclass(ErrorMarkovChainMonteCarloRewiring, Exception))

# --------------------------------------------------------------------------- 2
print("== 2. key view")
GETTERS = ["get_u0u1", "get_u1u0", "get_v0v1", "get_v1v0", "get_u0v1", "get_v0u1"]


class Noisy:
    """sequence that logs every index asked of it"""

    def __init__(self, items):
        self.items = items
        self.log = []

    def __getitem__(self, i):
        self.log.append(i)
        return self.items[i]


class Addend:
    def __init__(self, tag, log):
        self.tag, self.log = tag, log

    def __add__(self, o):
        self.log.append(("add", self.tag, getattr(o, "tag", o)))
        return (self.tag, getattr(o, "tag", o))

    def __radd__(self, o):
        self.log.append(("radd", self.tag, o))
        return (o, self.tag)


addlog = []
key_inputs = [
    ("tuples", [(1, 2), (3, 4), (5, 6), (7, 8)]),
    ("empty-tuples", [(), (), (), ()]),
    ("lists", [[1], [2], [3], [4]]),
    ("strings", ["a", "b", "c", "d"]),
    ("string", "wxyz"),
    ("ints", [1, 2, 3, 4]),
    ("floats", [0.1, 0.2, 0.3, float("nan")]),
    ("long", [(0,), (1,), (2,), (3,), (4,), (5,)]),
    ("short3", [(0,), (1,), (2,)]),
    ("short1", [(0,)]),
    ("empty", []),
    ("none", None),
    ("int", 7),
    ("dict", {0: (0,), 1: (1,), 2: (2,), 3: (3,)}),
    ("dict-missing", {0: (0,), 3: (3,)}),
    ("mixed", [(1,), [2], "3", 4]),
    ("tuple-of-tuples", ((1, 1), (2, 2), (3, 3), (4, 4))),
    ("addends", [Addend(i, addlog) for i in "ABCD"]),
    ("mixed-addend", [1, Addend("B", addlog), (3,), Addend("D", addlog)]),
    ("np", [np.array([1, 2]), np.array([3, 4]), np.array([5, 6]), np.array([7, 8])]),
]
for name, keys in key_inputs:
    v = attempt("view-ctor " + name, lambda: JointExcessJointDegreeKeysView(keys))
    if v is None:
        continue
    print("   holds same object:", v._keys is keys, sorted(v.__dict__))
    for rep in range(2):
        for g in GETTERS:
            attempt(f"   {name}.{g}#{rep}", lambda: getattr(v, g)())
    print("   addlog", addlog)
    del addlog[:]
noisy = Noisy([(1,), (2,), (3,), (4,)])
v = JointExcessJointDegreeKeysView(noisy)
for g in GETTERS:
    attempt("noisy " + g, lambda: getattr(v, g)())
    print("   index log", noisy.log)
    del noisy.log[:]
lst = [(1,), (2,), (3,), (4,)]
v = JointExcessJointDegreeKeysView(lst)
print("mut0", [getattr(v, g)() for g in GETTERS])
lst[0] = (9, 9)
lst.reverse()
print("mut1", [getattr(v, g)() for g in GETTERS])
v._keys = [(5,), (6,), (7,), (8,)]
print("mut2", [getattr(v, g)() for g in GETTERS], lst)
print("view getters return fresh tuples:", v.get_u0u1() == v.get_u0u1(), rng())

# --------------------------------------------------------------------------- 3
print("== 3. MCMC base class decorator")


def truthy(*a, **k):
    "doc of truthy"
    return ("T", a, tuple(sorted(k.items())))


def falsy(*a, **k):
    return 0


def raiser(*a, **k):
    raise KeyError("raised inside")


def none(*a, **k):
    return None


class Child(MarkovChainMonteCarlo):
    pass


class Child2(MarkovChainMonteCarlo):
    _proposal_count = 100


def cls_counts():
    return [(c.__name__, c.__dict__.get("_proposal_count", "-"), c.__dict__.get("_proposals_accepted", "-"),
             c._proposal_count, c._proposals_accepted)
            for c in (MarkovChainMonteCarlo, MarkovChainMonteCarloRewiring, Child, Child2)]


print("start", cls_counts())
for owner in (MarkovChainMonteCarlo, MarkovChainMonteCarloRewiring, Child, Child2, Child()):
    oname = owner.__name__ if isinstance(owner, type) else "inst:" + type(owner).__name__
    for f in (truthy, falsy, raiser, none):
        w = attempt(f"decorate {oname} {f.__name__}", lambda: owner.proposal_efficiency(f))
        if w is None:
            continue
        print("   meta", w.__name__, w.__doc__, w.__wrapped__ is f, w.__qualname__)
        for args, kw in (((), {}), ((1, 2), {"z": 3}), ((owner,), {})):
            attempt(f"   call {oname}.{f.__name__}{len(args)}", lambda: w(*args, **kw))
            print("      ", cls_counts())
attempt("decorate kw func=", lambda: MarkovChainMonteCarlo.proposal_efficiency(func=truthy)(1))
attempt("decorate no-arg", lambda: MarkovChainMonteCarlo.proposal_efficiency())
attempt("decorate kw self=", lambda: MarkovChainMonteCarlo.proposal_efficiency(truthy, self=1))
attempt("decorate kw cls=", lambda: MarkovChainMonteCarlo.proposal_efficiency(truthy, cls=1))
attempt("decorate non-callable", lambda: MarkovChainMonteCarlo.proposal_efficiency(3))
attempt("call non-callable", lambda: MarkovChainMonteCarlo.proposal_efficiency(truthy).__wrapped__ is truthy)
attempt("raw function on plain object",
        lambda: MarkovChainMonteCarlo.__dict__["proposal_efficiency"].__func__(Child2, truthy)())
print("after raw", cls_counts())
sc = MarkovChainMonteCarloRewiring.swap_condition
print("swap_condition meta", sc.__name__, sc.__qualname__, hasattr(sc, "__wrapped__"),
      sc.__wrapped__.__name__, bool(sc.__doc__))
print("base attrs", sorted(k for k in MarkovChainMonteCarlo.__dict__ if not k.startswith("__")),
      type(MarkovChainMonteCarlo.__dict__["proposal_efficiency"]).__name__, rng())
# put the shared counters back so that section 4/5 start from a known point
for c in (MarkovChainMonteCarloRewiring, Child, Child2):
    for a in ("_proposal_count", "_proposals_accepted"):
        if a in c.__dict__:
            delattr(c, a)
MarkovChainMonteCarlo._proposal_count = 0
MarkovChainMonteCarlo._proposals_accepted = 0

# --------------------------------------------------------------------------- 4
print("== 4. helpers called directly")
m = MarkovChainMonteCarloRewiring({K.NETWORK: net0, K.EJKS: tg0, K.SEARCH_LIMIT: 5})
for u, e in [(1, (1, 2)), (2, (1, 2)), (1, (1, 1)), (3, (1, 2)), (1, (1,)), (2, (1,)), (1, ()),
             (1, (1, 2, 3)), (3, (1, 2, 3)), ("a", "ab"), ("b", "ab"), (1, None), (1, [2, 1]),
             (1.0, (1, 2)), (True, (1, 2)), (float("nan"), (float("nan"), 2)), (None, (None, None)),
             (np.int64(2), (1, 2)), (1, {0: 1, 1: 5}), (5, {0: 1, 1: 5}), (5, {0: 1})]:
    attempt(f"get_other_vertex {u!r} {e!r}", lambda: m.get_other_vertex(u, e))
G0 = net0.G
edges0 = list(G0.edges())
random.seed(99)
for e in random.sample(edges0, 12):
    for u0 in e:
        es = attempt(f"get_all_edges {u0} {e}", lambda: m.get_all_edges(G0, u0, e))
        attempt("   hashmap", lambda: m.get_hashmap(G0, es))
        idx = tg0.get_topology_index(G0.edges[e][NetworkNames.TOPOLOGY])
        attempt("   excess key", lambda: m.get_joint_excess_degree_key(G0, e, idx))
attempt("get_all_edges missing edge", lambda: m.get_all_edges(G0, 0, (10 ** 6, 10 ** 6 + 1)))
attempt("get_all_edges vertex not in edge", lambda: m.get_all_edges(G0, edges0[0][0], edges0[-1]))
attempt("topology index unknown", lambda: tg0.get_topology_index("nope"))
attempt("topology index empty", lambda: JointExcessJointDegreeMatrices().get_topology_index("x"))
random.seed(5)
pairs = 0
tried = 0
while pairs < 40 and tried < 4000:
    tried += 1
    e0, e1 = random.choice(edges0), random.choice(edges0)
    u0, v0 = e0[0], e1[0]
    a, b = m.get_all_edges(G0, u0, e0), m.get_all_edges(G0, v0, e1)
    ok = m.is_edge_choice_suitable(G0, u0, v0, a, b)
    if tried <= 60:
        print("suitable?", e0, e1, ok)
    if not ok:
        continue
    pairs += 1
    idx = tg0.get_topology_index(G0.edges[e0][NetworkNames.TOPOLOGY])
    kv = m.get_swapped_joint_excess_degree_key(G0, a[0], b[0], u0, v0, idx)
    print("view", type(kv).__name__, kv._keys, [getattr(kv, g)() for g in GETTERS])
    r = attempt(f"swap_condition {e0} {e1}", lambda: m.swap_condition(G0, a, b, u0, v0))
    print("   ", state(m)[-1], counters(m), rng())
    attempt("   swap_condition kw", lambda: m.swap_condition(G=G0, e0s=a, e1s=b, u0=u0, v0=v0))
print("tried", tried, "pairs", pairs, counters(m), rng())
attempt("swap_condition mismatched", lambda: m.swap_condition(G0, [edges0[0]], [], edges0[0][0], 0))
print("after mismatch", counters(m), state(m)[-1])
print("net0 unchanged", graph_digest(G0))

# --------------------------------------------------------------------------- 5
print("== 5. full rewires")
for seed, n, eps, cl, sl in [(1, 120, 0.02, 60, 20), (2, 200, 1e-3, 120, None), (3, 150, 1e-8, 40, 3),
                             (4, 90, 0.05, None, 10), (5, 80, 0.03, 0, 20), (6, 100, 0.0, 30, 20)]:
    net, tg = build(seed, n, eps)
    before = graph_digest(net.G)
    p = {K.NETWORK: net, K.EJKS: tg}
    if cl is not None:
        p[K.CONVERGENCE_LIMIT] = cl
    if sl is not None:
        p[K.SEARCH_LIMIT] = sl
    if cl is None:
        # default limit is 10 * |E| accepted swaps: keep it but on a tiny network
        net, tg = build(seed, 24, eps)
        p[K.NETWORK] = net
        before = graph_digest(net.G)
    m = MarkovChainMonteCarloRewiring(p)
    print("run", seed, "limits", m.convergence_limit, m.search_limit, "built", before, rng())
    random.seed(1000 + seed)
    np.random.seed(1000 + seed)
    out = attempt("   rewire", lambda: graph_digest(m.rewire()))
    print("   input untouched", graph_digest(net.G) == before, counters(m), rng())
    print("   ", state(m))
    # second call on the same object
    out2 = attempt("   rewire again", lambda: graph_digest(m.rewire()))
    print("   ", counters(m), rng())
    # every created edge must be an allowed pairing: record the zero / absent pairings seen
    G = attempt("   rewire third (graph kept)", lambda: m.rewire())
    if G is not None:
        bad = 0
        for u, v in G.edges():
            top = G.edges[u, v][NetworkNames.TOPOLOGY]
            i = tg.get_topology_index(top)
            key = m.get_joint_excess_degree_key(G, (u, v), i)
            if not net.G.has_edge(u, v) and tg.ejks[top].get(key, 0.0) <= 0.0:
                bad += 1
        print("   manufactured forbidden pairings:", bad, rng())
print("final", counters(), rng())
