import sys, os; sys.path.insert(0, os.getcwd())

if os.environ.get("PYTHONHASHSEED") != "0":
    # set / str-hash iteration orders must be reproducible between runs
    os.environ["PYTHONHASHSEED"] = "0"
    os.execv(sys.executable, [sys.executable] + sys.argv)

import copy
import hashlib
import random

import numpy as np
import networkx as nx

from gcmpy.tools.average_joint_degree_from_jdd import AverageJointDegreeFromJDD
from gcmpy.tools.joint_excess_from_jdd import JointExcessfromJDD
from gcmpy.tools.joint_degree_from_excess import JointDegreeFromExcess
from gcmpy.tools.joint_excess_from_ejk import JointExcessFromEjk
from gcmpy.tools.joint_degree_distribution_from_network import (
    JointDegreeDistributionFromNetwork,
)
from gcmpy.tools.joint_excess_joint_degree_matrices import (
    JointExcessJointDegreeMatrices,
)
from gcmpy.tools.joint_excess_joint_degree import JointExcessJointDegree
from gcmpy.joint_degree.joint_degree_loaders.joint_degree_manual import (
    JointDegreeManual,
)
from gcmpy.motif_generators.clique_motif import clique_motif
from gcmpy.gcm_algorithm.gcm_algorithm_network import GCMAlgorithmNetwork
from gcmpy.names.gcm_algorithm_names import GCMAlgorithmNames
from gcmpy.names.joint_degree_names import JointDegreeNames
from gcmpy.names.network_names import NetworkNames
from gcmpy.names.tools_names import ToolsNames
import gcmpy
import gcmpy.tools

random.seed(20261004)
np.random.seed(20261004)


def show(x):
    """Deterministic, order-preserving, bit-exact rendering."""
    if isinstance(x, dict):
        inner = ", ".join(f"{show(k)}: {show(v)}" for k, v in x.items())
        return f"{type(x).__name__}{{{inner}}}"
    if isinstance(x, (list, tuple)):
        inner = ", ".join(show(v) for v in x)
        return f"{type(x).__name__}[{inner}]"
    if isinstance(x, float):
        return f"float({x!r}|{x.hex() if x == x and abs(x) != float('inf') else x})"
    if isinstance(x, JointExcessJointDegreeMatrices):
        return (
            f"EJK<ejks={show(x._ejks)}; keys={show(x._excess_degree_keys)}; "
            f"names={show(x._topology_names)}>"
        )
    return f"{type(x).__name__}({x!r})"


def rng_state():
    h = hashlib.sha256()
    h.update(repr(random.getstate()).encode())
    st = np.random.get_state()
    h.update(repr((st[0], st[1].tolist(), st[2], st[3], st[4])).encode())
    return h.hexdigest()


def call(label, fn, *args, **kwargs):
    try:
        out = fn(*args, **kwargs)
        print(f"{label} -> {show(out)}")
        return out
    except BaseException as e:  # noqa
        print(f"{label} !! {type(e).__name__}: {e}")
        return None


def digest(label, text):
    print(f"{label} sha256={hashlib.sha256(text.encode()).hexdigest()} len={len(text)}")


class Loud:
    """Number-like object recording the operations performed on it."""

    log = []

    def __init__(self, v, name):
        self.v = v
        self.name = name

    def __gt__(self, o):
        Loud.log.append(f"{self.name}>")
        return self.v > o

    def __le__(self, o):
        Loud.log.append(f"{self.name}<=")
        return self.v <= o

    def __lt__(self, o):
        Loud.log.append(f"{self.name}<")
        return self.v < o

    def __ge__(self, o):
        Loud.log.append(f"{self.name}>=")
        return self.v >= o

    def __sub__(self, o):
        Loud.log.append(f"{self.name}-")
        return Loud(self.v - o, self.name + "'")

    def __add__(self, o):
        Loud.log.append(f"{self.name}+")
        return self.v + o

    def __radd__(self, o):
        Loud.log.append(f"{self.name}r+")
        return o + self.v

    def __mul__(self, o):
        Loud.log.append(f"{self.name}*")
        return self.v * o

    def __rmul__(self, o):
        Loud.log.append(f"{self.name}r*")
        return o * self.v

    def __hash__(self):
        return hash(self.v)

    def __eq__(self, o):
        return isinstance(o, Loud) and o.v == self.v

    def __repr__(self):
        return f"Loud({self.v!r})"


# ---------------------------------------------------------------------------
print("== re-exports")
for name in (
    "AverageJointDegreeFromJDD",
    "JointDegreeDistributionFromNetwork",
    "JointDegreeFromExcess",
    "JointExcessFromEjk",
    "JointExcessfromJDD",
    "JointExcessJointDegreeMatrices",
):
    print(name, hasattr(gcmpy.tools, name), hasattr(gcmpy, name))
for name in (
    "get_joint_excess_distributions",
    "convert_list_qks_to_dict",
    "convert_dict_qks_to_list",
):
    raw = JointExcessfromJDD.__dict__[name]
    print(name, type(raw).__name__, callable(getattr(JointExcessfromJDD(), name)))
for cls, names in (
    (AverageJointDegreeFromJDD, ["get_average_joint_degrees"]),
    (
        JointDegreeFromExcess,
        ["invert_single", "observations_from_dict", "get_joint_degree_distribution"],
    ),
    (JointExcessFromEjk, ["get_excess_joint_distributions"]),
    (JointDegreeDistributionFromNetwork, ["get_joint_degree_distribution"]),
):
    for name in names:
        print(cls.__name__, name, type(cls.__dict__[name]).__name__)
print(
    "matrices members",
    sorted(
        k
        for k in JointExcessJointDegreeMatrices.__dict__
        if not k.startswith("__")
    ),
)

# ---------------------------------------------------------------------------
print("== jdds")
JDDS = {
    "two": {(5, 1): 1 / 3, (3, 2): 1 / 3, (1, 3): 1 / 3},
    "three": {(1, 0, 0): 0.2, (1, 1, 1): 0.5, (3, 0, 1): 0.1, (2, 1, 0): 0.2},
    "four": {(1, 2): 0.2, (2, 0): 0.5, (3, 1): 0.1, (5, 1): 0.2},
    "single": {(4,): 1.0},
    "one_topology": {(0,): 0.1, (1,): 0.3, (2,): 0.6},
    "zeros": {(0, 0): 0.5, (0, 2): 0.5},
    "all_zero": {(0, 0): 1.0},
    "unnormalised": {(1, 2): 0.7, (2, 1): 0.9, (3, 3): 0.123456789},
    "tiny": {(1, 1): 1e-300, (2, 5): 3e-310, (7, 1): 0.1},
    "float_degrees": {(0.5, 1e20): 0.25, (1e-20, 2.0): 0.75},
    "negative": {(-1, 2): 0.5, (2, -3): 0.5},
    "nan_degree": {(float("nan"), 1): 0.5, (2, 2): 0.5},
    "nan_prob": {(1, 1): float("nan"), (2, 2): 0.5},
    "inf_prob": {(1, 1): float("inf"), (2, 0): 0.5},
    "bool_degrees": {(True, False): 0.5, (False, True): 0.5},
    "int_probs": {(1, 2): 1, (2, 1): 3},
    "longer_later": {(1, 2): 0.5, (2, 1, 7): 0.5},
    "shorter_later": {(1, 2): 0.5, (2,): 0.5},
    "empty_tuple": {(): 1.0},
    "empty_then": {(): 0.5, (1, 2): 0.5},
    "empty": {},
    "string_keys": {"ab": 0.5, "cd": 0.5},
    "numpy_degrees": {(np.int64(2), np.int64(1)): np.float64(0.25), (np.int64(0), np.int64(3)): 0.75},
    "many": {
        (a, b, c): ((a * 7 + b * 3 + c + 1) % 11 + 1) / 97.0
        for a in range(4)
        for b in range(3)
        for c in range(3)
    },
}
rand_jdd = {}
for _ in range(40):
    rand_jdd[(random.randrange(0, 6), random.randrange(0, 4), random.randrange(0, 5))] = random.random()
tot = sum(rand_jdd.values())
JDDS["random"] = {k: v / tot for k, v in rand_jdd.items()}

for label, jdd in JDDS.items():
    before = copy.deepcopy(jdd) if label not in ("nan_degree",) else None
    snapshot = show(jdd)
    for rep in range(2):
        call(f"avg[{label}]#{rep}", AverageJointDegreeFromJDD.get_average_joint_degrees, jdd)
        call(f"avg-inst[{label}]#{rep}", AverageJointDegreeFromJDD().get_average_joint_degrees, jdd)
        qks = call(f"excess[{label}]#{rep}", JointExcessfromJDD.get_joint_excess_distributions, jdd)
        if qks is not None:
            print(f"  sums[{label}] " + show([sum(q.values()) if q else None for q in qks]))
            print(f"  distinct-objects {len(set(map(id, qks))) == len(qks)}")
    print(f"  input-unchanged[{label}] {show(jdd) == snapshot}")

print("== operation order on number-like degrees")
Loud.log = []
loud_jdd = {
    (Loud(2, "a0"), Loud(0, "a1")): 0.25,
    (Loud(1, "b0"), Loud(3, "b1")): 0.75,
}
call("avg[loud]", AverageJointDegreeFromJDD.get_average_joint_degrees, loud_jdd)
print("  log", Loud.log)
Loud.log = []
call("excess[loud]", JointExcessfromJDD.get_joint_excess_distributions, loud_jdd)
print("  log", Loud.log)

print("== dict subclass / mapping inputs")


class CountingDict(dict):
    gets = 0

    def __getitem__(self, k):
        CountingDict.gets += 1
        return dict.__getitem__(self, k)


cd = CountingDict(JDDS["two"])
call("avg[dict-subclass]", AverageJointDegreeFromJDD.get_average_joint_degrees, cd)
call("excess[dict-subclass]", JointExcessfromJDD.get_joint_excess_distributions, cd)
call("avg[list]", AverageJointDegreeFromJDD.get_average_joint_degrees, [(1, 2)])
call("avg[counting-gets]", lambda: CountingDict.gets)
call("avg[None]", AverageJointDegreeFromJDD.get_average_joint_degrees, None)
call("excess[None]", JointExcessfromJDD.get_joint_excess_distributions, None)

# ---------------------------------------------------------------------------
print("== conversions")
qa, qb, qc = {(0, 1): 0.5}, {(1, 0): 0.25}, {}
CONV = [
    ([qa, qb], ["x", "y"]),
    ([qa, qb, qc], ["x", "y"]),
    ([qa], ["x", "y"]),
    ([qa, qb, qc], ["x", "y", "x"]),
    ([], []),
    ([qa, qb], []),
    ([qa, qb], "xy"),
    ((qa, qb), ("x", "y")),
    ([qa, qb], [["unhashable"], "y"]),
    ([qa, qb], None),
    (None, ["x"]),
    (iter([qa, qb]), iter(["x", "y"])),
]
for n, (lst, keys) in enumerate(CONV):
    out = call(f"list->dict#{n}", JointExcessfromJDD.convert_list_qks_to_dict, lst, keys)
    if isinstance(out, dict):
        print("  identity", [any(v is q for q in (qa, qb, qc)) for v in out.values()])
    call(f"list->dict-inst#{n}", JointExcessfromJDD().convert_list_qks_to_dict, [qa, qb], ["x", "y"])
call("list->dict-kw", JointExcessfromJDD.convert_list_qks_to_dict, qks_list=[qa], keys=["k"])
call("list->dict-missing-arg", JointExcessfromJDD.convert_list_qks_to_dict, [qa])
dd = {"x": qa, "y": qb, "z": qc}
for n, keys in enumerate([["x", "y", "z"], ["z", "x"], ["x", "x"], [], ["x", "missing"], "xy", None, iter(["y"]), [["u"]]]):
    out = call(f"dict->list#{n}", JointExcessfromJDD.convert_dict_qks_to_list, dd, keys)
    if isinstance(out, list):
        print("  identity", [[v is q for q in (qa, qb, qc)].index(True) for v in out])
call("dict->list-kw", JointExcessfromJDD.convert_dict_qks_to_list, qks_dict=dd, keys=["y"])
call("dict->list-none", JointExcessfromJDD.convert_dict_qks_to_list, None, ["y"])
call("dict->list-listdict", JointExcessfromJDD.convert_dict_qks_to_list, [qa, qb], [1, 0])
call("dict->list-missing-arg", JointExcessfromJDD.convert_dict_qks_to_list, dd)
print("  inputs", show(dd), show([qa, qb, qc]))

# ---------------------------------------------------------------------------
print("== inversion")
QKS = {
    "simple": ({(0, 3): 1 / 9, (4, 1): 5 / 9, (2, 2): 3 / 9}, [0, 1, -1, -2, 2, -3]),
    "empty": ({}, [0, 1]),
    "zero_mass": ({(0, 1): 0.0, (1, 1): 0.0}, [0]),
    "neg_one": ({(-1, 2): 0.5, (1, 1): 0.5}, [0, 1]),
    "nan": ({(0, 1): float("nan"), (1, 1): 0.5}, [0]),
    "floats": ({(0.5, 1.5): 0.1, (2.25, 0.0): 0.7, (1e-17, 3.0): 0.2}, [0, 1]),
    "collide": ({(0, 1): 0.3, (0.0, 1.0): 0.4, (1, 1): 0.3}, [0]),
    "strings": ({"ab": 0.5}, [0]),
    "int_mass": ({(1, 2): 2, (0, 0): 3}, [0, 1]),
    "short": ({(1,): 0.5, (1, 2): 0.5}, [1]),
    "cancel": ({(0, 0): 1e308, (1, 0): 1e308, (2, 0): -1e308, (3, 0): 1.0}, [0, 1]),
    "compensated": ({(0, k): v for k, v in enumerate([1e16, 1.0, -1e16, 1.0, 3.0, 1e-3])}, [0, 1]),
}
for label, (qk, idxs) in QKS.items():
    snap = show(qk)
    for i in idxs:
        for rep in range(2):
            call(f"invert[{label},{i}]#{rep}", JointDegreeFromExcess.invert_single, qk, i)
    call(f"invert-inst[{label}]", JointDegreeFromExcess().invert_single, qk, idxs[0])
    print(f"  input-unchanged[{label}] {show(qk) == snap}")
call("invert[None]", JointDegreeFromExcess.invert_single, None, 0)
call("invert[empty-list]", JointDegreeFromExcess.invert_single, [], 0)
call("invert[list]", JointDegreeFromExcess.invert_single, [(0, 1)], 0)
call("invert[empty-str]", JointDegreeFromExcess.invert_single, "", 0)
call("invert[str-index]", JointDegreeFromExcess.invert_single, {(0, 1): 1.0}, "0")
call("invert[kw]", JointDegreeFromExcess.invert_single, qk={(0, 1): 1.0}, i=1)

print("== observations / round trips")
ROUND = {}
for label, jdd in JDDS.items():
    try:
        qks = JointExcessfromJDD.get_joint_excess_distributions(jdd)
    except BaseException:
        continue
    names = [f"t{n}" for n in range(len(qks))]
    ROUND[label] = (JointExcessfromJDD.convert_list_qks_to_dict(qks, names), names)

for label, (qd, names) in ROUND.items():
    snap = show(qd)
    for rep in range(2):
        call(f"obs[{label}]#{rep}", JointDegreeFromExcess.observations_from_dict, qd, names)
        out = call(f"jdd-from-excess[{label}]#{rep}", JointDegreeFromExcess.get_joint_degree_distribution, qd, names)
        if isinstance(out, dict) and out:
            print("   total", show(sum(out.values())))
    if len(names) > 1:
        rev = list(reversed(names))
        # wrong index assignment on purpose: exercises another reference topology
        call(f"jdd-from-excess-reversed[{label}]", JointDegreeFromExcess.get_joint_degree_distribution, qd, rev)
        call(f"jdd-from-excess-subset[{label}]", JointDegreeFromExcess.get_joint_degree_distribution, qd, names[:1])
        call(f"jdd-from-excess-dup[{label}]", JointDegreeFromExcess.get_joint_degree_distribution, qd, [names[0], names[0]])
    print(f"  input-unchanged[{label}] {show(qd) == snap}")

call("obs[empty-keys]", JointDegreeFromExcess.observations_from_dict, {"a": {(0,): 1.0}}, [])
call("obs[missing]", JointDegreeFromExcess.observations_from_dict, {"a": {(0,): 1.0}}, ["a", "b"])
call("obs[dup]", JointDegreeFromExcess.observations_from_dict, {"a": {(0, 0): 0.5, (1, 2): 0.5}}, ["a", "a"])
call("obs[str-keys]", JointDegreeFromExcess.observations_from_dict, {"a": {(0, 0): 1.0}, "b": {(0, 0): 1.0}}, "ab")
call("obs[unhashable]", JointDegreeFromExcess.observations_from_dict, {"a": {(0, 0): 1.0}}, [["a"]])
call("obs[inst]", JointDegreeFromExcess().observations_from_dict, {"a": {(0, 0): 1.0}}, ["a"])
call("jdd-from-excess[empty-keys]", JointDegreeFromExcess.get_joint_degree_distribution, {"a": {(0,): 1.0}}, [])
call("jdd-from-excess[missing]", JointDegreeFromExcess.get_joint_degree_distribution, {"a": {(0,): 1.0}}, ["zz"])
call(
    "jdd-from-excess[no-common]",
    JointDegreeFromExcess.get_joint_degree_distribution,
    {"a": {(0, 5): 1.0}, "b": {(7, 0): 1.0}},
    ["a", "b"],
)
call(
    "jdd-from-excess[empty-dists]",
    JointDegreeFromExcess.get_joint_degree_distribution,
    {"a": {}, "b": {}},
    ["a", "b"],
)
call(
    "jdd-from-excess[zero-scale]",
    JointDegreeFromExcess.get_joint_degree_distribution,
    {"a": {(0, 1): 0.5, (1, 1): 0.5}, "b": {(1, 0): 0.0, (2, 0): 1.0, (3, 3): 0.0}},
    ["a", "b"],
)
call(
    "jdd-from-excess[zero-total]",
    JointDegreeFromExcess.get_joint_degree_distribution,
    {"a": {(0, 1): 1.0, (1, 1): -1.0}},
    ["a"],
)
call(
    "jdd-from-excess[partial-overlap]",
    JointDegreeFromExcess.get_joint_degree_distribution,
    {
        "a": {(0, 1): 0.2, (1, 1): 0.3, (4, 0): 0.5},
        "b": {(1, 0): 0.6, (2, 0): 0.1, (0, 6): 0.3},
        },
    ["a", "b"],
)
call("jdd-from-excess[inst]", JointDegreeFromExcess().get_joint_degree_distribution, {"a": {(0, 1): 1.0}}, ["a"])
call("jdd-from-excess[kw]", JointDegreeFromExcess.get_joint_degree_distribution, qks={"a": {(0, 1): 1.0}}, keys=["a"])

# ---------------------------------------------------------------------------
print("== matrices object")
ejk_tree = {
    (0, 3, 0, 3): 1 / 81, (0, 3, 4, 1): 5 / 81, (0, 3, 2, 2): 3 / 81,
    (4, 1, 0, 3): 5 / 81, (4, 1, 4, 1): 25 / 81, (4, 1, 2, 2): 15 / 81,
    (2, 2, 0, 3): 3 / 81, (2, 2, 4, 1): 15 / 81, (2, 2, 2, 2): 9 / 81,
}
ejk_triangle = {
    (3, 1, 3, 1): 16 / 144, (3, 1, 1, 2): 24 / 144, (3, 1, 5, 0): 8 / 144,
    (1, 2, 3, 1): 24 / 144, (1, 2, 1, 2): 36 / 144, (1, 2, 5, 0): 12 / 144,
    (5, 0, 3, 1): 8 / 144, (5, 0, 1, 2): 12 / 144, (5, 0, 5, 0): 4 / 144,
}

m = JointExcessJointDegreeMatrices()
print("fresh", show(m), sorted(vars(m)))
call("index[empty-names]", m.get_topology_index, "2-clique")
call("keys[empty]", m.get_excess_degree_keys)
print("after", show(m))

params = {ToolsNames.EJKS: {"2-clique": ejk_tree, "3-clique": ejk_triangle}, ToolsNames.EDGE_NAMES: ["2-clique", "3-clique"]}
m = JointExcessJointDegreeMatrices(params)
print("from-params", show(m), sorted(vars(m)))
print("aliasing", m.ejks is params[ToolsNames.EJKS], m.topology_names is params[ToolsNames.EDGE_NAMES], m.excess_degree_keys is m._excess_degree_keys)
for t in ["2-clique", "3-clique", "4-clique", None, 0]:
    call(f"index[{t}]", m.get_topology_index, t)
old_keys_obj = m.excess_degree_keys
for rep in range(2):
    call(f"keys#{rep}", m.get_excess_degree_keys)
    print("  state", show(m.excess_degree_keys), m.excess_degree_keys is old_keys_obj)
call("qk-from-ejk[params]", JointExcessFromEjk.get_excess_joint_distributions, m)
call("qk-from-ejk[params]again", JointExcessFromEjk.get_excess_joint_distributions, m)
print("  unchanged", show(m))

call("ctor[missing-names]", JointExcessJointDegreeMatrices, {ToolsNames.EJKS: {}})
call("ctor[missing-ejks]", JointExcessJointDegreeMatrices, {ToolsNames.EDGE_NAMES: []})
call("ctor[empty-dict]", JointExcessJointDegreeMatrices, {})
call("ctor[names-dup]", JointExcessJointDegreeMatrices, {ToolsNames.EJKS: {"a": {(1, 2): 1.0}}, ToolsNames.EDGE_NAMES: ["a", "a", "b"]})
dup = JointExcessJointDegreeMatrices({ToolsNames.EJKS: {"a": {(1, 2): 1.0}}, ToolsNames.EDGE_NAMES: ["a", "b", "a", 1.0, 1]})
for t in ["a", "b", 1, True, "c"]:
    call(f"index-dup[{t!r}]", dup.get_topology_index, t)

ODD = {
    "odd": {(1, 2, 3): 0.5, (4, 5, 6, 7, 8): 0.5},
    "empty_key": {(): 1.0},
    "single": {(9,): 1.0},
    "strings": {"abcd": 1.0, "xy": 2.0},
    "lists": {},
    "big": {
        (a, b, c, d): 1.0
        for a in range(5)
        for b in range(4)
        for c in range(5)
        for d in range(4)
    },
}
mm = JointExcessJointDegreeMatrices()
mm.ejks = ODD
mm.topology_names = list(ODD)
call("keys[odd]", mm.get_excess_degree_keys)
print("  state", show(mm.excess_degree_keys))
call("qk-from-ejk[odd]", JointExcessFromEjk.get_excess_joint_distributions, mm)

bad = JointExcessJointDegreeMatrices()
bad.ejks = {"ok": {(1, 2): 1.0}, "bad": {(1, 2): 1.0, 5: 2.0, (3, 4): 1.0}, "never": {(5, 6): 1.0}}
bad.excess_degree_keys = {"stale": [(0,)]}
call("keys[bad]", bad.get_excess_degree_keys)
print("  partial-state", show(bad.excess_degree_keys))
class HashableIterable:
    """Hashable key whose elements are not hashable."""

    def __init__(self, items):
        self.items = items

    def __iter__(self):
        return iter(self.items)

    def __hash__(self):
        return 17

    def __repr__(self):
        return f"HashableIterable({self.items!r})"


bad2 = JointExcessJointDegreeMatrices()
bad2.ejks = {
    "ok": {(1, 2): 1.0},
    "second-half-bad": {HashableIterable([1, [2]]): 1.0},
    "never": {(5, 6): 1.0},
}
call("keys[bad2]", bad2.get_excess_degree_keys)
print("  partial-state", show(bad2.excess_degree_keys))
bad2.ejks = {"first-half-bad": {HashableIterable([[1], 2]): 1.0}}
call("keys[bad2b]", bad2.get_excess_degree_keys)
print("  partial-state", show(bad2.excess_degree_keys))
bad3 = JointExcessJointDegreeMatrices()
bad3.ejks = {"ok": {(1, 2): 1.0}, "bad": 7}
call("keys[bad3]", bad3.get_excess_degree_keys)
print("  partial-state", show(bad3.excess_degree_keys))
bad4 = JointExcessJointDegreeMatrices()
bad4.ejks = {"ok": {(1, 2): 1.0}, "nested": {((1,), (2,)): 1.0, ((1,), (2,), (3,)): 1.0}}
call("keys[bad4]", bad4.get_excess_degree_keys)
print("  state", show(bad4.excess_degree_keys))
call("ctor[bad-ejks]", JointExcessJointDegreeMatrices, {ToolsNames.EJKS: {"a": {3: 1.0}}, ToolsNames.EDGE_NAMES: ["a"]})
call("ctor[none-ejks]", JointExcessJointDegreeMatrices, {ToolsNames.EJKS: None, ToolsNames.EDGE_NAMES: ["a"]})

# property setters and getters
pp = JointExcessJointDegreeMatrices()
pp.ejks = {"k": {(0, 0): 1.0}}
pp.excess_degree_keys = {"k": [(0,)]}
pp.topology_names = ["k"]
print("props", show(pp), show(pp.ejks), show(pp.excess_degree_keys), show(pp.topology_names))

# ---------------------------------------------------------------------------
print("== excess from ejk")
e = JointExcessJointDegreeMatrices()
e._ejks = {"2-clique": ejk_tree, "3-clique": ejk_triangle}
e._excess_degree_keys = {
    "2-clique": [(0, 3), (4, 1), (2, 2)],
    "3-clique": [(3, 1), (1, 2), (5, 0)],
}
snap = show(e)
for rep in range(2):
    call(f"qk-from-ejk[test]#{rep}", JointExcessFromEjk.get_excess_joint_distributions, e)
call("qk-from-ejk[inst]", JointExcessFromEjk().get_excess_joint_distributions, e)
print("  unchanged", show(e) == snap)

e2 = JointExcessJointDegreeMatrices()
e2._ejks = {"a": {(0, 1): 0.25, (1, 0): 0.25, (1, 1): -0.0, (2, 2): 0.5, (0, 0): -0.0}}
e2._excess_degree_keys = {"a": [(2,), (1,), (0,), (1,), (7,)]}
call("qk-from-ejk[dups,-0.0]", JointExcessFromEjk.get_excess_joint_distributions, e2)
e2._excess_degree_keys = {"a": []}
call("qk-from-ejk[no-keys]", JointExcessFromEjk.get_excess_joint_distributions, e2)
e2._excess_degree_keys = {"a": {(0,): None, (1,): None}}
call("qk-from-ejk[dict-keys]", JointExcessFromEjk.get_excess_joint_distributions, e2)
e2._excess_degree_keys = {"a": [[0], [1]]}
call("qk-from-ejk[list-keys]", JointExcessFromEjk.get_excess_joint_distributions, e2)
e2._excess_degree_keys = {"a": [(0,), 1]}
call("qk-from-ejk[mixed-keys]", JointExcessFromEjk.get_excess_joint_distributions, e2)
e2._excess_degree_keys = {"b": [(0,)]}
call("qk-from-ejk[wrong-topology]", JointExcessFromEjk.get_excess_joint_distributions, e2)
e2._excess_degree_keys = {"a": [(0,)], "b": [(1,)]}
call("qk-from-ejk[length-mismatch]", JointExcessFromEjk.get_excess_joint_distributions, e2)
e2._excess_degree_keys = {}
call("qk-from-ejk[length-mismatch2]", JointExcessFromEjk.get_excess_joint_distributions, e2)
e2._ejks = [{(0, 0): 1.0}]
e2._excess_degree_keys = {"a": [(0,)]}
call("qk-from-ejk[list-ejks]", JointExcessFromEjk.get_excess_joint_distributions, e2)
e2._ejks = []
e2._excess_degree_keys = {}
call("qk-from-ejk[empty-list-ejks]", JointExcessFromEjk.get_excess_joint_distributions, e2)
call("keys[empty-list-ejks]", e2.get_excess_degree_keys)
e2._ejks = [0]
call("keys[list-ejks]", e2.get_excess_degree_keys)
e3 = JointExcessJointDegreeMatrices()
call("qk-from-ejk[empty]", JointExcessFromEjk.get_excess_joint_distributions, e3)
call("qk-from-ejk[None]", JointExcessFromEjk.get_excess_joint_distributions, None)
e4 = JointExcessJointDegreeMatrices()
e4._ejks = {"a": {(0, 0): 1e16, (0, 1): 1.0, (0, 2): -1e16, (0, 3): 1.0, (1, 0): 0.1, (1, 1): 0.2, (1, 2): 0.3}}
e4._excess_degree_keys = {"a": [(0,), (1,), (2,), (3,)]}
call("qk-from-ejk[float-order]", JointExcessFromEjk.get_excess_joint_distributions, e4)
e4._excess_degree_keys = {"a": [(3,), (2,), (1,), (0,)]}
call("qk-from-ejk[float-order-rev]", JointExcessFromEjk.get_excess_joint_distributions, e4)

# ---------------------------------------------------------------------------
print("== jdd from network")


def jd_graph(spec, attr=NetworkNames.JOINT_DEGREE):
    g = nx.Graph()
    for node, jd in spec:
        g.add_node(node)
        if jd is not None:
            g.nodes[node][attr] = jd
    return g


GRAPHS = {
    "empty": nx.Graph(),
    "three": jd_graph([(0, (1, 2)), (1, [1, 2]), (2, (0, 0))]),
    "seven": jd_graph([(n, (n % 3, n % 2)) for n in range(7)]),
    "forty-nine": jd_graph([(n, (n % 3, n % 2, n % 5 == 0)) for n in range(49)]),
    "missing-attr": jd_graph([(0, (1, 2)), (1, None), (2, (0, 0))]),
    "non-iterable": jd_graph([(0, (1, 2)), (1, 5)]),
    "string-jd": jd_graph([(0, "ab"), (1, "ab"), ("x", "c")]),
    "unhashable": jd_graph([(0, ([1], 2))]),
    "string-attr": jd_graph([(0, (1, 2))], attr="joint_degree"),
    "digraph": nx.DiGraph(),
    "multi": nx.MultiGraph(),
}
GRAPHS["digraph"].add_node("a", **{}); GRAPHS["digraph"].nodes["a"][NetworkNames.JOINT_DEGREE] = (1,)
GRAPHS["digraph"].add_node("b"); GRAPHS["digraph"].nodes["b"][NetworkNames.JOINT_DEGREE] = (1,)
GRAPHS["digraph"].add_node("c"); GRAPHS["digraph"].nodes["c"][NetworkNames.JOINT_DEGREE] = (2,)
GRAPHS["multi"].add_node(1); GRAPHS["multi"].nodes[1][NetworkNames.JOINT_DEGREE] = (3, 3)
print("attr-key", repr(NetworkNames.JOINT_DEGREE))
for label, g in GRAPHS.items():
    snap = repr(sorted((repr(n), repr(d)) for n, d in g.nodes(data=True)))
    for rep in range(2):
        call(f"jdd-net[{label}]#{rep}", JointDegreeDistributionFromNetwork.get_joint_degree_distribution, g)
    call(f"jdd-net-inst[{label}]", JointDegreeDistributionFromNetwork().get_joint_degree_distribution, g)
    print("  unchanged", snap == repr(sorted((repr(n), repr(d)) for n, d in g.nodes(data=True))))
call("jdd-net[None]", JointDegreeDistributionFromNetwork.get_joint_degree_distribution, None)
call("jdd-net[kw]", JointDegreeDistributionFromNetwork.get_joint_degree_distribution, G=GRAPHS["three"])

# ---------------------------------------------------------------------------
print("== end to end on generated networks")
print("rng before", rng_state())


def generate(jdd, sizes, names, n):
    params = {JointDegreeNames.JDD: jdd, JointDegreeNames.MOTIF_SIZES: sizes}
    jds = JointDegreeManual(params).sample_jds_from_jdd(n)
    params = {
        GCMAlgorithmNames.MOTIF_SIZES: sizes,
        GCMAlgorithmNames.EDGE_NAMES: names,
        GCMAlgorithmNames.BUILD_FUNCTIONS: [clique_motif] * len(sizes),
    }
    return GCMAlgorithmNetwork(params).random_clustered_graph(jds)


CASES = [
    (JDDS["two"], [2, 3], ["2-clique", "3-clique"], 600),
    (JDDS["three"], [2, 3, 2], ["tree", "triangle", "tree2"], 900),
    (JDDS["four"], [2, 3], ["2-clique", "3-clique"], 300),
]
for n, (jdd, sizes, names, size) in enumerate(CASES):
    net = generate(jdd, sizes, names, size)
    G = net._G
    print(f"case{n} order={G.order()} edges={G.number_of_edges()} rng={rng_state()}")
    emp = JointDegreeDistributionFromNetwork.get_joint_degree_distribution(G)
    digest(f"case{n} empirical-jdd", show(emp))
    print(f"case{n} empirical-jdd head {show(dict(list(emp.items())[:4]))}")
    print(f"case{n} averages {show(AverageJointDegreeFromJDD.get_average_joint_degrees(emp))}")
    qks_list = JointExcessfromJDD.get_joint_excess_distributions(emp)
    digest(f"case{n} excess-from-jdd", show(qks_list))
    print(f"case{n} excess sums {show([sum(q.values()) for q in qks_list])}")
    qks_dict = JointExcessfromJDD.convert_list_qks_to_dict(qks_list, names)
    back = JointExcessfromJDD.convert_dict_qks_to_list(qks_dict, names)
    print(f"case{n} conversions identity {all(a is b for a, b in zip(qks_list, back))} {list(qks_dict) == names}")
    for rep in range(2):
        inv = JointDegreeFromExcess.get_joint_degree_distribution(qks_dict, names)
        digest(f"case{n} inverted#{rep}", show(inv))
    print(f"case{n} inverted head {show(dict(list(inv.items())[:4]))}")
    print(f"case{n} max-roundtrip-error {show(max(abs(inv[k] - emp[k]) for k in inv))} keys-subset {set(inv) <= set(emp)}")
    C = JointExcessJointDegree({ToolsNames.NETWORK: G, ToolsNames.EDGE_NAMES: names})
    ejks = C.get_ejks()
    digest(f"case{n} ejks", show(ejks))
    for name in names + ["nope"]:
        call(f"case{n} index[{name}]", ejks.get_topology_index, name)
    for rep in range(2):
        q_from_ejk = JointExcessFromEjk.get_excess_joint_distributions(ejks)
        digest(f"case{n} qk-from-ejk#{rep}", show(q_from_ejk))
    print(f"case{n} qk-from-ejk head {show({t: dict(list(q.items())[:3]) for t, q in q_from_ejk.items()})}")
    for t, q_jdd in zip(names, qks_list):
        q = q_from_ejk[t]
        print(
            f"case{n} {t} same-support {set(q) == set(q_jdd)} max-diff "
            f"{show(max(abs(q[k] - q_jdd[k]) for k in q if k in q_jdd))}"
        )
    # recompute the keys from the matrices themselves (mutates the object)
    ejks.get_excess_degree_keys()
    digest(f"case{n} keys-recomputed", show(ejks))
    digest(f"case{n} qk-from-ejk-recomputed", show(JointExcessFromEjk.get_excess_joint_distributions(ejks)))
    rebuilt = JointExcessJointDegreeMatrices({ToolsNames.EJKS: ejks.ejks, ToolsNames.EDGE_NAMES: names})
    digest(f"case{n} rebuilt", show(rebuilt))
    digest(f"case{n} qk-from-rebuilt", show(JointExcessFromEjk.get_excess_joint_distributions(rebuilt)))
    print(f"case{n} rng={rng_state()}")

print("rng after", rng_state())
print("random tail", repr(random.random()), repr(np.random.random()))
