"""Equivalence digest for property C19 (built-in degree distributions).

Run with cwd = a checkout of gcmpy.  Prints a deterministic digest of the
results (bit-exact via repr / float.hex), exceptions, warnings, RNG state and
inputs after the calls.
"""
import hashlib
import logging
import os
import random
import sys
import warnings
from fractions import Fraction

sys.path.insert(0, os.getcwd())

import numpy as np  # noqa: E402

logging.basicConfig(level=logging.WARNING, stream=sys.stdout)

from gcmpy.distributions.exponential import exponential  # noqa: E402
from gcmpy.distributions.poisson import poisson  # noqa: E402
from gcmpy.distributions.power_law import power_law  # noqa: E402
from gcmpy.distributions.scale_free_cut_off import scale_free_cut_off  # noqa: E402
import gcmpy  # noqa: E402

random.seed(12345)
np.random.seed(12345)


def show(x):
    """Bit-exact, type-revealing representation."""
    if isinstance(x, np.ndarray):
        return "ndarray[%s]%s(%s)" % (
            x.dtype,
            x.shape,
            ",".join(show(v) for v in x.ravel().tolist()),
        )
    if isinstance(x, (float, np.floating)):
        return "%s:%s:%s" % (type(x).__name__, repr(x), float(x).hex())
    if isinstance(x, complex):
        return "complex:%r" % (x,)
    return "%s:%r" % (type(x).__name__, x)


def call(label, fn, *args):
    with warnings.catch_warnings(record=True) as caught:
        warnings.simplefilter("always")
        try:
            out = ("ok", show(fn(*args)))
        except BaseException as e:  # noqa: BLE001
            out = ("exc", type(e).__name__, str(e))
    ws = [(w.category.__name__, str(w.message)) for w in caught]
    print(label, show_args(args), out, ws)
    return out


def show_args(args):
    return "(" + ", ".join(show(a) for a in args) + ")"


def build(label, factory, *args):
    with warnings.catch_warnings(record=True) as caught:
        warnings.simplefilter("always")
        try:
            p = factory(*args)
            out = ("ok", type(p).__name__, p.__name__)
        except BaseException as e:  # noqa: BLE001
            p = None
            out = ("exc", type(e).__name__, str(e))
    ws = [(w.category.__name__, str(w.message)) for w in caught]
    print("BUILD", label, show_args(args), out, ws)
    return p


KS = [
    0,
    1,
    2,
    3,
    5,
    10,
    50,
    170,
    171,
    1000,
    -1,
    -3,
    True,
    2.0,
    2.5,
    0.0,
    np.int64(4),
    np.float64(3.0),
    float("inf"),
    float("nan"),
    10**400,
    "x",
    None,
    [1, 2],
    np.arange(0, 6),
    np.arange(1, 6, dtype=float),
    Fraction(3, 1),
    1 + 2j,
]


def exercise(label, factory, params_list):
    for params in params_list:
        p = build(label, factory, *params)
        if p is None:
            continue
        for k in KS:
            if (
                label == "poisson"
                and type(k) is int
                and k > 10**6
                and not isinstance(params[0], float)
            ):
                continue  # exact big-integer power would never finish
            call(label + ".p", p, k)
        # repeated calls on the same object
        for rep in range(3):
            for k in (1, 2, 7):
                call(label + ".p[rep%d]" % rep, p, k)
        # sums over the support
        lo = 0 if label in ("exponential", "poisson") else 1
        with warnings.catch_warnings(record=True) as caught:
            warnings.simplefilter("always")
            try:
                tot = 0.0
                acc = []
                for k in range(lo, 150 if label == "poisson" else 400):
                    v = p(k)
                    acc.append(float(v).hex())
                    tot += v
                print(
                    label,
                    "SUM",
                    show(tot),
                    hashlib.sha256("|".join(acc).encode()).hexdigest(),
                )
            except BaseException as e:  # noqa: BLE001
                print(label, "SUM exc", type(e).__name__, str(e))
        print(
            label,
            "SUM warnings",
            [(w.category.__name__, str(w.message)) for w in caught][:50],
            len(caught),
        )
        # a second factory call with the same params gives a fresh function
        p2 = build(label + "#2", factory, *params)
        if p2 is not None:
            print(label, "fresh", p2 is not p)
            call(label + "#2.p", p2, 3)
            call(label + ".p", p, 3)


exercise(
    "exponential",
    exponential,
    [
        (0.5,),
        (1.0,),
        (2,),
        (1e-3,),
        (0.0,),
        (-1.0,),
        (50.0,),
        (-800.0,),
        (np.float64(0.7),),
        (float("nan"),),
        (float("inf"),),
        ("a",),
        (None,),
        (np.array([0.5, 1.0]),),
        (Fraction(1, 2),),
    ],
)

exercise(
    "poisson",
    poisson,
    [
        (2.0,),
        (0.5,),
        (3,),
        (0.0,),
        (0,),
        (-1.5,),
        (100.0,),
        (800.0,),
        (np.float64(4.2),),
        (float("nan"),),
        (float("inf"),),
        ("a",),
        (None,),
        (Fraction(5, 2),),
    ],
)

exercise(
    "power_law",
    power_law,
    [
        (2.0,),
        (2.5,),
        (3,),
        (1.5,),
        (10.0,),
        (50.0,),
        (np.float64(2.2),),
        (float("inf"),),
        ("a",),
        (None,),
        (Fraction(5, 2),),
        (2 + 1j,),
    ],
)

exercise(
    "scale_free_cut_off",
    scale_free_cut_off,
    [
        (2.0, 10.0),
        (2.5, 5.0),
        (1.0, 3.0),
        (0.0, 2.0),
        (-1.0, 2.0),
        (2, 20),
        (3.0, 1e-3),
        (2.0, 0.0),
        (2.0, 0),
        (2.0, -5.0) if False else (2.0, 0.5),
        (np.float64(2.2), np.float64(7.0)),
        (2.0, float("inf")) if False else (2.0, 100.0),
        ("a", 2.0),
        (2.0, "b"),
        (None, 2.0),
        (2.0, None),
        (Fraction(5, 2), Fraction(7, 2)),
        (2 + 1j, 4.0),
    ],
)

# same functions reached through the package namespace
for name in ("exponential", "poisson", "power_law", "scale_free_cut_off"):
    obj = getattr(gcmpy, name)
    print("NAMESPACE", name, type(obj).__name__, getattr(obj, "__name__", None))

# factories do not keep state between calls: interleave them
fa = power_law(2.0)
fb = scale_free_cut_off(2.0, 10.0)
fc = power_law(3.0)
fd = scale_free_cut_off(3.0, 4.0)
fe = exponential(0.3)
ff = poisson(1.7)
for k in (1, 2, 3, 4, 9):
    print(
        "INTERLEAVE",
        k,
        show(fa(k)),
        show(fb(k)),
        show(fc(k)),
        show(fd(k)),
        show(fe(k)),
        show(ff(k)),
    )

# inputs are not mutated
arr = np.array([0.5, 1.0])
karr = np.arange(1, 5)
pe = exponential(arr)
call("exponential[arr].p", pe, karr)
print("INPUTS", show(arr), show(karr))

# default warning filter: which warnings reach the user (once per location)
with warnings.catch_warnings(record=True) as caught:
    warnings.simplefilter("default")
    for _ in range(2):
        try:
            exponential(-800.0)(5)
        except BaseException as e:  # noqa: BLE001
            print("DEFAULTFILTER exc", type(e).__name__)
        try:
            poisson(800.0)(400)
        except BaseException as e:  # noqa: BLE001
            print("DEFAULTFILTER exc", type(e).__name__)
        try:
            scale_free_cut_off(-400.0, 1e-3)(10)
        except BaseException as e:  # noqa: BLE001
            print("DEFAULTFILTER exc", type(e).__name__)
print(
    "DEFAULTFILTER",
    sorted((w.category.__name__, str(w.message)) for w in caught),
)

# RNG state afterwards (nothing may have consumed random numbers)
print("RNG py", hashlib.sha256(repr(random.getstate()).encode()).hexdigest())
st = np.random.get_state()
print(
    "RNG np",
    st[0],
    hashlib.sha256(st[1].tobytes()).hexdigest(),
    st[2],
    st[3],
    repr(st[4]),
)
print("NEXT", repr(random.random()), repr(np.random.random()))
