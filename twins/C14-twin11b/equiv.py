import sys, os; sys.path.insert(0, os.getcwd())
import hashlib
import random
import traceback

import numpy as np

from gcmpy.names.tools_names import ToolsNames
from gcmpy.names.network_names import NetworkNames
from gcmpy.names.joint_degree_names import JointDegreeNames
from gcmpy.names.gcm_algorithm_names import GCMAlgorithmNames
from gcmpy.network.edge_list import LightWeightEdgeList
from gcmpy.network.network import Network
from gcmpy.network.edge_list_to_network import EdgeListToNetwork
from gcmpy.network.network_to_edge_list import NetworkToEdgeList
from gcmpy.tools.joint_degree_distribution_from_network import (
    JointDegreeDistributionFromNetwork,
)
from gcmpy.tools.joint_excess_joint_degree import JointExcessJointDegree
from gcmpy.tools.joint_excess_from_ejk import JointExcessFromEjk
from gcmpy.tools.joint_excess_from_jdd import JointExcessfromJDD
from gcmpy.joint_degree.joint_degree_loaders.joint_degree_manual import (
    JointDegreeManual,
)
from gcmpy.gcm_algorithm.gcm_algorithm_network import GCMAlgorithmNetwork
from gcmpy.motif_generators.clique_motif import clique_motif

random.seed(1403)
np.random.seed(1403)

LINES = []


def out(*parts):
    LINES.append(" ".join(str(p) for p in parts))


def exc_chain(e):
    names = []
    seen = 0
    while e is not None and seen < 6:
        names.append(type(e).__name__ + ":" + str(e)[:90])
        e = e.__cause__ or e.__context__
        seen += 1
    return names


def graph_repr(G):
    nodes = [(n, [(k, v, type(v).__name__) for k, v in d.items()]) for n, d in G.nodes(data=True)]
    edges = [(u, v, list(d.items())) for u, v, d in G.edges(data=True)]
    return "nodes=%r edges=%r" % (nodes, edges)


def make(edge_list, topologies, joint_degrees, motif_id, cls=LightWeightEdgeList):
    el = cls()
    el.edge_list = edge_list
    el.topologies = topologies
    el.joint_degrees = joint_degrees
    el.motif_id = motif_id
    return el


def attempt(label, el):
    try:
        net = EdgeListToNetwork.convert(el)
    except BaseException as e:  # noqa
        tb = traceback.extract_tb(e.__traceback__)
        out(label, "EXC", exc_chain(e), "frames", [f.name for f in tb][:3])
        return None
    out(label, "OK", type(net).__name__, graph_repr(net.G))
    # identity of the stored joint degrees: the very objects handed in
    try:
        src = list(el.joint_degrees)
        same = [net.G.nodes[n].get(NetworkNames.JOINT_DEGREE) is src[n]
                for n in range(min(len(src), net.G.order()))
                if NetworkNames.JOINT_DEGREE in net.G.nodes[n]]
        out(label, "identity", all(same), len(same))
    except BaseException as e:  # noqa
        out(label, "identity EXC", type(e).__name__)
    try:
        out(label, "jdd", JointDegreeDistributionFromNetwork.get_joint_degree_distribution(net.G))
    except BaseException as e:  # noqa
        out(label, "jdd EXC", exc_chain(e))
    return net


class LoggingEdgeList(LightWeightEdgeList):
    """counts every read of the four public properties"""

    def __init__(self):
        super().__init__()
        self.log = []

    @property
    def joint_degrees(self):
        self.log.append("joint_degrees")
        return self._joint_degrees

    @joint_degrees.setter
    def joint_degrees(self, value):
        self._joint_degrees = value

    @property
    def edge_list(self):
        self.log.append("edge_list")
        return self._edge_list

    @edge_list.setter
    def edge_list(self, value):
        self._edge_list = value

    @property
    def topologies(self):
        self.log.append("topologies")
        return self._topologies

    @topologies.setter
    def topologies(self, value):
        self._topologies = value

    @property
    def motif_id(self):
        self.log.append("motif_id")
        return self._motif_id

    @motif_id.setter
    def motif_id(self, value):
        self._motif_id = value


class LoggingSeq:
    """a sequence that records the protocol calls made on it"""

    def __init__(self, items, fail_at=None):
        self.items = list(items)
        self.fail_at = fail_at
        self.log = []

    def __len__(self):
        self.log.append("len")
        return len(self.items)

    def __iter__(self):
        self.log.append("iter")
        for i, x in enumerate(self.items):
            if self.fail_at is not None and i == self.fail_at:
                self.log.append("boom@%d" % i)
                raise RuntimeError("boom at %d" % i)
            self.log.append("yield%d" % i)
            yield x

    def __getitem__(self, i):
        self.log.append("getitem%r" % (i,))
        return self.items[i]


E3 = [(0, 1), (1, 2), (0, 2)]
T3 = ["tri", "tri", "tri"]
M3 = [0, 0, 0]

# ---- 1. plain inputs --------------------------------------------------------
attempt("empty", LightWeightEdgeList())
attempt("triangle", make(E3, T3, [(0, 2), (0, 2), (0, 2)], M3))
attempt("jd-as-lists", make(E3, T3, [[0, 2], [0, 2], [0, 2]], M3))
attempt("jd-as-tuple-container", make(E3, T3, ((0, 2), (0, 2), (0, 2)), M3))
attempt("jd-mixed-objects", make(E3, T3, [(0, 2), None, "ab"], M3))
attempt("jd-numpy", make(E3, T3, np.array([[0, 2], [0, 2], [0, 2]]), M3))
attempt("jd-shorter-than-nodes", make(E3 + [(2, 5)], T3 + ["e"], [(0, 2)], M3 + [1]))
attempt("jd-longer-than-nodes", make([(0, 1)], ["e"], [(1,), (1,), (0,), (0,)], [0]))
attempt("isolated-only", make([], [], [(0, 0)] * 4, []))
attempt("jd-dict", make(E3, T3, {5: "a", 6: "b", 7: "c"}, M3))
attempt("jd-string", make(E3, T3, "xyz", M3))
attempt("jd-range", make(E3, T3, range(3), M3))
attempt("jd-set-of-ints", make(E3, T3, {10, 11, 12}, M3))
attempt("jd-None", make(E3, T3, None, M3))
attempt("jd-int", make(E3, T3, 3, M3))
attempt("jd-generator", make(E3, T3, (x for x in [(0, 2)] * 3), M3))
attempt("jd-iterator", make(E3, T3, iter([(0, 2)] * 3), M3))
attempt("short-topologies", make(E3, ["tri"], [(0, 2)] * 3, M3))
attempt("short-motif-ids", make(E3, T3, [(0, 2)] * 3, [7]))
attempt("bad-edge", make([(0, 1, 2, 3, 4)], ["e"], [(1,), (1,)], [0]))
attempt("edges-None", make(None, T3, [(0, 2)] * 3, M3))
attempt("unhashable-edge", make([([0], 1)], ["e"], [(1,), (1,)], [0]))
attempt("self-loop", make([(0, 0), (0, 1)], ["e", "e"], [(3,), (1,)], [0, 1]))
attempt("duplicate-edge", make([(0, 1), (1, 0), (0, 1)], ["a", "b", "c"], [(1, 1, 1), (1, 1, 1)], [0, 1, 2]))
attempt("not-an-edgelist", object())
attempt("network-instead", Network())

# ---- 2. how often / in which order the container is read -------------------
el = make(E3, T3, [(0, 2)] * 3, M3, cls=LoggingEdgeList)
attempt("logging-edgelist", el)
out("logging-edgelist log", el.log)

seq = LoggingSeq([(0, 2), (0, 2), (0, 2)])
attempt("logging-seq", make(E3, T3, seq, M3))
out("logging-seq log", seq.log)

seq = LoggingSeq([(0, 2), (0, 2), (0, 2)], fail_at=1)
attempt("failing-seq", make(E3, T3, seq, M3))
out("failing-seq log", seq.log)

seq = LoggingSeq([], fail_at=None)
attempt("empty-logging-seq", make([], [], seq, []))
out("empty-logging-seq log", seq.log)

# ---- 3. repeated conversion of one object; mutation of the argument ---------
src_jd = [(1, 0), (1, 2), (0, 2), (0, 2)]
el = make([(0, 1), (1, 2), (2, 3), (1, 3)], ["e", "tri", "tri", "tri"], src_jd, [0, 1, 1, 1])
before = (list(el.edge_list), list(el.topologies), list(el.joint_degrees), list(el.motif_id))
n1 = attempt("repeat-1", el)
n2 = attempt("repeat-2", el)
after = (list(el.edge_list), list(el.topologies), list(el.joint_degrees), list(el.motif_id))
out("argument untouched", before == after, el.joint_degrees is src_jd, n1 is not n2, n1.G is not n2.G)
n1.G.nodes[0][NetworkNames.JOINT_DEGREE] = (9, 9)
out("independent node dicts", n2.G.nodes[0][NetworkNames.JOINT_DEGREE], src_jd[0])

# ---- 4. random edge lists and round trips ----------------------------------
for trial in range(150):
    nv = random.randint(0, 9)
    ne = random.randint(0, 14) if nv > 1 else 0
    edges = []
    for _ in range(ne):
        u, v = random.randrange(nv), random.randrange(nv)
        edges.append((u, v))
    tops = [random.choice(["e", "tri"]) for _ in edges]
    mids = [random.randrange(5) for _ in edges]
    if trial % 11 == 0 and tops:
        tops = tops[:-1]
    jds = [(random.randint(0, 3), random.randint(0, 3)) for _ in range(nv)]
    if trial % 13 == 0 and jds:
        jds = jds[:-1]
    net = attempt("rand%d" % trial, make(edges, tops, jds, mids))
    if net is None:
        continue
    try:
        back = NetworkToEdgeList.convert(net)
        out("rand%d back" % trial, back.edge_list, back.topologies, back.joint_degrees, back.motif_id)
        net2 = EdgeListToNetwork.convert(back)
        out("rand%d again" % trial, graph_repr(net2.G))
    except BaseException as e:  # noqa
        out("rand%d back EXC" % trial, exc_chain(e))
    try:
        C = JointExcessJointDegree({ToolsNames.NETWORK: net.G, ToolsNames.EDGE_NAMES: ["e", "tri"]})
        m = C.get_ejks()
        out("rand%d ejks" % trial, m.ejks, {k: sorted(v) for k, v in m.excess_degree_keys.items()})
        out("rand%d qks" % trial, JointExcessFromEjk.get_excess_joint_distributions(m))
    except BaseException as e:  # noqa
        out("rand%d ejks EXC" % trial, exc_chain(e))

# ---- 5. a generated network, through both converters, into the C14 tools ----
params = {JointDegreeNames.JDD: {(1, 0): 0.2, (2, 1): 0.5, (3, 0): 0.1, (5, 1): 0.2},
          JointDegreeNames.MOTIF_SIZES: [2, 3]}
jds = JointDegreeManual(params).sample_jds_from_jdd(400)
gp = {GCMAlgorithmNames.MOTIF_SIZES: [2, 3],
      GCMAlgorithmNames.EDGE_NAMES: ["2-clique", "3-clique"],
      GCMAlgorithmNames.BUILD_FUNCTIONS: [clique_motif, clique_motif]}
g = GCMAlgorithmNetwork(gp).random_clustered_graph(jds)
el = NetworkToEdgeList.convert(g)
g2 = EdgeListToNetwork.convert(el)
out("generated same graph", graph_repr(g.G) == graph_repr(g2.G))
out("generated digest", hashlib.sha256(graph_repr(g2.G).encode()).hexdigest())
jdd = JointDegreeDistributionFromNetwork.get_joint_degree_distribution(g2.G)
out("generated jdd", jdd)
out("generated qks from jdd", JointExcessfromJDD.get_joint_excess_distributions(jdd))
C = JointExcessJointDegree({ToolsNames.NETWORK: g2.G, ToolsNames.EDGE_NAMES: ["2-clique", "3-clique"]})
m = C.get_ejks()
out("generated qks from ejk", JointExcessFromEjk.get_excess_joint_distributions(m))

# ---- digest ----------------------------------------------------------------
out("random.getstate", hashlib.sha256(repr(random.getstate()).encode()).hexdigest())
st = np.random.get_state()
out("numpy state", hashlib.sha256(repr((st[0], st[1].tolist(), st[2], st[3], st[4])).encode()).hexdigest())
body = "\n".join(LINES)
print(body)
print("DIGEST", hashlib.sha256(body.encode()).hexdigest())
