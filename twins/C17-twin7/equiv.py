import sys, os; sys.path.insert(0, os.getcwd())
if os.environ.get("PYTHONHASHSEED") != "0":
    # string-keyed sets are iterated below: pin the str hash so runs are comparable
    os.environ["PYTHONHASHSEED"] = "0"
    os.execv(sys.executable, [sys.executable] + sys.argv)
import hashlib
import itertools
import random
import re
import warnings
from fractions import Fraction

warnings.simplefilter("ignore")

import numpy as np
import networkx as nx

from gcmpy.message_passing.message_passing import MessagePassing
from gcmpy.message_passing.message_passing_mixin import MessagePassingMixin
from gcmpy.message_passing.equations.automated_equation import AutomatedEquation
import gcmpy
import gcmpy.message_passing as mp_pkg
import gcmpy.message_passing.equations as eq_pkg

random.seed(20261004)
np.random.seed(20261004)

LINES = []


def out(*parts):
    line = re.sub(r"0x[0-9a-fA-F]+", "0xADDR", " ".join(str(p) for p in parts))
    LINES.append(line)
    print(line)


def dig(x, depth=0):
    """Deterministic, name-free digest of a value (iteration orders preserved)."""
    if depth > 8:
        return "<deep>"
    if isinstance(x, (bool, int, float, str, type(None), Fraction, complex)):
        return f"{type(x).__name__}:{x!r}"
    if isinstance(x, (np.floating, np.integer)):
        return f"{type(x).__name__}:{x!r}"
    if isinstance(x, nx.Graph):
        return "G(" + repr(x.name) + "|" + dig(list(x.nodes(data=True)), depth + 1) + "|" + dig(list(x.edges(data=True)), depth + 1) + ")"
    if isinstance(x, dict):
        return "{" + ", ".join(dig(k, depth + 1) + "=>" + dig(v, depth + 1) for k, v in x.items()) + "}"
    if isinstance(x, (list, tuple, set, frozenset)):
        return type(x).__name__ + "[" + ", ".join(dig(v, depth + 1) for v in x) + "]"
    if hasattr(x, "__dict__"):
        return type(x).__name__ + "<" + "; ".join(dig(v, depth + 1) for v in vars(x).values()) + ">"
    return f"{type(x).__name__}:{x!r}"


def attempt(tag, fn, *args, **kwargs):
    try:
        res = fn(*args, **kwargs)
    except BaseException as exc:  # noqa
        out(tag, "RAISED", type(exc).__module__ + "." + type(exc).__name__, repr(str(exc)))
        return None
    out(tag, "->", dig(res))
    return res


def rng_state(tag):
    h = hashlib.sha256(repr(random.getstate()).encode()).hexdigest()
    st = np.random.get_state()
    h2 = hashlib.sha256(repr((st[0], st[1].tolist(), st[2], st[3], st[4])).encode()).hexdigest()
    out(tag, "rng", h, h2)


# --------------------------------------------------------------------------
# graph builders
# --------------------------------------------------------------------------
def covered_graph(motifs, extra_nodes=(), node_order=None):
    """motifs: list of (key, vertices, edges). Labels the edges with the cover."""
    G = nx.Graph()
    if node_order is not None:
        G.add_nodes_from(node_order)
    for uid, (key, vertices, edges) in enumerate(motifs):
        label = f"{key}-{list(vertices)}-{list(edges)}-{uid}"
        for a, b in edges:
            G.add_edge(a, b, CoverLabel=label)
    G.add_nodes_from(extra_nodes)
    return G


def clique_motif(vs):
    vs = list(vs)
    return (len(vs), vs, list(itertools.combinations(vs, 2)))


def cycle_motif(vs):
    vs = list(vs)
    return (f"c{len(vs)}", vs, [(vs[i], vs[(i + 1) % len(vs)]) for i in range(len(vs))])


def diamond_motif(a, b, c, d):
    return ("d4", [a, b, c, d], [(a, b), (b, c), (c, d), (d, a), (a, c)])


def random_cover(n, n_triangles, n_edges, n_squares=0):
    used = set()
    motifs = []

    def free(edges):
        return all((min(e), max(e)) not in used for e in edges)

    def take(edges):
        for e in edges:
            used.add((min(e), max(e)))

    tries = 0
    while sum(1 for m in motifs if m[0] == 3) < n_triangles and tries < 1000:
        tries += 1
        vs = random.sample(range(n), 3)
        m = clique_motif(vs)
        if free(m[2]):
            take(m[2])
            motifs.append(m)
    tries = 0
    nsq = 0
    while nsq < n_squares and tries < 1000:
        tries += 1
        vs = [int(v) for v in np.random.choice(n, 4, replace=False)]
        m = cycle_motif(vs)
        if free(m[2]):
            take(m[2])
            motifs.append(m)
            nsq += 1
    tries = 0
    ne = 0
    while ne < n_edges and tries < 1000:
        tries += 1
        vs = random.sample(range(n), 2)
        m = clique_motif(vs)
        if free(m[2]):
            take(m[2])
            motifs.append(m)
            ne += 1
    random.shuffle(motifs)
    return motifs


GRAPHS = {}
GRAPHS["single_edge"] = lambda: covered_graph([clique_motif([0, 1])])
GRAPHS["path3"] = lambda: covered_graph([clique_motif([0, 1]), clique_motif([1, 2]), clique_motif([2, 3])])
GRAPHS["star"] = lambda: covered_graph([clique_motif([0, k]) for k in range(1, 6)])
GRAPHS["triangle"] = lambda: covered_graph([clique_motif([0, 1, 2])])
GRAPHS["triangle_pendants"] = lambda: covered_graph(
    [clique_motif([2, 0, 1]), clique_motif([0, 3]), clique_motif([1, 4]), clique_motif([4, 5])], extra_nodes=[9]
)
GRAPHS["bowtie_cycle_diamond"] = lambda: covered_graph(
    [
        clique_motif([0, 1, 2]),
        clique_motif([2, 3, 4]),
        cycle_motif([4, 5, 6, 7]),
        diamond_motif(7, 8, 9, 10),
        clique_motif([10, 0]),
        clique_motif([11, 12, 13, 14]),
        clique_motif([14, 5]),
    ],
    node_order=[14, 3, 7, 0],
)
GRAPHS["k4_pair"] = lambda: covered_graph([clique_motif([0, 1, 2, 3]), clique_motif([3, 4, 5, 6]), clique_motif([6, 0])])
GRAPHS["isolated_only"] = lambda: covered_graph([], extra_nodes=[0, 1, 2])
GRAPHS["random_a"] = lambda: covered_graph(random_cover(14, 5, 8, 1))
GRAPHS["random_b"] = lambda: covered_graph(random_cover(20, 6, 14, 2), extra_nodes=[99])
GRAPHS["random_tree_like"] = lambda: covered_graph(random_cover(25, 0, 22))

PHIS = [0.0, 0.3, 0.5645231765, 1.0, 0.75, 0.1, 0.5645231765, 0.0, 1.0]

out("== exports")
out(gcmpy.MessagePassing is MessagePassing, gcmpy.MessagePassingMixin is MessagePassingMixin)
out(mp_pkg.MessagePassing is MessagePassing, mp_pkg.MessagePassingMixin is MessagePassingMixin)
out(eq_pkg.AutomatedEquation is AutomatedEquation)
out(sorted(n for n in vars(MessagePassing) if not n.startswith("_")))
out(sorted(n for n in vars(MessagePassingMixin) if not n.startswith("_")))
out(sorted(n for n in vars(AutomatedEquation) if not n.startswith("_")))

out("== MessagePassing.theoretical")
for name, build in GRAPHS.items():
    G = build()
    before = dig(G)
    out("graph", name, hashlib.sha256(before.encode()).hexdigest()[:16], G.order(), G.size())
    for iterations in (0, 1, 3, 25):
        m = MessagePassing(G, iterations=iterations)
        out(name, iterations, "init-state", hashlib.sha256(dig(m).encode()).hexdigest()[:16])
        values = []
        for phi in PHIS:
            values.append(attempt(f"{name} it={iterations} phi={phi!r}", m.theoretical, phi))
        # fresh objects give the same answers
        fresh = []
        for phi in PHIS:
            try:
                fresh.append(MessagePassing(G, iterations=iterations).theoretical(phi))
            except BaseException as exc:  # noqa
                fresh.append(None)
        out(name, iterations, "fresh-same", [repr(a) for a in values] == [repr(b) for b in fresh])
        out(name, iterations, "state", hashlib.sha256(dig(m).encode()).hexdigest())
    out(name, "graph-unchanged", dig(G) == before)
    rng_state(name)

out("== full state dump on a small graph")
G = GRAPHS["triangle_pendants"]()
m = MessagePassing(G, "custom cover", 4)
out(dig(m))
attempt("tp theoretical 0.4", m.theoretical, 0.4)
out(dig(m))
attempt("tp theoretical 0.9", m.theoretical, 0.9)
out(dig(m))
attempt("tp theoretical kw", m.theoretical, phi=0.4)
out(dig(m))

out("== calculate_H_tau / resolve_equation directly")
G = GRAPHS["bowtie_cycle_diamond"]()
m = MessagePassing(G)
lab = G.edges[0, 1]["CoverLabel"]
lab2 = G.edges[4, 5]["CoverLabel"]
lab3 = G.edges[7, 8]["CoverLabel"]
attempt("H_tau before theoretical", m.calculate_H_tau, 0, lab)
attempt("resolve before theoretical", m.resolve_equation, 0, lab, {1: 0.5, 2: 0.25})
out(hashlib.sha256(dig(m).encode()).hexdigest())
attempt("theoretical", m.theoretical, 0.37)
for focal, l in [(0, lab), (1, lab), (2, lab), (4, lab2), (5, lab2), (7, lab3), (9, lab3), (7, lab2)]:
    attempt(f"H_tau {focal}", m.calculate_H_tau, focal, l)
    attempt(f"H_tau kw {focal}", m.calculate_H_tau, focal=focal, label=l)
out(hashlib.sha256(dig(m).encode()).hexdigest())
prods = {1: 0.5, 2: 0.25}
attempt("resolve", m.resolve_equation, 0, lab, prods)
attempt("resolve kw", m.resolve_equation, focal=0, label=lab, prods=prods)
attempt("resolve ints", m.resolve_equation, 1, lab, {0: 1, 2: 1})
attempt("resolve missing u", m.resolve_equation, 1, lab, {0: 0.5})
attempt("resolve extra u", m.resolve_equation, 1, lab, {0: 0.5, 2: 0.1, 77: 0.3})
attempt("resolve focal not in motif", m.resolve_equation, 12, lab, {0: 0.5, 1: 0.5, 2: 0.1})
attempt("resolve diamond", m.resolve_equation, 9, lab3, {7: 0.3, 8: 0.6, 10: 0.9})
attempt("resolve cycle", m.resolve_equation, 6, lab2, {4: 0.3, 5: 0.6, 7: 0.9})
out("prods", dig(prods))
attempt("H_tau focal not in motif", m.calculate_H_tau, 12, lab)
attempt("H_tau bad label", m.calculate_H_tau, 0, "nonsense")
attempt("H_tau non-str label", m.calculate_H_tau, 0, 17)
out(hashlib.sha256(dig(m).encode()).hexdigest())
attempt("theoretical again", m.theoretical, 0.37)
out(hashlib.sha256(dig(m).encode()).hexdigest())

out("== error paths")
attempt("empty graph", MessagePassing(nx.Graph()).theoretical, 0.5)
attempt("no labels", MessagePassing(nx.path_graph(3)).theoretical, 0.5)
Gb = nx.Graph()
Gb.add_edge(0, 1, CoverLabel="2-[0, 1]-[(0, 1)]-x")
attempt("bad uid", MessagePassing(Gb).theoretical, 0.5)
Gb = nx.Graph()
Gb.add_edge(0, 1, CoverLabel="2-[0, 1-[(0, 1)]-0")
attempt("bad vertices", MessagePassing(Gb).theoretical, 0.5)
Gb = nx.Graph()
Gb.add_edge(0, 1, CoverLabel="2-[0, 1]-[(0, 1]-0")
attempt("bad edges", MessagePassing(Gb).theoretical, 0.5)
Gb = nx.Graph()
Gb.add_edge(0, 1, CoverLabel=None)
attempt("None label", MessagePassing(Gb).theoretical, 0.5)
Gb = nx.Graph()
Gb.add_edge(0, 1, CoverLabel="5")
attempt("short label", MessagePassing(Gb).theoretical, 0.5)
Gb = covered_graph([clique_motif([0, 1, 2])])
Gb.add_edge(2, 3)  # an unlabelled edge
mb = MessagePassing(Gb)
attempt("partially labelled", mb.theoretical, 0.5)
out(hashlib.sha256(dig(mb).encode()).hexdigest())
# cover whose vertex list misses a vertex / inconsistent labels
Gb = nx.Graph()
Gb.add_edge(0, 1, CoverLabel="2-[0, 1]-[(0, 1)]-0")
Gb.add_edge(1, 2, CoverLabel="2-[1]-[(1, 2)]-1")
mb = MessagePassing(Gb, iterations=2)
attempt("inconsistent cover", mb.theoretical, 0.5)
out(hashlib.sha256(dig(mb).encode()).hexdigest())
attempt("phi None", MessagePassing(GRAPHS["triangle"]()).theoretical, None)
attempt("phi str", MessagePassing(GRAPHS["triangle"]()).theoretical, "0.5")
attempt("phi 1.5", MessagePassing(GRAPHS["triangle_pendants"]()).theoretical, 1.5)
attempt("phi -0.5", MessagePassing(GRAPHS["triangle_pendants"]()).theoretical, -0.5)
attempt("phi int 1", MessagePassing(GRAPHS["triangle_pendants"]()).theoretical, 1)
attempt("phi int 0", MessagePassing(GRAPHS["triangle_pendants"]()).theoretical, 0)
attempt("phi Fraction", MessagePassing(GRAPHS["triangle_pendants"](), iterations=2).theoretical, Fraction(1, 3))
attempt("phi np", MessagePassing(GRAPHS["triangle_pendants"](), iterations=2).theoretical, np.float64(0.3))
attempt("iterations None", MessagePassing(GRAPHS["triangle"](), iterations=None).theoretical, 0.5)
attempt("iterations float", MessagePassing(GRAPHS["triangle"](), iterations=2.0).theoretical, 0.5)
attempt("G None", lambda: MessagePassing(None).theoretical(0.5))
attempt("digraph", MessagePassing(nx.DiGraph(GRAPHS["triangle_pendants"]()), iterations=2).theoretical, 0.5)
rng_state("errors")

out("== MessagePassingMixin")
G = GRAPHS["bowtie_cycle_diamond"]()
mx = MessagePassingMixin("motif cover", G)
out(dig(mx) == "MessagePassingMixin<str:'motif cover'; " + dig(G) + ">")
for (a, b) in list(G.edges())[:6] + [(1, 0), (0, 5), (100, 101)]:
    lab = attempt(f"label {a},{b}", mx.get_edge_cover_label, a, b)
    if lab is None:
        continue
    attempt("topology", mx.get_motif_topology, lab)
    attempt("id", mx.get_motif_ID, lab)
    attempt("vertices", mx.get_vertices_in_motif, lab)
    attempt("edges", mx.get_edges_in_motif, lab)
attempt("kw", mx.get_edge_cover_label, i=0, j=1)
for bad in ["", "3", "3-[0]", "x-[0, 1]-[(0, 1)]-y", "3-[0, 1-[(0,1)]-2", "3-__import__('os')-[]-1", None, 12, b"3-[0]-[]-1", "3-[0]-[(0, 1)]-1-2", " 7 -[1,2]- [(1,2)] - 8 "]:
    attempt(f"topology {bad!r}", mx.get_motif_topology, bad)
    attempt(f"id {bad!r}", mx.get_motif_ID, bad)
    attempt(f"vertices {bad!r}", mx.get_vertices_in_motif, bad)
    attempt(f"edges {bad!r}", mx.get_edges_in_motif, bad)
attempt("topology kw", mx.get_motif_topology, label="3-[0]-[]-4")
attempt("id kw", mx.get_motif_ID, label="3-[0]-[]-4")
attempt("vertices kw", mx.get_vertices_in_motif, label="3-[0]-[]-4")
attempt("edges kw", mx.get_edges_in_motif, label="3-[0]-[]-4")


class SubMixin(MessagePassingMixin):
    def get_motif_ID(self, label):
        return super().get_motif_ID(label) + 1000


attempt("subclass id", SubMixin("x", G).get_motif_ID, "3-[0]-[]-4")
attempt("mixin no graph", MessagePassingMixin("x", None).get_edge_cover_label, 0, 1)
out(dig(mx) == "MessagePassingMixin<str:'motif cover'; " + dig(G) + ">")

out("== AutomatedEquation")
U = 0.651284213
PHI = 0.5645231765


def with_us(G, name, u=U):
    nx.set_node_attributes(G, {n: u for n in G.nodes()}, "u")
    G.name = name
    return G


def diamond():
    G = nx.Graph()
    G.add_edges_from([(0, 1), (1, 2), (2, 3), (3, 0), (0, 2)])
    return G


def varied_us(G, name):
    nx.set_node_attributes(G, {n: 0.1 + 0.8 * ((7 * k) % 11) / 11 for k, n in enumerate(G.nodes())}, "u")
    G.name = name
    return G


ae = AutomatedEquation()
out(dig(ae))
cases = []
for n in (1, 2, 3, 4, 5):
    cases.append((f"{n}-clique", lambda n=n: with_us(nx.complete_graph(n), f"{n}-clique")))
for n in (3, 4, 5, 6):
    cases.append((f"{n}-cycle", lambda n=n: with_us(nx.cycle_graph(n), f"{n}-cycle")))
cases.append(("diamond", lambda: with_us(diamond(), "diamond")))
cases.append(("diamond-varied", lambda: varied_us(diamond(), "diamond-varied")))
cases.append(("path4", lambda: varied_us(nx.path_graph(4), "path4")))
cases.append(("star4", lambda: varied_us(nx.star_graph(4), "star4")))
cases.append(("wheel5-varied", lambda: varied_us(nx.wheel_graph(5), "wheel5")))
cases.append(("k4-int-us", lambda: with_us(nx.complete_graph(4), "k4-int", u=1)))
cases.append(("k3-frac-us", lambda: with_us(nx.complete_graph(3), "k3-frac", u=Fraction(2, 3))))
cases.append(("k3-np-us", lambda: with_us(nx.complete_graph(3), "k3-np", u=np.float64(0.3))))
cases.append(("k3-bool-us", lambda: with_us(nx.complete_graph(3), "k3-bool", u=True)))
cases.append(("selfloop", lambda: with_us(nx.Graph([(0, 1), (1, 1), (1, 2), (2, 0), (0, 0)]), "selfloop")))
cases.append(("disconnected", lambda: with_us(nx.Graph([(0, 1), (2, 3), (3, 4)]), "disconnected")))
cases.append(("str-nodes", lambda: varied_us(nx.Graph([("a", "b"), ("b", "c"), ("c", "a"), ("c", "d")]), "strnodes")))
cases.append(("unnamed", lambda: varied_us(nx.complete_graph(3), "")))
for name, build in cases:
    G = build()
    roots = list(G.nodes())[:3]
    for root in roots:
        for p in (PHI, 0.0, 1.0, 0.25):
            before = dig(G)
            attempt(f"ae {name} root={root!r} p={p!r}", ae.automated_equation, G, p, root)
            if dig(G) != before:
                out("MUTATED", name, dig(G))
    # fresh object, same answers?
    attempt(f"ae-fresh {name}", AutomatedEquation().automated_equation, build(), PHI, roots[0])
    out(name, "state", hashlib.sha256(dig(ae).encode()).hexdigest())
out(dig(ae))

out("-- cache collisions: same name, different graphs, one object")
ae2 = AutomatedEquation()
attempt("k3 as 'm'", ae2.automated_equation, with_us(nx.complete_graph(3), "m"), PHI, 0)
attempt("c4 as 'm'", ae2.automated_equation, with_us(nx.cycle_graph(4), "m"), PHI, 0)
attempt("k4 as 'm'", ae2.automated_equation, with_us(nx.complete_graph(4), "m"), PHI, 0)
attempt("k2 as 'm'", ae2.automated_equation, with_us(nx.complete_graph(2), "m"), PHI, 0)
attempt("k3 as 'm' root 1", ae2.automated_equation, with_us(nx.complete_graph(3), "m"), PHI, 1)
out(dig(ae2))

out("-- error paths")
ae3 = AutomatedEquation()
attempt("root missing", ae3.automated_equation, with_us(nx.complete_graph(3), "e1"), PHI, 7)
attempt("no u", ae3.automated_equation, nx.complete_graph(3), PHI, 0)
Gpart = nx.complete_graph(3)
Gpart.nodes[1]["u"] = 0.5
Gpart.name = "partial"
attempt("partial u", ae3.automated_equation, Gpart, PHI, 0)
attempt("p None", ae3.automated_equation, with_us(nx.complete_graph(3), "e2"), None, 0)
attempt("p str", ae3.automated_equation, with_us(nx.complete_graph(3), "e3"), "a", 0)
attempt("G None", ae3.automated_equation, None, PHI, 0)
attempt("empty", ae3.automated_equation, with_us(nx.Graph(), "e4"), PHI, 0)
attempt("u str", ae3.automated_equation, with_us(nx.complete_graph(3), "e5", u="a"), PHI, 0)
attempt("u None", ae3.automated_equation, with_us(nx.complete_graph(3), "e6", u=None), PHI, 0)
attempt("u huge int", ae3.automated_equation, with_us(nx.complete_graph(3), "e7", u=10 ** 400), PHI, 0)
attempt("u big int", ae3.automated_equation, with_us(nx.complete_graph(3), "e8", u=2 ** 70 + 1), PHI, 0)
attempt("kw", ae3.automated_equation, G=with_us(nx.complete_graph(3), "e9"), p=PHI, root=2)
attempt("digraph", ae3.automated_equation, with_us(nx.DiGraph([(0, 1), (1, 2), (2, 0)]), "e10"), PHI, 0)
attempt("multigraph", ae3.automated_equation, with_us(nx.MultiGraph([(0, 1), (0, 1), (1, 2)]), "e11"), PHI, 0)
out(dig(ae3))

out("-- get_us")
ae4 = AutomatedEquation()
for name, build in cases[:12]:
    G = build()
    for root in list(G.nodes())[:2] + [12345]:
        attempt(f"get_us {name} {root!r}", ae4.get_us, G, root)
attempt("get_us varied", ae4.get_us, varied_us(nx.complete_graph(7), "v7"), 3)
attempt("get_us kw", ae4.get_us, G=varied_us(nx.complete_graph(7), "v7"), root=0)
attempt("get_us empty", ae4.get_us, nx.Graph(), 0)
attempt("get_us no u", ae4.get_us, nx.complete_graph(2), 0)
attempt("get_us only root", ae4.get_us, nx.complete_graph(1), 0)
attempt("get_us class attr", lambda: type(AutomatedEquation().get_us(with_us(nx.complete_graph(3), "z"), 0)).__name__)
mixed = nx.path_graph(6)
nx.set_node_attributes(mixed, {0: 0.3, 1: 2, 2: 0.7, 3: True, 4: Fraction(1, 3), 5: np.float64(0.9)}, "u")
attempt("get_us mixed", ae4.get_us, mixed, 0)
attempt("get_us mixed r5", ae4.get_us, mixed, 5)
nx.set_node_attributes(mixed, {0: 3, 1: 2, 2: 7, 3: 5, 4: 11, 5: 13}, "u")
attempt("get_us ints", ae4.get_us, mixed, 0)
nx.set_node_attributes(mixed, {0: 3, 1: 2 ** 62, 2: 2 ** 63 + 5, 3: 2 ** 64 + 1, 4: 3 ** 41, 5: 2 ** 53 + 1}, "u")
attempt("get_us big ints", ae4.get_us, mixed, 0)
nx.set_node_attributes(mixed, {0: 3, 1: 1e308, 2: 10.0, 3: 0.0, 4: 1.0, 5: 1.0}, "u")
attempt("get_us inf*0", ae4.get_us, mixed, 0)
nx.set_node_attributes(mixed, {0: 3, 1: 1e-308, 2: 1e-10, 3: 1e10, 4: 1e308, 5: 3.3}, "u")
attempt("get_us subnormal", ae4.get_us, mixed, 0)
nx.set_node_attributes(mixed, {0: 3, 1: 0.1, 2: 10 ** 400, 3: 0.5, 4: 0.5, 5: 0.5}, "u")
attempt("get_us overflow int", ae4.get_us, mixed, 0)
nx.set_node_attributes(mixed, {0: 3, 1: 0.1, 2: "a", 3: 0.5, 4: 0.5, 5: 0.5}, "u")
attempt("get_us str", ae4.get_us, mixed, 0)
nx.set_node_attributes(mixed, {0: 3, 1: 2, 2: "a", 3: 0.5, 4: 0.5, 5: 0.5}, "u")
attempt("get_us int*str", ae4.get_us, mixed, 0)
nx.set_node_attributes(mixed, {0: 3, 1: 0.1, 2: 1 + 2j, 3: 0.5, 4: 0.5, 5: 0.5}, "u")
attempt("get_us complex", ae4.get_us, mixed, 0)
arrs = {n: np.array([0.5 + n, 0.25 * (n + 1)]) for n in mixed.nodes()}
nx.set_node_attributes(mixed, arrs, "u")
attempt("get_us arrays", lambda: ae4.get_us(mixed, 0).tolist())
attempt("get_us arrays again", lambda: ae4.get_us(mixed, 3).tolist())
out("arrays untouched", dig({n: a.tolist() for n, a in arrs.items()}))


class Recorder:
    log = []

    def __init__(self, tag):
        self.tag = tag

    def __rmul__(self, other):
        Recorder.log.append(("rmul", self.tag, repr(other)))
        return Recorder(f"({other!r}*{self.tag})")

    def __mul__(self, other):
        Recorder.log.append(("mul", self.tag, getattr(other, "tag", repr(other))))
        return Recorder(f"({self.tag}*{getattr(other, 'tag', repr(other))})")

    def __imul__(self, other):
        Recorder.log.append(("imul", self.tag, getattr(other, "tag", repr(other))))
        self.tag = f"[{self.tag}*={getattr(other, 'tag', repr(other))}]"
        return self


recs = {n: Recorder(f"r{n}") for n in mixed.nodes()}
recs[3] = 0.5
nx.set_node_attributes(mixed, recs, "u")
attempt("get_us recorder", lambda: ae4.get_us(mixed, 1).tag)
out("recorder log", Recorder.log, [getattr(r, "tag", r) for r in recs.values()])
for _ in range(3):
    vals = {n: random.random() for n in mixed.nodes()}
    nx.set_node_attributes(mixed, vals, "u")
    attempt("get_us random", ae4.get_us, mixed, 2)
out(dig(ae4))

out("-- get_connected_subgraphs / get_edge_combinations")
ae5 = AutomatedEquation()
for name, build in cases:
    G = build()
    for root in list(G.nodes())[:2]:
        r1 = attempt(f"subgraphs {name} {root!r}", ae5.get_connected_subgraphs, G, root)
        r2 = attempt(f"subgraphs again {name} {root!r}", ae5.get_connected_subgraphs, G, root)
        out("same object", r1 is r2)
    if name in ("5-clique",):
        continue
    nodes = list(G.nodes())
    for c in (nodes, nodes[:2], [], list(reversed(nodes))):
        r1 = attempt(f"combos {name} {c!r}", ae5.get_edge_combinations, G, c)
        r2 = attempt(f"combos again {name} {c!r}", ae5.get_edge_combinations, G, c)
        out("same object", r1 is r2)
attempt("subgraphs kw", ae5.get_connected_subgraphs, G=with_us(nx.complete_graph(3), "kw"), root=0)
attempt("combos kw", ae5.get_edge_combinations, G=with_us(nx.complete_graph(3), "kw"), c=[0, 1, 2])
attempt("subgraphs missing root", ae5.get_connected_subgraphs, with_us(nx.complete_graph(3), "mr"), 9)
attempt("combos empty graph", ae5.get_edge_combinations, with_us(nx.Graph(), "eg"), [])
attempt("combos None", ae5.get_edge_combinations, None, [])
attempt("subgraphs None", ae5.get_connected_subgraphs, None, 0)
out(hashlib.sha256(dig(ae5).encode()).hexdigest())
# then the equation on an object with pre-populated tables
for name, build in cases[:8]:
    attempt(f"ae after direct {name}", ae5.automated_equation, build(), PHI, 0)
out(hashlib.sha256(dig(ae5).encode()).hexdigest())

out("== monotone / bounds / phi=0 sanity on message passing (values only)")
G = GRAPHS["random_b"]()
m = MessagePassing(G, iterations=10)
vals = [m.theoretical(k / 10) for k in range(11)]
out([repr(v) for v in vals])
vals_rev = [m.theoretical(k / 10) for k in reversed(range(11))]
out([repr(v) for v in reversed(vals_rev)] == [repr(v) for v in vals])
rng_state("end")
out("TOTAL", hashlib.sha256("\n".join(LINES).encode()).hexdigest())
