"""Equivalence digest for the C09 (EECC) optimisation.

Run with cwd = a checkout of gcmpy.  Prints a deterministic transcript of
results (floats via repr), of the RNG state afterwards and of mutated inputs.
"""
import hashlib
import os
import random
import sys

sys.path.insert(0, os.getcwd())

import networkx as nx  # noqa: E402
import numpy as np  # noqa: E402

from gcmpy.covers.eecc import EECC, binom  # noqa: E402
from gcmpy.network.network import Network  # noqa: E402


def rng_digest():
    h = hashlib.sha256()
    h.update(repr(random.getstate()).encode())
    st = np.random.get_state()
    h.update(repr((st[0], st[1].tolist(), st[2], st[3], repr(st[4]))).encode())
    return h.hexdigest()[:24]


def trepr(x):
    """repr that also shows the concrete type of scalars (1 vs 1.0 vs True)."""
    if isinstance(x, (list, tuple)):
        body = ", ".join(trepr(y) for y in x)
        return ("[%s]" if isinstance(x, list) else "(%s)") % body
    return "%s:%s" % (type(x).__name__, repr(x))


def graph_digest(G):
    return "nodes=%s edges=%s" % (
        trepr(list(G.nodes())),
        trepr([tuple(e) for e in G.edges()]),
    )


def call(label, fn, *a, **k):
    try:
        out = fn(*a, **k)
        print(label, "->", trepr(out) if isinstance(out, (list, tuple)) else repr(out))
        return out
    except BaseException as e:  # noqa: BLE001
        print(label, "!! %s: %s" % (type(e).__name__, e))
        return None


def util_edges():
    return [
        (1, 2), (1, 3), (1, 4), (2, 3), (2, 4), (3, 4), (3, 5), (4, 5),
        (4, 6), (5, 6), (5, 7), (6, 7), (6, 8), (7, 8), (7, 9), (8, 9),
        (2, 10), (3, 10), (10, 11), (11, 12), (10, 12), (12, 13),
    ]


def build(edges, m0):
    g = EECC()
    g.set_max_clique_size(m0)
    g.add_edges_from(edges)
    return g


def check_cover(edges, cover, m0):
    """property level sanity (not part of digest except the verdict)."""
    G = nx.Graph()
    G.add_edges_from(edges)
    seen = {}
    ok = True
    for c in cover:
        if not (2 <= len(c) <= m0):
            ok = False
        for i in range(len(c)):
            for j in range(i + 1, len(c)):
                if not G.has_edge(c[i], c[j]):
                    ok = False
                key = frozenset((c[i], c[j]))
                seen[key] = seen.get(key, 0) + 1
    for u, v in G.edges():
        if u != v and seen.get(frozenset((u, v)), 0) != 1:
            ok = False
    return ok


def exercise_graph(tag, edges, m0, seed):
    print("=== %s m0=%d seed=%d" % (tag, m0, seed))
    random.seed(seed)
    np.random.seed(seed)
    g = build(edges, m0)
    print("has_edges", g.has_edges())
    C = call("lmc", g.limited_maximal_cliques)
    C2 = call("lmc(again)", g.limited_maximal_cliques)
    print("lmc stable", C == C2, "graph", graph_digest(g.G))
    if C is not None:
        n = len(C)
        ord_ = [0] * n
        r = [0.0] * n
        EC = []
        idx = []
        call("scores", g.compute_scores, C, EC, ord_, r, idx)
        print(" C", trepr(C))
        print(" EC", trepr(EC))
        print(" ord", trepr(ord_))
        print(" r", trepr(r))
        print(" idx", trepr(idx))
        # again on the same (now mutated) lists, int-initialised r
        r2 = [0] * n
        EC2 = list(EC)
        idx2 = []
        call("scores(again)", g.compute_scores, C, EC2, ord_, r2, idx2)
        print(" r2", trepr(r2), "EC2", trepr(EC2), "idx2", trepr(idx2))
    cover = call("get_EECC", g.get_EECC)
    print("rng", rng_digest())
    print("after graph", graph_digest(g.G), "has_edges", g.has_edges())
    if cover is not None:
        print("cover ok", check_cover(edges, cover, m0))
    # repeated call on the same, now empty, object
    call("get_EECC(again)", g.get_EECC)
    call("lmc(after)", g.limited_maximal_cliques)
    print("rng", rng_digest())
    # refill the same object and go again with a different bound
    g.add_edges_from(edges)
    g.set_max_clique_size(max(2, m0 - 1))
    cover = call("get_EECC(refill)", g.get_EECC)
    print("rng", rng_digest(), "has_edges", g.has_edges())


def main():
    print("binom", [binom(n, k) for n in range(0, 9) for k in range(0, n + 1)])

    # ---- fixed graphs -------------------------------------------------
    fixed = {
        "util": util_edges(),
        "empty": [],
        "single": [(0, 1)],
        "path": [(0, 1), (1, 2), (2, 3)],
        "triangle": [(0, 1), (1, 2), (0, 2)],
        "two_tri_shared_edge": [(0, 1), (1, 2), (0, 2), (1, 3), (2, 3)],
        "K5": [(i, j) for i in range(5) for j in range(i + 1, 5)],
        "K7": [(i, j) for i in range(7) for j in range(i + 1, 7)],
        "K6_plus_tail": [(i, j) for i in range(6) for j in range(i + 1, 6)]
        + [(5, 6), (6, 7), (7, 5)],
        "strings": [("a", "b"), ("b", "c"), ("a", "c"), ("c", "d"), ("d", "e"),
                    ("c", "e"), ("e", "f")],
        "selfloop": [(0, 0), (0, 1), (1, 2), (0, 2), (2, 2)],
        "big_labels": [(100 + i, 100 + j) for i in range(6) for j in range(i + 1, 6)]
        + [(1000, 100), (1000, 101), (5, 1000)],
        "star": [(0, i) for i in range(1, 8)],
        "isolated_pairs": [(2 * i, 2 * i + 1) for i in range(40)],
        "mixed_num": [(1, 2), (1.0, 3), (2, 3), (3, 4.0), (4, 1), (2.0, 4), (True, 5)],
        "tuples": [((0, 0), (0, 1)), ((0, 1), (1, 1)), ((0, 0), (1, 1)),
                   ((1, 1), (2, 2))],
    }
    for tag, edges in fixed.items():
        for m0 in (2, 3, 4, 6):
            for seed in (0, 7):
                exercise_graph(tag, edges, m0, seed)

    # ---- random graphs ------------------------------------------------
    for k, (n, p) in enumerate(
        [(8, 0.5), (12, 0.4), (15, 0.35), (20, 0.25), (25, 0.2), (30, 0.15),
         (14, 0.7), (40, 0.08), (10, 0.9), (60, 0.05), (120, 0.03)]
    ):
        H = nx.gnp_random_graph(n, p, seed=1000 + k)
        edges = list(H.edges())
        rr = random.Random(k)
        rr.shuffle(edges)
        # relabel some graphs with sparse / large labels to vary set orders
        if k % 3 == 1:
            edges = [(u * 37 + 5, v * 37 + 5) for u, v in edges]
        if k % 3 == 2:
            edges = [(v, u) if rr.random() < 0.5 else (u, v) for u, v in edges]
        for m0 in (2, 3, 4, 5):
            exercise_graph("gnp%d_%s" % (n, p), edges, m0, seed=k + 11)

    for k in range(4):
        H = nx.relaxed_caveman_graph(6, 5, 0.2, seed=k)
        exercise_graph("caveman%d" % k, list(H.edges()), 3 + (k % 3), seed=k)
        H = nx.barabasi_albert_graph(40, 3, seed=k)
        exercise_graph("ba%d" % k, list(H.edges()), 2 + (k % 3), seed=k)

    # ---- many small random graphs, several tie-breaking seeds ------------
    print("=== sweep")
    for k in range(150):
        rr = random.Random(9000 + k)
        n = rr.randint(4, 18)
        p = rr.choice([0.2, 0.35, 0.5, 0.7, 0.85])
        H = nx.gnp_random_graph(n, p, seed=k)
        stride = rr.choice([1, 1, 13, 64, 1025])
        edges = [(u * stride, v * stride) for u, v in H.edges()]
        rr.shuffle(edges)
        for m0 in (2, 3, 4):
            for seed in (1, 2, 3):
                random.seed(seed * 100 + k)
                g = build(edges, m0)
                cover = call("sweep%d m0=%d s=%d" % (k, m0, seed), g.get_EECC)
                print(" rng", rng_digest(), "left", graph_digest(g.G),
                      "ok", cover is not None and check_cover(edges, cover, m0))

    # ---- compute_scores on hand-made inputs ----------------------------
    print("=== compute_scores direct")
    g = EECC()
    cases = [
        [],
        [[3, 1, 2]],
        [[3, 1, 2], [2, 3, 4], [9, 8]],
        [(3, 1, 2), (2, 3, 4), (1, 2)],
        [[1, 2, 3], [1, 2, 3]],
        [[1, 1, 2], [1, 5], [2, 6, 1]],
        [[4, 3, 2, 1], [1, 2, 7], [3, 4, 9], [10, 11, 12], [1, 3]],
        [["b", "a", "c"], ["c", "d", "b"], ["x", "y"]],
        [[1.0, 2, 3], [1, 2.0, 5], [True, 3, 8]],
        [[5, 4, 3, 2, 1, 0], [0, 1, 2, 9, 10, 11], [20, 21, 22], [3, 4, 22]],
    ]
    for k, C in enumerate(cases):
        for init in (0.0, 0, 0.25):
            Cc = [c if isinstance(c, tuple) else list(c) for c in C]
            n = len(Cc)
            ord_ = [-1] * n
            r = [init] * n
            EC = [["pre"]]
            idx = ["pre"]
            call("case%d init=%r" % (k, init), g.compute_scores, Cc, EC, ord_, r, idx)
            print(" C", trepr(Cc), "EC", trepr(EC), "ord", trepr(ord_),
                  "r", trepr(r), "idx", trepr(idx))
    # short ord / r lists -> exception, partial mutation must match
    for k, C in enumerate(cases[2:5]):
        Cc = [list(c) for c in C]
        ord_ = [0]
        r = [0.0, 0.0]
        EC = []
        idx = []
        call("short%d" % k, g.compute_scores, Cc, EC, ord_, r, idx)
        print(" C", trepr(Cc), "EC", trepr(EC), "ord", trepr(ord_), "r", trepr(r),
              "idx", trepr(idx))
    # unhashable vertices: single clique is fine, two cliques raise
    for C in ([[[1], [2], [3]]], [[[1], [2], [3]], [[1], [2]]]):
        Cc = [list(c) for c in C]
        n = len(Cc)
        ord_ = [0] * n
        r = [0.0] * n
        EC = []
        idx = []
        call("unhashable", g.compute_scores, Cc, EC, ord_, r, idx)
        print(" C", repr(Cc), "EC", repr(EC), "ord", ord_, "r", r, "idx", idx)
    # uncomparable vertices
    for m0 in (2, 3):
        h = build([(1, "a"), ("a", 2), (1, 2), (2, 3)], m0)
        call("uncomparable lmc", h.limited_maximal_cliques)
        call("uncomparable eecc", h.get_EECC)
        print(" graph", graph_digest(h.G))

    # ---- m0 oddities -------------------------------------------------
    for m0 in (0, 1):
        h = build(fixed["two_tri_shared_edge"], m0)
        call("m0=%d lmc" % m0, h.limited_maximal_cliques)

    # ---- Network.has_edges / G setter -----------------------------------
    print("=== network")
    nw = Network()
    print(nw.has_edges())
    nw.add_edge((1, 1))
    print(nw.has_edges(), graph_digest(nw.G))
    nw.remove_edge(1, 1)
    print(nw.has_edges())
    nw.add_edges_from([(1, 2), (2, 3)])
    print(nw.has_edges(), nw.has_edges())
    nw.remove_edge(1, 2)
    nw.remove_edge(1, 2)
    nw.remove_edge(7, 8)
    print(nw.has_edges())
    nw.remove_edge(3, 2)
    print(nw.has_edges(), graph_digest(nw.G))
    for cls in (nx.Graph, nx.DiGraph, nx.MultiGraph, nx.MultiDiGraph):
        nw = Network()
        nw.G = cls()
        print(cls.__name__, nw.has_edges())
        nw.G.add_nodes_from(range(5))
        print(cls.__name__, nw.has_edges())
        nw.add_edges_from([(3, 4), (3, 4), (4, 4)])
        print(cls.__name__, nw.has_edges())
        for _ in range(3):
            nw.remove_edge(3, 4)
            nw.remove_edge(4, 4)
            print(cls.__name__, nw.has_edges(), graph_digest(nw.G))
    nw = Network()
    nw.G = object()
    call("object has_edges", nw.has_edges)

    # EECC on a multigraph supplied through the setter
    for m0 in (2, 3):
        random.seed(5)
        h = EECC()
        h.set_max_clique_size(m0)
        h.G = nx.MultiGraph()
        h.add_edges_from([(0, 1), (0, 1), (1, 2), (0, 2), (2, 3), (2, 3), (2, 3)])
        call("multigraph eecc m0=%d" % m0, h.get_EECC)
        print(" graph", graph_digest(h.G), "rng", rng_digest())

    print("final rng", rng_digest())


if __name__ == "__main__":
    main()
