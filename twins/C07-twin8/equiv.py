import sys, os; sys.path.insert(0, os.getcwd())

"""
Deterministic digest of the behaviour of the split-degree and delta joint
degree loaders (every function touched by the clean-up commit), exercised
through their pre-existing public entry points.  Run with cwd = a checkout.
"""
import copy
import hashlib
import random
import warnings
from fractions import Fraction

warnings.simplefilter("ignore")

import numpy as np

from gcmpy.joint_degree.joint_degree_loaders.joint_degree_split_degree import (
    JointDegreeSplitDegree,
)
from gcmpy.joint_degree.joint_degree_loaders.joint_degree_delta import JointDegreeDelta
from gcmpy.joint_degree.joint_degree_distribution import JointDegreeDistribution
from gcmpy.joint_degree.joint_degree_type import JointDegreeType
from gcmpy.names.joint_degree_names import JointDegreeNames as N
from gcmpy.distributions.poisson import poisson
from gcmpy.distributions.power_law import power_law


def rng_digest():
    h = hashlib.sha256()
    h.update(repr(random.getstate()).encode())
    st = np.random.get_state()
    h.update(repr((st[0], st[1].tolist(), st[2], st[3], st[4])).encode())
    return h.hexdigest()[:16]


def seed(s):
    random.seed(s)
    np.random.seed(s)


def show(v):
    if isinstance(v, dict):
        return "{" + ", ".join(f"{show(k)}: {show(x)}" for k, x in v.items()) + "}"
    if isinstance(v, (list, tuple)):
        o, c = ("[", "]") if isinstance(v, list) else ("(", ")")
        return o + ", ".join(show(x) for x in v) + c
    return f"{type(v).__name__}:{v!r}"


class LoggedFp:
    """Degree function that records the order of its evaluations."""

    def __init__(self, fp):
        self.fp = fp
        self.calls = []

    def __call__(self, k):
        self.calls.append(k)
        return self.fp(k)


def attempt(label, fn):
    try:
        out = fn()
        print(f"{label} -> {out}")
    except BaseException as e:  # noqa
        ctx = type(e.__context__).__name__ if e.__context__ is not None else None
        print(f"{label} !! {type(e).__name__}: {e} [context {ctx}]")


def describe(obj):
    lines = []
    lines.append("type=" + repr(obj._type))
    lines.append("attrs=" + repr(sorted(vars(obj))))
    lines.append("jdd=" + show(obj.jdd))
    lines.append("motif_sizes=" + show(obj.motif_sizes))
    lines.append("probs=" + show(obj._probs))
    lines.append("bounds=" + show(obj._low_high_degree_bound))
    if hasattr(obj, "_target_k"):
        lines.append("target=" + show(obj._target_k))
    return "\n    ".join(lines)


def base_params(fp, probs, sizes, bounds):
    return {
        N.FP: fp,
        N.PROBS: probs,
        N.MOTIF_SIZES: sizes,
        N.LOW_HIGH_DEGREE_BOUND: bounds,
    }


CASES = [
    ("pois2.5", lambda: poisson(2.5), [0.8, 0.2], [2, 3], (0, 10)),
    ("pl2.5", lambda: power_law(2.5), [0.8, 0.2], [2, 3], (1, 30)),
    ("pois4-3top", lambda: poisson(4.0), [0.5, 0.3, 0.2], [2, 3, 4], (1, 14)),
    ("pois3-4top", lambda: poisson(3.0), [0.4, 0.3, 0.2, 0.1], [2, 3, 4, 5], (2, 12)),
    ("single", lambda: poisson(3.0), [1.0], [2], (0, 8)),
    ("intprobs", lambda: poisson(3.0), [1, 1], [2, 3], [0, 6]),
    ("intsingle", lambda: poisson(3.0), [1], [2], [1, 5]),
    ("zero-first", lambda: poisson(3.0), [0.0, 1.0], [2, 3], (2, 9)),
    ("zero-second", lambda: poisson(3.0), [1.0, 0.0], [2, 3], (0, 9)),
    ("fractions", lambda: poisson(2.0), [Fraction(2, 3), Fraction(1, 3)], [2, 3], (0, 7)),
    ("npfloats", lambda: poisson(2.0), list(np.array([0.7, 0.2, 0.1])), [2, 3, 4], (0, 9)),
    ("nparray", lambda: poisson(2.0), np.array([0.6, 0.4]), [2, 3], np.array([1, 8])),
    ("empty-range", lambda: poisson(2.0), [0.8, 0.2], [2, 3], (5, 5)),
    ("reversed-range", lambda: poisson(2.0), [0.8, 0.2], [2, 3], (7, 3)),
    ("unnormalised", lambda: poisson(2.0), [3.0, 0.5], [2, 3], (0, 8)),
    ("tiny", lambda: poisson(2.0), [1e-200, 1e-200], [2, 3], (0, 6)),
    ("const-fp", lambda: (lambda k: 1), [0.8, 0.2], [2, 3], (0, 5)),
]

print("=== split-degree loader ===")
for name, mk, probs, sizes, bounds in CASES:
    seed(11)
    fp = LoggedFp(mk())
    params = base_params(fp, copy.deepcopy(probs), list(sizes), copy.deepcopy(bounds))
    keys_before = list(params)

    def run():
        obj = JointDegreeSplitDegree(params)
        return describe(obj)

    attempt(f"split[{name}]", run)
    print(f"    fp calls={fp.calls} params keys same={list(params) == keys_before}")
    print(f"    inputs after: probs={show(list(params[N.PROBS]))} sizes={show(params[N.MOTIF_SIZES])}")
    print(f"    rng={rng_digest()}")

print("=== delta loader ===")
for name, mk, probs, sizes, bounds in CASES:
    lo, hi = int(bounds[0]), int(bounds[1])
    for target in (lo, lo + 1, 3, 6, hi - 1, hi, hi + 5, -1, 0, 3.0, None):
        seed(12)
        fp = LoggedFp(mk())
        params = base_params(fp, copy.deepcopy(probs), list(sizes), copy.deepcopy(bounds))
        params[N.TARGET_K] = target

        def run():
            obj = JointDegreeDelta(params)
            return describe(obj)

        attempt(f"delta[{name}, target={target!r}]", run)
        print(f"    fp calls={fp.calls} rng={rng_digest()}")

print("=== error paths: missing / malformed parameters ===")
full = base_params(poisson(2.0), [0.8, 0.2], [2, 3], (0, 6))
full[N.TARGET_K] = 3
for cls in (JointDegreeSplitDegree, JointDegreeDelta):
    for missing in (N.FP, N.PROBS, N.MOTIF_SIZES, N.LOW_HIGH_DEGREE_BOUND, N.TARGET_K):
        p = {k: v for k, v in full.items() if k != missing}
        attempt(f"{cls.__name__} without {missing.name}", lambda: describe(cls(p)))
    attempt(f"{cls.__name__} empty params", lambda: describe(cls({})))
    attempt(f"{cls.__name__} params None", lambda: describe(cls(None)))
    attempt(f"{cls.__name__} no args", lambda: cls())
    for label, override in [
        ("probs empty", {N.PROBS: []}),
        ("probs all zero", {N.PROBS: [0.0, 0.0]}),
        ("probs zero, int", {N.PROBS: [0, 0]}),
        ("motif sizes empty", {N.MOTIF_SIZES: []}),
        ("motif sizes shorter", {N.MOTIF_SIZES: [2]}),
        ("motif sizes longer", {N.MOTIF_SIZES: [2, 3, 4]}),
        ("fp not callable", {N.FP: 3}),
        ("fp raises", {N.FP: lambda k: 1 / (k - 2)}),
        ("fp zero everywhere", {N.FP: lambda k: 0.0}),
        ("fp strings", {N.FP: lambda k: "x"}),
        ("negative bounds", {N.LOW_HIGH_DEGREE_BOUND: (-3, 4)}),
        ("float bounds", {N.LOW_HIGH_DEGREE_BOUND: (0.0, 4.0)}),
        ("probs strings", {N.PROBS: ["a", "b"]}),
    ]:
        p = dict(full)
        p.update(override)
        attempt(f"{cls.__name__} {label}", lambda: describe(cls(p)))

print("=== get_valid_joint_degrees ===")
obj = JointDegreeSplitDegree(base_params(poisson(2.0), [0.5, 0.3, 0.2], [2, 3, 4], (0, 4)))
for rem in (-2, 0, 1, 2, 5, 9):
    for top in (1, 2, 3, 4):
        attempt(f"gvjd({rem},{top})", lambda: show(list(obj.get_valid_joint_degrees(rem, top))))
for rem, top in ((3, 0), (3, -1), (3, -2), (2.5, 2), ("a", 1), ("a", 2)):
    attempt(f"gvjd({rem!r},{top!r})", lambda: show(list(obj.get_valid_joint_degrees(rem, top))))
gen = obj.get_valid_joint_degrees(4, 2)
print("generator type:", type(gen).__name__)
first = next(gen)
first.append(99)  # rows handed out must be independent of later rows
print("after mutation of first row:", show(first), show(list(gen)))
attempt("lazy: nothing runs before iteration", lambda: type(obj.get_valid_joint_degrees(3, 0)).__name__)

print("=== calc_prob_of_joint_degree ===")
for probs in ([0.8, 0.2], [0.5, 0.3, 0.2], [1, 1], [2, 3], [0.0, 1.0], [0, 2],
              [Fraction(1, 2), Fraction(1, 3)], [np.float64(0.8), np.float64(0.2)],
              np.array([0.8, 0.2]), (0.8, 0.2)):
    o = JointDegreeSplitDegree(base_params(poisson(2.0), probs, [2, 3, 4][: len(probs)], (0, 0)))
    n = len(probs)
    jds = [(), (0,) * n, (1,) * n, (3, 2, 1)[:n], [3, 2, 1][:n], (5,), (0, 7)[:n],
           (-1,) * n, (2.5,) * n, (1000,) * n, (0, 0, 0)[:n]]
    for jd in jds:
        attempt(f"calc probs={show(list(probs))} jd={jd!r}", lambda: show(o.calc_prob_of_joint_degree(jd)))
    attempt(f"calc probs={show(list(probs))} jd=None", lambda: show(o.calc_prob_of_joint_degree(None)))
    attempt(f"calc probs={show(list(probs))} jd='ab'", lambda: show(o.calc_prob_of_joint_degree("ab"[:n])))

print("=== resolve_degree / create_jdd: repeated calls on one object ===")
for cls, extra in ((JointDegreeSplitDegree, {}), (JointDegreeDelta, {N.TARGET_K: 4})):
    fp = LoggedFp(poisson(2.5))
    p = base_params(fp, [0.8, 0.2], [2, 3], (1, 7))
    p.update(extra)
    o = cls(p)
    print(cls.__name__, "initial:", show(o.jdd))
    o.resolve_degree(8, 0.25)
    print("  +resolve(8, .25):", show(o.jdd))
    o.resolve_degree(8, 0.5)
    print("  +resolve(8, .5) overwrite:", show(o.jdd))
    o.resolve_degree(0, 1)
    print("  +resolve(0, 1):", show(o.jdd))
    attempt("  resolve(-1, .1)", lambda: (o.resolve_degree(-1, 0.1), show(o.jdd))[1])
    attempt("  resolve(3, 'x')", lambda: (o.resolve_degree(3, "x"), show(o.jdd))[1])
    before = dict(o.jdd)
    o._probs = [0.0, 0.0]
    attempt("  resolve(3, .1) zero probs", lambda: o.resolve_degree(3, 0.1))
    print("  jdd untouched by failure:", before == o.jdd, list(before) == list(o.jdd))
    o._probs = [0.3, 0.7]
    o.create_jdd()
    print("  create_jdd again (new probs):", show(o.jdd))
    o.create_jdd()
    print("  create_jdd third time:", show(o.jdd))
    o.jdd = {(9, 9): 1.0}
    o.motif_sizes = [2, 3]
    o._low_high_degree_bound = [2, 5]
    if hasattr(o, "_target_k"):
        o._target_k = 2
    o.create_jdd()
    print("  create_jdd after setters:", show(o.jdd))
    print("  fp calls:", fp.calls)
    print("  attrs:", sorted(vars(o)))

print("=== through JointDegreeDistribution.load_joint_degree and sampling ===")
for name, mk, probs, sizes, bounds in CASES[:5]:
    for jtype, extra in ((JointDegreeType.SPLIT_DEGREE, {}), (JointDegreeType.DELTA, {N.TARGET_K: 3}),
                         (JointDegreeType.DELTA, {N.TARGET_K: 100})):
        seed(2024)
        fp = LoggedFp(mk())
        p = base_params(fp, list(probs), list(sizes), bounds)
        p[N.JOINT_DEGREE_TYPE] = jtype
        p.update(extra)

        def run():
            o = JointDegreeDistribution.load_joint_degree(p)
            jds1 = o.sample_jds_from_jdd(500)
            jds2 = o.sample_jds_from_jdd(37)
            h = hashlib.sha256(repr((jds1, jds2)).encode()).hexdigest()[:16]
            return f"{type(o).__name__} jdd={show(o.jdd)} samples={h} head={jds1[:6]} tail={jds2[-4:]}"

        attempt(f"load[{name},{jtype.value},{extra.get(N.TARGET_K)}]", run)
        print(f"    fp calls={fp.calls} rng={rng_digest()}")
attempt("load string type", lambda: type(JointDegreeDistribution.load_joint_degree(
    {**base_params(poisson(2.0), [0.8, 0.2], [2, 3], (0, 5)), N.JOINT_DEGREE_TYPE: "split_degree"})).__name__)
attempt("load delta without target", lambda: type(JointDegreeDistribution.load_joint_degree(
    {**base_params(poisson(2.0), [0.8, 0.2], [2, 3], (0, 5)), N.JOINT_DEGREE_TYPE: "delta"})).__name__)

print("=== the test-suite configuration (power law, 1..1000) ===")
for cls, extra in ((JointDegreeSplitDegree, {}), (JointDegreeDelta, {N.TARGET_K: 3})):
    seed(7)
    p = base_params(power_law(2.5), [0.8, 0.2], [2, 3], (1, 200))
    p.update(extra)
    o = cls(p)
    h = hashlib.sha256(show(o.jdd).encode()).hexdigest()
    jds = o.sample_jds_from_jdd(2000)
    print(cls.__name__, len(o.jdd), h, hashlib.sha256(repr(jds).encode()).hexdigest()[:16], rng_digest())

print("=== subclass hooks still honoured ===")


class Tracing(JointDegreeDelta):
    def __init__(self, params):
        self.trace = []
        super().__init__(params)

    def calc_prob_of_joint_degree(self, jd):
        self.trace.append(("calc", tuple(jd)))
        return super().calc_prob_of_joint_degree(jd)

    def resolve_degree(self, k, prob_overall_k):
        self.trace.append(("resolve", k, repr(prob_overall_k)))
        return super().resolve_degree(k, prob_overall_k)

    def normalise_jdd(self):
        self.trace.append(("normalise", len(self._jdd)))
        return super().normalise_jdd()

    def create_jdd(self):
        self.trace.append(("create",))
        return super().create_jdd()


p = base_params(poisson(2.0), [0.8, 0.2], [2, 3], (0, 7))
p[N.TARGET_K] = 5
t = Tracing(p)
print(t.trace)
print(show(t.jdd))
print("final rng", rng_digest())
