import sys, os; sys.path.insert(0, os.getcwd())
import hashlib
import random
import copy

import numpy as np

from gcmpy.joint_degree.joint_degree_distribution import JointDegreeDistribution
from gcmpy.joint_degree.joint_degree_loaders.joint_degree_manual import JointDegreeManual
from gcmpy.joint_degree.joint_degree_loaders.joint_degree_empirical import JointDegreeEmpirical
from gcmpy.names.joint_degree_names import JointDegreeNames as N

random.seed(20261004)
np.random.seed(20261004)

LINES = []


def h(obj):
    if hasattr(obj, "__next__"):
        obj = "<iterator>"
    return hashlib.sha256(repr(obj).encode()).hexdigest()[:16]


def rng():
    return h(random.getstate()) + "/" + h(np.random.get_state()[1].tolist())


def emit(tag, *parts):
    LINES.append(" | ".join([tag] + [str(p) for p in parts]))


def manual(jdd, sizes):
    return JointDegreeDistribution.load_joint_degree(
        {N.JOINT_DEGREE_TYPE: "manual", N.JDD: jdd, N.MOTIF_SIZES: sizes}
    )


def call_hl(tag, obj, jds):
    """handshaking_lemma on a given argument: result, identity, mutation of the
    argument, exception type, RNG state."""
    before = copy.deepcopy(jds) if not hasattr(jds, "__next__") else None
    try:
        out = obj.handshaking_lemma(jds)
        same = out is jds
        emit(tag, "ok", h(out), type(out).__name__, "same=%s" % same,
             "arg=" + h(jds), "sizes=" + repr(obj.motif_sizes), rng())
        if isinstance(out, list) and len(out) <= 12:
            emit(tag + ".val", repr(out))
    except Exception as e:
        emit(tag, "EXC", type(e).__name__, "arg=" + h(jds), "before=" + h(before),
             "sizes=" + repr(obj.motif_sizes), rng())


def call_sample(tag, obj, n):
    jdd_before = h(obj.jdd)
    try:
        out = obj.sample_jds_from_jdd(n)
        tot = list(map(sum, zip(*out))) if out else []
        emit(tag, "ok", h(out), len(out), tot, "jdd_same=%s" % (h(obj.jdd) == jdd_before),
             [type(x).__name__ for x in out[:3]], rng())
        if len(out) <= 8:
            emit(tag + ".val", repr(out))
    except Exception as e:
        emit(tag, "EXC", type(e).__name__, "jdd_same=%s" % (h(obj.jdd) == jdd_before), rng())


# ---------------------------------------------------------------- handshaking_lemma, direct
o = manual({(1, 1): 1.0}, [2, 3])
call_hl("hl.empty", o, [])
call_hl("hl.one", o, [(1, 1)])
call_hl("hl.one.zero", o, [(0, 0)])
call_hl("hl.already", o, [(1, 2), (1, 1)])
call_hl("hl.lists", o, [[1, 1], [2, 3], [0, 1]])
call_hl("hl.mixed", o, [(1, 1), [2, 3], (0, 1)])
call_hl("hl.tuple_arg", o, ((1, 1), (2, 2)))
call_hl("hl.tuple_arg_ok", o, ((1, 2), (1, 1)))
call_hl("hl.ragged", o, [(1, 1, 5), (2,), (0, 1)])
call_hl("hl.toolong", o, [(1, 1, 1), (1, 1, 1)])
call_hl("hl.tooshort", o, [(1,), (2,)])
call_hl("hl.floats", o, [(1.5, 1), (2, 2)])
call_hl("hl.floats_int", o, [(1.0, 1.0), (2.0, 3.0)])
call_hl("hl.neg", o, [(-1, -1), (-2, -2), (0, -4)])
call_hl("hl.bool", o, [(True, False), (True, True)])
call_hl("hl.str", o, [("a", "b")])
call_hl("hl.none", o, None)
call_hl("hl.int_elems", o, [1, 2, 3])
call_hl("hl.gen", o, (t for t in [(1, 1), (2, 2)]))
call_hl("hl.np", o, [tuple(r) for r in np.array([[1, 1], [2, 3], [4, 4]])])
call_hl("hl.npu", o, [tuple(r) for r in np.array([[1, 1], [2, 3], [4, 4]], dtype=np.uint8)])
call_hl("hl.dict", o, {0: (1, 1), 1: (2, 2)})
call_hl("hl.strs_as_rows", o, ["12", "34"])
call_hl("hl.immut_rows", o, [frozenset([1]), frozenset([2])])

for sizes in ([1], [2], [3], [5], [2, 3], [3, 2], [2, 3, 4], [7, 1, 2], [4, 4, 4, 4], [50]):
    o = manual({tuple([1] * len(sizes)): 1.0}, sizes)
    for n in (1, 2, 3, 7, 40):
        for rep in range(3):
            rows = [tuple(random.randrange(0, 6) for _ in sizes) for _ in range(n)]
            call_hl("hl.rand.%s.%d.%d" % (sizes, n, rep), o, rows)

# invalid motif sizes
for sizes in ([0], [2, 0], [-2], [-3, 2], [2.0], [2.5], [-2.0], [True], [None], ["2"], [],
              (2, 3), None, [2], [1000], [float("nan")], [float("inf")]):
    o = manual({(1, 1): 1.0}, sizes)
    call_hl("hl.badsizes.%r" % (sizes,), o, [(1, 1), (2, 5), (0, 1)])
    call_hl("hl.badsizes1.%r" % (sizes,), o, [(3,), (2,), (0,)])
    call_hl("hl.badsizes.empty.%r" % (sizes,), o, [])

# repeated calls on one object and one list, sizes changed through the public setter
o = manual({(1, 1): 1.0}, [3, 4])
rows = [(1, 1), (0, 0), (2, 1)]
for rep in range(6):
    call_hl("hl.repeat.%d" % rep, o, rows)
    rows.append((rep, 1))
o.motif_sizes = [5, 2]
for rep in range(4):
    call_hl("hl.repeat2.%d" % rep, o, rows)
    rows.append((1, rep))

# ---------------------------------------------------------------- sample_jds_from_jdd
jdds = {
    "single": ({(1,): 1.0}, [2]),
    "two": ({(1, 0): 0.3, (0, 1): 0.7}, [2, 3]),
    "unnorm": ({(1, 2): 3, (2, 2): 5, (0, 1): 2}, [2, 3]),
    "zerow": ({(1, 2): 0.0, (2, 2): 1.0}, [2, 3]),
    "three": ({(1, 2, 3): 0.2, (0, 0, 0): 0.5, (4, 1, 1): 0.3}, [2, 3, 4]),
    "big": ({(i, j): 1.0 / (1 + i + j) for i in range(6) for j in range(4)}, [2, 5]),
    "allzero": ({(0, 0): 1.0}, [2, 3]),
    "listkeys_as_tuples_of_float": ({(1.0, 2.0): 1.0}, [2, 3]),
    "strkeys": ({"ab": 1.0, "cd": 2.0}, [2, 3]),
    "intkeys": ({1: 1.0, 2: 2.0}, [2]),
    "ragged": ({(1, 2): 1.0, (1,): 1.0, (1, 2, 3): 1.0}, [2, 3]),
    "nankey": ({(float("nan"), 1): 1.0, (1, 1): 1.0}, [2, 3]),
}
for name, (jdd, sizes) in jdds.items():
    o = manual(jdd, sizes)
    for n in (0, 1, 2, 3, 10, 101, 1000):
        call_sample("s.%s.%d" % (name, n), o, n)
    for rep in range(5):
        call_sample("s.%s.rep%d" % (name, rep), o, 17)

# error paths of sampling
for name, jdd in [("empty", {}), ("none", None), ("neg", {(1, 1): -1.0}), ("allzero_w", {(1, 1): 0.0}),
                  ("inf", {(1, 1): float("inf")}), ("nan", {(1, 1): float("nan")}),
                  ("strw", {(1, 1): "x"}), ("nonew", {(1, 1): None}), ("list", [((1, 1), 1.0)]),
                  ("negmix", {(1, 1): -1.0, (2, 2): 3.0})]:
    o = manual(jdd, [2, 3])
    for n in (0, 1, 5, -1, 2.0, None, "3", True):
        call_sample("s.err.%s.%r" % (name, n), o, n)

# short / invalid motif sizes met through sampling
for sizes in ([2], [], [0, 3], None, [2, 3, 4], [-2, 3]):
    o = manual({(1, 2): 0.5, (2, 2): 0.5}, sizes)
    for n in (0, 1, 4, 9):
        call_sample("s.sizes.%r.%d" % (sizes, n), o, n)

# setter-driven changes on one object
o = manual({(1, 1): 1.0}, [2, 2])
call_sample("s.set.0", o, 5)
o.jdd = {(3, 0): 1.0, (0, 3): 1.0}
call_sample("s.set.1", o, 5)
o.motif_sizes = [4, 5]
call_sample("s.set.2", o, 5)
o.jdd = None
call_sample("s.set.3", o, 5)

# ---------------------------------------------------------------- empirical loader (convert_jds_to_jdd) then sampling
def empirical(jds, sizes):
    return JointDegreeDistribution.load_joint_degree(
        {N.JOINT_DEGREE_TYPE: "empirical", N.JDS: jds, N.MOTIF_SIZES: sizes}
    )


for name, jds in [("a", [(1, 1), (1, 1), (2, 0), (0, 3)]), ("b", [(0, 0)]),
                  ("c", [(i % 3, i % 5) for i in range(30)]),
                  ("nan", [(float("nan"), 1)] * 2 + [(1, 1)])]:
    o = empirical(jds, [2, 3])
    emit("e.%s.jdd" % name, repr(o.jdd), repr(list(o.jdd.items())), rng())
    for n in (0, 1, 6, 50):
        call_sample("e.%s.%d" % (name, n), o, n)
    for rep in range(3):
        try:
            o.convert_jds_to_jdd(jds[: rep + 1])
            emit("e.%s.conv%d" % (name, rep), repr(list(o.jdd.items())), rng())
        except Exception as e:
            emit("e.%s.conv%d" % (name, rep), "EXC", type(e).__name__, repr(o.jdd), rng())
        call_sample("e.%s.conv%d.s" % (name, rep), o, 9)

for name, jds in [("empty", []), ("unhash", [[1, 1], [2, 2]]), ("gen", (t for t in [(1, 1)])),
                  ("none", None), ("dict", {(1, 1): 3, (2, 2): 1}), ("str", "aab"),
                  ("mixed", [(1, 1), "x", 3, None, (1, 1)]), ("int", 5),
                  ("counter_neg", {(1, 1): -3, (2, 2): 0})]:
    o = manual({(9, 9): 1.0}, [2, 3])
    try:
        o.convert_jds_to_jdd(jds)
        emit("conv.%s" % name, "ok", repr(list(o.jdd.items())) if o.jdd is not None else None, rng())
    except Exception as e:
        emit("conv.%s" % name, "EXC", type(e).__name__, repr(o.jdd), rng())
    call_sample("conv.%s.s" % name, o, 4)
    try:
        o.normalise_jdd()
        emit("conv.%s.norm" % name, "ok", repr(o.jdd), rng())
    except Exception as e:
        emit("conv.%s.norm" % name, "EXC", type(e).__name__, repr(o.jdd), rng())

try:
    empirical([], [2, 3])
    emit("e.empty", "ok")
except Exception as e:
    emit("e.empty", "EXC", type(e).__name__)

# ---------------------------------------------------------------- every loader type through the public factory, then sampling
def load(kind, **kw):
    params = {N.JOINT_DEGREE_TYPE: kind}
    params.update({getattr(N, k): v for k, v in kw.items()})
    return JointDegreeDistribution.load_joint_degree(params)


def pois(k):
    import math
    return math.exp(-2.0) * 2.0 ** k / math.factorial(k)


LOADERS = [
    ("function", dict(MOTIF_SIZES=[2, 3], FP=lambda jd: 1.0 / (1 + sum(jd)), LOW_HIGH_DEGREE_BOUND=[(0, 3), (0, 2)])),
    ("marginal", dict(MOTIF_SIZES=[2, 3], ARR_FP=[pois, pois], LOW_HIGH_DEGREE_BOUND=[(0, 6), (0, 4)])),
    ("marginal", dict(MOTIF_SIZES=[2, 3], ARR_FP=[pois, pois], LOW_HIGH_DEGREE_BOUND=[(0, 6), (0, 4)],
                      USE_SAMPLING=True, N_SAMPLES=500)),
    ("marginal", dict(MOTIF_SIZES=[2, 3, 4], ARR_FP=[pois, pois, pois], LOW_HIGH_DEGREE_BOUND=[(1, 3), (0, 2), (0, 1)],
                      USE_SAMPLING=True, N_SAMPLES=1)),
    ("split_degree", dict(MOTIF_SIZES=[2, 3], FP=pois, PROBS=[0.6, 0.4], LOW_HIGH_DEGREE_BOUND=(0, 8))),
    ("delta", dict(MOTIF_SIZES=[2, 3], FP=pois, PROBS=[0.6, 0.4], LOW_HIGH_DEGREE_BOUND=(0, 8), TARGET_K=4)),
    ("cover", dict(COVER=[[0, 1], [1, 2], [2, 3, 4], [4, 5, 0], [5, 6]])),
    ("cover", dict(COVER=[[1, 2, 3], [3, 4, 5], [5, 1, 6, 2]])),
    ("cover", dict(COVER=[[0, 1]])),
    ("empirical", dict(MOTIF_SIZES=[2, 4], JDS=[(1, 0), (1, 0), (0, 2), (3, 1), (1, 0)])),
]
for idx, (kind, kw) in enumerate(LOADERS):
    try:
        o = load(kind, **kw)
    except Exception as e:
        emit("ld.%d.%s" % (idx, kind), "EXC", type(e).__name__, rng())
        continue
    emit("ld.%d.%s" % (idx, kind), h(list(o.jdd.items())), len(o.jdd), repr(o.motif_sizes), rng())
    emit("ld.%d.%s.head" % (idx, kind), repr(list(o.jdd.items())[:4]))
    outs = []
    for n in (0, 1, 5, 64):
        call_sample("ld.%d.%s.%d" % (idx, kind, n), o, n)
    a1 = o.sample_jds_from_jdd(6)
    a2 = o.sample_jds_from_jdd(6)
    keys_before = h(list(o.jdd.items()))
    a1.append("sentinel")
    a1[0] = None
    emit("ld.%d.%s.alias" % (idx, kind), a1 is a2, h(a2), keys_before == h(list(o.jdd.items())), rng())
    try:
        o.create_jdd()
        emit("ld.%d.%s.recreate" % (idx, kind), h(list(o.jdd.items())), rng())
    except Exception as e:
        emit("ld.%d.%s.recreate" % (idx, kind), "EXC", type(e).__name__, rng())
    call_sample("ld.%d.%s.after" % (idx, kind), o, 12)

# convert_jds_to_jdd called repeatedly on one object: key order, float reprs, state after a failure
o = manual({(9, 9): 1.0}, [2, 3])
SEQS = [
    [(2, 2), (1, 1), (2, 2), (0, 0), (1, 1), (2, 2)],
    [(0, 0)] * 7,
    [(i % 7, (i * i) % 3) for i in range(97)],
    [(1, 1), (1.0, 1.0), (True, True), (2, 2)],
    [(1, 1), [2, 2]],
    [],
    [(3, 3)],
    ((1, 2), (1, 2), (2, 1)),
    [None, None, (1, 1)],
]
for idx, seq in enumerate(SEQS):
    try:
        r = o.convert_jds_to_jdd(seq)
        emit("cv.%d" % idx, "ok", repr(r), repr(list(o.jdd.items())), rng())
    except Exception as e:
        emit("cv.%d" % idx, "EXC", type(e).__name__, repr(o.jdd), rng())
    call_sample("cv.%d.s" % idx, o, 5)

# ---------------------------------------------------------------- long stream: any drift in RNG consumption shows up
o = manual({(1, 0): 0.25, (0, 1): 0.25, (2, 2): 0.5}, [3, 4])
acc = hashlib.sha256()
for rep in range(300):
    out = o.sample_jds_from_jdd(rep % 23)
    acc.update(repr(out).encode())
emit("stream", acc.hexdigest(), rng())

for line in LINES:
    print(line)
print("DIGEST", hashlib.sha256("\n".join(LINES).encode()).hexdigest(), len(LINES))
print("RNG", rng())
